(* GENESIS of x/stream ON THE BYTE STORE, ALONG ANY HISTORY of the on-store message server.

   proofs/GeneratedStreamGenesisOnStoreEq.v proves the byte-identical round trip (export, then import into the empty
   store) for a store that holds nothing but the module's keys ([module_keys]), has its Params cell written and a fee that
   validates - and proves these of every store InitGenesis builds from the empty one.  Here: they are INVARIANTS of the
   on-store message server (GeneratedStreamKeeperOnStore.v: S.go_CreateStream, S.go_ClaimStream, S.go_TopUpDeposit,
   S.go_UpdateFlowRate, S.go_CancelStream, S.go_UpdateParams), hence the round trip holds after any history [s_run].

   part 1  the writes of the message server: every function of the rendering changes the byte store through
           os_str_SetStream (okv_set at a stream key), os_str_DeleteStream (okv_del at a stream key) and os_str_SetParams
           (okv_set at the Params key, of VALIDATED parameters) only: any property of stores closed under these three
           holds of the store every function returns ([keeps_*]) - for every message, whatever its addresses;
   part 2  [module_keys] and [store_ok] (module_keys + the Params cell holds parameters that validate) are closed under
           the three writes: invariants of one message ([store_ok_deliver], [store_ok_step]) and of histories
           ([store_ok_run]);
   part 3  the round trip along any history: from related worlds ([os_run_roundtrip_bytes]) and from the store
           InitGenesis builds from the empty one ([os_genesis_run_roundtrip]) - about every bank over which the
           re-import returns;
   part 3b over the bank of the final world the re-import DOES return, for a run inside [str_inv] over a [bank_wf] bank
           ([os_run_roundtrip_total], [os_genesis_run_roundtrip_total]): [bank_wf] is kept by the message server
           ([bank_wf_run]), rendering (1) imports any reordering of its export ([gen_str_import_reordered]);
   part 4  a concrete run; two hypotheses that are needed ([os_run_roundtrip_dom_refuted],
           [os_export_imports_wf_refuted]). *)
From MC Require Import lib.Prelude lib.AMap lib.GoSdk GeneratedFns GeneratedStreamTypes model.Bank model.Stream
  model.StreamSpec model.Keys model.KeyPrims model.KVStore model.StoreCodecPrims model.StreamKeeperPrims model.StreamStoreWorld
  model.Genesis model.StreamGenSpec model.StreamGenesisGenSpec GeneratedKeys GeneratedStreamStore.
From MC Require GeneratedStreamKeeper GeneratedStreamKeeperOnStore.
From MC Require Import proofs.StreamProofs proofs.AppParamsProofs proofs.GenesisProofs.
From MC Require Import proofs.BankProofs proofs.KeysProofs proofs.KVStoreFacts proofs.KVStoreFacts2Stream proofs.GeneratedStreamParamsEq
  proofs.GeneratedStreamStoreEq proofs.GeneratedStreamStoreRefines
  proofs.GeneratedStreamOnStoreEq proofs.GeneratedStreamGenesisEq proofs.GeneratedStreamExportEq
  proofs.GeneratedStreamGenesisOnStoreEq.
From Coq Require Import NArith ZArith List Bool Lia Permutation.
Import ListNotations.
Local Open Scope Z_scope.

(* ================================================================== *)
(* part 1: the writes of the message server                             *)
(* ================================================================== *)

(* the store of the world a computation returns has property Q (nothing is said of a computation that fails: it returns
   no world - the runner [hrun] keeps the world it started the message in) *)
Definition keeps (Q : sstore -> Prop) {R} (c : outcome (sworld * R)) : Prop :=
  match c with Ok x => Q (sw_store (fst x)) | _ => True end.

Lemma keeps_bind (Q : sstore -> Prop) {R R'} (a : outcome (sworld * R)) (k : sworld * R -> outcome (sworld * R')) :
  keeps Q a -> (forall w r, Q (sw_store w) -> keeps Q (k (w, r))) -> keeps Q (obind a k).
Proof. intros H K. destruct a as [[w r]|e|p]; cbn [obind keeps]; [apply K; exact H | exact I | exact I]. Qed.

Lemma keeps_bind_pure (Q : sstore -> Prop) {A R'} (p : outcome A) (k : A -> outcome (sworld * R')) :
  (forall x, keeps Q (k x)) -> keeps Q (obind p k).
Proof. intros K. destruct p as [x|e|q]; cbn [obind keeps]; [apply K | exact I | exact I]. Qed.

Section Writes.

Variable Q : sstore -> Prop.
(* Q is closed under the three writes *)
Hypothesis Q_set_stream : forall s r sn x, Q s -> Q (okv_set s (skey r sn) (SV_Stream x)).
Hypothesis Q_del_stream : forall s r sn, Q s -> Q (okv_del s (skey r sn)).
Hypothesis Q_set_params : forall s p, str_params_valid (Params_ValidatorFee p) = true -> Q s ->
  Q (okv_set s stream_ParamsKey (SV_Params p)).

(* ---- the adapter primitives ---- *)
Lemma keeps_SetStream w r sn g : Q (sw_store w) -> keeps Q (os_str_SetStream w r sn g).
Proof.
  intros H. unfold os_str_SetStream.
  destruct (go_st_SetStream (sw_store w) (sw_emb w r) (sw_emb w sn) g) as [[s1 u]|e|p] eqn:E; cbn [obind keeps]; try exact I.
  apply SetStream_inv in E as (-> & _). cbn [fst with_sstore sw_store]. apply Q_set_stream, H.
Qed.

Lemma keeps_DeleteStream w r sn : Q (sw_store w) -> keeps Q (os_str_DeleteStream w r sn).
Proof.
  intros H. unfold os_str_DeleteStream.
  destruct (go_st_DeleteStream (sw_store w) (sw_emb w r) (sw_emb w sn)) as [[s1 u]|e|p] eqn:E; cbn [obind keeps]; try exact I.
  apply DeleteStream_inv in E as (-> & _). cbn [fst with_sstore sw_store]. apply Q_del_stream, H.
Qed.

Lemma keeps_SetParams w p : Q (sw_store w) -> keeps Q (os_str_SetParams w p).
Proof.
  intros H. unfold os_str_SetParams.
  destruct (go_st_SetParams (sw_store w) p) as [[s1 u]|e|q] eqn:E; cbn [obind keeps]; try exact I.
  apply SetParams_inv in E as (V & ->). cbn [fst with_sstore sw_store]. apply Q_set_params; [|exact H].
  rewrite gen_str_Params_Validate_eq in V. destruct (str_params_valid (Params_ValidatorFee p)); [reflexivity | discriminate V].
Qed.

(* x/bank does not touch the module's store *)
Lemma keeps_bank w from to cs : Q (sw_store w) -> keeps Q (do b <- send_all (sw_bank w) from to cs; Ok (with_sbank w b, tt)).
Proof. intros H. destruct (send_all (sw_bank w) from to cs) as [b|e|p]; cbn [obind keeps]; [exact H | exact I | exact I]. Qed.

Lemma keeps_SendM2M w from to cs : Q (sw_store w) -> keeps Q (os_bank_SendCoinsFromModuleToModule w from to cs).
Proof. apply keeps_bank. Qed.
Lemma keeps_SendA2M w from to cs : Q (sw_store w) -> keeps Q (os_bank_SendCoinsFromAccountToModule w from to cs).
Proof. apply keeps_bank. Qed.
Lemma keeps_SendM2A w from to cs : Q (sw_store w) -> keeps Q (os_bank_SendCoinsFromModuleToAccount w from to cs).
Proof. intros H. unfold os_bank_SendCoinsFromModuleToAccount. destruct (blocked to); [exact I | apply keeps_bank, H]. Qed.

(* ---- the walk over a body of the rendering (as [swalk] of proofs/GeneratedStreamOnStoreEq.v, one-sided) ---- *)
Ltac kred := cbv beta iota zeta.

Ltac kprim :=
  first [ apply keeps_SetStream | apply keeps_DeleteStream | apply keeps_SetParams
        | apply keeps_SendM2M | apply keeps_SendA2M | apply keeps_SendM2A ]; assumption.

Ltac kcall := fail.

Ltac kstep :=
  first
  [ match goal with
    | |- context [match ?v with pair _ _ => _ end] => is_var v; destruct v
    end
  | match goal with
    | |- keeps _ (Err _) => exact I
    | |- keeps _ (Panic _) => exact I
    | |- keeps _ (Ok (_, _)) => cbn [keeps fst]; assumption
    | |- keeps _ (if ?b then _ else _) => destruct b
    | |- keeps _ (obind _ _) =>
        first [ apply keeps_bind; [ first [ kprim | kcall ] | intros ? ? ? ]
              | apply keeps_bind_pure; intro ]
    end ].

Ltac kwalk := kred; repeat (kstep; kred).

(* ---- the five keeper functions ---- *)
Theorem keeps_ClaimFromStream w r sn : Q (sw_store w) -> keeps Q (S.go_ClaimFromStream w r sn).
Proof. intros H. unfold S.go_ClaimFromStream. kwalk. Qed.

Ltac kcall ::= apply keeps_ClaimFromStream; assumption.

Theorem keeps_AddDeposit w r sn dep : Q (sw_store w) -> keeps Q (S.go_AddDeposit w r sn dep).
Proof. intros H. unfold S.go_AddDeposit. kwalk. Qed.

Theorem keeps_SetNewFlowRate w r sn rate : Q (sw_store w) -> keeps Q (S.go_SetNewFlowRate w r sn rate).
Proof. intros H. unfold S.go_SetNewFlowRate. kwalk. Qed.

Theorem keeps_CancelStreamBySenderReceiver w r sn : Q (sw_store w) -> keeps Q (S.go_CancelStreamBySenderReceiver w r sn).
Proof. intros H. unfold S.go_CancelStreamBySenderReceiver. kwalk. Qed.

Theorem keeps_CreateNewStream w r sn dep rate : Q (sw_store w) -> keeps Q (S.go_CreateNewStream w r sn dep rate).
Proof. intros H. unfold S.go_CreateNewStream. kwalk. Qed.

Ltac kcall ::=
  first [ apply keeps_ClaimFromStream | apply keeps_AddDeposit | apply keeps_SetNewFlowRate
        | apply keeps_CancelStreamBySenderReceiver | apply keeps_CreateNewStream ]; assumption.

(* ---- the six handlers: any message, whatever its addresses ---- *)
Theorem keeps_CreateStream w msg : Q (sw_store w) -> keeps Q (S.go_CreateStream w msg).
Proof. intros H. unfold S.go_CreateStream. kwalk. Qed.

Theorem keeps_ClaimStream w msg : Q (sw_store w) -> keeps Q (S.go_ClaimStream w msg).
Proof. intros H. unfold S.go_ClaimStream. kwalk. Qed.

Theorem keeps_TopUpDeposit w msg : Q (sw_store w) -> keeps Q (S.go_TopUpDeposit w msg).
Proof. intros H. unfold S.go_TopUpDeposit. kwalk. Qed.

Theorem keeps_UpdateFlowRate w msg : Q (sw_store w) -> keeps Q (S.go_UpdateFlowRate w msg).
Proof. intros H. unfold S.go_UpdateFlowRate. kwalk. Qed.

Theorem keeps_CancelStream w msg : Q (sw_store w) -> keeps Q (S.go_CancelStream w msg).
Proof. intros H. unfold S.go_CancelStream. kwalk. Qed.

Theorem keeps_UpdateParams w req : Q (sw_store w) -> keeps Q (S.go_UpdateParams w req).
Proof. intros H. unfold S.go_UpdateParams. kwalk. Qed.

Ltac kcall ::=
  first [ apply keeps_CreateStream | apply keeps_ClaimStream | apply keeps_TopUpDeposit | apply keeps_UpdateFlowRate
        | apply keeps_CancelStream | apply keeps_UpdateParams ]; assumption.

(* ---- messages, DeliverTx, histories ---- *)
Theorem keeps_msg_exec w m : Q (sw_store w) -> keeps Q (os_msg_exec w m).
Proof. intros H. destruct m; unfold os_msg_exec; kwalk. Qed.

Theorem keeps_deliver w m : Q (sw_store w) -> keeps Q (s_deliver w m).
Proof.
  intros H. destruct m as [m|req]; unfold s_deliver.
  - apply keeps_bind_pure. intros _. apply keeps_bind; [apply keeps_msg_exec, H|]. intros w' r H'. exact H'.
  - apply keeps_bind; [apply keeps_UpdateParams, H|]. intros w' r H'. exact H'.
Qed.

End Writes.

(* one step of a history on the world (as [k_step] for rendering (1)): the message is delivered at its block time; a
   message that fails or panics leaves the world it was started in *)
Definition s_step (t : Z) (m : kmsg) (ws : sworld) : sworld :=
  match s_deliver (sw_at t ws) m with Ok (ws', _) => ws' | _ => sw_at t ws end.

Lemma s_run_cons ws t m h : snd (s_run ws ((t, m) :: h)) = snd (s_run (s_step t m ws) h).
Proof.
  unfold s_run, s_step. cbn [hrun]. destruct (s_deliver (sw_at t ws) m) as [[ws' r]|e|p]; reflexivity.
Qed.

(* in the failing cases the store is the one the message found *)
Lemma s_step_failed t m ws : (forall x, s_deliver (sw_at t ws) m <> Ok x) -> sw_store (s_step t m ws) = sw_store ws.
Proof.
  intros Hf. unfold s_step. destruct (s_deliver (sw_at t ws) m) as [[ws' r]|e|p]; [|reflexivity..].
  destruct (Hf _ eq_refl).
Qed.

Section WritesRun.

Variable Q : sstore -> Prop.
Hypothesis Q_set_stream : forall s r sn x, Q s -> Q (okv_set s (skey r sn) (SV_Stream x)).
Hypothesis Q_del_stream : forall s r sn, Q s -> Q (okv_del s (skey r sn)).
Hypothesis Q_set_params : forall s p, str_params_valid (Params_ValidatorFee p) = true -> Q s ->
  Q (okv_set s stream_ParamsKey (SV_Params p)).

(* one message of any of the six kinds, delivered at any block time: Ok - the new store has Q; Err or Panic - no world is
   returned, the runner keeps the old store *)
Theorem keeps_deliver_cases t ws m : Q (sw_store ws) ->
  match s_deliver (sw_at t ws) m with
  | Ok (ws', _) => Q (sw_store ws') /\ s_step t m ws = ws'
  | Err _ | Panic _ => sw_store (s_step t m ws) = sw_store ws
  end.
Proof.
  intros H. pose proof (keeps_deliver Q Q_set_stream Q_del_stream Q_set_params (sw_at t ws) m H) as K.
  unfold s_step. destruct (s_deliver (sw_at t ws) m) as [[ws' r]|e|p]; cbn [keeps fst] in K.
  - split; [exact K | reflexivity].
  - reflexivity.
  - reflexivity.
Qed.

Theorem keeps_step t m ws : Q (sw_store ws) -> Q (sw_store (s_step t m ws)).
Proof.
  intros H. pose proof (keeps_deliver_cases t ws m H) as K.
  destruct (s_deliver (sw_at t ws) m) as [[ws' r]|e|p].
  - destruct K as [K ->]. exact K.
  - rewrite K. exact H.
  - rewrite K. exact H.
Qed.

Theorem keeps_run h : forall ws, Q (sw_store ws) -> Q (sw_store (snd (s_run ws h))).
Proof.
  induction h as [|[t m] h IH]; intros ws H; [exact H|]. rewrite s_run_cons. apply IH, keeps_step, H.
Qed.

End WritesRun.

(* ================================================================== *)
(* part 2: module_keys and the Params cell are invariants               *)
(* ================================================================== *)

(* the Params cell is written and holds parameters that validate *)
Definition params_ok (s : sstore) : Prop :=
  exists p, okv_get s stream_ParamsKey = Some (SV_Params p) /\ str_params_valid (Params_ValidatorFee p) = true.

(* the three side conditions of the byte-identical round trip, as a property of the store alone *)
Definition store_ok (s : sstore) : Prop := module_keys s /\ params_ok s.

(* ---- each write writes a module key ---- *)
Lemma module_keys_set_stream s r sn x : module_keys s -> module_keys (okv_set s (skey r sn) (SV_Stream x)).
Proof. intros MK k v Hin. apply set_in in Hin as [[-> _]|Hin]; [right; apply skey_prefix | exact (MK _ _ Hin)]. Qed.

Lemma module_keys_del s k0 : module_keys s -> module_keys (okv_del s k0).
Proof. intros MK k v Hin. apply del_in in Hin. exact (MK _ _ Hin). Qed.

Lemma module_keys_set_params s p : module_keys s -> module_keys (okv_set s stream_ParamsKey (SV_Params p)).
Proof. intros MK k v Hin. apply set_in in Hin as [[-> _]|Hin]; [left; reflexivity | exact (MK _ _ Hin)]. Qed.

(* ---- a stream write or delete leaves the Params cell; SetParams writes validated parameters ---- *)
Lemma params_ok_set_stream s r sn x : params_ok s -> params_ok (okv_set s (skey r sn) (SV_Stream x)).
Proof.
  intros (p & G & V). exists p. split; [|exact V]. rewrite get_set_other; [exact G|].
  intros E. symmetry in E. exact (skey_not_params _ _ E).
Qed.

Lemma params_ok_del_stream s r sn : params_ok s -> params_ok (okv_del s (skey r sn)).
Proof.
  intros (p & G & V). exists p. split; [|exact V]. rewrite get_del_other; [exact G|].
  intros E. symmetry in E. exact (skey_not_params _ _ E).
Qed.

Lemma params_ok_set_params s p : str_params_valid (Params_ValidatorFee p) = true ->
  params_ok (okv_set s stream_ParamsKey (SV_Params p)).
Proof. intros V. exists p. split; [apply get_set_same | exact V]. Qed.

Lemma store_ok_set_stream s r sn x : store_ok s -> store_ok (okv_set s (skey r sn) (SV_Stream x)).
Proof. intros [MK PO]. split; [apply module_keys_set_stream, MK | apply params_ok_set_stream, PO]. Qed.

Lemma store_ok_del_stream s r sn : store_ok s -> store_ok (okv_del s (skey r sn)).
Proof. intros [MK PO]. split; [apply module_keys_del, MK | apply params_ok_del_stream, PO]. Qed.

Lemma store_ok_set_params s p : str_params_valid (Params_ValidatorFee p) = true -> store_ok s ->
  store_ok (okv_set s stream_ParamsKey (SV_Params p)).
Proof. intros V [MK _]. split; [apply module_keys_set_params, MK | apply params_ok_set_params, V]. Qed.

(* ---- [module_keys] alone: one message, one step, any history; no hypothesis on the message or the world ---- *)
Theorem module_keys_deliver t ws m : module_keys (sw_store ws) ->
  match s_deliver (sw_at t ws) m with
  | Ok (ws', _) => module_keys (sw_store ws') /\ s_step t m ws = ws'
  | Err _ | Panic _ => sw_store (s_step t m ws) = sw_store ws
  end.
Proof.
  apply (keeps_deliver_cases module_keys); [exact module_keys_set_stream | intros s r sn; apply module_keys_del |
    intros s p _; apply module_keys_set_params].
Qed.

Theorem module_keys_step t m ws : module_keys (sw_store ws) -> module_keys (sw_store (s_step t m ws)).
Proof.
  apply (keeps_step module_keys); [exact module_keys_set_stream | intros s r sn; apply module_keys_del |
    intros s p _; apply module_keys_set_params].
Qed.

Theorem module_keys_run h ws : module_keys (sw_store ws) -> module_keys (sw_store (snd (s_run ws h))).
Proof.
  apply (keeps_run module_keys); [exact module_keys_set_stream | intros s r sn; apply module_keys_del |
    intros s p _; apply module_keys_set_params].
Qed.

(* ---- [store_ok]: the same ---- *)
Theorem store_ok_deliver t ws m : store_ok (sw_store ws) ->
  match s_deliver (sw_at t ws) m with
  | Ok (ws', _) => store_ok (sw_store ws') /\ s_step t m ws = ws'
  | Err _ | Panic _ => sw_store (s_step t m ws) = sw_store ws
  end.
Proof. exact (keeps_deliver_cases store_ok store_ok_set_stream store_ok_del_stream store_ok_set_params t ws m). Qed.

Theorem store_ok_step t m ws : store_ok (sw_store ws) -> store_ok (sw_store (s_step t m ws)).
Proof. exact (keeps_step store_ok store_ok_set_stream store_ok_del_stream store_ok_set_params t m ws). Qed.

Theorem store_ok_run h ws : store_ok (sw_store ws) -> store_ok (sw_store (snd (s_run ws h))).
Proof. exact (keeps_run store_ok store_ok_set_stream store_ok_del_stream store_ok_set_params h ws). Qed.

(* the six handlers one by one, each on any message: the store of the world returned is again [store_ok] *)
Ltac sok := first [ exact store_ok_set_stream | exact store_ok_del_stream | exact store_ok_set_params | assumption ].
Theorem store_ok_msg_server ws : store_ok (sw_store ws) ->
  (forall msg, keeps store_ok (S.go_CreateStream ws msg)) /\
  (forall msg, keeps store_ok (S.go_ClaimStream ws msg)) /\
  (forall msg, keeps store_ok (S.go_TopUpDeposit ws msg)) /\
  (forall msg, keeps store_ok (S.go_UpdateFlowRate ws msg)) /\
  (forall msg, keeps store_ok (S.go_CancelStream ws msg)) /\
  (forall req, keeps store_ok (S.go_UpdateParams ws req)).
Proof.
  intros H.
  split; [intros; apply keeps_CreateStream; sok|].
  split; [intros; apply keeps_ClaimStream; sok|].
  split; [intros; apply keeps_TopUpDeposit; sok|].
  split; [intros; apply keeps_UpdateFlowRate; sok|].
  split; [intros; apply keeps_CancelStream; sok|].
  intros; apply keeps_UpdateParams; sok.
Qed.

(* the store InitGenesis builds from the empty one, for a document whose fee validates *)
Lemma store_ok_import em d : str_params_valid (Params_ValidatorFee (GenesisState_Params d)) = true ->
  store_ok (s_import em d []).
Proof.
  intros V. split; [apply module_keys_import, module_keys_empty|].
  exists (GenesisState_Params d). split; [apply params_cell_import, V | exact V].
Qed.

(* ================================================================== *)
(* part 3: the round trip along any history                             *)
(* ================================================================== *)
Section RunRoundTrip.

Variable dom : addr -> Prop.
Variable emb : addr -> list N.
Hypothesis emb_len : forall a, dom a -> (1 <= length (emb a) <= 255)%nat.
Hypothesis emb_inj : forall a b, dom a -> dom b -> emb a = emb b -> a = b.
Variable unemb : list N -> addr.
Hypothesis unemb_emb : forall a, dom a -> unemb (emb a) = a.

Notation Rw := (Rw dom emb).

(* on related worlds [store_ok] gives the two hypotheses on the Params cell of [os_roundtrip_bytes] *)
Lemma store_ok_params w ws : Rw w ws -> store_ok (sw_store ws) ->
  okv_get (sw_store ws) stream_ParamsKey <> None /\ str_params_valid (s_valfee (kw_str w)) = true.
Proof.
  intros (_ & _ & _ & HR) [_ (p & G & V)]. split; [rewrite G; discriminate|].
  destruct HR as (_ & [Hp|[Hp _]] & _); rewrite G in Hp; [|discriminate Hp].
  injection Hp as ->. exact V.
Qed.

(* from related worlds whose store is [store_ok]: after ANY history of the six message kinds whose addresses are in dom,
   the byte store exports, and the document imports into the empty store - at any clock, over any bank for which the
   import goes through - to the very same bytes, which export to the same document *)
Theorem os_run_roundtrip_bytes h w ws : Rw w ws -> store_ok (sw_store ws) ->
  Forall (fun tm => kmsg_dom dom (snd tm)) h ->
  let ws1 := snd (s_run ws h) in
  store_ok (sw_store ws1) /\
  exists d, S.go_ExportGenesis unemb ws1 = Ok d /\
    forall now' b' ws2, S.go_InitGenesis (empty_sworld emb now' b') d = Ok (ws2, tt) ->
      sw_store ws2 = sw_store ws1 /\ S.go_ExportGenesis unemb ws2 = Ok d.
Proof.
  intros HR SO HD. cbv zeta.
  destruct (sim_run dom emb emb_len emb_inj h w ws HR HD) as [_ HR1].
  pose proof (store_ok_run h ws SO) as SO1. split; [exact SO1|].
  destruct (os_ExportGenesis_total dom emb emb_len emb_inj unemb _ _ HR1) as [d E]. exists d. split; [exact E|].
  destruct (store_ok_params _ _ HR1 SO1) as [PS V]. intros now' b' ws2 EI. split.
  - exact (os_roundtrip_bytes dom emb emb_len emb_inj unemb unemb_emb _ _ d now' b' ws2 HR1 (proj1 SO1) PS V E EI).
  - exact (os_export_import_export dom emb emb_len emb_inj unemb unemb_emb _ _ d now' b' ws2 HR1 V E EI).
Qed.

(* FROM GENESIS: a document with addresses in dom and a fee that validates, imported into the empty byte store (any
   clock, any bank for which InitGenesis returns), then any history run by the on-store message server *)
Theorem os_genesis_run_roundtrip now b d0 ws0 h :
  doc_dom dom d0 -> str_params_valid (Params_ValidatorFee (GenesisState_Params d0)) = true ->
  S.go_InitGenesis (empty_sworld emb now b) d0 = Ok (ws0, tt) ->
  Forall (fun tm => kmsg_dom dom (snd tm)) h ->
  let ws1 := snd (s_run ws0 h) in
  store_ok (sw_store ws1) /\
  exists d, S.go_ExportGenesis unemb ws1 = Ok d /\
    forall now' b' ws2, S.go_InitGenesis (empty_sworld emb now' b') d = Ok (ws2, tt) ->
      sw_store ws2 = sw_store ws1 /\ S.go_ExportGenesis unemb ws2 = Ok d.
Proof.
  intros HD0 V0 E0 HD.
  destruct (os_InitGenesis_empty_Ok dom emb emb_len emb_inj now b d0 ws0 HD0 E0) as (w0 & _ & HR0 & Es).
  apply (os_run_roundtrip_bytes h w0 ws0 HR0); [|exact HD].
  rewrite Es. cbn [sw_store]. apply store_ok_import, V0.
Qed.

End RunRoundTrip.

(* ================================================================== *)
(* part 3b: the re-import over the final bank GOES THROUGH              *)
(* ================================================================== *)
(* The round trip above is about every bank over which the import of the exported document returns.  Over the bank of
   the final world it does return - for a run inside the invariant [str_inv] of rendering (1) (escrow backed, storable
   times, ...) over a bank with one row per (account, denomination) ([bank_wf]).  [bank_wf] is kept by the message server
   (the same one-sided walk, on the bank component); [str_inv] by proofs/GeneratedStreamOnStoreEq.v ([os_run_reachable]). *)

(* ---- the bank of the world a computation returns: x/bank is reached through three adapters, all [send_all] ---- *)
Definition keeps_bank_of (Qb : bank -> Prop) {R} (c : outcome (sworld * R)) : Prop :=
  match c with Ok x => Qb (sw_bank (fst x)) | _ => True end.

Lemma keepsb_bind (Qb : bank -> Prop) {R R'} (a : outcome (sworld * R)) (k : sworld * R -> outcome (sworld * R')) :
  keeps_bank_of Qb a -> (forall w r, Qb (sw_bank w) -> keeps_bank_of Qb (k (w, r))) -> keeps_bank_of Qb (obind a k).
Proof. intros H K. destruct a as [[w r]|e|p]; cbn [obind keeps_bank_of]; [apply K; exact H | exact I | exact I]. Qed.

Lemma keepsb_bind_pure (Qb : bank -> Prop) {A R'} (p : outcome A) (k : A -> outcome (sworld * R')) :
  (forall x, keeps_bank_of Qb (k x)) -> keeps_bank_of Qb (obind p k).
Proof. intros K. destruct p as [x|e|q]; cbn [obind keeps_bank_of]; [apply K | exact I | exact I]. Qed.

Section BankWrites.

Variable Qb : bank -> Prop.
Hypothesis Qb_send : forall b from to d amt b', bank_send b from to d amt = Ok b' -> Qb b -> Qb b'.

Lemma Qb_send_all cs : forall b from to b', send_all b from to cs = Ok b' -> Qb b -> Qb b'.
Proof.
  induction cs as [|c cs IH]; intros b from to b' E H; cbn [send_all] in E.
  - injection E as <-. exact H.
  - destruct (bank_send b from to (fst c) (snd c)) as [b1|e|p] eqn:E1; cbn [obind] in E; try discriminate E.
    exact (IH _ _ _ _ E (Qb_send _ _ _ _ _ _ E1 H)).
Qed.

Lemma keepsb_SetStream w r sn g : Qb (sw_bank w) -> keeps_bank_of Qb (os_str_SetStream w r sn g).
Proof.
  intros H. unfold os_str_SetStream.
  destruct (go_st_SetStream (sw_store w) (sw_emb w r) (sw_emb w sn) g) as [[s1 u]|e|p]; cbn [obind keeps_bank_of]; [exact H | exact I | exact I].
Qed.

Lemma keepsb_DeleteStream w r sn : Qb (sw_bank w) -> keeps_bank_of Qb (os_str_DeleteStream w r sn).
Proof.
  intros H. unfold os_str_DeleteStream.
  destruct (go_st_DeleteStream (sw_store w) (sw_emb w r) (sw_emb w sn)) as [[s1 u]|e|p]; cbn [obind keeps_bank_of]; [exact H | exact I | exact I].
Qed.

Lemma keepsb_SetParams w p : Qb (sw_bank w) -> keeps_bank_of Qb (os_str_SetParams w p).
Proof.
  intros H. unfold os_str_SetParams.
  destruct (go_st_SetParams (sw_store w) p) as [[s1 u]|e|q]; cbn [obind keeps_bank_of]; [exact H | exact I | exact I].
Qed.

Lemma keepsb_bank w from to cs : Qb (sw_bank w) ->
  keeps_bank_of Qb (do b <- send_all (sw_bank w) from to cs; Ok (with_sbank w b, tt)).
Proof.
  intros H. destruct (send_all (sw_bank w) from to cs) as [b|e|p] eqn:E; cbn [obind keeps_bank_of]; [|exact I..].
  cbn [fst with_sbank sw_bank]. exact (Qb_send_all _ _ _ _ _ E H).
Qed.

Lemma keepsb_SendM2M w from to cs : Qb (sw_bank w) -> keeps_bank_of Qb (os_bank_SendCoinsFromModuleToModule w from to cs).
Proof. apply keepsb_bank. Qed.
Lemma keepsb_SendA2M w from to cs : Qb (sw_bank w) -> keeps_bank_of Qb (os_bank_SendCoinsFromAccountToModule w from to cs).
Proof. apply keepsb_bank. Qed.
Lemma keepsb_SendM2A w from to cs : Qb (sw_bank w) -> keeps_bank_of Qb (os_bank_SendCoinsFromModuleToAccount w from to cs).
Proof. intros H. unfold os_bank_SendCoinsFromModuleToAccount. destruct (blocked to); [exact I | apply keepsb_bank, H]. Qed.

Ltac bred := cbv beta iota zeta.
Ltac bprim :=
  first [ apply keepsb_SetStream | apply keepsb_DeleteStream | apply keepsb_SetParams
        | apply keepsb_SendM2M | apply keepsb_SendA2M | apply keepsb_SendM2A ]; assumption.
Ltac bcall := fail.
Ltac bstep :=
  first
  [ match goal with
    | |- context [match ?v with pair _ _ => _ end] => is_var v; destruct v
    end
  | match goal with
    | |- keeps_bank_of _ (Err _) => exact I
    | |- keeps_bank_of _ (Panic _) => exact I
    | |- keeps_bank_of _ (Ok (_, _)) => cbn [keeps_bank_of fst]; assumption
    | |- keeps_bank_of _ (if ?b then _ else _) => destruct b
    | |- keeps_bank_of _ (obind _ _) =>
        first [ apply keepsb_bind; [ first [ bprim | bcall ] | intros ? ? ? ]
              | apply keepsb_bind_pure; intro ]
    end ].
Ltac bwalk := bred; repeat (bstep; bred).

Lemma keepsb_ClaimFromStream w r sn : Qb (sw_bank w) -> keeps_bank_of Qb (S.go_ClaimFromStream w r sn).
Proof. intros H. unfold S.go_ClaimFromStream. bwalk. Qed.
Ltac bcall ::= apply keepsb_ClaimFromStream; assumption.
Lemma keepsb_AddDeposit w r sn dep : Qb (sw_bank w) -> keeps_bank_of Qb (S.go_AddDeposit w r sn dep).
Proof. intros H. unfold S.go_AddDeposit. bwalk. Qed.
Lemma keepsb_SetNewFlowRate w r sn rate : Qb (sw_bank w) -> keeps_bank_of Qb (S.go_SetNewFlowRate w r sn rate).
Proof. intros H. unfold S.go_SetNewFlowRate. bwalk. Qed.
Lemma keepsb_CancelStreamBySenderReceiver w r sn : Qb (sw_bank w) -> keeps_bank_of Qb (S.go_CancelStreamBySenderReceiver w r sn).
Proof. intros H. unfold S.go_CancelStreamBySenderReceiver. bwalk. Qed.
Lemma keepsb_CreateNewStream w r sn dep rate : Qb (sw_bank w) -> keeps_bank_of Qb (S.go_CreateNewStream w r sn dep rate).
Proof. intros H. unfold S.go_CreateNewStream. bwalk. Qed.
Ltac bcall ::=
  first [ apply keepsb_ClaimFromStream | apply keepsb_AddDeposit | apply keepsb_SetNewFlowRate
        | apply keepsb_CancelStreamBySenderReceiver | apply keepsb_CreateNewStream ]; assumption.

Lemma keepsb_CreateStream w msg : Qb (sw_bank w) -> keeps_bank_of Qb (S.go_CreateStream w msg).
Proof. intros H. unfold S.go_CreateStream. bwalk. Qed.
Lemma keepsb_ClaimStream w msg : Qb (sw_bank w) -> keeps_bank_of Qb (S.go_ClaimStream w msg).
Proof. intros H. unfold S.go_ClaimStream. bwalk. Qed.
Lemma keepsb_TopUpDeposit w msg : Qb (sw_bank w) -> keeps_bank_of Qb (S.go_TopUpDeposit w msg).
Proof. intros H. unfold S.go_TopUpDeposit. bwalk. Qed.
Lemma keepsb_UpdateFlowRate w msg : Qb (sw_bank w) -> keeps_bank_of Qb (S.go_UpdateFlowRate w msg).
Proof. intros H. unfold S.go_UpdateFlowRate. bwalk. Qed.
Lemma keepsb_CancelStream w msg : Qb (sw_bank w) -> keeps_bank_of Qb (S.go_CancelStream w msg).
Proof. intros H. unfold S.go_CancelStream. bwalk. Qed.
Lemma keepsb_UpdateParams w req : Qb (sw_bank w) -> keeps_bank_of Qb (S.go_UpdateParams w req).
Proof. intros H. unfold S.go_UpdateParams. bwalk. Qed.
Ltac bcall ::=
  first [ apply keepsb_CreateStream | apply keepsb_ClaimStream | apply keepsb_TopUpDeposit | apply keepsb_UpdateFlowRate
        | apply keepsb_CancelStream | apply keepsb_UpdateParams ]; assumption.

Lemma keepsb_msg_exec w m : Qb (sw_bank w) -> keeps_bank_of Qb (os_msg_exec w m).
Proof. intros H. destruct m; unfold os_msg_exec; bwalk. Qed.

Theorem keepsb_deliver w m : Qb (sw_bank w) -> keeps_bank_of Qb (s_deliver w m).
Proof.
  intros H. destruct m as [m|req]; unfold s_deliver.
  - apply keepsb_bind_pure. intros _. apply keepsb_bind; [apply keepsb_msg_exec, H|]. intros w' r H'. exact H'.
  - apply keepsb_bind; [apply keepsb_UpdateParams, H|]. intros w' r H'. exact H'.
Qed.

Theorem keepsb_step t m ws : Qb (sw_bank ws) -> Qb (sw_bank (s_step t m ws)).
Proof.
  intros H. pose proof (keepsb_deliver (sw_at t ws) m H) as K. unfold s_step.
  destruct (s_deliver (sw_at t ws) m) as [[ws' r]|e|p]; cbn [keeps_bank_of fst] in K; [exact K | exact H | exact H].
Qed.

Theorem keepsb_run h : forall ws, Qb (sw_bank ws) -> Qb (sw_bank (snd (s_run ws h))).
Proof.
  induction h as [|[t m] h IH]; intros ws H; [exact H|]. rewrite s_run_cons. apply IH, keepsb_step, H.
Qed.

End BankWrites.

(* one row per (account, denomination): kept by every message and every history *)
Theorem bank_wf_step t m ws : bank_wf (sw_bank ws) -> bank_wf (sw_bank (s_step t m ws)).
Proof. apply (keepsb_step bank_wf). intros b from to d amt b' E H. exact (bank_send_wf _ _ _ _ _ _ E H). Qed.

Theorem bank_wf_run h ws : bank_wf (sw_bank ws) -> bank_wf (sw_bank (snd (s_run ws h))).
Proof. apply (keepsb_run bank_wf). intros b from to d amt b' E H. exact (bank_send_wf _ _ _ _ _ _ E H). Qed.

(* ---- rendering (1) imports any REORDERING of the document it would export ---- *)
Lemma str_model_check_of_backed b s l : bank_wf b -> escrow_backed b s -> str_model_check b s l = true.
Proof.
  intros Wf B. unfold str_model_check. apply andb_true_intro. split; apply forallb_forall.
  - intros [[x d] v] Hin. cbn [fst snd]. destruct (x =? STREAM_MACC) eqn:Ex; [|reflexivity]. cbn [negb orb].
    apply Z.eqb_eq in Ex. subst x. pose proof (B d) as Bd. unfold balance in Bd.
    rewrite (In_aget_nodup _ _ _ Wf Hin) in Bd. apply Z.eqb_eq. exact Bd.
  - intros kv _. rewrite (B (st_denom (snd kv))). apply Z.eqb_refl.
Qed.

Lemma doc_sum_perm l1 l2 d : Permutation l1 l2 -> doc_sum l1 d = doc_sum l2 d.
Proof. intros P. unfold doc_sum. apply sumZ_perm, Permutation_map, P. Qed.

Lemma doc_kvs_AllStreams w : str_doc_kvs (str_AllStreams w) = s_streams (kw_str w).
Proof.
  unfold str_doc_kvs, str_AllStreams. rewrite map_map. rewrite <- (map_id (s_streams (kw_str w))) at 2.
  apply map_ext. intros [[r sn] st]. unfold str_key. cbn [StreamExport_Receiver StreamExport_Sender StreamExport_Stream fst snd].
  rewrite of_to_go_stream. reflexivity.
Qed.

Theorem gen_str_import_reordered w now0 now' vf0 d :
  str_inv now0 (kw_bank w) (kw_str w) -> bank_wf (kw_bank w) ->
  GenesisState_Params d = mk_go_Params (s_valfee (kw_str w)) ->
  Permutation (GenesisState_Streams d) (str_AllStreams w) ->
  K.go_InitGenesis (fresh_kworld now' (kw_bank w) vf0) d =
    Ok (with_str (fresh_kworld now' (kw_bank w) vf0) (import_go d (fresh_str vf0)), tt).
Proof.
  intros Inv Wf EP P.
  assert (V : str_params_valid (Params_ValidatorFee (GenesisState_Params d)) = true).
  { rewrite EP. cbn [Params_ValidatorFee]. apply str_params_valid_spec. exact (si_valfee _ _ _ Inv). }
  assert (ND : NoDup (str_doc_keys d)).
  { unfold str_doc_keys. apply (Permutation_NoDup (Permutation_sym (Permutation_map str_key P))).
    change (map str_key (str_AllStreams w)) with (str_doc_keys (str_export_doc w)). rewrite str_export_doc_keys.
    exact (si_keys _ _ _ Inv). }
  rewrite (gen_str_InitGenesis_run _ d V).
  assert (St : forallb stream_okb (GenesisState_Streams d) = true).
  { apply stream_okb_spec. apply (Permutation_Forall (Permutation_sym P)).
    exact (str_export_doc_storable w now0 (si_keys _ _ _ Inv) (si_streams _ _ _ Inv)). }
  rewrite St. change (kw_bank (fresh_kworld now' (kw_bank w) vf0)) with (kw_bank w). rewrite fresh_kworld_str.
  assert (C : go_str_escrow_check (kw_bank w) (GenesisState_Streams d) = Ok true).
  { apply (str_escrow_check_eq (kw_bank w) d vf0 Wf (str_inv_macc_nonneg _ _ _ Inv Wf) ND).
    apply str_model_check_of_backed; [exact Wf|]. intros den.
    rewrite (total_deposits_doc _ _ den (import_go_streams d vf0 ND)), (doc_sum_perm _ _ den P).
    rewrite <- (total_deposits_doc (kw_str w) (str_AllStreams w) den (eq_sym (doc_kvs_AllStreams w))).
    exact (si_backed _ _ _ Inv den). }
  rewrite C. reflexivity.
Qed.

Section RunRoundTripTotal.

Variable dom : addr -> Prop.
Variable emb : addr -> list N.
Hypothesis emb_len : forall a, dom a -> (1 <= length (emb a) <= 255)%nat.
Hypothesis emb_inj : forall a b, dom a -> dom b -> emb a = emb b -> a = b.
Variable unemb : list N -> addr.
Hypothesis unemb_emb : forall a, dom a -> unemb (emb a) = a.

Notation Rw := (Rw dom emb).

(* the document the byte store exports imports into the empty store over the same bank, at any clock *)
Theorem os_export_imports w ws now0 now' d : Rw w ws ->
  str_inv now0 (kw_bank w) (kw_str w) -> bank_wf (sw_bank ws) ->
  S.go_ExportGenesis unemb ws = Ok d ->
  exists ws2, S.go_InitGenesis (empty_sworld emb now' (sw_bank ws)) d = Ok (ws2, tt) /\ sw_bank ws2 = sw_bank ws /\
              sw_now ws2 = now'.
Proof.
  intros HR Inv Wf E. pose proof HR as (_ & _ & Hb & _). rewrite <- Hb in Wf.
  pose proof (export_doc_dom dom emb emb_len emb_inj unemb unemb_emb w ws d HR E) as HD.
  destruct (os_AllStreams_perm dom emb emb_len emb_inj unemb unemb_emb w ws HR) as (L & EL & P).
  rewrite (os_AllStreams_sorted dom emb emb_len emb_inj unemb w ws HR) in EL. injection EL as EL.
  rewrite (os_ExportGenesis_run dom emb emb_len emb_inj unemb w ws HR) in E. injection E as E.
  assert (EP : GenesisState_Params d = mk_go_Params (s_valfee (kw_str w))) by (rewrite <- E; reflexivity).
  assert (PS : Permutation (GenesisState_Streams d) (str_AllStreams w)).
  { rewrite <- E. cbn [GenesisState_Streams]. rewrite EL. exact P. }
  pose proof (gen_str_import_reordered w now0 now' 0 d Inv Wf EP PS) as EK.
  destruct (os_InitGenesis_Ok_l dom emb emb_len emb_inj _ (empty_sworld emb now' (kw_bank w)) d _
              (Rw_empty dom emb now' (kw_bank w)) HD EK) as (ws2 & ES & _).
  rewrite <- Hb. exists ws2. split; [exact ES|]. apply os_InitGenesis_store in ES. subst ws2. split; reflexivity.
Qed.

(* along any history inside the invariant: export, re-import over the final bank - it goes through, the very same
   bytes, the same bank, the same document again *)
Theorem os_run_roundtrip_total h now0 now' w ws : Rw w ws -> store_ok (sw_store ws) ->
  str_inv now0 (kw_bank w) (kw_str w) -> bank_wf (sw_bank ws) ->
  ktimes_sorted now0 h -> Forall (fun tm => kmsg_dom dom (snd tm)) h ->
  let ws1 := snd (s_run ws h) in
  exists d ws2, S.go_ExportGenesis unemb ws1 = Ok d /\
    S.go_InitGenesis (empty_sworld emb now' (sw_bank ws1)) d = Ok (ws2, tt) /\
    sw_store ws2 = sw_store ws1 /\ sw_bank ws2 = sw_bank ws1 /\ sw_now ws2 = now' /\
    S.go_ExportGenesis unemb ws2 = Ok d.
Proof.
  intros HR SO Inv Wf TS HD. cbv zeta.
  destruct (os_run_reachable dom emb emb_len emb_inj h now0 w ws HR Inv TS HD) as (w1 & HR1 & Inv1 & _).
  pose proof (bank_wf_run h ws Wf) as Wf1.
  destruct (os_run_roundtrip_bytes dom emb emb_len emb_inj unemb unemb_emb h w ws HR SO HD) as (_ & d & E & Hrt).
  destruct (os_export_imports w1 _ _ now' d HR1 Inv1 Wf1 E) as (ws2 & EI & Eb & En).
  destruct (Hrt _ _ _ EI) as [Es Ee].
  exists d, ws2. split; [exact E|]. split; [exact EI|]. split; [exact Es|]. split; [exact Eb|]. split; [exact En | exact Ee].
Qed.

(* FROM GENESIS: the document describes a state inside the invariant at the genesis time, over a bank with one row per
   (account, denomination) *)
Theorem os_genesis_run_roundtrip_total now b d0 ws0 h now' :
  doc_dom dom d0 -> str_inv now b (import_go d0 (fresh_str 0)) -> bank_wf b ->
  S.go_InitGenesis (empty_sworld emb now b) d0 = Ok (ws0, tt) ->
  ktimes_sorted now h -> Forall (fun tm => kmsg_dom dom (snd tm)) h ->
  let ws1 := snd (s_run ws0 h) in
  exists d ws2, S.go_ExportGenesis unemb ws1 = Ok d /\
    S.go_InitGenesis (empty_sworld emb now' (sw_bank ws1)) d = Ok (ws2, tt) /\
    sw_store ws2 = sw_store ws1 /\ sw_bank ws2 = sw_bank ws1 /\ sw_now ws2 = now' /\
    S.go_ExportGenesis unemb ws2 = Ok d.
Proof.
  intros HD0 Inv0 Wf E0 TS HD.
  assert (V0 : str_params_valid (Params_ValidatorFee (GenesisState_Params d0)) = true).
  { apply str_params_valid_spec. pose proof (si_valfee _ _ _ Inv0) as X.
    assert (F : forall l s, s_valfee (fold_left (fun s e => imp_stream e s) l s) = s_valfee s).
    { induction l as [|e l IH]; intros s; cbn [fold_left]; [reflexivity|]. rewrite IH. reflexivity. }
    unfold import_go in X. rewrite F in X. exact X. }
  destruct (os_InitGenesis_empty_Ok dom emb emb_len emb_inj now b d0 ws0 HD0 E0) as (w0 & EK & HR0 & Es).
  rewrite (gen_str_InitGenesis_run _ d0 V0) in EK.
  destruct (forallb stream_okb (GenesisState_Streams d0)); [|discriminate EK].
  destruct (go_str_escrow_check _ _) as [[|]| |]; try discriminate EK. injection EK as Ew.
  apply (os_run_roundtrip_total h now now' w0 ws0 HR0).
  - rewrite Es. cbn [sw_store]. apply store_ok_import, V0.
  - rewrite <- Ew. exact Inv0.
  - rewrite Es. exact Wf.
  - exact TS.
  - exact HD.
Qed.

End RunRoundTripTotal.

(* ================================================================== *)
(* part 4: a concrete run from a genesis store                          *)
(* ================================================================== *)

(* the embedding of proofs/GeneratedStreamGenesisOnStoreEq.v (addresses of 1, 20 and 32 bytes).  Block time: second 1000.
   Two streams from account 11: to 10 (500 of denomination 0, rate 10, funded until second 1050) and to 12 (70 of
   denomination 1, rate 10, until second 1007).  The module account holds 500 and 70 - the two deposits; accounts 11 and
   13 hold funds of denomination 0 *)
Definition exr_bank : bank :=
  {| bal := [((STREAM_MACC, 1), 70); ((11, 0), 1000); ((13, 0), 200000); ((STREAM_MACC, 0), 500)];
     supply := [(0, 201500); (1, 70)] |}.
Definition exr_t (secs : Z) : Z := secs * NSEC.
Definition exr_doc : go_GenesisState :=
  mk_go_GenesisState exs_params
    [ mk_go_StreamExport 10 11 (mk_go_Stream (0, 500) 10 (exr_t 1000) (exr_t 1050) true);
      mk_go_StreamExport 12 11 (mk_go_Stream (1, 70) 10 (exr_t 1000) (exr_t 1007) true) ].
(* account 13 creates a stream to 10; 10 claims from 11's genesis stream; 11 tops it up; a claim on a stream that does
   not exist (refused); 11 cancels its genesis stream to 12; an UpdateParams by account 11 (refused: not the authority);
   UpdateParams by the authority to 2 % *)
Definition exr_hist : list (Z * kmsg) :=
  [ (exr_t 1010, KStr (SCreate 13 10 0 100000 100));
    (exr_t 1020, KStr (SClaim 11 10));
    (exr_t 1030, KStr (STopUp 11 10 0 300));
    (exr_t 1035, KStr (SClaim 13 12));
    (exr_t 1040, KStr (SCancel 11 12));
    (exr_t 1045, KUpdateParams (mk_go_MsgUpdateParams 11 (mk_go_Params 20000000000000000)));
    (exr_t 1050, KUpdateParams (mk_go_MsgUpdateParams GOV_MACC (mk_go_Params 20000000000000000))) ].
Definition exr_ws0 : sworld :=
  match S.go_InitGenesis (empty_sworld exg_emb (exr_t 1000) exr_bank) exr_doc with
  | Ok (ws, _) => ws
  | _ => empty_sworld exg_emb 0 exr_bank
  end.
Definition exr_ws1 : sworld := snd (s_run exr_ws0 exr_hist).
(* the document the final store exports: 2 % fee, the genesis stream 11 -> 10 after claim and top-up, the created stream
   13 -> 10 *)
Definition exr_doc1 : go_GenesisState :=
  mk_go_GenesisState (mk_go_Params 20000000000000000)
    [ mk_go_StreamExport 10 11 (mk_go_Stream (0, 600) 10 (exr_t 1020) (exr_t 1080) true);
      mk_go_StreamExport 10 13 (mk_go_Stream (0, 100000) 100 (exr_t 1010) (exr_t 2010) true) ].
(* the state the genesis document describes *)
Definition exr_state : str_state :=
  {| s_valfee := 10000000000000000;
     s_streams :=
       [ ((10, 11), {| st_denom := 0; st_deposit := 500; st_rate := 10; st_lot := exr_t 1000; st_dzt := exr_t 1050;
                       st_cancellable := true |});
         ((12, 11), {| st_denom := 1; st_deposit := 70; st_rate := 10; st_lot := exr_t 1000; st_dzt := exr_t 1007;
                       st_cancellable := true |}) ] |}.

Lemma exr_doc_dom : doc_dom exg_dom exr_doc.
Proof. unfold doc_dom, exr_doc, entry_dom, exg_dom. cbn. repeat constructor; cbn; lia. Qed.

Lemma exr_hist_dom : Forall (fun tm => kmsg_dom exg_dom (snd tm)) exr_hist.
Proof. unfold exr_hist. repeat constructor; cbn; unfold exg_dom; lia. Qed.

Lemma exr_hist_sorted : ktimes_sorted (exr_t 1000) exr_hist.
Proof. cbn [ktimes_sorted exr_hist kmsg_wf str_msg_wf str_signer]. repeat split; zdec. Qed.

Lemma exr_bank_wf : bank_wf exr_bank.
Proof.
  unfold bank_wf, exr_bank. cbn. repeat constructor; cbn; intros H; repeat (destruct H as [H|H]; [discriminate H|]); exact H.
Qed.

Lemma exr_state_eq : import_go exr_doc (fresh_str 0) = exr_state.
Proof. vm_compute. reflexivity. Qed.

Lemma exr_state_inv : str_inv (exr_t 1000) exr_bank exr_state.
Proof.
  constructor.
  - cbn. repeat constructor; cbn; intros H; repeat (destruct H as [H|H]; [discriminate H|]); exact H.
  - intros k st H. apply aget_In in H. cbn in H.
    destruct H as [H|[H|[]]]; injection H as _ <-;
      (constructor; cbn [st_rate st_deposit st_lot st_dzt];
       [ unfold two63; lia | lia | unfold exr_t, NSEC; lia | reflexivity | reflexivity | left; unfold exr_t, NSEC, NS; lia ]).
  - intros d. unfold balance, total_deposits. cbn [exr_bank exr_state bal s_streams].
    destruct (Z.eq_dec d 0) as [->|N0]; [reflexivity|]. destruct (Z.eq_dec d 1) as [->|N1]; [reflexivity|].
    unfold asum. cbn [aget map sumZ snd st_denom st_deposit].
    assert (E0 : (0 =? d) = false) by (apply Z.eqb_neq; lia). assert (E1 : (1 =? d) = false) by (apply Z.eqb_neq; lia).
    rewrite E0, E1.
    assert (K1 : keqb (STREAM_MACC, d) (STREAM_MACC, 1) = false).
    { unfold keqb; cbn. first [ apply Z.eqb_neq; lia | apply andb_false_iff; right; apply Z.eqb_neq; lia ]. }
    assert (K2 : keqb (STREAM_MACC, d) (11, 0) = false) by reflexivity.
    assert (K3 : keqb (STREAM_MACC, d) (13, 0) = false) by reflexivity.
    assert (K4 : keqb (STREAM_MACC, d) (STREAM_MACC, 0) = false).
    { unfold keqb; cbn. first [ apply Z.eqb_neq; lia | apply andb_false_iff; right; apply Z.eqb_neq; lia ]. }
    rewrite K1, K2, K3, K4. reflexivity.
  - vm_compute. split; congruence.
  - intros r sn st H. apply aget_In in H. cbn in H.
    destruct H as [H|[H|[]]]; injection H as <- _ _; reflexivity.
  - split; [reflexivity | vm_compute; congruence].
Qed.

Lemma exr_init : S.go_InitGenesis (empty_sworld exg_emb (exr_t 1000) exr_bank) exr_doc = Ok (exr_ws0, tt).
Proof. vm_compute. reflexivity. Qed.

Lemma exr_trace :
  fst (s_run exr_ws0 exr_hist) =
    [ Ok (KRStr RNone);
      Ok (KRStr (RClaim {| cr_receiver := 198; cr_fee := 2; cr_total := 200; cr_remaining := 300 |}));
      Ok (KRStr (RTopUp 600 (exr_t 1080)));
      Err ERR_INVALID_DATA;
      Ok (KRStr RNone);
      Err 42;
      Ok KRParams ].
Proof. vm_compute. reflexivity. Qed.

Lemma exr_export : S.go_ExportGenesis exg_unemb exr_ws1 = Ok exr_doc1.
Proof. vm_compute. reflexivity. Qed.

Lemma exr_reimport :
  exists ws2, S.go_InitGenesis (empty_sworld exg_emb 7 (sw_bank exr_ws1)) exr_doc1 = Ok (ws2, tt) /\
              sw_store ws2 = sw_store exr_ws1 /\ S.go_ExportGenesis exg_unemb ws2 = Ok exr_doc1.
Proof. eexists. split; [vm_compute; reflexivity|]. split; vm_compute; reflexivity. Qed.

Lemma exr_store_shape :
  map (fun kv => length (fst kv)) (sw_store exr_ws0) = [1; 5; 24]%nat /\
  map (fun kv => length (fst kv)) (sw_store exr_ws1) = [1; 5; 36]%nat.
Proof. split; vm_compute; reflexivity. Qed.

(* by computation: the import, the results of the seven messages, the store before (Params cell, keys of 5 and 24 bytes)
   and after (Params cell, keys of 5 and 36 bytes), the exported document; re-imported over the final bank at another
   clock: the very same bytes, the same document *)
Example os_genesis_run_ex :
  S.go_InitGenesis (empty_sworld exg_emb (exr_t 1000) exr_bank) exr_doc = Ok (exr_ws0, tt) /\
  fst (s_run exr_ws0 exr_hist) =
    [ Ok (KRStr RNone);
      Ok (KRStr (RClaim {| cr_receiver := 198; cr_fee := 2; cr_total := 200; cr_remaining := 300 |}));
      Ok (KRStr (RTopUp 600 (exr_t 1080)));
      Err ERR_INVALID_DATA;
      Ok (KRStr RNone);
      Err 42;
      Ok KRParams ] /\
  map (fun kv => length (fst kv)) (sw_store exr_ws0) = [1; 5; 24]%nat /\
  map (fun kv => length (fst kv)) (sw_store exr_ws1) = [1; 5; 36]%nat /\
  S.go_ExportGenesis exg_unemb exr_ws1 = Ok exr_doc1 /\
  (exists ws2, S.go_InitGenesis (empty_sworld exg_emb 7 (sw_bank exr_ws1)) exr_doc1 = Ok (ws2, tt) /\
               sw_store ws2 = sw_store exr_ws1 /\ S.go_ExportGenesis exg_unemb ws2 = Ok exr_doc1).
Proof.
  split; [exact exr_init|]. split; [exact exr_trace|]. split; [exact (proj1 exr_store_shape)|].
  split; [exact (proj2 exr_store_shape)|]. split; [exact exr_export | exact exr_reimport].
Qed.

(* the same through the theorems: their hypotheses are met; the conclusion of the first is about every clock and every
   bank, the second says that over the final bank the import goes through *)
Example os_genesis_run_ex_by_theorem :
  doc_dom exg_dom exr_doc /\
  str_params_valid (Params_ValidatorFee (GenesisState_Params exr_doc)) = true /\
  Forall (fun tm => kmsg_dom exg_dom (snd tm)) exr_hist /\
  str_inv (exr_t 1000) exr_bank (import_go exr_doc (fresh_str 0)) /\ bank_wf exr_bank /\
  ktimes_sorted (exr_t 1000) exr_hist /\
  store_ok (sw_store exr_ws0) /\ store_ok (sw_store exr_ws1) /\
  (forall now' b' ws2, S.go_InitGenesis (empty_sworld exg_emb now' b') exr_doc1 = Ok (ws2, tt) ->
     sw_store ws2 = sw_store exr_ws1 /\ S.go_ExportGenesis exg_unemb ws2 = Ok exr_doc1) /\
  (forall now', exists ws2, S.go_InitGenesis (empty_sworld exg_emb now' (sw_bank exr_ws1)) exr_doc1 = Ok (ws2, tt) /\
     sw_store ws2 = sw_store exr_ws1 /\ sw_bank ws2 = sw_bank exr_ws1 /\ sw_now ws2 = now' /\
     S.go_ExportGenesis exg_unemb ws2 = Ok exr_doc1).
Proof.
  assert (Inv0 : str_inv (exr_t 1000) exr_bank (import_go exr_doc (fresh_str 0))) by (rewrite exr_state_eq; exact exr_state_inv).
  split; [exact exr_doc_dom|]. split; [reflexivity|]. split; [exact exr_hist_dom|]. split; [exact Inv0|].
  split; [exact exr_bank_wf|]. split; [exact exr_hist_sorted|].
  destruct (os_genesis_run_roundtrip exg_dom exg_emb exg_emb_len exg_emb_inj exg_unemb exg_unemb_emb
              (exr_t 1000) exr_bank exr_doc exr_ws0 exr_hist exr_doc_dom eq_refl exr_init exr_hist_dom)
    as (SO1 & d & E & Hrt).
  pose proof exr_export as E'. unfold exr_ws1 in E'. rewrite E' in E. injection E as <-.
  split; [|split; [exact SO1 | split; [exact Hrt|]]].
  - destruct (os_genesis_run_roundtrip exg_dom exg_emb exg_emb_len exg_emb_inj exg_unemb exg_unemb_emb
                (exr_t 1000) exr_bank exr_doc exr_ws0 [] exr_doc_dom eq_refl exr_init (Forall_nil _)) as (SO0 & _).
    exact SO0.
  - intros now'.
    destruct (os_genesis_run_roundtrip_total exg_dom exg_emb exg_emb_len exg_emb_inj exg_unemb exg_unemb_emb
                (exr_t 1000) exr_bank exr_doc exr_ws0 exr_hist now' exr_doc_dom Inv0 exr_bank_wf exr_init
                exr_hist_sorted exr_hist_dom) as (d & ws2 & E & EI & Es & Eb & En & Ee).
    rewrite E' in E. injection E as <-.
    exists ws2. split; [exact EI|]. split; [exact Es|]. split; [exact Eb|]. split; [exact En | exact Ee].
Qed.

(* ---- a hypothesis that is needed ---- *)

(* [os_run_roundtrip_bytes], the addresses of the history in dom: an embedding that is as required ON dom (one byte per
   account 0..255) and sends account 300 - outside dom - to two bytes that [unemb] does not read back.  A stream created
   by 300 sits under a key the exported document does not spell: the re-imported store has other bytes *)
Definition exn_emb (a : Z) : list N := if a <? 256 then [Z.to_N a] else [1%N; 2%N].
Definition exn_bank : bank := {| bal := [((300, 0), 200000)]; supply := [(0, 200000)] |}.
Definition exn_ws0 : sworld := mk_sworld exn_emb (exr_t 1000) exn_bank [(stream_ParamsKey, SV_Params exs_params)].
Definition exn_hist : list (Z * kmsg) := [ (exr_t 1010, KStr (SCreate 300 10 0 100000 100)) ].

Lemma exn_emb_len a : exg_dom a -> (1 <= length (exn_emb a) <= 255)%nat.
Proof. intros [H0 H1]. unfold exn_emb. destruct (a <? 256); cbn; lia. Qed.
Lemma exn_unemb_emb a : exg_dom a -> exg_unemb (exn_emb a) = a.
Proof.
  intros [H0 H1]. unfold exn_emb, exg_unemb. destruct (a <? 256) eqn:E; [|apply Z.ltb_ge in E; lia].
  cbn [last]. apply Z2N.id. lia.
Qed.
Lemma exn_emb_inj a b : exg_dom a -> exg_dom b -> exn_emb a = exn_emb b -> a = b.
Proof. intros Ha Hb E. rewrite <- (exn_unemb_emb a Ha), <- (exn_unemb_emb b Hb), E. reflexivity. Qed.

Example os_run_roundtrip_dom_refuted :
  (forall a, exg_dom a -> (1 <= length (exn_emb a) <= 255)%nat) /\
  (forall a b, exg_dom a -> exg_dom b -> exn_emb a = exn_emb b -> a = b) /\
  (forall a, exg_dom a -> exg_unemb (exn_emb a) = a) /\
  Rw exg_dom exn_emb (fresh_kworld (exr_t 1000) exn_bank 10000000000000000) exn_ws0 /\
  store_ok (sw_store exn_ws0) /\
  ~ Forall (fun tm => kmsg_dom exg_dom (snd tm)) exn_hist /\
  let ws1 := snd (s_run exn_ws0 exn_hist) in
  fst (s_run exn_ws0 exn_hist) = [Ok (KRStr RNone)] /\
  exists d ws2, S.go_ExportGenesis exg_unemb ws1 = Ok d /\
    S.go_InitGenesis (empty_sworld exn_emb 7 (sw_bank ws1)) d = Ok (ws2, tt) /\
    sw_store ws2 <> sw_store ws1.
Proof.
  split; [exact exn_emb_len|]. split; [exact exn_emb_inj|]. split; [exact exn_unemb_emb|]. split.
  - split; [reflexivity|]. split; [reflexivity|]. split; [reflexivity|]. cbn [sw_store kw_str fresh_kworld exn_ws0].
    apply Rstr_no_streams; [reflexivity | reflexivity | apply exg_no_stream_keys; reflexivity].
  - split.
    + unfold exn_ws0. cbn [sw_store].
      split.
      { intros k v Hin. destruct Hin as [X|[]]. injection X as <- _. left. reflexivity. }
      exists exs_params. split; reflexivity.
    + split.
      * intros HF. inversion HF as [|x l Hd _]; subst. unfold kmsg_dom, msg_dom in Hd. cbn [snd fst str_msg_addrs] in Hd. destruct Hd as [Hs _]. unfold exg_dom in Hs. lia.
      * cbv zeta. split; [vm_compute; reflexivity|]. do 2 eexists. split; [vm_compute; reflexivity|].
        split; [vm_compute; reflexivity|]. intros X. vm_compute in X. discriminate X.
Qed.

(* [os_export_imports], bank_wf: a second row for (module account, denomination 0).  [balance] reads the first row, so
   the escrow is backed and the state is inside the invariant; GetAllBalances lists both rows, and InitGenesis' comparison
   of the module's holdings with its balances fails *)
Definition exw_bank : bank :=
  {| bal := [((STREAM_MACC, 1), 70); ((11, 0), 1000); ((13, 0), 200000); ((STREAM_MACC, 0), 500); ((STREAM_MACC, 0), 7)];
     supply := [(0, 201500); (1, 70)] |}.
Definition exw_w : kworld := mk_kworld (exr_t 1000) exw_bank (import_go exr_doc (fresh_str 0)).
Definition exw_ws : sworld := mk_sworld exg_emb (exr_t 1000) exw_bank (sw_store exr_ws0).

Lemma exw_balance d : balance exw_bank STREAM_MACC d = balance exr_bank STREAM_MACC d.
Proof.
  unfold balance, exw_bank, exr_bank. cbn.
  destruct (d =? 1); [reflexivity|]. destruct (d =? 0); reflexivity.
Qed.

Lemma exw_inv : str_inv (exr_t 1000) exw_bank (import_go exr_doc (fresh_str 0)).
Proof.
  rewrite exr_state_eq. destruct exr_state_inv as [K S B V R N]. constructor; try assumption.
  intros d. rewrite exw_balance. apply B.
Qed.

(* the world of rendering (1) a successful import into the empty byte store represents *)
Lemma os_InitGenesis_empty_state (dom : addr -> Prop) (emb : addr -> list N)
      (emb_len : forall a, dom a -> (1 <= length (emb a) <= 255)%nat)
      (emb_inj : forall a b, dom a -> dom b -> emb a = emb b -> a = b) now b d ws' :
  doc_dom dom d -> str_params_valid (Params_ValidatorFee (GenesisState_Params d)) = true ->
  S.go_InitGenesis (empty_sworld emb now b) d = Ok (ws', tt) ->
  Rw dom emb (mk_kworld now b (import_go d (fresh_str 0))) ws'.
Proof.
  intros HD V E.
  destruct (os_InitGenesis_empty_Ok dom emb emb_len emb_inj now b d ws' HD E) as (w0 & EK & HR0 & _).
  rewrite (gen_str_InitGenesis_run _ d V) in EK.
  destruct (forallb stream_okb (GenesisState_Streams d)); [|discriminate EK].
  destruct (go_str_escrow_check _ _) as [[|]| |]; try discriminate EK. injection EK as Ew.
  rewrite <- Ew in HR0. exact HR0.
Qed.

Lemma exw_Rw : Rw exg_dom exg_emb exw_w exw_ws.
Proof.
  pose proof (os_InitGenesis_empty_state exg_dom exg_emb exg_emb_len exg_emb_inj (exr_t 1000) exr_bank exr_doc exr_ws0
                exr_doc_dom eq_refl exr_init) as (_ & _ & _ & HR).
  unfold exw_w, exw_ws. split; [reflexivity|]. split; [reflexivity|]. split; [reflexivity|]. exact HR.
Qed.

Lemma exw_export : S.go_ExportGenesis exg_unemb exw_ws = Ok exr_doc.
Proof. vm_compute. reflexivity. Qed.
Lemma exw_import : S.go_InitGenesis (empty_sworld exg_emb 7 exw_bank) exr_doc = Panic stream_PANIC.
Proof. vm_compute. reflexivity. Qed.

Example os_export_imports_wf_refuted :
  Rw exg_dom exg_emb exw_w exw_ws /\ str_inv (exr_t 1000) (kw_bank exw_w) (kw_str exw_w) /\ store_ok (sw_store exw_ws) /\
  ~ bank_wf (sw_bank exw_ws) /\
  S.go_ExportGenesis exg_unemb exw_ws = Ok exr_doc /\
  S.go_InitGenesis (empty_sworld exg_emb 7 (sw_bank exw_ws)) exr_doc = Panic stream_PANIC.
Proof.
  split; [exact exw_Rw|]. split; [exact exw_inv|]. split.
  - destruct os_genesis_run_ex_by_theorem as (_ & _ & _ & _ & _ & _ & SO0 & _). unfold exw_ws. cbn [sw_store]. exact SO0.
  - split.
    + unfold exw_ws. cbn [sw_bank]. unfold bank_wf, exw_bank, akeys. cbn [bal map fst]. intros ND.
      inversion ND as [|? ? _ ND1]. inversion ND1 as [|? ? _ ND2].
      inversion ND2 as [|? ? _ ND3]. inversion ND3 as [|? ? Hn _]. apply Hn. left. reflexivity.
    + split; [exact exw_export | exact exw_import].
Qed.

Lemma os_export_imports_wf_refuted_spelled :
  exw_bank = {| bal := [((STREAM_MACC, 1), 70); ((11, 0), 1000); ((13, 0), 200000); ((STREAM_MACC, 0), 500); ((STREAM_MACC, 0), 7)];
                supply := [(0, 201500); (1, 70)] |} /\
  exw_w = mk_kworld (exr_t 1000) exw_bank (import_go exr_doc (fresh_str 0)) /\
  exw_ws = mk_sworld exg_emb (exr_t 1000) exw_bank (sw_store exr_ws0) /\
  Rw exg_dom exg_emb exw_w exw_ws /\ str_inv (exr_t 1000) (kw_bank exw_w) (kw_str exw_w) /\ store_ok (sw_store exw_ws) /\
  ~ bank_wf (sw_bank exw_ws) /\
  S.go_ExportGenesis exg_unemb exw_ws = Ok exr_doc /\
  S.go_InitGenesis (empty_sworld exg_emb 7 (sw_bank exw_ws)) exr_doc = Panic stream_PANIC.
Proof. exact (conj eq_refl (conj eq_refl (conj eq_refl os_export_imports_wf_refuted))). Qed.

(* the same with its setup spelled out (for props/C15onstorestream.v) *)
Lemma os_run_roundtrip_dom_refuted_spelled :
  (forall a, exn_emb a = if a <? 256 then [Z.to_N a] else [1%N; 2%N]) /\
  exn_bank = {| bal := [((300, 0), 200000)]; supply := [(0, 200000)] |} /\
  exn_ws0 = mk_sworld exn_emb (exr_t 1000) exn_bank [(stream_ParamsKey, SV_Params exs_params)] /\
  exn_hist = [ (exr_t 1010, KStr (SCreate 300 10 0 100000 100)) ] /\
  (forall a, exg_dom a -> (1 <= length (exn_emb a) <= 255)%nat) /\
  (forall a b, exg_dom a -> exg_dom b -> exn_emb a = exn_emb b -> a = b) /\
  (forall a, exg_dom a -> exg_unemb (exn_emb a) = a) /\
  Rw exg_dom exn_emb (fresh_kworld (exr_t 1000) exn_bank 10000000000000000) exn_ws0 /\
  store_ok (sw_store exn_ws0) /\
  ~ Forall (fun tm => kmsg_dom exg_dom (snd tm)) exn_hist /\
  let ws1 := snd (s_run exn_ws0 exn_hist) in
  fst (s_run exn_ws0 exn_hist) = [Ok (KRStr RNone)] /\
  exists d ws2, S.go_ExportGenesis exg_unemb ws1 = Ok d /\
    S.go_InitGenesis (empty_sworld exn_emb 7 (sw_bank ws1)) d = Ok (ws2, tt) /\
    sw_store ws2 <> sw_store ws1.
Proof. exact (conj (fun a => eq_refl) (conj eq_refl (conj eq_refl (conj eq_refl os_run_roundtrip_dom_refuted)))). Qed.

(* ================================================================== *)
(* the vocabulary, spelled out (for props/C15onstorestream.v)           *)
(* ================================================================== *)
Lemma run_vocabulary_spelled :
  (forall (Q : okv stream_val -> Prop) (c : outcome (sworld * kresp)),
     keeps Q c <-> match c with Ok (w', _) => Q (sw_store w') | Err _ | Panic _ => True end) /\
  (forall s : okv stream_val, store_ok s <->
     (forall k v, In (k, v) s -> k = stream_ParamsKey \/ is_prefix stream_StreamKeyPrefix k = true) /\
     exists p, okv_get s stream_ParamsKey = Some (SV_Params p) /\ str_params_valid (Params_ValidatorFee p) = true) /\
  (forall t m ws, s_step t m ws = match s_deliver (sw_at t ws) m with Ok (ws', _) => ws' | Err _ | Panic _ => sw_at t ws end) /\
  (forall t ws, sw_at t ws = mk_sworld (sw_emb ws) t (sw_bank ws) (sw_store ws)) /\
  (forall ws t m h, snd (s_run ws ((t, m) :: h)) = snd (s_run (s_step t m ws) h)) /\
  (forall ws, snd (s_run ws []) = ws) /\
  (forall r sn, skey r sn = str_encode (SkStream r sn)) /\
  (forall r sn, skey r sn = 17%N :: length_prefix r ++ length_prefix sn) /\
  stream_ParamsKey = [1%N] /\ stream_StreamKeyPrefix = [17%N].
Proof.
  split; [intros Q [[w' r]|e|p]; reflexivity|]. split; [reflexivity|]. split; [reflexivity|]. split; [reflexivity|].
  split; [exact s_run_cons|]. split; [reflexivity|]. split; [reflexivity|].
  split; [reflexivity|]. split; reflexivity.
Qed.

Lemma exr_setup :
  exr_bank = {| bal := [((STREAM_MACC, 1), 70); ((11, 0), 1000); ((13, 0), 200000); ((STREAM_MACC, 0), 500)];
                supply := [(0, 201500); (1, 70)] |} /\
  (forall secs, exr_t secs = secs * NSEC) /\
  exr_doc = mk_go_GenesisState exs_params
    [ mk_go_StreamExport 10 11 (mk_go_Stream (0, 500) 10 (exr_t 1000) (exr_t 1050) true);
      mk_go_StreamExport 12 11 (mk_go_Stream (1, 70) 10 (exr_t 1000) (exr_t 1007) true) ] /\
  exr_hist =
    [ (exr_t 1010, KStr (SCreate 13 10 0 100000 100));
      (exr_t 1020, KStr (SClaim 11 10));
      (exr_t 1030, KStr (STopUp 11 10 0 300));
      (exr_t 1035, KStr (SClaim 13 12));
      (exr_t 1040, KStr (SCancel 11 12));
      (exr_t 1045, KUpdateParams (mk_go_MsgUpdateParams 11 (mk_go_Params 20000000000000000)));
      (exr_t 1050, KUpdateParams (mk_go_MsgUpdateParams GOV_MACC (mk_go_Params 20000000000000000))) ] /\
  exr_ws1 = snd (s_run exr_ws0 exr_hist) /\
  exr_doc1 = mk_go_GenesisState (mk_go_Params 20000000000000000)
    [ mk_go_StreamExport 10 11 (mk_go_Stream (0, 600) 10 (exr_t 1020) (exr_t 1080) true);
      mk_go_StreamExport 10 13 (mk_go_Stream (0, 100000) 100 (exr_t 1010) (exr_t 2010) true) ].
Proof.
  split; [reflexivity|]. split; [reflexivity|]. split; [reflexivity|]. split; [reflexivity|]. split; reflexivity.
Qed.

(* the three writes write module keys and keep a validating Params cell *)
Lemma writes_store_ok :
  (forall s r sn x, store_ok s -> store_ok (okv_set s (skey r sn) (SV_Stream x))) /\
  (forall s r sn, store_ok s -> store_ok (okv_del s (skey r sn))) /\
  (forall s p, str_params_valid (Params_ValidatorFee p) = true -> store_ok s ->
     store_ok (okv_set s stream_ParamsKey (SV_Params p))).
Proof. exact (conj store_ok_set_stream (conj store_ok_del_stream store_ok_set_params)). Qed.

Lemma writes_module_keys :
  (forall s r sn x, module_keys s -> module_keys (okv_set s (skey r sn) (SV_Stream x))) /\
  (forall s k0, module_keys s -> module_keys (okv_del s k0)) /\
  (forall s p, module_keys s -> module_keys (okv_set s stream_ParamsKey (SV_Params p))).
Proof. exact (conj module_keys_set_stream (conj module_keys_del module_keys_set_params)). Qed.

Print Assumptions keeps_deliver.
Print Assumptions keeps_run.
Print Assumptions module_keys_deliver.
Print Assumptions module_keys_run.
Print Assumptions store_ok_deliver.
Print Assumptions store_ok_step.
Print Assumptions store_ok_run.
Print Assumptions store_ok_msg_server.
Print Assumptions bank_wf_run.
Print Assumptions gen_str_import_reordered.
Print Assumptions os_export_imports.
Print Assumptions os_run_roundtrip_bytes.
Print Assumptions os_genesis_run_roundtrip.
Print Assumptions os_run_roundtrip_total.
Print Assumptions os_genesis_run_roundtrip_total.
Print Assumptions os_genesis_run_ex.
Print Assumptions os_genesis_run_ex_by_theorem.
Print Assumptions os_run_roundtrip_dom_refuted.
Print Assumptions os_export_imports_wf_refuted.
