(* The enterprise queues are kept in store order (ascending id) in every reachable state: the fact that
   lets C15 compare the queues rebuilt by InitGenesis with the original ones as lists.  [ent_ordered] is
   shown preserved by every module-level step and by every transition of the node. *)
From MC Require Import lib.Prelude lib.AMap model.Bank model.Stream model.StreamSpec model.Registry
  model.RegistrySpec model.Enterprise model.EnterpriseSpec model.App model.AppSpec model.Genesis.
From MC Require Import proofs.BankProofs proofs.StreamProofs proofs.EnterpriseProofs proofs.RegistryProofs
  proofs.AppFrame proofs.AppParamsProofs proofs.AppInv proofs.GenesisLib proofs.GenesisProofs.
From Coq Require Import ZifyBool.
Ltac Zify.zify_post_hook ::= Z.div_mod_to_equations.
Local Open Scope Z_scope.

(* ---------- lists ---------- *)

Lemma si_filter (p : Z -> bool) l : strictly_increasing l -> strictly_increasing (filter p l).
Proof.
  intros S. rewrite <- (map_id (filter p l)). apply si_map_filter. rewrite map_id. exact S.
Qed.

Lemma si_remove_z x l : strictly_increasing l -> strictly_increasing (remove_z x l).
Proof. apply si_filter. Qed.

(* the parts of the enterprise state [ent_ordered] reads *)
Definition ord_core (e : ent_state) := (e_pos e, e_raisedq e, e_acceptedq e).

Lemma ent_ordered_core e e' : ord_core e' = ord_core e -> ent_ordered e -> ent_ordered e'.
Proof. unfold ord_core, ent_ordered. intros [= -> -> ->]. auto. Qed.

Lemma ent_ordered_genesis p start wl : ent_ordered (ent_genesis p start wl).
Proof. repeat split. Qed.

Lemma akeys_aset_present {V} (k : Z) (v o : V) (m : amap Z V) : aget k m = Some o -> akeys (aset k v m) = akeys m.
Proof. intros G. apply akeys_aset_in. eapply aget_Some_In_keys; eauto. Qed.

(* ---------- messages ---------- *)

Lemma ent_ordered_exec now s m s' r :
  sinv now s -> ent_exec now s m = Ok (s', r) -> ent_ordered s -> ent_ordered s'.
Proof.
  intros Is H (Op & Or & Oa). destruct m as [p d amt|sg poid dec|sg t act].
  - apply exec_raise_inv in H as (_ & _ & _ & _ & ->). unfold ent_ordered. sproj.
    pose proof (fresh_next _ _ Is) as Fr.
    assert (Hlt : forall y, In y (akeys (e_pos s)) -> y < e_next s).
    { intros y Hy. apply In_akeys_aget in Hy as [o G]. pose proof (pk_range _ _ _ _ _ (si_po _ _ Is _ _ G)). lia. }
    split; [|split; [|exact Oa]].
    + rewrite akeys_aset_notin by (apply aget_None_notin; exact Fr). apply si_snoc; assumption.
    + apply si_snoc; [exact Or|]. intros y Hy. apply (si_rq _ _ Is) in Hy.
      apply status_raised_Some in Hy as (o & G & _). apply Hlt. eapply aget_Some_In_keys; eauto.
  - apply exec_decide_inv in H as (_ & _ & _ & o & G & _ & _ & ->). unfold ent_ordered. sproj.
    rewrite (akeys_aset_present _ _ _ _ G). auto.
  - apply exec_whitelist_inv in H as (_ & _ & wl' & ->). unfold ent_ordered. sproj. auto.
Qed.

(* ---------- BeginBlock ---------- *)

Lemma ent_ordered_completes now ids b s b' s' :
  completes now ids b s b' s' -> ent_ordered s -> ent_ordered s'.
Proof.
  induction 1 as [|id o rest b s b1 b' s' I B G St Mi C IH]; [auto|]. intros (Op & Or & Oa). apply IH.
  unfold ent_ordered, complete_state. sproj. rewrite (akeys_aset_present _ _ _ _ G).
  split; [exact Op|split; [exact Or|apply si_remove_z; exact Oa]].
Qed.

Lemma ent_ordered_tallies now ids s s' :
  tallies now ids s s' -> strictly_increasing ids ->
  (forall x y, In x (e_acceptedq s) -> In y ids -> x < y) ->
  ent_ordered s -> ent_ordered s'.
Proof.
  induction 1 as [s I|id o rest s s' I G St T C IH|id o st rest s s' I G St T C IH]; intros Si Lt Ho.
  - exact Ho.
  - apply si_cons in Si as [_ Si]. apply IH; auto. intros x y X Y. apply Lt; [exact X | right; exact Y].
  - apply si_cons in Si as [Hd Si]. destruct Ho as (Op & Or & Oa). apply IH; [exact Si| |].
    + intros x y X Y. cbn [tally_state with_pos e_acceptedq] in X. destruct (st =? ST_ACCEPTED).
      * apply in_app_or in X as [X|[<-|[]]]; [apply Lt; [exact X | right; exact Y] | apply Hd; exact Y].
      * apply Lt; [exact X | right; exact Y].
    + unfold ent_ordered, tally_state. sproj. rewrite (akeys_aset_present _ _ _ _ G).
      split; [exact Op|split; [apply si_remove_z; exact Or|]].
      destruct (st =? ST_ACCEPTED); [|exact Oa]. apply si_snoc; [exact Oa|].
      intros y Hy. apply Lt; [exact Hy | left; reflexivity].
Qed.

Lemma ent_ordered_begin w now b' s' :
  ent_inv w -> w_now w <= now -> ent_begin_block now (w_bank w) (w_ent w) = Ok (b', s') ->
  ent_ordered (w_ent w) -> ent_ordered s'.
Proof.
  intros I Hn H Ho. destruct (begin_block_decompose _ _ _ _ I Hn H) as (s1 & C & T).
  pose proof (ent_ordered_completes _ _ _ _ _ _ C Ho) as Ho1.
  pose proof (completes_all_empty _ _ _ _ _ C) as Em.
  apply (ent_ordered_tallies _ _ _ _ T); [apply Ho1 | | exact Ho1].
  rewrite Em. intros x y [].
Qed.

(* ---------- every module-level step ---------- *)

Theorem ent_ordered_step w o w' :
  ent_inv w -> ent_op_wf w o -> ent_step w o = Some w' -> ent_ordered (w_ent w) -> ent_ordered (w_ent w').
Proof.
  intros I W H Ho. destruct o as [m|now|p|payer fee]; cbn [ent_step] in H.
  - destruct (ent_validate_basic m); try (injection H as <-; exact Ho).
    destruct (ent_exec (w_now w) (w_ent w) m) as [[s' z]| |] eqn:E; injection H as <-; try exact Ho.
    cbn [w_ent]. eapply ent_ordered_exec; eauto. apply I.
  - destruct (ent_begin_block now (w_bank w) (w_ent w)) as [[b' s']| |] eqn:E; try discriminate.
    injection H as <-. cbn [w_ent]. destruct W as [Hn _]. eapply ent_ordered_begin; eauto.
  - destruct (ent_set_params (w_ent w) p) as [s'| |] eqn:E; injection H as <-; try exact Ho.
    cbn [w_ent]. unfold ent_set_params in E. destruct (ent_params_valid p); [|discriminate].
    injection E as <-. exact Ho.
  - destruct (unlock_for_fees (w_bank w) (w_ent w) payer fee) as [[b' s']| |] eqn:E; injection H as <-; try exact Ho.
    cbn [w_ent]. apply unlock_for_fees_core in E. unfold ent_core in E.
    apply (ent_ordered_core (w_ent w)); [|exact Ho]. unfold ord_core. congruence.
Qed.

Theorem ent_ordered_run h : forall w w',
  ent_inv w -> ent_hist_wf w h -> ent_run w h = Some w' -> ent_ordered (w_ent w) -> ent_ordered (w_ent w').
Proof.
  induction h as [|o r IH]; intros w w' I W H Ho.
  - cbn in H. injection H as <-. exact Ho.
  - cbn [ent_run ent_hist_wf] in *. destruct W as [Wo Wr].
    destruct (ent_step w o) as [w1|] eqn:E; [|discriminate].
    apply (IH w1 w'); auto.
    + eapply ent_inv_step; eauto.
    + eapply ent_ordered_step; eauto.
Qed.

(* ================================================================= *)
(* the application                                                    *)
(* ================================================================= *)

Definition ord_inv (a : app) : Prop := app_inv a /\ ent_ordered (a_ent a).

Lemma exec_leaf_ordered f a m a' :
  is_exec m = false -> exec_msg f a m = Ok a' -> app_inv a -> ent_ordered (a_ent a) -> ent_ordered (a_ent a').
Proof.
  intros X H I Ho. destruct f as [|f]; [discriminate|].
  destruct m as [e|r|r|s|from to cs|gr ge ty|gr ge|ge inner|au u]; try discriminate X; cbn in H.
  - step H. destruct a0 as [e' z]. injection H as <-. cbn.
    eapply ent_ordered_exec; eauto. apply (inv_s _ (ai_ent a I)).
  - step H. destruct a0 as [r' z]. injection H as <-. exact Ho.
  - step H. destruct a0 as [r' z]. injection H as <-. exact Ho.
  - step H. destruct a0 as [[b' s'] z]. injection H as <-. exact Ho.
  - step H. step H. step H. injection H as <-. exact Ho.
  - injection H as <-. exact Ho.
  - step H. injection H as <-. exact Ho.
  - step H. destruct u; repeat step H; injection H as <-; try exact Ho.
    cbn. unfold ent_set_params in E. step E. injection E as <-. exact Ho.
Qed.

Lemma exec_msg_ord f a m a' : msg_wf m -> exec_msg f a m = Ok a' -> ord_inv a -> ord_inv a'.
Proof.
  apply (exec_msg_rel (fun a a' => ord_inv a -> ord_inv a') msg_wf); auto.
  - intros f0 a0 m0 a1 X W H [I Ho]. split; [eapply exec_leaf_inv; eauto | eapply exec_leaf_ordered; eauto].
  - intros; eapply msg_wf_inner; eauto.
Qed.

Lemma exec_all_ord a t a' : Forall msg_wf (tx_msgs t) -> exec_all a t = Ok a' -> ord_inv a -> ord_inv a'.
Proof.
  intros F. rewrite Forall_forall in F.
  apply (exec_all_rel (fun a a' => ord_inv a -> ord_inv a') msg_wf); auto.
  - intros f0 a0 m0 a1 X W H [I Ho]. split; [eapply exec_leaf_inv; eauto | eapply exec_leaf_ordered; eauto].
  - intros; eapply msg_wf_inner; eauto.
Qed.

Lemma ante_ord check a t a1 : ante check a t = Ok a1 -> 0 <= tx_payer t -> tx_wf t -> ord_inv a -> ord_inv a1.
Proof.
  intros H Hp W [I Ho]. split; [apply (ante_inv check a t a1 H Hp W I)|].
  apply ante_frame in H as (_ & _ & _ & _ & _ & _ & _ & E1 & _ & E2 & E3 & _).
  apply (ent_ordered_core (a_ent a)); [|exact Ho]. unfold ord_core. congruence.
Qed.

Theorem ord_inv_deliver a t a' r : deliver_tx a t = (a', r) -> tx_wf t -> ord_inv a -> ord_inv a'.
Proof.
  unfold deliver_tx. intros H W I.
  destruct (validate_all t) as [u|c|c] eqn:V; try (injection H as <- _; exact I).
  apply validate_all_unit in V. pose proof (validate_all_payer t V (tw_msgs t W)) as Hp.
  destruct (ante false a t) as [a1|c|c] eqn:A; try (injection H as <- _; exact I).
  pose proof (ante_ord false a t a1 A Hp W I) as I1.
  destruct (exec_all a1 t) as [a2|c|c] eqn:E; injection H as <- _; auto.
  eapply exec_all_ord; eauto. apply W.
Qed.

Theorem ord_inv_check a t a' r : check_tx a t = (a', r) -> tx_wf t -> ord_inv a -> ord_inv a'.
Proof.
  unfold check_tx. intros H W I.
  destruct (validate_all t) as [u|c|c] eqn:V; try (injection H as <- _; exact I).
  apply validate_all_unit in V. pose proof (validate_all_payer t V (tw_msgs t W)) as Hp.
  destruct (ante true a t) as [a1|c|c] eqn:A; injection H as <- _; auto.
  apply (ante_ord true a t a1 A Hp W I).
Qed.

Theorem ord_inv_begin a now a' : begin_block a now = Some a' -> begin_wf a now -> ord_inv a -> ord_inv a'.
Proof.
  intros H W [I Ho]. split; [eapply app_inv_begin; eauto|].
  destruct (begin_block_inv a now a' H) as (b1 & e1 & E & _ & ->). cbn [with_ent a_ent].
  apply (ent_ordered_begin (ew a) (unix now) b1 e1); [apply I | | exact E | exact Ho].
  cbn [ew w_now]. apply unix_mono. apply W.
Qed.

Lemma gov_msg_ordered d f a m a' :
  gov_msg_wf d m -> exec_msg f a m = Ok a' -> ord_core (a_ent a') = ord_core (a_ent a).
Proof.
  intros (u & -> & _) H. destruct f as [|f]; [discriminate|]. cbn in H.
  destruct u; repeat step H; injection H as <-; try reflexivity.
  cbn. unfold ent_set_params in E. step E. injection E as <-. reflexivity.
Qed.

Lemma exec_proposal_ordered d a ms :
  (forall m, In m ms -> gov_msg_wf d m) -> ord_core (a_ent (exec_proposal a ms)) = ord_core (a_ent a).
Proof.
  intros W. rewrite exec_proposal_ofold.
  destruct (ofold (fun a1 m => exec_msg (S (S (msg_depth m))) a1 m) ms (Ok a)) as [a'|?|?] eqn:E; auto.
  apply (ofold_rel (fun a1 m => exec_msg (S (S (msg_depth m))) a1 m)
           (fun a a' => ord_core (a_ent a') = ord_core (a_ent a)) (gov_msg_wf d)) with (l := ms); auto.
  - intros; congruence.
  - intros a0 m a1 Wm H. eapply gov_msg_ordered; eauto.
Qed.

Theorem ord_inv_end a props : end_wf a props -> ord_inv a -> ord_inv (end_block a props).
Proof.
  intros W [I Ho]. split; [apply app_inv_end; auto|].
  apply (ent_ordered_core (a_ent a)); [|exact Ho]. clear I Ho.
  unfold end_wf in W. set (d := ep_denom (e_params (a_ent a))) in W. clearbody d.
  unfold end_block. revert a. induction props as [|ms rest IH]; intros a; cbn [fold_left]; [reflexivity|].
  rewrite IH by (intros ms' m H1 H2; apply (W ms' m); [right; exact H1 | exact H2]).
  apply (exec_proposal_ordered d). intros m Hm. apply (W ms m); [left; reflexivity | exact Hm].
Qed.

Definition node_ord (n : node) : Prop :=
  ord_inv (n_committed n) /\ ord_inv (n_check n) /\
  match n_deliver n with Some a => ord_inv a | None => True end.

Theorem node_step_ord n o n' r : node_step n o = Some (n', r) -> op_wf n o -> node_ord n -> node_ord n'.
Proof.
  intros H W (Ic & Ik & Id). destruct o as [now|t|t|ps| |]; cbn in H, W.
  - destruct (begin_block (n_committed n) now) as [a|] eqn:E; [|discriminate]. injection H as <- _.
    (split; [|split]; cbn; auto). eapply ord_inv_begin; eauto.
  - destruct (n_deliver n) as [a|]; [|discriminate]. destruct (deliver_tx a t) as [a' r'] eqn:E.
    injection H as <- _. (split; [|split]; cbn; auto). eapply ord_inv_deliver; eauto.
  - destruct (check_tx (n_check n) t) as [c' r'] eqn:E. injection H as <- _.
    (split; [|split]; cbn; auto). eapply ord_inv_check; eauto.
  - destruct (n_deliver n) as [a|]; [|discriminate]. injection H as <- _.
    (split; [|split]; cbn; auto). apply ord_inv_end; auto.
  - destruct (n_deliver n) as [a|]; [|discriminate]. injection H as <- _.
    (split; [|split]; cbn; auto).
  - injection H as <- _. (split; [|split]; cbn; auto).
Qed.

Theorem node_run_ord h : forall n n', node_run n h = Some n' -> hist_wf n h -> node_ord n -> node_ord n'.
Proof.
  induction h as [|o r IH]; intros n n' H W I; cbn in H.
  - injection H as <-. exact I.
  - destruct W as [Wo Wr]. destruct (node_step n o) as [[n1 x]|] eqn:E; [|discriminate].
    apply (IH n1 n' H Wr). eapply node_step_ord; eauto.
Qed.

(* every state of every well-formed node history has its queues in store order *)
Theorem ent_ordered_node_run g h n :
  app_inv g -> ent_ordered (a_ent g) -> hist_wf (node_init g) h -> node_run (node_init g) h = Some n ->
  ent_ordered (a_ent (n_committed n)) /\ ent_ordered (a_ent (n_check n)) /\
  match n_deliver n with Some a => ent_ordered (a_ent a) | None => True end.
Proof.
  intros I Ho W H.
  assert (O0 : ord_inv g) by (split; assumption).
  assert (N0 : node_ord (node_init g)) by (split; [exact O0 | split; [exact O0 | exact Logic.I]]).
  destruct (node_run_ord h _ _ H W N0) as ([_ A] & [_ B] & C). split; [exact A|split; [exact B|]].
  destruct (n_deliver n); [apply C | exact Logic.I].
Qed.

(* the re-imported enterprise state is ordered as soon as the order table is *)
Lemma ent_ordered_reimported now s :
  sinv now s -> strictly_increasing (akeys (e_pos s)) -> ent_ordered (ent_reimported s).
Proof.
  intros Is Op. unfold ent_ordered. cbn [ent_reimported e_pos e_raisedq e_acceptedq].
  split; [exact Op|]. split; rewrite (ids_with_keys now s _ Is); apply si_map_filter; exact Op.
Qed.
