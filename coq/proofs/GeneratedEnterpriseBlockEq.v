(* The BeginBlocker of x/enterprise as generated from /repo/x/enterprise/keeper/blocker.go (coq/GeneratedEnterpriseKeeper.v,
   re-generated on every run): ProcessAcceptedPurchaseOrders and TallyPurchaseOrderDecisions compute what the hand-written
   model (model/Enterprise.v: process_accepted, tally, ent_begin_block) computes, outcome for outcome, panic codes included,
   under the hypotheses listed with each theorem; each hypothesis that can be witnessed is shown necessary (part 6).

   Structure (so that the proofs survive a harmless re-generation: no temporary of the generated file is mentioned, and the
   nesting of its tests is not relied upon):
     part 1  `for .. range`: unfolding lemmas, replacing a loop body by an equal one under a loop invariant;
     part 2  the primitives of model/EnterpriseKeeperPrims.v met in blocker.go, each characterised separately;
     part 3  a walker [bwalk] for a loop body;
     part 4  ProcessAcceptedPurchaseOrders;
     part 5  TallyPurchaseOrderDecisions, the BeginBlocker;
     part 6  the hypotheses cannot be dropped; a concrete world. *)
From Coq Require Import ZifyBool.
From MC Require Import lib.Prelude lib.AMap lib.GoSdk GeneratedEnterpriseTypes model.Bank model.Enterprise
  model.EnterpriseSpec model.EnterpriseKeeperPrims GeneratedEnterpriseKeeper model.EnterpriseGenSpec.
From MC Require Import proofs.BankProofs proofs.EnterpriseProofs proofs.EnterpriseC03 proofs.GeneratedEnterpriseEq.
Local Open Scope Z_scope.

(* ------------------------------------------------------------------------------------------ *)
(* part 1: for .. range                                                                       *)
(* ------------------------------------------------------------------------------------------ *)

Lemma go_range_nil {A S R} (f : A -> S -> outcome (loop_res S R)) s : go_range f [] s = Ok (LCont s).
Proof. reflexivity. Qed.

Lemma go_range_cons {A S R} (f : A -> S -> outcome (loop_res S R)) x l s :
  go_range f (x :: l) s =
    do res <- f x s; match res with LCont s' => go_range f l s' | LRet v => Ok (LRet v) end.
Proof. reflexivity. Qed.

Lemma go_range_ext {A S R} (f g : A -> S -> outcome (loop_res S R)) :
  (forall x s, f x s = g x s) -> forall l s, go_range f l s = go_range g l s.
Proof.
  intros E l. induction l as [|x r IH]; intros s; [reflexivity|].
  rewrite !go_range_cons, E. destruct (g x s) as [[s'|v]| |]; cbn [obind]; [apply IH|reflexivity..].
Qed.

(* the same when the bodies agree only on the states satisfying an invariant of the loop *)
Lemma go_range_ext_inv {A S R} (f g : A -> S -> outcome (loop_res S R)) (P : S -> Prop) :
  (forall x s, P s -> f x s = g x s) ->
  (forall x s s', P s -> g x s = Ok (LCont s') -> P s') ->
  forall l s, P s -> go_range f l s = go_range g l s.
Proof.
  intros E Pr l. induction l as [|x r IH]; intros s Ps; [reflexivity|].
  rewrite !go_range_cons, (E x s Ps). destruct (g x s) as [[s'|v]| |] eqn:G; cbn [obind]; [|reflexivity..].
  apply IH. exact (Pr x s s' Ps G).
Qed.

(* ------------------------------------------------------------------------------------------ *)
(* part 2: the primitives                                                                     *)
(* ------------------------------------------------------------------------------------------ *)

(* --- machine integers --- *)
Lemma wrap64_small z : 0 <= z < two64 -> wrap64 z = z.
Proof. intros H. unfold wrap64. apply Z.mod_small. exact H. Qed.

Lemma i64_of_small z : - two63 <= z < two63 -> i64_of z = z.
Proof. intros H. unfold i64_of. rewrite Z.mod_small; unfold two63, two64 in *; lia. Qed.

Lemma wrap64_sub_l x y : wrap64 (wrap64 x - y) = wrap64 (x - y).
Proof. unfold wrap64. apply Zminus_mod_idemp_l. Qed.

(* --- the two renderings of a purchase order --- *)
Lemma of_to_decision d : of_go_decision (to_go_decision d) = d.
Proof. destruct d; reflexivity. Qed.

Lemma of_to_decisions l : map of_go_decision (map to_go_decision l) = l.
Proof. induction l as [|d r IH]; [reflexivity|]. cbn [map]. rewrite of_to_decision, IH. reflexivity. Qed.

Lemma of_to_po o : of_go_po (to_go_po o) = o.
Proof. destruct o. unfold of_go_po, to_go_po. cbn. rewrite of_to_decisions. reflexivity. Qed.

(* --- the store --- *)
(* one order written: SetPurchaseOrder *)
Definition set_po (s : ent_state) (id : Z) (o : po) : ent_state :=
  with_pos s (aset id o (e_pos s)) (e_raisedq s) (e_acceptedq s).

Lemma GetPO_world n b s id :
  ent_GetPurchaseOrder (mk_eworld n b s) id =
    match aget id (e_pos s) with Some o => (to_go_po o, true) | None => (zero_go_EnterpriseUndPurchaseOrder, false) end.
Proof. reflexivity. Qed.

Lemma SetPO_world n b s g :
  ent_SetPurchaseOrder (mk_eworld n b s) g =
    if negb ((1 <=? EnterpriseUndPurchaseOrder_Status g) && (EnterpriseUndPurchaseOrder_Status g <=? 4)) then Err ERR_ENT
    else Ok (mk_eworld n b (set_po s (EnterpriseUndPurchaseOrder_Id g) (of_go_po g)), tt).
Proof. reflexivity. Qed.

Lemma SetPO_ok n b s g : 1 <= EnterpriseUndPurchaseOrder_Status g <= 4 ->
  ent_SetPurchaseOrder (mk_eworld n b s) g = Ok (mk_eworld n b (set_po s (EnterpriseUndPurchaseOrder_Id g) (of_go_po g)), tt).
Proof.
  intros H. rewrite SetPO_world.
  destruct ((1 <=? EnterpriseUndPurchaseOrder_Status g) && (EnterpriseUndPurchaseOrder_Status g <=? 4)) eqn:E; [reflexivity|lia].
Qed.

Lemma RemoveRaised_world n b s id :
  ent_RemovePurchaseOrderFromRaisedQueue (mk_eworld n b s) id =
    Ok (mk_eworld n b (with_pos s (e_pos s) (remove_z id (e_raisedq s)) (e_acceptedq s)), tt).
Proof. reflexivity. Qed.
Lemma RemoveAccepted_world n b s id :
  ent_RemovePurchaseOrderFromAcceptedQueue (mk_eworld n b s) id =
    Ok (mk_eworld n b (with_pos s (e_pos s) (e_raisedq s) (remove_z id (e_acceptedq s))), tt).
Proof. reflexivity. Qed.
Lemma AddAccepted_world n b s id :
  ent_AddPoToAcceptedQueue (mk_eworld n b s) id =
    Ok (mk_eworld n b (with_pos s (e_pos s) (e_raisedq s) (e_acceptedq s ++ [id])), tt).
Proof. reflexivity. Qed.

Lemma AccAddress_split a : ent_AccAddressFromBech32 a = if negb (addr_parses a) then Err ERR_ENT else Ok a.
Proof. unfold ent_AccAddressFromBech32. destruct (addr_parses a); reflexivity. Qed.
Lemma addr_parses_true a : a <> BAD_ADDR /\ a <> EMPTY_ADDR -> addr_parses a = true.
Proof. unfold addr_parses. lia. Qed.

(* every stored order sits under its own id (SetPurchaseOrder files an order under po.Id, the model under the id it
   looked up) *)
Definition pos_keyed (s : ent_state) : Prop := forall id o, aget id (e_pos s) = Some o -> po_id o = id.
(* len(po.Decisions) fits int (the counters of the tally are ints) *)
Definition decisions_fit (s : ent_state) : Prop :=
  forall id o, aget id (e_pos s) = Some o -> Z.of_nat (List.length (po_decisions o)) < two63.

Lemma pos_keyed_set s id o : pos_keyed s -> po_id o = id -> pos_keyed (set_po s id o).
Proof.
  intros K E id' o'. unfold set_po. cbn [with_pos e_pos]. rewrite aget_aset_Z.
  destruct (Z.eqb_spec id' id) as [->|N]; [intros [= <-]; exact E|apply K].
Qed.

Lemma decisions_fit_set s id o :
  decisions_fit s -> Z.of_nat (List.length (po_decisions o)) < two63 -> decisions_fit (set_po s id o).
Proof.
  intros K E id' o'. unfold set_po. cbn [with_pos e_pos]. rewrite aget_aset_Z.
  destruct (Z.eqb_spec id' id) as [->|N]; [intros [= <-]; exact E|apply K].
Qed.

(* ------------------------------------------------------------------------------------------ *)
(* part 3: walking a loop body                                                                *)
(* ------------------------------------------------------------------------------------------ *)

#[local] Arguments go_MintCoinsAndLock : simpl never.

(* the status constants of the generated types and of the model, as numbers *)
Ltac stnorm :=
  unfold enterprise_StatusNil, enterprise_StatusRaised, enterprise_StatusAccepted, enterprise_StatusRejected,
    enterprise_StatusCompleted, ST_NIL, ST_RAISED, ST_ACCEPTED, ST_REJECTED, ST_COMPLETED, enterprise_PANIC, PANIC_BLOCKER in *.

(* plumbing: the monad, worlds, and the fields of the generated records *)
Ltac bnorm :=
  cbn [obind fst snd negb panic_on_err eblift ew_now ew_bank ew_ent with_ent with_ebank to_go_po to_go_decision
       EnterpriseUndPurchaseOrder_Id EnterpriseUndPurchaseOrder_Purchaser EnterpriseUndPurchaseOrder_Amount
       EnterpriseUndPurchaseOrder_Status EnterpriseUndPurchaseOrder_RaiseTime EnterpriseUndPurchaseOrder_CompletionTime
       EnterpriseUndPurchaseOrder_Decisions
       set_EnterpriseUndPurchaseOrder_Id set_EnterpriseUndPurchaseOrder_Purchaser set_EnterpriseUndPurchaseOrder_Amount
       set_EnterpriseUndPurchaseOrder_Status set_EnterpriseUndPurchaseOrder_RaiseTime
       set_EnterpriseUndPurchaseOrder_CompletionTime set_EnterpriseUndPurchaseOrder_Decisions
       PurchaseOrderDecision_Signer PurchaseOrderDecision_Decision PurchaseOrderDecision_DecisionTime
       Params_EntSigners Params_Denom Params_MinAccepts Params_DecisionTimeLimit].

Ltac bprim :=
  match goal with
  | |- context [ent_GetPurchaseOrder (mk_eworld ?n ?b ?s) ?id] => rewrite (GetPO_world n b s id)
  | |- context [ent_SetPurchaseOrder (mk_eworld ?n ?b ?s) ?g] => rewrite (SetPO_ok n b s g) by (bnorm; lia)
  | |- context [ent_RemovePurchaseOrderFromRaisedQueue (mk_eworld ?n ?b ?s) ?id] => rewrite (RemoveRaised_world n b s id)
  | |- context [ent_RemovePurchaseOrderFromAcceptedQueue (mk_eworld ?n ?b ?s) ?id] => rewrite (RemoveAccepted_world n b s id)
  | |- context [ent_AddPoToAcceptedQueue (mk_eworld ?n ?b ?s) ?id] => rewrite (AddAccepted_world n b s id)
  | |- context [ent_AccAddressFromBech32 ?a] => rewrite (AccAddress_split a)
  | |- context [go_MintCoinsAndLock ?w ?a ?c] => rewrite (gen_ent_MintCoinsAndLock_eq w a c)
  end.

Ltac bsplit :=
  match goal with
  | |- context [match aget ?id ?m with Some _ => _ | None => _ end] => destruct (aget id m) eqn:?
  | |- context [if ?c then _ else _] => split_on c
  | |- context [eblift _ ?o] => eatomic o; destruct o as [[? ?]|?|?] eqn:?
  end.

(* the states written by the two sides, spelt out field by field *)
Ltac bstate :=
  first [ match goal with
          | K : pos_keyed ?s, G : aget ?id (e_pos ?s) = Some ?o |- context [po_id ?o] => rewrite (K id o G)
          end
        | progress unfold set_po, set_po_status, of_go_po, with_pos
        | progress cbn [e_params e_next e_pos e_raisedq e_acceptedq e_wl e_locked e_spent e_totlocked e_totspent
                        po_id po_purchaser po_denom po_amount po_status po_raise_time po_completion_time po_decisions]
        | rewrite of_to_decisions ].

Ltac bstep := first [ progress bnorm | progress cbv beta iota zeta | bprim | bstate | bsplit ].
Ltac bwalk := repeat bstep.

(* ------------------------------------------------------------------------------------------ *)
(* part 4: ProcessAcceptedPurchaseOrders                                                      *)
(* ------------------------------------------------------------------------------------------ *)

(* one turn of the loop, in the model: [complete_one] (proofs/EnterpriseProofs.v) *)
Definition pa_step (id : Z) (w : eworld) : outcome (loop_res eworld (eworld * unit)) :=
  match complete_one id (ew_bank w) (ew_ent w) with
  | Ok (b, s) => Ok (LCont (mk_eworld (ew_now w) b s))
  | Err c => Err c
  | Panic c => Panic c
  end.

Lemma range_pa_step ids : forall w,
  go_range pa_step ids w =
    match process_accepted ids (ew_bank w) (ew_ent w) with
    | Ok (b, s) => Ok (LCont (mk_eworld (ew_now w) b s))
    | Err c => Err c
    | Panic c => Panic c
    end.
Proof.
  induction ids as [|id r IH]; intros w; [destruct w; reflexivity|].
  rewrite go_range_cons, process_accepted_cons. unfold pa_step at 1.
  destruct (complete_one id (ew_bank w) (ew_ent w)) as [[b s]| |]; cbn [obind]; [|reflexivity..].
  rewrite IH. reflexivity.
Qed.

(* what the loop keeps: the parameters, and the two properties of the order table the equalities need *)
Lemma mint_and_lock_frame b s a c b' s' :
  mint_and_lock b s a c = Ok (b', s') -> e_params s' = e_params s /\ e_pos s' = e_pos s.
Proof.
  unfold mint_and_lock. destruct (snd c =? 0); [intros [= <- <-]; split; reflexivity|].
  destruct (bank_mint b ENT_MACC (fst c) (snd c)) as [b1| |]; cbn [obind]; try discriminate.
  destruct (bank_send_m2a b1 ENT_MACC a (fst c) (snd c)) as [b2| |]; cbn [obind]; try discriminate.
  destruct (bank_send b2 a ENT_MACC (fst c) (snd c)) as [b3| |]; cbn [obind]; try discriminate.
  unfold increment_locked.
  destruct (coin_add (locked_coin s a) c) as [l| |]; cbn [obind]; try discriminate.
  destruct (snd l <? 0); try discriminate.
  destruct (coin_add (total_locked s) c) as [t| |]; cbn [obind]; try discriminate.
  intros [= <- <-]. split; reflexivity.
Qed.

Lemma complete_one_frame id b s b' s' :
  complete_one id b s = Ok (b', s') ->
  e_params s' = e_params s /\ (pos_keyed s -> pos_keyed s') /\ (decisions_fit s -> decisions_fit s').
Proof.
  unfold complete_one. intros H.
  destruct (aget id (e_pos s)) as [o|] eqn:G; [|discriminate].
  destruct (negb (po_status o =? ST_ACCEPTED)); [discriminate|]. cbv zeta in H.
  destruct (negb (addr_parses (po_purchaser o))); [discriminate|].
  destruct (mint_and_lock _ _ _ _) as [[b2 s2]| |] eqn:M; try discriminate.
  injection H as <- <-. apply mint_and_lock_frame in M. destruct M as [Mp Mpos]. cbn [with_pos e_params e_pos] in Mp, Mpos.
  fold (set_po s id (set_po_status o ST_COMPLETED 0 false)) in Mpos.
  split; [|split].
  - cbn [with_pos e_params]. congruence.
  - intros K id' o'. cbn [with_pos e_pos]. rewrite Mpos. apply pos_keyed_set; [exact K|exact (K id o G)].
  - intros D id' o'. cbn [with_pos e_pos]. rewrite Mpos. apply decisions_fit_set; [exact D|exact (D id o G)].
Qed.

Lemma process_accepted_frame ids : forall b s b' s',
  process_accepted ids b s = Ok (b', s') ->
  e_params s' = e_params s /\ (pos_keyed s -> pos_keyed s') /\ (decisions_fit s -> decisions_fit s').
Proof.
  induction ids as [|id r IH]; intros b s b' s' H; [injection H as <- <-; tauto|].
  rewrite process_accepted_cons in H.
  destruct (complete_one id b s) as [[b2 s2]| |] eqn:C; try discriminate.
  destruct (complete_one_frame _ _ _ _ _ C) as (P1 & K1 & D1). destruct (IH _ _ _ _ H) as (P2 & K2 & D2).
  split; [congruence|tauto].
Qed.

Theorem gen_ent_ProcessAcceptedPurchaseOrders_eq : forall w,
  pos_keyed (ew_ent w) ->
  go_ProcessAcceptedPurchaseOrders w = eblift w (process_accepted (e_acceptedq (ew_ent w)) (ew_bank w) (ew_ent w)).
Proof.
  intros w K. unfold go_ProcessAcceptedPurchaseOrders. cbv zeta.
  match goal with
  | |- context [go_range ?f ?l ?s] => rewrite (go_range_ext_inv f pa_step (fun w => pos_keyed (ew_ent w)))
  end.
  - rewrite range_pa_step. unfold ent_GetAllAcceptedPurchaseOrders.
    destruct (process_accepted (e_acceptedq (ew_ent w)) (ew_bank w) (ew_ent w)) as [[b s]| |]; reflexivity.
  - intros id [n b s] Ks. cbn [ew_ent] in Ks. unfold pa_step, complete_one. stnorm. bwalk; try reflexivity.
  - intros id [n b s] w' Ks. unfold pa_step. cbn [ew_now ew_bank ew_ent] in *.
    destruct (complete_one id b s) as [[b2 s2]| |] eqn:C; try discriminate. intros [= <-]. cbn [ew_ent].
    exact (proj1 (proj2 (complete_one_frame _ _ _ _ _ C)) Ks).
  - exact K.
Qed.


(* ------------------------------------------------------------------------------------------ *)
(* part 5: TallyPurchaseOrderDecisions, the BeginBlocker                                      *)
(* ------------------------------------------------------------------------------------------ *)

(* --- the inner loop: counting the accept and the reject decisions in two ints --- *)
Lemma count_decisions_cons d ds v :
  count_decisions (d :: ds) v = (if d_decision d =? v then 1 else 0) + count_decisions ds v.
Proof.
  unfold count_decisions. cbn [filter]. destruct (d_decision d =? v); [cbn [List.length]; lia|lia].
Qed.

Lemma count_decisions_bounds ds v : 0 <= count_decisions ds v <= Z.of_nat (List.length ds).
Proof.
  induction ds as [|d r IH]; [unfold count_decisions; cbn; lia|].
  rewrite count_decisions_cons. cbn [List.length]. destruct (d_decision d =? v); lia.
Qed.

(* any body that bumps the first counter on an accept and the second on a reject (int arithmetic), whatever it does with
   counters about to overflow *)
Definition counts_step {W R} (f : go_PurchaseOrderDecision -> W * Z * Z -> outcome (loop_res (W * Z * Z) R)) : Prop :=
  forall g w a r, 0 <= a < two63 - 1 -> 0 <= r < two63 - 1 ->
    f g (w, a, r) = Ok (LCont (w, a + (if PurchaseOrderDecision_Decision g =? 2 then 1 else 0),
                                  r + (if PurchaseOrderDecision_Decision g =? 3 then 1 else 0))).

Lemma count_loop_gen {W R} (f : go_PurchaseOrderDecision -> W * Z * Z -> outcome (loop_res (W * Z * Z) R)) :
  counts_step f ->
  forall ds w a r, 0 <= a -> 0 <= r -> a + Z.of_nat (List.length ds) < two63 -> r + Z.of_nat (List.length ds) < two63 ->
  go_range f (map to_go_decision ds) (w, a, r) = Ok (LCont (w, a + count_decisions ds 2, r + count_decisions ds 3)).
Proof.
  intros Hf ds. induction ds as [|d rest IH]; intros w a r Ha Hr La Lr.
  - unfold count_decisions. cbn. rewrite !Z.add_0_r. reflexivity.
  - cbn [map List.length] in *. rewrite go_range_cons, Hf by lia. cbn [obind to_go_decision PurchaseOrderDecision_Decision].
    rewrite IH by (destruct (d_decision d =? 2), (d_decision d =? 3); lia).
    rewrite !count_decisions_cons, !Z.add_assoc. reflexivity.
Qed.

Lemma count_loop {W R} (f : go_PurchaseOrderDecision -> W * Z * Z -> outcome (loop_res (W * Z * Z) R)) ds w :
  counts_step f -> Z.of_nat (List.length ds) < two63 ->
  go_range f (map to_go_decision ds) (w, 0, 0) = Ok (LCont (w, count_decisions ds 2, count_decisions ds 3)).
Proof. intros Hf L. rewrite (count_loop_gen f Hf ds w 0 0) by lia. reflexivity. Qed.

Lemma i64_add_small a b : - two63 <= a + b < two63 -> i64_add a b = a + b.
Proof. intros H. unfold i64_add. apply i64_of_small. exact H. Qed.

Ltac counts_step_tac :=
  let g := fresh "g" in let w := fresh "w" in let a := fresh "a" in let r := fresh "r" in
  intros g w a r ? ?; cbv beta iota zeta;
  repeat match goal with |- context [if ?c then _ else _] => destruct c eqn:? end;
  rewrite ?i64_add_small by lia; rewrite ?Z.add_0_r; first [ reflexivity | exfalso; lia ].

(* --- one turn of the outer loop, in the model --- *)
Definition tally_step (now : Z) (id : Z) (w : eworld) : outcome (loop_res eworld (eworld * unit)) :=
  match tally [id] now (ew_ent w) with
  | Ok s => Ok (LCont (with_ent w s))
  | Err c => Err c
  | Panic c => Panic c
  end.

Lemma tally_cons id rest now s : tally (id :: rest) now s = do s1 <- tally [id] now s; tally rest now s1.
Proof.
  cbn [tally]. destruct (aget id (e_pos s)) as [o|]; [|reflexivity].
  destruct (negb (po_status o =? ST_RAISED)); [reflexivity|].
  destruct (tally_one (e_params s) now o); reflexivity.
Qed.

Lemma range_tally_step now ids : forall w,
  go_range (tally_step now) ids w =
    match tally ids now (ew_ent w) with
    | Ok s => Ok (LCont (with_ent w s))
    | Err c => Err c
    | Panic c => Panic c
    end.
Proof.
  induction ids as [|id r IH]; intros w; [destruct w; reflexivity|].
  rewrite go_range_cons, tally_cons. unfold tally_step at 1.
  destruct (tally [id] now (ew_ent w)) as [s1| |]; cbn [obind]; [|reflexivity..].
  rewrite IH. cbn [with_ent ew_ent ew_now ew_bank]. destruct (tally r now s1); reflexivity.
Qed.

(* the one cast of the tally rule that the model leaves out: len(signers) - int(MinAccepts) is computed in int *)
Definition threshold_fits (p : ent_params) : Prop :=
  - two63 <= Z.of_nat (List.length (ep_signers p)) - i64_of (ep_min_accepts p) < two63.

Lemma tally_one_frame now id s s' :
  tally [id] now s = Ok s' ->
  e_params s' = e_params s /\ (pos_keyed s -> pos_keyed s') /\ (decisions_fit s -> decisions_fit s').
Proof.
  cbn [tally]. destruct (aget id (e_pos s)) as [o|] eqn:G; [|discriminate].
  destruct (negb (po_status o =? ST_RAISED)); [discriminate|].
  destruct (tally_one (e_params s) now o) as [st|]; intros [= <-]; [|tauto].
  split; [reflexivity|]. split.
  - intros K id' o'. cbn [with_pos e_pos]. rewrite aget_aset_Z.
    destruct (Z.eqb_spec id' id) as [->|N]; [intros [= <-]; exact (K id o G)|apply K].
  - intros D id' o'. cbn [with_pos e_pos]. rewrite aget_aset_Z.
    destruct (Z.eqb_spec id' id) as [->|N]; [intros [= <-]; exact (D id o G)|apply D].
Qed.

Ltac tprim :=
  match goal with
  | |- context [go_range ?f (map to_go_decision ?ds) (?w, 0, 0)] =>
      rewrite (count_loop f ds w) by first [ counts_step_tac | eauto ]
  | |- context [wrap64 (wrap64 ?x - ?y)] => rewrite (wrap64_sub_l x y)
  | H : 0 <= ?z < two64 |- context [wrap64 ?z] => rewrite (wrap64_small z H)
  | H : - two63 <= ?z < two63 |- context [i64_of ?z] => rewrite (i64_of_small z H)
  | |- context [3 =? 2] => change (3 =? 2) with false
  | |- context [2 =? 2] => change (2 =? 2) with true
  end.

Ltac tstep := first [ progress tnorm | progress bnorm | progress cbn [andb orb tally] | progress cbv beta iota zeta | bprim | tprim | bstate | bsplit ].
Ltac twalk := repeat tstep.

Theorem gen_ent_TallyPurchaseOrderDecisions_eq : forall w,
  0 <= ew_now w / NSEC < two64 ->
  threshold_fits (e_params (ew_ent w)) ->
  pos_keyed (ew_ent w) ->
  decisions_fit (ew_ent w) ->
  go_TallyPurchaseOrderDecisions w =
    match tally (e_raisedq (ew_ent w)) (ew_now w / NSEC) (ew_ent w) with
    | Ok s => Ok (with_ent w s, tt)
    | Err c => Err c
    | Panic c => Panic c
    end.
Proof.
  intros [n b s] Hn Hth K D. cbn [ew_now ew_ent] in *. unfold threshold_fits in Hth.
  unfold go_TallyPurchaseOrderDecisions. cbv zeta.
  match goal with
  | |- context [go_range ?f ?l ?s0] =>
      rewrite (go_range_ext_inv f (tally_step (n / NSEC))
                 (fun w' => e_params (ew_ent w') = e_params s /\ pos_keyed (ew_ent w') /\ decisions_fit (ew_ent w')))
  end.
  - rewrite range_tally_step. unfold ent_GetAllRaisedPurchaseOrders. cbn [ew_ent].
    destruct (tally (e_raisedq s) (n / NSEC) s); reflexivity.
  - intros id [n' b' s'] (Ep & Ks & Ds). cbn [ew_ent] in Ep, Ks, Ds.
    unfold tally_step. cbn [ew_ent tally]. rewrite Ep.
    unfold tally_one, ent_GetParams, go_len_list, go_int64_of_uint64, go_uint64_of_int64, Time_Unix, i64_sub, u64_sub.
    stnorm. twalk; try reflexivity.
  - intros id [n' b' s'] w'' (Ep & Ks & Ds). unfold tally_step. cbn [ew_ent] in *.
    destruct (tally [id] (n / NSEC) s') as [s2| |] eqn:T; try discriminate. intros [= <-]. cbn [with_ent ew_ent].
    destruct (tally_one_frame _ _ _ _ T) as (P2 & K2 & D2). split; [congruence|tauto].
  - cbn [ew_ent]. tauto.
Qed.

(* the BeginBlocker: ProcessAcceptedPurchaseOrders, then TallyPurchaseOrderDecisions on the world it leaves *)
Theorem gen_ent_begin_block_eq : forall w,
  0 <= ew_now w / NSEC < two64 ->
  threshold_fits (e_params (ew_ent w)) ->
  pos_keyed (ew_ent w) ->
  decisions_fit (ew_ent w) ->
  go_ent_begin_block w = eblift w (ent_begin_block (ew_now w / NSEC) (ew_bank w) (ew_ent w)).
Proof.
  intros w Hn Hth K D. unfold go_ent_begin_block, ent_begin_block.
  rewrite (gen_ent_ProcessAcceptedPurchaseOrders_eq w K).
  destruct (process_accepted (e_acceptedq (ew_ent w)) (ew_bank w) (ew_ent w)) as [[b1 s1]| |] eqn:PA;
    cbn [eblift obind]; [|reflexivity..].
  destruct (process_accepted_frame _ _ _ _ _ PA) as (P1 & K1 & D1).
  rewrite gen_ent_TallyPurchaseOrderDecisions_eq; cbn [ew_now ew_ent ew_bank]; [|exact Hn|rewrite P1; exact Hth|tauto|tauto].
  destruct (tally (e_raisedq s1) (ew_now w / NSEC) s1); reflexivity.
Qed.

(* the hypotheses from the invariant of C03 / C04 (proofs/EnterpriseProofs.v) *)
Lemma params_valid_threshold_fits p :
  ent_params_valid p = true -> Z.of_nat (List.length (ep_signers p)) < two63 -> threshold_fits p.
Proof.
  unfold ent_params_valid, threshold_fits. rewrite !andb_true_iff. intros (((((A & B) & C) & E) & F) & G) L.
  rewrite i64_of_small; unfold two63 in *; lia.
Qed.

Lemma sinv_pos_keyed now s : sinv now s -> pos_keyed s.
Proof. intros I id o G. exact (pk_id _ _ _ _ _ (si_po _ _ I id o G)). Qed.

Lemma ent_inv_block_hyps w :
  ent_inv w -> Z.of_nat (List.length (ep_signers (e_params (w_ent w)))) < two63 ->
  threshold_fits (e_params (w_ent w)) /\ pos_keyed (w_ent w).
Proof.
  intros I L. pose proof (inv_s _ I) as Is. split.
  - exact (params_valid_threshold_fits _ (si_params _ _ Is) L).
  - exact (sinv_pos_keyed _ _ Is).
Qed.

(* ------------------------------------------------------------------------------------------ *)
(* part 6: a concrete world; the hypotheses cannot be dropped                                 *)
(* ------------------------------------------------------------------------------------------ *)

Definition xb_params (min_accepts : Z) : ent_params :=
  {| ep_denom := NUND; ep_min_accepts := min_accepts; ep_time_limit := 100; ep_signers := [9] |}.
Definition xb_po (id : Z) (status raised : Z) (decs : list decision) : po :=
  {| po_id := id; po_purchaser := 7; po_denom := NUND; po_amount := 500; po_status := status;
     po_raise_time := raised; po_completion_time := 0; po_decisions := decs |}.
Definition xb_state (p : ent_params) (pos : amap Z po) (rq aq : list Z) : ent_state :=
  {| e_params := p; e_next := 10; e_pos := pos; e_raisedq := rq; e_acceptedq := aq; e_wl := [7];
     e_locked := []; e_spent := []; e_totlocked := None; e_totspent := None |}.
Definition xb_sec : Z := 1700000000.
Definition xb_dec (v : Z) : decision := {| d_signer := 9; d_decision := v; d_time := xb_sec - 5 |}.

(* block time 1700000000 s; signer 9, one accept needed, 100 s to decide.  Order 1 (500 nund for account 7) has been
   accepted; orders 2..5 are raised: 2 carries an accept, 3 a reject, 4 is 200 s old and undecided, 5 is 10 s old *)
Definition xb_w0 : eworld :=
  mk_eworld (xb_sec * NSEC) xe_bank0
    (xb_state (xb_params 1)
       [(1, xb_po 1 ST_ACCEPTED (xb_sec - 300) [xb_dec ST_ACCEPTED]);
        (2, xb_po 2 ST_RAISED (xb_sec - 10) [xb_dec ST_ACCEPTED]);
        (3, xb_po 3 ST_RAISED (xb_sec - 10) [xb_dec ST_REJECTED]);
        (4, xb_po 4 ST_RAISED (xb_sec - 200) []);
        (5, xb_po 5 ST_RAISED (xb_sec - 10) [])]
       [2; 3; 4; 5] [1]).

Definition xb_after (o : outcome (eworld * unit)) : eworld := match o with Ok (w, _) => w | _ => xb_w0 end.
(* (statuses of orders 1..5, raised queue, accepted queue, locked[7], total locked, supply) *)
Definition xb_obs (w : eworld) : list Z * list Z * list Z * Z * Z * Z :=
  (map (status_of (ew_ent w)) [1; 2; 3; 4; 5], e_raisedq (ew_ent w), e_acceptedq (ew_ent w),
   snd (locked_coin (ew_ent w) 7), snd (total_locked (ew_ent w)), supply_of (ew_bank w) NUND).

Lemma pos_keyed_rows (s : ent_state) :
  forallb (fun kv => po_id (snd kv) =? fst kv) (e_pos s) = true -> pos_keyed s.
Proof.
  intros H id o. unfold pos_keyed. induction (e_pos s) as [|[k v] r IH]; cbn [aget]; [discriminate|].
  cbn [forallb fst snd] in H. apply andb_true_iff in H. destruct H as [H1 H2].
  change (keqb id k) with (id =? k). destruct (Z.eqb_spec id k) as [->|N]; [intros [= <-]; lia|exact (IH H2)].
Qed.

Lemma decisions_fit_rows (s : ent_state) :
  forallb (fun kv => Z.of_nat (List.length (po_decisions (snd kv))) <? two63) (e_pos s) = true -> decisions_fit s.
Proof.
  intros H id o. unfold decisions_fit. induction (e_pos s) as [|[k v] r IH]; cbn [aget]; [discriminate|].
  cbn [forallb fst snd] in H. apply andb_true_iff in H. destruct H as [H1 H2].
  change (keqb id k) with (id =? k). destruct (Z.eqb_spec id k) as [->|N]; [intros [= <-]; lia|exact (IH H2)].
Qed.

Lemma xb_w0_hyps :
  0 <= ew_now xb_w0 / NSEC < two64 /\ threshold_fits (e_params (ew_ent xb_w0)) /\
  pos_keyed (ew_ent xb_w0) /\ decisions_fit (ew_ent xb_w0).
Proof.
  split; [vm_compute; split; [intro X; discriminate X|reflexivity]|].
  split; [vm_compute; split; [intro X; discriminate X|reflexivity]|].
  split; [apply pos_keyed_rows; reflexivity|apply decisions_fit_rows; reflexivity].
Qed.

Definition tally_model (w : eworld) : outcome (eworld * unit) :=
  match tally (e_raisedq (ew_ent w)) (ew_now w / NSEC) (ew_ent w) with
  | Ok s => Ok (with_ent w s, tt)
  | Err c => Err c
  | Panic c => Panic c
  end.

(* an order filed under 5 whose Id field says 6: SetPurchaseOrder writes the completed order under 6 and leaves the row
   under 5 accepted; the model rewrites the row under 5.  (No such row can be written by SetPurchaseOrder.) *)
Example gen_process_accepted_unkeyed_refuted :
  let w := mk_eworld (xb_sec * NSEC) xe_bank0
             (xb_state (xb_params 1) [(5, xb_po 6 ST_ACCEPTED (xb_sec - 300) [])] [] [5]) in
  map (status_of (ew_ent (xb_after (go_ProcessAcceptedPurchaseOrders w)))) [5; 6] = [ST_ACCEPTED; ST_COMPLETED] /\
  map (status_of (ew_ent (xb_after (eblift w (process_accepted (e_acceptedq (ew_ent w)) (ew_bank w) (ew_ent w))))))
      [5; 6] = [ST_COMPLETED; ST_NIL] /\
  go_ProcessAcceptedPurchaseOrders w <> eblift w (process_accepted (e_acceptedq (ew_ent w)) (ew_bank w) (ew_ent w)).
Proof. cbv zeta. split; [vm_compute; reflexivity|]. split; [vm_compute; reflexivity|]. vm_compute. intro X. discriminate X. Qed.

(* MinAccepts = 2^63 (not a valid parameter set: it exceeds the number of signers): int(MinAccepts) = -2^63 and
   len(signers) - int(MinAccepts) wraps to -2^63 + 1 in Go, so an undecided fresh order is REJECTED by the generated code
   (0 rejects > threshold); the model computes the threshold 2^63 + 1 without the wrap and ACCEPTS it (0 accepts >= -2^63) *)
Example gen_tally_threshold_wrap_refuted :
  let w := mk_eworld (xb_sec * NSEC) xe_bank0
             (xb_state (xb_params two63) [(2, xb_po 2 ST_RAISED (xb_sec - 10) [])] [2] []) in
  0 <= ew_now w / NSEC < two64 /\ pos_keyed (ew_ent w) /\ decisions_fit (ew_ent w) /\
  ~ threshold_fits (e_params (ew_ent w)) /\ ent_params_valid (e_params (ew_ent w)) = false /\
  status_of (ew_ent (xb_after (go_TallyPurchaseOrderDecisions w))) 2 = ST_REJECTED /\
  status_of (ew_ent (xb_after (tally_model w))) 2 = ST_ACCEPTED /\
  go_TallyPurchaseOrderDecisions w <> tally_model w.
Proof.
  cbv zeta. split; [vm_compute; split; [intro X; discriminate X|reflexivity]|].
  split; [apply pos_keyed_rows; reflexivity|]. split; [apply decisions_fit_rows; reflexivity|].
  split; [unfold threshold_fits; vm_compute; intros [_ X]; discriminate X|].
  split; [vm_compute; reflexivity|]. split; [vm_compute; reflexivity|]. split; [vm_compute; reflexivity|].
  vm_compute. intro X. discriminate X.
Qed.

(* a block time before 1970: uint64(Time.Unix()) wraps, the completion time written differs *)
Example gen_tally_negative_time_refuted :
  let w := mk_eworld (-1) xe_bank0
             (xb_state (xb_params 1) [(2, xb_po 2 ST_RAISED 0 [xb_dec ST_ACCEPTED])] [2] []) in
  threshold_fits (e_params (ew_ent w)) /\ pos_keyed (ew_ent w) /\ decisions_fit (ew_ent w) /\
  option_map po_completion_time (aget 2 (e_pos (ew_ent (xb_after (go_TallyPurchaseOrderDecisions w))))) = Some (two64 - 1) /\
  option_map po_completion_time (aget 2 (e_pos (ew_ent (xb_after (tally_model w))))) = Some (-1) /\
  go_TallyPurchaseOrderDecisions w <> tally_model w.
Proof.
  cbv zeta. split; [vm_compute; split; [intro X; discriminate X|reflexivity]|].
  split; [apply pos_keyed_rows; reflexivity|]. split; [apply decisions_fit_rows; reflexivity|].
  split; [vm_compute; reflexivity|]. split; [vm_compute; reflexivity|].
  vm_compute. intro X. discriminate X.
Qed.

(* ------------------------------------------------------------------------------------------ *)
(* part 7: the tally rule of C03 (props/C03.v: C03_tally_rule), for the generated code        *)
(* ------------------------------------------------------------------------------------------ *)

(* what one run of the tally does to each order of the queue it walks *)
Lemma tally_orders now ids : forall s s',
  tally ids now s = Ok s' -> NoDup ids ->
  e_params s' = e_params s /\
  (forall id, ~ In id ids -> aget id (e_pos s') = aget id (e_pos s)) /\
  (forall id o, In id ids -> aget id (e_pos s) = Some o ->
     aget id (e_pos s') =
       Some (match tally_one (e_params s) now o with Some st => set_po_status o st now true | None => o end)).
Proof.
  induction ids as [|i r IH]; intros s s' H ND.
  - injection H as <-. split; [reflexivity|]. split; [reflexivity|]. intros id o [].
  - inversion ND as [|? ? NI ND']; subst. cbn [tally] in H.
    destruct (aget i (e_pos s)) as [o0|] eqn:G; [|discriminate].
    destruct (negb (po_status o0 =? ST_RAISED)); [discriminate|].
    destruct (tally_one (e_params s) now o0) as [st|] eqn:T.
    + destruct (IH _ _ H ND') as (P & Out & Inn). cbn [with_pos e_params e_pos] in P, Out, Inn.
      split; [exact P|]. split.
      * intros id N. rewrite (Out id) by (intros X; apply N; right; exact X).
        rewrite aget_aset_Z. destruct (Z.eqb_spec id i) as [->|_]; [exfalso; apply N; left; reflexivity|reflexivity].
      * intros id o [<-|I] Go.
        -- rewrite (Out i NI), aget_aset_Z, Z.eqb_refl. rewrite G in Go. injection Go as <-. rewrite T. reflexivity.
        -- apply (Inn id o I). rewrite aget_aset_Z.
           destruct (Z.eqb_spec id i) as [->|_]; [contradiction|exact Go].
    + destruct (IH _ _ H ND') as (P & Out & Inn). split; [exact P|]. split.
      * intros id N. apply Out. intros X; apply N; right; exact X.
      * intros id o [<-|I] Go.
        -- rewrite (Out i NI), G. rewrite G in Go. injection Go as <-. rewrite T. reflexivity.
        -- exact (Inn id o I Go).
Qed.

Theorem gen_tally_rule : forall w w' id o,
  let s := ew_ent w in
  let p := e_params s in
  let now := ew_now w / NSEC in
  go_TallyPurchaseOrderDecisions w = Ok (w', tt) ->
  ent_params_valid p = true -> Z.of_nat (List.length (ep_signers p)) < two63 ->
  pos_keyed s -> decisions_fit s -> NoDup (e_raisedq s) ->
  In id (e_raisedq s) -> aget id (e_pos s) = Some o ->
  0 <= po_raise_time o <= now -> now < two63 ->
  let acc := count_decisions (po_decisions o) ST_ACCEPTED in
  let rej := count_decisions (po_decisions o) ST_REJECTED in
  let n := Z.of_nat (List.length (ep_signers p)) in
  aget id (e_pos (ew_ent w')) =
    Some (match (if (ep_time_limit p <=? now - po_raise_time o) && (acc <? ep_min_accepts p) then Some ST_REJECTED
                 else if n - ep_min_accepts p <? rej then Some ST_REJECTED
                 else if ep_min_accepts p <=? acc then Some ST_ACCEPTED
                 else None)
          with
          | Some st => set_po_status o st now true      (* new status, completion time = block time *)
          | None => o                                   (* left raised *)
          end).
Proof.
  intros w w' id o. cbv zeta. intros H V L K D ND I G Ht Hn.
  rewrite gen_ent_TallyPurchaseOrderDecisions_eq in H;
    [|unfold two63, two64 in *; lia|exact (params_valid_threshold_fits _ V L)|exact K|exact D].
  destruct (tally (e_raisedq (ew_ent w)) (ew_now w / NSEC) (ew_ent w)) as [s'| |] eqn:T; try discriminate.
  injection H as <-. cbn [with_ent ew_ent].
  destruct (tally_orders _ _ _ _ T ND) as (_ & _ & Inn). rewrite (Inn id o I G).
  rewrite (tally_rule (e_params (ew_ent w)) (ew_now w / NSEC) o V L) by lia. reflexivity.
Qed.

(* the further hypotheses of gen_tally_rule hold in the concrete world, for each of its raised orders *)
Lemma xb_w0_rule_hyps :
  ent_params_valid (e_params (ew_ent xb_w0)) = true /\
  Z.of_nat (List.length (ep_signers (e_params (ew_ent xb_w0)))) < two63 /\
  NoDup (e_raisedq (ew_ent xb_w0)) /\ ew_now xb_w0 / NSEC < two63 /\
  Forall (fun id => In id (e_raisedq (ew_ent xb_w0)) /\
                    exists o, aget id (e_pos (ew_ent xb_w0)) = Some o /\ 0 <= po_raise_time o <= ew_now xb_w0 / NSEC)
         [2; 3; 4; 5].
Proof.
  split; [vm_compute; reflexivity|]. split; [vm_compute; reflexivity|].
  split; [vm_compute; repeat constructor; cbn [In]; absurd_in|]. split; [vm_compute; reflexivity|].
  assert (H : forall id o, In id (e_raisedq (ew_ent xb_w0)) -> aget id (e_pos (ew_ent xb_w0)) = Some o ->
                (0 <=? po_raise_time o) && (po_raise_time o <=? ew_now xb_w0 / NSEC) = true ->
                In id (e_raisedq (ew_ent xb_w0)) /\
                exists o, aget id (e_pos (ew_ent xb_w0)) = Some o /\ 0 <= po_raise_time o <= ew_now xb_w0 / NSEC).
  { intros id o I G T. split; [exact I|]. exists o. split; [exact G|]. lia. }
  constructor; [eapply H; [vm_compute; tauto|vm_compute; reflexivity|vm_compute; reflexivity]|].
  constructor; [eapply H; [vm_compute; tauto|vm_compute; reflexivity|vm_compute; reflexivity]|].
  constructor; [eapply H; [vm_compute; tauto|vm_compute; reflexivity|vm_compute; reflexivity]|].
  constructor; [eapply H; [vm_compute; tauto|vm_compute; reflexivity|vm_compute; reflexivity]|].
  constructor.
Qed.

Print Assumptions gen_ent_ProcessAcceptedPurchaseOrders_eq.
Print Assumptions gen_ent_TallyPurchaseOrderDecisions_eq.
Print Assumptions gen_ent_begin_block_eq.
Print Assumptions gen_process_accepted_unkeyed_refuted.
Print Assumptions gen_tally_threshold_wrap_refuted.
Print Assumptions gen_tally_negative_time_refuted.
Print Assumptions gen_tally_rule.
