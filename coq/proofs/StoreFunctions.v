(* Which functions of the keepers touch the store, and that all of them are accounted for: every accessor the
   translator was asked for is translated ([..._failed] is empty), and the functions of the same files that touch the
   store WITHOUT being translated are exactly the listed ones (plain iterator getters and one unused helper).  A new
   function that opens ctx.KVStore or an iterator - an index, a cache table, a second key space - changes these lists
   and breaks the obligation until it is reviewed (translated, or listed here). *)
From Coq Require Import String List.
From MC Require GeneratedStreamStore GeneratedWrkchainStore GeneratedBeaconStore GeneratedEnterpriseStore.
Import ListNotations.
Local Open Scope string_scope.

Lemma store_functions_all_translated :
  GeneratedStreamStore.stream_store_functions_failed = [] /\
  GeneratedWrkchainStore.wrkchain_store_functions_failed = [] /\
  GeneratedBeaconStore.beacon_store_functions_failed = [] /\
  GeneratedEnterpriseStore.enterprise_store_functions_failed = [].
Proof. repeat split; reflexivity. Qed.

Lemma store_functions_untranslated_as_reviewed :
  GeneratedStreamStore.stream_store_functions_other = [] /\
  GeneratedWrkchainStore.wrkchain_store_functions_other = ["GetWrkChainBlockHashesIterator"; "GetWrkChainsIterator"; "QuickCheckHeightIsRecorded"] /\
  GeneratedBeaconStore.beacon_store_functions_other = ["GetBeaconsIterator"] /\
  GeneratedEnterpriseStore.enterprise_store_functions_other = [].
Proof. repeat split; reflexivity. Qed.

Lemma store_functions_counts :
  (List.length GeneratedStreamStore.stream_store_functions, List.length GeneratedWrkchainStore.wrkchain_store_functions,
   List.length GeneratedBeaconStore.beacon_store_functions, List.length GeneratedEnterpriseStore.enterprise_store_functions) = (7, 28, 26, 45)%nat.
Proof. reflexivity. Qed.
