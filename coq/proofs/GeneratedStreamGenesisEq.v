(* The genesis code generated from /repo/x/stream/keeper/genesis.go (go_InitGenesis in GeneratedStreamKeeper.v,
   re-generated on every run) against the hand-written model of genesis import (model/Genesis.v: import_str), read
   through the vocabulary of model/StreamGenesisGenSpec.v.

   Structure (no temporary of the generated file is mentioned; the loop is recognised by the list it ranges over):
     part 1  sdk.Coins as finite maps: [Coins_IsEqual] of two lists without zero entries and without a repeated
             denomination is "the same amount in every denomination" ([Coins_IsEqual_amounts]);
     part 2  the two lists InitGenesis compares: the positive balances of the module account ([str_balances]) and the
             holdings accumulated with Coins.Add ([str_holdings]), and their amount in every denomination;
     part 3  InitGenesis, what the generated code does on every world and every document with valid parameters
             ([gen_str_InitGenesis_run]): SetStream's MustMarshal panic, the store after the loop, the comparison;
     part 4  the model's import: its store is the store the loop builds (no hypothesis), its two tests of the module
             account say "balance = total deposits in every denomination";
     part 5  InitGenesis against the model's import;
     part 6  examples showing that the hypotheses cannot be dropped; a concrete world. *)
From Coq Require Import ZifyBool.
From MC Require Import lib.Prelude lib.AMap lib.GoSdk GeneratedFns GeneratedStreamTypes model.Bank model.Stream model.StreamSpec
  model.Genesis model.StreamKeeperPrims GeneratedStreamKeeper model.StreamGenesisGenSpec.
From MC Require Import proofs.BankProofs proofs.RegistryProofs proofs.GenesisLib.
Local Open Scope Z_scope.

#[local] Arguments go_range : simpl never.
#[local] Arguments Z.add : simpl never.
#[local] Arguments Z.sub : simpl never.
#[local] Arguments Z.ltb : simpl never.
#[local] Arguments Z.leb : simpl never.
#[local] Arguments Z.eqb : simpl never.

(* ================================================================= *)
(* 1. sdk.Coins as finite maps                                        *)
(* ================================================================= *)

Ltac tnorm := cbv delta [go_coin go_denom go_addr go_int denom addr] in *.

(* the amount of denomination d in a list of coins *)
(* the functions of lib/GoSdk.v on coin lists, restated over Z * Z (GoSdk.v mixes the aliases go_coin / go_denom with
   their unfoldings; the restatements are convertible, [*_c] below) *)
Fixpoint ins (c : Z * Z) (l : list (Z * Z)) : list (Z * Z) :=
  match l with [] => [c] | x :: r => if fst c <=? fst x then c :: l else x :: ins c r end.
Definition csort (l : list (Z * Z)) : list (Z * Z) := fold_right ins [] l.
Fixpoint ceqs (a b : list (Z * Z)) : outcome bool :=
  match a, b with
  | [], [] => Ok true
  | x :: a', y :: b' =>
      if negb (fst x =? fst y) then Panic GO_PANIC_DENOM
      else if negb (snd x =? snd y) then Ok false else ceqs a' b'
  | _, _ => Ok false
  end.
Definition cequal (a b : list (Z * Z)) : outcome bool :=
  if negb (Nat.eqb (List.length a) (List.length b)) then Ok false else ceqs (csort a) (csort b).
Definition cadd1 (cs : list (Z * Z)) (c : Z * Z) : list (Z * Z) :=
  if existsb (fun x => fst x =? fst c) cs
  then map (fun x => if fst x =? fst c then (fst x, snd x + snd c) else x) cs
  else cs ++ [c].
Definition cnzb (x : Z * Z) : bool := negb (snd x =? 0).
(* one Coins.Add(coin) *)
Definition hstep (h : list (Z * Z)) (c : Z * Z) : list (Z * Z) := filter cnzb (cadd1 h c).

Lemma Coins_IsEqual_c a b : Coins_IsEqual a b = cequal a b.
Proof. reflexivity. Qed.
Lemma Coins_AddCoin_c h c : Coins_AddCoin h c = Ok (hstep h c).
Proof. reflexivity. Qed.

(* the amount of denomination d in a list of coins *)
Definition camt (l : list (Z * Z)) (d : Z) : Z :=
  fold_right (fun c acc => if fst c =? d then snd c + acc else acc) 0 l.
Definition cnz (c : Z * Z) : Prop := snd c <> 0.
(* no repeated denomination, no zero entry *)
Definition cgood (l : list (Z * Z)) : Prop := NoDup (map fst l) /\ Forall cnz l.
(* strictly increasing denominations *)
Fixpoint cssorted (l : list (Z * Z)) : Prop :=
  match l with [] => True | x :: r => (forall y, In y r -> fst x < fst y) /\ cssorted r end.

Lemma camt_nil d : camt [] d = 0.
Proof. reflexivity. Qed.
Lemma camt_cons c l d : camt (c :: l) d = (if fst c =? d then snd c else 0) + camt l d.
Proof. unfold camt. cbn [fold_right]. destruct (fst c =? d); lia. Qed.
Lemma camt_app l1 l2 d : camt (l1 ++ l2) d = camt l1 d + camt l2 d.
Proof. induction l1 as [|c l1 IH]; cbn [app]; [rewrite camt_nil; lia|]. rewrite !camt_cons, IH. lia. Qed.

Lemma camt_absent l d : ~ In d (map fst l) -> camt l d = 0.
Proof.
  induction l as [|c l IH]; intros N; [reflexivity|]. rewrite camt_cons. cbn [map In] in N.
  destruct (Z.eqb_spec (fst c) d) as [E|_]; [tauto|]. rewrite IH; [lia|tauto].
Qed.

Lemma insert_In c l x : In x (ins c l) <-> x = c \/ In x l.
Proof.
  induction l as [|y l IH]; cbn [ins In]; [intuition|].
  destruct (fst c <=? fst y); cbn [In]; [intuition|]. rewrite IH. intuition.
Qed.
Lemma insert_length c l : List.length (ins c l) = S (List.length l).
Proof. induction l as [|y l IH]; cbn [ins]; [reflexivity|]. destruct (fst c <=? fst y); cbn [List.length]; [reflexivity|]. rewrite IH. reflexivity. Qed.
Lemma insert_camt c l d : camt (ins c l) d = camt (c :: l) d.
Proof.
  induction l as [|y l IH]; cbn [ins]; [reflexivity|].
  destruct (fst c <=? fst y); [reflexivity|]. rewrite camt_cons, IH, !camt_cons. lia.
Qed.
Lemma insert_ssorted c l : cssorted l -> ~ In (fst c) (map fst l) -> cssorted (ins c l).
Proof.
  induction l as [|y l IH]; cbn [ins cssorted map In]; intros S N.
  - split; [intros ? []|exact I].
  - destruct S as [S1 S2]. destruct (Z.leb_spec (fst c) (fst y)) as [L|L]; cbn [cssorted].
    + split; [|split; assumption]. intros z [<-|Hz]; [lia|]. pose proof (S1 z Hz). lia.
    + split; [|apply IH; tauto]. intros z Hz. apply insert_In in Hz. destruct Hz as [->|Hz]; [lia|auto].
Qed.

Lemma csort_In l x : In x (csort l) <-> In x l.
Proof. unfold csort. induction l as [|c l IH]; cbn [fold_right In]; [tauto|]. rewrite insert_In, IH. intuition. Qed.
Lemma csort_length l : List.length (csort l) = List.length l.
Proof. unfold csort. induction l as [|c l IH]; cbn [fold_right List.length]; [reflexivity|]. rewrite insert_length, IH. reflexivity. Qed.
Lemma csort_camt l d : camt (csort l) d = camt l d.
Proof. unfold csort. induction l as [|c l IH]; cbn [fold_right]; [reflexivity|]. rewrite insert_camt, !camt_cons, IH. reflexivity. Qed.
Lemma csort_nz l : Forall cnz l -> Forall cnz (csort l).
Proof. rewrite !Forall_forall. intros F x Hx. apply F, csort_In, Hx. Qed.
Lemma csort_ssorted l : NoDup (map fst l) -> cssorted (csort l).
Proof.
  induction l as [|c l IH]; intros ND; [exact I|]. cbn [map] in ND. inversion ND as [|? ? NI ND']; subst.
  change (csort (c :: l)) with (ins c (csort l)). apply insert_ssorted; [apply IH; exact ND'|].
  intros X. apply NI. apply in_map_iff in X. destruct X as (y & E & Hy). apply (proj1 (csort_In _ _)) in Hy.
  rewrite <- E. apply in_map. exact Hy.
Qed.

(* two strictly sorted lists without zero entries holding the same amount in every denomination are the same list *)
Lemma cssorted_head_amt x r : cssorted (x :: r) -> camt (x :: r) (fst x) = snd x.
Proof.
  intros [S1 _]. rewrite camt_cons, Z.eqb_refl, camt_absent; [lia|].
  intros X. apply in_map_iff in X. destruct X as (y & E & Hy). pose proof (S1 y Hy). lia.
Qed.
Lemma cssorted_below_amt d x r : cssorted (x :: r) -> d < fst x -> camt (x :: r) d = 0.
Proof.
  intros [S1 _] L. apply camt_absent. cbn [map In]. intros [E|X]; [lia|].
  apply in_map_iff in X. destruct X as (y & E & Hy). pose proof (S1 y Hy). lia.
Qed.

Lemma cssorted_ext a : forall b,
  cssorted a -> cssorted b -> Forall cnz a -> Forall cnz b -> (forall d, camt a d = camt b d) -> a = b.
Proof.
  induction a as [|x a IH]; intros [|y b] Sa Sb Na Nb E.
  - reflexivity.
  - exfalso. specialize (E (fst y)). rewrite (cssorted_head_amt _ _ Sb), camt_nil in E.
    inversion Nb as [|? ? P _]; subst. apply P. lia.
  - exfalso. specialize (E (fst x)). rewrite (cssorted_head_amt _ _ Sa), camt_nil in E.
    inversion Na as [|? ? P _]; subst. apply P. lia.
  - inversion Na as [|? ? Px Na']; subst. inversion Nb as [|? ? Py Nb']; subst.
    assert (Ed : fst x = fst y).
    { destruct (Z.lt_trichotomy (fst x) (fst y)) as [L|[L|L]]; [|exact L|]; exfalso.
      - specialize (E (fst x)). rewrite (cssorted_head_amt _ _ Sa), (cssorted_below_amt _ _ _ Sb L) in E. apply Px. exact E.
      - specialize (E (fst y)). rewrite (cssorted_head_amt _ _ Sb), (cssorted_below_amt _ _ _ Sa L) in E. apply Py. lia. }
    assert (Ev : snd x = snd y).
    { pose proof (E (fst x)) as E1. rewrite (cssorted_head_amt _ _ Sa) in E1. rewrite Ed, (cssorted_head_amt _ _ Sb) in E1. exact E1. }
    assert (Exy : x = y) by (destruct x, y; cbn [fst snd] in *; congruence). subst y. f_equal.
    destruct Sa as [Sa1 Sa2], Sb as [Sb1 Sb2]. apply IH; try assumption.
    intros d. specialize (E d). rewrite !camt_cons in E. lia.
Qed.

Lemma ceqs_refl a : ceqs a a = Ok true.
Proof. induction a as [|x a IH]; cbn [ceqs]; [reflexivity|]. rewrite !Z.eqb_refl. cbn [negb]. exact IH. Qed.
Lemma ceqs_true a : forall b, ceqs a b = Ok true -> a = b.
Proof.
  induction a as [|x a IH]; intros [|y b]; cbn [ceqs]; try discriminate; [reflexivity|].
  destruct (Z.eqb_spec (fst x) (fst y)) as [E1|_]; cbn [negb]; [|discriminate].
  destruct (Z.eqb_spec (snd x) (snd y)) as [E2|_]; cbn [negb]; [|discriminate].
  intros H. rewrite (IH _ H). destruct x, y; cbn [fst snd] in *; congruence.
Qed.

Lemma ceqs_no_err a : forall b e, ceqs a b <> Err e.
Proof.
  induction a as [|x a IH]; intros [|y b] e; cbn [ceqs]; try discriminate.
  destruct (negb (fst x =? fst y)); [discriminate|]. destruct (negb (snd x =? snd y)); [discriminate|apply IH].
Qed.
Lemma Coins_IsEqual_no_err a b e : Coins_IsEqual a b <> Err e.
Proof. rewrite Coins_IsEqual_c. unfold cequal. destruct (negb _); [discriminate|apply ceqs_no_err]. Qed.

(* Coins.IsEqual of two well-formed coin lists: the same amount in every denomination *)
Theorem Coins_IsEqual_amounts a b :
  cgood a -> cgood b -> (Coins_IsEqual a b = Ok true <-> forall d, camt a d = camt b d).
Proof.
  intros [Da Na] [Db Nb]. rewrite Coins_IsEqual_c. unfold cequal. split.
  - destruct (negb (Nat.eqb (List.length a) (List.length b))); [discriminate|].
    intros H d. apply ceqs_true in H. rewrite <- (csort_camt a), <- (csort_camt b), H. reflexivity.
  - intros E.
    assert (S : csort a = csort b).
    { apply cssorted_ext; try (apply csort_ssorted; assumption); try (apply csort_nz; assumption).
      intros d. rewrite !csort_camt. apply E. }
    assert (L : List.length a = List.length b) by (rewrite <- (csort_length a), <- (csort_length b), S; reflexivity).
    rewrite L, Nat.eqb_refl. cbn [negb]. rewrite S. apply ceqs_refl.
Qed.

(* ================================================================= *)
(* 2. the two lists InitGenesis compares                              *)
(* ================================================================= *)

(* ---- Coins.Add(coin): holdings ---- *)
Lemma existsb_denom_iff (h : list (Z * Z)) d : existsb (fun x => fst x =? d) h = true <-> In d (map fst h).
Proof.
  rewrite existsb_exists, in_map_iff. split; intros (x & A & B); exists x.
  - split; [lia|exact A].
  - split; [exact B|lia].
Qed.
Lemma existsb_denom_false (h : list (Z * Z)) d : existsb (fun x => fst x =? d) h = false <-> ~ In d (map fst h).
Proof. rewrite <- existsb_denom_iff. destruct (existsb _ h); split; intros; congruence. Qed.

Lemma camt_filter_nz l d : camt (filter cnzb l) d = camt l d.
Proof.
  induction l as [|c l IH]; cbn [filter]; [reflexivity|]. unfold cnzb at 1.
  destruct (Z.eqb_spec (snd c) 0) as [E|_]; cbn [negb]; rewrite !camt_cons, ?IH; [|reflexivity].
  rewrite E. destruct (fst c =? d); lia.
Qed.
Lemma filter_nz_nz l : Forall cnz (filter cnzb l).
Proof. apply Forall_forall. intros x Hx. apply filter_In in Hx. destruct Hx as [_ P]. unfold cnzb, cnz in *. lia. Qed.

Lemma NoDup_map_filter {A B} (f : A -> B) (p : A -> bool) l : NoDup (map f l) -> NoDup (map f (filter p l)).
Proof.
  induction l as [|x l IH]; cbn [map filter]; intros ND; [exact ND|]. inversion ND as [|? ? NI ND']; subst.
  destruct (p x); cbn [map]; [|apply IH; exact ND']. constructor; [|apply IH; exact ND'].
  intros X. apply NI. apply in_map_iff in X. destruct X as (y & E & Hy). apply filter_In in Hy.
  rewrite <- E. apply in_map. tauto.
Qed.

Definition cupd (c x : Z * Z) : Z * Z := if fst x =? fst c then (fst x, snd x + snd c) else x.
Lemma cadd1_unfold h c : cadd1 h c = if existsb (fun x => fst x =? fst c) h then map (cupd c) h else h ++ [c].
Proof. reflexivity. Qed.
Lemma map_fst_cupd c h : map fst (map (cupd c) h) = map fst h.
Proof.
  induction h as [|x h IH]; [reflexivity|]. cbn [map]. rewrite IH. unfold cupd. destruct (fst x =? fst c); reflexivity.
Qed.
Lemma camt_cupd c h d :
  NoDup (map fst h) ->
  camt (map (cupd c) h) d = camt h d + (if existsb (fun x => fst x =? fst c) h && (fst c =? d) then snd c else 0).
Proof.
  induction h as [|x h IH]; cbn [map existsb]; intros ND; [cbn [andb]; rewrite camt_nil; lia|].
  inversion ND as [|? ? NI ND']; subst. rewrite !camt_cons, (IH ND'). unfold cupd at 1 2.
  destruct (Z.eqb_spec (fst x) (fst c)) as [E|N]; cbn [orb fst snd].
  - rewrite E in NI. rewrite (proj2 (existsb_denom_false h (fst c)) NI). cbn [andb]. rewrite E.
    destruct (fst c =? d); lia.
  - destruct (existsb (fun x0 => fst x0 =? fst c) h && (fst c =? d)); lia.
Qed.

Lemma cadd1_nodup h c : NoDup (map fst h) -> NoDup (map fst (cadd1 h c)).
Proof.
  intros ND. rewrite cadd1_unfold. destruct (existsb _ h) eqn:E.
  - rewrite map_fst_cupd. exact ND.
  - rewrite map_app. cbn [map]. apply NoDup_app_iff. split; [exact ND|]. split; [constructor; [intros []|constructor]|].
    intros x Hx [<-|[]]. apply existsb_denom_false in E. exact (E Hx).
Qed.
Lemma cadd1_camt h c d : NoDup (map fst h) -> camt (cadd1 h c) d = camt h d + (if fst c =? d then snd c else 0).
Proof.
  intros ND. rewrite cadd1_unfold. destruct (existsb _ h) eqn:E.
  - rewrite (camt_cupd c h d ND), E. reflexivity.
  - rewrite camt_app, camt_cons, camt_nil. lia.
Qed.

Lemma hstep_good h c : cgood h -> cgood (hstep h c).
Proof. intros [ND _]. split; [apply NoDup_map_filter, cadd1_nodup, ND|apply filter_nz_nz]. Qed.
Lemma hstep_camt h c d : cgood h -> camt (hstep h c) d = camt h d + (if fst c =? d then snd c else 0).
Proof. intros [ND _]. unfold hstep. rewrite camt_filter_nz. apply cadd1_camt, ND. Qed.

(* the deposit of a document entry; the sum of the deposits in one denomination *)
Definition str_dep (e : go_StreamExport) : Z * Z := Stream_Deposit (StreamExport_Stream e).
Definition doc_sum (l : list go_StreamExport) (d : Z) : Z :=
  sumZ (map (fun e => if fst (str_dep e) =? d then snd (str_dep e) else 0) l).
Definition str_holdings_from (l : list go_StreamExport) (h : list (Z * Z)) : list (Z * Z) :=
  fold_left (fun h e => hstep h (str_dep e)) l h.
(* moduleHoldings after the loop *)
Definition str_holdings (l : list go_StreamExport) : list (Z * Z) := str_holdings_from l [].

Lemma str_holdings_from_spec l : forall h, cgood h ->
  cgood (str_holdings_from l h) /\ forall d, camt (str_holdings_from l h) d = camt h d + doc_sum l d.
Proof.
  unfold str_holdings_from, doc_sum. induction l as [|e l IH]; intros h G; cbn [fold_left map sumZ].
  - split; [exact G|intros d; lia].
  - destruct (IH _ (hstep_good h (str_dep e) G)) as [G' A]. split; [exact G'|].
    intros d. rewrite A, (hstep_camt h (str_dep e) d G). lia.
Qed.
Lemma cgood_nil : cgood [].
Proof. split; constructor. Qed.
Lemma str_holdings_good l : cgood (str_holdings l).
Proof. apply str_holdings_from_spec, cgood_nil. Qed.
Lemma str_holdings_camt l d : camt (str_holdings l) d = doc_sum l d.
Proof. unfold str_holdings. rewrite (proj2 (str_holdings_from_spec l [] cgood_nil) d), camt_nil. lia. Qed.

(* ---- GetAllBalances of the module account ---- *)
Definition str_row (kv : (Z * Z) * Z) : bool := (fst (fst kv) =? STREAM_MACC) && (0 <? snd kv).
Definition str_balances (b : bank) : list (Z * Z) :=
  map (fun kv => (snd (fst kv), snd kv)) (filter str_row (bal b)).
Lemma GetAllBalances_c w : bank_GetAllBalances w STREAM_MACC = str_balances (kw_bank w).
Proof. reflexivity. Qed.

(* the rows of the module account are not negative *)
Definition macc_nonneg (b : bank) : Prop := forall d v, In ((STREAM_MACC, d), v) (bal b) -> 0 <= v.

Definition rows_coins (m : list ((Z * Z) * Z)) : list (Z * Z) := map (fun kv => (snd (fst kv), snd kv)) (filter str_row m).

Lemma rows_coins_cons kv m :
  rows_coins (kv :: m) = if str_row kv then (snd (fst kv), snd kv) :: rows_coins m else rows_coins m.
Proof. unfold rows_coins. cbn [filter]. destruct (str_row kv); reflexivity. Qed.

Lemma rows_coins_denom m d : In d (map fst (rows_coins m)) -> In (STREAM_MACC, d) (map fst m).
Proof.
  unfold rows_coins. rewrite map_map. cbn [fst]. intros X. apply in_map_iff in X. destruct X as ([[a d'] v] & E & Hx).
  apply filter_In in Hx. destruct Hx as [Hx P]. unfold str_row in P. cbn [fst snd] in *.
  assert (a = STREAM_MACC) by lia. subst a d'. change (STREAM_MACC, d) with (fst ((STREAM_MACC, d), v)). apply in_map. exact Hx.
Qed.

Lemma rows_coins_good m : NoDup (map fst m) -> cgood (rows_coins m).
Proof.
  intros ND. split.
  - induction m as [|[[a d] v] m IH]; [constructor|]. cbn [map fst] in ND. inversion ND as [|? ? NI ND']; subst.
    rewrite rows_coins_cons. destruct (str_row (a, d, v)) eqn:P; [|apply IH; exact ND'].
    cbn [map fst snd]. constructor; [|apply IH; exact ND'].
    intros X. apply rows_coins_denom in X. unfold str_row in P. cbn [fst snd] in P. assert (a = STREAM_MACC) by lia. subst a.
    exact (NI X).
  - apply Forall_forall. intros x Hx. unfold rows_coins in Hx. apply in_map_iff in Hx. destruct Hx as (kv & <- & Hkv).
    apply filter_In in Hkv. destruct Hkv as [_ P]. unfold str_row in P. unfold cnz. cbn [snd]. lia.
Qed.

Lemma rows_coins_camt (m : amap (Z * Z) Z) d :
  NoDup (akeys m) -> (forall d' v, In ((STREAM_MACC, d'), v) m -> 0 <= v) ->
  camt (rows_coins m) d = match aget (STREAM_MACC, d) m with Some v => v | None => 0 end.
Proof.
  induction m as [|[[a d'] v] m IH]; intros ND NN; [reflexivity|].
  cbn [akeys map fst] in ND. inversion ND as [|? ? NI ND']; subst.
  assert (NN' : forall d' v, In ((STREAM_MACC, d'), v) m -> 0 <= v) by (intros d2 v2 H2; apply (NN d2 v2); right; exact H2).
  specialize (IH ND' NN'). rewrite rows_coins_cons. cbn [aget].
  destruct (keqb (STREAM_MACC, d) (a, d')) eqn:E.
  - apply keqb_spec in E. injection E as <- <-.
    assert (G : aget (STREAM_MACC, d) m = None).
    { destruct (aget (STREAM_MACC, d) m) as [v'|] eqn:G; [|reflexivity]. exfalso. apply NI.
      apply aget_In in G. change (STREAM_MACC, d) with (fst ((STREAM_MACC, d), v')). apply in_map. exact G. }
    rewrite G in IH. pose proof (NN d v (or_introl eq_refl)) as P. unfold str_row. cbn [fst snd].
    rewrite Z.eqb_refl. cbn [andb]. destruct (Z.ltb_spec 0 v) as [L|L].
    + rewrite camt_cons, IH. cbn [fst snd]. rewrite Z.eqb_refl. lia.
    + rewrite IH. lia.
  - apply keqb_false in E. destruct (str_row (a, d', v)) eqn:P; [|exact IH].
    unfold str_row in P. cbn [fst snd] in P. assert (a = STREAM_MACC) by lia. subst a.
    rewrite camt_cons, IH. cbn [fst snd]. destruct (Z.eqb_spec d' d) as [->|_]; [exfalso; apply E; reflexivity|lia].
Qed.

Lemma str_balances_good b : bank_wf b -> cgood (str_balances b).
Proof. intros Wf. apply rows_coins_good. exact Wf. Qed.
Lemma str_balances_camt b d : bank_wf b -> macc_nonneg b -> camt (str_balances b) d = balance b STREAM_MACC d.
Proof. intros Wf NN. unfold balance. apply rows_coins_camt; assumption. Qed.

(* the comparison InitGenesis ends with *)
Definition go_str_escrow_check (b : bank) (l : list go_StreamExport) : outcome bool :=
  Coins_IsEqual (str_balances b) (str_holdings l).

Theorem go_str_escrow_check_iff b l :
  bank_wf b -> macc_nonneg b ->
  (go_str_escrow_check b l = Ok true <-> forall d, balance b STREAM_MACC d = doc_sum l d).
Proof.
  intros Wf NN. unfold go_str_escrow_check.
  rewrite (Coins_IsEqual_amounts _ _ (str_balances_good b Wf) (str_holdings_good l)).
  split; intros H d; specialize (H d); rewrite str_balances_camt, str_holdings_camt in *; assumption.
Qed.

(* ================================================================= *)
(* 3. InitGenesis: what the generated code does                       *)
(* ================================================================= *)

Lemma go_range_nil {A S R} (f : A -> S -> outcome (loop_res S R)) s : go_range f [] s = Ok (LCont s).
Proof. reflexivity. Qed.
Lemma go_range_cons {A S R} (f : A -> S -> outcome (loop_res S R)) x l s :
  go_range f (x :: l) s =
    (do res <- f x s; match res with LCont s' => go_range f l s' | LRet v => Ok (LRet v) end).
Proof. reflexivity. Qed.

Lemma with_str_with_str w a b : with_str (with_str w a) b = with_str w b.
Proof. reflexivity. Qed.
Lemma kw_str_with_str w a : kw_str (with_str w a) = a.
Proof. reflexivity. Qed.
Lemma kw_bank_with_str w a : kw_bank (with_str w a) = kw_bank w.
Proof. reflexivity. Qed.
Lemma with_str_same w : with_str w (kw_str w) = w.
Proof. destruct w; reflexivity. Qed.

(* what one iteration of the loop does to the store; the check SetStream makes (MustMarshal) *)
Definition str_key (e : go_StreamExport) : addr * addr := (StreamExport_Receiver e, StreamExport_Sender e).
Definition imp_stream (e : go_StreamExport) (s : str_state) : str_state :=
  with_streams s (aset (str_key e) (of_go_stream (StreamExport_Stream e)) (s_streams s)).
Definition stream_okb (e : go_StreamExport) : bool :=
  time_storable (Stream_LastOutflowTime (StreamExport_Stream e)) && time_storable (Stream_DepositZeroTime (StreamExport_Stream e)).
Definition stream_storable (e : go_StreamExport) : Prop :=
  time_storable (Stream_LastOutflowTime (StreamExport_Stream e)) = true /\
  time_storable (Stream_DepositZeroTime (StreamExport_Stream e)) = true.

(* the store InitGenesis builds, started on any store (valid parameters) *)
Definition import_go (g : go_GenesisState) (s : str_state) : str_state :=
  fold_left (fun s e => imp_stream e s) (GenesisState_Streams g)
    {| s_valfee := Params_ValidatorFee (GenesisState_Params g); s_streams := s_streams s |}.

(* every iteration continues with a world that differs from the previous one by a function of the stream store and with
   the holdings plus the deposit, or - when a time of the entry cannot be stored - panics *)
Lemma go_range_kworld_chk {A R} (p : A -> bool) (c : Z)
      (body : A -> kworld * list go_coin -> outcome (loop_res (kworld * list go_coin) R))
      (f : A -> str_state -> str_state) (hs : list go_coin -> A -> list go_coin) :
  (forall x w h, body x (w, h) = if p x then Ok (LCont (with_str w (f x (kw_str w)), hs h x)) else Panic c) ->
  forall l w h,
    go_range body l (w, h) =
      if forallb p l then Ok (LCont (with_str w (fold_left (fun s y => f y s) l (kw_str w)), fold_left hs l h)) else Panic c.
Proof.
  intros E l. induction l as [|x l IH]; intros w h.
  - rewrite go_range_nil. cbn [fold_left forallb]. rewrite with_str_same. reflexivity.
  - rewrite go_range_cons, (E x w h). cbn [forallb fold_left]. destruct (p x); cbn [obind andb]; [|reflexivity].
    rewrite IH, with_str_with_str, kw_str_with_str. reflexivity.
Qed.

Theorem gen_str_InitGenesis_run : forall w g,
  str_params_valid (Params_ValidatorFee (GenesisState_Params g)) = true ->
  go_InitGenesis w g =
    if forallb stream_okb (GenesisState_Streams g) then
      match go_str_escrow_check (kw_bank w) (GenesisState_Streams g) with
      | Ok true => Ok (with_str w (import_go g (kw_str w)), tt)
      | Ok false => Panic stream_PANIC
      | Panic c => Panic c
      | Err e => Err e
      end
    else Panic PANIC_MARSHAL.
Proof.
  intros w g V. unfold go_InitGenesis, go_str_escrow_check, import_go.
  unfold str_GetStreamModuleAccount, str_SetParams. rewrite V.
  cbn [modacc_is_nil modacc_addr ignore_err obind].
  match goal with
  | |- context [go_range ?b (GenesisState_Streams g) ?s0] =>
      rewrite (go_range_kworld_chk stream_okb PANIC_MARSHAL b imp_stream (fun h e => hstep h (str_dep e)))
  end.
  - destruct (forallb stream_okb (GenesisState_Streams g)); cbn [obind]; [|reflexivity].
    rewrite !GetAllBalances_c, !kw_bank_with_str, !kw_str_with_str, !with_str_with_str.
    unfold acc_SetModuleAccount. cbn [obind].
    change (fold_left (fun h e => hstep h (str_dep e)) (GenesisState_Streams g) []) with (str_holdings (GenesisState_Streams g)).
    destruct (Coins_IsZero (str_balances (kw_bank w)));
      destruct (Coins_IsEqual (str_balances (kw_bank w)) (str_holdings (GenesisState_Streams g))) as [[|]| |];
      reflexivity.
  - intros x w0 h. unfold sdk_AccAddressFromBech32, str_SetStream, set_stream, stream_okb, imp_stream, str_key, str_dep.
    cbn [panic_on_err obind of_go_stream st_lot st_dzt].
    destruct (time_storable (Stream_LastOutflowTime (StreamExport_Stream x)) &&
              time_storable (Stream_DepositZeroTime (StreamExport_Stream x))); reflexivity.
Qed.

(* ================================================================= *)
(* 4. the model's import                                              *)
(* ================================================================= *)

Lemma fold_left_map' {A B C} (f : A -> B -> A) (h : C -> B) l : forall acc,
  fold_left f (map h l) acc = fold_left (fun a x => f a (h x)) l acc.
Proof. induction l as [|x l IH]; intros acc; [reflexivity|]. cbn [map fold_left]. apply IH. Qed.

Lemma fold_imp_stream l : forall s,
  fold_left (fun s e => imp_stream e s) l s =
    with_streams s (fold_left (fun m e => aset (str_key e) (of_go_stream (StreamExport_Stream e)) m) l (s_streams s)).
Proof. induction l as [|e l IH]; intros s; cbn [fold_left]; [destruct s; reflexivity|]. rewrite IH. reflexivity. Qed.

Definition fresh_str (vf0 : Z) : str_state := {| s_valfee := vf0; s_streams := [] |}.
Lemma fresh_kworld_str now b vf0 : kw_str (fresh_kworld now b vf0) = fresh_str vf0.
Proof. reflexivity. Qed.

(* the document's entries as the model reads them *)
Definition str_doc_kvs (l : list go_StreamExport) : list ((addr * addr) * stream) :=
  map (fun e => (str_key e, of_go_stream (StreamExport_Stream e))) l.
Lemma gen_str_of_go_streams g : gs_streams (gen_str_of_go g) = str_doc_kvs (GenesisState_Streams g).
Proof. reflexivity. Qed.

(* the model's two tests of the module account *)
Definition str_model_check (b : bank) (s : str_state) (l : list ((addr * addr) * stream)) : bool :=
  forallb (fun kv => negb (fst (fst kv) =? STREAM_MACC) || (snd kv =? total_deposits s (snd (fst kv)))) (bal b)
  && forallb (fun kv => balance b STREAM_MACC (st_denom (snd kv)) =? total_deposits s (st_denom (snd kv))) l.

(* on a fresh store and a document with valid parameters the store built by the generated code is, as data, the store
   the model's import builds: no hypothesis on the document (duplicate keys, any deposit) *)
Lemma import_str_go b g vf0 :
  str_params_valid (Params_ValidatorFee (GenesisState_Params g)) = true ->
  import_str b (gen_str_of_go g) =
    if str_model_check b (import_go g (fresh_str vf0)) (str_doc_kvs (GenesisState_Streams g))
    then Some (import_go g (fresh_str vf0)) else None.
Proof.
  intros V. unfold import_str. rewrite gen_str_of_go_streams. unfold gen_str_of_go. cbn [gs_valfee]. rewrite V. cbn [negb].
  assert (E : {| s_valfee := Params_ValidatorFee (GenesisState_Params g);
                 s_streams := fold_left (fun m kv => aset (fst kv) (snd kv) m) (str_doc_kvs (GenesisState_Streams g)) [] |}
              = import_go g (fresh_str vf0)).
  { unfold import_go, str_doc_kvs. rewrite fold_imp_stream, fold_left_map'. reflexivity. }
  rewrite E. reflexivity.
Qed.

(* the keys of the document *)
Definition str_doc_keys (g : go_GenesisState) : list (addr * addr) := map str_key (GenesisState_Streams g).

(* no two entries under one (receiver, sender) key: the imported map is the document *)
Lemma import_go_streams g vf0 :
  NoDup (str_doc_keys g) -> s_streams (import_go g (fresh_str vf0)) = str_doc_kvs (GenesisState_Streams g).
Proof.
  intros ND. unfold import_go. rewrite fold_imp_stream. cbn [with_streams s_streams fresh_str].
  rewrite (fold_aset_app str_key (fun e => of_go_stream (StreamExport_Stream e))); [reflexivity|exact ND].
Qed.

Lemma total_deposits_doc s l d : s_streams s = str_doc_kvs l -> total_deposits s d = doc_sum l d.
Proof.
  intros E. unfold total_deposits, asum, doc_sum, str_doc_kvs in *. rewrite E, map_map. reflexivity.
Qed.

Lemma doc_sum_absent l d : (forall e, In e l -> fst (str_dep e) <> d) -> doc_sum l d = 0.
Proof.
  unfold doc_sum. induction l as [|e l IH]; intros N; [reflexivity|]. cbn [map sumZ].
  rewrite IH by (intros e' H'; apply N; right; exact H').
  pose proof (N e (or_introl eq_refl)). destruct (Z.eqb_spec (fst (str_dep e)) d); [contradiction|lia].
Qed.

(* the model's tests: the module account holds the sum of the deposits in every denomination *)
Lemma str_model_check_backed b s l :
  s_streams s = str_doc_kvs l ->
  str_model_check b s (str_doc_kvs l) = true -> forall d, balance b STREAM_MACC d = total_deposits s d.
Proof.
  intros Hs C d. unfold str_model_check in C. rewrite andb_true_iff, !forallb_forall in C. destruct C as [T1 T2].
  destruct (aget (STREAM_MACC, d) (bal b)) as [v|] eqn:G.
  - unfold balance. rewrite G. apply aget_In in G. specialize (T1 _ G). cbn [fst snd] in T1.
    rewrite Z.eqb_refl in T1. cbn [negb orb] in T1. lia.
  - destruct (existsb (fun e => fst (str_dep e) =? d) l) eqn:X.
    + apply existsb_exists in X. destruct X as (e & He & Ed).
      specialize (T2 _ (in_map (fun e => (str_key e, of_go_stream (StreamExport_Stream e))) _ _ He)).
      cbn [snd of_go_stream st_denom] in T2. unfold str_dep in Ed. apply Z.eqb_eq in Ed. tnorm. rewrite Ed in T2. apply Z.eqb_eq in T2. exact T2.
    + unfold balance. rewrite G, (total_deposits_doc s l d Hs). symmetry. apply doc_sum_absent.
      intros e He Ed. assert (Y : existsb (fun e => fst (str_dep e) =? d) l = true); [|congruence].
      apply existsb_exists. exists e. split; [exact He|apply Z.eqb_eq; exact Ed].
Qed.

Lemma str_model_check_iff b s l :
  bank_wf b -> s_streams s = str_doc_kvs l ->
  (str_model_check b s (str_doc_kvs l) = true <-> forall d, balance b STREAM_MACC d = doc_sum l d).
Proof.
  intros Wf Hs. split.
  - intros C d. rewrite <- (total_deposits_doc s l d Hs). apply (str_model_check_backed b s l Hs C).
  - intros H. unfold str_model_check. rewrite andb_true_iff, !forallb_forall. split.
    + intros [[a d] v] Hin. cbn [fst snd]. destruct (Z.eqb_spec a STREAM_MACC) as [->|_]; cbn [negb orb]; [|reflexivity].
      rewrite (total_deposits_doc s l d Hs), <- H. unfold balance. unfold bank_wf in Wf.
      rewrite (In_aget_nodup _ _ _ Wf Hin). lia.
    + intros kv _. rewrite (total_deposits_doc s l _ Hs), H. lia.
Qed.

(* ================================================================= *)
(* 5. InitGenesis against the model's import                          *)
(* ================================================================= *)

Lemma stream_okb_spec l : forallb stream_okb l = true <-> Forall stream_storable l.
Proof.
  rewrite forallb_forall, Forall_forall. unfold stream_okb, stream_storable.
  split; intros H x Hx; specialize (H x Hx); [apply andb_true_iff in H|apply andb_true_iff]; exact H.
Qed.

(* Coins.IsEqual(balances, holdings) is the model's test *)
Theorem str_escrow_check_eq b g vf0 :
  bank_wf b -> macc_nonneg b -> NoDup (str_doc_keys g) ->
  (go_str_escrow_check b (GenesisState_Streams g) = Ok true <->
   str_model_check b (import_go g (fresh_str vf0)) (str_doc_kvs (GenesisState_Streams g)) = true).
Proof.
  intros Wf NN ND.
  rewrite (go_str_escrow_check_iff b _ Wf NN), (str_model_check_iff b _ _ Wf (import_go_streams g vf0 ND)). reflexivity.
Qed.

Theorem gen_str_InitGenesis_eq : forall now b vf0 g,
  str_params_valid (Params_ValidatorFee (GenesisState_Params g)) = true ->
  bank_wf b -> macc_nonneg b -> NoDup (str_doc_keys g) ->
  Forall stream_storable (GenesisState_Streams g) ->
  match import_str b (gen_str_of_go g) with
  | Some s' => go_InitGenesis (fresh_kworld now b vf0) g = Ok (with_str (fresh_kworld now b vf0) s', tt)
  | None => exists c, go_InitGenesis (fresh_kworld now b vf0) g = Panic c
  end.
Proof.
  intros now b vf0 g V Wf NN ND St.
  rewrite (gen_str_InitGenesis_run _ g V), (import_str_go b g vf0 V), (proj2 (stream_okb_spec _) St).
  change (kw_bank (fresh_kworld now b vf0)) with b. rewrite fresh_kworld_str.
  pose proof (str_escrow_check_eq b g vf0 Wf NN ND) as EQ.
  destruct (str_model_check b (import_go g (fresh_str vf0)) (str_doc_kvs (GenesisState_Streams g))).
  - rewrite (proj2 EQ eq_refl). reflexivity.
  - destruct (go_str_escrow_check b (GenesisState_Streams g)) as [[|]|e|c] eqn:E.
    + destruct EQ as [EQ _]. discriminate (EQ eq_refl).
    + eexists; reflexivity.
    + exfalso. exact (Coins_IsEqual_no_err _ _ _ E).
    + eexists; reflexivity.
Qed.

(* an entry with a time that cannot be stored makes InitGenesis panic (SetStream's MustMarshal), on every world *)
Theorem gen_str_InitGenesis_bad_doc : forall w g,
  str_params_valid (Params_ValidatorFee (GenesisState_Params g)) = true ->
  forallb stream_okb (GenesisState_Streams g) = false -> go_InitGenesis w g = Panic PANIC_MARSHAL.
Proof. intros w g V D. rewrite (gen_str_InitGenesis_run w g V), D. reflexivity. Qed.

(* whenever the generated InitGenesis succeeds on a fresh store the model's import succeeds with the same store, and the
   bank is untouched: no hypothesis on times or deposits *)
Theorem gen_str_InitGenesis_ok : forall now b vf0 g w',
  str_params_valid (Params_ValidatorFee (GenesisState_Params g)) = true ->
  bank_wf b -> macc_nonneg b -> NoDup (str_doc_keys g) ->
  go_InitGenesis (fresh_kworld now b vf0) g = Ok (w', tt) ->
  import_str b (gen_str_of_go g) = Some (kw_str w') /\ kw_bank w' = b.
Proof.
  intros now b vf0 g w' V Wf NN ND Run. destruct (forallb stream_okb (GenesisState_Streams g)) eqn:D.
  - apply stream_okb_spec in D. pose proof (gen_str_InitGenesis_eq now b vf0 g V Wf NN ND D) as H.
    destruct (import_str b (gen_str_of_go g)) as [s'|].
    + rewrite H in Run. injection Run as <-. split; reflexivity.
    + destruct H as [c H]. rewrite H in Run. discriminate Run.
  - rewrite (gen_str_InitGenesis_bad_doc _ g V D) in Run. discriminate Run.
Qed.

(* whenever the model's import refuses, the generated InitGenesis panics *)
Theorem gen_str_InitGenesis_none : forall now b vf0 g,
  str_params_valid (Params_ValidatorFee (GenesisState_Params g)) = true ->
  bank_wf b -> macc_nonneg b -> NoDup (str_doc_keys g) ->
  import_str b (gen_str_of_go g) = None ->
  exists c, go_InitGenesis (fresh_kworld now b vf0) g = Panic c.
Proof.
  intros now b vf0 g V Wf NN ND Imp. destruct (forallb stream_okb (GenesisState_Streams g)) eqn:D.
  - apply stream_okb_spec in D. pose proof (gen_str_InitGenesis_eq now b vf0 g V Wf NN ND D) as H. rewrite Imp in H. exact H.
  - eexists. apply gen_str_InitGenesis_bad_doc; assumption.
Qed.

(* a successful import leaves the escrow backed: the module account holds the sum of the deposits, per denomination *)
Lemma import_str_escrow_backed b g s :
  NoDup (str_doc_keys g) -> import_str b (gen_str_of_go g) = Some s -> escrow_backed b s.
Proof.
  intros ND Imp. destruct (str_params_valid (Params_ValidatorFee (GenesisState_Params g))) eqn:V.
  - rewrite (import_str_go b g 0 V) in Imp.
    destruct (str_model_check b (import_go g (fresh_str 0)) (str_doc_kvs (GenesisState_Streams g))) eqn:C; [|discriminate Imp].
    injection Imp as <-. intros d. exact (str_model_check_backed b _ _ (import_go_streams g 0 ND) C d).
  - unfold import_str in Imp. cbn [gen_str_of_go gs_valfee] in Imp. rewrite V in Imp. discriminate Imp.
Qed.

Theorem gen_str_InitGenesis_escrow_backed : forall now b vf0 g w',
  str_params_valid (Params_ValidatorFee (GenesisState_Params g)) = true ->
  bank_wf b -> macc_nonneg b -> NoDup (str_doc_keys g) ->
  go_InitGenesis (fresh_kworld now b vf0) g = Ok (w', tt) ->
  escrow_backed (kw_bank w') (kw_str w').
Proof.
  intros now b vf0 g w' V Wf NN ND Run.
  destruct (gen_str_InitGenesis_ok now b vf0 g w' V Wf NN ND Run) as [Imp ->].
  exact (import_str_escrow_backed b g _ ND Imp).
Qed.

(* ================================================================= *)
(* 6. the hypotheses cannot be dropped; a concrete world              *)
(* ================================================================= *)

Definition exs_params : go_Params := mk_go_Params 10000000000000000.    (* 1% *)
Definition exs_empty_bank : bank := {| bal := []; supply := [] |}.
Definition exs_stream (d amt : Z) : go_Stream := mk_go_Stream (d, amt) 10 (1000 * NSEC) (2000 * NSEC) true.
Definition exs_entry (r sn d amt : Z) : go_StreamExport := mk_go_StreamExport r sn (exs_stream d amt).
(* the module account holds e0 of denomination 0 and e1 of denomination 1 (stored in the other order) *)
Definition exs_bank (e0 e1 : Z) : bank :=
  {| bal := [((STREAM_MACC, 1), e1); ((11, 0), 40); ((STREAM_MACC, 0), e0)]; supply := [(0, e0 + 40); (1, e1)] |}.
(* three streams in two denominations: 500 + 30 of denomination 0, 70 of denomination 1 *)
Definition exs_doc : go_GenesisState :=
  mk_go_GenesisState exs_params [exs_entry 10 11 0 500; exs_entry 12 11 1 70; exs_entry 10 13 0 30].

Lemma exs_bank_wf e0 e1 : bank_wf (exs_bank e0 e1).
Proof.
  unfold bank_wf, exs_bank. cbn. repeat constructor; cbn; intros H; repeat (destruct H as [H|H]; [discriminate H|]); exact H.
Qed.
Lemma exs_bank_nonneg e0 e1 : 0 <= e0 -> 0 <= e1 -> macc_nonneg (exs_bank e0 e1).
Proof.
  intros P0 P1 d v H. cbn in H. destruct H as [H|[H|[H|[]]]]; try discriminate H; injection H as _ <-; assumption.
Qed.
Lemma exs_doc_keys_nodup : NoDup (str_doc_keys exs_doc).
Proof. cbn. repeat constructor; cbn; intros H; repeat (destruct H as [H|H]; [discriminate H|]); exact H. Qed.
Lemma exs_banks_ok :
  bank_wf (exs_bank 530 70) /\ macc_nonneg (exs_bank 530 70) /\ bank_wf (exs_bank 529 70) /\ macc_nonneg (exs_bank 529 70) /\
  NoDup (str_doc_keys exs_doc) /\ str_params_valid (Params_ValidatorFee (GenesisState_Params exs_doc)) = true.
Proof.
  split; [apply exs_bank_wf|]. split; [apply exs_bank_nonneg; lia|]. split; [apply exs_bank_wf|].
  split; [apply exs_bank_nonneg; lia|]. split; [apply exs_doc_keys_nodup|reflexivity].
Qed.

(* the module account holds exactly the deposits: the import succeeds, the store is the model's *)
Example gen_str_InitGenesis_ex :
  match go_InitGenesis (fresh_kworld 99 (exs_bank 530 70) 7) exs_doc with
  | Ok (w', _) =>
      import_str (exs_bank 530 70) (gen_str_of_go exs_doc) = Some (kw_str w') /\ kw_bank w' = exs_bank 530 70 /\
      kw_now w' = 99 /\ s_valfee (kw_str w') = 10000000000000000 /\
      akeys (s_streams (kw_str w')) = [(10, 11); (12, 11); (10, 13)] /\
      total_deposits (kw_str w') 0 = 530 /\ total_deposits (kw_str w') 1 = 70
  | _ => False
  end.
Proof. vm_compute. repeat split; reflexivity. Qed.

(* one unit missing in denomination 0: InitGenesis panics, the model refuses *)
Example gen_str_InitGenesis_mismatch_ex :
  go_InitGenesis (fresh_kworld 99 (exs_bank 529 70) 7) exs_doc = Panic stream_PANIC /\
  import_str (exs_bank 529 70) (gen_str_of_go exs_doc) = None.
Proof. vm_compute. split; reflexivity. Qed.

(* InitGenesis drops the error of SetParams: with a fee that does not validate (-1) the generated code keeps the old fee
   (7) and imports the streams, the model's import refuses.  (x/stream's GenesisState.Validate rejects such a document
   before InitGenesis runs.) *)
Example gen_str_InitGenesis_invalid_params_differ :
  let g := set_GenesisState_Params exs_doc (mk_go_Params (-1)) in
  str_params_valid (Params_ValidatorFee (GenesisState_Params g)) = false /\
  import_str (exs_bank 530 70) (gen_str_of_go g) = None /\
  match go_InitGenesis (fresh_kworld 99 (exs_bank 530 70) 7) g with
  | Ok (w', _) => s_valfee (kw_str w') = 7 /\ s_streams (kw_str w') = str_doc_kvs (GenesisState_Streams exs_doc) /\
                  kw_bank w' = exs_bank 530 70
  | _ => False
  end.
Proof. vm_compute. repeat split; reflexivity. Qed.

(* two entries under one (receiver, sender) key: SetStream overwrites the first entry, moduleHoldings keeps both deposits.
   With the module account holding 8 = 5 + 3 InitGenesis succeeds and leaves a store whose only stream has a deposit of
   3 under an escrow of 8 (the deposits invariant of x/stream is broken from the first block); the model refuses. *)
Example gen_str_InitGenesis_dup_keys_refuted :
  let g := mk_go_GenesisState exs_params [exs_entry 10 11 0 5; exs_entry 10 11 0 3] in
  let b := {| bal := [((STREAM_MACC, 0), 8)]; supply := [(0, 8)] |} in
  str_params_valid (Params_ValidatorFee (GenesisState_Params g)) = true /\
  NoDup (akeys (bal b)) /\ macc_nonneg b /\ Forall stream_storable (GenesisState_Streams g) /\
  import_str b (gen_str_of_go g) = None /\
  match go_InitGenesis (fresh_kworld 0 b 7) g with
  | Ok (w', _) => akeys (s_streams (kw_str w')) = [(10, 11)] /\ total_deposits (kw_str w') 0 = 3 /\
                  balance (kw_bank w') STREAM_MACC 0 = 8 /\ ~ escrow_backed (kw_bank w') (kw_str w')
  | _ => False
  end.
Proof.
  cbv zeta. split; [reflexivity|]. split; [cbn; constructor; [intros []|constructor]|]. split.
  - intros d v [H|[]]. injection H as _ <-. lia.
  - split; [repeat constructor|]. split; [vm_compute; reflexivity|]. vm_compute. repeat split; try reflexivity.
    intros H. specialize (H 0). vm_compute in H. discriminate H.
Qed.
(* the other way round: with the module account holding the deposit of the stored stream (3) the model accepts,
   InitGenesis panics *)
Example gen_str_InitGenesis_dup_keys_refuted2 :
  let g := mk_go_GenesisState exs_params [exs_entry 10 11 0 5; exs_entry 10 11 0 3] in
  let b := {| bal := [((STREAM_MACC, 0), 3)]; supply := [(0, 3)] |} in
  (exists s', import_str b (gen_str_of_go g) = Some s') /\
  go_InitGenesis (fresh_kworld 0 b 7) g = Panic stream_PANIC.
Proof. cbv zeta. split; [eexists; vm_compute; reflexivity|vm_compute; reflexivity]. Qed.

(* two rows for the same (account, denomination): the model's first test reads every row (0 is not the total), the
   positive rows GetAllBalances lists are the holdings: InitGenesis succeeds, the model refuses *)
Example gen_str_InitGenesis_bank_wf_refuted :
  let g := mk_go_GenesisState exs_params [exs_entry 10 11 0 5] in
  let b := {| bal := [((STREAM_MACC, 0), 0); ((STREAM_MACC, 0), 5)]; supply := [] |} in
  macc_nonneg b /\ NoDup (str_doc_keys g) /\
  import_str b (gen_str_of_go g) = None /\
  exists w', go_InitGenesis (fresh_kworld 0 b 7) g = Ok (w', tt).
Proof.
  cbv zeta. split.
  - intros d v [H|[H|[]]]; injection H as _ <-; lia.
  - split; [cbn; constructor; [intros []|constructor]|]. split; [vm_compute; reflexivity|eexists; vm_compute; reflexivity].
Qed.

(* a negative row of the module account: GetAllBalances lists the positive rows only and InitGenesis succeeds, the model
   refuses *)
Example gen_str_InitGenesis_nonneg_refuted :
  let g := mk_go_GenesisState exs_params [] in
  let b := {| bal := [((STREAM_MACC, 1), -5)]; supply := [] |} in
  NoDup (akeys (bal b)) /\ NoDup (str_doc_keys g) /\
  import_str b (gen_str_of_go g) = None /\
  exists w', go_InitGenesis (fresh_kworld 0 b 7) g = Ok (w', tt).
Proof.
  cbv zeta. split; [cbn; constructor; [intros []|constructor]|]. split; [constructor|].
  split; [vm_compute; reflexivity|eexists; vm_compute; reflexivity].
Qed.

(* a time that cannot be stored (year > 9999): SetStream panics, the model stores the stream.  (Needed for
   [gen_str_InitGenesis_eq] only.) *)
Example gen_str_InitGenesis_storable_refuted :
  let g := mk_go_GenesisState exs_params [mk_go_StreamExport 10 11 (mk_go_Stream (0, 5) 10 0 ((TS_MAX + 1) * NSEC) true)] in
  let b := {| bal := [((STREAM_MACC, 0), 5)]; supply := [] |} in
  (exists s', import_str b (gen_str_of_go g) = Some s') /\
  go_InitGenesis (fresh_kworld 0 b 7) g = Panic PANIC_MARSHAL.
Proof. cbv zeta. split; [eexists; vm_compute; reflexivity|vm_compute; reflexivity]. Qed.

(* not needed: non-negative deposits, well-formed denominations.  A negative deposit is refused by both sides (no row is
   negative); holdings in a denomination the account does not hold make Coin.IsEqual panic ("invalid coin
   denominations") where the model refuses *)
Example gen_str_InitGenesis_negative_deposit_both_refuse :
  let g := mk_go_GenesisState exs_params [exs_entry 10 11 0 (-5)] in
  import_str exs_empty_bank (gen_str_of_go g) = None /\
  go_InitGenesis (fresh_kworld 0 exs_empty_bank 7) g = Panic stream_PANIC.
Proof. vm_compute. split; reflexivity. Qed.
Example gen_str_InitGenesis_other_denom_both_refuse :
  let g := mk_go_GenesisState exs_params [exs_entry 10 11 0 5] in
  let b := {| bal := [((STREAM_MACC, 1), 5)]; supply := [] |} in
  import_str b (gen_str_of_go g) = None /\
  go_InitGenesis (fresh_kworld 0 b 7) g = Panic GO_PANIC_DENOM.
Proof. vm_compute. split; reflexivity. Qed.
