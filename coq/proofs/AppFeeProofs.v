(* C06: what the WRKChain / BEACON fee decorators enforce at CheckTx, and the two listed gaps. *)
From MC Require Import lib.Prelude lib.AMap model.Bank model.Stream model.Registry model.Enterprise
  model.App model.AppSpec.
From MC Require Import proofs.BankProofs proofs.AppFrame proofs.AppParamsProofs.
From Coq Require Import ZifyBool Permutation.
Ltac Zify.zify_post_hook ::= Z.div_mod_to_equations.
Local Open Scope Z_scope.

(* ---------- own messages ---------- *)

Lemma own_msgs_cons pick m ms fee g s :
  own_msgs pick {| tx_msgs := m :: ms; tx_fee := fee; tx_granter := g; tx_sig_ok := s |} =
  match pick m with
  | Some r => r :: own_msgs pick {| tx_msgs := ms; tx_fee := fee; tx_granter := g; tx_sig_ok := s |}
  | None => own_msgs pick {| tx_msgs := ms; tx_fee := fee; tx_granter := g; tx_sig_ok := s |}
  end.
Proof. reflexivity. Qed.

Fixpoint own_of (pick : msg -> option reg_msg) (ms : list msg) : list reg_msg :=
  match ms with
  | [] => []
  | m :: r => match pick m with Some x => x :: own_of pick r | None => own_of pick r end
  end.

Lemma own_msgs_own_of pick t : own_msgs pick t = own_of pick (tx_msgs t).
Proof.
  unfold own_msgs. induction (tx_msgs t) as [|m l IH]; cbn; [reflexivity|]. rewrite IH. reflexivity.
Qed.

Lemma own_of_app pick l1 l2 : own_of pick (l1 ++ l2) = own_of pick l1 ++ own_of pick l2.
Proof.
  induction l1 as [|m l1 IH]; cbn; [reflexivity|]. rewrite IH. destruct (pick m); reflexivity.
Qed.

Lemma own_of_perm pick l1 l2 : Permutation l1 l2 -> Permutation (own_of pick l1) (own_of pick l2).
Proof.
  induction 1 as [|x l l' P IH|x y l|l l' l'' P1 IH1 P2 IH2]; cbn.
  - constructor.
  - destruct (pick x); [constructor|]; exact IH.
  - destruct (pick x), (pick y); try apply Permutation_refl. constructor.
  - eapply Permutation_trans; eauto.
Qed.

Lemma own_of_In pick ms m r : In m ms -> pick m = Some r -> In r (own_of pick ms).
Proof.
  induction ms as [|x ms IH]; cbn; [tauto|]. intros [->|I] P.
  - rewrite P. left; reflexivity.
  - destruct (pick x); [right|]; auto.
Qed.

Lemma has_own_nonempty pick t :
  negb (Nat.eqb (List.length (own_msgs pick t)) 0) = true -> own_msgs pick t <> [].
Proof. destruct (own_msgs pick t); cbn; [discriminate|congruence]. Qed.

(* ---------- 12. the expected fee is the sum over the module's top-level messages ---------- *)

Fixpoint fee_sum (pick : msg -> option reg_msg) (p : reg_params) (ms : list msg) : Z :=
  match ms with
  | [] => 0
  | m :: r =>
      match pick m with
      | Some (RRegister _ _ _ _ _) => rp_fee_register p
      | Some (RRecord _ _ _ _) => rp_fee_record p
      | Some (RPurchase _ _ n) => rp_fee_purchase p * n
      | None => 0
      end + fee_sum pick p r
  end.

Lemma expected_fee_is_sum pick rs t : expected_fee pick rs t = fee_sum pick (r_params rs) (tx_msgs t).
Proof.
  unfold expected_fee. rewrite own_msgs_own_of.
  induction (tx_msgs t) as [|m ms IH]; cbn; [reflexivity|].
  destruct (pick m) as [r|]; cbn; [|lia]. rewrite IH. destruct r; reflexivity.
Qed.

Lemma fee_sum_app pick p l1 l2 : fee_sum pick p (l1 ++ l2) = fee_sum pick p l1 + fee_sum pick p l2.
Proof. induction l1 as [|m l1 IH]; cbn; [reflexivity|]. rewrite IH. lia. Qed.

Lemma fee_sum_perm pick p l1 l2 : Permutation l1 l2 -> fee_sum pick p l1 = fee_sum pick p l2.
Proof.
  induction 1 as [|x l l' P IH|x y l|l l' l'' P1 IH1 P2 IH2]; cbn; lia.
Qed.

Lemma expected_fee_perm pick rs t t' :
  Permutation (tx_msgs t) (tx_msgs t') -> expected_fee pick rs t = expected_fee pick rs t'.
Proof. intros P. rewrite !expected_fee_is_sum. apply fee_sum_perm; exact P. Qed.

Lemma expected_fee_additive pick rs t l1 l2 :
  tx_msgs t = l1 ++ l2 ->
  expected_fee pick rs t = fee_sum pick (r_params rs) l1 + fee_sum pick (r_params rs) l2.
Proof. intros E. rewrite expected_fee_is_sum, E. apply fee_sum_app. Qed.

(* in closed form: #registrations x register fee + #records x record fee + purchase fee x total slots *)
Definition count_reg (pick : msg -> option reg_msg) (ms : list msg) : Z :=
  sumZ (map (fun m => match pick m with Some (RRegister _ _ _ _ _) => 1 | _ => 0 end) ms).
Definition count_rec (pick : msg -> option reg_msg) (ms : list msg) : Z :=
  sumZ (map (fun m => match pick m with Some (RRecord _ _ _ _) => 1 | _ => 0 end) ms).
Definition total_slots (pick : msg -> option reg_msg) (ms : list msg) : Z :=
  sumZ (map (fun m => match pick m with Some (RPurchase _ _ n) => n | _ => 0 end) ms).

Lemma fee_sum_closed pick p ms :
  fee_sum pick p ms =
  rp_fee_register p * count_reg pick ms + rp_fee_record p * count_rec pick ms +
  rp_fee_purchase p * total_slots pick ms.
Proof.
  unfold count_reg, count_rec, total_slots.
  induction ms as [|m ms IH]; cbn [fee_sum map sumZ]; [lia|].
  rewrite IH. destruct (pick m) as [[| |]|]; lia.
Qed.

(* ---------- 11. what an accepted registry transaction paid ---------- *)

Lemma check_fees_ok_inv pick rs t :
  check_fees pick rs t = Ok tt ->
  fee_amount_of (tx_fee t) (rp_denom (r_params rs)) = expected_fee pick rs t /\
  existsb (fun c => fst c =? rp_denom (r_params rs)) (tx_fee t) = true /\
  existsb (fun r => match r with RPurchase _ _ n => two63 <=? n | _ => false end) (own_msgs pick t) = false.
Proof.
  unfold check_fees, expected_fee. intros H. step H. step H. step H. step H.
  apply negb_false_iff in C. repeat split; auto. lia.
Qed.

Lemma payer_has_funds_ok_inv rs b e t :
  payer_has_funds rs b e t = Ok tt ->
  coins_valid (tx_fee t) = true /\
  exists fee, fee_find (tx_fee t) (rp_denom (r_params rs)) = Some fee /\
    snd fee <= balance b (tx_payer t) (fst fee) +
               (if fst (locked_coin e (tx_payer t)) =? fst fee then snd (locked_coin e (tx_payer t)) else 0).
Proof.
  unfold payer_has_funds. intros H. step H. step H. step H.
  apply negb_false_iff in C. split; [exact C|]. exists c. split; [reflexivity|]. lia.
Qed.

Lemma reg_ante_ok_inv pick rs b e t :
  own_msgs pick t <> [] -> reg_ante pick rs true b e t = Ok tt ->
  check_fees pick rs t = Ok tt /\ payer_has_funds rs b e t = Ok tt /\ check_max_slots pick rs t = Ok tt.
Proof.
  unfold reg_ante. destruct (own_msgs pick t) eqn:O; [congruence|]. intros _ H.
  step H. step H. destruct a, a0. auto.
Qed.

Lemma exact_fee pick rs b e t :
  own_msgs pick t <> [] -> reg_ante pick rs true b e t = Ok tt ->
  fee_amount_of (tx_fee t) (rp_denom (r_params rs)) = expected_fee pick rs t /\
  exists fee, fee_find (tx_fee t) (rp_denom (r_params rs)) = Some fee /\
    snd fee <= balance b (tx_payer t) (fst fee) +
               (if fst (locked_coin e (tx_payer t)) =? fst fee then snd (locked_coin e (tx_payer t)) else 0).
Proof.
  intros O H. apply reg_ante_ok_inv in H as (H1 & H2 & _); [|exact O].
  apply check_fees_ok_inv in H1 as (H1 & _). apply payer_has_funds_ok_inv in H2 as (_ & H2). auto.
Qed.

Lemma check_tx_ok_ante a t a' : check_tx a t = (a', TxOk) -> ante true a t = Ok a'.
Proof. intros H. apply check_tx_never_executes in H as (H & _). auto. Qed.

Lemma exact_fee_wrk a t a' :
  check_tx a t = (a', TxOk) -> has_wrk t = true ->
  fee_amount_of (tx_fee t) (rp_denom (r_params (a_wrk a))) = expected_fee pick_wrk (a_wrk a) t /\
  exists fee, fee_find (tx_fee t) (rp_denom (r_params (a_wrk a))) = Some fee /\
    snd fee <= balance (a_bank a) (tx_payer t) (fst fee) +
               (if fst (locked_coin (a_ent a) (tx_payer t)) =? fst fee
                then snd (locked_coin (a_ent a) (tx_payer t)) else 0).
Proof.
  intros H W. apply check_tx_ok_ante in H. apply ante_stages in H as (_ & H & _).
  eapply exact_fee; eauto. apply has_own_nonempty; exact W.
Qed.

Lemma exact_fee_bcn a t a' :
  check_tx a t = (a', TxOk) -> has_bcn t = true ->
  fee_amount_of (tx_fee t) (rp_denom (r_params (a_bcn a))) = expected_fee pick_bcn (a_bcn a) t /\
  exists fee, fee_find (tx_fee t) (rp_denom (r_params (a_bcn a))) = Some fee /\
    snd fee <= balance (a_bank a) (tx_payer t) (fst fee) +
               (if fst (locked_coin (a_ent a) (tx_payer t)) =? fst fee
                then snd (locked_coin (a_ent a) (tx_payer t)) else 0).
Proof.
  intros H W. apply check_tx_ok_ante in H. apply ante_stages in H as (_ & _ & H & _).
  eapply exact_fee; eauto. apply has_own_nonempty; exact W.
Qed.

(* with distinct denominations in the fee (sdk.Coins.IsValid; the model's coins_valid does not
   check it) the first coin of the denomination is the whole amount offered in it *)
Lemma fee_amount_of_notin fee d : ~ In d (map fst fee) -> fee_amount_of fee d = 0.
Proof.
  unfold fee_amount_of. induction fee as [|c r IH]; cbn; [reflexivity|].
  intros N. destruct (_ =? d) eqn:E; [exfalso; apply N; left; apply Z.eqb_eq in E; exact E|].
  rewrite IH; [reflexivity|]. intros I. apply N. right. exact I.
Qed.

Lemma fee_amount_of_cons c r d :
  fee_amount_of (c :: r) d = (if fst c =? d then snd c else 0) + fee_amount_of r d.
Proof. reflexivity. Qed.

Lemma fee_amount_of_find fee d c :
  NoDup (map fst fee) -> fee_find fee d = Some c -> fee_amount_of fee d = snd c /\ fst c = d.
Proof.
  unfold fee_find. induction fee as [|x r IH]; cbn [find map]; [discriminate|].
  intros ND F. inversion ND as [|? ? NI ND']; subst.
  rewrite fee_amount_of_cons. unfold coin, denom in *. destruct (fst x =? d) eqn:E.
  - injection F as <-. apply Z.eqb_eq in E. split; [|exact E].
    rewrite fee_amount_of_notin; [lia|]. rewrite <- E. exact NI.
  - destruct (IH ND' F) as (A & B). split; [lia|exact B].
Qed.

Lemma exact_fee_wrk_nodup a t a' :
  check_tx a t = (a', TxOk) -> has_wrk t = true -> NoDup (map fst (tx_fee t)) ->
  exists amt, fee_find (tx_fee t) (rp_denom (r_params (a_wrk a))) = Some (rp_denom (r_params (a_wrk a)), amt) /\
    amt = expected_fee pick_wrk (a_wrk a) t /\
    amt <= balance (a_bank a) (tx_payer t) (rp_denom (r_params (a_wrk a))) +
           (if fst (locked_coin (a_ent a) (tx_payer t)) =? rp_denom (r_params (a_wrk a))
            then snd (locked_coin (a_ent a) (tx_payer t)) else 0).
Proof.
  intros H W ND. destruct (exact_fee_wrk _ _ _ H W) as (E & [d amt] & F & A).
  destruct (fee_amount_of_find _ _ _ ND F) as (S1 & S2). cbn [fst snd] in *. subst d.
  exists amt. repeat split; auto. congruence.
Qed.

Lemma exact_fee_bcn_nodup a t a' :
  check_tx a t = (a', TxOk) -> has_bcn t = true -> NoDup (map fst (tx_fee t)) ->
  exists amt, fee_find (tx_fee t) (rp_denom (r_params (a_bcn a))) = Some (rp_denom (r_params (a_bcn a)), amt) /\
    amt = expected_fee pick_bcn (a_bcn a) t /\
    amt <= balance (a_bank a) (tx_payer t) (rp_denom (r_params (a_bcn a))) +
           (if fst (locked_coin (a_ent a) (tx_payer t)) =? rp_denom (r_params (a_bcn a))
            then snd (locked_coin (a_ent a) (tx_payer t)) else 0).
Proof.
  intros H W ND. destruct (exact_fee_bcn _ _ _ H W) as (E & [d amt] & F & A).
  destruct (fee_amount_of_find _ _ _ ND F) as (S1 & S2). cbn [fst snd] in *. subst d.
  exists amt. repeat split; auto. congruence.
Qed.

(* ---------- 13. coins of other denominations do not matter to the two decorators ---------- *)

Definition tx_with_fee (t : tx) (fee : list coin) : tx :=
  {| tx_msgs := tx_msgs t; tx_fee := fee; tx_granter := tx_granter t; tx_sig_ok := tx_sig_ok t |}.

Lemma existsb_insert {A} (f : A -> bool) l1 c l2 :
  f c = false -> existsb f (l1 ++ c :: l2) = existsb f (l1 ++ l2).
Proof. intros E. rewrite !existsb_app. cbn. rewrite E. reflexivity. Qed.

Lemma forallb_insert {A} (f : A -> bool) l1 c l2 :
  f c = true -> forallb f (l1 ++ c :: l2) = forallb f (l1 ++ l2).
Proof. intros E. rewrite !forallb_app. cbn. rewrite E. reflexivity. Qed.

Lemma find_insert {A} (f : A -> bool) l1 c l2 :
  f c = false -> find f (l1 ++ c :: l2) = find f (l1 ++ l2).
Proof.
  intros E. induction l1 as [|x l1 IH]; cbn.
  - rewrite E. reflexivity.
  - destruct (f x); [reflexivity|exact IH].
Qed.

Lemma fee_amount_of_insert l1 c l2 d :
  fst c <> d -> fee_amount_of (l1 ++ c :: l2) d = fee_amount_of (l1 ++ l2) d.
Proof.
  intros N. induction l1 as [|x l1 IH]; cbn [List.app]; rewrite ?fee_amount_of_cons.
  - destruct (fst c =? d) eqn:E; lia.
  - rewrite IH. reflexivity.
Qed.

Lemma fee_decorator_ignores_other_denoms pick rs check b e t l1 l2 d x :
  tx_fee t = l1 ++ l2 -> d <> rp_denom (r_params rs) -> 0 <= d -> 0 < x ->
  reg_ante pick rs check b e (tx_with_fee t (l1 ++ (d, x) :: l2)) = reg_ante pick rs check b e t.
Proof.
  intros F Nd Hd Hx.
  assert (Ef : (fst (d, x) =? rp_denom (r_params rs)) = false) by (cbn; lia).
  assert (Ev : (0 <? snd (d, x)) && (0 <=? fst (d, x)) = true) by (cbn; lia).
  unfold reg_ante.
  change (own_msgs pick (tx_with_fee t (l1 ++ (d, x) :: l2))) with (own_msgs pick t).
  destruct (own_msgs pick t) eqn:O; [reflexivity|].
  assert (C : check_fees pick rs (tx_with_fee t (l1 ++ (d, x) :: l2)) = check_fees pick rs t).
  { unfold check_fees.
    change (own_msgs pick (tx_with_fee t (l1 ++ (d, x) :: l2))) with (own_msgs pick t).
    cbn [tx_with_fee tx_fee]. rewrite F.
    rewrite existsb_insert; [|exact Ef].
    rewrite fee_amount_of_insert; [reflexivity|exact Nd]. }
  assert (P : payer_has_funds rs b e (tx_with_fee t (l1 ++ (d, x) :: l2)) = payer_has_funds rs b e t).
  { unfold payer_has_funds.
    change (tx_payer (tx_with_fee t (l1 ++ (d, x) :: l2))) with (tx_payer t).
    cbn [tx_with_fee tx_fee]. rewrite F. unfold coins_valid, fee_find.
    rewrite forallb_insert; [|exact Ev]. rewrite find_insert; [|exact Ef]. reflexivity. }
  rewrite C, P. reflexivity.
Qed.

(* the order of the coins does not matter to the amount offered either *)
Lemma fee_amount_of_perm l1 l2 d : Permutation l1 l2 -> fee_amount_of l1 d = fee_amount_of l2 d.
Proof.
  unfold fee_amount_of. induction 1 as [|x l l' P IH|x y l|l l' l'' P1 IH1 P2 IH2]; cbn; lia.
Qed.

Lemma existsb_perm {A} (f : A -> bool) l1 l2 : Permutation l1 l2 -> existsb f l1 = existsb f l2.
Proof.
  induction 1 as [|x l l' P IH|x y l|l l' l'' P1 IH1 P2 IH2]; cbn.
  - reflexivity.
  - rewrite IH; reflexivity.
  - destruct (f x), (f y); reflexivity.
  - congruence.
Qed.

(* the fee check is the same whatever the order of messages and of fee coins *)
Lemma check_fees_perm pick rs t t' :
  Permutation (tx_msgs t) (tx_msgs t') -> Permutation (tx_fee t) (tx_fee t') ->
  check_fees pick rs t = check_fees pick rs t'.
Proof.
  intros Pm Pf. unfold check_fees.
  rewrite (existsb_perm _ _ _ Pf), (fee_amount_of_perm _ _ _ Pf).
  rewrite !own_msgs_own_of.
  rewrite (existsb_perm _ _ _ (own_of_perm pick _ _ Pm)).
  pose proof (expected_fee_perm pick rs t t' Pm) as E. unfold expected_fee in E.
  rewrite !own_msgs_own_of in E. rewrite E. reflexivity.
Qed.

(* ---------- 15. a purchase of 2^63 or more slots panics in the fee check ---------- *)

Lemma overflow_slots_panics pick rs t o id n :
  In (RPurchase o id n) (own_msgs pick t) -> two63 <= n ->
  existsb (fun c => fst c =? rp_denom (r_params rs)) (tx_fee t) = true ->
  check_fees pick rs t = Panic PANIC_NEGFEE.
Proof.
  intros I N D. unfold check_fees. rewrite D. cbn [negb].
  assert (X : existsb (fun r => match r with RPurchase _ _ n => two63 <=? n | _ => false end)
                      (own_msgs pick t) = true).
  { apply existsb_exists. exists (RPurchase o id n). split; [exact I|lia]. }
  rewrite X. reflexivity.
Qed.

Lemma overflow_check_fees_not_ok pick rs t o id n :
  In (RPurchase o id n) (own_msgs pick t) -> two63 <= n -> check_fees pick rs t <> Ok tt.
Proof.
  intros I N H. apply check_fees_ok_inv in H as (_ & _ & X).
  assert (Y : existsb (fun r => match r with RPurchase _ _ n => two63 <=? n | _ => false end)
                      (own_msgs pick t) = true).
  { apply existsb_exists. exists (RPurchase o id n). split; [exact I|lia]. }
  congruence.
Qed.

Lemma overflow_slots_rejected a t o id n :
  (In (MWrk (RPurchase o id n)) (tx_msgs t) \/ In (MBcn (RPurchase o id n)) (tx_msgs t)) -> two63 <= n ->
  exists r, check_tx a t = (a, r) /\ r <> TxOk.
Proof.
  intros I N. destruct (check_tx a t) as [a' r] eqn:H. exists r.
  destruct (check_tx_never_executes _ _ _ _ H) as (H1 & H2).
  assert (R : r <> TxOk).
  { intros ->. specialize (H1 eq_refl). apply ante_stages in H1 as (_ & Hw & Hb & _).
    destruct I as [I|I].
    - apply (own_of_In pick_wrk _ _ (RPurchase o id n)) in I; [|reflexivity].
      rewrite <- own_msgs_own_of in I.
      apply reg_ante_ok_inv in Hw as (Hw & _).
      + eapply overflow_check_fees_not_ok; eauto.
      + intros E. rewrite E in I. exact I.
    - apply (own_of_In pick_bcn _ _ (RPurchase o id n)) in I; [|reflexivity].
      rewrite <- own_msgs_own_of in I.
      apply reg_ante_ok_inv in Hb as (Hb & _).
      + eapply overflow_check_fees_not_ok; eauto.
      + intros E. rewrite E in I. exact I. }
  split; [|exact R]. rewrite (H2 R). reflexivity.
Qed.
