(* x/stream gRPC POINT queries (keeper/query_streams.go: StreamByReceiverSender, StreamReceiverSenderCurrentFlow) as
   generated from the Go source on every run (GeneratedStreamKeeper.v).

   part 1  exact behaviour of each handler on EVERY request and world (complete case split, exact error class, no
           hypothesis), stated twice: whatever the module's bech32 primitive answers ([_bech32]: an error / panic of the
           decoding of the receiver, then of the sender, is the handler's; the LOOK-UP uses the decoded addresses, the
           ANSWER repeats the request's strings), and with the primitive of model/StreamKeeperPrims.v, which accepts every
           abstract address.  A missing stream is the module error ErrInvalidData (sdkerrors.Wrap(types.ErrInvalidData,
           "stream not found")), not a gRPC NotFound.
           Current flow (C11/C12): the configured rate, and as current flow 0 when DepositZeroTime is strictly before the
           block time or the deposit is nil / zero / negative, the configured rate otherwise;
   part 2  an entry of the module's listing [str_AllStreams] is what StreamByReceiverSender answers for its
           (receiver, sender) when the stream keys are distinct ([si_keys] of [str_inv]); refuted without;
   part 3  "queries never modify state". *)
From Coq Require Import ZifyBool.
From MC Require Import lib.Prelude lib.AMap lib.GoSdk GeneratedFns GeneratedStreamTypes model.Bank model.Stream
  model.StreamSpec model.StreamKeeperPrims GeneratedStreamKeeper.
From MC Require Import proofs.StreamProofs.
Local Open Scope Z_scope.

#[local] Arguments Z.ltb : simpl never.
#[local] Arguments Z.leb : simpl never.
#[local] Arguments Z.eqb : simpl never.
#[local] Arguments aget : simpl never.

(* split on the next test or store lookup of the goal, whatever side it is on *)
Ltac pq_split :=
  cbn;
  repeat (match goal with
          | |- context [if ?c then _ else _] => destruct c eqn:?
          | |- context [match aget ?k ?m with _ => _ end] => destruct (aget k m) eqn:?
          end; cbn).

(* rewrite the store lookup of the goal with a known fact about it (up to the aliases go_addr / addr of Z) *)
Ltac rw_aget G :=
  match type of G with
  | _ = ?rhs => match goal with |- context [aget ?k ?m] => replace (aget k m) with rhs by (symmetry; exact G) end
  end.

(* the current flow the handler reports for a stored stream at block time [now] *)
Definition current_flow (now : Z) (st : stream) : Z :=
  if (st_dzt st <? now) || (st_deposit st <=? 0) then 0 else st_rate st.

Lemma current_flow_def : forall now st,
  current_flow now st = if (st_dzt st <? now) || (st_deposit st <=? 0) then 0 else st_rate st.
Proof. reflexivity. Qed.

(* ------------------------------------------------------------------------------------------ *)
(* part 1: the handlers, on every request and world                                           *)
(* ------------------------------------------------------------------------------------------ *)

Theorem str_point_StreamByReceiverSender_bech32 : forall w req,
  go_StreamByReceiverSender w req =
    do r <- sdk_AccAddressFromBech32 (QueryStreamByReceiverSenderRequest_ReceiverAddr req);
    do sn <- sdk_AccAddressFromBech32 (QueryStreamByReceiverSenderRequest_SenderAddr req);
    match aget (r, sn) (s_streams (kw_str w)) with
    | Some st =>
        Ok (mk_go_QueryStreamByReceiverSenderResponse
              (mk_go_StreamResult (QueryStreamByReceiverSenderRequest_ReceiverAddr req)
                 (QueryStreamByReceiverSenderRequest_SenderAddr req) (to_go_stream st)))
    | None => Err stream_ErrInvalidData
    end.
Proof.
  intros w req. unfold go_StreamByReceiverSender, str_GetStream. cbv zeta.
  destruct (sdk_AccAddressFromBech32 (QueryStreamByReceiverSenderRequest_ReceiverAddr req)) as [r| |]; [|reflexivity..].
  destruct (sdk_AccAddressFromBech32 (QueryStreamByReceiverSenderRequest_SenderAddr req)) as [sn| |]; [|reflexivity..].
  pq_split; reflexivity.
Qed.

(* StreamByReceiverSender: no stream under (receiver, sender) -> ErrInvalidData; else the stored stream, with the
   request's receiver and sender *)
Theorem str_point_StreamByReceiverSender_cases : forall w req,
  go_StreamByReceiverSender w req =
    let r := QueryStreamByReceiverSenderRequest_ReceiverAddr req in
    let sn := QueryStreamByReceiverSenderRequest_SenderAddr req in
    match aget (r, sn) (s_streams (kw_str w)) with
    | Some st => Ok (mk_go_QueryStreamByReceiverSenderResponse (mk_go_StreamResult r sn (to_go_stream st)))
    | None => Err stream_ErrInvalidData
    end.
Proof. intros w req. rewrite str_point_StreamByReceiverSender_bech32. reflexivity. Qed.

Lemma deposit_test (c : go_coin) : (Coin_IsNil c || Coin_IsZero c) || Coin_IsNegative c = (snd c <=? 0).
Proof. unfold Coin_IsNil, Coin_IsZero, Coin_IsNegative. cbn [orb]. lia. Qed.

Theorem str_point_CurrentFlow_bech32 : forall w req,
  go_StreamReceiverSenderCurrentFlow w req =
    do r <- sdk_AccAddressFromBech32 (QueryStreamReceiverSenderCurrentFlowRequest_ReceiverAddr req);
    do sn <- sdk_AccAddressFromBech32 (QueryStreamReceiverSenderCurrentFlowRequest_SenderAddr req);
    match aget (r, sn) (s_streams (kw_str w)) with
    | Some st => Ok (mk_go_QueryStreamReceiverSenderCurrentFlowResponse (st_rate st) (current_flow (kw_now w) st))
    | None => Err stream_ErrInvalidData
    end.
Proof.
  intros w req. unfold go_StreamReceiverSenderCurrentFlow, str_GetStream. cbv zeta.
  destruct (sdk_AccAddressFromBech32 (QueryStreamReceiverSenderCurrentFlowRequest_ReceiverAddr req)) as [r| |];
    [|reflexivity..].
  destruct (sdk_AccAddressFromBech32 (QueryStreamReceiverSenderCurrentFlowRequest_SenderAddr req)) as [sn| |];
    [|reflexivity..].
  cbn [obind]. destruct (aget (r, sn) (s_streams (kw_str w))) as [st|]; [|reflexivity].
  cbn [negb]. rewrite !deposit_test. unfold current_flow, Time_Before. cbn.
  destruct (st_dzt st <? kw_now w); destruct (st_deposit st <=? 0); reflexivity.
Qed.

(* StreamReceiverSenderCurrentFlow: no stream -> ErrInvalidData; else (configured rate, current flow) *)
Theorem str_point_CurrentFlow_cases : forall w req,
  go_StreamReceiverSenderCurrentFlow w req =
    let r := QueryStreamReceiverSenderCurrentFlowRequest_ReceiverAddr req in
    let sn := QueryStreamReceiverSenderCurrentFlowRequest_SenderAddr req in
    match aget (r, sn) (s_streams (kw_str w)) with
    | Some st => Ok (mk_go_QueryStreamReceiverSenderCurrentFlowResponse (st_rate st) (current_flow (kw_now w) st))
    | None => Err stream_ErrInvalidData
    end.
Proof. intros w req. rewrite str_point_CurrentFlow_bech32. reflexivity. Qed.

(* the C11 / C12 reading: for a stream with a positive rate the reported current flow is 0 exactly when the
   deposit-zero time is (strictly) before the block time or nothing is left of the deposit; otherwise it is the
   configured rate.  At DepositZeroTime = block time exactly the full rate is still reported. *)
Theorem current_flow_zero_iff : forall now st,
  0 < st_rate st ->
  (current_flow now st = 0 <-> st_dzt st < now \/ st_deposit st <= 0) /\
  (current_flow now st <> 0 -> current_flow now st = st_rate st).
Proof.
  intros now st Hr. unfold current_flow.
  destruct (Z.ltb_spec (st_dzt st) now); destruct (Z.leb_spec (st_deposit st) 0); cbn [orb]; split; lia.
Qed.

Corollary str_point_CurrentFlow_inv : forall b w req resp,
  str_inv (kw_now w) b (kw_str w) ->
  go_StreamReceiverSenderCurrentFlow w req = Ok resp ->
  exists st,
    aget (QueryStreamReceiverSenderCurrentFlowRequest_ReceiverAddr req,
          QueryStreamReceiverSenderCurrentFlowRequest_SenderAddr req) (s_streams (kw_str w)) = Some st /\
    QueryStreamReceiverSenderCurrentFlowResponse_ConfiguredFlowRate resp = st_rate st /\
    (QueryStreamReceiverSenderCurrentFlowResponse_CurrentFlowRate resp = 0 <->
       st_dzt st < kw_now w \/ st_deposit st = 0) /\
    (QueryStreamReceiverSenderCurrentFlowResponse_CurrentFlowRate resp <> 0 ->
       QueryStreamReceiverSenderCurrentFlowResponse_CurrentFlowRate resp = st_rate st).
Proof.
  intros b w req resp I. rewrite str_point_CurrentFlow_cases. cbv zeta.
  destruct (aget (QueryStreamReceiverSenderCurrentFlowRequest_ReceiverAddr req,
                  QueryStreamReceiverSenderCurrentFlowRequest_SenderAddr req) (s_streams (kw_str w))) as [st|] eqn:G;
    [|discriminate].
  intros [= <-]. exists st. split; [reflexivity|]. split; [reflexivity|].
  cbn [QueryStreamReceiverSenderCurrentFlowResponse_CurrentFlowRate].
  pose proof (si_streams _ _ _ I _ _ G) as Hok. destruct Hok as [Hrate Hdep _ _ _ _].
  destruct (current_flow_zero_iff (kw_now w) st) as [H1 H2]; [lia|]. split; [|exact H2].
  rewrite H1. lia.
Qed.

(* ------------------------------------------------------------------------------------------ *)
(* part 2: listing <-> point                                                                  *)
(* ------------------------------------------------------------------------------------------ *)

(* The listing is [str_AllStreams w] of model/StreamKeeperPrims.v: what IterateAllStreams visits (every stored stream
   with the (receiver, sender) of its key, in store order).  The three paginated stream list queries report, for a
   stored stream, exactly the pair of its key (props/C18generated.v). *)
Theorem str_listed_is_point : forall w e,
  NoDup (akeys (s_streams (kw_str w))) ->
  In e (str_AllStreams w) ->
  go_StreamByReceiverSender w
    (mk_go_QueryStreamByReceiverSenderRequest (StreamExport_Receiver e) (StreamExport_Sender e)) =
  Ok (mk_go_QueryStreamByReceiverSenderResponse
        (mk_go_StreamResult (StreamExport_Receiver e) (StreamExport_Sender e) (StreamExport_Stream e))).
Proof.
  intros w e ND Hin. unfold str_AllStreams in Hin. apply in_map_iff in Hin. destruct Hin as [[[r sn] st] [<- Hin]].
  cbn [fst snd StreamExport_Receiver StreamExport_Sender StreamExport_Stream].
  rewrite str_point_StreamByReceiverSender_cases.
  cbn [QueryStreamByReceiverSenderRequest_ReceiverAddr QueryStreamByReceiverSenderRequest_SenderAddr]. cbv zeta.
  pose proof (In_aget_NoDup _ _ _ ND Hin) as G. rw_aget G. reflexivity.
Qed.

Corollary str_listed_is_point_inv : forall b w e,
  str_inv (kw_now w) b (kw_str w) ->
  In e (str_AllStreams w) ->
  go_StreamByReceiverSender w
    (mk_go_QueryStreamByReceiverSenderRequest (StreamExport_Receiver e) (StreamExport_Sender e)) =
  Ok (mk_go_QueryStreamByReceiverSenderResponse
        (mk_go_StreamResult (StreamExport_Receiver e) (StreamExport_Sender e) (StreamExport_Stream e))).
Proof. intros b w e I. apply str_listed_is_point. exact (si_keys _ _ _ I). Qed.

(* ... and nothing else is answered: an Ok answer of the point query is listed *)
Theorem str_point_is_listed : forall w req resp,
  go_StreamByReceiverSender w req = Ok resp ->
  In (mk_go_StreamExport (StreamResult_Receiver (QueryStreamByReceiverSenderResponse_Stream resp))
        (StreamResult_Sender (QueryStreamByReceiverSenderResponse_Stream resp))
        (StreamResult_Stream (QueryStreamByReceiverSenderResponse_Stream resp))) (str_AllStreams w) /\
  StreamResult_Receiver (QueryStreamByReceiverSenderResponse_Stream resp) = QueryStreamByReceiverSenderRequest_ReceiverAddr req /\
  StreamResult_Sender (QueryStreamByReceiverSenderResponse_Stream resp) = QueryStreamByReceiverSenderRequest_SenderAddr req.
Proof.
  intros w req resp. rewrite str_point_StreamByReceiverSender_cases. cbv zeta.
  destruct (aget (QueryStreamByReceiverSenderRequest_ReceiverAddr req, QueryStreamByReceiverSenderRequest_SenderAddr req)
              (s_streams (kw_str w))) as [st|] eqn:G; [|discriminate].
  intros [= <-]. cbn. split; [|split; reflexivity]. unfold str_AllStreams. apply in_map_iff.
  exists ((QueryStreamByReceiverSenderRequest_ReceiverAddr req, QueryStreamByReceiverSenderRequest_SenderAddr req), st).
  split; [reflexivity|]. apply aget_In. exact G.
Qed.

(* the current-flow query of a listed stream reports the listed stream's rate *)
Theorem str_listed_current_flow : forall w e,
  NoDup (akeys (s_streams (kw_str w))) ->
  In e (str_AllStreams w) ->
  exists cur,
    go_StreamReceiverSenderCurrentFlow w
      (mk_go_QueryStreamReceiverSenderCurrentFlowRequest (StreamExport_Receiver e) (StreamExport_Sender e)) =
    Ok (mk_go_QueryStreamReceiverSenderCurrentFlowResponse (Stream_FlowRate (StreamExport_Stream e)) cur) /\
    cur = (if Time_Before (Stream_DepositZeroTime (StreamExport_Stream e)) (kw_now w)
              || (Coin_Amount (Stream_Deposit (StreamExport_Stream e)) <=? 0)
           then 0 else Stream_FlowRate (StreamExport_Stream e)).
Proof.
  intros w e ND Hin. unfold str_AllStreams in Hin. apply in_map_iff in Hin. destruct Hin as [[[r sn] st] [<- Hin]].
  cbn [fst snd StreamExport_Receiver StreamExport_Sender StreamExport_Stream].
  exists (current_flow (kw_now w) st). split; [|reflexivity].
  rewrite str_point_CurrentFlow_cases.
  cbn [QueryStreamReceiverSenderCurrentFlowRequest_ReceiverAddr QueryStreamReceiverSenderCurrentFlowRequest_SenderAddr].
  cbv zeta. pose proof (In_aget_NoDup _ _ _ ND Hin) as G. rw_aget G. reflexivity.
Qed.

(* distinct keys cannot be dropped: with the same key twice in the store the second entry is listed but the point query
   answers the first *)
Definition dup_st (dep : Z) : stream :=
  {| st_denom := 1; st_deposit := dep; st_rate := 5; st_lot := 0; st_dzt := 100; st_cancellable := true |}.
Definition dup_world : kworld :=
  mk_kworld 10 {| bal := []; supply := [] |} {| s_valfee := 0; s_streams := [((7, 8), dup_st 100); ((7, 8), dup_st 200)] |}.
Theorem str_listed_is_point_without_nodup_refuted :
  In (mk_go_StreamExport 7 8 (to_go_stream (dup_st 200))) (str_AllStreams dup_world) /\
  go_StreamByReceiverSender dup_world (mk_go_QueryStreamByReceiverSenderRequest 7 8) =
    Ok (mk_go_QueryStreamByReceiverSenderResponse (mk_go_StreamResult 7 8 (to_go_stream (dup_st 100)))).
Proof. split; [right; left; reflexivity | vm_compute; reflexivity]. Qed.

(* ------------------------------------------------------------------------------------------ *)
(* part 3: queries never modify state                                                         *)
(* ------------------------------------------------------------------------------------------ *)
(* By type: go_StreamByReceiverSender and go_StreamReceiverSenderCurrentFlow were rendered as READERS -
   [kworld -> request -> outcome response], no world is returned - so the caller's world is the one it had.  Neither
   was rendered state-passing. *)
Definition str_point_readers :
  (kworld -> go_QueryStreamByReceiverSenderRequest -> outcome go_QueryStreamByReceiverSenderResponse) *
  (kworld -> go_QueryStreamReceiverSenderCurrentFlowRequest -> outcome go_QueryStreamReceiverSenderCurrentFlowResponse) :=
  (go_StreamByReceiverSender, go_StreamReceiverSenderCurrentFlow).

(* ... StreamByReceiverSender depends on the stream store only; the current flow also on the block time; neither on the
   bank *)
Theorem str_point_state_only : forall w w',
  kw_str w = kw_str w' ->
  (forall req, go_StreamByReceiverSender w req = go_StreamByReceiverSender w' req) /\
  (kw_now w = kw_now w' -> forall req, go_StreamReceiverSenderCurrentFlow w req = go_StreamReceiverSenderCurrentFlow w' req).
Proof.
  intros w w' E. split.
  - intros req. rewrite !str_point_StreamByReceiverSender_cases, E. reflexivity.
  - intros En req. rewrite !str_point_CurrentFlow_cases, E, En. reflexivity.
Qed.

Print Assumptions str_point_StreamByReceiverSender_bech32.
Print Assumptions str_point_StreamByReceiverSender_cases.
Print Assumptions str_point_CurrentFlow_bech32.
Print Assumptions str_point_CurrentFlow_cases.
Print Assumptions current_flow_def.
Print Assumptions current_flow_zero_iff.
Print Assumptions str_point_CurrentFlow_inv.
Print Assumptions str_listed_is_point.
Print Assumptions str_listed_is_point_inv.
Print Assumptions str_point_is_listed.
Print Assumptions str_listed_current_flow.
Print Assumptions str_listed_is_point_without_nodup_refuted.
Print Assumptions str_point_state_only.
