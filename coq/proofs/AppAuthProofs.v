(* C13: a message changes state only when it is executed for the party the operation belongs to. *)
From MC Require Import lib.Prelude lib.AMap model.Bank model.Stream model.Registry model.Enterprise
  model.App model.AppSpec.
From MC Require Import proofs.BankProofs proofs.AppFrame proofs.AppParamsProofs.
From Coq Require Import ZifyBool.
Ltac Zify.zify_post_hook ::= Z.div_mod_to_equations.
Local Open Scope Z_scope.

(* ---------- 10. the GetSigners table ---------- *)

Lemma signer_is_named_party :
  (forall p d amt, msg_signer (MEnt (ERaise p d amt)) = p) /\
  (forall sg poid dec, msg_signer (MEnt (EDecide sg poid dec)) = sg) /\
  (forall sg target act, msg_signer (MEnt (EWhitelist sg target act)) = sg) /\
  (forall o mo na ge ty, msg_signer (MWrk (RRegister o mo na ge ty)) = o) /\
  (forall o id key hs, msg_signer (MWrk (RRecord o id key hs)) = o) /\
  (forall o id n, msg_signer (MWrk (RPurchase o id n)) = o) /\
  (forall o mo na ge ty, msg_signer (MBcn (RRegister o mo na ge ty)) = o) /\
  (forall o id key hs, msg_signer (MBcn (RRecord o id key hs)) = o) /\
  (forall o id n, msg_signer (MBcn (RPurchase o id n)) = o) /\
  (forall sn r d amt rate, msg_signer (MStr (SCreate sn r d amt rate)) = sn) /\
  (forall sn r, msg_signer (MStr (SClaim sn r)) = r) /\
  (forall sn r d amt, msg_signer (MStr (STopUp sn r d amt)) = sn) /\
  (forall sn r rate, msg_signer (MStr (SUpdateFlow sn r rate)) = sn) /\
  (forall sn r, msg_signer (MStr (SCancel sn r)) = sn) /\
  (forall from to cs, msg_signer (MSend from to cs) = from) /\
  (forall granter grantee ty, msg_signer (MGrant granter grantee ty) = granter) /\
  (forall granter grantee, msg_signer (MFeeAllow granter grantee) = granter) /\
  (forall grantee inner, msg_signer (MExec grantee inner) = grantee) /\
  (forall authority u, msg_signer (MUpdParams authority u) = authority).
Proof. repeat split; reflexivity. Qed.

(* ---------- 6. success implies entitlement ---------- *)

Lemma ofold_forall {A B} (g : A -> B -> outcome A) (Q : B -> Prop) :
  (forall a m a1, g a m = Ok a1 -> Q m) ->
  forall l a a', ofold g l (Ok a) = Ok a' -> Forall Q l.
Proof.
  intros Hq. induction l as [|m l IH]; intros a a' H; [constructor|].
  apply ofold_ok_inv in H as (a1 & E1 & E2). constructor; eauto.
Qed.

Lemma ahas_of_aget {K V} `{EqKey K} (k : K) (m : amap K V) v : aget k m = Some v -> ahas k m = true.
Proof. unfold ahas. intros ->. reflexivity. Qed.

Lemma exec_requires_entitlement f a m a' : exec_msg f a m = Ok a' -> entitled a m.
Proof.
  destruct f as [|f]; [discriminate|].
  destruct m as [e|r|r|s|from to cs|gr ge ty|gr ge|ge inner|au u].
  - cbn [exec_msg]. intros H. step H. clear H. unfold ent_exec in E.
    destruct e as [p d amt|sg poid dec|sg target act]; cbn [entitled].
    + repeat step E. apply negb_false_iff in C1. exact C1.
    + step E. apply negb_false_iff in C. exact C.
    + step E. apply negb_false_iff in C. exact C.
  - cbn [exec_msg]. intros H. step H. clear H. unfold reg_exec in E.
    destruct r as [o mo na ge ty|o id key hs|o id n]; cbn [entitled]; [exact I| |].
    + step E. step E. step E. step E. exists r. split; [eassumption|lia].
    + step E. step E. step E. exists r. split; [eassumption|lia].
  - cbn [exec_msg]. intros H. step H. clear H. unfold reg_exec in E.
    destruct r as [o mo na ge ty|o id key hs|o id n]; cbn [entitled]; [exact I| |].
    + step E. step E. step E. step E. exists r. split; [eassumption|lia].
    + step E. step E. step E. exists r. split; [eassumption|lia].
  - cbn [exec_msg]. intros H. step H. clear H. unfold str_exec in E.
    destruct s as [sn rc d amt rate|sn rc|sn rc d amt|sn rc rate|sn rc]; cbn [entitled]; [exact I| | | |].
    + step E. apply negb_false_iff in C. exact C.
    + step E. step E. eapply ahas_of_aget; eauto.
    + step E. step E. apply negb_false_iff in C0. exact C0.
    + step E. eapply ahas_of_aget; eauto.
  - exact (fun _ => I).
  - exact (fun _ => I).
  - exact (fun _ => I).
  - rewrite exec_msg_exec. cbn [entitled]. apply ofold_forall.
    intros a0 i a1 S.
    destruct (msg_signer i =? ge) eqn:Es; [left; lia|]. cbn [orb] in S.
    destruct (has_grant a0 (msg_signer i) ge (msg_type i)) eqn:G; [|discriminate].
    right. exists a0. exact G.
  - intros H. apply exec_upd_params in H as (-> & _). reflexivity.
Qed.

(* the recursive form for wrappers: every inner message, at every depth, ran in the state left by
   its predecessors, for its own signer (the grantee, or a granter of a grant held in THAT state),
   and was itself entitled there *)
Inductive auth_exec : nat -> app -> msg -> app -> Prop :=
| ae_leaf f a m a' :
    is_exec m = false -> exec_msg f a m = Ok a' -> entitled a m -> auth_exec f a m a'
| ae_exec f a g inner a' :
    auth_trace f g a inner a' -> entitled a (MExec g inner) -> auth_exec (S f) a (MExec g inner) a'
with auth_trace : nat -> addr -> app -> list msg -> app -> Prop :=
| at_nil f g a : auth_trace f g a [] a
| at_cons f g a i a1 rest a2 :
    (msg_signer i = g \/ has_grant a (msg_signer i) g (msg_type i) = true) ->
    exec_msg f a i = Ok a1 -> entitled a i -> auth_exec f a i a1 ->
    auth_trace f g a1 rest a2 -> auth_trace f g a (i :: rest) a2.

Lemma exec_inner_authorised : forall f a m a', exec_msg f a m = Ok a' -> auth_exec f a m a'.
Proof.
  induction f as [|f IH]; intros a m a' H; [discriminate|].
  destruct (is_exec m) eqn:X.
  - destruct m as [| | | | | | |g inner|]; try discriminate.
    pose proof (exec_requires_entitlement _ _ _ _ H) as Ent.
    apply ae_exec; [|exact Ent]. clear Ent X.
    rewrite exec_msg_exec in H. revert a H.
    induction inner as [|i rest IHl]; intros a H.
    + rewrite ofold_nil in H. injection H as <-. constructor.
    + apply ofold_ok_inv in H as (a1 & S & R).
      destruct (msg_signer i =? g) eqn:Es.
      * cbn [orb] in S. eapply at_cons; eauto. { left; lia. }
        eapply exec_requires_entitlement; eauto.
      * cbn [orb] in S. destruct (has_grant a (msg_signer i) g (msg_type i)) eqn:G; [|discriminate].
        eapply at_cons; eauto. eapply exec_requires_entitlement; eauto.
  - apply ae_leaf; auto. eapply exec_requires_entitlement; eauto.
Qed.

(* ---------- 7. not entitled: rejected with an error, state unchanged by construction ---------- *)

Lemma not_entitled_rejected f a m :
  ~ entitled a m -> is_exec m = false -> exists c, exec_msg (S f) a m = Err c.
Proof.
  intros N X.
  destruct m as [e|r|r|s|from to cs|gr ge ty|gr ge|ge inner|au u]; try discriminate;
    cbn [entitled] in N; try (exfalso; apply N; exact I); cbn [exec_msg].
  - unfold ent_exec. destruct e as [p d amt|sg poid dec|sg target act]; cbn [entitled] in N.
    + destruct (negb (d =? ep_denom (e_params (a_ent a)))); [cbn; eauto|].
      destruct (amt <=? 0); [cbn; eauto|].
      destruct (mem_addr p (e_wl (a_ent a))); [congruence|]. cbn; eauto.
    + destruct (is_signer (a_ent a) sg); [congruence|]. cbn; eauto.
    + destruct (is_signer (a_ent a) sg); [congruence|]. cbn; eauto.
  - unfold reg_exec. destruct r as [o mo na ge ty|o id key hs|o id n]; cbn [entitled] in N.
    + exfalso; apply N; exact I.
    + destruct (true && (key =? 0)); [cbn; eauto|].
      destruct (existsb (too_long 66) hs); [cbn; eauto|].
      destruct (aget id (r_regs (a_wrk a))) as [rg|] eqn:G; [|cbn; eauto].
      destruct (Z.eqb_spec o (rg_owner rg)) as [->|Ne]; cbn [negb]; [|cbn; eauto].
      exfalso. apply N. exists rg. auto.
    + destruct (n =? 0); [cbn; eauto|].
      destruct (aget id (r_regs (a_wrk a))) as [rg|] eqn:G; [|cbn; eauto].
      destruct (Z.eqb_spec o (rg_owner rg)) as [->|Ne]; cbn [negb]; [|cbn; eauto].
      exfalso. apply N. exists rg. auto.
  - unfold reg_exec. destruct r as [o mo na ge ty|o id key hs|o id n]; cbn [entitled] in N.
    + exfalso; apply N; exact I.
    + destruct (false && (key =? 0)); [cbn; eauto|].
      destruct (existsb (too_long 66) hs); [cbn; eauto|].
      destruct (aget id (r_regs (a_bcn a))) as [rg|] eqn:G; [|cbn; eauto].
      destruct (Z.eqb_spec o (rg_owner rg)) as [->|Ne]; cbn [negb]; [|cbn; eauto].
      exfalso. apply N. exists rg. auto.
    + destruct (n =? 0); [cbn; eauto|].
      destruct (aget id (r_regs (a_bcn a))) as [rg|] eqn:G; [|cbn; eauto].
      destruct (Z.eqb_spec o (rg_owner rg)) as [->|Ne]; cbn [negb]; [|cbn; eauto].
      exfalso. apply N. exists rg. auto.
  - unfold str_exec. destruct s as [sn rc d amt rate|sn rc|sn rc d amt|sn rc rate|sn rc]; cbn [entitled] in N.
    + exfalso; apply N; exact I.
    + destruct (ahas (rc, sn) (s_streams (a_str a))); [congruence|]. cbn; eauto.
    + destruct (amt <=? 0); [cbn; eauto|]. unfold ahas in N.
      destruct (aget (rc, sn) (s_streams (a_str a))); [congruence|]. cbn; eauto.
    + destruct (rate <=? 0); [cbn; eauto|].
      destruct (ahas (rc, sn) (s_streams (a_str a))); [congruence|]. cbn; eauto.
    + unfold ahas in N.
      destruct (aget (rc, sn) (s_streams (a_str a))); [congruence|]. cbn; eauto.
  - destruct (Z.eqb_spec au GOV_MACC) as [->|Ne]; [congruence|]. cbn; eauto.
Qed.

(* ---------- 8. only the governance authority updates parameters ---------- *)

Lemma only_gov_updates_params f a authority u a' :
  exec_msg f a (MUpdParams authority u) = Ok a' -> authority = GOV_MACC.
Proof. intros H. apply exec_upd_params in H as (-> & _). reflexivity. Qed.

Definition no_module_grants (a : app) : Prop := forall g, In g (a_grants a) -> 0 <= fst (fst g).

Lemma has_grant_In a granter grantee typ :
  has_grant a granter grantee typ = true -> In (granter, grantee, typ) (a_grants a).
Proof.
  unfold has_grant. rewrite existsb_exists. intros ([[g1 g2] g3] & I & E). cbn in E.
  assert (g1 = granter /\ g2 = grantee /\ g3 = typ) as (-> & -> & ->) by lia. exact I.
Qed.

Lemma exec_leaf_grants f a m a' :
  exec_msg f a m = Ok a' -> is_exec m = false ->
  a_grants a' = match m with MGrant gr ge ty => (gr, ge, ty) :: a_grants a | _ => a_grants a end.
Proof.
  destruct f as [|f]; [discriminate|]. cbn [exec_msg].
  destruct m as [e|r|r|s|from to cs|gr ge ty|gr ge|ge inner|au u]; intros H X; try discriminate.
  - step H. destruct a0 as [e' z]. injection H as <-. reflexivity.
  - step H. destruct a0 as [r' z]. injection H as <-. reflexivity.
  - step H. destruct a0 as [r' z]. injection H as <-. reflexivity.
  - step H. destruct a0 as [[b' s'] z]. injection H as <-. reflexivity.
  - step H. step H. step H. injection H as <-. reflexivity.
  - injection H as <-. reflexivity.
  - step H. injection H as <-. reflexivity.
  - step H. destruct u; repeat step H; injection H as <-; reflexivity.
Qed.

(* a message executed for a user account neither updates parameters nor issues a module-account grant *)
Lemma user_msg_frame : forall f a m a',
  exec_msg f a m = Ok a' -> 0 <= msg_signer m -> no_module_grants a ->
  no_module_grants a' /\ params_of a' = params_of a.
Proof.
  induction f as [|f IH]; intros a m a' H S G; [discriminate|].
  destruct (is_exec m) eqn:X.
  - destruct m as [| | | | | | |ge inner|]; try discriminate. cbn [msg_signer] in S.
    rewrite exec_msg_exec in H. clear X. revert a H G.
    induction inner as [|i rest IHl]; intros a H G.
    + rewrite ofold_nil in H. injection H as <-. auto.
    + apply ofold_ok_inv in H as (a1 & St & R).
      assert (Si : 0 <= msg_signer i).
      { destruct (msg_signer i =? ge) eqn:Es; [lia|]. cbn [orb] in St.
        destruct (has_grant a (msg_signer i) ge (msg_type i)) eqn:Hg; [|discriminate].
        apply has_grant_In in Hg. apply G in Hg. exact Hg. }
      destruct ((msg_signer i =? ge) || has_grant a (msg_signer i) ge (msg_type i)); [|discriminate].
      destruct (IH _ _ _ St Si G) as (G1 & P1).
      destruct (IHl _ R G1) as (G2 & P2). split; [exact G2|congruence].
  - destruct (is_param_update m) eqn:U.
    + destruct m; try discriminate. apply only_gov_updates_params in H. cbn [msg_signer] in S.
      subst. unfold GOV_MACC in S. lia.
    + split; [|eapply exec_leaf_params; eauto].
      pose proof (exec_leaf_grants _ _ _ _ H X) as Eg. unfold no_module_grants. rewrite Eg.
      destruct m; try exact G. cbn [msg_signer] in S.
      intros g [<-|I]; [exact S|apply G; exact I].
Qed.

Lemma ante_grants_params check a t a1 :
  ante check a t = Ok a1 -> a_grants a1 = a_grants a /\ params_of a1 = params_of a.
Proof.
  intros H. split; [|eapply ante_params; eauto].
  apply ante_frame in H as (_ & _ & _ & H & _). exact H.
Qed.

Lemma exec_all_user_frame a t a' :
  exec_all a t = Ok a' -> (forall m, In m (tx_msgs t) -> 0 <= msg_signer m) -> no_module_grants a ->
  no_module_grants a' /\ params_of a' = params_of a.
Proof.
  rewrite exec_all_ofold. generalize (tx_fuel t) as f. intros f. revert a.
  induction (tx_msgs t) as [|m l IHl]; intros a H S G.
  - rewrite ofold_nil in H. injection H as <-. auto.
  - apply ofold_ok_inv in H as (a1 & St & R).
    destruct (user_msg_frame _ _ _ _ St (S m (or_introl eq_refl)) G) as (G1 & P1).
    destruct (IHl _ R (fun x I => S x (or_intror I)) G1) as (G2 & P2). split; [exact G2|congruence].
Qed.

Lemma deliver_tx_user_frame a t a' r :
  deliver_tx a t = (a', r) -> (forall m, In m (tx_msgs t) -> 0 <= msg_signer m) -> no_module_grants a ->
  no_module_grants a' /\ params_of a' = params_of a.
Proof.
  unfold deliver_tx. intros H S G.
  destruct (validate_all t); try (injection H as <- _; auto).
  destruct (ante false a t) as [a1|c|c] eqn:A; try (injection H as <- _; auto).
  apply ante_grants_params in A as (Ag & Ap).
  assert (G1 : no_module_grants a1) by (unfold no_module_grants; rewrite Ag; exact G).
  destruct (exec_all a1 t) as [a2|c|c] eqn:X; injection H as <- _; auto.
  destruct (exec_all_user_frame _ _ _ X S G1) as (G2 & P2). split; [exact G2|congruence].
Qed.

Lemma user_tx_cannot_update_params a t a' r :
  deliver_tx a t = (a', r) -> (forall m, In m (tx_msgs t) -> 0 <= msg_signer m) ->
  (forall g, In g (a_grants a) -> 0 <= fst (fst g)) ->
  e_params (a_ent a') = e_params (a_ent a) /\ r_params (a_wrk a') = r_params (a_wrk a) /\
  r_params (a_bcn a') = r_params (a_bcn a) /\ s_valfee (a_str a') = s_valfee (a_str a).
Proof.
  intros H S G. destruct (deliver_tx_user_frame _ _ _ _ H S G) as (_ & P).
  unfold params_of in P. injection P as -> -> -> ->. auto.
Qed.

Lemma no_module_grants_invariant a t a' r :
  deliver_tx a t = (a', r) -> (forall m, In m (tx_msgs t) -> 0 <= msg_signer m) ->
  (forall g, In g (a_grants a) -> 0 <= fst (fst g)) ->
  (forall g, In g (a_grants a') -> 0 <= fst (fst g)).
Proof. intros H S G. exact (proj1 (deliver_tx_user_frame _ _ _ _ H S G)). Qed.

(* CheckTx and BeginBlock keep it too (they do not touch grants) *)
Lemma check_tx_grants a t a' r : check_tx a t = (a', r) -> a_grants a' = a_grants a.
Proof.
  unfold check_tx. intros H.
  destruct (validate_all t); try (injection H as <- _; reflexivity).
  destruct (ante true a t) as [a1|c|c] eqn:A; injection H as <- _; auto.
  apply ante_grants_params in A as (Ag & _). exact Ag.
Qed.

Lemma begin_block_grants a now a' : begin_block a now = Some a' -> a_grants a' = a_grants a.
Proof.
  unfold begin_block. destruct (ent_begin_block _ _ _) as [[b' e']|c|c]; try discriminate.
  intros [= <-]. reflexivity.
Qed.

(* ---------- 9. without valid signatures nothing happens ---------- *)

Lemma ante_needs_sig check a t a1 : ante check a t = Ok a1 -> tx_sig_ok t = true.
Proof. intros H. apply ante_stages in H as (_ & _ & _ & S & _). exact S. Qed.

Lemma signature_required a t a' r :
  deliver_tx a t = (a', r) -> tx_sig_ok t = false -> a' = a /\ r <> TxOk.
Proof.
  unfold deliver_tx. intros H S.
  destruct (validate_all t); try (injection H as <- <-; split; [reflexivity|discriminate]).
  destruct (ante false a t) as [a1|c|c] eqn:A; try (injection H as <- <-; split; [reflexivity|discriminate]).
  apply ante_needs_sig in A. congruence.
Qed.

Lemma signature_required_check a t a' r :
  check_tx a t = (a', r) -> tx_sig_ok t = false -> a' = a /\ r <> TxOk.
Proof.
  unfold check_tx. intros H S.
  destruct (validate_all t); try (injection H as <- <-; split; [reflexivity|discriminate]).
  destruct (ante true a t) as [a1|c|c] eqn:A; try (injection H as <- <-; split; [reflexivity|discriminate]).
  apply ante_needs_sig in A. congruence.
Qed.

(* an inner message of a wrapper that runs neither for the grantee nor under a grant held at that
   point makes the whole wrapper fail *)
Lemma exec_inner_unauthorised_rejected f a g pre i post ak :
  fold_left (fun acc i => do a1 <- acc;
                          if (msg_signer i =? g) || has_grant a1 (msg_signer i) g (msg_type i)
                          then exec_msg f a1 i else Err ERR_AUTHZ) pre (Ok a) = Ok ak ->
  msg_signer i <> g -> has_grant ak (msg_signer i) g (msg_type i) = false ->
  exec_msg (S f) a (MExec g (pre ++ i :: post)) = Err ERR_AUTHZ.
Proof.
  intros Hp Ns Ng. rewrite exec_msg_exec.
  eapply (proj1 (ofold_first_failure _ pre i post a ak Hp)).
  destruct (Z.eqb_spec (msg_signer i) g); [contradiction|]. rewrite Ng. reflexivity.
Qed.
