(* CAPSTONE of the store layer of x/enterprise: the eFUND book-keeping, the begin blocker, purchase orders / whitelist and the
   message server of /repo/x/enterprise/keeper/{locked,blocker,purchase,whitelist,msg_server}.go rendered over the BYTE-LEVEL
   store (GeneratedEnterpriseKeeperOnStore.v: world [esworld] of model/EnterpriseStoreWorld.v, store access through the
   GENERATED accessors of GeneratedEnterpriseStore.v and the GENERATED key builders) simulates the rendering over the
   hand-written primitives (GeneratedEnterpriseKeeper.v: world [eworld] of model/EnterpriseKeeperPrims.v), about which
   C02 / C03 / C04 / C05 are proved (proofs/GeneratedEnterprise{,Block,Msg}Eq.v).

   The development is parametrised (Section) by dom / emb / unemb and the four hypotheses of
   proofs/GeneratedEnterpriseStoreRefines.v (emb injective on dom, unemb (emb a) = a on dom, emb a <> [] on dom, every
   address of dom parses).

   Rw w ws    - the byte-level world ws represents the abstract world w: its embedding is emb / unemb, same block time, same
                bank, and Rent dom emb (esw_store ws) (ew_ent w).
   einv st    - what the abstract state has to satisfy besides, for the byte store to follow it:
                  every raised id is below the id counter   (RaiseNewPurchaseOrder queues the counter value: the primitive
                                                              APPENDS to the raised queue, the store is an id-ordered set),
                  the purchaser of every stored order is in dom if it parses
                                                             (it is stored opaquely in the order and later, in the begin
                                                              blocker, used as the KEY of the locked entry).
   Rwi w ws   = Rw w ws /\ einv (ew_ent w).
   gsim P E a c - the two results agree: Ok/Ok with P-related worlds and EQUAL values, Err/Err with E-related codes,
                Panic/Panic with equal codes.
   sim  = gsim Rwi eq          (equal error codes)
   simE = gsim Rwi ecode       (equal codes, or ERR_ENT = 30 against STORE_ERR = 10: SetPurchaseOrder with an invalid
                                status and SetLockedUndForAccount with a negative amount answer ERR_ENT in the primitive and
                                STORE_ERR in the generated accessor - the only two places where the codes differ)
   sim0 / sim0E: the same with Rw (used inside RaiseNewPurchaseOrder, where the invariant is broken between
   AddPoToRaisedQueue and SetHighestPurchaseOrderID).

   part 1  the relations, gsim, the "bind" library, `for .. range` loops;
   part 2  every adapter primitive of model/EnterpriseStoreWorld.v simulates its counterpart of the primitives;
   part 3  a tactic walking two bodies of the same shape; locked.go; the begin blocker; purchase orders, whitelist;
           the four handlers;
   part 4  messages, ValidateBasic, BeginBlock, fee unlock: histories;
   part 5  C04 / C03 / C02 transported to the on-store rendering;
   (after the Section) part 6  a concrete run on 20-byte addresses. *)
From Coq Require Import ZifyBool.
From MC Require Import lib.Prelude lib.AMap lib.GoSdk GeneratedEnterpriseTypes model.Bank model.Enterprise model.EnterpriseSpec
  model.Keys model.KeyPrims model.KVStore model.StoreCodecPrims model.EnterpriseKeeperPrims model.EnterpriseStoreWorld
  model.EnterpriseGenSpec GeneratedKeys GeneratedEnterpriseStore.
From MC Require GeneratedEnterpriseKeeper GeneratedEnterpriseKeeperOnStore.
From MC Require Import proofs.BankProofs proofs.EnterpriseProofs proofs.EnterpriseC03 proofs.EnterpriseC04
  proofs.GeneratedEnterpriseEq proofs.GeneratedEnterpriseBlockEq proofs.GeneratedEnterpriseMsgEq
  proofs.GeneratedEnterpriseParamsEq proofs.KVStoreFacts proofs.KVStoreFacts2Enterprise proofs.GeneratedEnterpriseStoreEq
  proofs.GeneratedEnterpriseStoreRefines.
From Coq Require Import NArith ZArith List Bool Lia Sorted Permutation.
Import ListNotations.
Local Open Scope Z_scope.

(* the two renderings, by short names; never imported *)
Module K := MC.GeneratedEnterpriseKeeper.
Module S := MC.GeneratedEnterpriseKeeperOnStore.

Lemma obind_Ok {A B} (x : A) (f : A -> outcome B) : obind (Ok x) f = f x.
Proof. reflexivity. Qed.

(* error codes of the two sides: equal, or ERR_ENT against the generated file's STORE_ERR *)
Definition ecode (e e' : Z) : Prop := e = e' \/ (e = ERR_ENT /\ e' = STORE_ERR).
Definition Erefl (E : Z -> Z -> Prop) : Prop := forall e, E e e.
Definition Eweak (E : Z -> Z -> Prop) : Prop := forall e e', ecode e e' -> E e e'.
Lemma Erefl_eq : Erefl eq. Proof. intros e. reflexivity. Qed.
Lemma Erefl_ecode : Erefl ecode. Proof. intros e. left. reflexivity. Qed.
Lemma Eweak_ecode : Eweak ecode. Proof. intros e e' H. exact H. Qed.
Lemma Eweak_refl E : Eweak E -> Erefl E. Proof. intros H e. apply H. left. reflexivity. Qed.

(* ================================================================== *)
(* part 1: the relations, gsim, binds, loops                            *)
(* ================================================================== *)

(* results agree: parametrised by the relation on worlds and the relation on error codes *)
Definition gsim {W W' : Type} (P : W -> W' -> Prop) (E : Z -> Z -> Prop) {R} (a : outcome (W * R)) (c : outcome (W' * R)) : Prop :=
  match a, c with
  | Ok (w, x), Ok (ws, y) => P w ws /\ x = y
  | Err e, Err e' => E e e'
  | Panic p, Panic p' => p = p'
  | _, _ => False
  end.

Section GSim.
  Context {W W' : Type}.
  Implicit Types (P : W -> W' -> Prop) (E : Z -> Z -> Prop).

  Lemma gsim_ret P E {R} w ws (r : R) : P w ws -> gsim P E (Ok (w, r)) (Ok (ws, r)).
  Proof. intros H. split; [exact H | reflexivity]. Qed.

  Lemma gsim_weaken P P' E E' {R} (a : outcome (W * R)) (c : outcome (W' * R)) :
    (forall w ws, P w ws -> P' w ws) -> (forall e e', E e e' -> E' e e') -> gsim P E a c -> gsim P' E' a c.
  Proof.
    intros HP HE H. destruct a as [[w r]|e|p], c as [[ws r']|e'|p']; cbn in H |- *; try contradiction.
    - destruct H as [H X]. split; [apply HP, H | exact X].
    - apply HE, H.
    - exact H.
  Qed.

  (* a state-changing call on both sides, then related continuations; Q: what is known of the abstract world the call
     leaves (a frame fact proved on the abstract side) *)
  Lemma gsim_bind_gen P1 P2 E (Q : W -> Prop) {R R'} (a : outcome (W * R)) (c : outcome (W' * R))
        (ka : W * R -> outcome (W * R')) (kc : W' * R -> outcome (W' * R')) :
    gsim P1 E a c ->
    (forall w' r, a = Ok (w', r) -> Q w') ->
    (forall w ws r, P1 w ws -> Q w -> gsim P2 E (ka (w, r)) (kc (ws, r))) ->
    gsim P2 E (obind a ka) (obind c kc).
  Proof.
    intros H HQ K. destruct a as [[w r]|e|p], c as [[ws r']|e'|p']; cbn in H |- *; try contradiction.
    - destruct H as [H X]. subst r'. apply K; [exact H | exact (HQ _ _ eq_refl)].
    - exact H.
    - exact H.
  Qed.

  Lemma gsim_bind P E {R R'} (a : outcome (W * R)) (c : outcome (W' * R))
        (ka : W * R -> outcome (W * R')) (kc : W' * R -> outcome (W' * R')) :
    gsim P E a c ->
    (forall w ws r, P w ws -> gsim P E (ka (w, r)) (kc (ws, r))) ->
    gsim P E (obind a ka) (obind c kc).
  Proof. intros H K. apply (gsim_bind_gen P P E (fun _ => True)); [exact H | intros; exact I | intros; apply K; assumption]. Qed.

  (* the same pure computation on both sides; its result is remembered *)
  Lemma gsim_bind_pure P E {A R} (p : outcome A) (ka : A -> outcome (W * R)) (kc : A -> outcome (W' * R)) :
    Erefl E -> (forall x, p = Ok x -> gsim P E (ka x) (kc x)) -> gsim P E (obind p ka) (obind p kc).
  Proof. intros HE K. destruct p as [x|e|q]; cbn; [apply K; reflexivity | apply HE | reflexivity]. Qed.

  Lemma gsim_if P E {R} (b : bool) (a1 a2 : outcome (W * R)) (c1 c2 : outcome (W' * R)) :
    (b = true -> gsim P E a1 c1) -> (b = false -> gsim P E a2 c2) -> gsim P E (if b then a1 else a2) (if b then c1 else c2).
  Proof. destruct b; auto. Qed.

  (* `if err != nil { panic(err) }` forgets the code *)
  Lemma gsim_panic_on_err P E E' {R} p (a : outcome (W * R)) (c : outcome (W' * R)) :
    gsim P E' a c -> gsim P E (panic_on_err p a) (panic_on_err p c).
  Proof.
    intros H. destruct a as [[w r]|e|q], c as [[ws r']|e'|q']; cbn in H |- *; try contradiction; try exact H. reflexivity.
  Qed.

  Lemma gsim_Ok_inv_l P E {R} (a : outcome (W * R)) (c : outcome (W' * R)) w' r :
    gsim P E a c -> a = Ok (w', r) -> exists ws', c = Ok (ws', r) /\ P w' ws'.
  Proof.
    intros H ->. destruct c as [[ws' r']|e|p]; cbn in H; try contradiction.
    destruct H as [H X]. subst r'. exists ws'. split; [reflexivity | exact H].
  Qed.

  Lemma gsim_Ok_inv P E {R} (a : outcome (W * R)) (c : outcome (W' * R)) ws' r :
    gsim P E a c -> c = Ok (ws', r) -> exists w', a = Ok (w', r) /\ P w' ws'.
  Proof.
    intros H ->. destruct a as [[w' r']|e|p]; cbn in H; try contradiction.
    destruct H as [H X]. subst r'. exists w'. split; [reflexivity | exact H].
  Qed.

  Lemma gsim_Err_inv P {R} (a : outcome (W * R)) (c : outcome (W' * R)) e : gsim P eq a c -> (a = Err e <-> c = Err e).
  Proof.
    intros H. destruct a as [[w' r']|e1|p], c as [[ws' r'']|e2|p']; cbn in H; try contradiction;
      split; intros X; try discriminate X; congruence.
  Qed.

  Lemma gsim_Panic_inv P E {R} (a : outcome (W * R)) (c : outcome (W' * R)) p : gsim P E a c -> (a = Panic p <-> c = Panic p).
  Proof.
    intros H. destruct a as [[w' r']|e1|q], c as [[ws' r'']|e2|q']; cbn in H; try contradiction;
      split; intros X; try discriminate X; congruence.
  Qed.

  (* codes up to E', and the abstract side never fails: any relation on codes *)
  Lemma gsim_noerr P E E' {R} (a : outcome (W * R)) (c : outcome (W' * R)) :
    gsim P E' a c -> (forall e, a <> Err e) -> gsim P E a c.
  Proof.
    intros H N. destruct a as [[w r]|e|p], c as [[ws r']|e'|p']; cbn in H |- *; try contradiction; try exact H.
    exfalso. exact (N e eq_refl).
  Qed.

  (* a stronger relation on worlds, established on the abstract result *)
  Lemma gsim_strengthen P E (Q : W -> Prop) {R} (a : outcome (W * R)) (c : outcome (W' * R)) :
    gsim P E a c -> (forall w' r, a = Ok (w', r) -> Q w') -> gsim (fun w ws => P w ws /\ Q w) E a c.
  Proof.
    intros H HQ. destruct a as [[w r]|e|p], c as [[ws r']|e'|p']; cbn in H |- *; try contradiction; try exact H.
    destruct H as [H X]. split; [split; [exact H | exact (HQ _ _ eq_refl)] | exact X].
  Qed.
End GSim.

(* ---- `for _, x := range xs { .. }` on both sides: related loop states, pointwise related bodies ---- *)
Definition lrel {Sa Sc Ra Rc} (I : Sa -> Sc -> Prop) (Q : Ra -> Rc -> Prop) (E : Z -> Z -> Prop)
    (a : outcome (loop_res Sa Ra)) (c : outcome (loop_res Sc Rc)) : Prop :=
  match a, c with
  | Ok (LCont s), Ok (LCont s') => I s s'
  | Ok (LRet r), Ok (LRet r') => Q r r'
  | Err e, Err e' => E e e'
  | Panic p, Panic p' => p = p'
  | _, _ => False
  end.

(* the invariant may mention what is left of the list *)
Lemma range_rel {A Sa Sc Ra Rc} (I : list A -> Sa -> Sc -> Prop) (Q : Ra -> Rc -> Prop) (E : Z -> Z -> Prop)
    (fa : A -> Sa -> outcome (loop_res Sa Ra)) (fc : A -> Sc -> outcome (loop_res Sc Rc)) :
  (forall x rest sa sc, I (x :: rest) sa sc -> lrel (I rest) Q E (fa x sa) (fc x sc)) ->
  forall l sa sc, I l sa sc -> lrel (I []) Q E (go_range fa l sa) (go_range fc l sc).
Proof.
  intros Hb l. induction l as [|x rest IH]; intros sa sc HI; [exact HI|].
  cbn [go_range]. pose proof (Hb x rest sa sc HI) as H.
  destruct (fa x sa) as [[sa'|ra]|e|p], (fc x sc) as [[sc'|rc]|e'|p']; cbn in H |- *; try contradiction; try exact H.
  apply IH. exact H.
Qed.

(* what follows a loop whose state is the world and that returns (world, value) pairs *)
Lemma gsim_after_loop {W W'} (P : W -> W' -> Prop) E {Sa Sc R} (I : Sa -> Sc -> Prop)
    (la : outcome (loop_res Sa (W * R))) (lc : outcome (loop_res Sc (W' * R)))
    (ka : Sa -> outcome (W * R)) (kc : Sc -> outcome (W' * R)) :
  lrel I (fun r r' => P (fst r) (fst r') /\ snd r = snd r') E la lc ->
  (forall sa sc, I sa sc -> gsim P E (ka sa) (kc sc)) ->
  gsim P E (do lr <- la; match lr with LRet r => Ok r | LCont s => ka s end)
           (do lr <- lc; match lr with LRet r => Ok r | LCont s => kc s end).
Proof.
  intros H K. destruct la as [[sa|[w r]]|e|p], lc as [[sc|[ws r']]|e'|p']; cbn in H |- *; try contradiction; try exact H.
  apply K, H.
Qed.

(* a state-changing call inside a loop body *)
Lemma lrel_bind_gen {W W'} (P : W -> W' -> Prop) E (Q0 : W -> Prop) {Sa Sc Ra Rc R} (I : Sa -> Sc -> Prop) (Q : Ra -> Rc -> Prop)
    (a : outcome (W * R)) (c : outcome (W' * R))
    (ka : W * R -> outcome (loop_res Sa Ra)) (kc : W' * R -> outcome (loop_res Sc Rc)) :
  gsim P E a c ->
  (forall w' r, a = Ok (w', r) -> Q0 w') ->
  (forall w ws r, P w ws -> Q0 w -> lrel I Q E (ka (w, r)) (kc (ws, r))) ->
  lrel I Q E (obind a ka) (obind c kc).
Proof.
  intros H HQ K. destruct a as [[w r]|e|p], c as [[ws r']|e'|p']; cbn in H |- *; try contradiction; try exact H.
  destruct H as [H X]. subst r'. apply K; [exact H | exact (HQ _ _ eq_refl)].
Qed.

Lemma lrel_bind {W W'} (P : W -> W' -> Prop) E {Sa Sc Ra Rc R} (I : Sa -> Sc -> Prop) (Q : Ra -> Rc -> Prop)
    (a : outcome (W * R)) (c : outcome (W' * R))
    (ka : W * R -> outcome (loop_res Sa Ra)) (kc : W' * R -> outcome (loop_res Sc Rc)) :
  gsim P E a c ->
  (forall w ws r, P w ws -> lrel I Q E (ka (w, r)) (kc (ws, r))) ->
  lrel I Q E (obind a ka) (obind c kc).
Proof. intros H K. apply (lrel_bind_gen P E (fun _ => True) I Q a c); [exact H | intros; exact Logic.I | intros; apply K; assumption]. Qed.

Lemma lrel_bind_pure E {Sa Sc Ra Rc A} (I : Sa -> Sc -> Prop) (Q : Ra -> Rc -> Prop) (p : outcome A)
    (ka : A -> outcome (loop_res Sa Ra)) (kc : A -> outcome (loop_res Sc Rc)) :
  Erefl E -> (forall x, p = Ok x -> lrel I Q E (ka x) (kc x)) -> lrel I Q E (obind p ka) (obind p kc).
Proof. intros HE K. destruct p as [x|e|q]; cbn; [apply K; reflexivity | apply HE | reflexivity]. Qed.

(* an inner loop inside a loop body *)
Lemma lrel_after_loop E {Sa Sc Ra Rc Sa2 Sc2} (I : Sa -> Sc -> Prop) (Q : Ra -> Rc -> Prop) (I2 : Sa2 -> Sc2 -> Prop)
    (la : outcome (loop_res Sa2 Ra)) (lc : outcome (loop_res Sc2 Rc))
    (ka : Sa2 -> outcome (loop_res Sa Ra)) (kc : Sc2 -> outcome (loop_res Sc Rc)) :
  lrel I2 Q E la lc ->
  (forall sa sc, I2 sa sc -> lrel I Q E (ka sa) (kc sc)) ->
  lrel I Q E (do lr <- la; match lr with LRet r => Ok (LRet r) | LCont s => ka s end)
             (do lr <- lc; match lr with LRet r => Ok (LRet r) | LCont s => kc s end).
Proof.
  intros H K. destruct la as [[sa|r]|e|p], lc as [[sc|r']|e'|p']; cbn in H |- *; try contradiction; try exact H.
  apply K, H.
Qed.

(* what the development asks of the embedding of the abstract addresses in use (dom) into address bytes: the four
   hypotheses of proofs/GeneratedEnterpriseStoreRefines.v *)
Definition emb_hyps (dom : addr -> Prop) (emb : addr -> list N) (unemb : list N -> addr) : Prop :=
  (forall a b, dom a -> dom b -> emb a = emb b -> a = b) /\
  (forall a, dom a -> unemb (emb a) = a) /\
  (forall a, dom a -> emb a <> []) /\
  (forall a, dom a -> addr_parses a = true).

(* ================================================================== *)
Section OnStore.
(* ================================================================== *)

Variable dom : addr -> Prop.
Variable emb : addr -> list N.
Variable unemb : list N -> addr.
Hypothesis Hemb : emb_hyps dom emb unemb.

Local Lemma emb_inj : forall a b, dom a -> dom b -> emb a = emb b -> a = b.
Proof. exact (proj1 Hemb). Qed.
Local Lemma unemb_emb : forall a, dom a -> unemb (emb a) = a.
Proof. exact (proj1 (proj2 Hemb)). Qed.
Local Lemma emb_nonempty : forall a, dom a -> emb a <> [].
Proof. exact (proj1 (proj2 (proj2 Hemb))). Qed.
Local Lemma dom_parses : forall a, dom a -> addr_parses a = true.
Proof. exact (proj2 (proj2 (proj2 Hemb))). Qed.

Definition Rw (w : eworld) (ws : esworld) : Prop :=
  esw_emb ws = emb /\ esw_unemb ws = unemb /\ ew_now w = esw_now ws /\ ew_bank w = esw_bank ws /\
  Rent dom emb (esw_store ws) (ew_ent w).

(* an address that is in dom whenever it parses (what a message field / a stored purchaser has to be) *)
Definition pdom (a : addr) : Prop := addr_parses a = true -> dom a.

Definition einv (st : ent_state) : Prop :=
  (forall id, In id (e_raisedq st) -> id < e_next st) /\
  (forall id o, In (id, o) (e_pos st) -> pdom (po_purchaser o)).

Definition Rwi (w : eworld) (ws : esworld) : Prop := Rw w ws /\ einv (ew_ent w).

Definition sim0 {R} := @gsim eworld esworld Rw eq R.
Definition sim {R} := @gsim eworld esworld Rwi eq R.
Definition sim0E {R} := @gsim eworld esworld Rw ecode R.
Definition simE {R} := @gsim eworld esworld Rwi ecode R.

Lemma Rwi_Rw w ws : Rwi w ws -> Rw w ws.
Proof. intros H; apply H. Qed.
Lemma Rwi_Rent w ws : Rwi w ws -> Rent dom emb (esw_store ws) (ew_ent w).
Proof. intros H; apply H. Qed.
Lemma Rwi_einv w ws : Rwi w ws -> einv (ew_ent w).
Proof. intros H; apply H. Qed.
Lemma Rw_Rent w ws : Rw w ws -> Rent dom emb (esw_store ws) (ew_ent w).
Proof. intros H; apply H. Qed.

Lemma dom_pdom a : dom a -> pdom a.
Proof. intros D _. exact D. Qed.

Lemma sim_simE {R} (a : outcome (eworld * R)) (c : outcome (esworld * R)) : sim a c -> simE a c.
Proof. apply gsim_weaken; [auto | intros e e' ->; left; reflexivity]. Qed.

Lemma gsim_Rwi_Rw E {R} (a : outcome (eworld * R)) (c : outcome (esworld * R)) : gsim Rwi E a c -> gsim Rw E a c.
Proof. apply gsim_weaken; [exact Rwi_Rw | auto]. Qed.

(* Rw + the invariant on the abstract result = Rwi *)
Lemma gsim_Rwi_of_Rw E {R} (a : outcome (eworld * R)) (c : outcome (esworld * R)) :
  gsim Rw E a c -> (forall w' r, a = Ok (w', r) -> einv (ew_ent w')) -> gsim Rwi E a c.
Proof. intros H I. exact (gsim_strengthen Rw E (fun w => einv (ew_ent w)) a c H I). Qed.

(* ================================================================== *)
(* part 2: the primitives                                               *)
(* ================================================================== *)

(* ---- the clock ---- *)
Lemma prim_now w ws : Rw w ws -> os_ew_now ws = ew_now w.
Proof. intros (_ & _ & H & _). symmetry. exact H. Qed.

(* ---- readers: the generated accessor answers Ok of the primitive ---- *)
Lemma prim_GetParamDenom w ws : Rw w ws -> os_ent_GetParamDenom ws = Ok (ent_GetParamDenom w).
Proof. intros HR. exact (GetParamDenom_refines dom emb _ w (Rw_Rent _ _ HR)). Qed.

Lemma prim_GetParams w ws : Rw w ws -> os_ent_GetParams ws = Ok (ent_GetParams w).
Proof. intros HR. exact (GetParams_refines dom emb _ w (Rw_Rent _ _ HR)). Qed.

Lemma prim_GetTotalLockedUnd w ws : Rw w ws -> os_ent_GetTotalLockedUnd ws = Ok (ent_GetTotalLockedUnd w).
Proof. intros HR. exact (GetTotalLockedUnd_refines dom emb _ w (Rw_Rent _ _ HR)). Qed.

Lemma prim_GetTotalSpentEFUND w ws : Rw w ws -> os_ent_GetTotalSpentEFUND ws = Ok (ent_GetTotalSpentEFUND w).
Proof. intros HR. exact (GetTotalSpentEFUND_refines dom emb _ w (Rw_Rent _ _ HR)). Qed.

Lemma prim_GetLockedUndForAccount w ws a : Rw w ws -> dom a ->
  os_ent_GetLockedUndForAccount ws a = Ok (ent_GetLockedUndForAccount w a).
Proof.
  intros (He & Hu & _ & _ & HR) D. unfold os_ent_GetLockedUndForAccount. rewrite He, Hu.
  exact (GetLockedUndForAccount_refines dom emb unemb unemb_emb _ w a HR D).
Qed.

Lemma prim_GetSpentEFUNDForAccount w ws a : Rw w ws -> dom a ->
  os_ent_GetSpentEFUNDForAccount ws a = Ok (ent_GetSpentEFUNDForAccount w a).
Proof.
  intros (He & Hu & _ & _ & HR) D. unfold os_ent_GetSpentEFUNDForAccount. rewrite He, Hu.
  exact (GetSpentEFUNDForAccount_refines dom emb unemb unemb_emb _ w a HR D).
Qed.

Lemma prim_GetAllRaisedPurchaseOrders w ws : Rw w ws ->
  os_ent_GetAllRaisedPurchaseOrders ws = Ok (ent_GetAllRaisedPurchaseOrders w).
Proof. intros HR. exact (GetAllRaisedPurchaseOrders_refines dom emb _ w (Rw_Rent _ _ HR)). Qed.

Lemma prim_GetAllAcceptedPurchaseOrders w ws : Rw w ws ->
  os_ent_GetAllAcceptedPurchaseOrders ws = Ok (ent_GetAllAcceptedPurchaseOrders w).
Proof. intros HR. exact (GetAllAcceptedPurchaseOrders_refines dom emb _ w (Rw_Rent _ _ HR)). Qed.

Lemma prim_GetPurchaseOrder w ws id : Rw w ws -> u64 id -> os_ent_GetPurchaseOrder ws id = Ok (ent_GetPurchaseOrder w id).
Proof. intros HR Hi. exact (GetPurchaseOrder_refines dom emb _ w id (Rw_Rent _ _ HR) Hi). Qed.

Lemma prim_PurchaseOrderExists w ws id : Rw w ws -> u64 id ->
  os_ent_PurchaseOrderExists ws id = Ok (ent_PurchaseOrderExists w id).
Proof. intros HR Hi. exact (PurchaseOrderExists_refines dom emb _ w id (Rw_Rent _ _ HR) Hi). Qed.

Lemma prim_GetHighestPurchaseOrderID w ws : Rw w ws ->
  os_ent_GetHighestPurchaseOrderID ws = ent_GetHighestPurchaseOrderID w.
Proof. intros HR. exact (GetHighestPurchaseOrderID_refines dom emb _ w (Rw_Rent _ _ HR)). Qed.

Lemma prim_AddressIsWhitelisted w ws a : Rw w ws -> dom a ->
  os_ent_AddressIsWhitelisted ws a = Ok (ent_AddressIsWhitelisted w a).
Proof.
  intros (He & _ & _ & _ & HR) D. unfold os_ent_AddressIsWhitelisted. rewrite He.
  exact (AddressIsWhitelisted_refines dom emb emb_nonempty _ w a HR D).
Qed.

(* the one adapter that is not a bare accessor: the entries of the signer list that decode to a non-empty address *)
Lemma prim_GetParamEntSignersAsAddressArray w ws : Rw w ws ->
  os_ent_GetParamEntSignersAsAddressArray ws = Ok (ent_GetParamEntSignersAsAddressArray w).
Proof.
  intros HR. unfold os_ent_GetParamEntSignersAsAddressArray.
  destruct (GetParamFields_refine dom emb _ w (Rw_Rent _ _ HR)) as (_ & _ & E). rewrite E. reflexivity.
Qed.

(* x/bank: one function on both sides *)
Lemma prim_SpendableCoins w ws a : Rw w ws -> os_bank_SpendableCoins ws a = Ok (bank_SpendableCoins w a).
Proof. intros (_ & _ & _ & Hb & _). unfold os_bank_SpendableCoins, bank_SpendableCoins. rewrite Hb. reflexivity. Qed.

(* ---- writers ---- *)

(* a store writer: the new abstract world differs from w in its module state only *)
Lemma writer_gsim (E E' : Z -> Z -> Prop) w ws (a : outcome (eworld * unit)) (c : outcome (store * unit)) :
  Rw w ws ->
  (forall x, a = Ok x -> ew_now (fst x) = ew_now w /\ ew_bank (fst x) = ew_bank w) ->
  (forall e e', E' e e' -> E e e') ->
  out_sim (Rres dom emb) E' a c -> gsim Rw E a (lift_es ws c).
Proof.
  intros (He & Hu & Hn & Hb & _) Hfr HE H.
  destruct a as [[w' []]|e|p], c as [[s' []]|e'|p']; cbn in H |- *; try contradiction; try exact H.
  - destruct (Hfr _ eq_refl) as [Hn' Hb']. cbn [fst] in Hn', Hb'.
    split; [|reflexivity]. unfold Rw. cbn [with_esstore esw_emb esw_unemb esw_now esw_bank esw_store].
    split; [exact He | split; [exact Hu | split; [congruence | split; [congruence | exact H]]]].
  - apply HE, H.
Qed.

Lemma same_code_E E : Erefl E -> forall e e', same_code e e' -> E e e'.
Proof. intros HE e e' ->. apply HE. Qed.
Lemma store_code_E E : Eweak E -> forall e e', ent_vs_store_code e e' -> E e e'.
Proof. intros HE e e' [-> ->]. apply HE. right. split; reflexivity. Qed.

Ltac wframe := let x := fresh in let H := fresh in intros x H; injection H as <-; split; reflexivity.

Lemma prim0_SetTotalLockedUnd E w ws c : Erefl E -> Rw w ws -> gsim Rw E (ent_SetTotalLockedUnd w c) (os_ent_SetTotalLockedUnd ws c).
Proof.
  intros HE HR. apply (writer_gsim E same_code w ws); [exact HR | wframe | apply same_code_E, HE |].
  exact (SetTotalLockedUnd_refines dom emb _ w c (Rw_Rent _ _ HR)).
Qed.

Lemma prim0_SetTotalSpentEFUND E w ws c : Erefl E -> Rw w ws ->
  gsim Rw E (ent_SetTotalSpentEFUND w c) (os_ent_SetTotalSpentEFUND ws c).
Proof.
  intros HE HR. apply (writer_gsim E same_code w ws); [exact HR | wframe | apply same_code_E, HE |].
  exact (SetTotalSpentEFUND_refines dom emb _ w c (Rw_Rent _ _ HR)).
Qed.

Lemma es_bech_eq ws : esw_emb ws = emb -> es_bech ws = bech emb.
Proof. intros He. unfold es_bech, bech. rewrite He. reflexivity. Qed.

(* SetLockedUndForAccount: a negative amount is ERR_ENT in the primitive, STORE_ERR in the generated accessor *)
Lemma prim0_SetLockedUndForAccount_E E w ws x : Eweak E -> Rw w ws -> dom (LockedUnd_Owner x) ->
  gsim Rw E (ent_SetLockedUndForAccount w x) (os_ent_SetLockedUndForAccount ws x).
Proof.
  intros HE HR D. unfold os_ent_SetLockedUndForAccount. rewrite (es_bech_eq ws (proj1 HR)).
  apply (writer_gsim E ent_vs_store_code w ws); [exact HR | | apply store_code_E, HE |].
  - intros y. unfold ent_SetLockedUndForAccount. destruct (snd (LockedUnd_Amount x) <? 0); [discriminate|].
    intros H; injection H as <-; split; reflexivity.
  - exact (SetLockedUndForAccount_refines dom emb emb_inj dom_parses _ w x (Rw_Rent _ _ HR) D).
Qed.

(* ... which cannot happen for a non-negative amount *)
Lemma SetLocked_noerr w x : 0 <= snd (LockedUnd_Amount x) -> forall e, ent_SetLockedUndForAccount w x <> Err e.
Proof.
  intros H e. unfold ent_SetLockedUndForAccount. destruct (Z.ltb_spec (snd (LockedUnd_Amount x)) 0); [lia | discriminate].
Qed.

Lemma prim0_SetLockedUndForAccount E w ws x : Rw w ws -> dom (LockedUnd_Owner x) -> 0 <= snd (LockedUnd_Amount x) ->
  gsim Rw E (ent_SetLockedUndForAccount w x) (os_ent_SetLockedUndForAccount ws x).
Proof.
  intros HR D H. apply (gsim_noerr Rw E ecode); [apply prim0_SetLockedUndForAccount_E; [exact Eweak_ecode | exact HR | exact D]|].
  apply SetLocked_noerr, H.
Qed.

Lemma prim0_SetSpentEFUNDForAccount E w ws x : Erefl E -> Rw w ws -> dom (SpentEFUND_Owner x) ->
  gsim Rw E (ent_SetSpentEFUNDForAccount w x) (os_ent_SetSpentEFUNDForAccount ws x).
Proof.
  intros HE HR D. unfold os_ent_SetSpentEFUNDForAccount. rewrite (es_bech_eq ws (proj1 HR)).
  apply (writer_gsim E same_code w ws); [exact HR | wframe | apply same_code_E, HE |].
  exact (SetSpentEFUNDForAccount_refines dom emb emb_inj dom_parses _ w x (Rw_Rent _ _ HR) D).
Qed.

(* SetPurchaseOrder: an invalid status is ERR_ENT in the primitive, STORE_ERR in the generated accessor *)
Lemma prim0_SetPurchaseOrder_E E w ws g : Eweak E -> Rw w ws -> u64 (EnterpriseUndPurchaseOrder_Id g) ->
  gsim Rw E (ent_SetPurchaseOrder w g) (os_ent_SetPurchaseOrder ws g).
Proof.
  intros HE HR Hi. apply (writer_gsim E ent_vs_store_code w ws); [exact HR | | apply store_code_E, HE |].
  - intros y. unfold ent_SetPurchaseOrder. destruct (negb _); [discriminate|]. intros H; injection H as <-; split; reflexivity.
  - exact (SetPurchaseOrder_refines dom emb _ w g (Rw_Rent _ _ HR) Hi).
Qed.

Lemma SetPO_noerr w g : 1 <= EnterpriseUndPurchaseOrder_Status g <= 4 -> forall e, ent_SetPurchaseOrder w g <> Err e.
Proof.
  intros H e. unfold ent_SetPurchaseOrder.
  destruct (Z.leb_spec 1 (EnterpriseUndPurchaseOrder_Status g)); [|lia].
  destruct (Z.leb_spec (EnterpriseUndPurchaseOrder_Status g) 4); [|lia]. discriminate.
Qed.

Lemma prim0_SetPurchaseOrder E w ws g : Rw w ws -> u64 (EnterpriseUndPurchaseOrder_Id g) ->
  1 <= EnterpriseUndPurchaseOrder_Status g <= 4 ->
  gsim Rw E (ent_SetPurchaseOrder w g) (os_ent_SetPurchaseOrder ws g).
Proof.
  intros HR Hi H. apply (gsim_noerr Rw E ecode); [apply prim0_SetPurchaseOrder_E; [exact Eweak_ecode | exact HR | exact Hi]|].
  apply SetPO_noerr, H.
Qed.

Lemma prim0_RemovePurchaseOrderFromRaisedQueue E w ws id : Erefl E -> Rw w ws -> u64 id ->
  gsim Rw E (ent_RemovePurchaseOrderFromRaisedQueue w id) (os_ent_RemovePurchaseOrderFromRaisedQueue ws id).
Proof.
  intros HE HR Hi. apply (writer_gsim E same_code w ws); [exact HR | wframe | apply same_code_E, HE |].
  exact (RemovePurchaseOrderFromRaisedQueue_refines dom emb _ w id (Rw_Rent _ _ HR) Hi).
Qed.

Lemma prim0_RemovePurchaseOrderFromAcceptedQueue E w ws id : Erefl E -> Rw w ws -> u64 id ->
  gsim Rw E (ent_RemovePurchaseOrderFromAcceptedQueue w id) (os_ent_RemovePurchaseOrderFromAcceptedQueue ws id).
Proof.
  intros HE HR Hi. apply (writer_gsim E same_code w ws); [exact HR | wframe | apply same_code_E, HE |].
  exact (RemovePurchaseOrderFromAcceptedQueue_refines dom emb _ w id (Rw_Rent _ _ HR) Hi).
Qed.

(* the queues: the id added is above every queued id *)
Lemma prim0_AddPoToAcceptedQueue E w ws id : Erefl E -> Rw w ws -> u64 id ->
  (forall y, In y (e_acceptedq (ew_ent w)) -> y < id) ->
  gsim Rw E (ent_AddPoToAcceptedQueue w id) (os_ent_AddPoToAcceptedQueue ws id).
Proof.
  intros HE HR Hi Hab. apply (writer_gsim E same_code w ws); [exact HR | wframe | apply same_code_E, HE |].
  exact (AddPoToAcceptedQueue_refines dom emb _ w id (Rw_Rent _ _ HR) Hi Hab).
Qed.

Lemma prim0_AddPoToRaisedQueue E w ws id : Erefl E -> Rw w ws -> u64 id ->
  (forall y, In y (e_raisedq (ew_ent w)) -> y < id) ->
  gsim Rw E (ent_AddPoToRaisedQueue w id) (os_ent_AddPoToRaisedQueue ws id).
Proof.
  intros HE HR Hi Hab. apply (writer_gsim E same_code w ws); [exact HR | wframe | apply same_code_E, HE |].
  exact (AddPoToRaisedQueue_refines dom emb _ w id (Rw_Rent _ _ HR) Hi Hab).
Qed.

Lemma prim0_SetHighestPurchaseOrderID E w ws n : Erefl E -> Rw w ws -> u64 n ->
  gsim Rw E (ent_SetHighestPurchaseOrderID w n) (os_ent_SetHighestPurchaseOrderID ws n).
Proof.
  intros HE HR Hn. apply (writer_gsim E same_code w ws); [exact HR | wframe | apply same_code_E, HE |].
  exact (SetHighestPurchaseOrderID_refines dom emb _ w n (Rw_Rent _ _ HR) Hn).
Qed.

(* the whitelist: the address added is not whitelisted yet *)
Lemma prim0_AddAddressToWhitelist E w ws a : Erefl E -> Rw w ws -> dom a -> ent_AddressIsWhitelisted w a = false ->
  gsim Rw E (ent_AddAddressToWhitelist w a) (os_ent_AddAddressToWhitelist ws a).
Proof.
  intros HE HR D Hn. unfold os_ent_AddAddressToWhitelist. rewrite (proj1 HR).
  apply (writer_gsim E same_code w ws); [exact HR | wframe | apply same_code_E, HE |].
  exact (AddAddressToWhitelist_refines dom emb emb_inj emb_nonempty _ w a (Rw_Rent _ _ HR) D Hn).
Qed.

Lemma prim0_RemoveAddressFromWhitelist E w ws a : Erefl E -> Rw w ws -> dom a ->
  gsim Rw E (ent_RemoveAddressFromWhitelist w a) (os_ent_RemoveAddressFromWhitelist ws a).
Proof.
  intros HE HR D. unfold os_ent_RemoveAddressFromWhitelist. rewrite (proj1 HR).
  apply (writer_gsim E same_code w ws); [exact HR | wframe | apply same_code_E, HE |].
  exact (RemoveAddressFromWhitelist_refines dom emb emb_inj emb_nonempty _ w a (Rw_Rent _ _ HR) D).
Qed.

(* SetParams: Params.Validate on both sides.  The fields are in range ([ent_params_range]: uint64 fields, a Go slice);
   the denomination is well-formed or blank ([denom_ok]: for a malformed non-blank one the Go code returns the error of
   sdk.ValidateDenom, 1, where the primitive answers 30) *)
Lemma prim0_SetParams E w ws p : Erefl E -> Rw w ws -> ent_params_range p -> denom_ok p ->
  gsim Rw E (ent_SetParams w p) (os_ent_SetParams ws p).
Proof.
  intros HE HR Hp Hd. apply (writer_gsim E same_code w ws); [exact HR | | apply same_code_E, HE |].
  - intros x. unfold ent_SetParams. destruct (ent_set_params (ew_ent w) (params_of_go p)); cbn [obind]; try discriminate.
    intros H; injection H as <-; split; reflexivity.
  - exact (SetParams_sim dom emb _ w p (Rw_Rent _ _ HR) Hp Hd).
Qed.

(* x/bank: the same function of the bank component on both sides *)
Lemma bank_gsim E w ws (o : outcome bank) : Erefl E -> Rw w ws ->
  gsim Rw E (do b <- o; Ok (with_ebank w b, tt)) (do b <- o; Ok (with_esbank ws b, tt)).
Proof.
  intros HE (He & Hu & Hn & Hb & HR). destruct o as [b|e|p]; cbn; [|apply HE | reflexivity].
  split; [|reflexivity]. unfold Rw. cbn. split; [exact He | split; [exact Hu | split; [exact Hn | split; [reflexivity | exact HR]]]].
Qed.

Lemma prim0_MintCoins E w ws m cs : Erefl E -> Rw w ws -> gsim Rw E (bank_MintCoins w m cs) (os_bank_MintCoins ws m cs).
Proof. intros HE HR. unfold bank_MintCoins, os_bank_MintCoins. rewrite <- (proj1 (proj2 (proj2 (proj2 HR)))). apply bank_gsim; assumption. Qed.

Lemma prim0_SendCoinsFromModuleToAccount E w ws m a cs : Erefl E -> Rw w ws ->
  gsim Rw E (bank_SendCoinsFromModuleToAccount w m a cs) (os_bank_SendCoinsFromModuleToAccount ws m a cs).
Proof.
  intros HE HR. unfold bank_SendCoinsFromModuleToAccount, os_bank_SendCoinsFromModuleToAccount.
  rewrite <- (proj1 (proj2 (proj2 (proj2 HR)))). destruct (blocked a); [apply HE | apply bank_gsim; assumption].
Qed.

Lemma prim0_DelegateCoinsFromAccountToModule E w ws a m cs : Erefl E -> Rw w ws ->
  gsim Rw E (bank_DelegateCoinsFromAccountToModule w a m cs) (os_bank_DelegateCoinsFromAccountToModule ws a m cs).
Proof.
  intros HE HR. unfold bank_DelegateCoinsFromAccountToModule, os_bank_DelegateCoinsFromAccountToModule.
  rewrite <- (proj1 (proj2 (proj2 (proj2 HR)))). apply bank_gsim; assumption.
Qed.

Lemma prim0_UndelegateCoinsFromModuleToAccount E w ws m a cs : Erefl E -> Rw w ws ->
  gsim Rw E (bank_UndelegateCoinsFromModuleToAccount w m a cs) (os_bank_UndelegateCoinsFromModuleToAccount ws m a cs).
Proof.
  intros HE HR. unfold bank_UndelegateCoinsFromModuleToAccount, os_bank_UndelegateCoinsFromModuleToAccount.
  rewrite <- (proj1 (proj2 (proj2 (proj2 HR)))). apply bank_gsim; assumption.
Qed.

(* ---- the invariant under the writers ---- *)
Lemma einv_frame st st' : einv st -> e_next st' = e_next st -> e_raisedq st' = e_raisedq st -> e_pos st' = e_pos st -> einv st'.
Proof. intros [I1 I2] En Er Ep. split; [rewrite En, Er; exact I1 | rewrite Ep; exact I2]. Qed.

Ltac einv_same I := apply (einv_frame _ _ I); reflexivity.

Lemma einv_SetTotalLockedUnd w c w' : einv (ew_ent w) -> ent_SetTotalLockedUnd w c = Ok (w', tt) -> einv (ew_ent w').
Proof. intros I [= <-]. einv_same I. Qed.
Lemma einv_SetTotalSpentEFUND w c w' : einv (ew_ent w) -> ent_SetTotalSpentEFUND w c = Ok (w', tt) -> einv (ew_ent w').
Proof. intros I [= <-]. einv_same I. Qed.
Lemma einv_SetLockedUndForAccount w x w' : einv (ew_ent w) -> ent_SetLockedUndForAccount w x = Ok (w', tt) -> einv (ew_ent w').
Proof. intros I. unfold ent_SetLockedUndForAccount. destruct (_ <? 0); [discriminate|]. intros [= <-]. einv_same I. Qed.
Lemma einv_SetSpentEFUNDForAccount w x w' : einv (ew_ent w) -> ent_SetSpentEFUNDForAccount w x = Ok (w', tt) -> einv (ew_ent w').
Proof. intros I [= <-]. einv_same I. Qed.
Lemma einv_RemoveAccepted w id w' : einv (ew_ent w) -> ent_RemovePurchaseOrderFromAcceptedQueue w id = Ok (w', tt) -> einv (ew_ent w').
Proof. intros I [= <-]. einv_same I. Qed.
Lemma einv_AddAccepted w id w' : einv (ew_ent w) -> ent_AddPoToAcceptedQueue w id = Ok (w', tt) -> einv (ew_ent w').
Proof. intros I [= <-]. einv_same I. Qed.
Lemma einv_AddWL w a w' : einv (ew_ent w) -> ent_AddAddressToWhitelist w a = Ok (w', tt) -> einv (ew_ent w').
Proof. intros I [= <-]. einv_same I. Qed.
Lemma einv_RemoveWL w a w' : einv (ew_ent w) -> ent_RemoveAddressFromWhitelist w a = Ok (w', tt) -> einv (ew_ent w').
Proof. intros I [= <-]. einv_same I. Qed.
Lemma einv_SetParams w p w' : einv (ew_ent w) -> ent_SetParams w p = Ok (w', tt) -> einv (ew_ent w').
Proof.
  intros I. unfold ent_SetParams, ent_set_params. destruct (ent_params_valid _); cbn [obind]; [|discriminate].
  intros [= <-]. einv_same I.
Qed.
Lemma einv_RemoveRaised w id w' : einv (ew_ent w) -> ent_RemovePurchaseOrderFromRaisedQueue w id = Ok (w', tt) -> einv (ew_ent w').
Proof.
  intros [I1 I2] [= <-]. split; [|exact I2]. cbn [ew_ent with_ent with_pos e_raisedq e_next].
  intros y Hy. apply In_remove_z in Hy. apply I1, Hy.
Qed.
Lemma einv_SetPurchaseOrder w g w' : einv (ew_ent w) -> pdom (EnterpriseUndPurchaseOrder_Purchaser g) ->
  ent_SetPurchaseOrder w g = Ok (w', tt) -> einv (ew_ent w').
Proof.
  intros [I1 I2] Hp. unfold ent_SetPurchaseOrder. destruct (negb _); [discriminate|]. intros [= <-].
  split; [exact I1|]. cbn [ew_ent with_ent with_pos e_pos]. intros id o Hin.
  apply aset_In in Hin. destruct Hin as [[_ ->]|Hin]; [exact Hp | exact (I2 _ _ Hin)].
Qed.
Lemma einv_AddRaised w id w' : einv (ew_ent w) -> id < e_next (ew_ent w) ->
  ent_AddPoToRaisedQueue w id = Ok (w', tt) -> einv (ew_ent w').
Proof.
  intros [I1 I2] Hid [= <-]. split; [|exact I2]. cbn [ew_ent with_ent with_pos e_raisedq e_next].
  intros y Hy. apply in_app_iff in Hy. destruct Hy as [Hy|[<-|[]]]; [exact (I1 _ Hy) | exact Hid].
Qed.
Lemma einv_SetHighest w n w' : einv (ew_ent w) -> (forall y, In y (e_raisedq (ew_ent w)) -> y < n) ->
  ent_SetHighestPurchaseOrderID w n = Ok (w', tt) -> einv (ew_ent w').
Proof. intros [I1 I2] Hn [= <-]. split; [exact Hn | exact I2]. Qed.

Lemma einv_ebank w b : einv (ew_ent w) -> einv (ew_ent (with_ebank w b)).
Proof. intros I. exact I. Qed.

(* ---- the writers, on Rwi ---- *)
Ltac lift_prim L I :=
  apply gsim_Rwi_of_Rw; [apply L; try assumption; try (apply Rwi_Rw; assumption) | intros ? [] ?; eapply I; eauto using Rwi_einv].

Lemma prim_SetTotalLockedUnd E w ws c : Erefl E -> Rwi w ws -> gsim Rwi E (ent_SetTotalLockedUnd w c) (os_ent_SetTotalLockedUnd ws c).
Proof. intros HE HR. lift_prim prim0_SetTotalLockedUnd einv_SetTotalLockedUnd. Qed.

Lemma prim_SetTotalSpentEFUND E w ws c : Erefl E -> Rwi w ws ->
  gsim Rwi E (ent_SetTotalSpentEFUND w c) (os_ent_SetTotalSpentEFUND ws c).
Proof. intros HE HR. lift_prim prim0_SetTotalSpentEFUND einv_SetTotalSpentEFUND. Qed.

Lemma prim_SetLockedUndForAccount_E E w ws x : Eweak E -> Rwi w ws -> dom (LockedUnd_Owner x) ->
  gsim Rwi E (ent_SetLockedUndForAccount w x) (os_ent_SetLockedUndForAccount ws x).
Proof. intros HE HR D. lift_prim prim0_SetLockedUndForAccount_E einv_SetLockedUndForAccount. Qed.

Lemma prim_SetLockedUndForAccount E w ws x : Rwi w ws -> dom (LockedUnd_Owner x) -> 0 <= snd (LockedUnd_Amount x) ->
  gsim Rwi E (ent_SetLockedUndForAccount w x) (os_ent_SetLockedUndForAccount ws x).
Proof. intros HR D H. lift_prim prim0_SetLockedUndForAccount einv_SetLockedUndForAccount. Qed.

Lemma prim_SetSpentEFUNDForAccount E w ws x : Erefl E -> Rwi w ws -> dom (SpentEFUND_Owner x) ->
  gsim Rwi E (ent_SetSpentEFUNDForAccount w x) (os_ent_SetSpentEFUNDForAccount ws x).
Proof. intros HE HR D. lift_prim prim0_SetSpentEFUNDForAccount einv_SetSpentEFUNDForAccount. Qed.

Lemma prim_SetPurchaseOrder_E E w ws g : Eweak E -> Rwi w ws -> u64 (EnterpriseUndPurchaseOrder_Id g) ->
  pdom (EnterpriseUndPurchaseOrder_Purchaser g) ->
  gsim Rwi E (ent_SetPurchaseOrder w g) (os_ent_SetPurchaseOrder ws g).
Proof. intros HE HR Hi Hp. lift_prim prim0_SetPurchaseOrder_E einv_SetPurchaseOrder. Qed.

Lemma prim_SetPurchaseOrder E w ws g : Rwi w ws -> u64 (EnterpriseUndPurchaseOrder_Id g) ->
  pdom (EnterpriseUndPurchaseOrder_Purchaser g) -> 1 <= EnterpriseUndPurchaseOrder_Status g <= 4 ->
  gsim Rwi E (ent_SetPurchaseOrder w g) (os_ent_SetPurchaseOrder ws g).
Proof. intros HR Hi Hp Hs. lift_prim prim0_SetPurchaseOrder einv_SetPurchaseOrder. Qed.

Lemma prim_RemovePurchaseOrderFromRaisedQueue E w ws id : Erefl E -> Rwi w ws -> u64 id ->
  gsim Rwi E (ent_RemovePurchaseOrderFromRaisedQueue w id) (os_ent_RemovePurchaseOrderFromRaisedQueue ws id).
Proof. intros HE HR Hi. lift_prim prim0_RemovePurchaseOrderFromRaisedQueue einv_RemoveRaised. Qed.

Lemma prim_RemovePurchaseOrderFromAcceptedQueue E w ws id : Erefl E -> Rwi w ws -> u64 id ->
  gsim Rwi E (ent_RemovePurchaseOrderFromAcceptedQueue w id) (os_ent_RemovePurchaseOrderFromAcceptedQueue ws id).
Proof. intros HE HR Hi. lift_prim prim0_RemovePurchaseOrderFromAcceptedQueue einv_RemoveAccepted. Qed.

Lemma prim_AddPoToAcceptedQueue E w ws id : Erefl E -> Rwi w ws -> u64 id ->
  (forall y, In y (e_acceptedq (ew_ent w)) -> y < id) ->
  gsim Rwi E (ent_AddPoToAcceptedQueue w id) (os_ent_AddPoToAcceptedQueue ws id).
Proof. intros HE HR Hi Hab. lift_prim prim0_AddPoToAcceptedQueue einv_AddAccepted. Qed.

Lemma prim_AddPoToRaisedQueue E w ws id : Erefl E -> Rwi w ws -> u64 id ->
  (forall y, In y (e_raisedq (ew_ent w)) -> y < id) -> id < e_next (ew_ent w) ->
  gsim Rwi E (ent_AddPoToRaisedQueue w id) (os_ent_AddPoToRaisedQueue ws id).
Proof. intros HE HR Hi Hab Hn. lift_prim prim0_AddPoToRaisedQueue einv_AddRaised. Qed.

Lemma prim_SetHighestPurchaseOrderID E w ws n : Erefl E -> Rwi w ws -> u64 n ->
  (forall y, In y (e_raisedq (ew_ent w)) -> y < n) ->
  gsim Rwi E (ent_SetHighestPurchaseOrderID w n) (os_ent_SetHighestPurchaseOrderID ws n).
Proof. intros HE HR Hn Hab. lift_prim prim0_SetHighestPurchaseOrderID einv_SetHighest. Qed.

Lemma prim_AddAddressToWhitelist E w ws a : Erefl E -> Rwi w ws -> dom a -> ent_AddressIsWhitelisted w a = false ->
  gsim Rwi E (ent_AddAddressToWhitelist w a) (os_ent_AddAddressToWhitelist ws a).
Proof. intros HE HR D Hn. lift_prim prim0_AddAddressToWhitelist einv_AddWL. Qed.

Lemma prim_RemoveAddressFromWhitelist E w ws a : Erefl E -> Rwi w ws -> dom a ->
  gsim Rwi E (ent_RemoveAddressFromWhitelist w a) (os_ent_RemoveAddressFromWhitelist ws a).
Proof. intros HE HR D. lift_prim prim0_RemoveAddressFromWhitelist einv_RemoveWL. Qed.

Lemma prim_SetParams E w ws p : Erefl E -> Rwi w ws -> ent_params_range p -> denom_ok p ->
  gsim Rwi E (ent_SetParams w p) (os_ent_SetParams ws p).
Proof. intros HE HR Hp Hd. lift_prim prim0_SetParams einv_SetParams. Qed.

Lemma bank_einv w (o : outcome bank) w' : einv (ew_ent w) -> (do b <- o; Ok (with_ebank w b, tt)) = Ok (w', tt) -> einv (ew_ent w').
Proof. intros I. destruct o as [b|e|p]; cbn [obind]; try discriminate. intros [= <-]. exact I. Qed.

Lemma prim_MintCoins E w ws m cs : Erefl E -> Rwi w ws -> gsim Rwi E (bank_MintCoins w m cs) (os_bank_MintCoins ws m cs).
Proof. intros HE HR. lift_prim prim0_MintCoins bank_einv. Qed.

Lemma prim_SendCoinsFromModuleToAccount E w ws m a cs : Erefl E -> Rwi w ws ->
  gsim Rwi E (bank_SendCoinsFromModuleToAccount w m a cs) (os_bank_SendCoinsFromModuleToAccount ws m a cs).
Proof.
  intros HE HR. apply gsim_Rwi_of_Rw; [apply prim0_SendCoinsFromModuleToAccount; [exact HE | apply Rwi_Rw, HR]|].
  intros w' []. unfold bank_SendCoinsFromModuleToAccount. destruct (blocked a); [discriminate|].
  apply bank_einv. exact (Rwi_einv _ _ HR).
Qed.

Lemma prim_DelegateCoinsFromAccountToModule E w ws a m cs : Erefl E -> Rwi w ws ->
  gsim Rwi E (bank_DelegateCoinsFromAccountToModule w a m cs) (os_bank_DelegateCoinsFromAccountToModule ws a m cs).
Proof. intros HE HR. lift_prim prim0_DelegateCoinsFromAccountToModule bank_einv. Qed.

Lemma prim_UndelegateCoinsFromModuleToAccount E w ws m a cs : Erefl E -> Rwi w ws ->
  gsim Rwi E (bank_UndelegateCoinsFromModuleToAccount w m a cs) (os_bank_UndelegateCoinsFromModuleToAccount ws m a cs).
Proof. intros HE HR. lift_prim prim0_UndelegateCoinsFromModuleToAccount bank_einv. Qed.

(* ================================================================== *)
(* part 3: the walk                                                     *)
(* ================================================================== *)

(* One step on a goal [gsim Rwi E A C] where A and C are the two renderings of one Go body at related worlds.  Nothing
   here names a temporary of the generated files or the nesting of their tests. *)
Ltac sred := cbv beta iota zeta; rewrite ?obind_Ok; cbv beta iota zeta.

Ltac srefl := first [ exact Erefl_eq | exact Erefl_ecode | exact Eweak_ecode | assumption | (apply Eweak_refl; assumption) ].

Lemma Coin_Sub_nonneg a b x : Coin_Sub a b = Ok x -> 0 <= snd x.
Proof.
  unfold Coin_Sub. destruct (negb _); [discriminate|]. destruct (Z.ltb_spec (snd a - snd b) 0); [discriminate|].
  intros [= <-]. exact H.
Qed.
Lemma NewCoin_nonneg d a x : sdk_NewCoin d a = Ok x -> 0 <= snd x.
Proof. unfold sdk_NewCoin. destruct (Z.ltb_spec a 0); [discriminate|]. intros [= <-]. exact H. Qed.

(* an error leaf: the same code on both sides *)
Ltac serr :=
  cbn [gsim lrel];
  first [ reflexivity | (left; reflexivity)
        | match goal with
          | H : Erefl ?E |- ?E _ _ => apply H
          | H : Eweak ?E |- ?E _ _ => apply (Eweak_refl _ H)
          end ].

(* side conditions *)
Ltac sside :=
  first
  [ assumption
  | srefl
  | (eapply Coin_Sub_nonneg; eassumption)
  | (eapply NewCoin_nonneg; eassumption)
  | (cbn [LockedUnd_Owner LockedUnd_Amount set_LockedUnd_Amount SpentEFUND_Owner SpentEFUND_Amount set_SpentEFUND_Amount
          ent_GetLockedUndForAccount ent_GetSpentEFUNDForAccount
          EnterpriseUndPurchaseOrder_Id EnterpriseUndPurchaseOrder_Purchaser EnterpriseUndPurchaseOrder_Status
          set_EnterpriseUndPurchaseOrder_Id set_EnterpriseUndPurchaseOrder_Status set_EnterpriseUndPurchaseOrder_RaiseTime
          set_EnterpriseUndPurchaseOrder_CompletionTime set_EnterpriseUndPurchaseOrder_Decisions fst snd] in *;
     first [ assumption | (eapply Coin_Sub_nonneg; eassumption) | (eapply NewCoin_nonneg; eassumption)
           | (unfold enterprise_StatusCompleted, enterprise_StatusRejected, enterprise_StatusAccepted, enterprise_StatusRaised; lia) ]) ].

(* the store-side readers answer Ok of the abstract reader *)
Ltac sread :=
  match goal with
  | HR : Rwi ?w ?ws |- context [os_ent_GetParamDenom ?ws] =>
      rewrite (prim_GetParamDenom w ws (Rwi_Rw _ _ HR)); rewrite ?obind_Ok
  | HR : Rwi ?w ?ws |- context [os_ent_GetParams ?ws] =>
      rewrite (prim_GetParams w ws (Rwi_Rw _ _ HR)); rewrite ?obind_Ok
  | HR : Rwi ?w ?ws |- context [os_ent_GetTotalLockedUnd ?ws] =>
      rewrite (prim_GetTotalLockedUnd w ws (Rwi_Rw _ _ HR)); rewrite ?obind_Ok
  | HR : Rwi ?w ?ws |- context [os_ent_GetTotalSpentEFUND ?ws] =>
      rewrite (prim_GetTotalSpentEFUND w ws (Rwi_Rw _ _ HR)); rewrite ?obind_Ok
  | HR : Rwi ?w ?ws |- context [os_ent_GetLockedUndForAccount ?ws ?a] =>
      rewrite (prim_GetLockedUndForAccount w ws a (Rwi_Rw _ _ HR)) by sside; rewrite ?obind_Ok
  | HR : Rwi ?w ?ws |- context [os_ent_GetSpentEFUNDForAccount ?ws ?a] =>
      rewrite (prim_GetSpentEFUNDForAccount w ws a (Rwi_Rw _ _ HR)) by sside; rewrite ?obind_Ok
  | HR : Rwi ?w ?ws |- context [os_ent_GetAllRaisedPurchaseOrders ?ws] =>
      rewrite (prim_GetAllRaisedPurchaseOrders w ws (Rwi_Rw _ _ HR)); rewrite ?obind_Ok
  | HR : Rwi ?w ?ws |- context [os_ent_GetAllAcceptedPurchaseOrders ?ws] =>
      rewrite (prim_GetAllAcceptedPurchaseOrders w ws (Rwi_Rw _ _ HR)); rewrite ?obind_Ok
  | HR : Rwi ?w ?ws |- context [os_ent_GetPurchaseOrder ?ws ?id] =>
      rewrite (prim_GetPurchaseOrder w ws id (Rwi_Rw _ _ HR)) by sside; rewrite ?obind_Ok
  | HR : Rwi ?w ?ws |- context [os_ent_PurchaseOrderExists ?ws ?id] =>
      rewrite (prim_PurchaseOrderExists w ws id (Rwi_Rw _ _ HR)) by sside; rewrite ?obind_Ok
  | HR : Rwi ?w ?ws |- context [os_ent_GetHighestPurchaseOrderID ?ws] =>
      rewrite (prim_GetHighestPurchaseOrderID w ws (Rwi_Rw _ _ HR)); unfold ent_GetHighestPurchaseOrderID; rewrite ?obind_Ok
  | HR : Rwi ?w ?ws |- context [os_ent_AddressIsWhitelisted ?ws ?a] =>
      rewrite (prim_AddressIsWhitelisted w ws a (Rwi_Rw _ _ HR)) by sside; rewrite ?obind_Ok
  | HR : Rwi ?w ?ws |- context [os_ent_GetParamEntSignersAsAddressArray ?ws] =>
      rewrite (prim_GetParamEntSignersAsAddressArray w ws (Rwi_Rw _ _ HR)); rewrite ?obind_Ok
  | HR : Rwi ?w ?ws |- context [os_bank_SpendableCoins ?ws ?a] =>
      rewrite (prim_SpendableCoins w ws a (Rwi_Rw _ _ HR)); rewrite ?obind_Ok
  | HR : Rwi ?w ?ws |- context [os_ew_now ?ws] =>
      rewrite (prim_now w ws (Rwi_Rw _ _ HR))
  end.

(* the writers; a side condition that [sside] does not solve is left as a goal *)
Ltac sprim :=
  first
  [ apply prim_SetTotalLockedUnd | apply prim_SetTotalSpentEFUND
  | (apply prim_SetLockedUndForAccount_E; [first [exact Eweak_ecode | assumption] | |]) | apply prim_SetLockedUndForAccount
  | apply prim_SetSpentEFUNDForAccount
  | (apply prim_SetPurchaseOrder_E; [first [exact Eweak_ecode | assumption] | | |]) | apply prim_SetPurchaseOrder
  | apply prim_RemovePurchaseOrderFromRaisedQueue | apply prim_RemovePurchaseOrderFromAcceptedQueue
  | apply prim_AddPoToAcceptedQueue | apply prim_AddPoToRaisedQueue | apply prim_SetHighestPurchaseOrderID
  | apply prim_AddAddressToWhitelist | apply prim_RemoveAddressFromWhitelist | apply prim_SetParams
  | apply prim_MintCoins | apply prim_SendCoinsFromModuleToAccount | apply prim_DelegateCoinsFromAccountToModule
  | apply prim_UndelegateCoinsFromModuleToAccount ]; try sside.

(* [scall]: a call of an already treated function (re-bound below, after each function) *)
Ltac scall := fail.

Ltac sstep :=
  first
  [ progress sread
  | match goal with
    | |- gsim _ _ (match ?x with pair _ _ => _ end) _ => destruct x eqn:?
    | |- context [match ?v with pair _ _ => _ end] => is_var v; destruct v
    end
  | match goal with
    | |- gsim _ _ (Err _) (Err _) => serr
    | |- gsim _ _ (Panic _) (Panic _) => reflexivity
    | |- gsim _ _ (Ok (_, _)) (Ok (_, _)) => apply gsim_ret; assumption
    | |- gsim _ _ (if ?b then _ else _) (if ?b then _ else _) => destruct b eqn:?
    | |- gsim _ _ (obind _ _) (obind _ _) =>
        first [ (apply gsim_bind_pure; [srefl | intros ? ?])
              | (apply gsim_bind; [ first [ sprim | scall ] | intros ? ? ? ? ]) ]
    end ].

Ltac swalk := sred; repeat (sstep; sred).

(* ---- locked.go ---- *)

Theorem sim_sendCoinsFromModuleToAccount E w ws a cs : Erefl E -> Rwi w ws ->
  gsim Rwi E (K.go_sendCoinsFromModuleToAccount w a cs) (S.go_sendCoinsFromModuleToAccount ws a cs).
Proof. intros HE HR. unfold K.go_sendCoinsFromModuleToAccount, S.go_sendCoinsFromModuleToAccount. swalk. Qed.

Theorem sim_incrementSpentEFUND E w ws a c : Erefl E -> Rwi w ws -> dom a ->
  gsim Rwi E (K.go_incrementSpentEFUND w a c) (S.go_incrementSpentEFUND ws a c).
Proof. intros HE HR D. unfold K.go_incrementSpentEFUND, S.go_incrementSpentEFUND. swalk. Qed.

(* incrementLockedUnd: the codes differ when the new amount is negative (SetLockedUndForAccount) *)
Theorem simE_incrementLockedUnd E w ws a c : Eweak E -> Rwi w ws -> dom a ->
  gsim Rwi E (K.go_incrementLockedUnd w a c) (S.go_incrementLockedUnd ws a c).
Proof.
  intros HE HR D. unfold K.go_incrementLockedUnd, S.go_incrementLockedUnd. swalk.
Qed.

(* decrementLockedUnd never hands a negative amount to SetLockedUndForAccount: equal codes *)
Theorem sim_decrementLockedUnd E w ws a c : Erefl E -> Rwi w ws -> dom a ->
  gsim Rwi E (K.go_decrementLockedUnd w a c) (S.go_decrementLockedUnd ws a c).
Proof. intros HE HR D. unfold K.go_decrementLockedUnd, S.go_decrementLockedUnd. swalk. Qed.

Ltac scall ::=
  first [ apply sim_sendCoinsFromModuleToAccount | apply sim_incrementSpentEFUND | apply simE_incrementLockedUnd
        | apply sim_decrementLockedUnd ]; try sside.

Theorem simE_MintCoinsAndLock E w ws a c : Eweak E -> Rwi w ws -> dom a ->
  gsim Rwi E (K.go_MintCoinsAndLock w a c) (S.go_MintCoinsAndLock ws a c).
Proof. intros HE HR D. unfold K.go_MintCoinsAndLock, S.go_MintCoinsAndLock. swalk. Qed.

Theorem sim_UnlockCoinsForFees E w ws a fees : Erefl E -> Rwi w ws -> dom a ->
  gsim Rwi E (K.go_UnlockCoinsForFees w a fees) (S.go_UnlockCoinsForFees ws a fees).
Proof. intros HE HR D. unfold K.go_UnlockCoinsForFees, S.go_UnlockCoinsForFees. swalk. Qed.

Ltac scall ::=
  first [ apply sim_sendCoinsFromModuleToAccount | apply sim_incrementSpentEFUND | apply simE_incrementLockedUnd
        | apply sim_decrementLockedUnd | apply simE_MintCoinsAndLock | apply sim_UnlockCoinsForFees ]; try sside.

(* ---- blocker.go ---- *)

(* what a stored purchase order looks like: filed under a uint64 id, its purchaser in dom if it parses *)
Lemma getpo_facts w ws id po found : Rwi w ws -> ent_GetPurchaseOrder w id = (po, found) ->
  u64 (EnterpriseUndPurchaseOrder_Id po) /\ pdom (EnterpriseUndPurchaseOrder_Purchaser po).
Proof.
  intros HR. unfold ent_GetPurchaseOrder. destruct (aget id (e_pos (ew_ent w))) as [o|] eqn:G; intros [= <- <-].
  - apply aget_In in G. destruct (R_pos_ids _ _ _ _ (Rwi_Rent _ _ HR) id o G) as [Hu Hid].
    cbn [to_go_po EnterpriseUndPurchaseOrder_Id EnterpriseUndPurchaseOrder_Purchaser]. rewrite Hid.
    split; [exact Hu | exact (proj2 (Rwi_einv _ _ HR) id o G)].
  - cbn. split; [lia | intros X; discriminate X].
Qed.

Lemma parse_dom a x : pdom a -> ent_AccAddressFromBech32 a = Ok x -> dom x.
Proof. unfold ent_AccAddressFromBech32. intros P. destruct (addr_parses a) eqn:A; [|discriminate]. intros [= <-]. exact (P A). Qed.
Lemma parse_dom_panic p a x : pdom a -> panic_on_err p (ent_AccAddressFromBech32 a) = Ok x -> dom x.
Proof.
  unfold ent_AccAddressFromBech32. intros P. destruct (addr_parses a) eqn:A; cbn [panic_on_err]; [|discriminate].
  intros [= <-]. exact (P A).
Qed.

Ltac sside ::=
  first
  [ assumption
  | srefl
  | (eapply Coin_Sub_nonneg; eassumption)
  | (eapply NewCoin_nonneg; eassumption)
  | (eapply parse_dom_panic; [|eassumption]; sside)
  | (eapply parse_dom; [|eassumption]; sside)
  | (cbn [LockedUnd_Owner LockedUnd_Amount set_LockedUnd_Amount SpentEFUND_Owner SpentEFUND_Amount set_SpentEFUND_Amount
          ent_GetLockedUndForAccount ent_GetSpentEFUNDForAccount
          EnterpriseUndPurchaseOrder_Id EnterpriseUndPurchaseOrder_Purchaser EnterpriseUndPurchaseOrder_Status
          set_EnterpriseUndPurchaseOrder_Id set_EnterpriseUndPurchaseOrder_Status set_EnterpriseUndPurchaseOrder_RaiseTime
          set_EnterpriseUndPurchaseOrder_CompletionTime set_EnterpriseUndPurchaseOrder_Decisions fst snd] in *;
     first [ assumption | (eapply Coin_Sub_nonneg; eassumption) | (eapply NewCoin_nonneg; eassumption)
           | (eapply parse_dom_panic; [|eassumption]; assumption)
           | (eapply parse_dom; [|eassumption]; assumption)
           | (unfold enterprise_StatusCompleted, enterprise_StatusRejected, enterprise_StatusAccepted, enterprise_StatusRaised; lia) ]) ].

(* one step on a goal [lrel I Q E A C]: the body of a loop *)
Ltac lcall := first [ (apply gsim_panic_on_err with (E' := ecode); first [ sprim | scall ]) | sprim | scall ].

Ltac lstep :=
  first
  [ progress sread
  | match goal with
    | |- lrel _ _ _ (match ?x with pair _ _ => _ end) _ => destruct x eqn:?
    | |- context [match ?v with pair _ _ => _ end] => is_var v; destruct v
    end
  | match goal with
    | |- lrel _ _ _ (Err _) (Err _) => serr
    | |- lrel _ _ _ (Panic _) (Panic _) => reflexivity
    | |- lrel _ _ _ (if ?b then _ else _) (if ?b then _ else _) => destruct b eqn:?
    | |- lrel _ _ _ (obind _ _) (obind _ _) =>
        first [ (apply lrel_bind_pure; [srefl | intros ? ?])
              | (apply (lrel_bind Rwi); [ lcall | intros ? ? ? ? ]) ]
    end ].

Ltac lwalk := sred; repeat (lstep; sred).

Definition ret_rel {R} (r : eworld * R) (r' : esworld * R) : Prop := Rwi (fst r) (fst r') /\ snd r = snd r'.

Theorem sim_ProcessAcceptedPurchaseOrders E w ws : Erefl E -> Rwi w ws ->
  gsim Rwi E (K.go_ProcessAcceptedPurchaseOrders w) (S.go_ProcessAcceptedPurchaseOrders ws).
Proof.
  intros HE HR. unfold K.go_ProcessAcceptedPurchaseOrders, S.go_ProcessAcceptedPurchaseOrders. sread. sred.
  pose proof (R_accepted_ids _ _ _ _ (Rwi_Rent _ _ HR)) as Hids. unfold ent_GetAllAcceptedPurchaseOrders.
  apply (gsim_after_loop Rwi E (fun w ws => Rwi w ws /\ forall id, In id [] -> u64 id)); [|intros sa sc [H _]; apply gsim_ret, H].
  apply (range_rel (fun rest w ws => Rwi w ws /\ forall id, In id rest -> u64 id) ret_rel E); [|split; [exact HR | exact Hids]].
  clear w ws HR Hids. intros poId rest w ws [HR Hids]. sred.
  assert (Hp : u64 poId) by (apply Hids; left; reflexivity).
  assert (Hr : forall id, In id rest -> u64 id) by (intros id Hin; apply Hids; right; exact Hin).
  sread. sred. destruct (ent_GetPurchaseOrder w poId) as [po found] eqn:G.
  destruct (getpo_facts _ _ _ _ _ HR G) as [Hu Hd]. lwalk.
  cbn [lrel]. split; assumption.
Qed.

(* TallyPurchaseOrderDecisions appends the orders it accepts to the accepted queue, in the order of the raised queue
   (ascending): the byte store follows when every id already in the accepted queue is below every raised id - in
   particular when the accepted queue is empty, as ProcessAcceptedPurchaseOrders leaves it *)
Definition tally_pre (st : ent_state) : Prop := forall a r, In a (e_acceptedq st) -> In r (e_raisedq st) -> a < r.

Lemma accq_SetPO p w g w' u : panic_on_err p (ent_SetPurchaseOrder w g) = Ok (w', u) ->
  e_acceptedq (ew_ent w') = e_acceptedq (ew_ent w).
Proof. unfold ent_SetPurchaseOrder. destruct (negb _); cbn [panic_on_err]; [discriminate|]. intros [= <- _]. reflexivity. Qed.
Lemma accq_RemoveRaised w id w' u : ent_RemovePurchaseOrderFromRaisedQueue w id = Ok (w', u) ->
  e_acceptedq (ew_ent w') = e_acceptedq (ew_ent w).
Proof. intros [= <- _]. reflexivity. Qed.
Lemma accq_AddAccepted w id w' u : ent_AddPoToAcceptedQueue w id = Ok (w', u) ->
  e_acceptedq (ew_ent w') = e_acceptedq (ew_ent w) ++ [id].
Proof. intros [= <- _]. reflexivity. Qed.

(* related worlds whose accepted queue is that of w1 *)
Definition RwiF (w1 : eworld) (w : eworld) (ws : esworld) : Prop := Rwi w ws /\ e_acceptedq (ew_ent w) = e_acceptedq (ew_ent w1).

Lemma gsim_frame {R} E (w1 w' : eworld) (a : outcome (eworld * R)) (c : outcome (esworld * R)) :
  gsim Rwi E a c -> (forall w'' r, a = Ok (w'', r) -> e_acceptedq (ew_ent w'') = e_acceptedq (ew_ent w')) ->
  e_acceptedq (ew_ent w') = e_acceptedq (ew_ent w1) -> gsim (RwiF w1) E a c.
Proof.
  intros H F F1. apply (gsim_strengthen Rwi E (fun w => e_acceptedq (ew_ent w) = e_acceptedq (ew_ent w1))); [exact H|].
  intros w'' r X. rewrite (F _ _ X). exact F1.
Qed.

Definition tally_inv (rest : list Z) (w : eworld) (ws : esworld) : Prop :=
  Rwi w ws /\ (forall id, In id rest -> u64 id) /\ StronglySorted Z.lt rest /\
  (forall a r, In a (e_acceptedq (ew_ent w)) -> In r rest -> a < r).

Theorem sim_TallyPurchaseOrderDecisions E w ws : Erefl E -> Rwi w ws -> tally_pre (ew_ent w) ->
  gsim Rwi E (K.go_TallyPurchaseOrderDecisions w) (S.go_TallyPurchaseOrderDecisions ws).
Proof.
  intros HE HR Hpre. unfold K.go_TallyPurchaseOrderDecisions, S.go_TallyPurchaseOrderDecisions. repeat sread. sred.
  unfold ent_GetAllRaisedPurchaseOrders.
  apply (gsim_after_loop Rwi E (tally_inv [])); [|intros sa sc [H _]; apply gsim_ret, H].
  apply (range_rel tally_inv ret_rel E).
  2:{ split; [exact HR|]. split; [exact (R_raised_ids _ _ _ _ (Rwi_Rent _ _ HR))|].
      split; [exact (R_raised_asc _ _ _ _ (Rwi_Rent _ _ HR)) | exact Hpre]. }
  set (P := ent_GetParams w). set (now := ew_now w). clearbody P now. clear w ws HR Hpre.
  intros poId rest w ws (HR & Hids & Hsort & Hlt). sred.
  assert (Hp : u64 poId) by (apply Hids; left; reflexivity).
  assert (Hr : forall id, In id rest -> u64 id) by (intros id Hin; apply Hids; right; exact Hin).
  inversion Hsort as [|? ? Hsort' Hall]; subst.
  assert (Hlt' : forall a r, In a (e_acceptedq (ew_ent w)) -> In r rest -> a < r)
    by (intros a r Ha Hin; apply Hlt; [exact Ha | right; exact Hin]).
  assert (Hlp : forall a, In a (e_acceptedq (ew_ent w)) -> a < poId)
    by (intros a Ha; apply Hlt; [exact Ha | left; reflexivity]).
  sread. sred. destruct (ent_GetPurchaseOrder w poId) as [po found] eqn:G.
  destruct (getpo_facts _ _ _ _ _ HR G) as [Hu Hd].
  destruct (negb found); [reflexivity|]. destruct (negb _); [reflexivity|].
  apply (lrel_after_loop E (tally_inv rest) ret_rel
           (fun sa sc => exists a r, sa = (w, a, r) /\ sc = (ws, a, r))).
  - apply (range_rel (fun _ sa sc => exists a r, sa = (w, a, r) /\ sc = (ws, a, r)) ret_rel E);
      [|exists 0, 0; split; reflexivity].
    intros d ds sa sc (a & r & -> & ->). sred.
    repeat match goal with |- context [if ?b then _ else _] => destruct b end; cbn [lrel]; eauto.
  - intros sa sc (a & r & -> & ->). sred.
    (* SetPurchaseOrder, RemovePurchaseOrderFromRaisedQueue: the accepted queue is left alone *)
    assert (Close : forall st,
      lrel (tally_inv rest) (@ret_rel unit) E
        (do (w0, _) <- panic_on_err enterprise_PANIC
             (ent_SetPurchaseOrder w (set_EnterpriseUndPurchaseOrder_CompletionTime (set_EnterpriseUndPurchaseOrder_Status po st)
                                        (go_uint64_of_int64 (Time_Unix now))));
         do (w1, _) <- ent_RemovePurchaseOrderFromRaisedQueue w0 poId; Ok (LCont w1))
        (do (w0, _) <- panic_on_err enterprise_PANIC
             (os_ent_SetPurchaseOrder ws (set_EnterpriseUndPurchaseOrder_CompletionTime (set_EnterpriseUndPurchaseOrder_Status po st)
                                            (go_uint64_of_int64 (Time_Unix now))));
         do (w1, _) <- os_ent_RemovePurchaseOrderFromRaisedQueue w0 poId; Ok (LCont w1))).
    { intros st.
      apply (lrel_bind (RwiF w)); [apply (gsim_frame E w w); [lcall | apply accq_SetPO | reflexivity]|].
      intros w2 ws2 [] [HR2 F2]. sred.
      apply (lrel_bind (RwiF w)); [apply (gsim_frame E w w2); [lcall | apply accq_RemoveRaised | exact F2]|].
      intros w3 ws3 [] [HR3 F3]. sred. cbn [lrel].
      split; [exact HR3|]. split; [exact Hr|]. split; [exact Hsort'|]. rewrite F3. exact Hlt'. }
    destruct (_ && _); [apply Close|]. destruct (_ <? _); [apply Close|]. destruct (_ <=? _).
    + apply (lrel_bind (RwiF w)); [apply (gsim_frame E w w); [lcall | apply accq_SetPO | reflexivity]|].
      intros w2 ws2 [] [HR2 F2]. sred.
      apply (lrel_bind (RwiF w)); [apply (gsim_frame E w w2); [lcall | apply accq_RemoveRaised | exact F2]|].
      intros w3 ws3 [] [HR3 F3]. sred.
      apply (lrel_bind_gen Rwi E (fun w4 => e_acceptedq (ew_ent w4) = e_acceptedq (ew_ent w3) ++ [poId])).
      * apply prim_AddPoToAcceptedQueue; [exact HE | exact HR3 | exact Hp | rewrite F3; exact Hlp].
      * intros w4 u. apply accq_AddAccepted.
      * intros w4 ws4 [] HR4 F4. sred. cbn [lrel].
        split; [exact HR4|]. split; [exact Hr|]. split; [exact Hsort'|]. rewrite F4, F3.
        intros x y Hx Hy. apply in_app_iff in Hx. destruct Hx as [Hx|[<-|[]]]; [exact (Hlt' _ _ Hx Hy)|].
        rewrite Forall_forall in Hall. exact (Hall _ Hy).
    + cbn [lrel]. split; [exact HR|]. split; [exact Hr|]. split; [exact Hsort' | exact Hlt'].
Qed.

(* ---- the begin blocker: ProcessAcceptedPurchaseOrders, then TallyPurchaseOrderDecisions ---- *)

(* ProcessAcceptedPurchaseOrders empties the accepted queue (on the abstract side; through the model's process_accepted) *)
Lemma mint_and_lock_accq b s a c b' s' : mint_and_lock b s a c = Ok (b', s') -> e_acceptedq s' = e_acceptedq s.
Proof.
  unfold mint_and_lock. destruct (snd c =? 0); [intros [= <- <-]; reflexivity|].
  destruct (bank_mint b ENT_MACC (fst c) (snd c)) as [b1| |]; cbn [obind]; try discriminate.
  destruct (bank_send_m2a b1 ENT_MACC a (fst c) (snd c)) as [b2| |]; cbn [obind]; try discriminate.
  destruct (bank_send b2 a ENT_MACC (fst c) (snd c)) as [b3| |]; cbn [obind]; try discriminate.
  unfold increment_locked.
  destruct (coin_add (locked_coin s a) c) as [l| |]; cbn [obind]; try discriminate.
  destruct (snd l <? 0); try discriminate.
  destruct (coin_add (total_locked s) c) as [t| |]; cbn [obind]; try discriminate.
  intros [= <- <-]. reflexivity.
Qed.

Lemma process_accepted_accq ids : forall b s b' s', process_accepted ids b s = Ok (b', s') ->
  e_acceptedq s' = fold_left (fun q id => remove_z id q) ids (e_acceptedq s).
Proof.
  induction ids as [|id r IH]; intros b s b' s' H; [injection H as <- <-; reflexivity|].
  cbn [process_accepted] in H. destruct (aget id (e_pos s)) as [o|]; [|discriminate].
  destruct (negb (po_status o =? ST_ACCEPTED)); [discriminate|]. cbv zeta in H.
  destruct (negb (addr_parses (po_purchaser o))); [discriminate|].
  destruct (mint_and_lock _ _ _ _) as [[b2 s2]| |] eqn:M; try discriminate.
  apply IH in H. rewrite H. cbn [with_pos e_acceptedq fold_left]. rewrite (mint_and_lock_accq _ _ _ _ _ _ M). reflexivity.
Qed.

Lemma fold_remove_all l : forall q, (forall x, In x q -> In x l) -> fold_left (fun q id => remove_z id q) l q = [].
Proof.
  induction l as [|a l IH]; intros q H; cbn [fold_left].
  - destruct q as [|x q]; [reflexivity | destruct (H x (or_introl eq_refl))].
  - apply IH. intros x Hx. apply In_remove_z in Hx. destruct Hx as [Hx Hne].
    destruct (H x Hx) as [E|Hin]; [congruence | exact Hin].
Qed.

Lemma Rent_pos_keyed s st : Rent dom emb s st -> pos_keyed st.
Proof. intros HR id o G. apply aget_In in G. exact (proj2 (R_pos_ids _ _ _ _ HR id o G)). Qed.

Lemma ProcessAccepted_empties w ws w' u : Rw w ws -> K.go_ProcessAcceptedPurchaseOrders w = Ok (w', u) ->
  e_acceptedq (ew_ent w') = [].
Proof.
  intros HR. rewrite (gen_ent_ProcessAcceptedPurchaseOrders_eq w (Rent_pos_keyed _ _ (Rw_Rent _ _ HR))).
  destruct (process_accepted _ _ _) as [[b s]| |] eqn:PA; cbn [eblift]; try discriminate. intros [= <- _]. cbn [ew_ent].
  rewrite (process_accepted_accq _ _ _ _ _ PA). apply fold_remove_all. intros x Hx. exact Hx.
Qed.

(* the begin blocker of the on-store rendering, as [go_ent_begin_block] of model/EnterpriseGenSpec.v for rendering (1) *)
Definition os_ent_begin_block (ws : esworld) : outcome (esworld * unit) :=
  do (w1, _) <- S.go_ProcessAcceptedPurchaseOrders ws; S.go_TallyPurchaseOrderDecisions w1.

Theorem sim_begin_block E w ws : Erefl E -> Rwi w ws -> gsim Rwi E (go_ent_begin_block w) (os_ent_begin_block ws).
Proof.
  intros HE HR. unfold go_ent_begin_block, os_ent_begin_block.
  apply (gsim_bind_gen Rwi Rwi E (fun w1 => e_acceptedq (ew_ent w1) = [])).
  - apply sim_ProcessAcceptedPurchaseOrders; assumption.
  - intros w1 u. exact (ProcessAccepted_empties w ws w1 u (Rwi_Rw _ _ HR)).
  - intros w1 ws1 [] HR1 F. apply sim_TallyPurchaseOrderDecisions; [exact HE | exact HR1|].
    intros a r Ha. rewrite F in Ha. destruct Ha.
Qed.

(* ---- purchase.go, whitelist.go ---- *)

Lemma raisedq_SetPO w g w' u : ent_SetPurchaseOrder w g = Ok (w', u) -> e_raisedq (ew_ent w') = e_raisedq (ew_ent w).
Proof. unfold ent_SetPurchaseOrder. destruct (negb _); [discriminate|]. intros [= <- _]. reflexivity. Qed.

Lemma wrap64_range x : u64 (wrap64 x).
Proof. unfold wrap64. change (2 ^ 64) with two64. apply Z.mod_pos_bound. reflexivity. Qed.

(* RaiseNewPurchaseOrder: the counter value is queued; the counter is not the last uint64 (then it wraps to 0 and the
   next order would be queued BELOW the raised ones) *)
Lemma RaiseNew_einv w po w' id : einv (ew_ent w) -> pdom (EnterpriseUndPurchaseOrder_Purchaser po) ->
  0 <= e_next (ew_ent w) < 2 ^ 64 - 1 ->
  K.go_RaiseNewPurchaseOrder w po = Ok (w', id) -> einv (ew_ent w').
Proof.
  intros [I1 I2] Hp Hn. unfold K.go_RaiseNewPurchaseOrder, ent_GetHighestPurchaseOrderID. rewrite obind_Ok. cbv beta zeta.
  unfold ent_SetPurchaseOrder at 1. cbn [EnterpriseUndPurchaseOrder_Status set_EnterpriseUndPurchaseOrder_Status
    set_EnterpriseUndPurchaseOrder_RaiseTime]. change (negb _) with false at 1. cbv iota. rewrite obind_Ok. cbv beta iota.
  unfold ent_AddPoToRaisedQueue at 1. cbv zeta. rewrite obind_Ok. cbv beta iota.
  unfold ent_SetHighestPurchaseOrderID at 1. rewrite obind_Ok. cbv beta iota. intros [= <- _].
  split; cbn [ew_ent with_ent with_next with_pos e_next e_raisedq e_pos].
  - intros y Hy. rewrite u64_add_small by (change two64 with (2 ^ 64); lia).
    apply in_app_iff in Hy. destruct Hy as [Hy|[<-|[]]]; [pose proof (I1 _ Hy); lia | lia].
  - intros i o Hin. apply aset_In in Hin. destruct Hin as [[_ ->]|Hin]; [exact Hp | exact (I2 _ _ Hin)].
Qed.

Theorem sim_RaiseNewPurchaseOrder E w ws po : Erefl E -> Rwi w ws -> pdom (EnterpriseUndPurchaseOrder_Purchaser po) ->
  e_next (ew_ent w) < 2 ^ 64 - 1 ->
  gsim Rwi E (K.go_RaiseNewPurchaseOrder w po) (S.go_RaiseNewPurchaseOrder ws po).
Proof.
  intros HE HR Hp Hn. pose proof (R_next _ _ _ _ (Rwi_Rent _ _ HR)) as Hu. apply gsim_Rwi_of_Rw.
  2:{ intros w' r. apply RaiseNew_einv; [exact (Rwi_einv _ _ HR) | exact Hp | lia]. }
  unfold K.go_RaiseNewPurchaseOrder, S.go_RaiseNewPurchaseOrder. repeat sread. unfold ent_GetHighestPurchaseOrderID. sred.
  apply (gsim_bind_gen Rw Rw E (fun w1 => e_raisedq (ew_ent w1) = e_raisedq (ew_ent w))).
  - apply prim0_SetPurchaseOrder; [apply Rwi_Rw, HR | exact Hu | cbn; unfold enterprise_StatusRaised; lia].
  - intros w1 u. apply raisedq_SetPO.
  - intros w1 ws1 [] HR1 F1. sred. apply (gsim_bind Rw E).
    + apply prim0_AddPoToRaisedQueue; [exact HE | exact HR1 | exact Hu|]. rewrite F1. exact (proj1 (Rwi_einv _ _ HR)).
    + intros w2 ws2 [] HR2. sred. apply (gsim_bind Rw E).
      * apply prim0_SetHighestPurchaseOrderID; [exact HE | exact HR2 | apply wrap64_range].
      * intros w3 ws3 [] HR3. sred. apply gsim_ret, HR3.
Qed.

(* IsAuthorisedToDecide returns no world: the same answer *)
Theorem eq_IsAuthorisedToDecide w ws a : Rw w ws -> S.go_IsAuthorisedToDecide ws a = K.go_IsAuthorisedToDecide w a.
Proof.
  intros HR. unfold S.go_IsAuthorisedToDecide, K.go_IsAuthorisedToDecide.
  rewrite (prim_GetParamEntSignersAsAddressArray w ws HR). reflexivity.
Qed.

(* ProcessPurchaseOrderDecision: SetPurchaseOrder refuses an order that is not there (status 0) with different codes *)
Theorem simE_ProcessPurchaseOrderDecision E w ws id dec signer : Eweak E -> Rwi w ws -> u64 id ->
  gsim Rwi E (K.go_ProcessPurchaseOrderDecision w id dec signer) (S.go_ProcessPurchaseOrderDecision ws id dec signer).
Proof.
  intros HE HR Hi. unfold K.go_ProcessPurchaseOrderDecision, S.go_ProcessPurchaseOrderDecision. repeat sread. sred.
  destruct (ent_GetPurchaseOrder w id) as [po found] eqn:G. destruct (getpo_facts _ _ _ _ _ HR G) as [Hu Hd]. swalk.
Qed.

(* ... and with equal codes when the stored order has a valid status (the handler has checked that it is raised) *)
Theorem sim_ProcessPurchaseOrderDecision E w ws id dec signer po found : Rwi w ws -> u64 id ->
  ent_GetPurchaseOrder w id = (po, found) -> 1 <= EnterpriseUndPurchaseOrder_Status po <= 4 ->
  gsim Rwi E (K.go_ProcessPurchaseOrderDecision w id dec signer) (S.go_ProcessPurchaseOrderDecision ws id dec signer).
Proof.
  intros HR Hi G Hs. apply (gsim_noerr Rwi E ecode).
  - apply simE_ProcessPurchaseOrderDecision; [exact Eweak_ecode | exact HR | exact Hi].
  - intros e. unfold K.go_ProcessPurchaseOrderDecision. rewrite G. sred.
    match goal with |- obind (ent_SetPurchaseOrder ?w0 ?g) _ <> _ =>
      pose proof (SetPO_noerr w0 g) as N; destruct (ent_SetPurchaseOrder w0 g) as [[w1 []]|e1|p1] end; cbn; try discriminate.
    intros _. apply (N Hs e1). reflexivity.
Qed.

Ltac sside ::=
  first
  [ assumption
  | srefl
  | (apply negb_true_iff; assumption)
  | (eapply Coin_Sub_nonneg; eassumption)
  | (eapply NewCoin_nonneg; eassumption)
  | (eapply parse_dom_panic; [|eassumption]; sside)
  | (eapply parse_dom; [|eassumption]; sside)
  | (cbn [LockedUnd_Owner LockedUnd_Amount set_LockedUnd_Amount SpentEFUND_Owner SpentEFUND_Amount set_SpentEFUND_Amount
          ent_GetLockedUndForAccount ent_GetSpentEFUNDForAccount
          EnterpriseUndPurchaseOrder_Id EnterpriseUndPurchaseOrder_Purchaser EnterpriseUndPurchaseOrder_Status
          set_EnterpriseUndPurchaseOrder_Id set_EnterpriseUndPurchaseOrder_Status set_EnterpriseUndPurchaseOrder_RaiseTime
          set_EnterpriseUndPurchaseOrder_CompletionTime set_EnterpriseUndPurchaseOrder_Decisions fst snd] in *;
     first [ assumption | (eapply Coin_Sub_nonneg; eassumption) | (eapply NewCoin_nonneg; eassumption)
           | (eapply parse_dom_panic; [|eassumption]; assumption)
           | (eapply parse_dom; [|eassumption]; assumption)
           | (unfold enterprise_StatusCompleted, enterprise_StatusRejected, enterprise_StatusAccepted, enterprise_StatusRaised; lia) ]) ].

Theorem sim_ProcessWhitelistAction E w ws a action signer : Erefl E -> Rwi w ws -> dom a ->
  gsim Rwi E (K.go_ProcessWhitelistAction w a action signer) (S.go_ProcessWhitelistAction ws a action signer).
Proof. intros HE HR D. unfold K.go_ProcessWhitelistAction, S.go_ProcessWhitelistAction. swalk. Qed.

(* ---- msg_server.go ---- *)

Ltac scall ::=
  first [ apply sim_sendCoinsFromModuleToAccount | apply sim_incrementSpentEFUND | apply simE_incrementLockedUnd
        | apply sim_decrementLockedUnd | apply simE_MintCoinsAndLock | apply sim_UnlockCoinsForFees
        | apply sim_RaiseNewPurchaseOrder | apply sim_ProcessWhitelistAction ]; try sside.

Ltac sstep ::=
  first
  [ progress sread
  | match goal with
    | HR : Rwi ?w ?ws |- context [S.go_IsAuthorisedToDecide ?ws ?a] => rewrite (eq_IsAuthorisedToDecide w ws a (Rwi_Rw _ _ HR))
    end
  | match goal with
    | |- gsim _ _ (match ?x with pair _ _ => _ end) _ => destruct x eqn:?
    | |- context [match ?v with pair _ _ => _ end] => is_var v; destruct v
    end
  | match goal with
    | |- gsim _ _ (Err _) (Err _) => serr
    | |- gsim _ _ (Panic _) (Panic _) => reflexivity
    | |- gsim _ _ (Ok (_, _)) (Ok (_, _)) => apply gsim_ret; assumption
    | |- gsim _ _ (if ?b then _ else _) (if ?b then _ else _) => destruct b eqn:?
    | |- gsim _ _ (obind _ _) (obind _ _) =>
        first [ (apply gsim_bind_pure; [srefl | intros ? ?])
              | (apply gsim_bind; [ first [ sprim | scall ] | intros ? ? ? ? ]) ]
    end ].

(* UndPurchaseOrder: the purchaser named by the message is in dom if it parses; the id counter is not the last uint64 *)
Theorem sim_UndPurchaseOrder E w ws msg : Erefl E -> Rwi w ws -> pdom (MsgUndPurchaseOrder_Purchaser msg) ->
  e_next (ew_ent w) < 2 ^ 64 - 1 ->
  gsim Rwi E (K.go_UndPurchaseOrder w msg) (S.go_UndPurchaseOrder ws msg).
Proof. intros HE HR Hp Hn. unfold K.go_UndPurchaseOrder, S.go_UndPurchaseOrder. swalk. Qed.

(* ProcessUndPurchaseOrder: the order id is a uint64; nothing is asked of the signer (it is only compared) *)
Theorem sim_ProcessUndPurchaseOrder E w ws msg : Erefl E -> Rwi w ws -> u64 (MsgProcessUndPurchaseOrder_PurchaseOrderId msg) ->
  gsim Rwi E (K.go_ProcessUndPurchaseOrder w msg) (S.go_ProcessUndPurchaseOrder ws msg).
Proof.
  intros HE HR Hi. unfold K.go_ProcessUndPurchaseOrder, S.go_ProcessUndPurchaseOrder. swalk.
  match goal with G : ent_GetPurchaseOrder w _ = (?po, ?found) |- _ => rename G into Gpo end.
  match goal with H : negb (_ =? enterprise_StatusRaised) = false |- _ => rename H into Hst end.
  apply negb_false_iff, Z.eqb_eq in Hst.
  eapply (gsim_after_loop Rwi E (fun sa sc => sa = w /\ sc = ws)).
  - apply (range_rel (fun _ sa sc => sa = w /\ sc = ws) ret_rel E); [|split; reflexivity].
    intros d ds sa sc [-> ->]. sred.
    match goal with |- context [if ?b then _ else _] => destruct b end; [serr | cbn [lrel]; split; reflexivity].
  - intros sa sc [-> ->]. sred. apply gsim_bind.
    + eapply sim_ProcessPurchaseOrderDecision; [exact HR | exact Hi | exact Gpo|]. rewrite Hst. unfold enterprise_StatusRaised. lia.
    + intros w1 ws1 [] HR1. sred. apply gsim_ret, HR1.
Qed.

(* WhitelistAddress: the address to (un)list is in dom if it parses *)
Theorem sim_WhitelistAddress E w ws msg : Erefl E -> Rwi w ws -> pdom (MsgWhitelistAddress_Address msg) ->
  gsim Rwi E (K.go_WhitelistAddress w msg) (S.go_WhitelistAddress ws msg).
Proof. intros HE HR Hp. unfold K.go_WhitelistAddress, S.go_WhitelistAddress. swalk. Qed.

(* UpdateParams: the hypotheses of SetParams *)
Theorem sim_UpdateParams E w ws req : Erefl E -> Rwi w ws ->
  ent_params_range (MsgUpdateParams_Params req) -> denom_ok (MsgUpdateParams_Params req) ->
  gsim Rwi E (K.go_UpdateParams w req) (S.go_UpdateParams ws req).
Proof. intros HE HR Hp Hd. unfold K.go_UpdateParams, S.go_UpdateParams. swalk. Qed.

(* ================================================================== *)
(* part 4: messages, ValidateBasic, BeginBlock, fee unlock: histories   *)
(* ================================================================== *)

(* the on-store message server and ValidateBasic, driven by the model's message type exactly as [ent_msg_exec] and
   [ent_go_validate_basic] (model/EnterpriseGenSpec.v) drive rendering (1) *)
Definition os_ent_msg_exec (w : esworld) (m : ent_msg) : outcome (esworld * Z) :=
  match m with
  | ERaise p d amt =>
      do (w', rsp) <- S.go_UndPurchaseOrder w {| MsgUndPurchaseOrder_Purchaser := p; MsgUndPurchaseOrder_Amount := (d, amt) |};
      Ok (w', MsgUndPurchaseOrderResponse_PurchaseOrderId rsp)
  | EDecide sg poid dec =>
      do (w', _) <- S.go_ProcessUndPurchaseOrder w
           {| MsgProcessUndPurchaseOrder_PurchaseOrderId := poid; MsgProcessUndPurchaseOrder_Decision := dec;
              MsgProcessUndPurchaseOrder_Signer := sg |};
      Ok (w', 0)
  | EWhitelist sg target act =>
      do (w', _) <- S.go_WhitelistAddress w
           {| MsgWhitelistAddress_Address := target; MsgWhitelistAddress_Signer := sg; MsgWhitelistAddress_Action := act |};
      Ok (w', 0)
  end.

Definition os_ent_go_validate_basic (m : ent_msg) : outcome unit :=
  match m with
  | ERaise p d amt => S.go_MsgUndPurchaseOrder_ValidateBasic {| MsgUndPurchaseOrder_Purchaser := p; MsgUndPurchaseOrder_Amount := (d, amt) |}
  | EDecide sg poid dec =>
      S.go_MsgProcessUndPurchaseOrder_ValidateBasic
        {| MsgProcessUndPurchaseOrder_PurchaseOrderId := poid; MsgProcessUndPurchaseOrder_Decision := dec; MsgProcessUndPurchaseOrder_Signer := sg |}
  | EWhitelist sg target act =>
      S.go_MsgWhitelistAddress_ValidateBasic
        {| MsgWhitelistAddress_Address := target; MsgWhitelistAddress_Signer := sg; MsgWhitelistAddress_Action := act |}
  end.

(* the two ValidateBasic are one function: they touch no store *)
Lemma os_ent_go_validate_basic_eq m : os_ent_go_validate_basic m = ent_go_validate_basic m.
Proof. destruct m; reflexivity. Qed.

(* what the simulation needs of a message (relative to the abstract world it is delivered in):
     a raise       the purchaser is in dom if it parses; the id counter is not the last uint64;
     a decision    the order id is a uint64 (anything decoded from a protobuf uint64 is);
     a whitelist   the address to (un)list is in dom if it parses.
   Nothing is asked of the signers. *)
Definition ent_msg_side (w : eworld) (m : ent_msg) : Prop :=
  match m with
  | ERaise p _ _ => pdom p /\ e_next (ew_ent w) < 2 ^ 64 - 1
  | EDecide _ poid _ => u64 poid
  | EWhitelist _ t _ => pdom t
  end.

Ltac scall ::=
  first [ apply sim_UndPurchaseOrder | apply sim_ProcessUndPurchaseOrder | apply sim_WhitelistAddress | apply sim_UpdateParams
        | apply sim_UnlockCoinsForFees | apply sim_begin_block ]; try sside.

Theorem sim_msg_exec E w ws m : Erefl E -> Rwi w ws -> ent_msg_side w m -> gsim Rwi E (ent_msg_exec w m) (os_ent_msg_exec ws m).
Proof.
  intros HE HR Hm. destruct m as [p d amt|sg poid dec|sg t act]; cbn [ent_msg_side] in Hm; unfold ent_msg_exec, os_ent_msg_exec.
  - destruct Hm as [Hp Hn]. swalk.
  - swalk.
  - swalk.
Qed.

(* one step of a history of the module: BeginBlock at a block time (unix seconds), a delivered message (ValidateBasic, then
   the handler), MsgUpdateParams, the fee unlock of the ante decorator - the four steps of [ent_op] (model/EnterpriseSpec.v) *)
Inductive hop :=
| HBegin (t : Z)
| HMsg (m : ent_msg)
| HUpdateParams (req : go_MsgUpdateParams)
| HUnlock (payer : addr) (fee : list go_coin).

Inductive hresp :=
| RBegin
| RMsg (r : Z)
| RParams
| RUnlock.

(* BeginBlock sets the block time; the other steps run at the time of their block *)
Definition kw_at (t : Z) (w : eworld) : eworld := mk_eworld (t * NSEC) (ew_bank w) (ew_ent w).
Definition sw_at (t : Z) (w : esworld) : esworld := mk_esworld (esw_emb w) (esw_unemb w) (t * NSEC) (esw_bank w) (esw_store w).

Definition k_deliver (w : eworld) (o : hop) : outcome (eworld * hresp) :=
  match o with
  | HBegin t => do (w', _) <- go_ent_begin_block (kw_at t w); Ok (w', RBegin)
  | HMsg m => do _ <- ent_go_validate_basic m; do (w', r) <- ent_msg_exec w m; Ok (w', RMsg r)
  | HUpdateParams req => do (w', _) <- K.go_UpdateParams w req; Ok (w', RParams)
  | HUnlock payer fee => do (w', _) <- K.go_UnlockCoinsForFees w payer fee; Ok (w', RUnlock)
  end.
Definition s_deliver (w : esworld) (o : hop) : outcome (esworld * hresp) :=
  match o with
  | HBegin t => do (w', _) <- os_ent_begin_block (sw_at t w); Ok (w', RBegin)
  | HMsg m => do _ <- os_ent_go_validate_basic m; do (w', r) <- os_ent_msg_exec w m; Ok (w', RMsg r)
  | HUpdateParams req => do (w', _) <- S.go_UpdateParams w req; Ok (w', RParams)
  | HUnlock payer fee => do (w', _) <- S.go_UnlockCoinsForFees w payer fee; Ok (w', RUnlock)
  end.

Definition hop_side (w : eworld) (o : hop) : Prop :=
  match o with
  | HBegin _ => True
  | HMsg m => ent_msg_side w m
  | HUpdateParams req => ent_params_range (MsgUpdateParams_Params req) /\ denom_ok (MsgUpdateParams_Params req)
  | HUnlock payer _ => dom payer
  end.

Lemma Rwi_at t w ws : Rwi w ws -> Rwi (kw_at t w) (sw_at t ws).
Proof.
  intros [(He & Hu & _ & Hb & HR) I]. split; [|exact I]. unfold Rw, kw_at, sw_at. cbn.
  split; [exact He | split; [exact Hu | split; [reflexivity | split; [exact Hb | exact HR]]]].
Qed.

Theorem sim_deliver w ws o : Rwi w ws -> hop_side w o -> sim (k_deliver w o) (s_deliver ws o).
Proof.
  intros HR D. pose proof Erefl_eq as HE. destruct o as [t|m|req|payer fee]; unfold k_deliver, s_deliver, sim; cbn [hop_side] in D.
  - pose proof (Rwi_at t w ws HR) as HRt. swalk.
  - change (os_ent_go_validate_basic m) with (ent_go_validate_basic m). apply gsim_bind_pure; [exact HE|]. intros [] _.
    apply gsim_bind; [apply sim_msg_exec; assumption|]. intros w' ws' r HR'. apply gsim_ret, HR'.
  - destruct D as [Hp Hd]. swalk.
  - swalk.
Qed.

(* a history: every step's result is kept in the trace.  A step that fails (Err) or panics (recovered by runTx) leaves the
   state untouched - except BeginBlock: a begin blocker that does not return halts the chain, the run stops there. *)
Definition is_begin (o : hop) : bool := match o with HBegin _ => true | _ => false end.

Section HRun.
  Context {W : Type}.
  Variable deliver : W -> hop -> outcome (W * hresp).
  Fixpoint hrun (w : W) (h : list hop) : list (outcome hresp) * W :=
    match h with
    | [] => ([], w)
    | o :: h' =>
        match deliver w o with
        | Ok (w', r) => let tr := hrun w' h' in (Ok r :: fst tr, snd tr)
        | Err e => if is_begin o then ([Err e], w) else let tr := hrun w h' in (Err e :: fst tr, snd tr)
        | Panic c => if is_begin o then ([Panic c], w) else let tr := hrun w h' in (Panic c :: fst tr, snd tr)
        end
    end.
End HRun.

Definition k_run : eworld -> list hop -> list (outcome hresp) * eworld := hrun k_deliver.
Definition s_run : esworld -> list hop -> list (outcome hresp) * esworld := hrun s_deliver.

(* the side conditions along the run of rendering (1) *)
Fixpoint hist_side (w : eworld) (h : list hop) : Prop :=
  match h with
  | [] => True
  | o :: h' =>
      hop_side w o /\
      match k_deliver w o with
      | Ok (w', _) => hist_side w' h'
      | _ => if is_begin o then True else hist_side w h'
      end
  end.

(* any history, from related worlds: the same result for every step, related final worlds *)
Theorem sim_run h : forall w ws, Rwi w ws -> hist_side w h ->
  fst (k_run w h) = fst (s_run ws h) /\ Rwi (snd (k_run w h)) (snd (s_run ws h)).
Proof.
  induction h as [|o h IH]; intros w ws HR HD.
  - split; [reflexivity | exact HR].
  - cbn [hist_side] in HD. destruct HD as [Do Dh].
    pose proof (sim_deliver w ws o HR Do) as Hs.
    unfold k_run, s_run in *. cbn [hrun].
    destruct (k_deliver w o) as [[w' r]|e|p], (s_deliver ws o) as [[ws' r']|e'|p']; cbn in Hs; try contradiction.
    + destruct Hs as [HR' X]. subst r'.
      destruct (IH w' ws' HR' Dh) as [E1 E2]. cbn [fst snd]. rewrite E1. split; [reflexivity | exact E2].
    + subst e'. destruct (is_begin o); [split; [reflexivity | exact HR]|].
      destruct (IH _ _ HR Dh) as [E1 E2]. cbn [fst snd]. rewrite E1. split; [reflexivity | exact E2].
    + subst p'. destruct (is_begin o); [split; [reflexivity | exact HR]|].
      destruct (IH _ _ HR Dh) as [E1 E2]. cbn [fst snd]. rewrite E1. split; [reflexivity | exact E2].
Qed.

(* ================================================================== *)
(* part 5: C04 / C03 / C02 on the on-store rendering                    *)
(* ================================================================== *)

(* ---- rendering (1), step by step, is the model's [ent_step] on the worlds of the invariant [ent_inv]
   (proofs/EnterpriseProofs.v), by the equalities of proofs/GeneratedEnterprise{,Block,Msg}Eq.v ---- *)
Definition hop_op (o : hop) : ent_op :=
  match o with
  | HBegin t => OBegin t
  | HMsg m => OMsg m
  | HUpdateParams req => OSetParams (params_of_go (MsgUpdateParams_Params req))
  | HUnlock payer fee => OUnlock payer fee
  end.

(* what those equalities need of a step, relative to the model world it is taken in: the step is well-formed
   ([ent_op_wf], model/EnterpriseSpec.v) and
     BeginBlock   stored orders have fewer than 2^63 decisions, there are fewer than 2^63 signers (the tally counts in int);
     a message    the id counter is not the last uint64;
     fee unlock   one row per (account, denomination) in the balance table, a positive locked amount (the decorator's guard) *)
Definition mop_side (mw : ent_world) (o : hop) : Prop :=
  ent_op_wf mw (hop_op o) /\
  match o with
  | HBegin _ => decisions_fit (w_ent mw) /\ Z.of_nat (List.length (ep_signers (e_params (w_ent mw)))) < two63
  | HMsg _ => e_next (w_ent mw) < two64 - 1
  | HUpdateParams _ => True
  | HUnlock payer _ => bank_wf (w_bank mw) /\ 0 < snd (locked_coin (w_ent mw) payer)
  end.

Lemma eworld_of_ent_at mw t :
  kw_at t (eworld_of_ent mw) = eworld_of_ent {| w_bank := w_bank mw; w_ent := w_ent mw; w_now := t |}.
Proof. reflexivity. Qed.

Lemma begin_block_model mw t w' u : ent_inv mw -> mop_side mw (HBegin t) ->
  go_ent_begin_block (kw_at t (eworld_of_ent mw)) = Ok (w', u) ->
  exists mw', w' = eworld_of_ent mw' /\ ent_step mw (OBegin t) = Some mw'.
Proof.
  intros I [W [Hd Hl]]. cbn [hop_op ent_op_wf] in W. pose proof (inv_now _ I) as Hn.
  destruct (ent_inv_block_hyps mw I Hl) as [Hth Hk].
  rewrite eworld_of_ent_at, gen_ent_begin_block_eq; cbn [eworld_of_ent ew_now ew_ent ew_bank w_now w_ent w_bank];
    rewrite ?Z.div_mul by discriminate; try assumption; [|unfold two63, two64 in *; lia].
  destruct (ent_begin_block t (w_bank mw) (w_ent mw)) as [[b' s']| |] eqn:EB; cbn [eblift]; try discriminate.
  intros [= <- _]. exists {| w_bank := b'; w_ent := s'; w_now := t |}. split; [reflexivity|].
  cbn [ent_step]. rewrite EB. reflexivity.
Qed.

Lemma k_deliver_model mw o w' r : ent_inv mw -> mop_side mw o -> k_deliver (eworld_of_ent mw) o = Ok (w', r) ->
  exists mw', w' = eworld_of_ent mw' /\ ent_step mw (hop_op o) = Some mw'.
Proof.
  intros I M. destruct o as [t|m|req|payer fee]; cbn [k_deliver hop_op].
  - destruct (go_ent_begin_block _) as [[w1 u]| |] eqn:EB; cbn [obind]; try discriminate. intros [= <- _].
    exact (begin_block_model mw t w1 u I M EB).
  - destruct M as [W Hx].
    assert (Ha : ent_msg_addrs_ok m).
    { destruct W as [Hs Hm]. destruct m; cbn [ent_msg_addrs_ok ent_signer] in *; unfold BAD_ADDR, EMPTY_ADDR; lia. }
    rewrite (gen_ent_validate_basic_eq m Ha), (gen_ent_msg_exec_eq_inv mw m I W Hx).
    destruct (ent_validate_basic m) as [[]| |] eqn:V; cbn [obind]; try discriminate.
    destruct (ent_exec (w_now mw) (w_ent mw) m) as [[s' r']| |] eqn:X; cbn [elift obind]; try discriminate.
    intros [= <- _]. exists {| w_bank := w_bank mw; w_ent := s'; w_now := w_now mw |}. split; [reflexivity|].
    cbn [ent_step]. rewrite V, X. reflexivity.
  - destruct req as [auth p]. rewrite gen_ent_UpdateParams_eq. destruct (negb (auth =? GOV_MACC)); cbn [obind]; [discriminate|].
    cbn [MsgUpdateParams_Params]. cbn [eworld_of_ent ew_ent].
    destruct (ent_set_params (w_ent mw) (params_of_go p)) as [s'| |] eqn:X; cbn [obind]; try discriminate.
    intros [= <- _]. exists {| w_bank := w_bank mw; w_ent := s'; w_now := w_now mw |}. split; [reflexivity|].
    cbn [ent_step]. rewrite X. reflexivity.
  - destruct M as [W [Wf Hl]]. pose proof W as (_ & P & _).
    rewrite (gen_ent_UnlockCoinsForFees_eq_inv mw payer fee I P Wf Hl).
    destruct (unlock_for_fees (w_bank mw) (w_ent mw) payer fee) as [[b' s']| |] eqn:X; cbn [eblift obind]; try discriminate.
    intros [= <- _]. exists {| w_bank := b'; w_ent := s'; w_now := w_now mw |}. split; [reflexivity|].
    cbn [ent_step]. rewrite X. reflexivity.
Qed.

(* the worlds of rendering (1) that are worlds of the model's invariant *)
Definition kinv (w : eworld) : Prop := exists mw, w = eworld_of_ent mw /\ ent_inv mw.

Definition world_of (w : eworld) : ent_world := {| w_bank := ew_bank w; w_ent := ew_ent w; w_now := ew_now w / NSEC |}.

Lemma world_of_eworld mw : world_of (eworld_of_ent mw) = mw.
Proof. destruct mw as [b s' n]. unfold world_of, eworld_of_ent. cbn. f_equal. apply Z.div_mul. discriminate. Qed.

Fixpoint mhist_side (w : eworld) (h : list hop) : Prop :=
  match h with
  | [] => True
  | o :: h' =>
      mop_side (world_of w) o /\
      match k_deliver w o with
      | Ok (w', _) => mhist_side w' h'
      | _ => if is_begin o then True else mhist_side w h'
      end
  end.

Lemma k_deliver_kinv w o w' r : kinv w -> mop_side (world_of w) o -> k_deliver w o = Ok (w', r) -> kinv w'.
Proof.
  intros (mw & -> & I) M H. rewrite world_of_eworld in M.
  destruct (k_deliver_model mw o w' r I M H) as (mw' & -> & St). exists mw'. split; [reflexivity|].
  exact (ent_inv_step mw (hop_op o) mw' I (proj1 M) St).
Qed.

Theorem k_run_kinv h : forall w, kinv w -> mhist_side w h -> kinv (snd (k_run w h)).
Proof.
  induction h as [|o h IH]; intros w I M; [exact I|]. cbn [mhist_side] in M. destruct M as [Mo Mh].
  unfold k_run in *. cbn [hrun]. pose proof (k_deliver_kinv w o) as St.
  destruct (k_deliver w o) as [[w' r]|e|p]; cbn [fst snd].
  - apply IH; [exact (St w' r I Mo eq_refl) | exact Mh].
  - destruct (is_begin o); [exact I | apply IH; assumption].
  - destruct (is_begin o); [exact I | apply IH; assumption].
Qed.

(* ---- C04: the books, read from the bytes, balance ---- *)
Lemma sumZ_perm l1 l2 : Permutation l1 l2 -> sumZ l1 = sumZ l2.
Proof. induction 1; cbn [sumZ]; lia. Qed.

Definition locked_amt (l : go_LockedUnd) : Z := snd (LockedUnd_Amount l).
Definition spent_amt (l : go_SpentEFUND) : Z := snd (SpentEFUND_Amount l).

(* what "the books balance" says of a byte-level world: every quantity is what a generated accessor reads from the store *)
Definition os_books (ws : esworld) : Prop :=
  exists d tl ts L LS,
    os_ent_GetParamDenom ws = Ok d /\
    os_ent_GetTotalLockedUnd ws = Ok tl /\ os_ent_GetTotalSpentEFUND ws = Ok ts /\
    go_st_GetAllLockedUnds (esw_store ws) = Ok L /\ go_st_GetAllSpentEFUNDs (esw_store ws) = Ok LS /\
    (* escrow balance = reported total locked = sum of the per-account locked entries *)
    balance (esw_bank ws) ENT_MACC d = snd tl /\
    snd tl = sumZ (map locked_amt L) /\
    (* reported total spent = sum of the per-account spent entries *)
    snd ts = sumZ (map spent_amt LS) /\
    (* the escrow holds nothing else; every booked coin carries the enterprise denomination and is not negative *)
    (forall d', d' <> d -> balance (esw_bank ws) ENT_MACC d' = 0) /\
    fst tl = d /\ fst ts = d /\ 0 <= snd tl /\ 0 <= snd ts /\
    Forall (fun l => fst (LockedUnd_Amount l) = d /\ 0 <= locked_amt l) L /\
    Forall (fun l => fst (SpentEFUND_Amount l) = d /\ 0 <= spent_amt l) LS.

Theorem os_books_balance mw ws : ent_inv mw -> Rw (eworld_of_ent mw) ws -> os_books ws.
Proof.
  intros I HR. set (w := eworld_of_ent mw) in *. pose proof (Rw_Rent _ _ HR) as HRe.
  destruct (books_balance mw I) as (B1 & B2 & B3 & _ & B5 & B6 & B7 & B8 & B9 & B10 & B11).
  assert (Eb : esw_bank ws = w_bank mw) by (symmetry; exact (proj1 (proj2 (proj2 (proj2 HR))))).
  exists (ent_GetParamDenom w), (ent_GetTotalLockedUnd w), (ent_GetTotalSpentEFUND w),
    (map locked_image (ksort (locked_key emb) (e_locked (ew_ent w)))), (map spent_image (ksort (spent_key emb) (e_spent (ew_ent w)))).
  split; [exact (prim_GetParamDenom w ws HR)|]. split; [exact (prim_GetTotalLockedUnd w ws HR)|].
  split; [exact (prim_GetTotalSpentEFUND w ws HR)|].
  split; [exact (GetAllLockedUnds_refines dom emb emb_inj _ w HRe)|].
  split; [exact (GetAllSpentEFUNDs_refines dom emb emb_inj _ w HRe)|].
  unfold ent_GetParamDenom, ent_GetTotalLockedUnd, ent_GetTotalSpentEFUND. subst w. cbn [eworld_of_ent ew_ent ew_bank] in *.
  rewrite Eb. split; [exact B1|]. split.
  { transitivity (asum snd (e_locked (w_ent mw))); [exact B2|]. rewrite map_map. unfold asum.
    apply (sumZ_perm (map (fun kv => snd (snd kv)) (e_locked (w_ent mw)))
                     (map (fun x => locked_amt (locked_image x)) (ksort (locked_key emb) (e_locked (w_ent mw))))).
    apply Permutation_sym. exact (Permutation_map _ (ksort_perm (locked_key emb) _)). }
  split.
  { transitivity (asum snd (e_spent (w_ent mw))); [exact B3|]. rewrite map_map. unfold asum.
    apply (sumZ_perm (map (fun kv => snd (snd kv)) (e_spent (w_ent mw)))
                     (map (fun x => spent_amt (spent_image x)) (ksort (spent_key emb) (e_spent (w_ent mw))))).
    apply Permutation_sym. exact (Permutation_map _ (ksort_perm (spent_key emb) _)). }
  split; [exact B5|]. split; [exact B6|]. split; [exact B7|]. split; [exact B8|]. split; [exact B9|]. split.
  - apply Forall_forall. intros l Hl. apply in_map_iff in Hl. destruct Hl as ([a c] & <- & Hin).
    apply ksort_In in Hin. apply (aget_of_In _ _ _ (R_locked_nodup _ _ _ _ HRe)) in Hin. exact (B10 a c Hin).
  - apply Forall_forall. intros l Hl. apply in_map_iff in Hl. destruct Hl as ([a c] & <- & Hin).
    apply ksort_In in Hin. apply (aget_of_In _ _ _ (R_spent_nodup _ _ _ _ HRe)) in Hin. exact (B11 a c Hin).
Qed.

(* ... in every state the on-store rendering reaches from a byte-level world representing a world of the invariant *)
Theorem os_run_books_balance mw ws h :
  ent_inv mw -> Rwi (eworld_of_ent mw) ws ->
  hist_side (eworld_of_ent mw) h -> mhist_side (eworld_of_ent mw) h ->
  os_books (snd (s_run ws h)) /\
  fst (s_run ws h) = fst (k_run (eworld_of_ent mw) h).
Proof.
  intros I HR HS HM. destruct (sim_run h _ _ HR HS) as [E HR'].
  destruct (k_run_kinv h (eworld_of_ent mw) (ex_intro _ mw (conj eq_refl I)) HM) as (mw' & E' & I').
  rewrite E' in HR'. split; [exact (os_books_balance mw' _ I' (Rwi_Rw _ _ HR')) | symmetry; exact E].
Qed.

(* ---- C03: the tally rule, on what the generated accessors read from the bytes before and after the on-store tally:
   an order is accepted only with MinAccepts accept decisions, by distinct signers ---- *)
Theorem os_tally_rule mw ws ws' u id g :
  ent_inv mw -> Rwi (eworld_of_ent mw) ws ->
  decisions_fit (w_ent mw) -> Z.of_nat (List.length (ep_signers (e_params (w_ent mw)))) < two63 -> tally_pre (w_ent mw) ->
  S.go_TallyPurchaseOrderDecisions ws = Ok (ws', u) -> u64 id ->
  os_ent_GetPurchaseOrder ws id = Ok (g, true) -> EnterpriseUndPurchaseOrder_Status g = enterprise_StatusRaised ->
  exists p g',
    os_ent_GetParams ws = Ok p /\ os_ent_GetPurchaseOrder ws' id = Ok (g', true) /\
    let ds := map of_go_decision (EnterpriseUndPurchaseOrder_Decisions g) in
    let acc := count_decisions ds ST_ACCEPTED in
    let rej := count_decisions ds ST_REJECTED in
    let n := Z.of_nat (List.length (Params_EntSigners p)) in
    let now := Time_Unix (esw_now ws) in
    EnterpriseUndPurchaseOrder_Status g' =
      (if (Params_DecisionTimeLimit p <=? now - EnterpriseUndPurchaseOrder_RaiseTime g) && (acc <? Params_MinAccepts p)
       then enterprise_StatusRejected
       else if n - Params_MinAccepts p <? rej then enterprise_StatusRejected
       else if Params_MinAccepts p <=? acc then enterprise_StatusAccepted
       else enterprise_StatusRaised) /\
    EnterpriseUndPurchaseOrder_Decisions g' = EnterpriseUndPurchaseOrder_Decisions g /\
    NoDup (map PurchaseOrderDecision_Signer (EnterpriseUndPurchaseOrder_Decisions g)) /\
    (EnterpriseUndPurchaseOrder_Status g' = enterprise_StatusAccepted -> Params_MinAccepts p <= acc).
Proof.
  intros I HR Hd Hl Hpre HT Hi Hg Hst. set (w := eworld_of_ent mw) in *. destruct u.
  pose proof (sim_TallyPurchaseOrderDecisions eq w ws Erefl_eq HR Hpre) as Hs.
  destruct (gsim_Ok_inv _ _ _ _ _ _ Hs HT) as (w' & EK & HR').
  pose proof (inv_s _ I) as Is. pose proof (inv_now _ I) as Hn.
  assert (En : ew_now w / NSEC = w_now mw) by (subst w; cbn [eworld_of_ent ew_now]; apply Z.div_mul; discriminate).
  assert (Ens : esw_now ws = ew_now w) by (symmetry; exact (proj1 (proj2 (proj2 (Rwi_Rw _ _ HR))))).
  rewrite (prim_GetPurchaseOrder w ws id (Rwi_Rw _ _ HR) Hi) in Hg. injection Hg as Hg. unfold ent_GetPurchaseOrder in Hg.
  change (ew_ent w) with (w_ent mw) in Hg.
  destruct (aget id (e_pos (w_ent mw))) as [o|] eqn:G; [|discriminate Hg]. injection Hg as <-.
  cbn [to_go_po EnterpriseUndPurchaseOrder_Status] in Hst.
  assert (Hin : In id (e_raisedq (w_ent mw))) by (apply (si_rq _ _ Is); unfold status_of; rewrite G; exact Hst).
  pose proof (si_po _ _ Is id o G) as Hok.
  pose proof (gen_tally_rule w w' id o EK (si_params _ _ Is) Hl (sinv_pos_keyed _ _ Is) Hd (si_nd_rq _ _ Is) Hin G) as Hrule.
  cbv zeta in Hrule. rewrite En in Hrule. specialize (Hrule (pk_time _ _ _ _ _ Hok) (proj2 Hn)).
  change (ew_ent w) with (w_ent mw) in Hrule.
  exists (ent_GetParams w). eexists. split; [exact (prim_GetParams w ws (Rwi_Rw _ _ HR))|].
  split; [rewrite (prim_GetPurchaseOrder w' ws' id (Rwi_Rw _ _ HR') Hi); unfold ent_GetPurchaseOrder; rewrite Hrule; reflexivity|].
  cbv zeta. unfold Time_Unix. rewrite Ens, En.
  cbn [ent_GetParams Params_DecisionTimeLimit Params_MinAccepts Params_EntSigners to_go_po EnterpriseUndPurchaseOrder_RaiseTime
       EnterpriseUndPurchaseOrder_Decisions]. change (ew_ent w) with (w_ent mw). rewrite of_to_decisions.
  assert (ND : NoDup (map PurchaseOrderDecision_Signer (map to_go_decision (po_decisions o)))).
  { rewrite map_map. exact (pk_nodup _ _ _ _ _ Hok). }
  unfold go_addr, addr in *.
  match goal with |- context [if ?c then enterprise_StatusRejected else if _ then enterprise_StatusRejected else _] => destruct c end.
  { cbn. split; [reflexivity|]. split; [reflexivity|]. split; [exact ND|]. intros X; discriminate X. }
  match goal with |- context [if ?c then enterprise_StatusRejected else _] => destruct c end.
  { cbn. split; [reflexivity|]. split; [reflexivity|]. split; [exact ND|]. intros X; discriminate X. }
  match goal with |- context [if ?c <=? ?d then enterprise_StatusAccepted else _] => destruct (Z.leb_spec c d) end.
  { cbn. split; [reflexivity|]. split; [reflexivity|]. split; [exact ND|]. intros _. assumption. }
  cbn. split; [exact Hst|]. split; [reflexivity|]. split; [exact ND|]. rewrite Hst. intros X; discriminate X.
Qed.

(* ---- C02: the on-store BeginBlock mints exactly the amounts of the accepted orders the byte store holds, in the
   enterprise denomination; they are completed afterwards; no other account's balance moves ---- *)
Definition accepted_amt (g : go_EnterpriseUndPurchaseOrder) : Z :=
  if EnterpriseUndPurchaseOrder_Status g =? enterprise_StatusAccepted then snd (EnterpriseUndPurchaseOrder_Amount g) else 0.

Theorem os_begin_block_mints mw ws t ws' r :
  ent_inv mw -> Rwi (eworld_of_ent mw) ws -> mop_side mw (HBegin t) ->
  s_deliver ws (HBegin t) = Ok (ws', r) ->
  exists d L,
    os_ent_GetParamDenom ws = Ok d /\ go_st_GetAllPurchaseOrders (esw_store ws) = Ok L /\
    (forall d', supply_of (esw_bank ws') d' - supply_of (esw_bank ws) d' = if d' =? d then sumZ (map accepted_amt L) else 0) /\
    (forall a d', a <> ENT_MACC -> balance (esw_bank ws') a d' = balance (esw_bank ws) a d') /\
    (forall g, In g L -> EnterpriseUndPurchaseOrder_Status g = enterprise_StatusAccepted ->
       os_ent_GetPurchaseOrder ws' (EnterpriseUndPurchaseOrder_Id g) =
         Ok (set_EnterpriseUndPurchaseOrder_Status g enterprise_StatusCompleted, true)).
Proof.
  intros I HR M HS. set (w := eworld_of_ent mw) in *.
  assert (Hside : hop_side w (HBegin t)) by exact Logic.I.
  pose proof (sim_deliver w ws (HBegin t) HR Hside) as Hs.
  destruct (gsim_Ok_inv _ _ _ _ _ _ Hs HS) as (w' & EK & HR').
  destruct (k_deliver_model mw (HBegin t) w' r I M EK) as (mw' & -> & St). cbn [hop_op] in St.
  destruct (begin_completes_accepted mw t mw' I (proj1 M) St) as (C1 & _ & _ & C4 & C5).
  pose proof (Rwi_Rent _ _ HR) as HRe. change (ew_ent w) with (w_ent mw) in HRe.
  assert (Eb : esw_bank ws = w_bank mw) by (symmetry; exact (proj1 (proj2 (proj2 (proj2 (Rwi_Rw _ _ HR)))))).
  assert (Eb' : esw_bank ws' = w_bank mw') by (symmetry; exact (proj1 (proj2 (proj2 (proj2 (Rwi_Rw _ _ HR')))))).
  exists (ent_GetParamDenom w), (map po_image (ksort po_key (e_pos (w_ent mw)))).
  split; [exact (prim_GetParamDenom w ws (Rwi_Rw _ _ HR))|].
  split; [exact (GetAllPurchaseOrders_refines dom emb _ w HRe)|].
  rewrite Eb, Eb'. split; [|split; [exact C5|]].
  - intros d'. rewrite (C4 d'). unfold ent_GetParamDenom. change (ew_ent w) with (w_ent mw).
    destruct (d' =? ep_denom (e_params (w_ent mw))); [|reflexivity]. rewrite map_map. unfold asum.
    apply (sumZ_perm (map (fun kv => if po_status (snd kv) =? ST_ACCEPTED then po_amount (snd kv) else 0) (e_pos (w_ent mw)))
                     (map (fun x => accepted_amt (po_image x)) (ksort po_key (e_pos (w_ent mw))))).
    apply Permutation_sym. exact (Permutation_map _ (ksort_perm po_key _)).
  - intros g Hg Hst. apply in_map_iff in Hg. destruct Hg as ([id o] & <- & Hin). apply ksort_In in Hin.
    destruct (R_pos_ids _ _ _ _ HRe id o Hin) as [Hu Hid].
    apply (aget_of_In _ _ _ (R_pos_nodup _ _ _ _ HRe)) in Hin.
    unfold po_image in *. cbn [snd to_go_po EnterpriseUndPurchaseOrder_Id EnterpriseUndPurchaseOrder_Status] in *.
    rewrite Hid. rewrite (prim_GetPurchaseOrder _ ws' id (Rwi_Rw _ _ HR') Hu). unfold ent_GetPurchaseOrder.
    cbn [eworld_of_ent ew_ent]. rewrite (proj1 (C1 id o Hin Hst)). reflexivity.
Qed.

(* ================================================================== *)
(* summaries (for props/C04onstoreenterprise.v)                         *)
(* ================================================================== *)

Lemma Rw_spelled w ws :
  Rw w ws <-> (esw_emb ws = emb /\ esw_unemb ws = unemb /\ ew_now w = esw_now ws /\ ew_bank w = esw_bank ws /\
               Rent dom emb (esw_store ws) (ew_ent w)).
Proof. reflexivity. Qed.

Lemma Rwi_spelled w ws :
  Rwi w ws <->
  (Rw w ws /\
   (forall id, In id (e_raisedq (ew_ent w)) -> id < e_next (ew_ent w)) /\
   (forall id o, In (id, o) (e_pos (ew_ent w)) -> addr_parses (po_purchaser o) = true -> dom (po_purchaser o))).
Proof. reflexivity. Qed.

Lemma sims_spelled (R : Type) (a : outcome (eworld * R)) (c : outcome (esworld * R)) :
  (sim a c <->
   match a, c with
   | Ok (w, x), Ok (ws, y) => Rwi w ws /\ x = y
   | Err e, Err e' => e = e'
   | Panic p, Panic p' => p = p'
   | _, _ => False
   end) /\
  (simE a c <->
   match a, c with
   | Ok (w, x), Ok (ws, y) => Rwi w ws /\ x = y
   | Err e, Err e' => e = e' \/ (e = ERR_ENT /\ e' = STORE_ERR)
   | Panic p, Panic p' => p = p'
   | _, _ => False
   end) /\
  (sim0 a c <->
   match a, c with
   | Ok (w, x), Ok (ws, y) => Rw w ws /\ x = y
   | Err e, Err e' => e = e'
   | Panic p, Panic p' => p = p'
   | _, _ => False
   end) /\
  (sim0E a c <->
   match a, c with
   | Ok (w, x), Ok (ws, y) => Rw w ws /\ x = y
   | Err e, Err e' => e = e' \/ (e = ERR_ENT /\ e' = STORE_ERR)
   | Panic p, Panic p' => p = p'
   | _, _ => False
   end).
Proof. repeat split; intros H; exact H. Qed.

Lemma sim_implies_simE (R : Type) (a : outcome (eworld * R)) (c : outcome (esworld * R)) : sim a c -> simE a c.
Proof. apply sim_simE. Qed.

(* every adapter of model/EnterpriseStoreWorld.v against its primitive, on Rw alone *)
Theorem sim_primitives w ws : Rw w ws ->
  os_ew_now ws = ew_now w /\
  os_ent_GetParamDenom ws = Ok (ent_GetParamDenom w) /\
  os_ent_GetParams ws = Ok (ent_GetParams w) /\
  os_ent_GetParamEntSignersAsAddressArray ws = Ok (ent_GetParamEntSignersAsAddressArray w) /\
  os_ent_GetTotalLockedUnd ws = Ok (ent_GetTotalLockedUnd w) /\
  os_ent_GetTotalSpentEFUND ws = Ok (ent_GetTotalSpentEFUND w) /\
  os_ent_GetAllRaisedPurchaseOrders ws = Ok (ent_GetAllRaisedPurchaseOrders w) /\
  os_ent_GetAllAcceptedPurchaseOrders ws = Ok (ent_GetAllAcceptedPurchaseOrders w) /\
  os_ent_GetHighestPurchaseOrderID ws = ent_GetHighestPurchaseOrderID w /\
  (forall id, u64 id -> os_ent_GetPurchaseOrder ws id = Ok (ent_GetPurchaseOrder w id)) /\
  (forall id, u64 id -> os_ent_PurchaseOrderExists ws id = Ok (ent_PurchaseOrderExists w id)) /\
  (forall a, dom a -> os_ent_GetLockedUndForAccount ws a = Ok (ent_GetLockedUndForAccount w a)) /\
  (forall a, dom a -> os_ent_GetSpentEFUNDForAccount ws a = Ok (ent_GetSpentEFUNDForAccount w a)) /\
  (forall a, dom a -> os_ent_AddressIsWhitelisted ws a = Ok (ent_AddressIsWhitelisted w a)) /\
  (forall a, os_bank_SpendableCoins ws a = Ok (bank_SpendableCoins w a)) /\
  (forall c, sim0 (ent_SetTotalLockedUnd w c) (os_ent_SetTotalLockedUnd ws c)) /\
  (forall c, sim0 (ent_SetTotalSpentEFUND w c) (os_ent_SetTotalSpentEFUND ws c)) /\
  (forall x, dom (LockedUnd_Owner x) -> sim0E (ent_SetLockedUndForAccount w x) (os_ent_SetLockedUndForAccount ws x)) /\
  (forall x, dom (LockedUnd_Owner x) -> 0 <= snd (LockedUnd_Amount x) ->
     sim0 (ent_SetLockedUndForAccount w x) (os_ent_SetLockedUndForAccount ws x)) /\
  (forall x, dom (SpentEFUND_Owner x) -> sim0 (ent_SetSpentEFUNDForAccount w x) (os_ent_SetSpentEFUNDForAccount ws x)) /\
  (forall g, u64 (EnterpriseUndPurchaseOrder_Id g) -> sim0E (ent_SetPurchaseOrder w g) (os_ent_SetPurchaseOrder ws g)) /\
  (forall g, u64 (EnterpriseUndPurchaseOrder_Id g) -> 1 <= EnterpriseUndPurchaseOrder_Status g <= 4 ->
     sim0 (ent_SetPurchaseOrder w g) (os_ent_SetPurchaseOrder ws g)) /\
  (forall id, u64 id -> sim0 (ent_RemovePurchaseOrderFromRaisedQueue w id) (os_ent_RemovePurchaseOrderFromRaisedQueue ws id)) /\
  (forall id, u64 id -> sim0 (ent_RemovePurchaseOrderFromAcceptedQueue w id) (os_ent_RemovePurchaseOrderFromAcceptedQueue ws id)) /\
  (forall id, u64 id -> (forall y, In y (e_raisedq (ew_ent w)) -> y < id) ->
     sim0 (ent_AddPoToRaisedQueue w id) (os_ent_AddPoToRaisedQueue ws id)) /\
  (forall id, u64 id -> (forall y, In y (e_acceptedq (ew_ent w)) -> y < id) ->
     sim0 (ent_AddPoToAcceptedQueue w id) (os_ent_AddPoToAcceptedQueue ws id)) /\
  (forall n, u64 n -> sim0 (ent_SetHighestPurchaseOrderID w n) (os_ent_SetHighestPurchaseOrderID ws n)) /\
  (forall a, dom a -> ent_AddressIsWhitelisted w a = false ->
     sim0 (ent_AddAddressToWhitelist w a) (os_ent_AddAddressToWhitelist ws a)) /\
  (forall a, dom a -> sim0 (ent_RemoveAddressFromWhitelist w a) (os_ent_RemoveAddressFromWhitelist ws a)) /\
  (forall p, ent_params_range p -> denom_ok p -> sim0 (ent_SetParams w p) (os_ent_SetParams ws p)) /\
  (forall m cs, sim0 (bank_MintCoins w m cs) (os_bank_MintCoins ws m cs)) /\
  (forall m a cs, sim0 (bank_SendCoinsFromModuleToAccount w m a cs) (os_bank_SendCoinsFromModuleToAccount ws m a cs)) /\
  (forall a m cs, sim0 (bank_DelegateCoinsFromAccountToModule w a m cs) (os_bank_DelegateCoinsFromAccountToModule ws a m cs)) /\
  (forall m a cs, sim0 (bank_UndelegateCoinsFromModuleToAccount w m a cs) (os_bank_UndelegateCoinsFromModuleToAccount ws m a cs)).
Proof.
  intros HR. pose proof Erefl_eq as HE.
  split; [exact (prim_now w ws HR)|]. split; [exact (prim_GetParamDenom w ws HR)|]. split; [exact (prim_GetParams w ws HR)|].
  split; [exact (prim_GetParamEntSignersAsAddressArray w ws HR)|]. split; [exact (prim_GetTotalLockedUnd w ws HR)|].
  split; [exact (prim_GetTotalSpentEFUND w ws HR)|]. split; [exact (prim_GetAllRaisedPurchaseOrders w ws HR)|].
  split; [exact (prim_GetAllAcceptedPurchaseOrders w ws HR)|]. split; [exact (prim_GetHighestPurchaseOrderID w ws HR)|].
  split; [intros; apply prim_GetPurchaseOrder; assumption|]. split; [intros; apply prim_PurchaseOrderExists; assumption|].
  split; [intros; apply prim_GetLockedUndForAccount; assumption|]. split; [intros; apply prim_GetSpentEFUNDForAccount; assumption|].
  split; [intros; apply prim_AddressIsWhitelisted; assumption|]. split; [intros; apply prim_SpendableCoins; assumption|].
  split; [intros; apply prim0_SetTotalLockedUnd; assumption|]. split; [intros; apply prim0_SetTotalSpentEFUND; assumption|].
  split; [intros; apply prim0_SetLockedUndForAccount_E; [exact Eweak_ecode | assumption | assumption]|].
  split; [intros; apply prim0_SetLockedUndForAccount; assumption|].
  split; [intros; apply prim0_SetSpentEFUNDForAccount; assumption|].
  split; [intros; apply prim0_SetPurchaseOrder_E; [exact Eweak_ecode | assumption | assumption]|].
  split; [intros; apply prim0_SetPurchaseOrder; assumption|].
  split; [intros; apply prim0_RemovePurchaseOrderFromRaisedQueue; assumption|].
  split; [intros; apply prim0_RemovePurchaseOrderFromAcceptedQueue; assumption|].
  split; [intros; apply prim0_AddPoToRaisedQueue; assumption|]. split; [intros; apply prim0_AddPoToAcceptedQueue; assumption|].
  split; [intros; apply prim0_SetHighestPurchaseOrderID; assumption|].
  split; [intros; apply prim0_AddAddressToWhitelist; assumption|].
  split; [intros; apply prim0_RemoveAddressFromWhitelist; assumption|]. split; [intros; apply prim0_SetParams; assumption|].
  split; [intros; apply prim0_MintCoins; assumption|]. split; [intros; apply prim0_SendCoinsFromModuleToAccount; assumption|].
  split; [intros; apply prim0_DelegateCoinsFromAccountToModule; assumption|].
  intros; apply prim0_UndelegateCoinsFromModuleToAccount; assumption.
Qed.

(* ... and with the invariant carried along: the writers on Rwi; what the relation says of a stored order *)
Theorem sim_primitives_inv w ws : Rwi w ws ->
  (forall id po found, ent_GetPurchaseOrder w id = (po, found) ->
     u64 (EnterpriseUndPurchaseOrder_Id po) /\
     (addr_parses (EnterpriseUndPurchaseOrder_Purchaser po) = true -> dom (EnterpriseUndPurchaseOrder_Purchaser po))) /\
  (forall c, sim (ent_SetTotalLockedUnd w c) (os_ent_SetTotalLockedUnd ws c)) /\
  (forall c, sim (ent_SetTotalSpentEFUND w c) (os_ent_SetTotalSpentEFUND ws c)) /\
  (forall x, dom (LockedUnd_Owner x) -> simE (ent_SetLockedUndForAccount w x) (os_ent_SetLockedUndForAccount ws x)) /\
  (forall x, dom (LockedUnd_Owner x) -> 0 <= snd (LockedUnd_Amount x) ->
     sim (ent_SetLockedUndForAccount w x) (os_ent_SetLockedUndForAccount ws x)) /\
  (forall x, dom (SpentEFUND_Owner x) -> sim (ent_SetSpentEFUNDForAccount w x) (os_ent_SetSpentEFUNDForAccount ws x)) /\
  (forall g, u64 (EnterpriseUndPurchaseOrder_Id g) -> pdom (EnterpriseUndPurchaseOrder_Purchaser g) ->
     simE (ent_SetPurchaseOrder w g) (os_ent_SetPurchaseOrder ws g)) /\
  (forall g, u64 (EnterpriseUndPurchaseOrder_Id g) -> pdom (EnterpriseUndPurchaseOrder_Purchaser g) ->
     1 <= EnterpriseUndPurchaseOrder_Status g <= 4 -> sim (ent_SetPurchaseOrder w g) (os_ent_SetPurchaseOrder ws g)) /\
  (forall id, u64 id -> sim (ent_RemovePurchaseOrderFromRaisedQueue w id) (os_ent_RemovePurchaseOrderFromRaisedQueue ws id)) /\
  (forall id, u64 id -> sim (ent_RemovePurchaseOrderFromAcceptedQueue w id) (os_ent_RemovePurchaseOrderFromAcceptedQueue ws id)) /\
  (forall id, u64 id -> (forall y, In y (e_raisedq (ew_ent w)) -> y < id) -> id < e_next (ew_ent w) ->
     sim (ent_AddPoToRaisedQueue w id) (os_ent_AddPoToRaisedQueue ws id)) /\
  (forall id, u64 id -> (forall y, In y (e_acceptedq (ew_ent w)) -> y < id) ->
     sim (ent_AddPoToAcceptedQueue w id) (os_ent_AddPoToAcceptedQueue ws id)) /\
  (forall n, u64 n -> (forall y, In y (e_raisedq (ew_ent w)) -> y < n) ->
     sim (ent_SetHighestPurchaseOrderID w n) (os_ent_SetHighestPurchaseOrderID ws n)) /\
  (forall a, dom a -> ent_AddressIsWhitelisted w a = false ->
     sim (ent_AddAddressToWhitelist w a) (os_ent_AddAddressToWhitelist ws a)) /\
  (forall a, dom a -> sim (ent_RemoveAddressFromWhitelist w a) (os_ent_RemoveAddressFromWhitelist ws a)) /\
  (forall p, ent_params_range p -> denom_ok p -> sim (ent_SetParams w p) (os_ent_SetParams ws p)) /\
  (forall m cs, sim (bank_MintCoins w m cs) (os_bank_MintCoins ws m cs)) /\
  (forall m a cs, sim (bank_SendCoinsFromModuleToAccount w m a cs) (os_bank_SendCoinsFromModuleToAccount ws m a cs)) /\
  (forall a m cs, sim (bank_DelegateCoinsFromAccountToModule w a m cs) (os_bank_DelegateCoinsFromAccountToModule ws a m cs)) /\
  (forall m a cs, sim (bank_UndelegateCoinsFromModuleToAccount w m a cs) (os_bank_UndelegateCoinsFromModuleToAccount ws m a cs)).
Proof.
  intros HR. pose proof Erefl_eq as HE.
  split; [intros id po found G; exact (getpo_facts w ws id po found HR G)|].
  split; [intros; apply prim_SetTotalLockedUnd; assumption|]. split; [intros; apply prim_SetTotalSpentEFUND; assumption|].
  split; [intros; apply prim_SetLockedUndForAccount_E; [exact Eweak_ecode | assumption | assumption]|].
  split; [intros; apply prim_SetLockedUndForAccount; assumption|].
  split; [intros; apply prim_SetSpentEFUNDForAccount; assumption|].
  split; [intros; apply prim_SetPurchaseOrder_E; [exact Eweak_ecode | assumption | assumption | assumption]|].
  split; [intros; apply prim_SetPurchaseOrder; assumption|].
  split; [intros; apply prim_RemovePurchaseOrderFromRaisedQueue; assumption|].
  split; [intros; apply prim_RemovePurchaseOrderFromAcceptedQueue; assumption|].
  split; [intros; apply prim_AddPoToRaisedQueue; assumption|]. split; [intros; apply prim_AddPoToAcceptedQueue; assumption|].
  split; [intros; apply prim_SetHighestPurchaseOrderID; assumption|].
  split; [intros; apply prim_AddAddressToWhitelist; assumption|].
  split; [intros; apply prim_RemoveAddressFromWhitelist; assumption|]. split; [intros; apply prim_SetParams; assumption|].
  split; [intros; apply prim_MintCoins; assumption|]. split; [intros; apply prim_SendCoinsFromModuleToAccount; assumption|].
  split; [intros; apply prim_DelegateCoinsFromAccountToModule; assumption|].
  intros; apply prim_UndelegateCoinsFromModuleToAccount; assumption.
Qed.

(* keeper/locked.go *)
Theorem sim_locked w ws : Rwi w ws ->
  (forall a cs, sim (K.go_sendCoinsFromModuleToAccount w a cs) (S.go_sendCoinsFromModuleToAccount ws a cs)) /\
  (forall a c, dom a -> sim (K.go_incrementSpentEFUND w a c) (S.go_incrementSpentEFUND ws a c)) /\
  (forall a c, dom a -> simE (K.go_incrementLockedUnd w a c) (S.go_incrementLockedUnd ws a c)) /\
  (forall a c, dom a -> sim (K.go_decrementLockedUnd w a c) (S.go_decrementLockedUnd ws a c)) /\
  (forall a c, dom a -> simE (K.go_MintCoinsAndLock w a c) (S.go_MintCoinsAndLock ws a c)) /\
  (forall a fees, dom a -> sim (K.go_UnlockCoinsForFees w a fees) (S.go_UnlockCoinsForFees ws a fees)).
Proof.
  intros HR. pose proof Erefl_eq as HE. pose proof Eweak_ecode as HW.
  split; [intros; apply sim_sendCoinsFromModuleToAccount; assumption|].
  split; [intros; apply sim_incrementSpentEFUND; assumption|]. split; [intros; apply simE_incrementLockedUnd; assumption|].
  split; [intros; apply sim_decrementLockedUnd; assumption|]. split; [intros; apply simE_MintCoinsAndLock; assumption|].
  intros; apply sim_UnlockCoinsForFees; assumption.
Qed.

(* keeper/blocker.go and the begin blocker *)
Theorem sim_blocker w ws : Rwi w ws ->
  sim (K.go_ProcessAcceptedPurchaseOrders w) (S.go_ProcessAcceptedPurchaseOrders ws) /\
  ((forall a r, In a (e_acceptedq (ew_ent w)) -> In r (e_raisedq (ew_ent w)) -> a < r) ->
   sim (K.go_TallyPurchaseOrderDecisions w) (S.go_TallyPurchaseOrderDecisions ws)) /\
  (forall w' u, K.go_ProcessAcceptedPurchaseOrders w = Ok (w', u) -> e_acceptedq (ew_ent w') = []) /\
  sim (go_ent_begin_block w) (os_ent_begin_block ws).
Proof.
  intros HR. pose proof Erefl_eq as HE.
  split; [apply sim_ProcessAcceptedPurchaseOrders; assumption|].
  split; [intros Hpre; apply sim_TallyPurchaseOrderDecisions; assumption|].
  split; [intros w' u; exact (ProcessAccepted_empties w ws w' u (Rwi_Rw _ _ HR))|].
  apply sim_begin_block; assumption.
Qed.

(* keeper/purchase.go, keeper/whitelist.go *)
Theorem sim_purchase_whitelist w ws : Rwi w ws ->
  (forall po, pdom (EnterpriseUndPurchaseOrder_Purchaser po) -> e_next (ew_ent w) < 2 ^ 64 - 1 ->
     sim (K.go_RaiseNewPurchaseOrder w po) (S.go_RaiseNewPurchaseOrder ws po)) /\
  (forall a, S.go_IsAuthorisedToDecide ws a = K.go_IsAuthorisedToDecide w a) /\
  (forall id dec signer, u64 id ->
     simE (K.go_ProcessPurchaseOrderDecision w id dec signer) (S.go_ProcessPurchaseOrderDecision ws id dec signer)) /\
  (forall id dec signer po found, u64 id -> ent_GetPurchaseOrder w id = (po, found) ->
     1 <= EnterpriseUndPurchaseOrder_Status po <= 4 ->
     sim (K.go_ProcessPurchaseOrderDecision w id dec signer) (S.go_ProcessPurchaseOrderDecision ws id dec signer)) /\
  (forall a action signer, dom a ->
     sim (K.go_ProcessWhitelistAction w a action signer) (S.go_ProcessWhitelistAction ws a action signer)).
Proof.
  intros HR. pose proof Erefl_eq as HE. pose proof Eweak_ecode as HW.
  split; [intros; apply sim_RaiseNewPurchaseOrder; assumption|].
  split; [intros; apply eq_IsAuthorisedToDecide; apply Rwi_Rw; assumption|].
  split; [intros; apply simE_ProcessPurchaseOrderDecision; assumption|].
  split; [intros id dec signer po found Hi G Hs; exact (sim_ProcessPurchaseOrderDecision eq w ws id dec signer po found HR Hi G Hs)|].
  intros; apply sim_ProcessWhitelistAction; assumption.
Qed.

(* keeper/msg_server.go *)
Theorem sim_msg_server w ws : Rwi w ws ->
  (forall msg, pdom (MsgUndPurchaseOrder_Purchaser msg) -> e_next (ew_ent w) < 2 ^ 64 - 1 ->
     sim (K.go_UndPurchaseOrder w msg) (S.go_UndPurchaseOrder ws msg)) /\
  (forall msg, u64 (MsgProcessUndPurchaseOrder_PurchaseOrderId msg) ->
     sim (K.go_ProcessUndPurchaseOrder w msg) (S.go_ProcessUndPurchaseOrder ws msg)) /\
  (forall msg, pdom (MsgWhitelistAddress_Address msg) -> sim (K.go_WhitelistAddress w msg) (S.go_WhitelistAddress ws msg)) /\
  (forall req, ent_params_range (MsgUpdateParams_Params req) -> denom_ok (MsgUpdateParams_Params req) ->
     sim (K.go_UpdateParams w req) (S.go_UpdateParams ws req)).
Proof.
  intros HR. pose proof Erefl_eq as HE.
  split; [intros; apply sim_UndPurchaseOrder; assumption|]. split; [intros; apply sim_ProcessUndPurchaseOrder; assumption|].
  split; [intros; apply sim_WhitelistAddress; assumption | intros; apply sim_UpdateParams; assumption].
Qed.

(* the pure functions of the two files are the same functions *)
Theorem pure_functions_agree :
  (forall s, S.go_ValidPurchaseOrderStatus s = K.go_ValidPurchaseOrderStatus s) /\
  (forall s, S.go_ValidPurchaseOrderAcceptRejectStatus s = K.go_ValidPurchaseOrderAcceptRejectStatus s) /\
  (forall a, S.go_ValidWhitelistAction a = K.go_ValidWhitelistAction a) /\
  (forall p, S.go_Params_Validate p = K.go_Params_Validate p) /\
  (forall m, S.go_MsgUndPurchaseOrder_ValidateBasic m = K.go_MsgUndPurchaseOrder_ValidateBasic m) /\
  (forall m, S.go_MsgProcessUndPurchaseOrder_ValidateBasic m = K.go_MsgProcessUndPurchaseOrder_ValidateBasic m) /\
  (forall m, S.go_MsgWhitelistAddress_ValidateBasic m = K.go_MsgWhitelistAddress_ValidateBasic m) /\
  (forall m, os_ent_go_validate_basic m = ent_go_validate_basic m).
Proof. repeat split. Qed.

(* one step of a history, with the side condition spelled out *)
Theorem sim_deliver_spelled w ws o : Rwi w ws ->
  match o with
  | HBegin _ => True
  | HMsg (ERaise p _ _) => (addr_parses p = true -> dom p) /\ e_next (ew_ent w) < 2 ^ 64 - 1
  | HMsg (EDecide _ poid _) => 0 <= poid < 2 ^ 64
  | HMsg (EWhitelist _ t _) => addr_parses t = true -> dom t
  | HUpdateParams req => ent_params_range (MsgUpdateParams_Params req) /\ denom_ok (MsgUpdateParams_Params req)
  | HUnlock payer _ => dom payer
  end ->
  sim (k_deliver w o) (s_deliver ws o).
Proof.
  intros HR H. apply sim_deliver; [exact HR|]. destruct o as [t|[p d amt|sg poid dec|sg t act]|req|payer fee]; exact H.
Qed.

End OnStore.

(* ---- the vocabulary of the history theorems, unfolded ---- *)
Lemma emb_hyps_spelled dom emb unemb :
  emb_hyps dom emb unemb <->
  ((forall a b, dom a -> dom b -> emb a = emb b -> a = b) /\
   (forall a, dom a -> unemb (emb a) = a) /\
   (forall a, dom a -> emb a <> []) /\
   (forall a, dom a -> addr_parses a = true)).
Proof. reflexivity. Qed.

Lemma run_spelled :
  (forall w t, kw_at t w = mk_eworld (t * NSEC) (ew_bank w) (ew_ent w)) /\
  (forall ws t, sw_at t ws = mk_esworld (esw_emb ws) (esw_unemb ws) (t * NSEC) (esw_bank ws) (esw_store ws)) /\
  (forall ws, os_ent_begin_block ws = do (w1, _) <- S.go_ProcessAcceptedPurchaseOrders ws; S.go_TallyPurchaseOrderDecisions w1) /\
  (forall w o, k_deliver w o =
     match o with
     | HBegin t => do (w', _) <- go_ent_begin_block (kw_at t w); Ok (w', RBegin)
     | HMsg m => do _ <- ent_go_validate_basic m; do (w', r) <- ent_msg_exec w m; Ok (w', RMsg r)
     | HUpdateParams req => do (w', _) <- K.go_UpdateParams w req; Ok (w', RParams)
     | HUnlock payer fee => do (w', _) <- K.go_UnlockCoinsForFees w payer fee; Ok (w', RUnlock)
     end) /\
  (forall ws o, s_deliver ws o =
     match o with
     | HBegin t => do (w', _) <- os_ent_begin_block (sw_at t ws); Ok (w', RBegin)
     | HMsg m => do _ <- os_ent_go_validate_basic m; do (w', r) <- os_ent_msg_exec ws m; Ok (w', RMsg r)
     | HUpdateParams req => do (w', _) <- S.go_UpdateParams ws req; Ok (w', RParams)
     | HUnlock payer fee => do (w', _) <- S.go_UnlockCoinsForFees ws payer fee; Ok (w', RUnlock)
     end) /\
  (forall (W : Type) (deliver : W -> hop -> outcome (W * hresp)) w,
     hrun deliver w [] = ([], w) /\
     forall o h, hrun deliver w (o :: h) =
       match deliver w o with
       | Ok (w', r) => (Ok r :: fst (hrun deliver w' h), snd (hrun deliver w' h))
       | Err e => if is_begin o then ([Err e], w) else (Err e :: fst (hrun deliver w h), snd (hrun deliver w h))
       | Panic c => if is_begin o then ([Panic c], w) else (Panic c :: fst (hrun deliver w h), snd (hrun deliver w h))
       end) /\
  (forall w h, k_run w h = hrun k_deliver w h) /\ (forall ws h, s_run ws h = hrun s_deliver ws h).
Proof.
  repeat split; try reflexivity.
  all: try (intros o h; cbn [hrun]; destruct (deliver w o) as [[w' r]|e|c]; [reflexivity | |]; destruct (is_begin o); reflexivity).
Qed.

Lemma hist_side_spelled dom w :
  (hist_side dom w [] <-> True) /\
  forall o h, hist_side dom w (o :: h) <->
    (match o with
     | HBegin _ => True
     | HMsg (ERaise p _ _) => (addr_parses p = true -> dom p) /\ e_next (ew_ent w) < 2 ^ 64 - 1
     | HMsg (EDecide _ poid _) => 0 <= poid < 2 ^ 64
     | HMsg (EWhitelist _ t _) => addr_parses t = true -> dom t
     | HUpdateParams req => ent_params_range (MsgUpdateParams_Params req) /\ denom_ok (MsgUpdateParams_Params req)
     | HUnlock payer _ => dom payer
     end /\
     match k_deliver w o with
     | Ok (w', _) => hist_side dom w' h
     | _ => if is_begin o then True else hist_side dom w h
     end).
Proof. split; [reflexivity|]. intros [t|[p d amt|sg poid dec|sg t act]|req|payer fee] h; reflexivity. Qed.

Lemma mhist_side_spelled w :
  (mhist_side w [] <-> True) /\
  forall o h, mhist_side w (o :: h) <->
    (let mw := {| w_bank := ew_bank w; w_ent := ew_ent w; w_now := ew_now w / NSEC |} in
     (ent_op_wf mw (match o with
                    | HBegin t => OBegin t
                    | HMsg m => OMsg m
                    | HUpdateParams req => OSetParams (params_of_go (MsgUpdateParams_Params req))
                    | HUnlock payer fee => OUnlock payer fee
                    end) /\
      match o with
      | HBegin _ => decisions_fit (w_ent mw) /\ Z.of_nat (List.length (ep_signers (e_params (w_ent mw)))) < two63
      | HMsg _ => e_next (w_ent mw) < two64 - 1
      | HUpdateParams _ => True
      | HUnlock payer _ => bank_wf (w_bank mw) /\ 0 < snd (locked_coin (w_ent mw) payer)
      end) /\
     match k_deliver w o with
     | Ok (w', _) => mhist_side w' h
     | _ => if is_begin o then True else mhist_side w h
     end).
Proof. split; [reflexivity|]. intros [t|m|req|payer fee] h; reflexivity. Qed.

Lemma mop_side_spelled mw o :
  mop_side mw o <->
  (ent_op_wf mw (match o with
                 | HBegin t => OBegin t
                 | HMsg m => OMsg m
                 | HUpdateParams req => OSetParams (params_of_go (MsgUpdateParams_Params req))
                 | HUnlock payer fee => OUnlock payer fee
                 end) /\
   match o with
   | HBegin _ => decisions_fit (w_ent mw) /\ Z.of_nat (List.length (ep_signers (e_params (w_ent mw)))) < two63
   | HMsg _ => e_next (w_ent mw) < two64 - 1
   | HUpdateParams _ => True
   | HUnlock payer _ => bank_wf (w_bank mw) /\ 0 < snd (locked_coin (w_ent mw) payer)
   end).
Proof. destruct o; reflexivity. Qed.

Lemma kinv_spelled w : kinv w <-> exists mw, w = eworld_of_ent mw /\ ent_inv mw.
Proof. reflexivity. Qed.

Lemma os_books_spelled ws :
  os_books ws <->
  exists d tl ts L LS,
    os_ent_GetParamDenom ws = Ok d /\
    os_ent_GetTotalLockedUnd ws = Ok tl /\ os_ent_GetTotalSpentEFUND ws = Ok ts /\
    go_st_GetAllLockedUnds (esw_store ws) = Ok L /\ go_st_GetAllSpentEFUNDs (esw_store ws) = Ok LS /\
    balance (esw_bank ws) ENT_MACC d = snd tl /\
    snd tl = sumZ (map (fun l => snd (LockedUnd_Amount l)) L) /\
    snd ts = sumZ (map (fun l => snd (SpentEFUND_Amount l)) LS) /\
    (forall d', d' <> d -> balance (esw_bank ws) ENT_MACC d' = 0) /\
    fst tl = d /\ fst ts = d /\ 0 <= snd tl /\ 0 <= snd ts /\
    Forall (fun l => fst (LockedUnd_Amount l) = d /\ 0 <= snd (LockedUnd_Amount l)) L /\
    Forall (fun l => fst (SpentEFUND_Amount l) = d /\ 0 <= snd (SpentEFUND_Amount l)) LS.
Proof. reflexivity. Qed.

(* ================================================================== *)
(* part 6: a concrete run on 20-byte addresses                          *)
(* ================================================================== *)

(* 20-byte addresses for the account numbers 0..254: nineteen zero bytes, then the number + 1 *)
Definition os_ex_dom (a : Z) : Prop := 0 <= a < 255.
Definition os_ex_emb (a : Z) : list N := repeat 0%N 19 ++ [(Z.to_N a + 1)%N].
Definition os_ex_unemb (b : list N) : Z := Z.of_N (last b 1%N) - 1.

Lemma os_ex_unemb_emb a : os_ex_dom a -> os_ex_unemb (os_ex_emb a) = a.
Proof.
  unfold os_ex_dom, os_ex_unemb, os_ex_emb. intros H. rewrite last_last, N2Z.inj_add, Z2N.id by lia.
  change (Z.of_N 1) with 1. lia.
Qed.

Lemma os_ex_hyps : emb_hyps os_ex_dom os_ex_emb os_ex_unemb.
Proof.
  split; [exact (left_inverse_injective os_ex_dom os_ex_emb os_ex_unemb os_ex_unemb_emb)|].
  split; [exact os_ex_unemb_emb|]. split.
  - intros a _ E. unfold os_ex_emb in E. symmetry in E. exact (app_cons_not_nil _ _ _ E).
  - intros a H. unfold os_ex_dom in H. unfold addr_parses, BAD_ADDR, EMPTY_ADDR.
    destruct (Z.eqb_spec a (-999)); [lia|]. destruct (Z.eqb_spec a (-100)); [lia|]. reflexivity.
Qed.

(* genesis: signers 5 and 6, two accepts needed, 100 s to decide, denomination nund, first id 1; account 7 holds 100 nund -
   on the byte store: the Params cell and the HighestPurchaseOrderID cell, nothing else *)
Definition os_ex_params : go_Params := mk_go_Params [5; 6] NUND 2 100.
Definition os_ex_bank : bank := {| bal := [((7, NUND), 100)]; supply := [(NUND, 100)] |}.
Definition os_ex_store0 : okv enterprise_val := okv_set (okv_set [] kparams (EV_Params os_ex_params)) khighest (v_id 1).
Definition os_ex_sw0 : esworld := mk_esworld os_ex_emb os_ex_unemb 0 os_ex_bank os_ex_store0.
Definition os_ex_mw0 : ent_world := {| w_bank := os_ex_bank; w_ent := ent_genesis (params_of_go os_ex_params) 1 []; w_now := 0 |}.
Definition os_ex_kw0 : eworld := eworld_of_ent os_ex_mw0.

(* the store is the one InitGenesis builds: SetParams, then SetHighestPurchaseOrderID *)
Example os_ex_store0_init :
  (do x <- go_st_SetParams [] os_ex_params; go_st_SetHighestPurchaseOrderID (fst x) 1) = Ok (os_ex_store0, tt).
Proof. vm_compute. reflexivity. Qed.

Lemma os_ex_Rwi0 : Rwi os_ex_dom os_ex_emb os_ex_unemb os_ex_kw0 os_ex_sw0.
Proof.
  split.
  - split; [reflexivity|]. split; [reflexivity|]. split; [reflexivity|]. split; [reflexivity|].
    exact (Rent_init os_ex_dom os_ex_emb os_ex_params 1 ltac:(lia)).
  - split; [intros id []|intros id o []].
Qed.

Lemma os_ex_inv0 : ent_inv os_ex_mw0.
Proof.
  apply ent_inv_genesis; [vm_compute; reflexivity | lia | unfold two63; lia|]. intros d. reflexivity.
Qed.

(* block 1 (time 1700000000): signer 5 whitelists account 7; account 7 raises an order of 500 nund (id 1), account 8 (not
   whitelisted) is refused; signer 5 accepts, tries again (refused), signer 6 accepts; account 7 tries to change the
   parameters (not the authority).  Block 2: the tally accepts order 1.  Block 3: ProcessAcceptedPurchaseOrders mints 500 nund
   and locks them for account 7; a WRKChain transaction of account 7 with a fee of 30 nund unlocks 30. *)
Definition os_ex_hist : list hop :=
  [ HBegin 1700000000;
    HMsg (EWhitelist 5 7 1); HMsg (ERaise 7 NUND 500); HMsg (ERaise 8 NUND 10);
    HMsg (EDecide 5 1 ST_ACCEPTED); HMsg (EDecide 5 1 ST_ACCEPTED); HMsg (EDecide 6 1 ST_ACCEPTED);
    HUpdateParams (mk_go_MsgUpdateParams 7 os_ex_params);
    HBegin 1700000010;
    HBegin 1700000020;
    HUnlock 7 [(NUND, 30)] ].

Lemma hist_side_cons_ok dom w o h w' r :
  hop_side dom w o -> k_deliver w o = Ok (w', r) -> hist_side dom w' h -> hist_side dom w (o :: h).
Proof. intros Ho E Hh. cbn [hist_side]. rewrite E. split; assumption. Qed.
Lemma hist_side_cons_err dom w o h e :
  hop_side dom w o -> k_deliver w o = Err e -> is_begin o = false -> hist_side dom w h -> hist_side dom w (o :: h).
Proof. intros Ho E B Hh. cbn [hist_side]. rewrite E, B. split; assumption. Qed.
Lemma mhist_side_cons_ok w o h w' r :
  mop_side (world_of w) o -> k_deliver w o = Ok (w', r) -> mhist_side w' h -> mhist_side w (o :: h).
Proof. intros Ho E Hh. cbn [mhist_side]. rewrite E. split; assumption. Qed.
Lemma mhist_side_cons_err w o h e :
  mop_side (world_of w) o -> k_deliver w o = Err e -> is_begin o = false -> mhist_side w h -> mhist_side w (o :: h).
Proof. intros Ho E B Hh. cbn [mhist_side]. rewrite E, B. split; assumption. Qed.

Ltac os_ex_side :=
  cbn [hop_side ent_msg_side]; unfold pdom, os_ex_dom, ent_params_range, denom_ok;
  first [ exact I | lia | (intros _; lia) | (split; [intros _; lia | vm_compute; reflexivity])
        | (split; [vm_compute; repeat split; intros X; discriminate X | left; vm_compute; intros X; discriminate X]) ].

Lemma os_ex_hist_side : hist_side os_ex_dom os_ex_kw0 os_ex_hist.
Proof.
  unfold os_ex_hist.
  repeat first [ (eapply hist_side_cons_ok; [os_ex_side | vm_compute; reflexivity |])
               | (eapply hist_side_cons_err; [os_ex_side | vm_compute; reflexivity | reflexivity |]) ].
  exact I.
Qed.

(* the on-store rendering runs: the results of the eleven steps; what the generated accessors read back from the final
   byte store (addresses are 20 bytes: the whitelist / locked / spent keys are 21 bytes long) *)
Example os_ex_onstore_run :
  let ws := snd (s_run os_ex_sw0 os_ex_hist) in
  fst (s_run os_ex_sw0 os_ex_hist) =
    [ Ok RBegin; Ok (RMsg 0); Ok (RMsg 1); Err ERR_ENT_NOT_WL; Ok (RMsg 0); Err ERR_ENT_ALREADY; Ok (RMsg 0); Err 42;
      Ok RBegin; Ok RBegin; Ok RUnlock ] /\
  map (fun kv => List.length (fst kv)) (esw_store ws) = [9; 21; 21; 21; 1; 1; 1; 1]%nat /\
  os_ent_GetPurchaseOrder ws 1 =
    Ok (mk_go_EnterpriseUndPurchaseOrder 1 7 (NUND, 500) enterprise_StatusCompleted 1700000000 1700000010
          [mk_go_PurchaseOrderDecision 5 ST_ACCEPTED 1700000000; mk_go_PurchaseOrderDecision 6 ST_ACCEPTED 1700000000], true) /\
  os_ent_GetAllRaisedPurchaseOrders ws = Ok [] /\ os_ent_GetAllAcceptedPurchaseOrders ws = Ok [] /\
  os_ent_GetHighestPurchaseOrderID ws = Ok 2 /\
  os_ent_AddressIsWhitelisted ws 7 = Ok true /\ os_ent_AddressIsWhitelisted ws 8 = Ok false /\
  os_ent_GetLockedUndForAccount ws 7 = Ok (mk_go_LockedUnd 7 (NUND, 470)) /\
  os_ent_GetSpentEFUNDForAccount ws 7 = Ok (mk_go_SpentEFUND 7 (NUND, 30)) /\
  os_ent_GetTotalLockedUnd ws = Ok (NUND, 470) /\ os_ent_GetTotalSpentEFUND ws = Ok (NUND, 30) /\
  balance (esw_bank ws) ENT_MACC NUND = 470 /\ balance (esw_bank ws) 7 NUND = 130 /\ supply_of (esw_bank ws) NUND = 600.
Proof. vm_compute. repeat split; reflexivity. Qed.

(* ... and it is related to the run of rendering (1): by the theorem, and by computation *)
Example os_ex_onstore_related :
  fst (k_run os_ex_kw0 os_ex_hist) = fst (s_run os_ex_sw0 os_ex_hist) /\
  Rwi os_ex_dom os_ex_emb os_ex_unemb (snd (k_run os_ex_kw0 os_ex_hist)) (snd (s_run os_ex_sw0 os_ex_hist)).
Proof. exact (sim_run os_ex_dom os_ex_emb os_ex_unemb os_ex_hyps os_ex_hist os_ex_kw0 os_ex_sw0 os_ex_Rwi0 os_ex_hist_side). Qed.

Example os_ex_onstore_traces_computed : fst (k_run os_ex_kw0 os_ex_hist) = fst (s_run os_ex_sw0 os_ex_hist).
Proof. vm_compute. reflexivity. Qed.

(* the side conditions of the link to the model's invariant hold along this run too ... *)
Ltac os_ex_nodup :=
  repeat constructor; cbn [In]; intros X; repeat (destruct X as [X|X]; [discriminate X|]); exact X.
Ltac os_ex_vc := vm_compute; repeat split; first [ reflexivity | (intros X; discriminate X) | exact I ].
Ltac os_ex_mside :=
  match goal with
  | |- mop_side _ (HBegin _) =>
      split; [os_ex_vc | split; [apply decisions_fit_rows; vm_compute; reflexivity | vm_compute; reflexivity]]
  | |- mop_side _ (HMsg _) => split; [os_ex_vc | vm_compute; reflexivity]
  | |- mop_side _ (HUpdateParams _) => split; [vm_compute; reflexivity | exact I]
  | |- mop_side _ (HUnlock _ _) =>
      split; [split; [os_ex_vc | split; [repeat constructor | vm_compute; os_ex_nodup]]
             | split; [vm_compute; os_ex_nodup | vm_compute; reflexivity]]
  end.

Lemma os_ex_mhist_side : mhist_side os_ex_kw0 os_ex_hist.
Proof.
  unfold os_ex_hist.
  repeat first [ (eapply mhist_side_cons_ok; [os_ex_mside | vm_compute; reflexivity |])
               | (eapply mhist_side_cons_err; [os_ex_mside | vm_compute; reflexivity | reflexivity |]) ].
  exact I.
Qed.

(* ... so that, by the transported C04 and not by computation, the books read from the final bytes balance *)
Example os_ex_onstore_books : os_books (snd (s_run os_ex_sw0 os_ex_hist)).
Proof.
  exact (proj1 (os_run_books_balance os_ex_dom os_ex_emb os_ex_unemb os_ex_hyps os_ex_mw0 os_ex_sw0 os_ex_hist
                  os_ex_inv0 os_ex_Rwi0 os_ex_hist_side os_ex_mhist_side)).
Qed.

(* ---- the hypothesis of the tally ([tally_pre]) is needed ---- *)
(* orders 1 and 2 are raised, order 2 is accepted by the tally of block 2 (accepted queue [2], raised queue [1]); then the
   two signers accept order 1.  A SECOND tally without ProcessAcceptedPurchaseOrders in between (which the begin blocker never
   does) accepts order 1: the primitive appends it to the accepted queue ([2; 1]), the byte store lists the queue in id
   order ([1; 2]).  Both renderings answer Ok, from related worlds - the worlds they leave are not related any more. *)
Definition tp_hist : list hop :=
  [ HBegin 1700000000; HMsg (EWhitelist 5 7 1); HMsg (ERaise 7 NUND 500); HMsg (ERaise 7 NUND 300);
    HMsg (EDecide 5 2 ST_ACCEPTED); HMsg (EDecide 6 2 ST_ACCEPTED);
    HBegin 1700000010;
    HMsg (EDecide 5 1 ST_ACCEPTED); HMsg (EDecide 6 1 ST_ACCEPTED) ].
Definition tp_w : eworld := snd (k_run os_ex_kw0 tp_hist).
Definition tp_ws : esworld := snd (s_run os_ex_sw0 tp_hist).

Lemma tp_hist_side : hist_side os_ex_dom os_ex_kw0 tp_hist.
Proof.
  unfold tp_hist.
  repeat first [ (eapply hist_side_cons_ok; [os_ex_side | vm_compute; reflexivity |])
               | (eapply hist_side_cons_err; [os_ex_side | vm_compute; reflexivity | reflexivity |]) ].
  exact I.
Qed.

Example tally_pre_needed_refuted :
  Rwi os_ex_dom os_ex_emb os_ex_unemb tp_w tp_ws /\
  ent_GetAllAcceptedPurchaseOrders tp_w = [2] /\ ent_GetAllRaisedPurchaseOrders tp_w = [1] /\
  exists w' ws',
    K.go_TallyPurchaseOrderDecisions tp_w = Ok (w', tt) /\
    S.go_TallyPurchaseOrderDecisions tp_ws = Ok (ws', tt) /\
    ent_GetAllAcceptedPurchaseOrders w' = [2; 1] /\
    os_ent_GetAllAcceptedPurchaseOrders ws' = Ok [1; 2] /\
    ~ Rw os_ex_dom os_ex_emb os_ex_unemb w' ws'.
Proof.
  split; [exact (proj2 (sim_run os_ex_dom os_ex_emb os_ex_unemb os_ex_hyps tp_hist os_ex_kw0 os_ex_sw0 os_ex_Rwi0 tp_hist_side))|].
  split; [vm_compute; reflexivity|]. split; [vm_compute; reflexivity|].
  eexists. eexists. split; [vm_compute; reflexivity|]. split; [vm_compute; reflexivity|].
  split; [vm_compute; reflexivity|]. split; [vm_compute; reflexivity|].
  intros HR. pose proof (prim_GetAllAcceptedPurchaseOrders os_ex_dom os_ex_emb os_ex_unemb _ _ HR) as E.
  vm_compute in E. discriminate E.
Qed.

Lemma tp_defs :
  tp_hist =
    [ HBegin 1700000000; HMsg (EWhitelist 5 7 1); HMsg (ERaise 7 NUND 500); HMsg (ERaise 7 NUND 300);
      HMsg (EDecide 5 2 ST_ACCEPTED); HMsg (EDecide 6 2 ST_ACCEPTED);
      HBegin 1700000010;
      HMsg (EDecide 5 1 ST_ACCEPTED); HMsg (EDecide 6 1 ST_ACCEPTED) ] /\
  tp_w = snd (k_run os_ex_kw0 tp_hist) /\ tp_ws = snd (s_run os_ex_sw0 tp_hist).
Proof. split; [reflexivity|]. split; reflexivity. Qed.

(* ---- the bound on the id counter is needed ---- *)
(* genesis with the LAST uint64 as first id.  The first raise queues 2^64 - 1 and the counter wraps to 0 (alike in both
   renderings: the worlds are still related by Rw, but a raised id is no longer below the counter); the second raise queues
   id 0: the primitive appends it ([2^64 - 1; 0]), the byte store lists it first ([0; 2^64 - 1]). *)
Definition cb_last : Z := 18446744073709551615.
Definition cb_sw0 : esworld :=
  mk_esworld os_ex_emb os_ex_unemb 0 os_ex_bank (okv_set (okv_set [] kparams (EV_Params os_ex_params)) khighest (v_id cb_last)).
Definition cb_kw0 : eworld := mk_eworld 0 os_ex_bank (init_state os_ex_params cb_last).
Definition cb_hist : list hop := [ HBegin 1700000000; HMsg (EWhitelist 5 7 1) ].

Lemma cb_Rwi0 : Rwi os_ex_dom os_ex_emb os_ex_unemb cb_kw0 cb_sw0.
Proof.
  split.
  - split; [reflexivity|]. split; [reflexivity|]. split; [reflexivity|]. split; [reflexivity|].
    exact (Rent_init os_ex_dom os_ex_emb os_ex_params cb_last ltac:(unfold cb_last; lia)).
  - split; [intros id []|intros id o []].
Qed.

Lemma cb_hist_side : hist_side os_ex_dom cb_kw0 cb_hist.
Proof.
  unfold cb_hist.
  repeat first [ (eapply hist_side_cons_ok; [os_ex_side | vm_compute; reflexivity |])
               | (eapply hist_side_cons_err; [os_ex_side | vm_compute; reflexivity | reflexivity |]) ].
  exact I.
Qed.

Example counter_bound_needed_refuted :
  let w := snd (k_run cb_kw0 cb_hist) in
  let ws := snd (s_run cb_sw0 cb_hist) in
  let two_raises := [HMsg (ERaise 7 NUND 500); HMsg (ERaise 7 NUND 300)] in
  Rwi os_ex_dom os_ex_emb os_ex_unemb w ws /\ e_next (ew_ent w) = 2 ^ 64 - 1 /\
  fst (k_run w two_raises) = [Ok (RMsg cb_last); Ok (RMsg 0)] /\
  fst (s_run ws two_raises) = [Ok (RMsg cb_last); Ok (RMsg 0)] /\
  ent_GetAllRaisedPurchaseOrders (snd (k_run w two_raises)) = [cb_last; 0] /\
  os_ent_GetAllRaisedPurchaseOrders (snd (s_run ws two_raises)) = Ok [0; cb_last] /\
  ~ Rw os_ex_dom os_ex_emb os_ex_unemb (snd (k_run w two_raises)) (snd (s_run ws two_raises)).
Proof.
  cbv zeta.
  split; [exact (proj2 (sim_run os_ex_dom os_ex_emb os_ex_unemb os_ex_hyps cb_hist cb_kw0 cb_sw0 cb_Rwi0 cb_hist_side))|].
  split; [vm_compute; reflexivity|]. split; [vm_compute; reflexivity|]. split; [vm_compute; reflexivity|].
  split; [vm_compute; reflexivity|]. split; [vm_compute; reflexivity|].
  intros HR. pose proof (prim_GetAllRaisedPurchaseOrders os_ex_dom os_ex_emb os_ex_unemb _ _ HR) as E.
  vm_compute in E. discriminate E.
Qed.

(* ---- statements assembled for props/C04onstoreenterprise.v ---- *)
Lemma pdom_spelled :
  forall (dom : addr -> Prop) (a : addr), pdom dom a <-> (addr_parses a = true -> dom a).
Proof. intros dom a. reflexivity. Qed.

Lemma k_deliver_model_spelled :
  forall (mw : ent_world) (o : hop) (w' : eworld) (r : hresp),
  ent_inv mw ->
  (ent_op_wf mw (match o with
                 | HBegin t => OBegin t
                 | HMsg m => OMsg m
                 | HUpdateParams req => OSetParams (params_of_go (MsgUpdateParams_Params req))
                 | HUnlock payer fee => OUnlock payer fee
                 end) /\
   match o with
   | HBegin _ => decisions_fit (w_ent mw) /\ Z.of_nat (List.length (ep_signers (e_params (w_ent mw)))) < two63
   | HMsg _ => e_next (w_ent mw) < two64 - 1
   | HUpdateParams _ => True
   | HUnlock payer _ => bank_wf (w_bank mw) /\ 0 < snd (locked_coin (w_ent mw) payer)
   end) ->
  k_deliver (eworld_of_ent mw) o = Ok (w', r) ->
  exists mw', w' = eworld_of_ent mw' /\
    ent_step mw (match o with
                 | HBegin t => OBegin t
                 | HMsg m => OMsg m
                 | HUpdateParams req => OSetParams (params_of_go (MsgUpdateParams_Params req))
                 | HUnlock payer fee => OUnlock payer fee
                 end) = Some mw'.
Proof. exact (fun mw o w' r I M => k_deliver_model mw o w' r I (proj2 (mop_side_spelled mw o) M)). Qed.

Lemma os_ex_embedding :
  (forall a, os_ex_dom a <-> 0 <= a < 255) /\
  (forall a, os_ex_emb a = repeat 0%N 19 ++ [(Z.to_N a + 1)%N]) /\
  (forall b, os_ex_unemb b = Z.of_N (last b 1%N) - 1) /\
  emb_hyps os_ex_dom os_ex_emb os_ex_unemb.
Proof. exact (conj (fun a => iff_refl _) (conj (fun a => eq_refl) (conj (fun b => eq_refl) os_ex_hyps))). Qed.

Lemma os_ex_initial :
  os_ex_params = mk_go_Params [5; 6] NUND 2 100 /\
  os_ex_bank = {| bal := [((7, NUND), 100)]; supply := [(NUND, 100)] |} /\
  (do x <- go_st_SetParams [] os_ex_params; go_st_SetHighestPurchaseOrderID (fst x) 1) = Ok (os_ex_store0, tt) /\
  os_ex_sw0 = mk_esworld os_ex_emb os_ex_unemb 0 os_ex_bank os_ex_store0 /\
  os_ex_mw0 = {| w_bank := os_ex_bank; w_ent := ent_genesis (params_of_go os_ex_params) 1 []; w_now := 0 |} /\
  os_ex_kw0 = eworld_of_ent os_ex_mw0 /\
  Rwi os_ex_dom os_ex_emb os_ex_unemb os_ex_kw0 os_ex_sw0 /\
  ent_inv os_ex_mw0.
Proof.
  exact (conj eq_refl (conj eq_refl (conj os_ex_store0_init (conj eq_refl (conj eq_refl (conj eq_refl
          (conj os_ex_Rwi0 os_ex_inv0))))))).
Qed.

Lemma os_ex_onstore_run_spelled :
  os_ex_hist =
    [ HBegin 1700000000;
      HMsg (EWhitelist 5 7 1); HMsg (ERaise 7 NUND 500); HMsg (ERaise 8 NUND 10);
      HMsg (EDecide 5 1 ST_ACCEPTED); HMsg (EDecide 5 1 ST_ACCEPTED); HMsg (EDecide 6 1 ST_ACCEPTED);
      HUpdateParams (mk_go_MsgUpdateParams 7 os_ex_params);
      HBegin 1700000010;
      HBegin 1700000020;
      HUnlock 7 [(NUND, 30)] ] /\
  let ws := snd (s_run os_ex_sw0 os_ex_hist) in
  fst (s_run os_ex_sw0 os_ex_hist) =
    [ Ok RBegin; Ok (RMsg 0); Ok (RMsg 1); Err ERR_ENT_NOT_WL; Ok (RMsg 0); Err ERR_ENT_ALREADY; Ok (RMsg 0); Err 42;
      Ok RBegin; Ok RBegin; Ok RUnlock ] /\
  map (fun kv => List.length (fst kv)) (esw_store ws) = [9; 21; 21; 21; 1; 1; 1; 1]%nat /\
  os_ent_GetPurchaseOrder ws 1 =
    Ok (mk_go_EnterpriseUndPurchaseOrder 1 7 (NUND, 500) enterprise_StatusCompleted 1700000000 1700000010
          [mk_go_PurchaseOrderDecision 5 ST_ACCEPTED 1700000000; mk_go_PurchaseOrderDecision 6 ST_ACCEPTED 1700000000], true) /\
  os_ent_GetAllRaisedPurchaseOrders ws = Ok [] /\ os_ent_GetAllAcceptedPurchaseOrders ws = Ok [] /\
  os_ent_GetHighestPurchaseOrderID ws = Ok 2 /\
  os_ent_AddressIsWhitelisted ws 7 = Ok true /\ os_ent_AddressIsWhitelisted ws 8 = Ok false /\
  os_ent_GetLockedUndForAccount ws 7 = Ok (mk_go_LockedUnd 7 (NUND, 470)) /\
  os_ent_GetSpentEFUNDForAccount ws 7 = Ok (mk_go_SpentEFUND 7 (NUND, 30)) /\
  os_ent_GetTotalLockedUnd ws = Ok (NUND, 470) /\ os_ent_GetTotalSpentEFUND ws = Ok (NUND, 30) /\
  balance (esw_bank ws) ENT_MACC NUND = 470 /\ balance (esw_bank ws) 7 NUND = 130 /\ supply_of (esw_bank ws) NUND = 600.
Proof. exact (conj eq_refl os_ex_onstore_run). Qed.

Lemma os_ex_onstore_related_all :
  hist_side os_ex_dom os_ex_kw0 os_ex_hist /\ mhist_side os_ex_kw0 os_ex_hist /\
  fst (k_run os_ex_kw0 os_ex_hist) = fst (s_run os_ex_sw0 os_ex_hist) /\
  Rwi os_ex_dom os_ex_emb os_ex_unemb (snd (k_run os_ex_kw0 os_ex_hist)) (snd (s_run os_ex_sw0 os_ex_hist)) /\
  os_books (snd (s_run os_ex_sw0 os_ex_hist)).
Proof.
  exact (conj os_ex_hist_side (conj os_ex_mhist_side (conj (proj1 os_ex_onstore_related) (conj (proj2 os_ex_onstore_related)
          os_ex_onstore_books)))).
Qed.

Lemma tally_pre_needed_refuted_spelled :
  tp_hist =
    [ HBegin 1700000000; HMsg (EWhitelist 5 7 1); HMsg (ERaise 7 NUND 500); HMsg (ERaise 7 NUND 300);
      HMsg (EDecide 5 2 ST_ACCEPTED); HMsg (EDecide 6 2 ST_ACCEPTED);
      HBegin 1700000010;
      HMsg (EDecide 5 1 ST_ACCEPTED); HMsg (EDecide 6 1 ST_ACCEPTED) ] /\
  tp_w = snd (k_run os_ex_kw0 tp_hist) /\ tp_ws = snd (s_run os_ex_sw0 tp_hist) /\
  Rwi os_ex_dom os_ex_emb os_ex_unemb tp_w tp_ws /\
  ent_GetAllAcceptedPurchaseOrders tp_w = [2] /\ ent_GetAllRaisedPurchaseOrders tp_w = [1] /\
  exists w' ws',
    K.go_TallyPurchaseOrderDecisions tp_w = Ok (w', tt) /\
    S.go_TallyPurchaseOrderDecisions tp_ws = Ok (ws', tt) /\
    ent_GetAllAcceptedPurchaseOrders w' = [2; 1] /\
    os_ent_GetAllAcceptedPurchaseOrders ws' = Ok [1; 2] /\
    ~ Rw os_ex_dom os_ex_emb os_ex_unemb w' ws'.
Proof. exact (conj (proj1 tp_defs) (conj (proj1 (proj2 tp_defs)) (conj (proj2 (proj2 tp_defs)) tally_pre_needed_refuted))). Qed.

Print Assumptions sim_primitives.
Print Assumptions sim_primitives_inv.
Print Assumptions prim_GetParamEntSignersAsAddressArray.
Print Assumptions sim_locked.
Print Assumptions sim_blocker.
Print Assumptions sim_purchase_whitelist.
Print Assumptions sim_msg_server.
Print Assumptions pure_functions_agree.
Print Assumptions sim_msg_exec.
Print Assumptions sim_deliver.
Print Assumptions sim_deliver_spelled.
Print Assumptions sim_run.
Print Assumptions k_deliver_model.
Print Assumptions k_run_kinv.
Print Assumptions os_books_balance.
Print Assumptions os_run_books_balance.
Print Assumptions os_tally_rule.
Print Assumptions os_begin_block_mints.
Print Assumptions os_ex_onstore_run.
Print Assumptions os_ex_onstore_related.
Print Assumptions os_ex_onstore_books.
Print Assumptions tally_pre_needed_refuted.
Print Assumptions counter_bound_needed_refuted.
