(* Frame / atomicity facts about the application model (C14):
   runTx's two cache layers, what the ante chain may touch, all-or-nothing message execution,
   CheckTx never executing messages, EndBlock proposals being atomic. *)
From MC Require Import lib.Prelude lib.AMap model.Bank model.Stream model.Registry model.Enterprise
  model.App model.AppSpec.
From MC Require Import proofs.BankProofs.
From Coq Require Import ZifyBool.
Ltac Zify.zify_post_hook ::= Z.div_mod_to_equations.
Local Open Scope Z_scope.

(* ---------- outcome folds ---------- *)

Definition ofold {A B} (g : A -> B -> outcome A) (l : list B) (acc : outcome A) : outcome A :=
  fold_left (fun acc m => obind acc (fun a1 => g a1 m)) l acc.

Lemma ofold_err {A B} (g : A -> B -> outcome A) l c : ofold g l (Err c) = Err c.
Proof. unfold ofold. induction l as [|m l IH]; cbn; auto. Qed.

Lemma ofold_panic {A B} (g : A -> B -> outcome A) l c : ofold g l (Panic c) = Panic c.
Proof. unfold ofold. induction l as [|m l IH]; cbn; auto. Qed.

Lemma ofold_nil {A B} (g : A -> B -> outcome A) acc : ofold g [] acc = acc.
Proof. reflexivity. Qed.

Lemma ofold_cons {A B} (g : A -> B -> outcome A) m l a :
  ofold g (m :: l) (Ok a) = ofold g l (g a m).
Proof. reflexivity. Qed.

Lemma ofold_cons_ok {A B} (g : A -> B -> outcome A) m l a a1 :
  g a m = Ok a1 -> ofold g (m :: l) (Ok a) = ofold g l (Ok a1).
Proof. intros E. rewrite ofold_cons, E. reflexivity. Qed.

Lemma ofold_app {A B} (g : A -> B -> outcome A) l1 l2 acc :
  ofold g (l1 ++ l2) acc = ofold g l2 (ofold g l1 acc).
Proof. unfold ofold. apply fold_left_app. Qed.

(* the induction principle: a successful fold went through a chain of successful steps *)
Lemma ofold_ok_inv {A B} (g : A -> B -> outcome A) m l a a' :
  ofold g (m :: l) (Ok a) = Ok a' -> exists a1, g a m = Ok a1 /\ ofold g l (Ok a1) = Ok a'.
Proof.
  rewrite ofold_cons. destruct (g a m) as [a1|c|c] eqn:E.
  - eauto.
  - rewrite ofold_err. discriminate.
  - rewrite ofold_panic. discriminate.
Qed.

Lemma ofold_invariant {A B} (g : A -> B -> outcome A) (P : A -> Prop) (Q : B -> Prop) :
  (forall a m a1, P a -> Q m -> g a m = Ok a1 -> P a1) ->
  forall l a a', P a -> Forall Q l -> ofold g l (Ok a) = Ok a' -> P a'.
Proof.
  intros Hs. induction l as [|m l IH]; intros a a' Pa Fl H.
  - rewrite ofold_nil in H. injection H as <-. exact Pa.
  - apply ofold_ok_inv in H as (a1 & E1 & E2). inversion Fl as [|? ? Qm Ql]; subst.
    apply (IH a1 a'); auto. eapply Hs; eauto.
Qed.

(* a fold that does not end in Ok ends in the first failure *)
Lemma ofold_first_failure {A B} (g : A -> B -> outcome A) pre m post a ak :
  ofold g pre (Ok a) = Ok ak ->
  (forall c, g ak m = Err c -> ofold g (pre ++ m :: post) (Ok a) = Err c) /\
  (forall c, g ak m = Panic c -> ofold g (pre ++ m :: post) (Ok a) = Panic c).
Proof.
  intros Hp. split; intros c E; rewrite ofold_app, Hp, ofold_cons, E.
  - apply ofold_err.
  - apply ofold_panic.
Qed.

Lemma exec_all_ofold a t : exec_all a t = ofold (exec_msg (tx_fuel t)) (tx_msgs t) (Ok a).
Proof. reflexivity. Qed.

Lemma exec_proposal_ofold a ms :
  exec_proposal a ms =
  match ofold (fun a1 m => exec_msg (S (S (msg_depth m))) a1 m) ms (Ok a) with Ok a' => a' | _ => a end.
Proof. reflexivity. Qed.

Lemma exec_msg_exec f a g inner :
  exec_msg (S f) a (MExec g inner) =
  ofold (fun a1 i => if (msg_signer i =? g) || has_grant a1 (msg_signer i) g (msg_type i)
                     then exec_msg f a1 i else Err ERR_AUTHZ) inner (Ok a).
Proof. reflexivity. Qed.

Ltac dobind H :=
  match type of H with
  | obind ?e _ = _ =>
      let E := fresh "E" in destruct e eqn:E; cbn [obind] in H; try discriminate H
  end.

(* ---------- 1. a failed transaction keeps exactly the ante effects ---------- *)

Lemma failed_tx_atomic a t a' r :
  deliver_tx a t = (a', r) ->
  match r with
  | TxOk => True
  | TxRejected _ => a' = a
  | TxPanicked 0 _ => a' = a
  | TxPanicked 1 _ => a' = a
  | TxFailed _ => ante false a t = Ok a'
  | TxPanicked _ _ => ante false a t = Ok a'
  end.
Proof.
  unfold deliver_tx. destruct (validate_all t) as [u|c|c].
  - destruct (ante false a t) as [a1|c|c].
    + destruct (exec_all a1 t) as [a2|c|c]; intros [= <- <-]; auto.
    + intros [= <- <-]; auto.
    + intros [= <- <-]; auto.
  - intros [= <- <-]; auto.
  - intros [= <- <-]; auto.
Qed.

(* ---------- 2. what the ante chain touches ---------- *)

Lemma send_coins_other b from to cs b' x d :
  send_coins b from to cs = Ok b' -> x <> from -> x <> to -> balance b' x d = balance b x d.
Proof.
  revert b. induction cs as [|c r IH]; intros b H N1 N2; cbn [send_coins] in H.
  - injection H as <-. reflexivity.
  - dobind H. rename a into b1. rewrite (IH _ H N1 N2).
    apply bank_send_inv in E as (_ & _ & M). eapply moved_other; eauto.
Qed.

Definition ent_core (e : ent_state) :=
  (e_params e, e_next e, e_pos e, e_raisedq e, e_acceptedq e, e_wl e).

Lemma coin_add_ok c d r : coin_add c d = Ok r -> True.
Proof. auto. Qed.

Lemma decrement_locked_core s a c s' : decrement_locked s a c = Ok s' -> ent_core s' = ent_core s.
Proof.
  unfold decrement_locked. intros H. dobind H. dobind H. injection H as <-. reflexivity.
Qed.

Lemma increment_spent_core s a c s' : increment_spent s a c = Ok s' -> ent_core s' = ent_core s.
Proof.
  unfold increment_spent. intros H. dobind H. dobind H. injection H as <-. reflexivity.
Qed.

Lemma increment_locked_core s a c s' : increment_locked s a c = Ok s' -> ent_core s' = ent_core s.
Proof.
  unfold increment_locked. intros H. dobind H. destruct (snd a0 <? 0); [discriminate|].
  dobind H. injection H as <-. reflexivity.
Qed.

Lemma unlock_for_fees_core b s payer fee b' s' :
  unlock_for_fees b s payer fee = Ok (b', s') -> ent_core s' = ent_core s.
Proof.
  unfold unlock_for_fees. destruct (fee_find fee (ep_denom (e_params s))) as [ftp|]; [|discriminate].
  destruct (negb (safesub_neg (locked_coin s payer) ftp)).
  - intros H. dobind H. dobind H. dobind H. injection H as <- <-.
    apply decrement_locked_core in E0. apply increment_spent_core in E1. congruence.
  - match goal with |- (if ?c then _ else _) = _ -> _ => destruct c end.
    + intros H. dobind H. dobind H. dobind H. injection H as <- <-.
      apply decrement_locked_core in E0. apply increment_spent_core in E1. congruence.
    + intros [= <- <-]. reflexivity.
Qed.

Definition non_ent_bank (a : app) := (a_wrk a, a_bcn a, a_str a, a_grants a, a_allow a, a_now a).

Lemma unlock_ante_frame a t a1 :
  unlock_ante a t = Ok a1 ->
  non_ent_bank a1 = non_ent_bank a /\ ent_core (a_ent a1) = ent_core (a_ent a) /\
  (is_registry_tx t = false -> a1 = a).
Proof.
  unfold unlock_ante.
  destruct (is_registry_tx t && (0 <? snd (locked_coin (a_ent a) (tx_payer t)))) eqn:C.
  - intros H. dobind H. destruct a0 as [b' e']. injection H as <-.
    apply unlock_for_fees_core in E. cbn. repeat split; auto.
    intros F. rewrite F in C. discriminate.
  - intros [= <-]. auto.
Qed.

Definition fee_payer_of (t : tx) : addr :=
  match tx_granter t with Some g => g | None => tx_payer t end.

Lemma deduct_fee_frame a t a1 :
  deduct_fee a t = Ok a1 ->
  non_ent_bank a1 = non_ent_bank a /\ a_ent a1 = a_ent a /\
  (forall x d, x <> fee_payer_of t -> x <> FEE_COLLECTOR ->
               balance (a_bank a1) x d = balance (a_bank a) x d).
Proof.
  unfold deduct_fee. intros H. dobind H. rename a0 into payer.
  assert (P : payer = fee_payer_of t).
  { unfold fee_payer_of. destruct (tx_granter t) as [g|].
    - destruct (g =? tx_payer t); [congruence|].
      match type of E with (if ?c then _ else _) = _ => destruct c end; [congruence|discriminate].
    - congruence. }
  destruct (tx_fee t) as [|c fee] eqn:F.
  - injection H as <-. auto.
  - destruct (negb (can_afford (a_bank a) payer (c :: fee))); [discriminate|].
    dobind H. injection H as <-. cbn. repeat split; auto.
    intros x d N1 N2. eapply send_coins_other; eauto. congruence.
Qed.

Lemma ante_stages check a t a1 :
  ante check a t = Ok a1 ->
  coins_valid (tx_fee t) = true /\
  reg_ante pick_wrk (a_wrk a) check (a_bank a) (a_ent a) t = Ok tt /\
  reg_ante pick_bcn (a_bcn a) check (a_bank a) (a_ent a) t = Ok tt /\
  tx_sig_ok t = true /\
  exists au, unlock_ante a t = Ok au /\ deduct_fee au t = Ok a1.
Proof.
  unfold ante. destruct (coins_valid (tx_fee t)); cbn [negb]; [|discriminate].
  intros H. dobind H. dobind H. dobind H. dobind H.
  destruct (tx_sig_ok t); [|discriminate]. injection H as <-.
  destruct a0, a2. repeat split; auto. eauto.
Qed.

Lemma ante_frame check a t a1 :
  ante check a t = Ok a1 ->
  a_wrk a1 = a_wrk a /\ a_bcn a1 = a_bcn a /\ a_str a1 = a_str a /\
  a_grants a1 = a_grants a /\ a_allow a1 = a_allow a /\ a_now a1 = a_now a /\
  e_params (a_ent a1) = e_params (a_ent a) /\ e_pos (a_ent a1) = e_pos (a_ent a) /\
  e_next (a_ent a1) = e_next (a_ent a) /\ e_raisedq (a_ent a1) = e_raisedq (a_ent a) /\
  e_acceptedq (a_ent a1) = e_acceptedq (a_ent a) /\ e_wl (a_ent a1) = e_wl (a_ent a) /\
  (is_registry_tx t = false ->
     a_ent a1 = a_ent a /\
     forall x d, x <> tx_payer t -> (forall g, tx_granter t = Some g -> x <> g) -> x <> FEE_COLLECTOR ->
                 balance (a_bank a1) x d = balance (a_bank a) x d).
Proof.
  intros H. apply ante_stages in H as (_ & _ & _ & _ & au & Hu & Hd).
  apply unlock_ante_frame in Hu as (U1 & U2 & U3).
  apply deduct_fee_frame in Hd as (D1 & D2 & D3).
  unfold non_ent_bank, ent_core in *. rewrite D2.
  injection U1 as ? ? ? ? ? ?. injection D1 as ? ? ? ? ? ?. injection U2 as ? ? ? ? ? ?.
  repeat (split; [congruence|]).
  intros Hreg. specialize (U3 Hreg). subst au. split; [reflexivity|].
  intros x d N1 N2 N3. apply D3; auto.
  unfold fee_payer_of. destruct (tx_granter t) as [g|]; auto.
Qed.

(* 1 + 2 together: whatever went wrong, the module state is as it was, apart from the locked / spent
   books a registry transaction's fee unlock moves *)
Lemma failed_tx_module_state a t a' r :
  deliver_tx a t = (a', r) -> r <> TxOk ->
  a_wrk a' = a_wrk a /\ a_bcn a' = a_bcn a /\ a_str a' = a_str a /\
  a_grants a' = a_grants a /\ a_allow a' = a_allow a /\ a_now a' = a_now a /\
  ent_core (a_ent a') = ent_core (a_ent a) /\
  (is_registry_tx t = false -> module_state a' = module_state a).
Proof.
  intros H N. apply failed_tx_atomic in H.
  assert (X : a' = a \/ ante false a t = Ok a').
  { destruct r as [|c|c|st c]; auto; [congruence|].
    destruct st as [|[p|p|]|p]; auto. }
  destruct X as [->|A]; [repeat split; auto|].
  apply ante_frame in A as (H1 & H2 & H3 & H4 & H5 & H6 & H7 & H8 & H9 & H10 & H11 & H12 & H13).
  unfold ent_core, module_state. repeat (split; [congruence|]).
  intros R. destruct (H13 R) as (E & _). congruence.
Qed.

(* ---------- 3. all or nothing ---------- *)

Lemma all_or_nothing a t a1 :
  ante false a t = Ok a1 -> validate_all t = Ok tt ->
  (exists a2, exec_all a1 t = Ok a2 /\ deliver_tx a t = (a2, TxOk)) \/
  (exists c, deliver_tx a t = (a1, TxFailed c) \/ exists st, deliver_tx a t = (a1, TxPanicked st c)).
Proof.
  intros Ha Hv. unfold deliver_tx. rewrite Hv, Ha.
  destruct (exec_all a1 t) as [a2|c|c]; [left|right|right]; eauto.
Qed.

Lemma exec_all_prefix a t pre m post ak :
  tx_msgs t = pre ++ m :: post ->
  ofold (exec_msg (tx_fuel t)) pre (Ok a) = Ok ak ->
  (forall c, exec_msg (tx_fuel t) ak m = Err c -> exec_all a t = Err c) /\
  (forall c, exec_msg (tx_fuel t) ak m = Panic c -> exec_all a t = Panic c).
Proof.
  intros Hm Hp. rewrite exec_all_ofold, Hm. apply ofold_first_failure; exact Hp.
Qed.

(* consequently the delivered state is the post-ante state: no message of the prefix survives *)
Lemma exec_all_prefix_deliver a t a1 pre m post ak :
  validate_all t = Ok tt -> ante false a t = Ok a1 ->
  tx_msgs t = pre ++ m :: post ->
  ofold (exec_msg (tx_fuel t)) pre (Ok a1) = Ok ak ->
  (forall c, exec_msg (tx_fuel t) ak m = Err c -> deliver_tx a t = (a1, TxFailed c)) /\
  (forall c, exec_msg (tx_fuel t) ak m = Panic c -> deliver_tx a t = (a1, TxPanicked 2 c)).
Proof.
  intros Hv Ha Hm Hp. destruct (exec_all_prefix a1 t pre m post ak Hm Hp) as [He Hpn].
  unfold deliver_tx. rewrite Hv, Ha. split; intros c E.
  - rewrite (He c E). reflexivity.
  - rewrite (Hpn c E). reflexivity.
Qed.

(* ---------- 4. CheckTx runs the ante chain only ---------- *)

Lemma check_tx_never_executes a t a' r :
  check_tx a t = (a', r) ->
  (r = TxOk -> ante true a t = Ok a') /\ (r <> TxOk -> a' = a).
Proof.
  unfold check_tx. destruct (validate_all t) as [u|c|c].
  - destruct (ante true a t) as [a1|c|c]; intros [= <- <-]; split; intros; congruence.
  - intros [= <- <-]; split; intros; congruence.
  - intros [= <- <-]; split; intros; congruence.
Qed.

(* ---------- 5. EndBlock ---------- *)

Lemma end_block_total a ps : exists a', end_block a ps = a'.
Proof. eauto. Qed.

Lemma end_block_cons a p ps : end_block a (p :: ps) = end_block (exec_proposal a p) ps.
Proof. reflexivity. Qed.

Lemma proposal_atomic a ms :
  exec_proposal a ms = a \/
  (exists a', fold_left (fun acc m => do a1 <- acc; exec_msg (S (S (msg_depth m))) a1 m) ms (Ok a) = Ok a' /\
              exec_proposal a ms = a').
Proof.
  unfold exec_proposal.
  destruct (fold_left _ ms (Ok a)) as [a'|c|c]; [right; eauto|left|left]; reflexivity.
Qed.
