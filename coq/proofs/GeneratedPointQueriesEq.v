(* The gRPC POINT queries of the four modules as generated from the Go source on every run: index.

   The proofs are split per module, because the generated keeper / types files of the modules share names (go_Params,
   go_GenesisState, reg_GetEntity, to_go_entity, sdk_AccAddressFromBech32, ...):
     proofs/GeneratedWrkchainPointQueryEq.v     WrkChain, WrkChainBlock, WrkChainStorage
     proofs/GeneratedBeaconPointQueryEq.v       Beacon, BeaconTimestamp, BeaconStorage
     proofs/GeneratedEnterprisePointQueryEq.v   EnterpriseUndPurchaseOrder, LockedUndByAddress, TotalSpentEFUND,
                                                SpentEFUNDByAddress, Whitelist, Whitelisted, EnterpriseAccount
     proofs/GeneratedStreamPointQueryEq.v       StreamByReceiverSender, StreamReceiverSenderCurrentFlow
   Each has three parts: (1) the exact behaviour of every handler on every request and world, as a complete case split
   with the exact error class; (2) C20 "each returned item [of a list query] equals what the corresponding point query
   returns", at the level of the model's stores; (3) "queries never modify state" - by type: every handler was rendered as
   a reader ([world -> request -> outcome response]); none returns a world.
   This file Requires them (without Import) under short names; props/C20generatedpoint.v states the results. *)
From MC Require proofs.GeneratedWrkchainPointQueryEq proofs.GeneratedBeaconPointQueryEq
  proofs.GeneratedEnterprisePointQueryEq proofs.GeneratedStreamPointQueryEq.
From MC Require GeneratedStreamTypes.

Module WPQ := MC.proofs.GeneratedWrkchainPointQueryEq.
Module BPQ := MC.proofs.GeneratedBeaconPointQueryEq.
Module EPQ := MC.proofs.GeneratedEnterprisePointQueryEq.
Module SPQ := MC.proofs.GeneratedStreamPointQueryEq.
Module SQT := MC.GeneratedStreamTypes.
