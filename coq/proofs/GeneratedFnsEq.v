(* The functions generated from /repo/x/stream/types/utils.go (coq/GeneratedFns.v, re-generated on every
   run) compute exactly what the hand-written model functions of model/Stream.v compute.

   Structure (so that the proofs survive a harmless re-generation):
     part 1  facts about the constants and the machine-integer conversions;
     part 2  arithmetic lemmas about the lib/GoSdk.v primitives, each proved separately;
     part 3  a small tactic that walks any straight-line / if-then-else body built from those
             primitives (it never mentions a temporary of the generated file);
     part 4  the three equalities. *)
From Coq Require Import ZifyBool.
From MC Require Import lib.Prelude lib.GoSdk GeneratedFns lib.AMap model.Bank model.Stream.
Local Open Scope Z_scope.

(* ------------------------------------------------------------------------------------------ *)
(* part 1: constants, conversions                                                             *)
(* ------------------------------------------------------------------------------------------ *)

Lemma PREC_DEC_ONE : PREC = DEC_ONE.  Proof. reflexivity. Qed.
Lemma NSEC_NS : NSEC = NS.  Proof. reflexivity. Qed.
Lemma PREC_pos : 0 < PREC.  Proof. reflexivity. Qed.
Lemma PREC_nz : PREC <> 0.  Proof. discriminate. Qed.
Lemma GO_PANIC_INT64_eq : GO_PANIC_INT64 = PANIC_INT64.  Proof. reflexivity. Qed.
Lemma GO_PANIC_NEGCOIN_eq : GO_PANIC_NEGCOIN = PANIC_NEGCOIN.  Proof. reflexivity. Qed.

Lemma Time_Unix_eq : Time_Unix = unix.  Proof. reflexivity. Qed.
Lemma Time_Nanosecond_eq : Time_Nanosecond = nanos.  Proof. reflexivity. Qed.

Lemma two64_two63 : two64 = 2 * two63.  Proof. reflexivity. Qed.
Lemma two63_pos : 0 < two63.  Proof. reflexivity. Qed.

Lemma i64_of_id : forall z, - two63 <= z < two63 -> i64_of z = z.
Proof.
  intros z H. unfold i64_of. rewrite two64_two63.
  pose proof two63_pos. rewrite Z.mod_small by lia. lia.
Qed.

Lemma wrap64_id : forall z, 0 <= z < two64 -> wrap64 z = z.
Proof. intros z H. unfold wrap64. apply Z.mod_small; exact H. Qed.

Lemma go_uint64_of_int64_id : forall x, 0 <= x < two63 -> go_uint64_of_int64 x = x.
Proof.
  intros x H. unfold go_uint64_of_int64. apply wrap64_id.
  rewrite two64_two63. lia.
Qed.

Lemma i64_sub_nowrap : forall a b, - two63 <= a - b < two63 -> i64_sub a b = a - b.
Proof. intros a b H. unfold i64_sub. apply i64_of_id; exact H. Qed.

(* ------------------------------------------------------------------------------------------ *)
(* part 2: the cosmos-sdk primitives                                                          *)
(* ------------------------------------------------------------------------------------------ *)

(* --- sdk.Int --- *)
Lemma Int_GT_ltb : forall a b, Int_GT a b = (b <? a).  Proof. reflexivity. Qed.
Lemma Int_Mul_mul : forall a b, Int_Mul a b = a * b.  Proof. reflexivity. Qed.
Lemma sdk_NewInt_id : forall x, sdk_NewInt x = x.  Proof. reflexivity. Qed.
Lemma sdk_NewIntFromUint64_id : forall x, sdk_NewIntFromUint64 x = x.  Proof. reflexivity. Qed.

(* --- sdk.Coin --- *)
Lemma Coin_Denom_pair : forall d a, Coin_Denom (d, a) = d.  Proof. reflexivity. Qed.
Lemma Coin_Amount_pair : forall d a, Coin_Amount (d, a) = a.  Proof. reflexivity. Qed.

Lemma sdk_NewCoin_ok : forall d a, 0 <= a -> sdk_NewCoin d a = Ok (d, a).
Proof.
  intros d a H. unfold sdk_NewCoin.
  destruct (a <? 0) eqn:E; [ apply Z.ltb_lt in E; lia | reflexivity ].
Qed.

Lemma Coin_Sub_ok : forall d a b, b <= a -> Coin_Sub (d, a) (d, b) = Ok (d, a - b).
Proof.
  intros d a b H. unfold Coin_Sub. cbn [fst snd].
  rewrite Z.eqb_refl. cbn [negb].
  destruct (a - b <? 0) eqn:E; [ apply Z.ltb_lt in E; lia | reflexivity ].
Qed.

Lemma sdk_NewDecCoinFromCoin_Amount_ok : forall d a,
  0 <= a -> sdk_NewDecCoinFromCoin_Amount (d, a) = Ok (sdk_NewDecFromInt a).
Proof.
  intros d a H. unfold sdk_NewDecCoinFromCoin_Amount. cbn [snd].
  destruct (a <? 0) eqn:E; [ apply Z.ltb_lt in E; lia | reflexivity ].
Qed.

(* --- time.Time --- *)
Lemma Time_After_or_Equal : forall a b, (Time_After a b || Time_Equal a b)%bool = (b <=? a).
Proof.
  intros a b. unfold Time_After, Time_Equal.
  destruct (b <? a) eqn:E1; destruct (a =? b) eqn:E2; destruct (b <=? a) eqn:E3;
    try reflexivity; exfalso;
    rewrite ?Z.ltb_lt, ?Z.ltb_ge, ?Z.eqb_eq, ?Z.eqb_neq, ?Z.leb_le, ?Z.leb_gt in *; lia.
Qed.

(* --- sdk.Dec --- *)
Lemma Dec_zero : sdk_NewDecFromInt 0 = 0.  Proof. reflexivity. Qed.

Lemma Dec_GT_zero : forall v, Dec_GT v 0 = (0 <? v).  Proof. reflexivity. Qed.

(* QuoTruncate of two integers lifted to Dec: the exact quotient scaled by 10^18, chopped *)
Lemma Dec_QuoTruncate_ints : forall a r, 0 <= a -> 0 < r ->
  Dec_QuoTruncate (sdk_NewDecFromInt a) (sdk_NewDecFromInt r) = a * PREC / r.
Proof.
  intros a r Ha Hr. unfold Dec_QuoTruncate, sdk_NewDecFromInt.
  pose proof PREC_pos as HP. pose proof PREC_nz as HN.
  assert (Hr0 : r <> 0) by lia.
  assert (H1 : 0 <= a * PREC * PREC * PREC) by (repeat apply Z.mul_nonneg_nonneg; lia).
  assert (H2 : 0 < r * PREC) by (apply Z.mul_pos_pos; assumption).
  rewrite (Z.quot_div_nonneg (a * PREC * PREC * PREC) (r * PREC)) by assumption.
  rewrite (Z.div_mul_cancel_r (a * PREC * PREC) r PREC) by assumption.
  assert (H3 : 0 <= a * PREC * PREC / r)
    by (apply Z.div_pos; [ repeat apply Z.mul_nonneg_nonneg; lia | assumption ]).
  rewrite Z.quot_div_nonneg by assumption.
  rewrite Z.div_div by assumption.
  rewrite (Z.div_mul_cancel_r (a * PREC) r PREC) by assumption.
  reflexivity.
Qed.

Lemma Dec_trunc_quotient : forall a r, 0 <= a -> 0 < r ->
  Z.quot (a * PREC / r) PREC = a / r.
Proof.
  intros a r Ha Hr.
  pose proof PREC_pos as HP. pose proof PREC_nz as HN.
  assert (Hr0 : r <> 0) by lia.
  assert (H3 : 0 <= a * PREC / r)
    by (apply Z.div_pos; [ apply Z.mul_nonneg_nonneg; lia | assumption ]).
  rewrite Z.quot_div_nonneg by assumption.
  rewrite Z.div_div by assumption.
  rewrite (Z.div_mul_cancel_r a r PREC) by assumption.
  reflexivity.
Qed.

Lemma Dec_TruncateInt64_QuoTruncate_ints : forall a r, 0 <= a -> 0 < r ->
  Dec_TruncateInt64 (Dec_QuoTruncate (sdk_NewDecFromInt a) (sdk_NewDecFromInt r)) =
    if a / r <? two63 then Ok (a / r) else Panic GO_PANIC_INT64.
Proof.
  intros a r Ha Hr. rewrite Dec_QuoTruncate_ints by assumption.
  unfold Dec_TruncateInt64. cbv zeta. rewrite Dec_trunc_quotient by assumption.
  assert (Hq : 0 <= a / r) by (apply Z.div_pos; assumption).
  pose proof two63_pos as H63.
  assert (E : (- two63 <=? a / r) = true) by (apply Z.leb_le; lia).
  rewrite E. reflexivity.
Qed.

(* Mul of an integer lifted to Dec by a non-negative Dec: exact, the rounding branch is dead *)
Lemma Dec_Mul_int : forall a v, 0 <= a -> 0 <= v ->
  Dec_Mul (sdk_NewDecFromInt a) v = a * v.
Proof.
  intros a v Ha Hv. unfold Dec_Mul, sdk_NewDecFromInt. cbv zeta.
  pose proof PREC_pos as HP. pose proof PREC_nz as HN.
  assert (Hav : 0 <= a * v) by (apply Z.mul_nonneg_nonneg; assumption).
  replace (a * PREC * v) with (a * v * PREC) by ring.
  assert (Hp : 0 <= a * v * PREC) by (apply Z.mul_nonneg_nonneg; lia).
  rewrite (Z.abs_eq _ Hp).
  rewrite Z.quot_div_nonneg by assumption.
  rewrite Z.rem_mod_nonneg by assumption.
  rewrite Z.div_mul by assumption.
  rewrite Z.mod_mul by assumption.
  assert (E1 : (0 * 2 <? PREC) = true) by reflexivity.
  rewrite E1.
  assert (E2 : (a * v * PREC <? 0) = false) by (apply Z.ltb_ge; assumption).
  rewrite E2. reflexivity.
Qed.

Lemma Dec_TruncateInt_nonneg : forall x, 0 <= x -> Dec_TruncateInt x = x / PREC.
Proof.
  intros x Hx. unfold Dec_TruncateInt.
  apply Z.quot_div_nonneg; [ assumption | exact PREC_pos ].
Qed.

Lemma fee_bounds : forall claim vf, 0 <= claim -> 0 <= vf <= PREC ->
  0 <= claim * vf / PREC <= claim.
Proof.
  intros claim vf Hc Hv. pose proof PREC_pos as HP. split.
  - apply Z.div_pos; [ apply Z.mul_nonneg_nonneg; lia | assumption ].
  - apply Z.div_le_upper_bound; [ assumption | ].
    rewrite (Z.mul_comm PREC claim). apply Z.mul_le_mono_nonneg_l; lia.
Qed.

(* ------------------------------------------------------------------------------------------ *)
(* part 3: walking a generated body                                                           *)
(* ------------------------------------------------------------------------------------------ *)

(* side conditions: linear arithmetic over the boolean tests met so far; products of two
   non-negative quantities are fed explicitly *)
Ltac side :=
  repeat match goal with
         | H : (_ <? _) = true |- _ => apply Z.ltb_lt in H
         | H : (_ <? _) = false |- _ => apply Z.ltb_ge in H
         | H : (_ <=? _) = true |- _ => apply Z.leb_le in H
         | H : (_ <=? _) = false |- _ => apply Z.leb_gt in H
         end;
  first [ lia
        | apply Z.mul_nonneg_nonneg; lia
        | rewrite Z.mul_0_l; lia
        | nia ].

(* one step: normalise a primitive whose side condition holds here, or split on the next test *)
Ltac gen_step :=
  first
    [ progress cbn [obind fst snd]
    | progress rewrite ?Time_After_or_Equal
    | progress rewrite ?Coin_Denom_pair, ?Coin_Amount_pair, ?Int_GT_ltb, ?Int_Mul_mul,
        ?sdk_NewInt_id, ?sdk_NewIntFromUint64_id, ?Dec_zero, ?Dec_GT_zero
    | match goal with
      | |- context [i64_sub ?a ?b] => rewrite (i64_sub_nowrap a b) by side
      | |- context [go_uint64_of_int64 ?x] => rewrite (go_uint64_of_int64_id x) by side
      | |- context [sdk_NewCoin ?d ?a] => rewrite (sdk_NewCoin_ok d a) by side
      | |- context [Coin_Sub (?d, ?a) (?d, ?b)] => rewrite (Coin_Sub_ok d a b) by side
      | |- context [sdk_NewDecCoinFromCoin_Amount (?d, ?a)] =>
          rewrite (sdk_NewDecCoinFromCoin_Amount_ok d a) by side
      | |- context [Dec_TruncateInt64 (Dec_QuoTruncate (sdk_NewDecFromInt ?a) (sdk_NewDecFromInt ?r))] =>
          rewrite (Dec_TruncateInt64_QuoTruncate_ints a r) by side
      | |- context [Dec_Mul (sdk_NewDecFromInt ?a) ?v] => rewrite (Dec_Mul_int a v) by side
      | |- context [Dec_TruncateInt ?x] => rewrite (Dec_TruncateInt_nonneg x) by side
      end
    | match goal with
      | |- context [if ?c then _ else _] =>
          (* innermost tests first, so that the two sides stay in step *)
          lazymatch c with
          | context [if _ then _ else _] => fail
          | _ => destruct c eqn:?
          end
      end ].

Ltac gen_walk := cbv zeta; repeat gen_step.

(* ------------------------------------------------------------------------------------------ *)
(* part 4: the generated functions are the model functions                                    *)
(* ------------------------------------------------------------------------------------------ *)

(* 1. CalculateDuration *)
Theorem gen_CalculateDuration_eq : forall (d : go_denom) (amt rate : Z),
  - two63 <= rate < two63 ->
  go_CalculateDuration (d, amt) rate = calculate_duration amt rate.
Proof.
  intros d amt rate Hr.
  unfold go_CalculateDuration, calculate_duration.
  gen_walk; reflexivity.
Qed.

(* 2. CalculateAmountToClaim.  [0 <= dep] is not used: the function never validates the deposit
   it is given (a negative deposit is returned as it is). *)
Theorem gen_CalculateAmountToClaim_eq_strong : forall (d : go_denom) (now dzt lot dep rate : Z),
  0 <= rate ->
  - two63 < Time_Unix now - Time_Unix lot < two63 ->
  go_CalculateAmountToClaim now dzt lot (d, dep) rate =
    Ok ((d, fst (calculate_amount_to_claim now dzt lot dep rate)),
        (d, snd (calculate_amount_to_claim now dzt lot dep rate))).
Proof.
  intros d now dzt lot dep rate Hrate Hs.
  unfold go_CalculateAmountToClaim, calculate_amount_to_claim.
  rewrite Time_Unix_eq in *. rewrite Time_Nanosecond_eq.
  gen_walk; try reflexivity; repeat f_equal; side.
Qed.

Theorem gen_CalculateAmountToClaim_eq : forall (d : go_denom) (now dzt lot dep rate : Z),
  0 <= dep -> 0 <= rate ->
  - two63 < Time_Unix now - Time_Unix lot < two63 ->
  go_CalculateAmountToClaim now dzt lot (d, dep) rate =
    Ok ((d, fst (calculate_amount_to_claim now dzt lot dep rate)),
        (d, snd (calculate_amount_to_claim now dzt lot dep rate))).
Proof.
  intros d now dzt lot dep rate _ Hrate Hs.
  apply gen_CalculateAmountToClaim_eq_strong; assumption.
Qed.

(* The lower bound on the seconds difference has to be strict: at exactly -2^63 with a nanosecond
   borrow the Go code's [secondsSinceLast - 1] wraps to 2^63-1 (the model, on unbounded integers,
   clamps to 0).  Such an instant is not a time the chain can hold (time_storable bounds the seconds
   to years 1..9999), but the equality as first stated, with [<=], is false: *)
Example gen_CalculateAmountToClaim_weak_bound_refuted :
  let now := - two63 * NS in let lot := 1 in let dzt := 0 in
  0 <= 10 /\ 0 <= 1 /\
  - two63 <= Time_Unix now - Time_Unix lot < two63 /\
  go_CalculateAmountToClaim now dzt lot (0, 10) 1 = Ok ((0, 10), (0, 0)) /\
  calculate_amount_to_claim now dzt lot 10 1 = (0, 10).
Proof. vm_compute. repeat split; intro; discriminate. Qed.

(* 3. CalculateValidatorFee *)
Theorem gen_CalculateValidatorFee_eq : forall (d : go_denom) (vf claim : Z),
  0 <= vf <= DEC_ONE -> 0 <= claim ->
  go_CalculateValidatorFee vf (d, claim) =
    Ok ((d, fst (calculate_validator_fee vf claim)),
        (d, snd (calculate_validator_fee vf claim))).
Proof.
  intros d vf claim Hvf Hc. rewrite <- PREC_DEC_ONE in *.
  pose proof (fee_bounds claim vf Hc Hvf) as Hfee.
  unfold go_CalculateValidatorFee, calculate_validator_fee.
  gen_walk; reflexivity.
Qed.

(* corollaries: on these domains the generated functions return, they do not panic *)
Corollary gen_CalculateValidatorFee_ok : forall (d : go_denom) (vf claim : Z),
  0 <= vf <= DEC_ONE -> 0 <= claim ->
  exists r, go_CalculateValidatorFee vf (d, claim) = Ok r.
Proof.
  intros d vf claim Hvf Hc. eexists. apply gen_CalculateValidatorFee_eq; assumption.
Qed.

Corollary gen_CalculateAmountToClaim_ok : forall (d : go_denom) (now dzt lot dep rate : Z),
  0 <= dep -> 0 <= rate ->
  - two63 < Time_Unix now - Time_Unix lot < two63 ->
  exists r, go_CalculateAmountToClaim now dzt lot (d, dep) rate = Ok r.
Proof.
  intros d now dzt lot dep rate Hd Hr Hs. eexists.
  apply gen_CalculateAmountToClaim_eq; assumption.
Qed.

Print Assumptions gen_CalculateDuration_eq.
Print Assumptions gen_CalculateAmountToClaim_eq_strong.
Print Assumptions gen_CalculateAmountToClaim_eq.
Print Assumptions gen_CalculateAmountToClaim_weak_bound_refuted.
Print Assumptions gen_CalculateValidatorFee_eq.
Print Assumptions gen_CalculateValidatorFee_ok.
Print Assumptions gen_CalculateAmountToClaim_ok.
