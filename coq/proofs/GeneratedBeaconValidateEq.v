(* The stateless message checks generated from /repo/x/beacon/types/msgs.go (the three ValidateBasic methods at the
   head of coq/GeneratedBeaconKeeper.v, re-generated on every run) compute exactly what the hand-written
   [reg_validate_basic false] of model/Registry.v computes: same verdict, same error code.

   The Go code rejects an empty moniker AND an empty name (`len(Moniker) == 0 || len(Name) == 0`), exactly as the
   model's [is_empty moniker || is_empty name]: no disagreement there.  Unlike x/wrkchain, none of the three functions
   tests the owner for emptiness, so nothing is asked of the owner.

   The only hypothesis, shown necessary by an example below: a record message carries at most one string (the Go
   message has one hash field; the model tests every element of its list).  None at all is harmless: both sides then
   see the empty hash and reject.

   Then: histories run with the GENERATED ValidateBasic in front of the GENERATED message server are the model's. *)
From Coq Require Import ZifyBool.
From MC Require Import lib.Prelude lib.AMap lib.GoSdk GeneratedBeaconTypes model.Bank model.Registry model.RegistrySpec
  model.BeaconKeeperPrims GeneratedBeaconKeeper model.BeaconGenSpec.
From MC Require Import proofs.RegistryProofs proofs.GeneratedBeaconEq.
Local Open Scope Z_scope.

(* the generated ValidateBasic, driven by the model's message type: the records are those of [bcn_msg_exec] *)
Definition bcn_validate_basic (m : reg_msg) : outcome unit :=
  match m with
  | RRegister owner moniker name _ _ =>
      go_MsgRegisterBeacon_ValidateBasic
        {| MsgRegisterBeacon_Moniker := moniker; MsgRegisterBeacon_Name := name; MsgRegisterBeacon_Owner := owner |}
  | RRecord owner id key hashes =>
      go_MsgRecordBeaconTimestamp_ValidateBasic
        {| MsgRecordBeaconTimestamp_BeaconId := id; MsgRecordBeaconTimestamp_Hash := nth 0 hashes EmptyString;
           MsgRecordBeaconTimestamp_SubmitTime := key; MsgRecordBeaconTimestamp_Owner := owner |}
  | RPurchase owner id n =>
      go_MsgPurchaseBeaconStateStorage_ValidateBasic
        {| MsgPurchaseBeaconStateStorage_BeaconId := id; MsgPurchaseBeaconStateStorage_Number := n;
           MsgPurchaseBeaconStateStorage_Owner := owner |}
  end.

(* the weakest hypothesis *)
Definition bcn_vb_ok (m : reg_msg) : Prop :=
  match m with
  | RRecord _ _ _ hashes => (List.length hashes <= 1)%nat
  | _ => True
  end.

Lemma too_long_empty n : too_long n EmptyString = false.
Proof. reflexivity. Qed.

Lemma is_empty_empty : is_empty EmptyString = true.
Proof. reflexivity. Qed.

(* a walker for bodies made of tests on string lengths and integers: it never mentions the nesting of the tests,
   nor their order *)
Ltac vunfold :=
  progress unfold sdk_AccAddressFromBech32, map_err, beacon_ErrContentTooLarge, beacon_ErrMissingData,
    beacon_ErrInvalidData.
Ltac vnorm :=
  progress cbn [obind nth hd existsb orb andb negb
    MsgRegisterBeacon_Moniker MsgRegisterBeacon_Name MsgRegisterBeacon_Owner
    MsgRecordBeaconTimestamp_BeaconId MsgRecordBeaconTimestamp_Hash MsgRecordBeaconTimestamp_SubmitTime
    MsgRecordBeaconTimestamp_Owner
    MsgPurchaseBeaconStateStorage_BeaconId MsgPurchaseBeaconStateStorage_Number MsgPurchaseBeaconStateStorage_Owner].
Ltac vknown :=
  match goal with
  | |- context [too_long ?n EmptyString] => rewrite (too_long_empty n)
  | |- context [is_empty EmptyString] => rewrite is_empty_empty
  | H : ?x = true |- context [?x] => rewrite H
  | H : ?x = false |- context [?x] => rewrite H
  end.
Ltac vsplit :=
  match goal with
  | |- context [if ?c then _ else _] =>
      lazymatch c with
      | context [if _ then _ else _] => fail
      | _ => let a := bool_atom c in destruct a eqn:?
      end
  end.
Ltac vstep := first [ vunfold | vnorm | vknown | rstr | vsplit ].
Ltac vwalk := repeat vstep.

Theorem gen_bcn_validate_basic_eq_weak : forall m, bcn_vb_ok m ->
  bcn_validate_basic m = reg_validate_basic false m.
Proof.
  intros m H.
  destruct m as [o moniker name genesis type | o id key hashes | o id n]; cbn [bcn_vb_ok] in H;
    unfold bcn_validate_basic, reg_validate_basic, go_MsgRegisterBeacon_ValidateBasic,
      go_MsgRecordBeaconTimestamp_ValidateBasic, go_MsgPurchaseBeaconStateStorage_ValidateBasic.
  - vwalk; reflexivity.
  - destruct hashes as [|h0 [|h1 tl]];
      try (exfalso; cbn [List.length] in H; lia);
      vwalk; reflexivity.
  - vwalk; reflexivity.
Qed.

(* [reg_msg_wf] is not needed; it is kept so that the statement reads as its x/wrkchain twin *)
Theorem gen_bcn_validate_basic_eq : forall m, reg_msg_wf m ->
  (forall o id key hashes, m = RRecord o id key hashes -> List.length hashes = 1%nat) ->
  bcn_validate_basic m = reg_validate_basic false m.
Proof.
  intros m _ H1. apply gen_bcn_validate_basic_eq_weak.
  destruct m as [o moniker name genesis type | o id key hashes | o id n]; cbn [bcn_vb_ok]; try exact I.
  rewrite (H1 o id key hashes eq_refl). apply le_n.
Qed.

Lemma beacon_validate_errs :
  beacon_ErrMissingData = ERR_REG /\ beacon_ErrContentTooLarge = ERR_REG /\ beacon_ErrInvalidData = ERR_REG.
Proof. repeat split. Qed.

Local Open Scope string_scope.
Definition long67 : string := "0123456789012345678901234567890123456789012345678901234567890123456".

(* an empty name is rejected by both, an empty owner is accepted by both *)
Example gen_bcn_validate_basic_empty_name_ex :
  bcn_validate_basic (RRegister 7 "m" "" "" "") = Err ERR_REG /\
  reg_validate_basic false (RRegister 7 "m" "" "" "") = Err ERR_REG /\
  bcn_validate_basic (RRegister go_zero_addr "m" "n" "" "") = Ok tt /\
  reg_validate_basic false (RRegister go_zero_addr "m" "n" "" "") = Ok tt.
Proof. vm_compute. auto. Qed.

(* the hypothesis cannot be dropped: a second string that is too long has no field in the Go message, the model
   rejects it *)
Example gen_bcn_validate_basic_two_hashes_refuted :
  bcn_validate_basic (RRecord 7 1 1 ["a"; long67]) = Ok tt /\
  reg_validate_basic false (RRecord 7 1 1 ["a"; long67]) = Err ERR_REG.
Proof. vm_compute. auto. Qed.

(* no string at all is harmless *)
Example gen_bcn_validate_basic_no_hash_ex :
  bcn_validate_basic (RRecord 7 1 1 []) = Err ERR_REG /\ reg_validate_basic false (RRecord 7 1 1 []) = Err ERR_REG.
Proof. vm_compute. auto. Qed.
Local Close Scope string_scope.

(* ---- histories: generated ValidateBasic, then the generated message server ---- *)
Definition bcn_step_v (wall : Z) (sg : reg_state * ghost) (tm : Z * reg_msg) : reg_state * ghost :=
  let '(s, g) := sg in
  let '(t, m) := tm in
  match bcn_validate_basic m with
  | Ok _ =>
      match bcn_msg_exec (mk_rworld (t * NSEC) wall s) m with
      | Ok (w', RespRegistered id) =>
          (rw_reg w', {| g_log := g_log g; g_reg := g_reg g ++ [(id, m, t)] |})
      | Ok (w', RespRecorded id k) =>
          match aget (id, k) (r_recs (rw_reg w')) with
          | Some rc => (rw_reg w', {| g_log := aset id (log_of g id ++ [(k, rc)]) (g_log g); g_reg := g_reg g |})
          | None => (rw_reg w', g)
          end
      | Ok (w', _) => (rw_reg w', g)
      | _ => (s, g)
      end
  | _ => (s, g)
  end.

Definition bcn_run_v (wall : Z) (sg : reg_state * ghost) (h : list (Z * reg_msg)) : reg_state * ghost :=
  fold_left (bcn_step_v wall) h sg.

Theorem gen_bcn_step_v_is_step : forall wall sg t m, bcn_vb_ok m ->
  bcn_step_v wall sg (t, m) = bcn_step wall sg (t, m).
Proof.
  intros wall [s g] t m H. unfold bcn_step_v, bcn_step. rewrite (gen_bcn_validate_basic_eq_weak m H). reflexivity.
Qed.

Theorem gen_bcn_step_v_eq : forall wall s g t m,
  reg_inv false s g -> bcn_no_genesis s -> reg_counters_small s -> reg_msg_wf m ->
  (forall o id key hashes, m = RRecord o id key hashes -> List.length hashes = 1%nat) ->
  0 <= t < two63 ->
  bcn_step_v wall (s, g) (t, m) = reg_step false (s, g) (t, m).
Proof.
  intros wall s g t m I NG HS W H1 Ht. unfold bcn_step_v.
  rewrite (gen_bcn_validate_basic_eq m W H1).
  exact (gen_bcn_step_eq wall s g t m I NG HS W H1 Ht).
Qed.

Lemma gen_bcn_run_v_is_run : forall wall h sg, bcn_hist_ok h -> bcn_run_v wall sg h = bcn_run wall sg h.
Proof.
  intros wall h. induction h as [|[t m] h IH]; intros sg Hh; [reflexivity|].
  inversion Hh as [|? ? (W & Ht & H1) Hh']; subst. cbn [fst snd] in W, Ht, H1.
  unfold bcn_run_v, bcn_run. cbn [fold_left].
  assert (E : bcn_step_v wall sg (t, m) = bcn_step wall sg (t, m)).
  { destruct sg as [s g]. unfold bcn_step_v, bcn_step. rewrite (gen_bcn_validate_basic_eq m W H1). reflexivity. }
  rewrite E. exact (IH _ Hh').
Qed.

Theorem gen_bcn_run_v_eq : forall wall h s g B,
  reg_inv false s g -> bcn_no_genesis s -> bcn_bounded B s -> B + Z.of_nat (List.length h) < two64 ->
  bcn_hist_ok h ->
  bcn_run_v wall (s, g) h = reg_run false (s, g) h.
Proof.
  intros wall h s g B I NG HB Hlen Hh.
  rewrite (gen_bcn_run_v_is_run wall h (s, g) Hh).
  exact (gen_bcn_run_eq wall h s g B I NG HB Hlen Hh).
Qed.

Print Assumptions gen_bcn_validate_basic_eq_weak.
Print Assumptions gen_bcn_validate_basic_eq.
Print Assumptions gen_bcn_validate_basic_two_hashes_refuted.
Print Assumptions gen_bcn_step_v_eq.
Print Assumptions gen_bcn_run_v_eq.
