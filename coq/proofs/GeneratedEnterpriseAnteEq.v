(* The x/enterprise fee decorator (CheckLockedUndDecorator.AnteHandle of x/enterprise/ante/ante.go, re-generated on every
   run into GeneratedEnterpriseAnte.v) run on the sdk.Tx a model transaction stands for (model/EnterpriseAnteGenSpec.v:
   ent_gotx_of) is the hand-written glue [go_unlock_ante] of proofs/GeneratedEnterpriseEq.v (the decorator's guard written
   by hand around the generated UnlockCoinsForFees), hence - under the application invariant and for a valid fee - the
   model's [unlock_ante] (model/App.v).  No hypothesis is needed for the first equality: the guard is
   "(some top-level WRKChain or BEACON message) and the fee payer's locked amount is positive" on both sides. *)
From MC Require Import lib.Prelude lib.AMap lib.GoSdk GeneratedEnterpriseTypes model.Bank model.Enterprise
  model.EnterpriseKeeperPrims GeneratedEnterpriseKeeper model.EnterpriseAntePrims.
From MC Require GeneratedEnterpriseAnte model.App model.AppSpec model.EnterpriseAnteGenSpec proofs.AppInv
  proofs.GeneratedEnterpriseEq.
Local Open Scope Z_scope.
Local Open Scope bool_scope.

Module GA := GeneratedEnterpriseAnte.
Module S := EnterpriseAnteGenSpec.
Module EE := GeneratedEnterpriseEq.

(* the decorator's two foreign predicates, read on the message-type tags, are "a top-level registry message" *)
Lemma existsb_orb {A} (f g : A -> bool) l : existsb f l || existsb g l = existsb (fun x => f x || g x) l.
Proof.
  induction l as [|x r IH]; [reflexivity|]. cbn [existsb]. rewrite <- IH.
  destruct (f x), (g x), (existsb f r), (existsb g r); reflexivity.
Qed.

Theorem ent_ante_is_registry_tx : forall t,
  wrkchain_CheckIsWrkChainTx (S.ent_gotx_of t) || beacon_CheckIsBeaconTx (S.ent_gotx_of t) = App.is_registry_tx t.
Proof.
  intros t. unfold wrkchain_CheckIsWrkChainTx, beacon_CheckIsBeaconTx, App.is_registry_tx, S.ent_gotx_of. cbn [Tx_Msgs].
  rewrite existsb_orb. induction (App.tx_msgs t) as [|m ms IH]; [reflexivity|].
  cbn [map existsb]. rewrite IH. f_equal.
  destruct m as [e|r|r|s|from to cs|gr ge ty|gr ge|ge inner|au u];
    try (destruct e); try (destruct r); try (destruct s); try (destruct u); reflexivity.
Qed.

(* each predicate on its own *)
Theorem ent_ante_is_wrk_tx : forall t,
  wrkchain_CheckIsWrkChainTx (S.ent_gotx_of t) = existsb (fun m => match m with App.MWrk _ => true | _ => false end) (App.tx_msgs t).
Proof.
  intros t. unfold wrkchain_CheckIsWrkChainTx, S.ent_gotx_of. cbn [Tx_Msgs].
  induction (App.tx_msgs t) as [|m ms IH]; [reflexivity|]. cbn [map existsb]. rewrite IH. f_equal.
  destruct m as [e|r|r|s|from to cs|gr ge ty|gr ge|ge inner|au u];
    try (destruct e); try (destruct r); try (destruct s); try (destruct u); reflexivity.
Qed.
Theorem ent_ante_is_bcn_tx : forall t,
  beacon_CheckIsBeaconTx (S.ent_gotx_of t) = existsb (fun m => match m with App.MBcn _ => true | _ => false end) (App.tx_msgs t).
Proof.
  intros t. unfold beacon_CheckIsBeaconTx, S.ent_gotx_of. cbn [Tx_Msgs].
  induction (App.tx_msgs t) as [|m ms IH]; [reflexivity|]. cbn [map existsb]. rewrite IH. f_equal.
  destruct m as [e|r|r|s|from to cs|gr ge ty|gr ge|ge inner|au u];
    try (destruct e); try (destruct r); try (destruct s); try (destruct u); reflexivity.
Qed.

(* the generated AnteHandle over the enterprise world: its guard, then the generated UnlockCoinsForFees *)
Theorem gen_ent_AnteHandle_unfold : forall w t,
  GA.go_AnteHandle w (S.ent_gotx_of t) false =
  if App.is_registry_tx t && (0 <? snd (locked_coin (ew_ent w) (App.tx_payer t)))
  then do (w', _) <- go_UnlockCoinsForFees w (App.tx_payer t) (App.tx_fee t); Ok (w', tt)
  else Ok (w, tt).
Proof.
  intros w t. unfold GA.go_AnteHandle. cbv zeta. cbn [negb]. rewrite ent_ante_is_registry_tx.
  cbn [S.ent_gotx_of Tx_FeePayer Tx_Fee]. unfold ent_IsLocked.
  destruct (App.is_registry_tx t && _); [|reflexivity].
  destruct (go_UnlockCoinsForFees w (App.tx_payer t) (App.tx_fee t)) as [[w' []]| |]; reflexivity.
Qed.

(* the decorator's effect on the application state *)
Definition ent_ante_app (a : App.app) (o : outcome (eworld * unit)) : outcome App.app :=
  do (w', _) <- o; Ok (App.with_ent a (ew_bank w') (ew_ent w')).

Lemma with_ent_same a : App.with_ent a (App.a_bank a) (App.a_ent a) = a.
Proof. destruct a; reflexivity. Qed.

(* = the hand glue, without any hypothesis *)
Theorem gen_ent_AnteHandle_glue : forall a t,
  ent_ante_app a (GA.go_AnteHandle (mk_eworld (App.a_now a) (App.a_bank a) (App.a_ent a)) (S.ent_gotx_of t) false)
  = EE.go_unlock_ante a t.
Proof.
  intros a t. rewrite gen_ent_AnteHandle_unfold. unfold EE.go_unlock_ante, ent_ante_app. cbn [ew_ent].
  destruct (App.is_registry_tx t && _).
  - destruct (go_UnlockCoinsForFees _ (App.tx_payer t) (App.tx_fee t)) as [[w' []]| |]; reflexivity.
  - cbn [obind ew_bank ew_ent]. rewrite with_ent_same. reflexivity.
Qed.

(* = the model's decorator, under the application invariant and for a valid fee *)
Theorem gen_ent_AnteHandle_eq : forall a t,
  AppInv.app_inv a -> App.coins_valid (App.tx_fee t) = true ->
  ent_ante_app a (GA.go_AnteHandle (mk_eworld (App.a_now a) (App.a_bank a) (App.a_ent a)) (S.ent_gotx_of t) false)
  = App.unlock_ante a t.
Proof. intros a t I Cv. rewrite gen_ent_AnteHandle_glue. exact (EE.gen_unlock_ante_eq a t I Cv). Qed.

(* C05: the generated decorator touches the state only for a registry transaction whose fee payer has locked eFUND *)
Theorem gen_ent_AnteHandle_untouched : forall w t,
  App.is_registry_tx t = false \/ snd (locked_coin (ew_ent w) (App.tx_payer t)) <= 0 ->
  GA.go_AnteHandle w (S.ent_gotx_of t) false = Ok (w, tt).
Proof.
  intros w t H. rewrite gen_ent_AnteHandle_unfold. destruct H as [-> | H]; [reflexivity|].
  replace (0 <? snd (locked_coin (ew_ent w) (App.tx_payer t))) with false by lia. rewrite andb_false_r. reflexivity.
Qed.

(* ... and then what it unlocks is one amount u, 0 or min(fee, locked), of the FEE PAYER (C05_unlock_rule) *)
Theorem gen_ent_AnteHandle_rule : forall a t au,
  ent_ante_app a (GA.go_AnteHandle (mk_eworld (App.a_now a) (App.a_bank a) (App.a_ent a)) (S.ent_gotx_of t) false) = Ok au ->
  AppInv.app_inv a -> 0 <= App.tx_payer t -> App.coins_valid (App.tx_fee t) = true -> NoDup (map fst (App.tx_fee t)) ->
  exists u, AppLockedProofs.unlocked_by a au t u.
Proof. intros a t au H. rewrite gen_ent_AnteHandle_glue in H. exact (EE.gen_unlock_ante_rule a t au H). Qed.

Print Assumptions ent_ante_is_registry_tx.
Print Assumptions gen_ent_AnteHandle_unfold.
Print Assumptions gen_ent_AnteHandle_glue.
Print Assumptions gen_ent_AnteHandle_eq.
Print Assumptions gen_ent_AnteHandle_untouched.
Print Assumptions gen_ent_AnteHandle_rule.
