(* C16: parameter validity is an invariant of the application; updates are atomic and take
   effect immediately. *)
From MC Require Import lib.Prelude lib.AMap model.Bank model.Stream model.Registry model.Enterprise
  model.App model.AppSpec.
From MC Require Import proofs.BankProofs proofs.AppFrame.
From Coq Require Import ZifyBool.
Ltac Zify.zify_post_hook ::= Z.div_mod_to_equations.
Local Open Scope Z_scope.

Ltac step H :=
  match type of H with
  | obind ?e _ = _ =>
      let E := fresh "E" in destruct e eqn:E; cbn [obind] in H; try discriminate H
  | (if ?c then _ else _) = _ => let C := fresh "C" in destruct c eqn:C; try discriminate H
  | match ?x with Some _ => _ | None => _ end = _ =>
      let E := fresh "E" in destruct x eqn:E; try discriminate H
  | (let '(_, _) := ?x in _) = _ => let E := fresh "E" in destruct x eqn:E
  end.

Tactic Notation "stepas" hyp(H) simple_intropattern(pat) :=
  match type of H with
  | obind ?e _ = _ =>
      let E := fresh "E" in destruct e as [pat|?|?] eqn:E; cbn [obind] in H; try discriminate H
  end.

(* ---------- 16. the validators say what the property says ---------- *)

Lemma ent_params_valid_spec p : ent_params_valid p = true <-> ent_params_ok p.
Proof.
  unfold ent_params_valid, ent_params_ok. rewrite !andb_true_iff, forallb_forall, negb_true_iff.
  rewrite Nat.eqb_neq.
  assert (L : List.length (ep_signers p) <> 0%nat <-> ep_signers p <> []).
  { destruct (ep_signers p); cbn; split; congruence. }
  rewrite L.
  assert (F : (forall x, In x (ep_signers p) -> addr_parses x = true) <->
              (forall s, In s (ep_signers p) -> s <> BAD_ADDR /\ s <> EMPTY_ADDR)).
  { unfold addr_parses. split; intros H x I; specialize (H x I); lia. }
  rewrite F. intuition lia.
Qed.

Lemma reg_params_valid_spec p : reg_params_valid p = true <-> reg_params_ok p.
Proof. unfold reg_params_valid, reg_params_ok. rewrite !andb_true_iff. lia. Qed.

Lemma str_params_valid_spec v : str_params_valid v = true <-> str_params_ok v.
Proof. unfold str_params_valid, str_params_ok. rewrite andb_true_iff. lia. Qed.

Lemma validate_spec :
  (forall p, ent_params_valid p = true <-> ent_params_ok p) /\
  (forall p, reg_params_valid p = true <-> reg_params_ok p) /\
  (forall v, str_params_valid v = true <-> str_params_ok v).
Proof.
  split; [exact ent_params_valid_spec | split; [exact reg_params_valid_spec | exact str_params_valid_spec]].
Qed.

(* ---------- 17. an update with any invalid field is rejected as a whole ---------- *)

Lemma update_atomic f a authority u :
  upd_valid u = false ->
  (exists c, exec_msg (S f) a (MUpdParams authority u) = Err c) /\
  validate_basic (S f) (MUpdParams authority u) = Err ERR_APP.
Proof.
  intros V. split.
  - cbn [exec_msg]. destruct (negb (authority =? GOV_MACC)); [eauto|].
    destruct u as [p|p|p|v]; cbn [upd_valid] in V.
    + unfold ent_set_params. rewrite V. cbn [obind]. eauto.
    + rewrite V. eauto.
    + rewrite V. eauto.
    + rewrite V. eauto.
  - cbn [validate_basic]. rewrite V. reflexivity.
Qed.

(* ---------- 18. validity is invariant ---------- *)

Definition params_of (a : app) :=
  (e_params (a_ent a), r_params (a_wrk a), r_params (a_bcn a), s_valfee (a_str a)).

Lemma params_ok_of a a' : params_of a' = params_of a -> params_ok a -> params_ok a'.
Proof. unfold params_of, params_ok. intros [= -> -> -> ->]. auto. Qed.

Lemma ent_exec_params now s m s' r : ent_exec now s m = Ok (s', r) -> e_params s' = e_params s.
Proof.
  unfold ent_exec. destruct m as [p d amt|sg poid dec|sg target act]; intros H.
  - repeat step H. injection H as <- <-. reflexivity.
  - repeat step H. injection H as <- <-. reflexivity.
  - repeat step H; injection H as <- <-; reflexivity.
Qed.

Lemma record_new_params h now s rg key hs :
  r_params (fst (fst (record_new h now s rg key hs))) = r_params s.
Proof.
  unfold record_new.
  destruct (limit_of s (rg_id rg) <? rg_num rg + 1); [destruct h; [destruct (0 <? rg_lowest rg)|]|];
    reflexivity.
Qed.

Lemma reg_exec_params h now s m s' r : reg_exec h now s m = Ok (s', r) -> r_params s' = r_params s.
Proof.
  unfold reg_exec. destruct m as [o mo na ge ty|o id key hs|o id n]; intros H.
  - repeat step H. injection H as <- <-. reflexivity.
  - step H. step H. step H. step H. step H.
    pose proof (record_new_params h now s r0 key hs) as R.
    destruct (record_new h now s r0 key hs) as [[s1 k] pr]. injection H as <- <-. exact R.
  - repeat step H. injection H as <- <-. reflexivity.
Qed.

Lemma set_stream_valfee s r sn st s' : set_stream s r sn st = Ok s' -> s_valfee s' = s_valfee s.
Proof. unfold set_stream. intros H. step H. injection H as <-. reflexivity. Qed.

Lemma claim_valfee now b s r sn b' s' c :
  claim_from_stream now b s r sn = Ok (b', s', c) -> s_valfee s' = s_valfee s.
Proof.
  unfold claim_from_stream. intros H. repeat step H.
  injection H as _ <- _. eapply set_stream_valfee; eauto.
Qed.

Lemma add_deposit_valfee now b s r sn d amt b' s' :
  add_deposit now b s r sn d amt = Ok (b', s') -> s_valfee s' = s_valfee s.
Proof.
  unfold add_deposit. intros H. step H. step H. stepas H ext. stepas H [[[b1 s1] st1] dzt].
  stepas H b2. stepas H s2. injection H as _ <-.
  apply set_stream_valfee in E3. rewrite E3. clear E3 E2.
  step E1.
  - stepas E1 [b1' s1']. step E1. injection E1 as _ <- _ _.
    step E2.
    + stepas E2 [[b4 s4] c4]. injection E2 as _ <-. eapply claim_valfee; eauto.
    + injection E2 as _ <-. reflexivity.
  - injection E1 as _ <- _ _. reflexivity.
Qed.

Lemma set_new_flow_rate_valfee now b s r sn rate b' s' :
  set_new_flow_rate now b s r sn rate = Ok (b', s') -> s_valfee s' = s_valfee s.
Proof.
  unfold set_new_flow_rate. intros H. step H. stepas H [[[b1 s1] st1] dzt].
  stepas H s2. injection H as _ <-.
  apply set_stream_valfee in E1. rewrite E1. clear E1.
  step E0.
  - stepas E0 [[b3 s3] c3]. step E0. stepas E0 dur. injection E0 as _ <- _ _.
    eapply claim_valfee; eauto.
  - injection E0 as _ <- _ _. reflexivity.
Qed.

Lemma cancel_stream_valfee now b s r sn b' s' :
  cancel_stream now b s r sn = Ok (b', s') -> s_valfee s' = s_valfee s.
Proof.
  unfold cancel_stream. intros H. step H. step H. stepas H [b1 s1].
  step H. stepas H b2. injection H as _ <-. cbn [with_streams s_valfee].
  step E0.
  - stepas E0 [[b3 s3] c3]. injection E0 as _ <-. eapply claim_valfee; eauto.
  - injection E0 as _ <-. reflexivity.
Qed.

Ltac split_pairs := repeat match goal with x : (_ * _)%type |- _ => destruct x end.
Ltac valfee_hyps :=
  repeat match goal with
  | E : claim_from_stream _ _ _ _ _ = Ok _ |- _ => apply claim_valfee in E
  | E : add_deposit _ _ _ _ _ _ _ = Ok _ |- _ => apply add_deposit_valfee in E
  | E : set_stream _ _ _ _ = Ok _ |- _ => apply set_stream_valfee in E
  | E : set_new_flow_rate _ _ _ _ _ _ = Ok _ |- _ => apply set_new_flow_rate_valfee in E
  | E : cancel_stream _ _ _ _ _ = Ok _ |- _ => apply cancel_stream_valfee in E
  end.

Lemma str_exec_params now b s m b' s' r : str_exec now b s m = Ok (b', s', r) -> s_valfee s' = s_valfee s.
Proof.
  unfold str_exec. destruct m as [sn rc d amt rate|sn rc|sn rc d amt|sn rc rate|sn rc]; intros H;
    repeat step H; split_pairs; injection H as ? ? ?; subst; valfee_hyps; congruence.
Qed.

Definition is_exec (m : msg) : bool := match m with MExec _ _ => true | _ => false end.

(* every message other than a parameter update (and a wrapper) leaves all parameters alone *)
Lemma exec_leaf_params f a m a' :
  exec_msg f a m = Ok a' -> is_exec m = false -> is_param_update m = false -> params_of a' = params_of a.
Proof.
  destruct f as [|f]; [discriminate|]. cbn [exec_msg].
  destruct m as [e|r|r|s|from to cs|gr ge ty|gr ge|ge inner|au u]; intros H X U; try discriminate.
  - step H. destruct a0 as [e' z]. injection H as <-. apply ent_exec_params in E.
    unfold params_of; cbn. rewrite E. reflexivity.
  - step H. destruct a0 as [r' z]. injection H as <-. apply reg_exec_params in E.
    unfold params_of; cbn. rewrite E. reflexivity.
  - step H. destruct a0 as [r' z]. injection H as <-. apply reg_exec_params in E.
    unfold params_of; cbn. rewrite E. reflexivity.
  - step H. destruct a0 as [[b' s'] z]. injection H as <-. apply str_exec_params in E.
    unfold params_of; cbn. rewrite E. reflexivity.
  - step H. step H. step H. injection H as <-. reflexivity.
  - injection H as <-. reflexivity.
  - step H. injection H as <-. reflexivity.
Qed.

Lemma exec_upd_params f a au u a' :
  exec_msg f a (MUpdParams au u) = Ok a' ->
  au = GOV_MACC /\ upd_valid u = true /\
  params_of a' =
    match u with
    | UEnt p => (p, r_params (a_wrk a), r_params (a_bcn a), s_valfee (a_str a))
    | UWrk p => (e_params (a_ent a), p, r_params (a_bcn a), s_valfee (a_str a))
    | UBcn p => (e_params (a_ent a), r_params (a_wrk a), p, s_valfee (a_str a))
    | UStr v => (e_params (a_ent a), r_params (a_wrk a), r_params (a_bcn a), v)
    end.
Proof.
  destruct f as [|f]; [discriminate|]. cbn [exec_msg]. intros H. step H.
  split; [lia|]. destruct u as [p|p|p|v]; cbn [upd_valid].
  - step H. injection H as <-. unfold ent_set_params in E. step E. injection E as <-. auto.
  - step H. injection H as <-. auto.
  - step H. injection H as <-. auto.
  - step H. injection H as <-. auto.
Qed.

Lemma exec_msg_params_ok : forall f a m a', exec_msg f a m = Ok a' -> params_ok a -> params_ok a'.
Proof.
  induction f as [|f IH]; intros a m a' H P; [discriminate|].
  destruct (is_exec m) eqn:X.
  - destruct m; try discriminate. rewrite exec_msg_exec in H.
    revert H. apply (ofold_invariant _ params_ok (fun _ => True)); auto.
    + intros a0 i a1 P0 _ S. destruct (_ || _); [|discriminate]. eapply IH; eauto.
    + apply Forall_forall; auto.
  - destruct (is_param_update m) eqn:U.
    + destruct m; try discriminate. apply exec_upd_params in H as (_ & V & E).
      unfold params_ok in *. unfold params_of in E. destruct P as (P1 & P2 & P3 & P4).
      destruct u; cbn [upd_valid] in V; injection E as -> -> -> ->.
      * split; [apply ent_params_valid_spec; exact V | auto].
      * split; [exact P1 | split; [apply reg_params_valid_spec; exact V | auto]].
      * split; [exact P1 | split; [exact P2 | split; [apply reg_params_valid_spec; exact V | exact P4]]].
      * split; [exact P1 | split; [exact P2 | split; [exact P3 | apply str_params_valid_spec; exact V]]].
    + eapply params_ok_of; [|exact P]. eapply exec_leaf_params; eauto.
Qed.

Lemma ante_params check a t a1 : ante check a t = Ok a1 -> params_of a1 = params_of a.
Proof.
  intros H. apply ante_frame in H as (H1 & H2 & H3 & _ & _ & _ & H4 & _).
  unfold params_of. congruence.
Qed.

Lemma exec_all_params_ok a t a' : exec_all a t = Ok a' -> params_ok a -> params_ok a'.
Proof.
  rewrite exec_all_ofold. intros H P. revert H.
  apply (ofold_invariant _ params_ok (fun _ => True)); auto.
  - intros a0 m a1 P0 _ S. eapply exec_msg_params_ok; eauto.
  - apply Forall_forall; auto.
Qed.

Lemma deliver_tx_params_ok a t a' r : deliver_tx a t = (a', r) -> params_ok a -> params_ok a'.
Proof.
  unfold deliver_tx. intros H P.
  destruct (validate_all t); try (injection H as <- _; exact P).
  destruct (ante false a t) as [a1|c|c] eqn:A; try (injection H as <- _; exact P).
  assert (P1 : params_ok a1) by (eapply params_ok_of; [eapply ante_params; eauto|exact P]).
  destruct (exec_all a1 t) as [a2|c|c] eqn:X; injection H as <- _; auto.
  eapply exec_all_params_ok; eauto.
Qed.

Lemma check_tx_params_ok a t a' r : check_tx a t = (a', r) -> params_ok a -> params_ok a'.
Proof.
  unfold check_tx. intros H P.
  destruct (validate_all t); try (injection H as <- _; exact P).
  destruct (ante true a t) as [a1|c|c] eqn:A; injection H as <- _; auto.
  eapply params_ok_of; [eapply ante_params; eauto|exact P].
Qed.

Lemma exec_proposal_params_ok a ms : params_ok a -> params_ok (exec_proposal a ms).
Proof.
  intros P. rewrite exec_proposal_ofold.
  destruct (ofold _ ms (Ok a)) as [a'|c|c] eqn:E; auto.
  revert E. apply (ofold_invariant _ params_ok (fun _ => True)); auto.
  - intros a0 m a1 P0 _ S. eapply exec_msg_params_ok; eauto.
  - apply Forall_forall; auto.
Qed.

Lemma end_block_params_ok ps : forall a, params_ok a -> params_ok (end_block a ps).
Proof.
  induction ps as [|p ps IH]; intros a P; [exact P|].
  rewrite end_block_cons. apply IH. apply exec_proposal_params_ok; exact P.
Qed.

(* BeginBlock changes no parameters *)
Lemma mint_and_lock_params b s a c b' s' : mint_and_lock b s a c = Ok (b', s') -> e_params s' = e_params s.
Proof.
  unfold mint_and_lock. intros H. step H; [injection H as _ <-; reflexivity|].
  repeat step H. injection H as _ <-. apply increment_locked_core in E2.
  unfold ent_core in E2. congruence.
Qed.

Lemma process_accepted_params ids : forall b s b' s',
  process_accepted ids b s = Ok (b', s') -> e_params s' = e_params s.
Proof.
  induction ids as [|id rest IH]; intros b s b' s' H; cbn [process_accepted] in H.
  - injection H as _ <-. reflexivity.
  - step H. step H. step H.
    destruct (mint_and_lock _ _ _ _) as [[b2 s2]|c|c] eqn:M; try discriminate.
    apply IH in H. apply mint_and_lock_params in M. cbn in H, M. congruence.
Qed.

Lemma tally_params ids now : forall s s', tally ids now s = Ok s' -> e_params s' = e_params s.
Proof.
  induction ids as [|id rest IH]; intros s s' H; cbn [tally] in H.
  - injection H as <-. reflexivity.
  - step H. step H. destruct (tally_one (e_params s) now p) as [st|].
    + apply IH in H. exact H.
    + apply IH in H. exact H.
Qed.

Lemma ent_begin_block_params now b s b' s' :
  ent_begin_block now b s = Ok (b', s') -> e_params s' = e_params s.
Proof.
  unfold ent_begin_block. intros H. step H. destruct a as [b1 s1]. step H. injection H as _ <-.
  apply process_accepted_params in E. apply tally_params in E0. congruence.
Qed.

Lemma begin_block_params a now a' : begin_block a now = Some a' -> params_of a' = params_of a.
Proof.
  unfold begin_block. destruct (ent_begin_block _ _ _) as [[b' e']|c|c] eqn:E; try discriminate.
  intros [= <-]. apply ent_begin_block_params in E. unfold params_of; cbn in *. rewrite E. reflexivity.
Qed.

Lemma begin_block_changes_no_params a now a' :
  begin_block a now = Some a' ->
  e_params (a_ent a') = e_params (a_ent a) /\ r_params (a_wrk a') = r_params (a_wrk a) /\
  r_params (a_bcn a') = r_params (a_bcn a) /\ s_valfee (a_str a') = s_valfee (a_str a).
Proof.
  intros H. apply begin_block_params in H. unfold params_of in H.
  injection H as -> -> -> ->. auto.
Qed.

Lemma only_updates_change_params f a m a' :
  exec_msg f a m = Ok a' -> (forall g l, m <> MExec g l) -> is_param_update m = false ->
  e_params (a_ent a') = e_params (a_ent a) /\ r_params (a_wrk a') = r_params (a_wrk a) /\
  r_params (a_bcn a') = r_params (a_bcn a) /\ s_valfee (a_str a') = s_valfee (a_str a).
Proof.
  intros H X U.
  assert (E : params_of a' = params_of a).
  { eapply exec_leaf_params; eauto. destruct m; try reflexivity. exfalso. eapply X; reflexivity. }
  unfold params_of in E. injection E as -> -> -> ->. auto.
Qed.

Lemma begin_block_params_ok a now a' : begin_block a now = Some a' -> params_ok a -> params_ok a'.
Proof. intros H. apply params_ok_of. eapply begin_block_params; eauto. Qed.

Definition node_params_ok (n : node) : Prop :=
  params_ok (n_committed n) /\ params_ok (n_check n) /\
  match n_deliver n with Some a => params_ok a | None => True end.

Lemma node_step_params_ok n o n' r : node_step n o = Some (n', r) -> node_params_ok n -> node_params_ok n'.
Proof.
  unfold node_params_ok. destruct o as [now|t|t|ps| |]; cbn [node_step]; intros H (Pc & Pk & Pd).
  - destruct (begin_block (n_committed n) now) as [a|] eqn:B; [|discriminate].
    injection H as <- _. cbn [n_committed n_check n_deliver]. split; [|split]; auto. eapply begin_block_params_ok; eauto.
  - destruct (n_deliver n) as [a|]; [|discriminate].
    destruct (deliver_tx a t) as [a' r'] eqn:D. injection H as <- _. cbn [n_committed n_check n_deliver]. split; [|split]; auto.
    eapply deliver_tx_params_ok; eauto.
  - destruct (check_tx (n_check n) t) as [c' r'] eqn:D. injection H as <- _. cbn [n_committed n_check n_deliver]. split; [|split]; auto.
    eapply check_tx_params_ok; eauto.
  - destruct (n_deliver n) as [a|]; [|discriminate]. injection H as <- _. cbn [n_committed n_check n_deliver]. split; [|split]; auto.
    apply end_block_params_ok; auto.
  - destruct (n_deliver n) as [a|]; [|discriminate]. injection H as <- _. cbn [n_committed n_check n_deliver]. auto.
  - injection H as <- _. cbn [n_committed n_check n_deliver]. auto.
Qed.

Lemma node_run_params_ok h : forall n n', node_run n h = Some n' -> node_params_ok n -> node_params_ok n'.
Proof.
  induction h as [|o h IH]; intros n n' H P; cbn [node_run] in H.
  - injection H as <-. exact P.
  - destruct (node_step n o) as [[n1 r]|] eqn:S; [|discriminate].
    eapply IH; eauto. eapply node_step_params_ok; eauto.
Qed.

Lemma params_valid_reachable g h n :
  params_ok g -> node_run (node_init g) h = Some n -> node_params_ok n.
Proof.
  intros P H. eapply node_run_params_ok; eauto. unfold node_params_ok, node_init; cbn. auto.
Qed.

(* ---------- 19. an update is effective immediately ---------- *)

Lemma upd_wrk_effective f a p a' :
  exec_msg f a (MUpdParams GOV_MACC (UWrk p)) = Ok a' ->
  a' = with_wrk a (reg_with_params (a_wrk a) p) /\
  r_params (a_wrk a') = p /\ r_next (a_wrk a') = r_next (a_wrk a) /\ r_regs (a_wrk a') = r_regs (a_wrk a) /\
  r_limits (a_wrk a') = r_limits (a_wrk a) /\ r_recs (a_wrk a') = r_recs (a_wrk a) /\
  a_bank a' = a_bank a /\ a_ent a' = a_ent a /\ a_bcn a' = a_bcn a /\ a_str a' = a_str a /\
  a_grants a' = a_grants a /\ a_allow a' = a_allow a /\ a_now a' = a_now a.
Proof.
  destruct f as [|f]; [discriminate|]. cbn [exec_msg]. intros H. step H. step H.
  injection H as <-. cbn. repeat split; reflexivity.
Qed.

Lemma upd_bcn_effective f a p a' :
  exec_msg f a (MUpdParams GOV_MACC (UBcn p)) = Ok a' ->
  a' = with_bcn a (reg_with_params (a_bcn a) p) /\
  r_params (a_bcn a') = p /\ r_next (a_bcn a') = r_next (a_bcn a) /\ r_regs (a_bcn a') = r_regs (a_bcn a) /\
  r_limits (a_bcn a') = r_limits (a_bcn a) /\ r_recs (a_bcn a') = r_recs (a_bcn a) /\
  a_bank a' = a_bank a /\ a_ent a' = a_ent a /\ a_wrk a' = a_wrk a /\ a_str a' = a_str a /\
  a_grants a' = a_grants a /\ a_allow a' = a_allow a /\ a_now a' = a_now a.
Proof.
  destruct f as [|f]; [discriminate|]. cbn [exec_msg]. intros H. step H. step H.
  injection H as <-. cbn. repeat split; reflexivity.
Qed.

Lemma upd_ent_effective f a p a' :
  exec_msg f a (MUpdParams GOV_MACC (UEnt p)) = Ok a' ->
  e_params (a_ent a') = p /\ e_next (a_ent a') = e_next (a_ent a) /\ e_pos (a_ent a') = e_pos (a_ent a) /\
  e_raisedq (a_ent a') = e_raisedq (a_ent a) /\ e_acceptedq (a_ent a') = e_acceptedq (a_ent a) /\
  e_wl (a_ent a') = e_wl (a_ent a) /\ e_locked (a_ent a') = e_locked (a_ent a) /\
  e_spent (a_ent a') = e_spent (a_ent a) /\ e_totlocked (a_ent a') = e_totlocked (a_ent a) /\
  e_totspent (a_ent a') = e_totspent (a_ent a) /\
  a_bank a' = a_bank a /\ a_wrk a' = a_wrk a /\ a_bcn a' = a_bcn a /\ a_str a' = a_str a /\
  a_grants a' = a_grants a /\ a_allow a' = a_allow a /\ a_now a' = a_now a.
Proof.
  destruct f as [|f]; [discriminate|]. cbn [exec_msg]. intros H. step H. step H.
  injection H as <-. unfold ent_set_params in E. step E. injection E as <-.
  cbn. repeat split; reflexivity.
Qed.

Lemma upd_str_effective f a v a' :
  exec_msg f a (MUpdParams GOV_MACC (UStr v)) = Ok a' ->
  s_valfee (a_str a') = v /\ s_streams (a_str a') = s_streams (a_str a) /\
  a_bank a' = a_bank a /\ a_ent a' = a_ent a /\ a_wrk a' = a_wrk a /\ a_bcn a' = a_bcn a /\
  a_grants a' = a_grants a /\ a_allow a' = a_allow a /\ a_now a' = a_now a.
Proof.
  destruct f as [|f]; [discriminate|]. cbn [exec_msg]. intros H. step H. step H.
  injection H as <-. cbn. repeat split; reflexivity.
Qed.

(* the readers depend on the state only through the current parameters *)
Lemma check_fees_params_only pick rs rs' t :
  r_params rs = r_params rs' -> check_fees pick rs t = check_fees pick rs' t.
Proof. unfold check_fees. intros ->. reflexivity. Qed.

Lemma payer_has_funds_params_only rs rs' b e t :
  r_params rs = r_params rs' -> payer_has_funds rs b e t = payer_has_funds rs' b e t.
Proof. unfold payer_has_funds. intros ->. reflexivity. Qed.

Lemma max_purchasable_params_only rs rs' id :
  r_params rs = r_params rs' -> r_limits rs = r_limits rs' -> max_purchasable rs id = max_purchasable rs' id.
Proof. unfold max_purchasable. intros -> ->. reflexivity. Qed.

Lemma reg_ante_params_only pick rs rs' check b e t :
  r_params rs = r_params rs' -> r_limits rs = r_limits rs' ->
  reg_ante pick rs check b e t = reg_ante pick rs' check b e t.
Proof.
  intros Hp Hl. unfold reg_ante, check_max_slots, max_slots_table.
  rewrite (check_fees_params_only pick rs rs' t Hp), (payer_has_funds_params_only rs rs' b e t Hp).
  unfold max_purchasable. rewrite Hp, Hl. reflexivity.
Qed.

(* the fee check right after an update compares with the new fees *)
Lemma check_fees_after_update pick rs p t :
  check_fees pick (reg_with_params rs p) t =
  check_fees pick {| r_params := p; r_next := 0; r_regs := []; r_limits := []; r_recs := [] |} t.
Proof. apply check_fees_params_only. reflexivity. Qed.

Lemma reg_exec_purchase_limit_params_only h now s s' o id n :
  r_params s = r_params s' -> r_regs s = r_regs s' -> r_limits s = r_limits s' ->
  is_ok (reg_exec h now s (RPurchase o id n)) = is_ok (reg_exec h now s' (RPurchase o id n)).
Proof.
  intros Hp Hr Hl. unfold reg_exec, limit_of. rewrite Hp, Hr, Hl.
  destruct (n =? 0); [reflexivity|]. destruct (aget id (r_regs s')); [|reflexivity].
  destruct (negb _); [reflexivity|]. destruct (_ || _); reflexivity.
Qed.

(* the tally of the next block reads the parameters stored in the state it runs on *)
Lemma tally_reads_current_params id rest now s o :
  aget id (e_pos s) = Some o -> po_status o = ST_RAISED ->
  tally (id :: rest) now s =
  match tally_one (e_params s) now o with
  | None => tally rest now s
  | Some st =>
      tally rest now (with_pos s (aset id (set_po_status o st now true) (e_pos s)) (remove_z id (e_raisedq s))
                        (if st =? ST_ACCEPTED then e_acceptedq s ++ [id] else e_acceptedq s))
  end.
Proof. intros G S. cbn [tally]. rewrite G, S. reflexivity. Qed.

Lemma is_signer_reads_current_params s sg : is_signer s sg = mem_addr sg (ep_signers (e_params s)).
Proof. reflexivity. Qed.

(* the fee split of a claim uses the validator fee stored in the state it runs on *)
Lemma claim_uses_current_valfee now b s r sn b' s' c :
  claim_from_stream now b s r sn = Ok (b', s', c) ->
  (cr_receiver c, cr_fee c) = calculate_validator_fee (s_valfee s) (cr_total c).
Proof.
  unfold claim_from_stream. intros H. repeat step H. injection H as _ _ <-. cbn. congruence.
Qed.
