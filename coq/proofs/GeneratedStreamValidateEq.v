(* The stateless message checks generated from /repo/x/stream/types/msgs.go (the five ValidateBasic methods at the
   head of coq/GeneratedStreamKeeper.v, re-generated on every run) compute exactly what the hand-written
   [str_validate_basic] of model/Stream.v computes: same verdict, same error code.

   The only hypothesis is the int64 range of the flow rate of MsgCreateStream (the Go field is an int64; the
   generated CalculateDuration converts it to uint64, which is the identity only on that range).  It is needed:
   see gen_str_validate_basic_wide_rate_refuted.

   Then: histories run with the GENERATED ValidateBasic in front of the GENERATED message server are the model's
   histories. *)
From Coq Require Import ZifyBool.
From MC Require Import lib.Prelude lib.AMap lib.GoSdk GeneratedFns GeneratedStreamTypes model.Bank model.Stream
  model.StreamSpec model.StreamKeeperPrims GeneratedStreamKeeper model.StreamGenSpec.
From MC Require Import proofs.StreamArith proofs.BankProofs proofs.StreamProofs proofs.GeneratedFnsEq
  proofs.GeneratedStreamEq.
Local Open Scope Z_scope.

(* the generated ValidateBasic, driven by the model's message type: the records are those of [go_msg_exec] *)
Definition go_str_validate_basic (m : str_msg) : outcome unit :=
  match m with
  | SCreate sn r d amt rate => go_MsgCreateStream_ValidateBasic (mk_go_MsgCreateStream r sn (d, amt) rate)
  | SClaim sn r => go_MsgClaimStream_ValidateBasic (mk_go_MsgClaimStream sn r)
  | STopUp sn r d amt => go_MsgTopUpDeposit_ValidateBasic (mk_go_MsgTopUpDeposit r sn (d, amt))
  | SUpdateFlow sn r rate => go_MsgUpdateFlowRate_ValidateBasic (mk_go_MsgUpdateFlowRate r sn rate)
  | SCancel sn r => go_MsgCancelStream_ValidateBasic (mk_go_MsgCancelStream r sn)
  end.

(* the weakest natural hypothesis: only the rate of a create message matters *)
Definition str_msg_create_rate_ok (m : str_msg) : Prop :=
  match m with
  | SCreate _ _ _ _ rate => rate < two63
  | _ => True
  end.

Theorem gen_str_validate_basic_eq_create_rate : forall m, str_msg_create_rate_ok m ->
  go_str_validate_basic m = str_validate_basic m.
Proof.
  intros m Hwf.
  destruct m as [sn r d amt rate | sn r | sn r d amt | sn r rate | sn r]; cbn [str_msg_create_rate_ok] in Hwf;
    unfold go_str_validate_basic, str_validate_basic, go_MsgCreateStream_ValidateBasic,
      go_MsgClaimStream_ValidateBasic, go_MsgTopUpDeposit_ValidateBasic, go_MsgUpdateFlowRate_ValidateBasic,
      go_MsgCancelStream_ValidateBasic;
    kwalk; try reflexivity.
Qed.

Theorem gen_str_validate_basic_eq : forall m, str_msg_rate_ok m ->
  go_str_validate_basic m = str_validate_basic m.
Proof.
  intros m H. apply gen_str_validate_basic_eq_create_rate. destruct m; cbn in *; auto.
Qed.

Theorem gen_str_validate_basic_eq_wf : forall m, str_msg_wf m ->
  go_str_validate_basic m = str_validate_basic m.
Proof.
  intros m [_ H]. apply gen_str_validate_basic_eq_create_rate. destruct m; cbn in *; auto.
Qed.

(* the error codes agree exactly *)
Lemma stream_ErrInvalidData_is_model : stream_ErrInvalidData = ERR_INVALID_DATA.
Proof. reflexivity. Qed.

(* without the int64 range the statement is false: uint64(2^64 + 1) = 1 *)
Example gen_str_validate_basic_wide_rate_refuted :
  go_str_validate_basic (SCreate 1 2 0 6000 (two64 + 1)) <> str_validate_basic (SCreate 1 2 0 6000 (two64 + 1)).
Proof. vm_compute. intro X; discriminate X. Qed.

(* ---- histories: generated ValidateBasic, then the generated message server ---- *)
Definition go_step_v (bs : bank * str_state) (tm : Z * str_msg) : bank * str_state :=
  let '(t, m) := tm in
  match go_str_validate_basic m with
  | Ok _ =>
      match go_msg_exec (world t (fst bs) (snd bs)) m with
      | Ok (w', _) => (kw_bank w', kw_str w')
      | _ => bs
      end
  | _ => bs
  end.

Definition go_run_v (bs : bank * str_state) (h : list (Z * str_msg)) : bank * str_state :=
  fold_left go_step_v h bs.

Theorem gen_step_v_is_step : forall bs t m, str_msg_wf m -> go_step_v bs (t, m) = go_step bs (t, m).
Proof.
  intros bs t m W. unfold go_step_v, go_step. rewrite (gen_str_validate_basic_eq_wf m W). reflexivity.
Qed.

Theorem gen_step_v_eq : forall t b s m, str_inv t b s -> str_msg_wf m ->
  go_step_v (b, s) (t, m) = str_step (b, s) (t, m).
Proof.
  intros t b s m I W. rewrite (gen_step_v_is_step (b, s) t m W). exact (gen_step_eq t b s m I W).
Qed.

Theorem gen_run_v_eq : forall now0 b0 s0 h, str_inv now0 b0 s0 -> times_sorted now0 h ->
  go_run_v (b0, s0) h = str_run (b0, s0) h.
Proof.
  intros now0 b0 s0 h. revert now0 b0 s0.
  induction h as [|[t m] h IH]; intros now0 b0 s0 I TS; [reflexivity|].
  cbn [times_sorted] in TS. destruct TS as (Hle & Hst & W & TS).
  unfold go_run_v, str_run. cbn [fold_left].
  rewrite (gen_step_v_eq t b0 s0 m (inv_time_mono _ _ _ _ I Hle Hst) W).
  pose proof (str_step_preserves_inv _ _ _ _ _ I Hle Hst W) as I1.
  destruct (str_step (b0, s0) (t, m)) as [b1 s1]. cbn [fst snd] in I1.
  exact (IH t b1 s1 I1 TS).
Qed.

Print Assumptions gen_str_validate_basic_eq_create_rate.
Print Assumptions gen_str_validate_basic_eq.
Print Assumptions gen_str_validate_basic_eq_wf.
Print Assumptions gen_str_validate_basic_wide_rate_refuted.
Print Assumptions gen_step_v_eq.
Print Assumptions gen_run_v_eq.
