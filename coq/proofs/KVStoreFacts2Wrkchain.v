(* Further generic facts about the ordered byte-keyed store of model/KVStore.v, used by
   proofs/GeneratedWrkchainStoreEq.v: a write outside a prefix does not touch the prefix listing (no sortedness
   needed), a listing is determined by the point reads under the prefix, the sorted store as a strongly sorted list,
   decoding a listing entry by entry, iteration with an appending callback without any decodability hypothesis. *)
From Coq Require Import NArith List Bool Lia Sorted.
From MC Require Import lib.Prelude model.Keys model.KVStore proofs.KeysProofs proofs.KVStoreFacts.
Import ListNotations.

Section Facts2.
Context {V : Type}.
Notation okv := (okv V).

(* ---- a write / delete at a key outside the prefix leaves the prefix listing alone: no invariant needed ---- *)
Lemma prefix_set_other (s : okv) p k v : is_prefix p k = false -> okv_prefix (okv_set s k v) p = okv_prefix s p.
Proof.
  intros Hp. unfold okv_prefix. induction s as [|[k1 v1] s IH]; cbn.
  - rewrite Hp. reflexivity.
  - destruct (key_eqb k k1) eqn:E1.
    + apply key_eqb_spec in E1; subst k1. cbn. rewrite Hp. reflexivity.
    + destruct (lex_lt k k1); cbn.
      * rewrite Hp. reflexivity.
      * rewrite IH. reflexivity.
Qed.

Lemma prefix_del_other (s : okv) p k : is_prefix p k = false -> okv_prefix (okv_del s k) p = okv_prefix s p.
Proof.
  intros Hp. unfold okv_prefix. induction s as [|[k1 v1] s IH]; cbn; [reflexivity|].
  destruct (key_eqb k k1) eqn:E1.
  - apply key_eqb_spec in E1; subst k1. rewrite Hp. reflexivity.
  - cbn. rewrite IH. reflexivity.
Qed.

(* ---- a prefix listing of a sorted store is determined by the point reads under the prefix ---- *)
Lemma prefix_ext (s1 s2 : okv) p : okv_sorted s1 = true -> okv_sorted s2 = true ->
  (forall k, is_prefix p k = true -> okv_get s1 k = okv_get s2 k) -> okv_prefix s1 p = okv_prefix s2 p.
Proof.
  intros H1 H2 Hext. apply okv_ext; [apply prefix_sorted; exact H1 | apply prefix_sorted; exact H2|].
  intros k. rewrite !get_prefix. destruct (is_prefix p k) eqn:E; [apply Hext; exact E | reflexivity].
Qed.

Lemma prefix_nil_iff (s : okv) p : okv_prefix s p = [] <-> (forall k v, In (k, v) s -> is_prefix p k = false).
Proof.
  split.
  - intros E k v Hin. destruct (is_prefix p k) eqn:P; [|reflexivity].
    assert (In (k, v) (okv_prefix s p)) as X by (apply prefix_in; split; assumption). rewrite E in X. destruct X.
  - intros H. destruct (okv_prefix s p) as [|[k v] r] eqn:E; [reflexivity|].
    assert (In (k, v) (okv_prefix s p)) as X by (rewrite E; left; reflexivity).
    apply prefix_in in X. destruct X as [X1 X2]. rewrite (H _ _ X1) in X2. discriminate.
Qed.

(* ---- the representation invariant, as a strongly sorted list ---- *)
Definition key_lt (a b : list N * V) : Prop := lex_lt (fst a) (fst b) = true.

Lemma sorted_strongly (s : okv) : okv_sorted s = true -> StronglySorted key_lt s.
Proof.
  induction s as [|[k v] s IH]; intros Hs; [constructor|].
  apply sorted_cons in Hs. destruct Hs as [Hs Hab]. constructor; [apply IH; exact Hs|].
  apply Forall_forall. intros [k' v'] Hin. unfold key_lt; cbn. eapply Hab; exact Hin.
Qed.

Lemma StronglySorted_map_in {A B} (R : A -> A -> Prop) (R' : B -> B -> Prop) (f : A -> B) (l : list A) :
  (forall a b, In a l -> In b l -> R a b -> R' (f a) (f b)) ->
  StronglySorted R l -> StronglySorted R' (map f l).
Proof.
  intros Hf Hs. induction Hs as [|a l Hs IH Hall]; cbn; [constructor|].
  constructor.
  - apply IH. intros x y Hx Hy. apply Hf; right; assumption.
  - apply Forall_forall. intros y Hy. apply in_map_iff in Hy. destruct Hy as [x [<- Hx]].
    apply Hf; [left; reflexivity | right; exact Hx|]. rewrite Forall_forall in Hall. apply Hall; exact Hx.
Qed.

Lemma StronglySorted_irrefl_NoDup {A} (R : A -> A -> Prop) (l : list A) :
  (forall a, ~ R a a) -> StronglySorted R l -> NoDup l.
Proof.
  intros Hirr Hs. induction Hs as [|a l Hs IH Hall]; constructor; [|exact IH].
  intros Hin. rewrite Forall_forall in Hall. exact (Hirr a (Hall a Hin)).
Qed.

(* one key, one entry *)
Lemma sorted_in_unique (s : okv) k v1 v2 : okv_sorted s = true -> In (k, v1) s -> In (k, v2) s -> v1 = v2.
Proof.
  intros Hs H1 H2. apply (in_get _ _ _ Hs) in H1. apply (in_get _ _ _ Hs) in H2. congruence.
Qed.

(* a key that occurs in the list is found by the first-match read, whatever the order of the list *)
Lemma in_get_not_none (s : okv) k v : In (k, v) s -> okv_get s k <> None.
Proof.
  induction s as [|[k1 v1] s IH]; intros Hin; [destruct Hin|]. cbn [okv_get].
  destruct (key_eqb k k1) eqn:Ek; [discriminate|].
  destruct Hin as [X|X]; [|apply IH; exact X]. injection X as <- _. rewrite key_eqb_refl in Ek. discriminate.
Qed.

(* ---- decoding a listing ---- *)
Lemma decode_all_map {A} (dec : list N -> V -> outcome A) (f : list N * V -> A) (es : okv) :
  (forall k v, In (k, v) es -> dec k v = Ok (f (k, v))) -> decode_all dec es = Ok (map f es).
Proof.
  induction es as [|[k v] r IH]; intros Hd; [reflexivity|]. cbn.
  rewrite (Hd k v (or_introl eq_refl)). cbn. rewrite IH by (intros k' v' Hin; apply Hd; right; exact Hin).
  reflexivity.
Qed.

(* [iterate_append] of KVStoreFacts.v without its decodability hypothesis: a decode failure is the same failure
   on both sides *)
Lemma iterate_append_total {A} (dec : list N -> V -> outcome A) (es : okv) acc :
  okv_iterate dec (fun acc_ a_ => Ok (acc_ ++ [a_], false)) es acc =
  do l <- decode_all dec es; Ok (acc ++ l).
Proof.
  revert acc. induction es as [|[k v] r IH]; intros acc; cbn.
  - rewrite app_nil_r. reflexivity.
  - destruct (dec k v) as [a|c|c]; cbn; [|reflexivity|reflexivity].
    rewrite IH. destruct (decode_all dec r); cbn; [rewrite <- app_assoc; reflexivity | reflexivity | reflexivity].
Qed.

Lemma obind_ret {A} (o : outcome A) : (do x <- o; Ok x) = o.
Proof. destruct o; reflexivity. Qed.

(* the loop only sees the decoder through its values *)
Lemma iterate_ext_dec {A St} (dec1 dec2 : list N -> V -> outcome A) (cb : St -> A -> outcome (St * bool)) (es : okv) st :
  (forall k v, dec1 k v = dec2 k v) -> okv_iterate dec1 cb es st = okv_iterate dec2 cb es st.
Proof.
  intros Hd. revert st. induction es as [|[k v] r IH]; intros st; cbn; [reflexivity|].
  rewrite Hd. destruct (dec2 k v) as [a|c|c]; cbn; [|reflexivity|reflexivity].
  destruct (cb st a) as [[st' b]|c|c]; cbn; [|reflexivity|reflexivity].
  destruct b; [reflexivity | apply IH].
Qed.

(* the paginated iterator of page 1, limit 1 walks the first entry of the ascending listing only *)
Lemma paginated_1_1 (s : okv) p : okv_iter_prefix_paginated s p 1 1 = Ok (firstn 1 (okv_prefix s p)).
Proof. reflexivity. Qed.

End Facts2.
