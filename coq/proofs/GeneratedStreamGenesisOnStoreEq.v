(* GENESIS of x/stream ON THE BYTE STORE: InitGenesis / ExportGenesis of /repo/x/stream/keeper/genesis.go as rendered a
   second time (GeneratedStreamKeeperOnStore.v: world [sworld] of model/StreamStoreWorld.v, store access through the
   GENERATED accessors of GeneratedStreamStore.v - in particular the listing go_st_IterateAllStreams: prefix iteration,
   the address pair parsed from every key by the generated AddressesFromStreamKey) against the first rendering
   (GeneratedStreamKeeper.v over the hand-written primitives, world [kworld]; proofs/GeneratedStreamGenesisEq.v and
   proofs/GeneratedStreamExportEq.v relate THAT to the model's import_str / export_str).

   Given, as in proofs/GeneratedStreamOnStoreEq.v: dom, emb, emb_len, emb_inj; and
       unemb : list N -> addr   with   unemb_emb : on dom, unemb (emb a) = a
   (the document spells the address bytes parsed from a store key as strings - receiverAddr.String(); unemb is that
   conversion.  It is a Section variable of the generated file: a parameter of S.go_ExportGenesis alone).

   part 1  the listing adapter os_str_AllStreams: the abstract listing SORTED BY STORE KEY ([os_AllStreams_sorted]), a
           permutation of it ([os_AllStreams_perm]), equal when the abstract map is in key order ([os_AllStreams_eq]);
   part 2  ExportGenesis: equal under [key_ordered], equal up to a permutation of the stream entries without it, and the
           hypothesis is needed ([os_ExportGenesis_order_refuted]);
   part 3  InitGenesis simulates: Ok/Ok related worlds, Panic/Panic equal codes, never Err
           ([os_InitGenesis_sim]) - for a document whose addresses are in dom ([os_InitGenesis_dom_refuted]);
   part 4  what InitGenesis leaves in the store, in closed form ([os_InitGenesis_store]); import into the empty store;
   part 5  round trip: export, then import into the empty store;
   part 6  a concrete store. *)
From MC Require Import lib.Prelude lib.AMap lib.GoSdk GeneratedFns GeneratedStreamTypes model.Bank model.Stream
  model.StreamSpec model.Keys model.KeyPrims model.KVStore model.StoreCodecPrims model.StreamKeeperPrims model.StreamStoreWorld
  model.Genesis model.StreamGenSpec model.StreamGenesisGenSpec GeneratedKeys GeneratedStreamStore.
From MC Require GeneratedStreamKeeper GeneratedStreamKeeperOnStore.
From MC Require Import proofs.BankProofs proofs.KeysProofs proofs.KVStoreFacts proofs.KVStoreFacts2Stream proofs.GeneratedStreamParamsEq
  proofs.GeneratedStreamStoreEq proofs.GeneratedStreamStoreRefines
  proofs.GeneratedStreamOnStoreEq proofs.GeneratedStreamGenesisEq proofs.GeneratedStreamExportEq.
From Coq Require Import NArith ZArith List Bool Lia Permutation.
Import ListNotations.
Local Open Scope Z_scope.


(* ================================================================== *)
(* generic: loops and outcomes                                          *)
(* ================================================================== *)

Lemma out_sim_bind {A B A' B'} (R : A -> B -> Prop) (R' : A' -> B' -> Prop)
      (a : outcome A) (c : outcome B) (ka : A -> outcome A') (kc : B -> outcome B') :
  out_sim R a c -> (forall x y, R x y -> out_sim R' (ka x) (kc y)) -> out_sim R' (obind a ka) (obind c kc).
Proof.
  intros H K. destruct a as [x|e|p], c as [y|e'|p']; cbn in H |- *; try contradiction; try exact H. apply K, H.
Qed.

(* the results of one loop iteration / of a whole loop *)
Definition lr_rel {S1 S2 R1 R2} (RS : S1 -> S2 -> Prop) (RR : R1 -> R2 -> Prop) (x : loop_res S1 R1) (y : loop_res S2 R2) : Prop :=
  match x, y with
  | LCont s1, LCont s2 => RS s1 s2
  | LRet r1, LRet r2 => RR r1 r2
  | _, _ => False
  end.

Lemma range_sim {A S1 S2 R1 R2} (RS : S1 -> S2 -> Prop) (RR : R1 -> R2 -> Prop) (P : A -> Prop)
      (f : A -> S1 -> outcome (loop_res S1 R1)) (g : A -> S2 -> outcome (loop_res S2 R2)) :
  (forall x s1 s2, P x -> RS s1 s2 -> out_sim (lr_rel RS RR) (f x s1) (g x s2)) ->
  forall l s1 s2, Forall P l -> RS s1 s2 -> out_sim (lr_rel RS RR) (go_range f l s1) (go_range g l s2).
Proof.
  intros Hb l. induction l as [|x l IH]; intros s1 s2 HP HS; cbn [go_range].
  - exact HS.
  - inversion HP as [|? ? Px Pl]; subst. apply (out_sim_bind (lr_rel RS RR)); [apply Hb; assumption|].
    intros [s1'|r1] [s2'|r2] H; cbn in H; try contradiction.
    + apply IH; assumption.
    + exact H.
Qed.

(* a callback that appends the image of what it is handed and never stops *)
Lemma list_iterate_map {A B} (F : A -> B) (L : list A) (acc : list B) :
  list_iterate (fun acc_ a_ => Ok (acc_ ++ [F a_], false)) L acc = Ok (acc ++ map F L).
Proof.
  revert acc. induction L as [|a L IH]; intros acc; cbn [list_iterate map].
  - rewrite app_nil_r. reflexivity.
  - cbn [obind snd fst]. rewrite IH, <- app_assoc. reflexivity.
Qed.

(* a loop whose iterations never return and act on a projection of the state as a function *)
Lemma range_proj {A St R T} (body : A -> St -> outcome (loop_res St R)) (pr : St -> T) (f : A -> T -> T) :
  (forall x s r, body x s = Ok r -> exists s', r = LCont s' /\ pr s' = f x (pr s)) ->
  forall l s r, go_range body l s = Ok r -> exists s', r = LCont s' /\ pr s' = fold_left (fun t x => f x t) l (pr s).
Proof.
  intros Hb l. induction l as [|x l IH]; intros s r E; cbn [go_range fold_left] in *.
  - injection E as <-. eexists; split; reflexivity.
  - destruct (body x s) as [res|e|p] eqn:Eb; cbn [obind] in E; try discriminate E.
    destruct (Hb x s res Eb) as (s1 & -> & E1). destruct (IH s1 r E) as (s' & -> & E'). exists s'.
    split; [reflexivity|]. rewrite E', E1. reflexivity.
Qed.

(* writing a sorted list of entries, one by one, onto a store *)
Definition okv_set_all {V} (l s0 : okv V) : okv V := fold_left (fun s kv => okv_set s (fst kv) (snd kv)) l s0.

Lemma set_all_sorted {V} (l : okv V) : forall s0, okv_sorted s0 = true -> okv_sorted (okv_set_all l s0) = true.
Proof.
  induction l as [|[k v] l IH]; intros s0 H0; [exact H0|]. unfold okv_set_all. cbn [fold_left fst snd].
  apply IH, set_sorted, H0.
Qed.

Lemma set_all_get {V} (l : okv V) : forall s0 k, okv_sorted l = true ->
  okv_get (okv_set_all l s0) k = match okv_get l k with Some v => Some v | None => okv_get s0 k end.
Proof.
  induction l as [|[k1 v1] l IH]; intros s0 k Hs; [reflexivity|].
  apply sorted_cons in Hs as [Hs Hab]. unfold okv_set_all. cbn [fold_left fst snd]. fold (okv_set_all l (okv_set s0 k1 v1)).
  rewrite (IH _ k Hs). cbn [okv_get]. destruct (key_eqb k k1) eqn:E.
  - apply key_eqb_spec in E. subst k1. rewrite (above_get_none _ _ Hab), get_set_same. reflexivity.
  - apply key_eqb_false in E. rewrite (get_set_other _ _ _ _ E). reflexivity.
Qed.

Lemma set_all_in {V} (l : okv V) : forall s0 k v, In (k, v) (okv_set_all l s0) -> In (k, v) l \/ In (k, v) s0.
Proof.
  induction l as [|[k1 v1] l IH]; intros s0 k v Hin; [right; exact Hin|].
  unfold okv_set_all in Hin. cbn [fold_left fst snd] in Hin. apply IH in Hin as [Hin|Hin]; [left; right; exact Hin|].
  apply set_in in Hin as [[-> ->]|Hin]; [left; left; reflexivity | right; exact Hin].
Qed.

(* ================================================================== *)
Section Genesis.
(* ================================================================== *)

Variable dom : addr -> Prop.
Variable emb : addr -> list N.
Hypothesis emb_len : forall a, dom a -> (1 <= length (emb a) <= 255)%nat.
Hypothesis emb_inj : forall a b, dom a -> dom b -> emb a = emb b -> a = b.
Variable unemb : list N -> addr.
Hypothesis unemb_emb : forall a, dom a -> unemb (emb a) = a.

Notation Rw := (Rw dom emb).
Notation sim := (sim dom emb).
Notation Rstr := (Rstr dom emb).

(* ------------------------------------------------------------------ *)
(* part 1: the listing                                                  *)
(* ------------------------------------------------------------------ *)

(* a listed triple (receiver bytes, sender bytes, stream) as a document entry *)
Definition unexport (t : triple) : go_StreamExport :=
  mk_go_StreamExport (unemb (fst (fst t))) (unemb (snd (fst t))) (snd t).

(* the abstract map lists its streams in ascending order of their STORE KEYS *)
Definition key_ordered (st : str_state) : Prop := ForallOrdPairs tlt (map (etriple emb) (s_streams st)).

Lemma export_eta e : mk_go_StreamExport (StreamExport_Receiver e) (StreamExport_Sender e) (StreamExport_Stream e) = e.
Proof. destruct e; reflexivity. Qed.

Lemma AllStreams_dom s w e : Rstr s (kw_str w) -> In e (str_AllStreams w) ->
  dom (StreamExport_Receiver e) /\ dom (StreamExport_Sender e).
Proof.
  intros (_ & _ & _ & _ & _ & Hd) Hin. unfold str_AllStreams in Hin. apply in_map_iff in Hin as ([[r sn] x] & <- & Hin).
  cbn [StreamExport_Receiver StreamExport_Sender fst snd]. apply Hd.
  change (r, sn) with (fst ((r, sn), x)). apply in_map. exact Hin.
Qed.

Lemma unexport_eexport s w l : Rstr s (kw_str w) -> (forall e, In e l -> In e (str_AllStreams w)) ->
  map unexport (map (eexport emb) l) = l.
Proof.
  intros HR Hin. rewrite map_map. rewrite <- (map_id l) at 2. apply map_ext_in. intros e He.
  destruct (AllStreams_dom s w e HR (Hin e He)) as [Dr Ds].
  unfold unexport, eexport. cbn [fst snd]. rewrite (unemb_emb _ Dr), (unemb_emb _ Ds). apply export_eta.
Qed.

(* what the adapter lists: the abstract listing, embedded, sorted by store key, read back *)
Theorem os_AllStreams_sorted w ws : Rw w ws ->
  os_str_AllStreams unemb ws = Ok (map unexport (ksort (map (eexport emb) (str_AllStreams w)))).
Proof.
  intros (_ & _ & _ & HR). unfold os_str_AllStreams.
  rewrite (AllStreams_refines_callback dom emb emb_len emb_inj (sw_store ws) w HR).
  exact (list_iterate_map unexport _ []).
Qed.

(* ... a permutation of the abstract listing ... *)
Theorem os_AllStreams_perm w ws : Rw w ws ->
  exists L, os_str_AllStreams unemb ws = Ok L /\ Permutation L (str_AllStreams w).
Proof.
  intros H. pose proof H as (_ & _ & _ & HR). rewrite (os_AllStreams_sorted w ws H). eexists. split; [reflexivity|].
  rewrite <- (unexport_eexport (sw_store ws) w (str_AllStreams w) HR (fun e He => He)) at 2.
  apply Permutation_map, ksort_perm.
Qed.

(* ... and the abstract listing itself when that is in key order *)
Lemma key_ordered_ksort s st : Rstr s st -> key_ordered st -> ksort (map (etriple emb) (s_streams st)) = map (etriple emb) (s_streams st).
Proof.
  intros HR HO. symmetry. apply ksort_unique; [eapply etriple_keys_nodup; eassumption | exact HO | apply Permutation_refl].
Qed.

Theorem os_AllStreams_eq w ws : Rw w ws -> key_ordered (kw_str w) ->
  os_str_AllStreams unemb ws = Ok (str_AllStreams w).
Proof.
  intros H HO. pose proof H as (_ & _ & _ & HR). rewrite (os_AllStreams_sorted w ws H). f_equal.
  rewrite eexport_AllStreams, (key_ordered_ksort _ _ HR HO), <- eexport_AllStreams.
  apply (unexport_eexport (sw_store ws) w _ HR). auto.
Qed.

(* ------------------------------------------------------------------ *)
(* part 2: ExportGenesis                                                *)
(* ------------------------------------------------------------------ *)

(* the document the on-store ExportGenesis writes, on every related pair of worlds: no ordering hypothesis *)
Theorem os_ExportGenesis_run w ws : Rw w ws ->
  S.go_ExportGenesis unemb ws =
    Ok (mk_go_GenesisState (mk_go_Params (s_valfee (kw_str w)))
                           (map unexport (ksort (map (eexport emb) (str_AllStreams w))))).
Proof.
  intros H. unfold S.go_ExportGenesis. rewrite (prim_GetParams dom emb w ws H), obind_Ok.
  rewrite (os_AllStreams_sorted w ws H), obind_Ok.
  match goal with
  | |- context [go_range ?b ?l ?s0] => rewrite (go_range_append b go_str_export_entry)
  end.
  - cbn [obind app]. unfold S.go_NewGenesisState. cbn [obind].
    rewrite (map_ext _ _ go_str_export_entry_id), map_id. reflexivity.
  - intros x s. reflexivity.
Qed.

Theorem os_ExportGenesis_eq w ws : Rw w ws -> key_ordered (kw_str w) ->
  S.go_ExportGenesis unemb ws = K.go_ExportGenesis w.
Proof.
  intros H HO. rewrite (os_ExportGenesis_run w ws H), gen_str_ExportGenesis_run. unfold str_export_doc. do 2 f_equal.
  pose proof (os_AllStreams_eq w ws H HO) as E. rewrite (os_AllStreams_sorted w ws H) in E. injection E as E. exact E.
Qed.

(* without the hypothesis: the same parameters, the same stream entries in another order (ascending store key) *)
Theorem os_ExportGenesis_perm w ws : Rw w ws ->
  exists d d', S.go_ExportGenesis unemb ws = Ok d /\ K.go_ExportGenesis w = Ok d' /\
    GenesisState_Params d = GenesisState_Params d' /\
    Permutation (GenesisState_Streams d) (GenesisState_Streams d').
Proof.
  intros H. rewrite (os_ExportGenesis_run w ws H), gen_str_ExportGenesis_run. do 2 eexists.
  split; [reflexivity|]. split; [reflexivity|]. split; [reflexivity|].
  unfold str_export_doc. cbn [GenesisState_Streams].
  destruct (os_AllStreams_perm w ws H) as (L & E & P). rewrite (os_AllStreams_sorted w ws H) in E. injection E as <-. exact P.
Qed.

(* ExportGenesis on the store never fails *)
Corollary os_ExportGenesis_total w ws : Rw w ws -> exists d, S.go_ExportGenesis unemb ws = Ok d.
Proof. intros H. rewrite (os_ExportGenesis_run w ws H). eexists; reflexivity. Qed.

(* ------------------------------------------------------------------ *)
(* part 3: InitGenesis simulates                                        *)
(* ------------------------------------------------------------------ *)

(* the addresses a document names are addresses in use *)
Definition entry_dom (e : go_StreamExport) : Prop := dom (StreamExport_Receiver e) /\ dom (StreamExport_Sender e).
Definition doc_dom (d : go_GenesisState) : Prop := Forall entry_dom (GenesisState_Streams d).

Lemma sim_ignore_err w ws (a : outcome (kworld * unit)) (c : outcome (sworld * unit)) :
  Rw w ws -> sim a c -> sim (ignore_err w a) (ignore_err ws c).
Proof.
  intros H Hs. destruct a as [[w' []]|e|p], c as [[ws' []]|e'|p']; cbn in Hs |- *; try contradiction; try exact Hs.
  split; [exact H | reflexivity].
Qed.

Lemma sim_panic_on_err {R} code (a : outcome (kworld * R)) (c : outcome (sworld * R)) :
  sim a c -> sim (panic_on_err code a) (panic_on_err code c).
Proof. intros Hs. destruct a as [x|e|p], c as [y|e'|p']; cbn in Hs |- *; try contradiction; try exact Hs. reflexivity. Qed.

(* the state of the import loop: the world and the holdings accumulated so far *)
Definition Rloop (x : kworld * list go_coin) (y : sworld * list go_coin) : Prop := Rw (fst x) (fst y) /\ snd x = snd y.

Theorem os_InitGenesis_sim w ws d : Rw w ws -> doc_dom d -> sim (K.go_InitGenesis w d) (S.go_InitGenesis ws d).
Proof.
  intros H HD. unfold K.go_InitGenesis, S.go_InitGenesis, str_GetStreamModuleAccount, os_str_GetStreamModuleAccount.
  rewrite obind_Ok. cbv beta zeta. cbn [modacc_is_nil].
  apply (sim_bind dom emb); [apply sim_ignore_err; [exact H | apply (prim_SetParams dom emb); exact H]|].
  intros w1 ws1 [] H1. cbv beta iota.
  apply (out_sim_bind (lr_rel Rloop (@GeneratedStreamOnStoreEq.Rres dom emb unit))).
  - apply (range_sim Rloop _ entry_dom); [|exact HD | split; [exact H1 | reflexivity]].
    intros e [wa ha] [wsa hsa] [Dr Ds] [Ha Hh]. cbn [fst snd] in Ha, Hh. subst hsa. cbv beta iota.
    unfold sdk_AccAddressFromBech32. cbn [panic_on_err]. rewrite !obind_Ok.
    apply (out_sim_bind (@GeneratedStreamOnStoreEq.Rres dom emb unit)).
    + apply sim_panic_on_err. apply (prim_SetStream dom emb emb_len emb_inj); assumption.
    + intros [wb []] [wsb []] [Hb _]. cbn [fst] in Hb. cbv beta iota.
      destruct (Coins_AddCoin ha (Stream_Deposit (StreamExport_Stream e))) as [t|err|p]; cbn [obind out_sim lr_rel].
      * split; [exact Hb | reflexivity].
      * reflexivity.
      * reflexivity.
  - intros [[wa ha]|ra] [[wsa hsa]|rsa] Hl; cbn [lr_rel] in Hl; try contradiction.
    + destruct Hl as [Ha Hh]. cbn [fst snd] in Ha, Hh. subst hsa. cbv beta iota zeta.
      unfold bank_GetAllBalances, os_bank_GetAllBalances, acc_SetModuleAccount, os_acc_SetModuleAccount.
      pose proof Ha as (_ & _ & Hb & _). rewrite Hb. cbn [obind].
      match goal with |- context [Coins_IsZero ?b] => destruct (Coins_IsZero b) end; cbn [obind];
        match goal with |- context [Coins_IsEqual ?a ?b] => destruct (Coins_IsEqual a b) as [[|]|err|p] end;
        cbn [obind negb]; first [ reflexivity | apply (sim_ret dom emb); exact Ha ].
    + destruct ra as [wr []], rsa as [wsr []]. exact Hl.
Qed.

(* spelled out: Ok with Ok and related worlds, Panic with Panic and the same code; InitGenesis returns no error *)
Corollary os_InitGenesis_Ok w ws d ws' : Rw w ws -> doc_dom d -> S.go_InitGenesis ws d = Ok (ws', tt) ->
  exists w', K.go_InitGenesis w d = Ok (w', tt) /\ Rw w' ws'.
Proof. intros H HD E. exact (sim_Ok_inv dom emb _ ws' tt _ (os_InitGenesis_sim w ws d H HD) E). Qed.

Corollary os_InitGenesis_Ok_l w ws d w' : Rw w ws -> doc_dom d -> K.go_InitGenesis w d = Ok (w', tt) ->
  exists ws', S.go_InitGenesis ws d = Ok (ws', tt) /\ Rw w' ws'.
Proof. intros H HD E. exact (sim_Ok_inv_l dom emb _ w' tt _ (os_InitGenesis_sim w ws d H HD) E). Qed.

Corollary os_InitGenesis_Panic w ws d c : Rw w ws -> doc_dom d ->
  (S.go_InitGenesis ws d = Panic c <-> K.go_InitGenesis w d = Panic c).
Proof.
  intros H HD. pose proof (os_InitGenesis_sim w ws d H HD) as Hs.
  destruct (K.go_InitGenesis w d) as [x|e|p], (S.go_InitGenesis ws d) as [y|e'|p']; cbn in Hs; try contradiction;
    split; intros E; try discriminate E; congruence.
Qed.

(* ------------------------------------------------------------------ *)
(* part 4: the store InitGenesis builds, in closed form                 *)
(* ------------------------------------------------------------------ *)

(* SetParams (its error is dropped by InitGenesis), then one SetStream per entry in document order *)
Definition s_set_params (p : go_Params) (s : sstore) : sstore :=
  if str_params_valid (Params_ValidatorFee p) then okv_set s stream_ParamsKey (SV_Params p) else s.
Definition s_set_entry (em : addr -> list N) (e : go_StreamExport) (s : sstore) : sstore :=
  okv_set s (skey (em (StreamExport_Receiver e)) (em (StreamExport_Sender e))) (SV_Stream (StreamExport_Stream e)).
Definition s_import (em : addr -> list N) (d : go_GenesisState) (s : sstore) : sstore :=
  fold_left (fun s e => s_set_entry em e s) (GenesisState_Streams d) (s_set_params (GenesisState_Params d) s).

Lemma with_sstore_same ws : with_sstore ws (sw_store ws) = ws.
Proof. destruct ws; reflexivity. Qed.

Lemma fold_with_sstore (em : addr -> list N) l : forall ws, sw_emb ws = em ->
  fold_left (fun ws e => with_sstore ws (s_set_entry (sw_emb ws) e (sw_store ws))) l ws =
  with_sstore ws (fold_left (fun s e => s_set_entry em e s) l (sw_store ws)).
Proof.
  induction l as [|e l IH]; intros ws He; cbn [fold_left]; [symmetry; apply with_sstore_same|].
  rewrite IH by exact He. rewrite He. reflexivity.
Qed.

(* whenever the on-store InitGenesis returns: the clock, the bank and the embedding are untouched, the store is
   [s_import] of the document - on EVERY store, for EVERY document *)
Theorem os_InitGenesis_store ws d ws' u : S.go_InitGenesis ws d = Ok (ws', u) ->
  ws' = with_sstore ws (s_import (sw_emb ws) d (sw_store ws)).
Proof.
  unfold S.go_InitGenesis, os_str_GetStreamModuleAccount. rewrite obind_Ok. cbv beta zeta. cbn [modacc_is_nil].
  assert (Ep : ignore_err ws (os_str_SetParams ws (GenesisState_Params d)) =
               Ok (with_sstore ws (s_set_params (GenesisState_Params d) (sw_store ws)), tt)).
  { unfold os_str_SetParams, s_set_params. rewrite SetParams_spec, gen_str_Params_Validate_eq.
    destruct (str_params_valid (Params_ValidatorFee (GenesisState_Params d))); cbn [obind ignore_err fst];
      [reflexivity | rewrite with_sstore_same; reflexivity]. }
  rewrite Ep, obind_Ok. cbv beta iota. clear Ep.
  match goal with
  | |- context [go_range ?b ?l ?s0] =>
      pose proof (range_proj b fst (fun e ws => with_sstore ws (s_set_entry (sw_emb ws) e (sw_store ws)))) as HL;
      destruct (go_range b l s0) as [res|e|p] eqn:El; cbn [obind]; try discriminate
  end.
  assert (Hstep : forall (x : go_StreamExport) (s : sworld * list go_coin) r,
             (let '(w, moduleHoldings) := s in
              do senderAddr <- panic_on_err stream_PANIC (sdk_AccAddressFromBech32 (StreamExport_Sender x));
              do receiverAddr <- panic_on_err stream_PANIC (sdk_AccAddressFromBech32 (StreamExport_Receiver x));
              do (w0, _) <- panic_on_err stream_PANIC (os_str_SetStream w receiverAddr senderAddr (StreamExport_Stream x));
              do t3_ <- Coins_AddCoin moduleHoldings (Stream_Deposit (StreamExport_Stream x));
              Ok (LCont (w0, t3_))) = Ok r ->
             exists s', r = @LCont _ (sworld * unit) s' /\
                        fst s' = with_sstore (fst s) (s_set_entry (sw_emb (fst s)) x (sw_store (fst s)))).
  { intros x [wa ha] r. unfold sdk_AccAddressFromBech32, os_str_SetStream. cbn [panic_on_err obind fst].
    destruct (go_st_SetStream (sw_store wa) (sw_emb wa (StreamExport_Receiver x)) (sw_emb wa (StreamExport_Sender x))
                (StreamExport_Stream x)) as [[s1 []]|e|p] eqn:Es; cbn [obind panic_on_err fst]; try discriminate.
    apply SetStream_inv in Es as (-> & _).
    destruct (Coins_AddCoin ha (Stream_Deposit (StreamExport_Stream x))) as [t|e|p]; cbn [obind]; try discriminate.
    intros [= <-]. eexists. split; reflexivity. }
  destruct (HL Hstep _ _ _ El) as ([wa ha] & -> & Ea). cbn [fst] in Ea.
  rewrite (fold_with_sstore (sw_emb ws)) in Ea by reflexivity. cbn [with_sstore sw_store sw_emb] in Ea.
  cbv beta iota zeta. unfold os_bank_GetAllBalances, os_acc_SetModuleAccount. cbn [obind].
  match goal with |- context [Coins_IsZero ?b] => destruct (Coins_IsZero b) end; cbn [obind];
    match goal with |- context [Coins_IsEqual ?a ?b] => destruct (Coins_IsEqual a b) as [[|]|err|p] end;
    cbn [obind negb]; try discriminate; intros [= <- _]; rewrite Ea; unfold s_import; destruct ws; reflexivity.
Qed.

(* ---- import into the EMPTY store ---- *)

(* the empty store, at any clock and over any bank, represents the fresh abstract world with fee 0 *)
Definition empty_sworld (now : Z) (b : bank) : sworld := mk_sworld emb now b [].

Lemma Rw_empty now b : Rw (fresh_kworld now b 0) (empty_sworld now b).
Proof.
  unfold GeneratedStreamOnStoreEq.Rw, fresh_kworld, empty_sworld. cbn [sw_emb sw_now sw_bank sw_store kw_now kw_bank kw_str].
  split; [reflexivity|]. split; [reflexivity|]. split; [reflexivity|]. apply Rstr_empty.
Qed.

Theorem os_InitGenesis_empty now b d : doc_dom d ->
  sim (K.go_InitGenesis (fresh_kworld now b 0) d) (S.go_InitGenesis (empty_sworld now b) d).
Proof. intros HD. apply os_InitGenesis_sim; [apply Rw_empty | exact HD]. Qed.

(* whenever it returns, the store it built represents the state the first rendering built - with or without valid
   parameters: the error of SetParams is dropped on both sides, and a store without a Params cell represents fee 0 *)
Corollary os_InitGenesis_empty_Ok now b d ws' : doc_dom d -> S.go_InitGenesis (empty_sworld now b) d = Ok (ws', tt) ->
  exists w', K.go_InitGenesis (fresh_kworld now b 0) d = Ok (w', tt) /\ Rw w' ws' /\
             ws' = mk_sworld emb now b (s_import emb d []).
Proof.
  intros HD E. destruct (os_InitGenesis_Ok _ _ d ws' (Rw_empty now b) HD E) as (w' & E' & H'). exists w'.
  split; [exact E'|]. split; [exact H'|]. apply os_InitGenesis_store in E. exact E.
Qed.

(* ... which, for a document the model accepts questions about (valid fee, no pair twice), is the MODEL's import *)
Corollary os_InitGenesis_empty_model now b d ws' : doc_dom d ->
  str_params_valid (Params_ValidatorFee (GenesisState_Params d)) = true ->
  bank_wf b -> macc_nonneg b -> NoDup (str_doc_keys d) ->
  S.go_InitGenesis (empty_sworld now b) d = Ok (ws', tt) ->
  exists st, import_str b (gen_str_of_go d) = Some st /\ Rstr (sw_store ws') st /\ sw_bank ws' = b.
Proof.
  intros HD V Wf NN ND E. destruct (os_InitGenesis_empty_Ok now b d ws' HD E) as (w' & E' & H' & ->).
  destruct (gen_str_InitGenesis_ok now b 0 d w' V Wf NN ND E') as [Em Eb]. exists (kw_str w').
  split; [exact Em|]. split; [apply H' | reflexivity].
Qed.

(* ------------------------------------------------------------------ *)
(* part 5: round trip                                                   *)
(* ------------------------------------------------------------------ *)

(* every key of the store is one of the module's: the Params cell or a stream key.  (Rstr constrains what lies UNDER
   StreamKeyPrefix and in the Params cell; it does not forbid other keys - no code of the module writes any.) *)
Definition module_keys (s : sstore) : Prop :=
  forall k v, In (k, v) s -> k = stream_ParamsKey \/ is_prefix stream_StreamKeyPrefix k = true.

(* the exported entries name addresses in use *)
Lemma sorted_listing_dom s w t : Rstr s (kw_str w) -> In t (ksort (map (eexport emb) (str_AllStreams w))) ->
  exists e, t = eexport emb e /\ entry_dom e.
Proof.
  intros HR Hin. apply (Permutation_in _ (ksort_perm _)) in Hin. apply in_map_iff in Hin as (e & <- & He).
  exists e. split; [reflexivity | exact (AllStreams_dom s w e HR He)].
Qed.

Lemma export_doc_dom w ws d : Rw w ws -> S.go_ExportGenesis unemb ws = Ok d -> doc_dom d.
Proof.
  intros H E. rewrite (os_ExportGenesis_run w ws H) in E. injection E as <-. unfold doc_dom. cbn [GenesisState_Streams].
  apply Forall_forall. intros x Hx. apply in_map_iff in Hx as (t & <- & Ht). destruct H as (_ & _ & _ & HR).
  destruct (sorted_listing_dom _ w t HR Ht) as (e & -> & Dr & Ds).
  unfold entry_dom, unexport, eexport. cbn [StreamExport_Receiver StreamExport_Sender fst snd].
  rewrite (unemb_emb _ Dr), (unemb_emb _ Ds). split; assumption.
Qed.

(* importing the exported document writes back, entry by entry, what the store lists under StreamKeyPrefix *)
Lemma fold_entries (L : list triple) : forall s1,
  Forall (fun t => emb (unemb (fst (fst t))) = fst (fst t) /\ emb (unemb (snd (fst t))) = snd (fst t)) L ->
  fold_left (fun s e => s_set_entry emb e s) (map unexport L) s1 = okv_set_all (map entry_of L) s1.
Proof.
  induction L as [|t L IH]; intros s1 HF; [reflexivity|]. inversion HF as [|? ? [E1 E2] HF']; subst.
  cbn [map fold_left]. unfold okv_set_all. cbn [fold_left]. fold (okv_set_all (map entry_of L)).
  rewrite (IH _ HF'). f_equal. unfold s_set_entry, unexport, entry_of.
  cbn [StreamExport_Receiver StreamExport_Sender StreamExport_Stream fst snd]. rewrite E1, E2. reflexivity.
Qed.

Theorem export_import_store w ws d : Rw w ws -> S.go_ExportGenesis unemb ws = Ok d ->
  s_import emb d [] =
  okv_set_all (okv_prefix (sw_store ws) stream_StreamKeyPrefix) (s_set_params (mk_go_Params (s_valfee (kw_str w))) []).
Proof.
  intros H E. rewrite (os_ExportGenesis_run w ws H) in E. injection E as <-. destruct H as (_ & _ & _ & HR).
  unfold s_import. cbn [GenesisState_Streams GenesisState_Params]. rewrite fold_entries.
  - f_equal. pose proof (AllStreams_refines_sorted dom emb emb_len emb_inj (sw_store ws) w HR) as EL.
    exact (proj1 (list_entries _ _ (Rstr_wf dom emb emb_len _ _ HR) EL)).
  - apply Forall_forall. intros t Ht. destruct (sorted_listing_dom _ w t HR Ht) as (e & -> & Dr & Ds).
    unfold eexport. cbn [fst snd]. rewrite (unemb_emb _ Dr), (unemb_emb _ Ds). split; reflexivity.
Qed.

(* a stream key reads the same in the re-imported store *)
Lemma reimport_get_stream w ws d k : Rw w ws -> S.go_ExportGenesis unemb ws = Ok d ->
  is_prefix stream_StreamKeyPrefix k = true -> okv_get (s_import emb d []) k = okv_get (sw_store ws) k.
Proof.
  intros H E Hp. rewrite (export_import_store w ws d H E). destruct H as (_ & _ & _ & HR).
  rewrite set_all_get by (apply prefix_sorted, (Rstr_sorted dom emb _ _ HR)). rewrite get_prefix, Hp.
  destruct (okv_get (sw_store ws) k) as [v|]; [reflexivity|].
  assert (Hne : k <> stream_ParamsKey) by (intros ->; rewrite params_not_prefix in Hp; discriminate Hp).
  unfold s_set_params. destruct (str_params_valid _); [rewrite (get_set_other _ _ _ _ Hne)|]; reflexivity.
Qed.

Lemma reimport_get_params w ws d : Rw w ws -> S.go_ExportGenesis unemb ws = Ok d ->
  okv_get (s_import emb d []) stream_ParamsKey =
  if str_params_valid (s_valfee (kw_str w)) then Some (SV_Params (mk_go_Params (s_valfee (kw_str w)))) else None.
Proof.
  intros H E. rewrite (export_import_store w ws d H E). destruct H as (_ & _ & _ & HR).
  rewrite set_all_get by (apply prefix_sorted, (Rstr_sorted dom emb _ _ HR)). rewrite get_prefix, params_not_prefix.
  unfold s_set_params. cbn [Params_ValidatorFee]. destruct (str_params_valid _); [apply get_set_same | reflexivity].
Qed.

Lemma sval_inj x y : sval x = sval y -> x = y.
Proof. unfold sval. intros E. apply to_go_stream_inj. congruence. Qed.

(* EXPORT, then IMPORT INTO THE EMPTY STORE (any clock, any bank for which the import goes through): the new store
   represents a state with the same stream under every (receiver, sender) pair, and the same fee when that validates
   (fee 0 otherwise: InitGenesis drops SetParams' error).  No hypothesis on order, parameters or foreign keys. *)
Theorem os_export_import_roundtrip w ws d now' b' ws' : Rw w ws ->
  S.go_ExportGenesis unemb ws = Ok d ->
  S.go_InitGenesis (empty_sworld now' b') d = Ok (ws', tt) ->
  exists w', K.go_InitGenesis (fresh_kworld now' b' 0) d = Ok (w', tt) /\ Rw w' ws' /\
    (forall k, aget k (s_streams (kw_str w')) = aget k (s_streams (kw_str w))) /\
    s_valfee (kw_str w') = (if str_params_valid (s_valfee (kw_str w)) then s_valfee (kw_str w) else 0).
Proof.
  intros H E EI. pose proof (export_doc_dom w ws d H E) as HD.
  destruct (os_InitGenesis_empty_Ok now' b' d ws' HD EI) as (w' & E' & H' & ->). exists w'.
  split; [exact E'|]. split; [exact H'|].
  pose proof H as (_ & _ & _ & HR). pose proof H' as (_ & _ & _ & HR'). cbn [sw_store] in HR'.
  destruct HR as (_ & _ & Hg & _ & _ & Hd). destruct HR' as (_ & Hp' & Hg' & _ & _ & Hd'). split.
  - intros [r sn].
    assert (Hin : forall (st : str_state) x, (forall r sn, In (r, sn) (akeys (s_streams st)) -> dom r /\ dom sn) ->
                  aget (r, sn) (s_streams st) = Some x -> dom r /\ dom sn).
    { intros st x Hst G. apply Hst. apply aget_In in G. change (r, sn) with (fst ((r, sn), x)). apply in_map. exact G. }
    assert (Heq : dom r /\ dom sn ->
                  option_map sval (aget (r, sn) (s_streams (kw_str w'))) = option_map sval (aget (r, sn) (s_streams (kw_str w)))).
    { intros [Dr Ds]. rewrite <- (Hg' r sn Dr Ds), <- (Hg r sn Dr Ds).
      apply (reimport_get_stream w ws d _ H E (ekey_prefix emb r sn)). }
    destruct (aget (r, sn) (s_streams (kw_str w'))) as [x|] eqn:G1, (aget (r, sn) (s_streams (kw_str w))) as [y|] eqn:G2.
    + pose proof (Heq (Hin _ _ Hd' G1)) as G. cbn [option_map] in G. f_equal. apply sval_inj. congruence.
    + pose proof (Heq (Hin _ _ Hd' G1)) as G. discriminate G.
    + pose proof (Heq (Hin _ _ Hd G2)) as G. discriminate G.
    + reflexivity.
  - unfold params_cell in Hp'. rewrite (reimport_get_params w ws d H E) in Hp'.
    destruct (str_params_valid (s_valfee (kw_str w))); destruct Hp' as [Hp'|[Hp' Hz]]; try discriminate Hp'.
    + injection Hp' as Hp'. symmetry. exact Hp'.
    + exact Hz.
Qed.

(* BYTE-IDENTICAL when, in addition, the store holds nothing but the module's keys, its Params cell is written and the
   fee validates (each needed: [os_roundtrip_bytes_*_refuted] below) *)
Theorem os_roundtrip_bytes w ws d now' b' ws' : Rw w ws ->
  module_keys (sw_store ws) -> okv_get (sw_store ws) stream_ParamsKey <> None ->
  str_params_valid (s_valfee (kw_str w)) = true ->
  S.go_ExportGenesis unemb ws = Ok d ->
  S.go_InitGenesis (empty_sworld now' b') d = Ok (ws', tt) ->
  sw_store ws' = sw_store ws.
Proof.
  intros H MK PS V E EI. apply os_InitGenesis_store in EI. subst ws'. cbn [with_sstore empty_sworld sw_store sw_emb].
  pose proof H as (_ & _ & _ & HR). pose proof HR as (Hsd & Hp & _).
  apply okv_ext.
  - rewrite (export_import_store w ws d H E). apply set_all_sorted. unfold s_set_params. cbn [Params_ValidatorFee].
    rewrite V. apply set_sorted. reflexivity.
  - exact Hsd.
  - intros k. destruct (is_prefix stream_StreamKeyPrefix k) eqn:Hpre; [apply (reimport_get_stream w ws d k H E Hpre)|].
    destruct (list_eq_dec N.eq_dec k stream_ParamsKey) as [->|Hne].
    + rewrite (reimport_get_params w ws d H E), V. destruct Hp as [Hp|[Hp _]]; [symmetry; exact Hp | contradiction].
    + rewrite (export_import_store w ws d H E).
      rewrite set_all_get by (apply prefix_sorted; exact Hsd). rewrite get_prefix, Hpre.
      unfold s_set_params. cbn [Params_ValidatorFee]. rewrite V, (get_set_other _ _ _ _ Hne). cbn [okv_get].
      destruct (okv_get (sw_store ws) k) as [v|] eqn:G; [|reflexivity]. apply get_in in G.
      destruct (MK _ _ G) as [->|Hp2]; [contradiction | congruence].
Qed.

(* the two side conditions on the store hold of every store InitGenesis builds from the empty one *)
Lemma module_keys_empty : module_keys [].
Proof. intros k v []. Qed.

Lemma module_keys_import em d s : module_keys s -> module_keys (s_import em d s).
Proof.
  intros MK. unfold s_import.
  assert (MK1 : module_keys (s_set_params (GenesisState_Params d) s)).
  { unfold s_set_params. destruct (str_params_valid _); [|exact MK]. intros k v Hin.
    apply set_in in Hin as [[-> _]|Hin]; [left; reflexivity | exact (MK _ _ Hin)]. }
  revert MK1. generalize (s_set_params (GenesisState_Params d) s). induction (GenesisState_Streams d) as [|e l IH]; intros s1 M1; [exact M1|].
  cbn [fold_left]. apply IH. intros k v Hin. unfold s_set_entry in Hin.
  apply set_in in Hin as [[-> _]|Hin]; [right; apply skey_prefix | exact (M1 _ _ Hin)].
Qed.

Lemma params_cell_import em d s : str_params_valid (Params_ValidatorFee (GenesisState_Params d)) = true ->
  okv_get (s_import em d s) stream_ParamsKey = Some (SV_Params (GenesisState_Params d)).
Proof.
  intros V. unfold s_import, s_set_params. rewrite V.
  assert (G : okv_get (okv_set s stream_ParamsKey (SV_Params (GenesisState_Params d))) stream_ParamsKey =
              Some (SV_Params (GenesisState_Params d))) by apply get_set_same.
  revert G. generalize (okv_set s stream_ParamsKey (SV_Params (GenesisState_Params d))).
  induction (GenesisState_Streams d) as [|e l IH]; intros s1 G; [exact G|].
  cbn [fold_left]. apply IH. unfold s_set_entry. rewrite get_set_other; [exact G|].
  intros X. symmetry in X. exact (skey_not_params _ _ X).
Qed.

(* EXPORT -> IMPORT -> EXPORT: the same document (no hypothesis on order or foreign keys; the fee must validate, or
   the second document carries fee 0) *)
Lemma amap_perm {K V} `{EqKey K} (m1 m2 : amap K V) : NoDup (akeys m1) -> NoDup (akeys m2) ->
  (forall k, aget k m1 = aget k m2) -> Permutation m1 m2.
Proof.
  intros N1 N2 Hg. apply NoDup_Permutation.
  - eapply NoDup_map_inv; exact N1.
  - eapply NoDup_map_inv; exact N2.
  - intros [k v]. split; intros Hin.
    + apply aget_In. rewrite <- Hg. apply In_aget_nodup; assumption.
    + apply aget_In. rewrite Hg. apply In_aget_nodup; assumption.
Qed.

Theorem os_export_import_export w ws d now' b' ws' : Rw w ws ->
  str_params_valid (s_valfee (kw_str w)) = true ->
  S.go_ExportGenesis unemb ws = Ok d ->
  S.go_InitGenesis (empty_sworld now' b') d = Ok (ws', tt) ->
  S.go_ExportGenesis unemb ws' = Ok d.
Proof.
  intros H V E EI. destruct (os_export_import_roundtrip w ws d now' b' ws' H E EI) as (w' & _ & H' & Hg & Hv).
  rewrite V in Hv. rewrite (os_ExportGenesis_run w ws H) in E. rewrite (os_ExportGenesis_run w' ws' H'), <- E, Hv.
  do 3 f_equal. pose proof H as (_ & _ & _ & HR). pose proof H' as (_ & _ & _ & HR').
  rewrite !eexport_AllStreams. apply ksort_unique.
  - eapply etriple_keys_nodup; eassumption.
  - apply ksort_sorted. eapply etriple_keys_nodup; eassumption.
  - eapply Permutation_trans; [apply ksort_perm|]. apply Permutation_map. apply amap_perm; [apply HR' | apply HR | exact Hg].
Qed.

(* a store whose only module entry is a Params cell represents the state without streams *)
Lemma Rstr_no_streams (s : sstore) vf : okv_sorted s = true ->
  okv_get s stream_ParamsKey = Some (SV_Params (mk_go_Params vf)) ->
  (forall k v, In (k, v) s -> is_prefix stream_StreamKeyPrefix k = false) ->
  Rstr s {| s_valfee := vf; s_streams := [] |}.
Proof.
  intros Hs Hp Hn. unfold GeneratedStreamStoreRefines.Rstr. cbn [s_valfee s_streams].
  split; [exact Hs|]. split; [left; exact Hp|]. split; [|split; [|split]].
  - intros r sn _ _. cbn [aget option_map]. destruct (okv_get s (ekey emb r sn)) as [v|] eqn:G; [|reflexivity].
    apply get_in in G. pose proof (Hn _ _ G) as X. rewrite (ekey_prefix emb r sn) in X. discriminate X.
  - intros k v Hin Hpre. rewrite (Hn _ _ Hin) in Hpre. discriminate Hpre.
  - constructor.
  - intros r sn [].
Qed.

(* after one round trip the abstract state IS in key order (the first rendering imports in document order, and the
   document was written in key order): from then on the two ExportGenesis agree outright *)
Theorem os_reimported_key_ordered w ws d now' b' w' : Rw w ws ->
  str_params_valid (s_valfee (kw_str w)) = true ->
  S.go_ExportGenesis unemb ws = Ok d ->
  K.go_InitGenesis (fresh_kworld now' b' 0) d = Ok (w', tt) ->
  key_ordered (kw_str w').
Proof.
  intros H V E EK. pose proof H as (_ & _ & _ & HR).
  rewrite (os_ExportGenesis_run w ws H) in E. injection E as <-.
  set (Lk := ksort (map (eexport emb) (str_AllStreams w))) in *.
  set (A' := map unexport Lk) in *.
  assert (EA : map (eexport emb) A' = Lk).
  { unfold A'. rewrite map_map. rewrite <- (map_id Lk) at 2. apply map_ext_in. intros t Ht.
    destruct (sorted_listing_dom _ w t HR Ht) as (e & -> & Dr & Ds).
    unfold eexport, unexport. cbn [StreamExport_Receiver StreamExport_Sender StreamExport_Stream fst snd].
    rewrite (unemb_emb _ Dr), (unemb_emb _ Ds). reflexivity. }
  assert (PA : Permutation A' (str_AllStreams w)).
  { destruct (os_AllStreams_perm w ws H) as (L & EL & P). rewrite (os_AllStreams_sorted w ws H) in EL. injection EL as <-. exact P. }
  assert (ND : NoDup (str_doc_keys (mk_go_GenesisState (mk_go_Params (s_valfee (kw_str w))) A'))).
  { unfold str_doc_keys. cbn [GenesisState_Streams].
    apply (Permutation_NoDup (Permutation_sym (Permutation_map str_key PA))).
    replace (map str_key (str_AllStreams w)) with (akeys (s_streams (kw_str w))); [apply HR|].
    unfold str_AllStreams, akeys. rewrite map_map. apply map_ext. intros [[r sn] x]. reflexivity. }
  rewrite (gen_str_InitGenesis_run _ (mk_go_GenesisState (mk_go_Params (s_valfee (kw_str w))) A') V) in EK.
  cbn [GenesisState_Streams] in EK.
  destruct (forallb stream_okb A'); [|discriminate EK].
  destruct (go_str_escrow_check _ _) as [[|]| |]; try discriminate EK. injection EK as <-.
  unfold key_ordered. cbn [kw_str with_str]. fold (fresh_str 0). rewrite (import_go_streams _ 0 ND). cbn [GenesisState_Streams].
  replace (map (etriple emb) (str_doc_kvs A')) with Lk.
  - unfold Lk. apply ksort_sorted. rewrite eexport_AllStreams. eapply etriple_keys_nodup; eassumption.
  - rewrite <- EA. unfold str_doc_kvs. rewrite map_map. apply map_ext. intros e.
    unfold etriple, eexport, str_key. cbn [fst snd]. rewrite to_of_go_stream. reflexivity.
Qed.

Corollary os_reimported_ExportGenesis_eq w ws d now' b' ws' : Rw w ws ->
  str_params_valid (s_valfee (kw_str w)) = true ->
  S.go_ExportGenesis unemb ws = Ok d ->
  S.go_InitGenesis (empty_sworld now' b') d = Ok (ws', tt) ->
  exists w', K.go_InitGenesis (fresh_kworld now' b' 0) d = Ok (w', tt) /\ Rw w' ws' /\
             K.go_ExportGenesis w' = Ok d /\ S.go_ExportGenesis unemb ws' = Ok d.
Proof.
  intros H V E EI. destruct (os_export_import_roundtrip w ws d now' b' ws' H E EI) as (w' & EK & H' & _).
  exists w'. split; [exact EK|]. split; [exact H'|].
  pose proof (os_export_import_export w ws d now' b' ws' H V E EI) as E2.
  split; [|exact E2]. rewrite <- (os_ExportGenesis_eq w' ws' H' (os_reimported_key_ordered w ws d now' b' w' H V E EK)). exact E2.
Qed.

Corollary os_InitGenesis_outcomes w ws d : Rw w ws -> doc_dom d ->
  (forall ws', S.go_InitGenesis ws d = Ok (ws', tt) -> exists w', K.go_InitGenesis w d = Ok (w', tt) /\ Rw w' ws') /\
  (forall w', K.go_InitGenesis w d = Ok (w', tt) -> exists ws', S.go_InitGenesis ws d = Ok (ws', tt) /\ Rw w' ws') /\
  (forall c, S.go_InitGenesis ws d = Panic c <-> K.go_InitGenesis w d = Panic c).
Proof.
  intros H HD. split; [intros ws'; apply os_InitGenesis_Ok; assumption|].
  split; [intros w'; apply os_InitGenesis_Ok_l; assumption | intros c; apply os_InitGenesis_Panic; assumption].
Qed.

Corollary os_reimported_same_document w ws d now' b' ws' : Rw w ws ->
  str_params_valid (s_valfee (kw_str w)) = true ->
  S.go_ExportGenesis unemb ws = Ok d ->
  S.go_InitGenesis (empty_sworld now' b') d = Ok (ws', tt) ->
  exists w', K.go_InitGenesis (fresh_kworld now' b' 0) d = Ok (w', tt) /\ Rw w' ws' /\
             key_ordered (kw_str w') /\
             K.go_ExportGenesis w' = Ok d /\ S.go_ExportGenesis unemb ws' = Ok d.
Proof.
  intros H V E EI. destruct (os_reimported_ExportGenesis_eq w ws d now' b' ws' H V E EI) as (w' & EK & H' & E1 & E2).
  exists w'. split; [exact EK|]. split; [exact H'|].
  split; [exact (os_reimported_key_ordered w ws d now' b' w' H V E EK)|]. split; assumption.
Qed.

End Genesis.

(* ================================================================== *)
(* part 6: a concrete store; the hypotheses are satisfiable and needed  *)
(* ================================================================== *)

(* addresses of three lengths: accounts below 12 are ONE byte, account 12 is 20 bytes, the others 32 bytes *)
Definition exg_dom (a : Z) : Prop := 0 <= a < 256.
Definition exg_emb (a : Z) : list N :=
  if a <? 12 then [Z.to_N a] else if a <? 13 then repeat 0%N 19 ++ [Z.to_N a] else repeat 0%N 31 ++ [Z.to_N a].
Definition exg_unemb (b : list N) : Z := Z.of_N (last b 0%N).

Lemma exg_emb_len a : exg_dom a -> (1 <= length (exg_emb a) <= 255)%nat.
Proof. intros _. unfold exg_emb. destruct (a <? 12); [|destruct (a <? 13)]; cbn; lia. Qed.

Lemma exg_unemb_emb a : exg_dom a -> exg_unemb (exg_emb a) = a.
Proof.
  unfold exg_dom, exg_unemb, exg_emb. intros Ha.
  destruct (a <? 12); [|destruct (a <? 13)]; rewrite ?last_last; cbn [last]; apply Z2N.id; lia.
Qed.

Lemma exg_emb_inj a b : exg_dom a -> exg_dom b -> exg_emb a = exg_emb b -> a = b.
Proof. intros Ha Hb E. rewrite <- (exg_unemb_emb a Ha), <- (exg_unemb_emb b Hb), E. reflexivity. Qed.

Lemma exs_doc_dom : doc_dom exg_dom exs_doc.
Proof. unfold doc_dom, exs_doc, entry_dom, exg_dom. cbn. repeat constructor; cbn; lia. Qed.

(* the document of proofs/GeneratedStreamGenesisEq.v (three streams between accounts 10, 11, 12, 13, in two
   denominations) imported into the empty byte store; exported; imported again *)
Definition exg_ws0 (now : Z) : sworld := empty_sworld exg_emb now (exs_bank 530 70).
Definition exg_ws1 : sworld := match S.go_InitGenesis (exg_ws0 99) exs_doc with Ok (ws, _) => ws | _ => exg_ws0 0 end.
Definition exg_doc1 : go_GenesisState :=
  mk_go_GenesisState exs_params [exs_entry 10 11 0 500; exs_entry 10 13 0 30; exs_entry 12 11 1 70].

Example os_genesis_ex :
  S.go_InitGenesis (exg_ws0 99) exs_doc = Ok (exg_ws1, tt) /\
  (* the Params cell, then keys of 5, 36 and 24 bytes: the store's order is not the document's *)
  map (fun kv => length (fst kv)) (sw_store exg_ws1) = [1; 5; 36; 24]%nat /\
  os_str_GetStream exg_ws1 12 11 = Ok (exs_stream 1 70, true) /\
  S.go_ExportGenesis exg_unemb exg_ws1 = Ok exg_doc1 /\
  K.go_InitGenesis (fresh_kworld 99 (exs_bank 530 70) 0) exs_doc =
    Ok (with_str (fresh_kworld 99 (exs_bank 530 70) 0)
          {| s_valfee := 10000000000000000; s_streams := str_doc_kvs (GenesisState_Streams exs_doc) |}, tt) /\
  (* importing the exported document at another clock: the very same bytes, and the same document again *)
  (exists ws2, S.go_InitGenesis (exg_ws0 7) exg_doc1 = Ok (ws2, tt) /\ sw_store ws2 = sw_store exg_ws1 /\
               S.go_ExportGenesis exg_unemb ws2 = Ok exg_doc1) /\
  (* a module balance that does not match: the same panic on both sides *)
  S.go_InitGenesis (empty_sworld exg_emb 99 (exs_bank 529 70)) exs_doc = Panic stream_PANIC /\
  K.go_InitGenesis (fresh_kworld 99 (exs_bank 529 70) 0) exs_doc = Panic stream_PANIC.
Proof.
  split; [vm_compute; reflexivity|]. split; [vm_compute; reflexivity|]. split; [vm_compute; reflexivity|].
  split; [vm_compute; reflexivity|]. split; [vm_compute; reflexivity|].
  split; [eexists; split; [vm_compute; reflexivity | split; vm_compute; reflexivity]|].
  split; vm_compute; reflexivity.
Qed.

(* the same through the theorems: every hypothesis is met by this store *)
Example os_genesis_ex_by_theorem :
  exists w1, K.go_InitGenesis (fresh_kworld 99 (exs_bank 530 70) 0) exs_doc = Ok (w1, tt) /\
    Rw exg_dom exg_emb w1 exg_ws1 /\
    module_keys (sw_store exg_ws1) /\ okv_get (sw_store exg_ws1) stream_ParamsKey <> None /\
    str_params_valid (s_valfee (kw_str w1)) = true /\
    (forall now' b' ws2, S.go_InitGenesis (empty_sworld exg_emb now' b') exg_doc1 = Ok (ws2, tt) ->
       sw_store ws2 = sw_store exg_ws1 /\ S.go_ExportGenesis exg_unemb ws2 = Ok exg_doc1) /\
    (* the abstract map is in DOCUMENT order, the store in key order: the two exports differ by a permutation *)
    ~ key_ordered exg_emb (kw_str w1) /\
    K.go_ExportGenesis w1 = Ok exs_doc /\ S.go_ExportGenesis exg_unemb exg_ws1 = Ok exg_doc1 /\ exs_doc <> exg_doc1.
Proof.
  destruct os_genesis_ex as (E1 & _ & _ & E2 & EK0 & _).
  destruct (os_InitGenesis_empty_Ok exg_dom exg_emb exg_emb_len exg_emb_inj 99 (exs_bank 530 70) exs_doc exg_ws1
              exs_doc_dom E1) as (w1 & EK & H1 & Es).
  pose proof EK as EK'. rewrite EK0 in EK'. injection EK' as Ew.
  assert (V : str_params_valid (s_valfee (kw_str w1)) = true) by (rewrite <- Ew; reflexivity).
  assert (MK : module_keys (sw_store exg_ws1)).
  { rewrite Es. cbn [sw_store]. apply module_keys_import, module_keys_empty. }
  assert (PS : okv_get (sw_store exg_ws1) stream_ParamsKey <> None).
  { rewrite Es. cbn [sw_store]. rewrite params_cell_import by reflexivity. discriminate. }
  exists w1. split; [exact EK|]. split; [exact H1|]. split; [exact MK|]. split; [exact PS|]. split; [exact V|].
  split; [|split; [|split; [|split]]].
  - intros now' b' ws2 E3. split.
    + exact (os_roundtrip_bytes exg_dom exg_emb exg_emb_len exg_emb_inj exg_unemb exg_unemb_emb
               w1 exg_ws1 exg_doc1 now' b' ws2 H1 MK PS V E2 E3).
    + exact (os_export_import_export exg_dom exg_emb exg_emb_len exg_emb_inj exg_unemb exg_unemb_emb
               w1 exg_ws1 exg_doc1 now' b' ws2 H1 V E2 E3).
  - intros HO.
    pose proof (os_ExportGenesis_eq exg_dom exg_emb exg_emb_len exg_emb_inj exg_unemb exg_unemb_emb w1 exg_ws1 H1 HO) as X.
    rewrite E2, <- Ew in X. vm_compute in X. discriminate X.
  - rewrite <- Ew. vm_compute. reflexivity.
  - exact E2.
  - intros X. vm_compute in X. discriminate X.
Qed.

(* ---- the hypotheses are needed ---- *)

(* the ordering hypothesis of [os_ExportGenesis_eq]: related worlds whose two ExportGenesis differ *)
Example os_ExportGenesis_order_refuted :
  exists w ws, Rw exg_dom exg_emb w ws /\ S.go_ExportGenesis exg_unemb ws <> K.go_ExportGenesis w.
Proof.
  destruct os_genesis_ex_by_theorem as (w1 & _ & H1 & _ & _ & _ & _ & _ & EK & ES & Hne).
  exists w1, exg_ws1. split; [exact H1|]. rewrite EK, ES. intros X. apply Hne. congruence.
Qed.

Lemma exg_no_stream_keys (s : okv stream_val) : forallb (fun kv => negb (is_prefix stream_StreamKeyPrefix (fst kv))) s = true ->
  forall k v, In (k, v) s -> is_prefix stream_StreamKeyPrefix k = false.
Proof.
  intros Hf k v Hin. rewrite forallb_forall in Hf. specialize (Hf _ Hin). cbn [fst] in Hf.
  destruct (is_prefix stream_StreamKeyPrefix k); [discriminate Hf | reflexivity].
Qed.

(* [os_roundtrip_bytes], Params cell: the EMPTY store represents fee 0; its export carries fee 0, the import WRITES the
   cell - the re-imported store represents the same state but is not the same bytes *)
Example os_roundtrip_bytes_no_params_refuted :
  let w := fresh_kworld 0 exs_empty_bank 0 in
  let ws := empty_sworld exg_emb 0 exs_empty_bank in
  Rw exg_dom exg_emb w ws /\ module_keys (sw_store ws) /\ str_params_valid (s_valfee (kw_str w)) = true /\
  exists d ws', S.go_ExportGenesis exg_unemb ws = Ok d /\ S.go_InitGenesis (empty_sworld exg_emb 0 exs_empty_bank) d = Ok (ws', tt) /\
                sw_store ws' = [(stream_ParamsKey, SV_Params (mk_go_Params 0))] /\ sw_store ws' <> sw_store ws.
Proof.
  cbv zeta. split; [apply Rw_empty|]. split; [apply module_keys_empty|]. split; [reflexivity|].
  do 2 eexists. split; [vm_compute; reflexivity|]. split; [vm_compute; reflexivity|]. split; [reflexivity | discriminate].
Qed.

(* [os_roundtrip_bytes], module_keys: a key that is neither the Params cell nor under StreamKeyPrefix is invisible to
   the relation and to ExportGenesis, and is gone after the round trip *)
Example os_roundtrip_bytes_foreign_key_refuted :
  let s := [(stream_ParamsKey, SV_Params (mk_go_Params 0)); ([99%N], SV_bytes [7%N])] in
  let w := fresh_kworld 0 exs_empty_bank 0 in
  let ws := mk_sworld exg_emb 0 exs_empty_bank s in
  Rw exg_dom exg_emb w ws /\ okv_get s stream_ParamsKey <> None /\ str_params_valid (s_valfee (kw_str w)) = true /\
  ~ module_keys s /\
  exists d ws', S.go_ExportGenesis exg_unemb ws = Ok d /\ S.go_InitGenesis (empty_sworld exg_emb 0 exs_empty_bank) d = Ok (ws', tt) /\
                sw_store ws' = [(stream_ParamsKey, SV_Params (mk_go_Params 0))] /\ sw_store ws' <> sw_store ws.
Proof.
  cbv zeta. split.
  - split; [reflexivity|]. split; [reflexivity|]. split; [reflexivity|]. cbn [sw_store kw_str fresh_kworld].
    apply Rstr_no_streams; [reflexivity | reflexivity | apply exg_no_stream_keys; reflexivity].
  - split; [discriminate|]. split; [reflexivity|]. split.
    + intros MK. destruct (MK [99%N] (SV_bytes [7%N])) as [X|X]; [right; left; reflexivity | discriminate X | discriminate X].
    + do 2 eexists. split; [vm_compute; reflexivity|]. split; [vm_compute; reflexivity|]. split; [reflexivity | discriminate].
Qed.

(* [os_roundtrip_bytes] and [os_export_import_export], the fee: a Params cell that does not validate (no code path
   writes one - SetParams validates - but the relation allows it) is exported as it stands and DROPPED by the import *)
Example os_roundtrip_bytes_invalid_fee_refuted :
  let s := [(stream_ParamsKey, SV_Params (mk_go_Params (-1)))] in
  let w := fresh_kworld 0 exs_empty_bank (-1) in
  let ws := mk_sworld exg_emb 0 exs_empty_bank s in
  Rw exg_dom exg_emb w ws /\ module_keys s /\ okv_get s stream_ParamsKey <> None /\
  str_params_valid (s_valfee (kw_str w)) = false /\
  exists d ws', S.go_ExportGenesis exg_unemb ws = Ok d /\ S.go_InitGenesis (empty_sworld exg_emb 0 exs_empty_bank) d = Ok (ws', tt) /\
                sw_store ws' = [] /\ S.go_ExportGenesis exg_unemb ws' <> Ok d.
Proof.
  cbv zeta. split.
  - split; [reflexivity|]. split; [reflexivity|]. split; [reflexivity|]. cbn [sw_store kw_str fresh_kworld].
    apply Rstr_no_streams; [reflexivity | reflexivity | apply exg_no_stream_keys; reflexivity].
  - split; [intros k v [X|[]]; injection X as <- _; left; reflexivity|]. split; [discriminate|]. split; [reflexivity|].
    do 2 eexists. split; [vm_compute; reflexivity|]. split; [vm_compute; reflexivity|]. split; [reflexivity|].
    vm_compute. discriminate.
Qed.

(* [os_InitGenesis_sim], doc_dom: an address whose bytes exceed 255 - the first rendering imports, the store-level
   key builder panics (x/stream's GenesisState.Validate only asks for a bech32 string) *)
Example os_InitGenesis_dom_refuted :
  let emb := fun a : Z => if a =? 5 then repeat 1%N 256 else [Z.to_N a] in
  let b := {| bal := [((STREAM_MACC, 0), 5)]; supply := [(0, 5)] |} in
  let d := mk_go_GenesisState exs_params [exs_entry 5 1 0 5] in
  (exists w', K.go_InitGenesis (fresh_kworld 0 b 0) d = Ok (w', tt)) /\
  S.go_InitGenesis (mk_sworld emb 0 b []) d = Panic GO_PANIC_LENPREFIX.
Proof. cbv zeta. split; [eexists; vm_compute; reflexivity | vm_compute; reflexivity]. Qed.

(* ================================================================== *)
(* the vocabulary, spelled out (for props/C15onstorestream.v)           *)
(* ================================================================== *)

Lemma ForallOrdPairs_map {A B} (f : A -> B) (R : B -> B -> Prop) (l : list A) :
  ForallOrdPairs R (map f l) <-> ForallOrdPairs (fun a b => R (f a) (f b)) l.
Proof.
  induction l as [|a l IH]; cbn [map]; [split; constructor|]. split; intros H; inversion H as [|? ? Ha Hl]; subst.
  - constructor; [|apply IH; exact Hl]. rewrite Forall_forall in *. intros x Hx. apply Ha, in_map, Hx.
  - constructor; [|apply IH; exact Hl]. rewrite Forall_forall in *. intros y Hy.
    apply in_map_iff in Hy as (x & <- & Hx). apply Ha, Hx.
Qed.

(* key order: every earlier entry of the abstract map has a lower store key than every later one *)
Lemma key_ordered_spelled emb st :
  key_ordered emb st <->
  ForallOrdPairs (fun a b : (addr * addr) * stream =>
                    lex_lt (str_encode (SkStream (emb (fst (fst a))) (emb (snd (fst a)))))
                           (str_encode (SkStream (emb (fst (fst b))) (emb (snd (fst b))))) = true) (s_streams st).
Proof. unfold key_ordered. apply ForallOrdPairs_map. Qed.

Lemma doc_dom_spelled dom d :
  doc_dom dom d <-> Forall (fun e => dom (StreamExport_Receiver e) /\ dom (StreamExport_Sender e)) (GenesisState_Streams d).
Proof. reflexivity. Qed.

Lemma module_keys_spelled (s : okv stream_val) :
  module_keys s <-> forall k v, In (k, v) s -> k = stream_ParamsKey \/ is_prefix stream_StreamKeyPrefix k = true.
Proof. reflexivity. Qed.

Lemma unexport_spelled unemb r sn x : unexport unemb (r, sn, x) = mk_go_StreamExport (unemb r) (unemb sn) x.
Proof. reflexivity. Qed.

Lemma empty_sworld_spelled emb now b : empty_sworld emb now b = mk_sworld emb now b [].
Proof. reflexivity. Qed.

Lemma s_import_spelled :
  (forall em p l s, s_import em (mk_go_GenesisState p l) s =
     fold_left (fun s e => okv_set s (str_encode (SkStream (em (StreamExport_Receiver e)) (em (StreamExport_Sender e))))
                                   (SV_Stream (StreamExport_Stream e))) l
               (if str_params_valid (Params_ValidatorFee p) then okv_set s stream_ParamsKey (SV_Params p) else s)).
Proof. reflexivity. Qed.

Lemma okv_set_all_spelled {V} (l s0 : okv V) :
  okv_set_all l s0 = fold_left (fun s kv => okv_set s (fst kv) (snd kv)) l s0.
Proof. reflexivity. Qed.

Lemma exg_setup :
  (forall a, exg_dom a <-> 0 <= a < 256) /\
  (forall a, exg_emb a = if a <? 12 then [Z.to_N a] else if a <? 13 then repeat 0%N 19 ++ [Z.to_N a] else repeat 0%N 31 ++ [Z.to_N a]) /\
  (forall b, exg_unemb b = Z.of_N (last b 0%N)) /\
  (forall a, exg_dom a -> (1 <= length (exg_emb a) <= 255)%nat) /\
  (forall a b, exg_dom a -> exg_dom b -> exg_emb a = exg_emb b -> a = b) /\
  (forall a, exg_dom a -> exg_unemb (exg_emb a) = a) /\
  exs_doc = mk_go_GenesisState exs_params [exs_entry 10 11 0 500; exs_entry 12 11 1 70; exs_entry 10 13 0 30] /\
  exg_doc1 = mk_go_GenesisState exs_params [exs_entry 10 11 0 500; exs_entry 10 13 0 30; exs_entry 12 11 1 70] /\
  doc_dom exg_dom exs_doc /\
  (forall now, exg_ws0 now = mk_sworld exg_emb now (exs_bank 530 70) []).
Proof.
  split; [intros a; reflexivity|]. split; [reflexivity|]. split; [reflexivity|]. split; [exact exg_emb_len|].
  split; [exact exg_emb_inj|]. split; [exact exg_unemb_emb|]. split; [reflexivity|]. split; [reflexivity|].
  split; [exact exs_doc_dom | reflexivity].
Qed.

Lemma vocabulary_spelled :
  (forall (unemb : list N -> Z) r sn x, unexport unemb (r, sn, x) = mk_go_StreamExport (unemb r) (unemb sn) x) /\
  (forall (emb : Z -> list N) now b, empty_sworld emb now b = mk_sworld emb now b []) /\
  (forall (em : Z -> list N) p l (s : okv stream_val), s_import em (mk_go_GenesisState p l) s =
     fold_left (fun s e => okv_set s (str_encode (SkStream (em (StreamExport_Receiver e)) (em (StreamExport_Sender e))))
                                   (SV_Stream (StreamExport_Stream e))) l
               (if str_params_valid (Params_ValidatorFee p) then okv_set s stream_ParamsKey (SV_Params p) else s)).
Proof. exact (conj unexport_spelled (conj empty_sworld_spelled s_import_spelled)). Qed.

Lemma import_side_conditions :
  module_keys [] /\
  (forall (em : Z -> list N) (d : go_GenesisState) (s : okv stream_val), module_keys s -> module_keys (s_import em d s)) /\
  (forall (em : Z -> list N) (d : go_GenesisState) (s : okv stream_val),
     str_params_valid (Params_ValidatorFee (GenesisState_Params d)) = true ->
     okv_get (s_import em d s) stream_ParamsKey = Some (SV_Params (GenesisState_Params d))).
Proof. exact (conj module_keys_empty (conj module_keys_import params_cell_import)). Qed.

Print Assumptions os_AllStreams_sorted.
Print Assumptions os_AllStreams_perm.
Print Assumptions os_AllStreams_eq.
Print Assumptions os_ExportGenesis_run.
Print Assumptions os_ExportGenesis_eq.
Print Assumptions os_ExportGenesis_perm.
Print Assumptions os_InitGenesis_sim.
Print Assumptions os_InitGenesis_store.
Print Assumptions os_InitGenesis_empty_model.
Print Assumptions os_export_import_roundtrip.
Print Assumptions os_roundtrip_bytes.
Print Assumptions os_export_import_export.
Print Assumptions os_reimported_ExportGenesis_eq.
Print Assumptions os_genesis_ex.
Print Assumptions os_genesis_ex_by_theorem.
Print Assumptions os_ExportGenesis_order_refuted.
Print Assumptions os_roundtrip_bytes_no_params_refuted.
Print Assumptions os_roundtrip_bytes_foreign_key_refuted.
Print Assumptions os_roundtrip_bytes_invalid_fee_refuted.
Print Assumptions os_InitGenesis_dom_refuted.
