(* Lemmas behind props/C03.v (purchase orders mint only after quorum approval, exactly once). *)
From MC Require Import lib.Prelude lib.AMap model.Bank model.Enterprise model.EnterpriseSpec
  proofs.EnterpriseProofs.
From Coq Require Import ZifyBool.
Ltac Zify.zify_post_hook ::= Z.div_mod_to_equations.
Local Open Scope Z_scope.

(* ---------- 1. raising ---------- *)

Lemma raise_needs_whitelist now s p d amt s' id :
  ent_exec now s (ERaise p d amt) = Ok (s', id) ->
  mem_addr p (e_wl s) = true /\ id = e_next s /\ status_of s' id = ST_RAISED /\
  d = ep_denom (e_params s) /\ 0 < amt.
Proof.
  intros H. apply exec_raise_inv in H as (Ed & Ha & Hw & -> & ->).
  repeat split; auto. unfold status_of; cbn. rewrite aget_aset_eq. reflexivity.
Qed.

Lemma raise_id_fresh w p d amt s' id :
  ent_inv w -> ent_exec (w_now w) (w_ent w) (ERaise p d amt) = Ok (s', id) ->
  aget id (e_pos (w_ent w)) = None /\ status_of (w_ent w) id = ST_NIL.
Proof.
  intros I H. apply exec_raise_inv in H as (_ & _ & _ & -> & _).
  pose proof (fresh_next _ _ (inv_s _ I)) as F. split; [exact F|].
  unfold status_of. rewrite F. reflexivity.
Qed.

(* ---------- 2. deciding ---------- *)

Lemma decide_needs_current_signer_once now s sg poid dec s' r :
  ent_exec now s (EDecide sg poid dec) = Ok (s', r) ->
  is_signer s sg = true /\ status_of s poid = ST_RAISED /\
  (forall o, aget poid (e_pos s) = Some o -> ~ In sg (map d_signer (po_decisions o))) /\
  (dec = ST_ACCEPTED \/ dec = ST_REJECTED).
Proof.
  intros H. apply exec_decide_inv in H as (Hs & Hd & _ & o & G & St & NI & _).
  split; [exact Hs|]. split; [unfold status_of; rewrite G; exact St|].
  split; [|exact Hd]. intros o' G'. rewrite G in G'. injection G' as <-. exact NI.
Qed.

Lemma decisions_distinct_signers w id o :
  ent_inv w -> aget id (e_pos (w_ent w)) = Some o ->
  NoDup (map d_signer (po_decisions o)) /\
  Forall (fun d => d_decision d = ST_ACCEPTED \/ d_decision d = ST_REJECTED) (po_decisions o).
Proof.
  intros I G. pose proof (si_po _ _ (inv_s _ I) _ _ G) as K. split; apply K.
Qed.

(* ---------- 3. the tally rule without machine arithmetic ---------- *)

Lemma params_valid_facts p :
  ent_params_valid p = true ->
  0 <= ep_denom p /\ 0 < ep_min_accepts p <= Z.of_nat (List.length (ep_signers p)) /\ 0 < ep_time_limit p.
Proof.
  unfold ent_params_valid. rewrite !andb_true_iff. intros (((((A & B) & C) & D) & E) & F). lia.
Qed.

Lemma tally_rule p now o :
  ent_params_valid p = true ->
  Z.of_nat (List.length (ep_signers p)) < two63 ->
  po_raise_time o <= now < two63 -> 0 <= po_raise_time o ->
  let acc := count_decisions (po_decisions o) ST_ACCEPTED in
  let rej := count_decisions (po_decisions o) ST_REJECTED in
  let n := Z.of_nat (List.length (ep_signers p)) in
  tally_one p now o =
  (if (ep_time_limit p <=? now - po_raise_time o) && (acc <? ep_min_accepts p) then Some ST_REJECTED
   else if n - ep_min_accepts p <? rej then Some ST_REJECTED
   else if ep_min_accepts p <=? acc then Some ST_ACCEPTED
   else None).
Proof.
  intros V Hn Ht H0. cbv zeta.
  apply params_valid_facts in V as (_ & Hm & _).
  unfold tally_one. cbv zeta.
  assert (E1 : i64_of (ep_min_accepts p) = ep_min_accepts p).
  { unfold i64_of, two63, two64 in *. lia. }
  assert (E2 : wrap64 (now - po_raise_time o) = now - po_raise_time o).
  { unfold wrap64, two63, two64 in *. lia. }
  rewrite E1, E2. reflexivity.
Qed.

(* ---------- 4. how one step can change one order ---------- *)

Inductive order_change (w : ent_world) (o : ent_op) (id : Z) (x x' : option po) : Prop :=
| oc_same : x' = x -> order_change w o id x x'
| oc_raise p d amt :
    o = OMsg (ERaise p d amt) -> x = None -> id = e_next (w_ent w) ->
    x' = Some {| po_id := id; po_purchaser := p; po_denom := d; po_amount := amt;
                 po_status := ST_RAISED; po_raise_time := w_now w; po_completion_time := 0;
                 po_decisions := [] |} ->
    order_change w o id x x'
| oc_decide sg dec po0 :
    o = OMsg (EDecide sg id dec) -> x = Some po0 -> po_status po0 = ST_RAISED ->
    x' = Some (add_decision po0 sg dec (w_now w)) ->
    order_change w o id x x'
| oc_complete now po0 :
    o = OBegin now -> x = Some po0 -> po_status po0 = ST_ACCEPTED ->
    x' = Some (set_po_status po0 ST_COMPLETED 0 false) ->
    order_change w o id x x'
| oc_tally now po0 st :
    o = OBegin now -> x = Some po0 -> po_status po0 = ST_RAISED ->
    tally_one (e_params (w_ent w)) now po0 = Some st ->
    x' = Some (set_po_status po0 st now true) ->
    order_change w o id x x'.

Lemma step_order_change w o w' :
  ent_inv w -> ent_op_wf w o -> ent_step w o = Some w' ->
  forall id, order_change w o id (aget id (e_pos (w_ent w))) (aget id (e_pos (w_ent w'))).
Proof.
  intros I W H id. destruct o as [m|now|p|payer fee]; cbn [ent_step] in H.
  - destruct (ent_validate_basic m); [|injection H as <-; apply oc_same; reflexivity..].
    destruct (ent_exec (w_now w) (w_ent w) m) as [[s' r]| |] eqn:E; injection H as <-;
      try (apply oc_same; reflexivity).
    cbn [w_ent]. destruct m as [p d amt|sg poid dec|sg t act].
    + pose proof (exec_raise_inv _ _ _ _ _ _ _ E) as (_ & _ & _ & _ & ->). cbn [e_pos].
      rewrite aget_aset_Z. destruct (Z.eqb_spec id (e_next (w_ent w))) as [->|N].
      * eapply oc_raise; eauto. apply (fresh_next _ _ (inv_s _ I)).
      * apply oc_same; reflexivity.
    + apply exec_decide_inv in E as (_ & _ & _ & o & G & St & _ & ->). cbn [with_pos e_pos].
      rewrite aget_aset_Z. destruct (Z.eqb_spec id poid) as [->|N].
      * eapply oc_decide; eauto.
      * apply oc_same; reflexivity.
    + apply exec_whitelist_inv in E as (_ & _ & wl' & ->). apply oc_same; reflexivity.
  - destruct (ent_begin_block now (w_bank w) (w_ent w)) as [[b' s']| |] eqn:E; try discriminate.
    injection H as <-. destruct W as [Hn _]. cbn [w_ent].
    destruct (begin_block_decompose _ _ _ _ I Hn E) as (s1 & C & T).
    pose proof (completes_pos _ _ _ _ _ _ C id) as [C1 C2].
    pose proof (completes_frame _ _ _ _ _ _ C) as (Ep & _).
    destruct (tallies_pos _ _ _ _ T id) as [Es|(_ & o & st & G & St & To & Es)].
    + rewrite Es. destruct (in_dec Z.eq_dec id (e_acceptedq (w_ent w))) as [Ia|Na].
      * destruct (C2 Ia) as (o & G & St & ->). rewrite G. eapply oc_complete; eauto.
      * apply oc_same. apply C1; exact Na.
    + rewrite Es. destruct (in_dec Z.eq_dec id (e_acceptedq (w_ent w))) as [Ia|Na].
      * exfalso. destruct (C2 Ia) as (o2 & _ & _ & G2). rewrite G in G2. injection G2 as ->.
        cbn in St. discriminate.
      * rewrite (C1 Na) in G. rewrite Ep in To. rewrite G. eapply oc_tally; eauto.
  - destruct (ent_set_params (w_ent w) p) as [s'| |] eqn:E; injection H as <-;
      try (apply oc_same; reflexivity).
    apply set_params_inv in E as (_ & ->). apply oc_same; reflexivity.
  - destruct W as (Hp & P & ND).
    destruct (unlock_for_fees (w_bank w) (w_ent w) payer fee) as [[b' s']| |] eqn:E;
      injection H as <-; try (apply oc_same; reflexivity).
    eapply unlock_ok_inv in E; eauto using inv_s, inv_escrow0.
    destruct E as (_ & [(_ & _ & _ & ->)|[(_ & _ & ->)|(_ & _ & _ & ->)]]); apply oc_same; reflexivity.
Qed.

Lemma status_monotone w o w' :
  ent_inv w -> ent_op_wf w o -> ent_step w o = Some w' ->
  forall id,
    let a := status_of (w_ent w) id in
    let b := status_of (w_ent w') id in
    a = b \/ (a = ST_NIL /\ b = ST_RAISED) \/ (a = ST_RAISED /\ b = ST_ACCEPTED) \/
    (a = ST_RAISED /\ b = ST_REJECTED) \/ (a = ST_ACCEPTED /\ b = ST_COMPLETED).
Proof.
  intros I W H id. cbv zeta. unfold status_of.
  destruct (step_order_change _ _ _ I W H id) as [E|p d amt _ E1 _ E2|sg dec po0 _ E1 St E2
                                                  |now po0 _ E1 St E2|now po0 st _ E1 St T E2].
  - rewrite E. auto.
  - rewrite E1, E2. cbn. auto.
  - rewrite E1, E2. cbn. auto.
  - rewrite E1, E2. cbn. rewrite St. auto 10.
  - rewrite E1, E2. cbn. rewrite St. apply tally_one_cases in T as [-> | ->]; auto 10.
Qed.

Lemma terminal_frozen_step w o w' :
  ent_inv w -> ent_op_wf w o -> ent_step w o = Some w' ->
  forall id, status_of (w_ent w) id = ST_REJECTED \/ status_of (w_ent w) id = ST_COMPLETED ->
  aget id (e_pos (w_ent w')) = aget id (e_pos (w_ent w)).
Proof.
  intros I W H id Hs. unfold status_of in Hs.
  destruct (step_order_change _ _ _ I W H id) as [E|p d amt _ E1 _ E2|sg dec po0 _ E1 St E2
                                                  |now po0 _ E1 St E2|now po0 st _ E1 St T E2];
    [exact E|exfalso; rewrite E1 in Hs; try rewrite St in Hs; stu; destruct Hs; discriminate..].
Qed.

Lemma terminal_frozen_run h : forall w w',
  ent_inv w -> ent_hist_wf w h -> ent_run w h = Some w' ->
  forall id, status_of (w_ent w) id = ST_REJECTED \/ status_of (w_ent w) id = ST_COMPLETED ->
  aget id (e_pos (w_ent w')) = aget id (e_pos (w_ent w)).
Proof.
  induction h as [|o r IH]; intros w w' I W H id Hs.
  - cbn in H. injection H as <-. reflexivity.
  - cbn [ent_run ent_hist_wf] in *. destruct W as [Wo Wr].
    destruct (ent_step w o) as [w1|] eqn:E; [|discriminate].
    pose proof (terminal_frozen_step _ _ _ I Wo E id Hs) as F.
    rewrite <- F. apply (IH w1 w'); auto.
    + eapply ent_inv_step; eauto.
    + unfold status_of in *. rewrite F. exact Hs.
Qed.

(* ---------- 5. who can change a status ---------- *)

Lemma non_raise_msgs_keep_status w m w' :
  ent_inv w -> ent_op_wf w (OMsg m) -> ent_step w (OMsg m) = Some w' ->
  (forall p d amt, m <> ERaise p d amt) ->
  forall id, status_of (w_ent w') id = status_of (w_ent w) id.
Proof.
  intros I W H NR id. unfold status_of.
  destruct (step_order_change _ _ _ I W H id) as [E|p d amt Eo E1 _ E2|sg dec po0 _ E1 St E2
                                                  |now po0 Eo E1 St E2|now po0 st Eo E1 St T E2].
  - rewrite E. reflexivity.
  - exfalso. injection Eo as ->. eapply NR; reflexivity.
  - rewrite E1, E2. reflexivity.
  - discriminate.
  - discriminate.
Qed.

Lemma raise_keeps_other_statuses w p d amt w' :
  ent_inv w -> ent_op_wf w (OMsg (ERaise p d amt)) -> ent_step w (OMsg (ERaise p d amt)) = Some w' ->
  forall id, id <> e_next (w_ent w) -> aget id (e_pos (w_ent w')) = aget id (e_pos (w_ent w)).
Proof.
  intros I W H id N.
  destruct (step_order_change _ _ _ I W H id) as [E|p' d' amt' _ _ E1 _|sg dec po0 Eo _ _ _
                                                  |now po0 Eo _ _ _|now po0 st Eo _ _ _ _];
    [exact E|contradiction|discriminate..].
Qed.

Lemma decide_only_appends w sg poid dec w' :
  ent_inv w -> ent_op_wf w (OMsg (EDecide sg poid dec)) ->
  ent_step w (OMsg (EDecide sg poid dec)) = Some w' ->
  forall id, aget id (e_pos (w_ent w')) = aget id (e_pos (w_ent w)) \/
             (id = poid /\ exists o, aget id (e_pos (w_ent w)) = Some o /\
                aget id (e_pos (w_ent w')) = Some (add_decision o sg dec (w_now w))).
Proof.
  intros I W H id.
  destruct (step_order_change _ _ _ I W H id) as [E|p' d' amt' Eo _ _ _|sg' dec' po0 Eo E1 _ E2
                                                  |now po0 Eo _ _ _|now po0 st Eo _ _ _ _];
    [left; exact E|discriminate| |discriminate..].
  injection Eo as <- -> <-. right. split; [reflexivity|]. exists po0. auto.
Qed.

Lemma params_unlock_keep_orders w o w' :
  ent_inv w -> ent_op_wf w o -> ent_step w o = Some w' ->
  (exists p, o = OSetParams p) \/ (exists payer fee, o = OUnlock payer fee) ->
  e_pos (w_ent w') = e_pos (w_ent w) /\ e_raisedq (w_ent w') = e_raisedq (w_ent w) /\
  e_acceptedq (w_ent w') = e_acceptedq (w_ent w).
Proof.
  intros I W H [(p & ->)|(payer & fee & ->)]; cbn [ent_step] in H.
  - destruct (ent_set_params (w_ent w) p) as [s'| |] eqn:E; injection H as <-; auto.
    apply set_params_inv in E as (_ & ->). auto.
  - destruct W as (Hp & P & ND).
    destruct (unlock_for_fees (w_bank w) (w_ent w) payer fee) as [[b' s']| |] eqn:E;
      injection H as <-; auto.
    eapply unlock_ok_inv in E; eauto using inv_s, inv_escrow0.
    destruct E as (_ & [(_ & _ & _ & ->)|[(_ & _ & ->)|(_ & _ & _ & ->)]]); auto.
Qed.

(* ---------- 6. accepted orders are completed by the next BeginBlock, exactly once ---------- *)

Lemma acc_f_eq a :
  acc_f a = fun o => if (po_status o =? ST_ACCEPTED) && (po_purchaser o =? a) then po_amount o else 0.
Proof. reflexivity. Qed.

Lemma begin_completes_accepted w now w' :
  ent_inv w -> ent_op_wf w (OBegin now) -> ent_step w (OBegin now) = Some w' ->
  (forall id o, aget id (e_pos (w_ent w)) = Some o -> po_status o = ST_ACCEPTED ->
                aget id (e_pos (w_ent w')) = Some (set_po_status o ST_COMPLETED 0 false) /\
                status_of (w_ent w') id = ST_COMPLETED) /\
  (forall a, amount_coin (w_ent w') a (e_locked (w_ent w')) - amount_coin (w_ent w) a (e_locked (w_ent w))
             = asum (fun o => if (po_status o =? ST_ACCEPTED) && (po_purchaser o =? a)
                              then po_amount o else 0) (e_pos (w_ent w))) /\
  snd (total_locked (w_ent w')) - snd (total_locked (w_ent w))
  = asum (fun o => if po_status o =? ST_ACCEPTED then po_amount o else 0) (e_pos (w_ent w)) /\
  (forall d, supply_of (w_bank w') d - supply_of (w_bank w) d
             = if d =? ep_denom (e_params (w_ent w))
               then asum (fun o => if po_status o =? ST_ACCEPTED then po_amount o else 0) (e_pos (w_ent w))
               else 0) /\
  (forall a d, a <> ENT_MACC -> balance (w_bank w') a d = balance (w_bank w) a d).
Proof.
  intros I [Hn _] H. cbn [ent_step] in H.
  destruct (ent_begin_block now (w_bank w) (w_ent w)) as [[b' s']| |] eqn:E; try discriminate.
  injection H as <-. cbn [w_ent w_bank].
  destruct (begin_block_decompose _ _ _ _ I Hn E) as (s1 & C & T).
  pose proof (completes_end _ _ _ _ _ _ C) as [I1 _].
  pose proof (completes_potentials _ _ _ _ _ _ C) as (P1 & P2 & P3 & P4).
  pose proof (completes_all_empty _ _ _ _ _ C) as Em.
  destruct (no_accepted_sums _ _ I1 Em) as (Z1 & Z2).
  pose proof (tallies_frame _ _ _ _ T) as (Ep & _ & _ & El & _ & Etl & _).
  split; [|split; [|split; [|split]]].
  - intros id o G St.
    assert (Ia : In id (e_acceptedq (w_ent w))).
    { apply (si_aq _ _ (inv_s _ I)). unfold status_of. rewrite G. exact St. }
    destruct (proj2 (completes_pos _ _ _ _ _ _ C id) Ia) as (o2 & G2 & _ & G1).
    rewrite G in G2. injection G2 as <-.
    assert (X : aget id (e_pos s') = Some (set_po_status o ST_COMPLETED 0 false)).
    { destruct (tallies_pos _ _ _ _ T id) as [Es|(_ & o3 & st & G3 & St3 & _)].
      - rewrite Es. exact G1.
      - rewrite G1 in G3. injection G3 as <-. cbn in St3. discriminate. }
    split; [exact X|]. unfold status_of. rewrite X. reflexivity.
  - intros a. rewrite El. specialize (P1 a). rewrite Z1 in P1.
    change (amount_coin s' a (e_locked s1)) with (amount_coin s1 a (e_locked s1)).
    rewrite <- acc_f_eq. lia.
  - rewrite (total_locked_frame _ _ Ep Etl). rewrite Z2 in P2. unfold acc_all in P2. lia.
  - intros d. specialize (P3 d). rewrite Z2 in P3. fold (dn (w_ent w)). unfold acc_all in P3.
    destruct (d =? dn (w_ent w)); lia.
  - exact P4.
Qed.

Lemma begin_block_never_panics w now :
  ent_inv w -> bank_nonneg (w_bank w) -> ent_op_wf w (OBegin now) ->
  ent_step w (OBegin now) <> None.
Proof.
  intros I Nn [Hn _]. cbn [ent_step]. unfold ent_begin_block.
  pose proof (sinv_mono _ _ _ Hn (inv_s _ I)) as Is.
  destruct (process_accepted_ok now (e_acceptedq (w_ent w)) (w_bank w) (w_ent w))
    as (b1 & s1 & P & _); auto.
  - apply ent_inv_binv; exact I.
  - apply (si_nd_aq _ _ Is).
  - rewrite P. cbn [obind].
    pose proof (process_accepted_completes _ _ _ _ _ _ Is (ent_inv_binv _ I) P) as C.
    pose proof (completes_end _ _ _ _ _ _ C) as [I1 _].
    destruct (tally_ok now (e_raisedq s1) s1) as (s2 & T); auto.
    + apply (si_nd_rq _ _ I1).
    + rewrite T. cbn [obind]. discriminate.
Qed.

(* purchasers of stored orders are never blocked addresses *)
Lemma purchasers_not_blocked w id o :
  ent_inv w -> aget id (e_pos (w_ent w)) = Some o -> blocked (po_purchaser o) = false.
Proof.
  intros I G. apply blocked_nonneg. apply (si_po _ _ (inv_s _ I) _ _ G).
Qed.

(* ---------- 7. nothing but BeginBlock mints ---------- *)

Lemma non_begin_ops_never_mint w o w' :
  ent_inv w -> ent_op_wf w o -> ent_step w o = Some w' ->
  (forall now, o <> OBegin now) ->
  (forall d, supply_of (w_bank w') d = supply_of (w_bank w) d) /\
  ((forall payer fee, o <> OUnlock payer fee) -> w_bank w' = w_bank w).
Proof.
  intros I W H NB. destruct o as [m|now|p|payer fee]; cbn [ent_step] in H.
  - destruct (ent_validate_basic m); [|injection H as <-; auto..].
    destruct (ent_exec _ _ _) as [[s' r]| |]; injection H as <-; auto.
  - exfalso. eapply NB; reflexivity.
  - destruct (ent_set_params _ _); injection H as <-; auto.
  - destruct W as (Hp & P & ND).
    destruct (unlock_for_fees (w_bank w) (w_ent w) payer fee) as [[b' s']| |] eqn:E;
      injection H as <-.
    2,3: split; [reflexivity|intros X; exfalso; eapply X; reflexivity].
    eapply unlock_ok_inv in E; eauto using inv_s, inv_escrow0.
    split; [|intros X; exfalso; eapply X; reflexivity]. cbn [w_bank].
    destruct E as (_ & [(_ & _ & S & _)|[(_ & S & _)|(_ & _ & -> & _)]]); auto;
      apply bank_send_spec in S as (_ & _ & _ & Ss); exact Ss.
Qed.

(* ---------- reachable worlds ---------- *)

Lemma ent_inv_reachable b0 p start wl t0 h w :
  ent_params_valid p = true -> 1 <= start -> 0 <= t0 < two63 ->
  (forall d, balance b0 ENT_MACC d = 0) ->
  ent_hist_wf {| w_bank := b0; w_ent := ent_genesis p start wl; w_now := t0 |} h ->
  ent_run {| w_bank := b0; w_ent := ent_genesis p start wl; w_now := t0 |} h = Some w ->
  ent_inv w.
Proof.
  intros V S T B W R. eapply ent_inv_run; eauto. apply ent_inv_genesis; auto.
Qed.

Lemma bank_nonneg_run h : forall w w',
  ent_inv w -> bank_nonneg (w_bank w) -> ent_hist_wf w h -> ent_run w h = Some w' ->
  bank_nonneg (w_bank w').
Proof.
  induction h as [|o r IH]; intros w w' I N W H.
  - cbn in H. injection H as <-. exact N.
  - cbn [ent_run ent_hist_wf] in *. destruct W as [Wo Wr].
    destruct (ent_step w o) as [w1|] eqn:E; [|discriminate].
    apply (IH w1 w'); auto.
    + eapply ent_inv_step; eauto.
    + eapply ent_step_bank_nonneg; eauto.
Qed.

Lemma run_never_halts h : forall w,
  ent_inv w -> bank_nonneg (w_bank w) -> ent_hist_wf w h -> ent_run w h <> None.
Proof.
  induction h as [|o r IH]; intros w I N W.
  - cbn. discriminate.
  - cbn [ent_run ent_hist_wf] in *. destruct W as [Wo Wr].
    destruct (ent_step w o) as [w1|] eqn:E.
    + apply IH; auto.
      * eapply ent_inv_step; eauto.
      * eapply ent_step_bank_nonneg; eauto.
    + exfalso. destruct o as [m|now|p|payer fee].
      * cbn [ent_step] in E. destruct (ent_validate_basic m); try discriminate.
        destruct (ent_exec _ _ _) as [[s' r']| |]; discriminate.
      * eapply begin_block_never_panics; eauto.
      * cbn [ent_step] in E. destruct (ent_set_params _ _); discriminate.
      * cbn [ent_step] in E. destruct (unlock_for_fees _ _ _ _) as [[b' s']| |]; discriminate.
Qed.
