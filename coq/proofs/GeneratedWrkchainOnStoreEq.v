(* CAPSTONE of the store layer of x/wrkchain: the keeper and message server of /repo/x/wrkchain/keeper/{register,record,
   msg_server}.go rendered over the BYTE-LEVEL store (GeneratedWrkchainKeeperOnStore.v: world [wsworld] of
   model/WrkchainStoreWorld.v, store access through the GENERATED accessors of GeneratedWrkchainStore.v and the GENERATED
   key builders) simulates the rendering over the hand-written primitives (GeneratedWrkchainKeeper.v: world [rworld] of
   model/RegistryWorld.v + model/WrkchainKeeperPrims.v), about which C07 / C08 / C09 are proved
   (proofs/GeneratedWrkchainEq.v, proofs/GeneratedWrkchainValidateEq.v).

   Rw w ws   - the byte-level world ws represents the abstract world w: same block time, same wall clock, and
               Rreg (wsw_store ws) (rw_reg w)  (proofs/GeneratedWrkchainStoreRefines.v).
   winv st   - what the abstract state has to satisfy besides, for the byte store to follow it (both are facts about
               every state the module reaches - reg_inv_winv - and both are needed, see the *_refuted results of
               props/C18storewrkchainrefines.v):
                 every recorded height is >= 1            (GetLastWrkChainHeightInState reads 0 as "none"),
                 every LowestHeight of a WRKChain is a uint64   (it is the height deleteWrkChainHash is called with).
   Rwi w ws  = Rw w ws /\ winv (rw_reg w).
   sim a c   - the two results agree: Ok/Ok with Rwi-related worlds and EQUAL values, Err/Err and Panic/Panic with equal
               codes.  sim0 is the same with Rw.

   part 1  the relations, sim, the "bind" library;
   part 2  every adapter primitive of model/WrkchainStoreWorld.v simulates its counterpart of the primitives;
   part 3  a tactic walking two bodies of the same shape; the five keeper functions; the four handlers;
   part 4  messages (the three of the model + MsgUpdateParams), ValidateBasic, histories;
   part 5  C07 / C08 / C09 transported to the on-store rendering;
   part 6  a concrete run; the uint64 LowestHeight half of winv shown necessary. *)
From Coq Require Import ZifyBool.
From MC Require Import lib.Prelude lib.AMap lib.GoSdk GeneratedWrkchainTypes model.Bank model.Registry model.RegistrySpec
  model.Genesis model.Keys model.KeyPrims model.KVStore model.StoreCodecPrims model.WrkchainKeeperPrims model.WrkchainStoreWorld
  model.WrkchainGenSpec GeneratedKeys GeneratedWrkchainStore.
From MC Require GeneratedWrkchainKeeper GeneratedWrkchainKeeperOnStore.
From MC Require Import proofs.RegistryProofs proofs.GeneratedWrkchainEq proofs.GeneratedWrkchainValidateEq
  proofs.GeneratedWrkchainParamsEq proofs.GeneratedWrkchainStoreEq proofs.GeneratedWrkchainStoreRefines.
From Coq Require Import NArith ZArith List Bool Lia Sorted Permutation.
Import ListNotations.
Local Open Scope Z_scope.

(* the two renderings, by short names; never imported *)
Module K := MC.GeneratedWrkchainKeeper.
Module S := MC.GeneratedWrkchainKeeperOnStore.

(* [u64] is the one of proofs/GeneratedWrkchainStoreRefines.v (0 <= x < 2 ^ 64); model/RegistrySpec.v has the same
   predicate written with [two64] *)
Lemma u64_spec x : u64 x <-> 0 <= x < two64.
Proof. unfold u64. change (2 ^ 64) with two64. reflexivity. Qed.
Lemma u64_spec_model x : RegistrySpec.u64 x <-> u64 x.
Proof. rewrite u64_spec. reflexivity. Qed.

Lemma obind_Ok {A B} (x : A) (f : A -> outcome B) : obind (Ok x) f = f x.
Proof. reflexivity. Qed.

Lemma wrap64_u64 x : u64 (wrap64 x).
Proof. apply u64_spec. unfold wrap64. apply Z.mod_pos_bound. reflexivity. Qed.

(* ================================================================== *)
(* part 1: the relations, sim, binds                                    *)
(* ================================================================== *)

Definition Rw (w : rworld) (ws : wsworld) : Prop :=
  rw_now w = wsw_now ws /\ rw_wall w = wsw_wall ws /\ Rreg (wsw_store ws) (rw_reg w).

Definition winv (st : reg_state) : Prop :=
  (forall id h rc, In ((id, h), rc) (r_recs st) -> 1 <= h) /\
  (forall id rg, In (id, rg) (r_regs st) -> u64 (rg_lowest rg)).

Definition Rwi (w : rworld) (ws : wsworld) : Prop := Rw w ws /\ winv (rw_reg w).

Definition gsim (P : rworld -> wsworld -> Prop) {R} (a : outcome (rworld * R)) (c : outcome (wsworld * R)) : Prop :=
  match a, c with
  | Ok (w, x), Ok (ws, y) => P w ws /\ x = y
  | Err e, Err e' => e = e'
  | Panic p, Panic p' => p = p'
  | _, _ => False
  end.

Definition sim0 {R} := @gsim Rw R.
Definition sim {R} := @gsim Rwi R.

Lemma Rwi_Rw w ws : Rwi w ws -> Rw w ws.
Proof. intros H; apply H. Qed.
Lemma Rwi_Rreg w ws : Rwi w ws -> Rreg (wsw_store ws) (rw_reg w).
Proof. intros H; apply H. Qed.
Lemma Rwi_winv w ws : Rwi w ws -> winv (rw_reg w).
Proof. intros H; apply H. Qed.

Lemma sim_ret {R} w ws (r : R) : Rwi w ws -> sim (Ok (w, r)) (Ok (ws, r)).
Proof. intros H. split; [exact H | reflexivity]. Qed.

Lemma sim_err {R} e : @sim R (Err e) (Err e).
Proof. reflexivity. Qed.

Lemma sim_panic {R} e : @sim R (Panic e) (Panic e).
Proof. reflexivity. Qed.

(* a state-changing call on both sides, then related continuations *)
Lemma sim_bind {R R'} (a : outcome (rworld * R)) (c : outcome (wsworld * R))
      (ka : rworld * R -> outcome (rworld * R')) (kc : wsworld * R -> outcome (wsworld * R')) :
  sim a c ->
  (forall w ws r, Rwi w ws -> sim (ka (w, r)) (kc (ws, r))) ->
  sim (obind a ka) (obind c kc).
Proof.
  intros H K. destruct a as [[w r]|e|p], c as [[ws r']|e'|p']; cbn in H |- *; try contradiction.
  - destruct H as [H E]. subst r'. apply K, H.
  - exact H.
  - exact H.
Qed.

(* the same pure computation on both sides *)
Lemma sim_bind_pure {A R} (p : outcome A) (ka : A -> outcome (rworld * R)) (kc : A -> outcome (wsworld * R)) :
  (forall x, sim (ka x) (kc x)) -> sim (obind p ka) (obind p kc).
Proof. intros K. destruct p as [x|e|q]; cbn; [apply K | reflexivity | reflexivity]. Qed.

(* a reader: a pure let on the abstract side, a bind of an accessor that answers Ok of the same value on the store side *)
Lemma sim_bind_reader {A R} (v : A) (c : outcome A) (a : outcome (rworld * R)) (kc : A -> outcome (wsworld * R)) :
  c = Ok v -> sim a (kc v) -> sim a (obind c kc).
Proof. intros -> H. exact H. Qed.

Lemma sim_if {R} (b : bool) (a1 a2 : outcome (rworld * R)) (c1 c2 : outcome (wsworld * R)) :
  (b = true -> sim a1 c1) -> (b = false -> sim a2 c2) -> sim (if b then a1 else a2) (if b then c1 else c2).
Proof. destruct b; auto. Qed.

(* results: what a successful pair of runs gives *)
Lemma sim_Ok_inv {R} (a : outcome (rworld * R)) ws' r :
  forall c, sim a c -> c = Ok (ws', r) -> exists w', a = Ok (w', r) /\ Rwi w' ws'.
Proof.
  intros c H ->. destruct a as [[w' r']|e|p]; cbn in H; try contradiction.
  destruct H as [H E]. subst r'. exists w'. split; [reflexivity | exact H].
Qed.

Lemma sim_Ok_inv_l {R} (c : outcome (wsworld * R)) w' r :
  forall a, sim a c -> a = Ok (w', r) -> exists ws', c = Ok (ws', r) /\ Rwi w' ws'.
Proof.
  intros a H ->. destruct c as [[ws' r']|e|p]; cbn in H; try contradiction.
  destruct H as [H E]. subst r'. exists ws'. split; [reflexivity | exact H].
Qed.

Lemma sim_Err_inv {R} (a : outcome (rworld * R)) (c : outcome (wsworld * R)) e : sim a c -> (a = Err e <-> c = Err e).
Proof.
  intros H. destruct a as [[w' r']|e1|p], c as [[ws' r'']|e2|p']; cbn in H; try contradiction;
    split; intros E; try discriminate E; congruence.
Qed.

(* sim0 + the invariant on the abstract result = sim *)
Lemma sim_of_sim0 {R} (a : outcome (rworld * R)) (c : outcome (wsworld * R)) :
  sim0 a c -> (forall w' r, a = Ok (w', r) -> winv (rw_reg w')) -> sim a c.
Proof.
  intros H I. destruct a as [[w r]|e|p], c as [[ws r']|e'|p']; cbn in H |- *; try contradiction; try exact H.
  destruct H as [H E]. split; [split; [exact H | exact (I _ _ eq_refl)] | exact E].
Qed.

Lemma sim0_of_sim {R} (a : outcome (rworld * R)) (c : outcome (wsworld * R)) : sim a c -> sim0 a c.
Proof.
  intros H. destruct a as [[w r]|e|p], c as [[ws r']|e'|p']; cbn in H |- *; try contradiction; try exact H.
  destruct H as [[H _] E]. split; assumption.
Qed.

(* ================================================================== *)
(* part 2: the primitives                                               *)
(* ================================================================== *)

(* ---- the clocks ---- *)
Lemma prim_now w ws : Rw w ws -> os_rw_now ws = rw_now w.
Proof. intros (H & _). symmetry. exact H. Qed.
Lemma prim_wall w ws : Rw w ws -> os_rw_wall ws = rw_wall w.
Proof. intros (_ & H & _). symmetry. exact H. Qed.

(* ---- readers: the generated accessor answers Ok of the primitive ---- *)
Lemma prim_GetEntity w ws id : Rw w ws -> u64 id -> os_reg_GetEntity ws id = Ok (reg_GetEntity w id).
Proof. intros (_ & _ & HR) Hi. exact (GetEntity_refines _ w HR id Hi). Qed.

Lemma prim_IsRegistered w ws id : Rw w ws -> u64 id -> os_reg_IsRegistered ws id = Ok (reg_IsRegistered w id).
Proof. intros (_ & _ & HR) Hi. exact (IsRegistered_refines _ w HR id Hi). Qed.

Lemma prim_GetHighestID w ws : Rw w ws -> os_reg_GetHighestID ws = reg_GetHighestID w.
Proof. intros (_ & _ & HR). exact (GetHighestID_refines _ w HR). Qed.

Lemma prim_GetStorageLimit w ws id : Rw w ws -> u64 id -> os_reg_GetStorageLimit ws id = Ok (reg_GetStorageLimit w id).
Proof. intros (_ & _ & HR) Hi. exact (GetStorageLimit_refines _ w HR id Hi). Qed.

Lemma prim_GetParamMaxStorageLimit w ws : Rw w ws -> os_reg_GetParamMaxStorageLimit ws = Ok (reg_GetParamMaxStorageLimit w).
Proof. intros (_ & _ & HR). exact (GetParamMaxStorageLimit_refines _ w HR). Qed.

Lemma prim_GetParamDefaultStorageLimit w ws : Rw w ws ->
  os_reg_GetParamDefaultStorageLimit ws = Ok (reg_GetParamDefaultStorageLimit w).
Proof. intros (_ & _ & HR). exact (GetParamDefaultStorageLimit_refines _ w HR). Qed.

Lemma prim_GetParams w ws : Rw w ws -> os_reg_GetParams ws = Ok (reg_GetParams w).
Proof. intros (_ & _ & HR). exact (GetParams_refines _ w HR). Qed.

Lemma prim_GetRecord w ws id h : Rw w ws -> u64 id -> u64 h -> os_reg_GetRecord ws id h = Ok (reg_GetRecord w id h).
Proof. intros (_ & _ & HR) Hi Hh. exact (GetRecord_refines _ w HR id h Hi Hh). Qed.

(* the one adapter that is not a bare accessor: recorder.Equals(GetWrkChainOwner(id)) over go_st_GetWrkChain.  The entity
   entry of Rreg gives the owner the primitive compares with. *)
Lemma prim_IsAuthorisedToRecord w ws id a : Rw w ws -> u64 id ->
  os_reg_IsAuthorisedToRecord ws id a = Ok (reg_IsAuthorisedToRecord w id a).
Proof.
  intros (_ & _ & HR) Hi. unfold os_reg_IsAuthorisedToRecord. rewrite (GetEntity_refines _ w HR id Hi).
  unfold reg_GetEntity, reg_IsAuthorisedToRecord. destruct (aget id (r_regs (rw_reg w))) as [rg|]; reflexivity.
Qed.

(* the lowest key left: heights >= 1 needed (C18_store_wrkchain_refines_zero_height_refuted) *)
Lemma prim_LowestKeyInState w ws id : Rw w ws -> u64 id ->
  (forall h rc, In ((id, h), rc) (r_recs (rw_reg w)) -> 1 <= h) ->
  os_reg_LowestKeyInState ws id = Ok (reg_LowestKeyInState w id).
Proof. intros (_ & _ & HR) Hi Hp. exact (LowestKeyInState_refines _ w id HR Hi Hp). Qed.

Lemma prim_LowestKeyInState_i w ws id : Rwi w ws -> u64 id ->
  os_reg_LowestKeyInState ws id = Ok (reg_LowestKeyInState w id).
Proof. intros [HR [Hp _]] Hi. apply prim_LowestKeyInState; [exact HR | exact Hi | intros h rc; apply Hp]. Qed.

(* ---- writers ---- *)

(* a store writer: the new abstract world differs from w in its registry state only *)
Lemma writer_sim0 w ws (a : outcome (rworld * unit)) (c : outcome (okv wrkchain_val * unit)) :
  Rw w ws ->
  (forall x, a = Ok x -> rw_now (fst x) = rw_now w /\ rw_wall (fst x) = rw_wall w) ->
  sim_res a c -> sim0 a (lift_w ws c).
Proof.
  intros (Hn & Hl & _) Hfr H. unfold sim_res in H.
  destruct a as [[w' []]|e|p], c as [[s' []]|e'|p']; cbn in H |- *; try contradiction; try exact H.
  destruct (Hfr _ eq_refl) as [Hn' Hl']. cbn [fst] in Hn', Hl'.
  split; [|reflexivity]. unfold Rw. cbn [with_wstore wsw_now wsw_wall wsw_store].
  split; [congruence | split; [congruence | exact H]].
Qed.

Lemma prim_SetHighestID_0 w ws v : Rw w ws -> u64 v -> sim0 (reg_SetHighestID w v) (os_reg_SetHighestID ws v).
Proof.
  intros H Hv. apply (writer_sim0 w ws); [exact H | |].
  - intros x [= <-]. split; reflexivity.
  - destruct H as (_ & _ & HR). exact (SetHighestID_sim _ w v HR Hv).
Qed.

Lemma prim_SetEntity_0 w ws g : Rw w ws -> u64 (WrkChain_WrkchainId g) -> sim0 (reg_SetEntity w g) (os_reg_SetEntity ws g).
Proof.
  intros H Hg. apply (writer_sim0 w ws); [exact H | |].
  - intros x [= <-]. split; reflexivity.
  - destruct H as (_ & _ & HR). exact (SetEntity_sim _ w g HR Hg).
Qed.

Lemma prim_SetStorageLimit_0 w ws id l : Rw w ws -> u64 id ->
  sim0 (reg_SetStorageLimit w id l) (os_reg_SetStorageLimit ws id l).
Proof.
  intros H Hi. apply (writer_sim0 w ws); [exact H | |].
  - intros x [= <-]. split; reflexivity.
  - destruct H as (_ & _ & HR). exact (SetStorageLimit_sim _ w id l HR Hi).
Qed.

Lemma prim_SetRecord_0 w ws id b : Rw w ws -> u64 id -> u64 (WrkChainBlock_Height b) ->
  sim0 (reg_SetRecord w id b) (os_reg_SetRecord ws id b).
Proof.
  intros H Hi Hb. apply (writer_sim0 w ws); [exact H | |].
  - intros x [= <-]. split; reflexivity.
  - destruct H as (_ & _ & HR). exact (SetRecord_sim _ w id b HR Hi Hb).
Qed.

Lemma prim_DeleteRecord_0 w ws id t : Rw w ws -> u64 id -> u64 t ->
  sim0 (reg_DeleteRecord w id t) (os_reg_DeleteRecord ws id t).
Proof.
  intros H Hi Ht. apply (writer_sim0 w ws); [exact H | |].
  - intros x [= <-]. split; reflexivity.
  - destruct H as (_ & _ & HR). exact (DeleteRecord_sim _ w id t HR Hi Ht).
Qed.

(* SetParams: Params.Validate on both sides.  The four `== 0`-tested fields are uint64 in Go ([wrk_params_nonneg]); the
   denomination is well-formed or blank ([denom_ok]: for a malformed non-blank one the Go code returns the error of
   sdk.ValidateDenom, 1, where the primitive answers 40 - C18_store_wrkchain_refines_SetParams_code_refuted) *)
Lemma prim_SetParams_0 w ws p : Rw w ws -> wrk_params_nonneg p -> denom_ok p ->
  sim0 (reg_SetParams w p) (os_reg_SetParams ws p).
Proof.
  intros H Hp Hd. apply (writer_sim0 w ws); [exact H | |].
  - intros x. unfold reg_SetParams, reg_store_params. destruct (reg_params_valid (params_of_go p)); [|discriminate].
    intros [= <-]. split; reflexivity.
  - destruct H as (_ & _ & HR). exact (SetParams_sim _ w p HR Hp Hd).
Qed.

(* ---- the invariant under the writers ---- *)
Lemma winv_SetHighestID w v w' : winv (rw_reg w) -> reg_SetHighestID w v = Ok (w', tt) -> winv (rw_reg w').
Proof. intros I [= <-]. exact I. Qed.

Lemma winv_SetStorageLimit w id l w' : winv (rw_reg w) -> reg_SetStorageLimit w id l = Ok (w', tt) -> winv (rw_reg w').
Proof. intros I [= <-]. exact I. Qed.

Lemma winv_SetParams w p w' : winv (rw_reg w) -> reg_SetParams w p = Ok (w', tt) -> winv (rw_reg w').
Proof.
  intros I. unfold reg_SetParams, reg_store_params. destruct (reg_params_valid (params_of_go p)); [|discriminate].
  intros [= <-]. exact I.
Qed.

Lemma winv_SetEntity w g w' : winv (rw_reg w) -> u64 (WrkChain_LowestHeight g) ->
  reg_SetEntity w g = Ok (w', tt) -> winv (rw_reg w').
Proof.
  intros [I1 I2] Hg [= <-]. split; [exact I1|]. cbn [rw_reg with_reg with_regs r_regs].
  intros id rg Hin. apply aset_In in Hin. destruct Hin as [[_ ->]|Hin]; [exact Hg | exact (I2 _ _ Hin)].
Qed.

Lemma winv_SetRecord w id b w' : winv (rw_reg w) -> 1 <= WrkChainBlock_Height b ->
  reg_SetRecord w id b = Ok (w', tt) -> winv (rw_reg w').
Proof.
  intros [I1 I2] Hb [= <-]. split; [|exact I2]. cbn [rw_reg with_reg with_regs r_recs].
  intros i h rc Hin. apply aset_In in Hin. destruct Hin as [[E _]|Hin]; [|exact (I1 _ _ _ Hin)].
  cbn [rc_key] in E. injection E as _ ->. exact Hb.
Qed.

Lemma winv_DeleteRecord w id t w' : winv (rw_reg w) -> reg_DeleteRecord w id t = Ok (w', tt) -> winv (rw_reg w').
Proof.
  intros [I1 I2] [= <-]. split; [|exact I2]. cbn [rw_reg with_reg with_regs r_recs].
  intros i h rc Hin. apply adel_In in Hin. exact (I1 _ _ _ Hin).
Qed.

(* ---- the writers, on Rwi ---- *)
Lemma prim_SetHighestID w ws v : Rwi w ws -> u64 v -> sim (reg_SetHighestID w v) (os_reg_SetHighestID ws v).
Proof.
  intros [H I] Hv. apply sim_of_sim0; [apply prim_SetHighestID_0; assumption|].
  intros w' [] E. exact (winv_SetHighestID _ _ _ I E).
Qed.

Lemma prim_SetEntity w ws g : Rwi w ws -> u64 (WrkChain_WrkchainId g) -> u64 (WrkChain_LowestHeight g) ->
  sim (reg_SetEntity w g) (os_reg_SetEntity ws g).
Proof.
  intros [H I] Hg Hl. apply sim_of_sim0; [apply prim_SetEntity_0; assumption|].
  intros w' [] E. exact (winv_SetEntity _ _ _ I Hl E).
Qed.

Lemma prim_SetStorageLimit w ws id l : Rwi w ws -> u64 id ->
  sim (reg_SetStorageLimit w id l) (os_reg_SetStorageLimit ws id l).
Proof.
  intros [H I] Hi. apply sim_of_sim0; [apply prim_SetStorageLimit_0; assumption|].
  intros w' [] E. exact (winv_SetStorageLimit _ _ _ _ I E).
Qed.

Lemma prim_SetRecord w ws id b : Rwi w ws -> u64 id -> u64 (WrkChainBlock_Height b) -> 1 <= WrkChainBlock_Height b ->
  sim (reg_SetRecord w id b) (os_reg_SetRecord ws id b).
Proof.
  intros [H I] Hi Hb H1. apply sim_of_sim0; [apply prim_SetRecord_0; assumption|].
  intros w' [] E. exact (winv_SetRecord _ _ _ _ I H1 E).
Qed.

Lemma prim_DeleteRecord w ws id t : Rwi w ws -> u64 id -> u64 t ->
  sim (reg_DeleteRecord w id t) (os_reg_DeleteRecord ws id t).
Proof.
  intros [H I] Hi Ht. apply sim_of_sim0; [apply prim_DeleteRecord_0; assumption|].
  intros w' [] E. exact (winv_DeleteRecord _ _ _ _ I E).
Qed.

Lemma prim_SetParams w ws p : Rwi w ws -> wrk_params_nonneg p -> denom_ok p ->
  sim (reg_SetParams w p) (os_reg_SetParams ws p).
Proof.
  intros [H I] Hp Hd. apply sim_of_sim0; [apply prim_SetParams_0; assumption|].
  intros w' [] E. exact (winv_SetParams _ _ _ I E).
Qed.

(* ---- what the relation says about what the readers return ---- *)

(* a stored WRKChain carries its own id, a uint64; its LowestHeight is a uint64 *)
Lemma entity_id_u64 w ws id : Rw w ws -> u64 (WrkChain_WrkchainId (fst (reg_GetEntity w id))).
Proof.
  intros (_ & _ & HR). unfold reg_GetEntity. destruct (aget id (r_regs (rw_reg w))) as [rg|] eqn:G; cbn [fst].
  - apply aget_In in G. destruct (R_regs_wf _ _ HR) as [_ W]. destruct (W _ _ G) as [Hu E].
    cbn [to_go_entity WrkChain_WrkchainId]. rewrite E. exact Hu.
  - cbn. apply u64_spec. unfold two64. lia.
Qed.

Lemma entity_lowest_u64 w ws id : Rwi w ws -> u64 (WrkChain_LowestHeight (fst (reg_GetEntity w id))).
Proof.
  intros [_ [_ I2]]. unfold reg_GetEntity. destruct (aget id (r_regs (rw_reg w))) as [rg|] eqn:G; cbn [fst].
  - apply aget_In in G. exact (I2 _ _ G).
  - cbn. apply u64_spec. unfold two64. lia.
Qed.

(* the lowest key left is 0 or the height of a stored record *)
Lemma lowest_key_In id (recs : amap (Z * Z) record) :
  lowest_key id recs = 0 \/ exists rc, In ((id, lowest_key id recs), rc) recs.
Proof.
  induction recs as [|[[i h] rc] r IH]; [left; reflexivity|]. cbn [lowest_key].
  destruct (i =? id) eqn:Ei.
  - apply Z.eqb_eq in Ei. subst i.
    destruct ((lowest_key id r =? 0) || (h <? lowest_key id r)).
    + right. exists rc. left. reflexivity.
    + destruct IH as [E|[rc' Hin]]; [left; exact E | right; exists rc'; right; exact Hin].
  - destruct IH as [E|[rc' Hin]]; [left; exact E | right; exists rc'; right; exact Hin].
Qed.

Lemma lowest_u64 w ws id : Rw w ws -> u64 (reg_LowestKeyInState w id).
Proof.
  intros (_ & _ & HR). unfold reg_LowestKeyInState.
  destruct (lowest_key_In id (r_recs (rw_reg w))) as [E|[rc Hin]].
  - rewrite E. apply u64_spec. unfold two64. lia.
  - destruct (R_recs_wf _ _ HR) as [_ W]. destruct (W _ _ _ Hin) as [_ [Hu _]]. exact Hu.
Qed.

(* ================================================================== *)
(* part 3: the walk                                                     *)
(* ================================================================== *)

(* One step on a goal [sim A C] where A and C are the two renderings of one Go body at related worlds.  Nothing here names
   a temporary of the generated files or the nesting of their tests. *)
Ltac sred := cbv beta iota zeta.

(* side conditions: ranges of ids / heights *)
Ltac sside :=
  first
  [ assumption
  | apply wrap64_u64
  | eapply lowest_u64; eapply Rwi_Rw; eassumption
  | cbn [fst snd WrkChain_WrkchainId WrkChain_LowestHeight WrkChainBlock_Height
         set_WrkChain_WrkchainId set_WrkChain_Moniker set_WrkChain_Name set_WrkChain_Genesis set_WrkChain_Type
         set_WrkChain_Lastblock set_WrkChain_NumBlocks set_WrkChain_LowestHeight set_WrkChain_RegTime set_WrkChain_Owner] in *;
    first [ assumption | apply wrap64_u64 | eapply lowest_u64; eapply Rwi_Rw; eassumption
          | rewrite ?u64_spec in *; unfold two64 in *; lia ] ].

(* the store-side readers answer Ok of the abstract reader *)
Ltac sread :=
  match goal with
  | HR : Rwi ?w ?ws |- context [os_reg_GetEntity ?ws ?id] =>
      rewrite (prim_GetEntity w ws id (Rwi_Rw _ _ HR)) by sside; rewrite !obind_Ok
  | HR : Rwi ?w ?ws |- context [os_reg_GetStorageLimit ?ws ?id] =>
      rewrite (prim_GetStorageLimit w ws id (Rwi_Rw _ _ HR)) by sside; rewrite !obind_Ok
  | HR : Rwi ?w ?ws |- context [os_reg_IsRegistered ?ws ?id] =>
      rewrite (prim_IsRegistered w ws id (Rwi_Rw _ _ HR)) by sside; rewrite !obind_Ok
  | HR : Rwi ?w ?ws |- context [os_reg_IsAuthorisedToRecord ?ws ?id ?a] =>
      rewrite (prim_IsAuthorisedToRecord w ws id a (Rwi_Rw _ _ HR)) by sside; rewrite !obind_Ok
  | HR : Rwi ?w ?ws |- context [os_reg_GetParamMaxStorageLimit ?ws] =>
      rewrite (prim_GetParamMaxStorageLimit w ws (Rwi_Rw _ _ HR)); rewrite !obind_Ok
  | HR : Rwi ?w ?ws |- context [os_reg_GetParamDefaultStorageLimit ?ws] =>
      rewrite (prim_GetParamDefaultStorageLimit w ws (Rwi_Rw _ _ HR)); rewrite !obind_Ok
  | HR : Rwi ?w ?ws |- context [os_reg_LowestKeyInState ?ws ?id] =>
      rewrite (prim_LowestKeyInState_i w ws id HR) by sside; rewrite !obind_Ok
  | HR : Rwi ?w ?ws |- context [os_reg_GetHighestID ?ws] =>
      rewrite (prim_GetHighestID w ws (Rwi_Rw _ _ HR)); unfold reg_GetHighestID; rewrite !obind_Ok
  | HR : Rwi ?w ?ws |- context [os_rw_now ?ws] =>
      rewrite (prim_now w ws (Rwi_Rw _ _ HR))
  end.

Ltac sprim :=
  first [ apply prim_SetEntity | apply prim_SetStorageLimit | apply prim_SetHighestID | apply prim_SetRecord
        | apply prim_DeleteRecord | apply prim_SetParams ]; sside.

(* [scall]: a call of an already treated function (re-bound below, after each function);
   [seq]: a call of an already treated function that returns no world *)
Ltac scall := fail.
Ltac seq := fail.

Ltac sstep :=
  first
  [ progress sread
  | progress seq
  | match goal with
    | |- context [match ?v with pair _ _ => _ end] => is_var v; destruct v
    | |- sim (match ?x with pair _ _ => _ end) _ => destruct x
    end
  | match goal with
    | |- sim (Err _) (Err _) => reflexivity
    | |- sim (Panic _) (Panic _) => reflexivity
    | |- sim (Ok (_, _)) (Ok (_, _)) => apply sim_ret; assumption
    | |- sim (if ?b then _ else _) (if ?b then _ else _) => destruct b eqn:?
    | |- sim (obind _ _) (obind _ _) =>
        first [ apply sim_bind_pure; intro
              | apply sim_bind; [ first [ sprim | scall ] | intros ? ? ? ? ] ]
    end ].

Ltac swalk := sred; repeat (sstep; sred).

(* ---- the keeper functions that return no world: the same answer ---- *)
Theorem eq_QuickCheckHeightIsNew w ws id height : Rwi w ws -> u64 id ->
  S.go_QuickCheckHeightIsNew ws id height = K.go_QuickCheckHeightIsNew w id height.
Proof.
  intros HR Hi. unfold S.go_QuickCheckHeightIsNew, K.go_QuickCheckHeightIsNew. repeat sread. reflexivity.
Qed.

Theorem eq_GetMaxPurchasableSlots w ws id : Rwi w ws -> u64 id ->
  S.go_GetMaxPurchasableSlots ws id = K.go_GetMaxPurchasableSlots w id.
Proof.
  intros HR Hi. unfold S.go_GetMaxPurchasableSlots, K.go_GetMaxPurchasableSlots. sread. sred.
  destruct (reg_GetStorageLimit w id) as [l found]. destruct (negb found); [reflexivity|]. sread. reflexivity.
Qed.

Ltac seq ::=
  match goal with
  | HR : Rwi ?w ?ws |- context [S.go_QuickCheckHeightIsNew ?ws ?id ?h] =>
      rewrite (eq_QuickCheckHeightIsNew w ws id h HR) by sside
  | HR : Rwi ?w ?ws |- context [S.go_GetMaxPurchasableSlots ?ws ?id] =>
      rewrite (eq_GetMaxPurchasableSlots w ws id HR) by sside
  end.

(* ---- the keeper functions that change the state ---- *)
Theorem sim_IncreaseInStateStorage w ws id amount : Rwi w ws -> u64 id ->
  sim (K.go_IncreaseInStateStorage w id amount) (S.go_IncreaseInStateStorage ws id amount).
Proof.
  intros HR Hi. unfold K.go_IncreaseInStateStorage, S.go_IncreaseInStateStorage. swalk.
Qed.

Theorem sim_RegisterNewWrkChain w ws moniker name genesis type owner : Rwi w ws ->
  sim (K.go_RegisterNewWrkChain w moniker name genesis type owner)
      (S.go_RegisterNewWrkChain ws moniker name genesis type owner).
Proof.
  intros HR. pose proof (R_next_range _ _ (Rwi_Rreg _ _ HR)) as Hn.
  unfold K.go_RegisterNewWrkChain, S.go_RegisterNewWrkChain. swalk.
Qed.

Theorem sim_RecordNewWrkchainHashes w ws id height h0 h1 h2 h3 h4 : Rwi w ws -> u64 id -> u64 height -> 1 <= height ->
  sim (K.go_RecordNewWrkchainHashes w id height h0 h1 h2 h3 h4) (S.go_RecordNewWrkchainHashes ws id height h0 h1 h2 h3 h4).
Proof.
  intros HR Hi Hh H1.
  pose proof (entity_id_u64 w ws id (Rwi_Rw _ _ HR)) as Ge. pose proof (entity_lowest_u64 w ws id HR) as Gl.
  unfold K.go_RecordNewWrkchainHashes, S.go_RecordNewWrkchainHashes. sread. sred.
  destruct (reg_GetEntity w id) as [g fl]. cbn [fst] in Ge, Gl. swalk.
Qed.

Ltac scall ::=
  first [ apply sim_IncreaseInStateStorage | apply sim_RegisterNewWrkChain | apply sim_RecordNewWrkchainHashes ]; sside.

(* ---- the handlers ---- *)

(* RegisterWrkChain: no side condition at all *)
Theorem sim_RegisterWrkChain w ws msg : Rwi w ws -> sim (K.go_RegisterWrkChain w msg) (S.go_RegisterWrkChain ws msg).
Proof.
  intros HR. unfold K.go_RegisterWrkChain, S.go_RegisterWrkChain, sdk_AccAddressFromBech32. rewrite !obind_Ok. swalk.
Qed.

(* RecordWrkChainBlock: the id and the height are uint64 (the handler itself refuses height 0) *)
Theorem sim_RecordWrkChainBlock w ws msg : Rwi w ws ->
  u64 (MsgRecordWrkChainBlock_WrkchainId msg) -> u64 (MsgRecordWrkChainBlock_Height msg) ->
  sim (K.go_RecordWrkChainBlock w msg) (S.go_RecordWrkChainBlock ws msg).
Proof.
  intros HR Hi Hh. unfold K.go_RecordWrkChainBlock, S.go_RecordWrkChainBlock, sdk_AccAddressFromBech32. rewrite !obind_Ok. swalk.
Qed.

(* PurchaseWrkChainStateStorage: the id is a uint64 *)
Theorem sim_PurchaseWrkChainStateStorage w ws msg : Rwi w ws -> u64 (MsgPurchaseWrkChainStateStorage_WrkchainId msg) ->
  sim (K.go_PurchaseWrkChainStateStorage w msg) (S.go_PurchaseWrkChainStateStorage ws msg).
Proof.
  intros HR Hi. unfold K.go_PurchaseWrkChainStateStorage, S.go_PurchaseWrkChainStateStorage, sdk_AccAddressFromBech32.
  rewrite !obind_Ok. swalk.
Qed.

(* UpdateParams: the hypotheses of SetParams *)
Theorem sim_UpdateParams w ws req : Rwi w ws ->
  wrk_params_nonneg (MsgUpdateParams_Params req) -> denom_ok (MsgUpdateParams_Params req) ->
  sim (K.go_UpdateParams w req) (S.go_UpdateParams ws req).
Proof.
  intros HR Hp Hd. unfold K.go_UpdateParams, S.go_UpdateParams. swalk.
Qed.

(* ================================================================== *)
(* part 4: messages, ValidateBasic, histories                           *)
(* ================================================================== *)

(* the on-store message server and ValidateBasic, driven by the model's message type exactly as [wrk_msg_exec]
   (model/WrkchainGenSpec.v) and [wrk_validate_basic] (proofs/GeneratedWrkchainValidateEq.v) drive rendering (1) *)
Definition os_wrk_msg_exec (w : wsworld) (m : reg_msg) : outcome (wsworld * reg_resp) :=
  match m with
  | RRegister owner moniker name genesis type =>
      do (w', rsp) <- S.go_RegisterWrkChain w
           {| MsgRegisterWrkChain_Moniker := moniker; MsgRegisterWrkChain_Name := name; MsgRegisterWrkChain_GenesisHash := genesis;
              MsgRegisterWrkChain_BaseType := type; MsgRegisterWrkChain_Owner := owner |};
      Ok (w', RespRegistered (MsgRegisterWrkChainResponse_WrkchainId rsp))
  | RRecord owner id key hashes =>
      do (w', rsp) <- S.go_RecordWrkChainBlock w
           {| MsgRecordWrkChainBlock_WrkchainId := id; MsgRecordWrkChainBlock_Height := key;
              MsgRecordWrkChainBlock_BlockHash := hash_at 0 hashes; MsgRecordWrkChainBlock_ParentHash := hash_at 1 hashes;
              MsgRecordWrkChainBlock_Hash1 := hash_at 2 hashes; MsgRecordWrkChainBlock_Hash2 := hash_at 3 hashes;
              MsgRecordWrkChainBlock_Hash3 := hash_at 4 hashes; MsgRecordWrkChainBlock_Owner := owner |};
      Ok (w', RespRecorded (MsgRecordWrkChainBlockResponse_WrkchainId rsp) (MsgRecordWrkChainBlockResponse_Height rsp))
  | RPurchase owner id n =>
      do (w', rsp) <- S.go_PurchaseWrkChainStateStorage w
           {| MsgPurchaseWrkChainStateStorage_WrkchainId := id; MsgPurchaseWrkChainStateStorage_Number := n;
              MsgPurchaseWrkChainStateStorage_Owner := owner |};
      Ok (w', RespPurchased (MsgPurchaseWrkChainStateStorageResponse_WrkchainId rsp)
                            (MsgPurchaseWrkChainStateStorageResponse_NumberPurchased rsp)
                            (MsgPurchaseWrkChainStateStorageResponse_NumCanPurchase rsp))
  end.

Definition os_wrk_validate_basic (m : reg_msg) : outcome unit :=
  match m with
  | RRegister owner moniker name genesis type =>
      S.go_MsgRegisterWrkChain_ValidateBasic
        {| MsgRegisterWrkChain_Moniker := moniker; MsgRegisterWrkChain_Name := name; MsgRegisterWrkChain_GenesisHash := genesis;
           MsgRegisterWrkChain_BaseType := type; MsgRegisterWrkChain_Owner := owner |}
  | RRecord owner id key hashes =>
      S.go_MsgRecordWrkChainBlock_ValidateBasic
        {| MsgRecordWrkChainBlock_WrkchainId := id; MsgRecordWrkChainBlock_Height := key;
           MsgRecordWrkChainBlock_BlockHash := hash_at 0 hashes; MsgRecordWrkChainBlock_ParentHash := hash_at 1 hashes;
           MsgRecordWrkChainBlock_Hash1 := hash_at 2 hashes; MsgRecordWrkChainBlock_Hash2 := hash_at 3 hashes;
           MsgRecordWrkChainBlock_Hash3 := hash_at 4 hashes; MsgRecordWrkChainBlock_Owner := owner |}
  | RPurchase owner id n =>
      S.go_MsgPurchaseWrkChainStateStorage_ValidateBasic
        {| MsgPurchaseWrkChainStateStorage_WrkchainId := id; MsgPurchaseWrkChainStateStorage_Number := n;
           MsgPurchaseWrkChainStateStorage_Owner := owner |}
  end.

(* the two ValidateBasic are one function: they touch no store *)
Lemma os_wrk_validate_basic_eq m : os_wrk_validate_basic m = wrk_validate_basic m.
Proof. destruct m; reflexivity. Qed.

(* the four message kinds of the module: the three of the model, and MsgUpdateParams *)
Inductive kmsg :=
| KReg (m : reg_msg)
| KUpdateParams (req : go_MsgUpdateParams).

Inductive kresp :=
| KRReg (r : reg_resp)
| KRParams.

(* DeliverTx of one message: ValidateBasic, then the handler (MsgUpdateParams has no ValidateBasic of its own) *)
Definition k_deliver (w : rworld) (m : kmsg) : outcome (rworld * kresp) :=
  match m with
  | KReg m => do _ <- wrk_validate_basic m; do (w', r) <- wrk_msg_exec w m; Ok (w', KRReg r)
  | KUpdateParams req => do (w', _) <- K.go_UpdateParams w req; Ok (w', KRParams)
  end.
Definition s_deliver (w : wsworld) (m : kmsg) : outcome (wsworld * kresp) :=
  match m with
  | KReg m => do _ <- os_wrk_validate_basic m; do (w', r) <- os_wrk_msg_exec w m; Ok (w', KRReg r)
  | KUpdateParams req => do (w', _) <- S.go_UpdateParams w req; Ok (w', KRParams)
  end.

(* the world a message is delivered in: block time [t] seconds after the epoch, wall clock [wall] (as [wrk_step_v]) *)
Definition kw_at (wall t : Z) (w : rworld) : rworld := mk_rworld (t * NSEC) wall (rw_reg w).
Definition sw_at (wall t : Z) (w : wsworld) : wsworld := mk_wsworld (t * NSEC) wall (wsw_store w).

(* a history: (unix time, message) pairs.  Each message is delivered at its block time; a message that fails (Err) or
   panics (recovered by runTx) leaves the state untouched; the trace keeps every result. *)
Section HRun.
  Context {W : Type}.
  Variable at_time : Z -> W -> W.
  Variable deliver : W -> kmsg -> outcome (W * kresp).
  Fixpoint hrun (w : W) (h : list (Z * kmsg)) : list (outcome kresp) * W :=
    match h with
    | [] => ([], w)
    | (t, m) :: h' =>
        match deliver (at_time t w) m with
        | Ok (w', r) => let tr := hrun w' h' in (Ok r :: fst tr, snd tr)
        | Err e => let tr := hrun (at_time t w) h' in (Err e :: fst tr, snd tr)
        | Panic c => let tr := hrun (at_time t w) h' in (Panic c :: fst tr, snd tr)
        end
    end.
End HRun.

Definition k_run (wall : Z) : rworld -> list (Z * kmsg) -> list (outcome kresp) * rworld := hrun (kw_at wall) k_deliver.
Definition s_run (wall : Z) : wsworld -> list (Z * kmsg) -> list (outcome kresp) * wsworld := hrun (sw_at wall) s_deliver.

(* a history of the model's three kinds, as a history of the four *)
Definition lift_hist (h : list (Z * reg_msg)) : list (Z * kmsg) := map (fun tm => (fst tm, KReg (snd tm))) h.

(* what the simulation needs of a message: its id / height fields are uint64 (anything decoded from a protobuf uint64
   is); the parameters of an update are those SetParams needs *)
Definition reg_msg_ok (m : reg_msg) : Prop :=
  match m with
  | RRegister _ _ _ _ _ => True
  | RRecord _ id key _ => u64 id /\ u64 key
  | RPurchase _ id _ => u64 id
  end.
Definition kmsg_ok (m : kmsg) : Prop :=
  match m with
  | KReg m => reg_msg_ok m
  | KUpdateParams req => wrk_params_nonneg (MsgUpdateParams_Params req) /\ denom_ok (MsgUpdateParams_Params req)
  end.

Lemma reg_msg_wf_ok m : reg_msg_wf m -> reg_msg_ok m.
Proof.
  destruct m as [o moniker name genesis type | o id key hashes | o id n]; cbn; rewrite <- ?u64_spec_model; tauto.
Qed.

Ltac scall ::=
  first [ apply sim_RegisterWrkChain | apply sim_RecordWrkChainBlock | apply sim_PurchaseWrkChainStateStorage
        | apply sim_UpdateParams ]; sside.

Theorem sim_msg_exec w ws m : Rwi w ws -> reg_msg_ok m -> sim (wrk_msg_exec w m) (os_wrk_msg_exec ws m).
Proof.
  intros HR Hm.
  destruct m as [o moniker name genesis type | o id key hashes | o id n]; cbn [reg_msg_ok] in Hm;
    unfold wrk_msg_exec, os_wrk_msg_exec.
  - swalk.
  - destruct Hm as [Hi Hk]. swalk.
  - swalk.
Qed.

Theorem sim_deliver w ws m : Rwi w ws -> kmsg_ok m -> sim (k_deliver w m) (s_deliver ws m).
Proof.
  intros HR D. destruct m as [m|req]; unfold k_deliver, s_deliver.
  - change (os_wrk_validate_basic m) with (wrk_validate_basic m). apply sim_bind_pure. intros _.
    apply sim_bind; [apply sim_msg_exec; assumption|]. intros w' ws' r HR'. apply sim_ret, HR'.
  - destruct D as [Hp Hd]. apply sim_bind; [apply sim_UpdateParams; assumption|]. intros w' ws' r HR'. apply sim_ret, HR'.
Qed.

Lemma Rwi_at wall t w ws : Rwi w ws -> Rwi (kw_at wall t w) (sw_at wall t ws).
Proof. intros [(_ & _ & HR) I]. unfold Rwi, Rw, kw_at, sw_at. cbn. auto. Qed.

(* any history of the four message kinds, from related worlds: the same result for every message, related final worlds *)
Theorem sim_run wall h : forall w ws, Rwi w ws -> Forall (fun tm => kmsg_ok (snd tm)) h ->
  fst (k_run wall w h) = fst (s_run wall ws h) /\ Rwi (snd (k_run wall w h)) (snd (s_run wall ws h)).
Proof.
  induction h as [|[t m] h IH]; intros w ws HR HD.
  - split; [reflexivity | exact HR].
  - inversion HD as [|x l Dm Dh]; subst x l. cbn [snd] in Dm.
    pose proof (Rwi_at wall t w ws HR) as HRt.
    pose proof (sim_deliver (kw_at wall t w) (sw_at wall t ws) m HRt Dm) as Hs.
    unfold k_run, s_run in *. cbn [hrun].
    destruct (k_deliver (kw_at wall t w) m) as [[w' r]|e|p], (s_deliver (sw_at wall t ws) m) as [[ws' r']|e'|p'];
      cbn in Hs; try contradiction.
    + destruct Hs as [HR' E]. subst r'.
      destruct (IH w' ws' HR' Dh) as [E1 E2]. cbn [fst snd]. rewrite E1. split; [reflexivity | exact E2].
    + subst e'. destruct (IH _ _ HRt Dh) as [E1 E2]. cbn [fst snd]. rewrite E1. split; [reflexivity | exact E2].
    + subst p'. destruct (IH _ _ HRt Dh) as [E1 E2]. cbn [fst snd]. rewrite E1. split; [reflexivity | exact E2].
Qed.

(* ---- rendering (1): a history of the three kinds, run as a history of the four, is [wrk_run_v] ---- *)
Definition k_step (wall t : Z) (m : kmsg) (w : rworld) : rworld :=
  match k_deliver (kw_at wall t w) m with Ok (w', _) => w' | _ => kw_at wall t w end.

Lemma k_run_cons wall w t m h : snd (k_run wall w ((t, m) :: h)) = snd (k_run wall (k_step wall t m w) h).
Proof.
  unfold k_run, k_step. cbn [hrun]. destruct (k_deliver (kw_at wall t w) m) as [[w' r]|e|p]; reflexivity.
Qed.

Lemma k_step_reg wall t m w g :
  rw_reg (k_step wall t (KReg m) w) = fst (wrk_step_v wall (rw_reg w, g) (t, m)).
Proof.
  unfold k_step, k_deliver, wrk_step_v, kw_at.
  destruct (wrk_validate_basic m) as [[]|e|p]; cbn [obind]; try reflexivity.
  destruct (wrk_msg_exec (mk_rworld (t * NSEC) wall (rw_reg w)) m) as [[w' [id|id k|id n c]]|e|p]; cbn [obind fst]; try reflexivity.
  destruct (aget (id, k) (r_recs (rw_reg w'))); reflexivity.
Qed.

Theorem k_run_lift wall h : forall w g,
  rw_reg (snd (k_run wall w (lift_hist h))) = fst (wrk_run_v wall (rw_reg w, g) h).
Proof.
  induction h as [|[t m] h IH]; intros w g; [reflexivity|].
  cbn [lift_hist map fst snd]. rewrite k_run_cons. fold (lift_hist h).
  unfold wrk_run_v. cbn [fold_left].
  pose proof (k_step_reg wall t m w g) as E.
  destruct (wrk_step_v wall (rw_reg w, g) (t, m)) as [s1 g1] eqn:Es. cbn [fst] in E.
  rewrite (IH (k_step wall t (KReg m) w) g1), E. reflexivity.
Qed.

(* ================================================================== *)
(* part 5: C07 / C08 / C09 on the on-store rendering                    *)
(* ================================================================== *)

Lemma rworld_eta w : w = mk_rworld (rw_now w) (rw_wall w) (rw_reg w).
Proof. destruct w; reflexivity. Qed.

(* the invariant of reachable states (proofs/RegistryProofs.v) gives the two facts the byte store needs *)
Theorem reg_inv_winv s g : reg_inv true s g -> winv s.
Proof.
  intros I. split.
  - intros id h rc Hin.
    pose proof (In_aget_nodup _ _ _ (inv_nd_recs _ _ _ I) Hin) as G.
    pose proof (inv_recs_reg _ _ _ I _ _ _ G) as Hreg.
    destruct (aget id (r_regs s)) as [rg|] eqn:Gr; [|contradiction].
    destruct (inv_regs _ _ _ I _ _ Gr) as [_ Hok].
    destruct (reg_ok_rs_sorted _ _ _ _ _ _ Hok) as [_ Hpos]. rewrite Forall_forall in Hpos. apply Hpos.
    change h with (fst (h, rc)). apply in_map. apply In_recs_of. exact Hin.
  - intros id rg Hin.
    pose proof (In_aget_nodup _ _ _ (inv_nd_regs _ _ _ I) Hin) as G.
    destruct (inv_regs _ _ _ I _ _ G) as [_ Hok].
    rewrite (ok_lowest _ _ _ _ _ _ Hok).
    destruct (recs_of id (r_recs s)) as [|[k rc] rest] eqn:E.
    + cbn. apply u64_spec. unfold two64. lia.
    + cbn [map fst hd]. apply u64_spec_model.
      pose proof (ok_u64 _ _ _ _ _ _ Hok eq_refl) as Hu. rewrite Forall_forall in Hu. apply Hu.
      apply (reg_ok_rs_keys _ _ _ _ _ _ _ Hok). left. reflexivity.
Qed.

Lemma Rwi_of_inv w ws g : Rw w ws -> reg_inv true (rw_reg w) g -> Rwi w ws.
Proof. intros HR I. split; [exact HR | exact (reg_inv_winv _ _ I)]. Qed.

(* the keys of the ghost log are uint64 *)
Lemma log_keys_u64 s g id k rc : reg_inv true s g -> In (k, rc) (log_of g id) -> u64 k.
Proof.
  intros I Hin. destruct (aget id (r_regs s)) as [rg|] eqn:G.
  - destruct (inv_regs _ _ _ I _ _ G) as [_ Hok]. apply u64_spec_model.
    pose proof (ok_u64 _ _ _ _ _ _ Hok eq_refl) as Hu. rewrite Forall_forall in Hu. apply Hu.
    change k with (fst (k, rc)). apply in_map. exact Hin.
  - rewrite (inv_log_reg _ _ _ I _ G) in Hin. destruct Hin.
Qed.

(* a registered id is a uint64 *)
Lemma registered_u64 w ws g id rg : Rw w ws -> reg_inv true (rw_reg w) g -> aget id (r_regs (rw_reg w)) = Some rg -> u64 id.
Proof.
  intros (_ & _ & HR) I G. destruct (inv_regs _ _ _ I _ _ G) as [Hid _].
  pose proof (R_next_range _ _ HR) as Hn. rewrite u64_spec in *. lia.
Qed.

Lemma wrk_hist_ok_kmsg h : wrk_hist_ok h -> Forall (fun tm => kmsg_ok (snd tm)) (lift_hist h).
Proof.
  intros Hh. unfold lift_hist. apply Forall_map. eapply Forall_impl; [|exact Hh].
  intros [t m] (W & _ & _). cbn [snd kmsg_ok]. exact (reg_msg_wf_ok _ W).
Qed.

Lemma wrk_hist_ok_wf h : wrk_hist_ok h -> hist_wf h.
Proof. intros Hh. eapply Forall_impl; [|exact Hh]. intros [t m] (W & Ht & _). cbn [fst snd] in *. split; [exact W | lia]. Qed.

(* histories of the model's three kinds: the on-store run answers every message as rendering (1) does and ends in a world
   representing the MODEL's run [reg_run true], inside the model's invariant *)
Theorem os_run_is_model wall h w ws g B :
  Rw w ws -> reg_inv true (rw_reg w) g -> wrk_bounded B (rw_reg w) -> B + Z.of_nat (List.length h) < two64 ->
  wrk_hist_ok h ->
  fst (s_run wall ws (lift_hist h)) = fst (k_run wall w (lift_hist h)) /\
  exists w', Rwi w' (snd (s_run wall ws (lift_hist h))) /\
             rw_reg w' = fst (reg_run true (rw_reg w, g) h) /\
             reg_inv true (fst (reg_run true (rw_reg w, g) h)) (snd (reg_run true (rw_reg w, g) h)).
Proof.
  intros HR I HB Hlen Hh.
  destruct (sim_run wall (lift_hist h) w ws (Rwi_of_inv _ _ _ HR I) (wrk_hist_ok_kmsg _ Hh)) as [E HR'].
  split; [symmetry; exact E|]. exists (snd (k_run wall w (lift_hist h))). split; [exact HR'|]. split.
  - rewrite (k_run_lift wall h w g). rewrite (gen_wrk_run_v_eq wall h (rw_reg w) g B I HB Hlen Hh). reflexivity.
  - exact (reg_inv_run true h _ _ I (wrk_hist_ok_wf _ Hh)).
Qed.

(* ---- C07, on one state: what the generated GetWrkChainBlock reads from the byte store is what was accepted ---- *)
Theorem os_accepted_record_queryable w ws g id :
  Rw w ws -> reg_inv true (rw_reg w) g -> u64 id ->
  (forall k rc, In (k, rc) (log_of g id) ->
     os_reg_GetRecord ws id k = Ok (rec_to_go rc, true) \/
     (os_reg_GetRecord ws id k = Ok (zero_go_WrkChainBlock, false) /\
      exists e, os_reg_GetEntity ws id = Ok (e, true) /\ 1 <= WrkChain_NumBlocks e /\ k < WrkChain_LowestHeight e)) /\
  (forall k b, u64 k -> os_reg_GetRecord ws id k = Ok (b, true) -> exists rc, In (k, rc) (log_of g id) /\ b = rec_to_go rc).
Proof.
  intros HR I Hi. split.
  - intros k rc Hin. pose proof (log_keys_u64 _ _ _ _ _ I Hin) as Hk.
    rewrite (prim_GetRecord w ws id k HR Hi Hk), reg_GetRecord_eq.
    destruct (inv_log_queryable true _ _ _ _ _ I Hin) as [Q|(Q & _ & rg & G & Hn & Hl)]; unfold q_record in Q; rewrite Q.
    + left. reflexivity.
    + right. split; [reflexivity|]. exists (to_go_entity rg). rewrite (prim_GetEntity w ws id HR Hi).
      unfold reg_GetEntity. rewrite G. split; [reflexivity|]. cbn. split; assumption.
  - intros k b Hk. rewrite (prim_GetRecord w ws id k HR Hi Hk), reg_GetRecord_eq.
    destruct (aget (id, k) (r_recs (rw_reg w))) as [rc|] eqn:Q; [|discriminate].
    intros [= <-]. exists rc. split; [|reflexivity]. exact (inv_query_sound true _ _ _ _ _ I Q).
Qed.

(* ---- C07, along the on-store run: accepted records are append-only and tamper-proof, read from the bytes ---- *)
Theorem os_accepted_record_immutable wall h w ws g B id :
  Rw w ws -> reg_inv true (rw_reg w) g -> wrk_bounded B (rw_reg w) -> B + Z.of_nat (List.length h) < two64 ->
  wrk_hist_ok h -> u64 id ->
  let g' := snd (reg_run true (rw_reg w, g) h) in
  let ws' := snd (s_run wall ws (lift_hist h)) in
  (exists l, log_of g' id = log_of g id ++ l) /\
  (forall k rc, In (k, rc) (log_of g' id) ->
     os_reg_GetRecord ws' id k = Ok (rec_to_go rc, true) \/
     (os_reg_GetRecord ws' id k = Ok (zero_go_WrkChainBlock, false) /\
      exists e, os_reg_GetEntity ws' id = Ok (e, true) /\ 1 <= WrkChain_NumBlocks e /\ k < WrkChain_LowestHeight e)) /\
  (forall k b, u64 k -> os_reg_GetRecord ws' id k = Ok (b, true) -> exists rc, In (k, rc) (log_of g' id) /\ b = rec_to_go rc).
Proof.
  intros HR I HB Hlen Hh Hi. cbv zeta.
  destruct (os_run_is_model wall h w ws g B HR I HB Hlen Hh) as (_ & w' & HR' & Es & I').
  pose proof (C07_accepted_record_immutable_stmt true (rw_reg w) g h id I (wrk_hist_ok_wf _ Hh)) as HC.
  destruct (reg_run true (rw_reg w, g) h) as [s' g'] eqn:ER. cbn [fst snd] in *.
  destruct HC as (Hl & _). split; [exact Hl|].
  rewrite <- Es in I'. exact (os_accepted_record_queryable w' _ g' id (Rwi_Rw _ _ HR') I' Hi).
Qed.

(* ---- C08, on one state: the generated listing of the byte store returns exactly the newest [NumBlocks] accepted
   records, oldest first, at most the stored limit ---- *)
Lemma si_StronglySorted (l : list Z) : strictly_increasing l -> StronglySorted Z.lt l.
Proof.
  induction l as [|x r IH]; intros H; [constructor|].
  assert (Hr : strictly_increasing r) by (destruct r as [|y r']; [exact Logic.I | apply H]).
  constructor; [apply IH; exact Hr|].
  apply Forall_forall. intros y Hy. clear IH. revert x H y Hy. induction r as [|z r' IH']; intros x H y Hy; [destruct Hy|].
  destruct H as [Hxz Hzr]. destruct Hy as [<-|Hy]; [exact Hxz|].
  assert (Hr' : strictly_increasing r') by (destruct r' as [|y' r'']; [exact Logic.I | apply Hzr]).
  specialize (IH' Hr' z Hzr y Hy). lia.
Qed.

Theorem os_retained_is_newest_suffix w ws g id e :
  Rw w ws -> reg_inv true (rw_reg w) g -> u64 id -> os_reg_GetEntity ws id = Ok (e, true) ->
  go_st_GetAllWrkChainBlockHashes (wsw_store ws) id =
    Ok (map (fun kr => rec_to_go (snd kr)) (lastn (Z.to_nat (WrkChain_NumBlocks e)) (log_of g id))) /\
  (exists lim, os_reg_GetStorageLimit ws id = Ok (mk_go_WrkChainStorageLimit id lim, true) /\
               0 <= WrkChain_NumBlocks e <= lim /\ 1 <= lim) /\
  WrkChain_NumBlocks e <= Z.of_nat (List.length (log_of g id)).
Proof.
  intros HR I Hi He. rewrite (prim_GetEntity w ws id HR Hi) in He. unfold reg_GetEntity in He.
  destruct (aget id (r_regs (rw_reg w))) as [rg|] eqn:G; [|discriminate He]. injection He as <-.
  cbn [to_go_entity WrkChain_NumBlocks].
  destruct (C08_newest_suffix true _ _ _ _ I G) as (Hrs & Hn0 & Hnl & Hlen).
  destruct (inv_limit _ _ _ _ _ I G) as (GL & HL1 & _).
  destruct HR as (Hn & Hwall & HRr). split; [|split].
  - destruct (GetAllRecords_refines _ w id HRr Hi) as (EL & _). cbv zeta in EL. rewrite EL. f_equal.
    change (records_of id (r_recs (rw_reg w))) with (recs_of id (r_recs (rw_reg w))).
    rewrite sort_by_key_zsort, zsort_id; [rewrite Hrs; reflexivity|].
    apply keys_sorted_zlt. destruct (inv_regs _ _ _ I _ _ G) as [_ Hok].
    apply si_StronglySorted. exact (proj1 (reg_ok_rs_sorted _ _ _ _ _ _ Hok)).
  - exists (limit_of (rw_reg w) id). split; [|lia].
    unfold os_reg_GetStorageLimit. rewrite (GetStorageLimit_refines _ w HRr id Hi). unfold reg_GetStorageLimit. rewrite GL. reflexivity.
  - exact Hlen.
Qed.

(* ... and along the on-store run *)
Theorem os_retained_is_newest_suffix_run wall h w ws g B id e :
  Rw w ws -> reg_inv true (rw_reg w) g -> wrk_bounded B (rw_reg w) -> B + Z.of_nat (List.length h) < two64 ->
  wrk_hist_ok h -> u64 id ->
  let g' := snd (reg_run true (rw_reg w, g) h) in
  let ws' := snd (s_run wall ws (lift_hist h)) in
  os_reg_GetEntity ws' id = Ok (e, true) ->
  go_st_GetAllWrkChainBlockHashes (wsw_store ws') id =
    Ok (map (fun kr => rec_to_go (snd kr)) (lastn (Z.to_nat (WrkChain_NumBlocks e)) (log_of g' id))) /\
  (exists lim, os_reg_GetStorageLimit ws' id = Ok (mk_go_WrkChainStorageLimit id lim, true) /\
               0 <= WrkChain_NumBlocks e <= lim /\ 1 <= lim) /\
  WrkChain_NumBlocks e <= Z.of_nat (List.length (log_of g' id)).
Proof.
  intros HR I HB Hlen Hh Hi. cbv zeta.
  destruct (os_run_is_model wall h w ws g B HR I HB Hlen Hh) as (_ & w' & HR' & Es & I').
  rewrite <- Es in I'. intros He.
  exact (os_retained_is_newest_suffix w' _ _ id e (Rwi_Rw _ _ HR') I' Hi He).
Qed.

(* C08: the capacity the on-store GetMaxPurchasableSlots reports is the model's *)
Theorem os_capacity w ws id : Rwi w ws -> u64 id ->
  rp_max_limit (r_params (rw_reg w)) < two64 -> (forall l, aget id (r_limits (rw_reg w)) = Some l -> 0 <= l) ->
  S.go_GetMaxPurchasableSlots ws id = Ok (max_purchasable (rw_reg w) id).
Proof.
  intros HR Hi Hm Hl. rewrite (eq_GetMaxPurchasableSlots w ws id HR Hi).
  exact (gen_wrk_GetMaxPurchasableSlots_eq w id Hm Hl).
Qed.

(* ---- C09: a registration through the on-store rendering gets the id the byte store's counter holds, the counter then
   advances by one, and the store holds exactly what the message said under that id ---- *)
Theorem os_register_assigns_next_id w ws n moniker name genesis type (owner : addr) :
  Rwi w ws -> os_reg_GetHighestID ws = Ok n -> n < two64 - 1 -> 0 <= Time_Unix (wsw_now ws) < two64 ->
  exists ws',
    S.go_RegisterNewWrkChain ws moniker name genesis type owner = Ok (ws', n) /\
    os_reg_GetHighestID ws' = Ok (n + 1) /\
    os_reg_GetEntity ws' n = Ok (mk_go_WrkChain n moniker name genesis type 0 0 0 (Time_Unix (wsw_now ws)) owner, true) /\
    (exists d, os_reg_GetParamDefaultStorageLimit ws = Ok d /\
               os_reg_GetStorageLimit ws' n = Ok (mk_go_WrkChainStorageLimit n d, true)) /\
    (forall id, u64 id -> id <> n -> os_reg_GetEntity ws' id = os_reg_GetEntity ws id) /\
    wsw_now ws' = wsw_now ws /\
    exists w', Rwi w' ws'.
Proof.
  intros HR Hn Hlt Ht.
  pose proof (Rwi_Rw _ _ HR) as HR0.
  rewrite (prim_GetHighestID w ws HR0) in Hn. unfold reg_GetHighestID in Hn. injection Hn as Hn.
  pose proof (R_next_range _ _ (Rwi_Rreg _ _ HR)) as Hr. rewrite u64_spec in Hr.
  assert (Enow : rw_now w = wsw_now ws) by apply HR0.
  pose proof (gen_wrk_RegisterNewWrkChain_eq w moniker name genesis type owner
                ltac:(rewrite Enow; exact Ht) ltac:(lia)) as EK. cbv zeta in EK.
  destruct (sim_Ok_inv_l _ _ _ _ (sim_RegisterNewWrkChain w ws moniker name genesis type owner HR) EK) as (ws' & ES & HR').
  rewrite Hn in ES. exists ws'. split; [exact ES|].
  pose proof (Rwi_Rw _ _ HR') as HR0'.
  assert (Hnu : u64 n) by (rewrite u64_spec; lia).
  split; [|split; [|split; [|split; [|split]]]].
  - rewrite (prim_GetHighestID _ ws' HR0'). unfold reg_GetHighestID. cbn [rw_reg with_reg r_next]. rewrite Hn. reflexivity.
  - rewrite (prim_GetEntity _ ws' n HR0' Hnu). unfold reg_GetEntity. cbn [rw_reg with_reg r_regs]. rewrite Hn.
    rewrite aget_aset_eq. cbn. rewrite Enow. reflexivity.
  - exists (rp_default_limit (r_params (rw_reg w))). split; [exact (prim_GetParamDefaultStorageLimit w ws HR0)|].
    rewrite (prim_GetStorageLimit _ ws' n HR0' Hnu). unfold reg_GetStorageLimit. cbn [rw_reg with_reg r_limits]. rewrite Hn.
    rewrite aget_aset_eq. reflexivity.
  - intros id Hid Hne. rewrite (prim_GetEntity _ ws' id HR0' Hid), (prim_GetEntity w ws id HR0 Hid).
    unfold reg_GetEntity. cbn [rw_reg with_reg r_regs]. rewrite aget_aset_neq by congruence. reflexivity.
  - destruct HR0' as (E1 & _). cbn [rw_now with_reg] in E1. congruence.
  - exists (with_reg w
        {| r_params := r_params (rw_reg w); r_next := r_next (rw_reg w) + 1;
           r_regs := aset (r_next (rw_reg w))
                       {| rg_id := r_next (rw_reg w); rg_owner := owner; rg_moniker := moniker; rg_name := name;
                          rg_genesis := genesis; rg_type := type; rg_last := 0; rg_num := 0; rg_lowest := 0;
                          rg_regtime := Time_Unix (rw_now w) |} (r_regs (rw_reg w));
           r_limits := aset (r_next (rw_reg w)) (rp_default_limit (r_params (rw_reg w))) (r_limits (rw_reg w));
           r_recs := r_recs (rw_reg w) |}). exact HR'.
Qed.

(* C09: only the owner the byte store holds for a WRKChain records to it or purchases storage for it *)
Theorem os_owner_only w ws g (o : addr) id e :
  Rw w ws -> reg_inv true (rw_reg w) g -> reg_counters_small (rw_reg w) -> 0 <= wsw_now ws / NSEC < two63 ->
  u64 id -> os_reg_GetEntity ws id = Ok (e, true) -> o <> WrkChain_Owner e ->
  (forall key hashes, u64 key -> List.length hashes = 5%nat ->
     exists c, os_wrk_msg_exec ws (RRecord o id key hashes) = Err c /\
       (os_wrk_validate_basic (RRecord o id key hashes) = Ok tt -> o <> go_zero_addr -> c = ERR_REG_NOT_OWNER)) /\
  (forall n, 0 <= n ->
     exists c, os_wrk_msg_exec ws (RPurchase o id n) = Err c /\
       (os_wrk_validate_basic (RPurchase o id n) = Ok tt -> c = ERR_REG_NOT_OWNER)).
Proof.
  intros HR I HS Ht Hi He Ho. pose proof (Rwi_of_inv _ _ _ HR I) as HRi.
  rewrite (prim_GetEntity w ws id HR Hi) in He. unfold reg_GetEntity in He.
  destruct (aget id (r_regs (rw_reg w))) as [rg|] eqn:G; [|discriminate He]. injection He as <-.
  cbn [to_go_entity WrkChain_Owner] in Ho.
  assert (Enow : rw_now w = wsw_now ws) by apply HR.
  destruct (gen_wrk_non_owner_rejected (rw_now w) (rw_wall w) (rw_reg w) g o id rg I HS
              ltac:(rewrite Enow; exact Ht) G Ho) as [HRc HPc].
  rewrite <- rworld_eta in HRc, HPc. split.
  - intros key hashes Hk Hlen. destruct (HRc key hashes Hlen) as (c & E & Hc). exists c. split.
    + apply (sim_Err_inv _ _ c (sim_msg_exec w ws (RRecord o id key hashes) HRi (conj Hi Hk))). exact E.
    + intros V Hz. apply Hc. rewrite os_wrk_validate_basic_eq in V.
      rewrite <- (gen_wrk_validate_basic_eq_weak (RRecord o id key hashes)); [exact V|].
      cbn [wrk_vb_ok]. split; [exact Hz | lia].
  - intros n Hn. destruct (HPc n Hn) as (c & E & Hc). exists c. split.
    + apply (sim_Err_inv _ _ c (sim_msg_exec w ws (RPurchase o id n) HRi Hi)). exact E.
    + intros V. apply Hc. rewrite os_wrk_validate_basic_eq in V.
      rewrite <- (gen_wrk_validate_basic_eq_weak (RPurchase o id n)); [exact V | exact Logic.I].
Qed.

(* C09: what was accepted at registration is what the generated GetWrkChain reads from the byte store after every later
   history run through the on-store rendering *)
Theorem os_metadata_immutable wall h w ws g B id (o : addr) moniker name genesis type t :
  Rw w ws -> reg_inv true (rw_reg w) g -> wrk_bounded B (rw_reg w) -> B + Z.of_nat (List.length h) < two64 ->
  wrk_hist_ok h ->
  In (id, RRegister o moniker name genesis type, t) (g_reg g) ->
  exists e, os_reg_GetEntity (snd (s_run wall ws (lift_hist h))) id = Ok (e, true) /\
    WrkChain_WrkchainId e = id /\ WrkChain_Owner e = o /\ WrkChain_Moniker e = moniker /\ WrkChain_Name e = name /\
    WrkChain_RegTime e = t /\ WrkChain_Genesis e = genesis /\ WrkChain_Type e = type.
Proof.
  intros HR I HB Hlen Hh Hin.
  destruct (os_run_is_model wall h w ws g B HR I HB Hlen Hh) as (_ & w' & HR' & Es & I').
  pose proof (C09_metadata_immutable_stmt true (rw_reg w) g h id o moniker name genesis type t I (wrk_hist_ok_wf _ Hh) Hin) as HC.
  destruct (reg_run true (rw_reg w, g) h) as [s' g'] eqn:ER. cbn [fst snd] in *.
  destruct HC as (_ & rg & Q & E1 & E2 & E3 & E4 & E5 & E67). destruct (E67 eq_refl) as [E6 E7].
  unfold q_registration in Q. rewrite <- Es in Q, I'.
  pose proof (registered_u64 w' _ g' id rg (Rwi_Rw _ _ HR') I' Q) as Hi.
  exists (to_go_entity rg). rewrite (prim_GetEntity w' _ id (Rwi_Rw _ _ HR') Hi). unfold reg_GetEntity. rewrite Q.
  split; [reflexivity|]. cbn. repeat split; assumption.
Qed.

(* ================================================================== *)
(* summaries (for props/C09onstorewrkchain.v)                           *)
(* ================================================================== *)

Lemma Rw_spelled w ws :
  Rw w ws <-> (rw_now w = wsw_now ws /\ rw_wall w = wsw_wall ws /\ Rreg (wsw_store ws) (rw_reg w)).
Proof. reflexivity. Qed.

Lemma Rwi_spelled w ws :
  Rwi w ws <->
  (Rw w ws /\
   (forall id h rc, In ((id, h), rc) (r_recs (rw_reg w)) -> 1 <= h) /\
   (forall id rg, In (id, rg) (r_regs (rw_reg w)) -> 0 <= rg_lowest rg < 2 ^ 64)).
Proof. reflexivity. Qed.

Lemma sim_spelled {R} (a : outcome (rworld * R)) (c : outcome (wsworld * R)) :
  sim a c <->
  match a, c with
  | Ok (w, x), Ok (ws, y) => Rwi w ws /\ x = y
  | Err e, Err e' => e = e'
  | Panic p, Panic p' => p = p'
  | _, _ => False
  end.
Proof. reflexivity. Qed.

Lemma sim0_spelled {R} (a : outcome (rworld * R)) (c : outcome (wsworld * R)) :
  sim0 a c <->
  match a, c with
  | Ok (w, x), Ok (ws, y) => Rw w ws /\ x = y
  | Err e, Err e' => e = e'
  | Panic p, Panic p' => p = p'
  | _, _ => False
  end.
Proof. reflexivity. Qed.

Lemma sims_spelled (R : Type) (a : outcome (rworld * R)) (c : outcome (wsworld * R)) :
  (sim a c <->
   match a, c with
   | Ok (w, x), Ok (ws, y) => Rwi w ws /\ x = y
   | Err e, Err e' => e = e'
   | Panic p, Panic p' => p = p'
   | _, _ => False
   end) /\
  (sim0 a c <->
   match a, c with
   | Ok (w, x), Ok (ws, y) => Rw w ws /\ x = y
   | Err e, Err e' => e = e'
   | Panic p, Panic p' => p = p'
   | _, _ => False
   end).
Proof. exact (conj (sim_spelled a c) (sim0_spelled a c)). Qed.

Theorem sim_deliver_spelled w ws m : Rwi w ws ->
  match m with
  | KReg (RRegister _ _ _ _ _) => True
  | KReg (RRecord _ id key _) => u64 id /\ u64 key
  | KReg (RPurchase _ id _) => u64 id
  | KUpdateParams req => wrk_params_nonneg (MsgUpdateParams_Params req) /\ denom_ok (MsgUpdateParams_Params req)
  end ->
  sim (k_deliver w m) (s_deliver ws m).
Proof.
  intros HR H. apply sim_deliver; [exact HR|].
  destruct m as [[o moniker name genesis type | o id key hashes | o id n]|req]; exact H.
Qed.

(* every adapter of model/WrkchainStoreWorld.v against its primitive, on Rw alone *)
Theorem sim_primitives w ws : Rw w ws ->
  os_rw_now ws = rw_now w /\ os_rw_wall ws = rw_wall w /\
  os_reg_GetHighestID ws = reg_GetHighestID w /\
  os_reg_GetParamMaxStorageLimit ws = Ok (reg_GetParamMaxStorageLimit w) /\
  os_reg_GetParamDefaultStorageLimit ws = Ok (reg_GetParamDefaultStorageLimit w) /\
  os_reg_GetParams ws = Ok (reg_GetParams w) /\
  (forall id, u64 id -> os_reg_GetEntity ws id = Ok (reg_GetEntity w id)) /\
  (forall id, u64 id -> os_reg_IsRegistered ws id = Ok (reg_IsRegistered w id)) /\
  (forall id a, u64 id -> os_reg_IsAuthorisedToRecord ws id a = Ok (reg_IsAuthorisedToRecord w id a)) /\
  (forall id, u64 id -> os_reg_GetStorageLimit ws id = Ok (reg_GetStorageLimit w id)) /\
  (forall id h, u64 id -> u64 h -> os_reg_GetRecord ws id h = Ok (reg_GetRecord w id h)) /\
  (forall id, u64 id -> (forall h rc, In ((id, h), rc) (r_recs (rw_reg w)) -> 1 <= h) ->
     os_reg_LowestKeyInState ws id = Ok (reg_LowestKeyInState w id)) /\
  (forall v, u64 v -> sim0 (reg_SetHighestID w v) (os_reg_SetHighestID ws v)) /\
  (forall g, u64 (WrkChain_WrkchainId g) -> sim0 (reg_SetEntity w g) (os_reg_SetEntity ws g)) /\
  (forall id l, u64 id -> sim0 (reg_SetStorageLimit w id l) (os_reg_SetStorageLimit ws id l)) /\
  (forall id b, u64 id -> u64 (WrkChainBlock_Height b) -> sim0 (reg_SetRecord w id b) (os_reg_SetRecord ws id b)) /\
  (forall id t, u64 id -> u64 t -> sim0 (reg_DeleteRecord w id t) (os_reg_DeleteRecord ws id t)) /\
  (forall p, wrk_params_nonneg p -> denom_ok p -> sim0 (reg_SetParams w p) (os_reg_SetParams ws p)).
Proof.
  intros HR.
  split; [exact (prim_now w ws HR)|]. split; [exact (prim_wall w ws HR)|].
  split; [exact (prim_GetHighestID w ws HR)|]. split; [exact (prim_GetParamMaxStorageLimit w ws HR)|].
  split; [exact (prim_GetParamDefaultStorageLimit w ws HR)|]. split; [exact (prim_GetParams w ws HR)|].
  split; [intros; apply prim_GetEntity; assumption|]. split; [intros; apply prim_IsRegistered; assumption|].
  split; [intros; apply prim_IsAuthorisedToRecord; assumption|]. split; [intros; apply prim_GetStorageLimit; assumption|].
  split; [intros; apply prim_GetRecord; assumption|]. split; [intros; apply prim_LowestKeyInState; assumption|].
  split; [intros; apply prim_SetHighestID_0; assumption|]. split; [intros; apply prim_SetEntity_0; assumption|].
  split; [intros; apply prim_SetStorageLimit_0; assumption|]. split; [intros; apply prim_SetRecord_0; assumption|].
  split; [intros; apply prim_DeleteRecord_0; assumption | intros; apply prim_SetParams_0; assumption].
Qed.

(* ... and with the invariant carried along: the writers on Rwi *)
Theorem sim_primitives_inv w ws : Rwi w ws ->
  (forall id, u64 id -> os_reg_LowestKeyInState ws id = Ok (reg_LowestKeyInState w id)) /\
  (forall id, u64 (reg_LowestKeyInState w id)) /\
  (forall id, u64 (WrkChain_WrkchainId (fst (reg_GetEntity w id))) /\ u64 (WrkChain_LowestHeight (fst (reg_GetEntity w id)))) /\
  (forall v, u64 v -> sim (reg_SetHighestID w v) (os_reg_SetHighestID ws v)) /\
  (forall g, u64 (WrkChain_WrkchainId g) -> u64 (WrkChain_LowestHeight g) -> sim (reg_SetEntity w g) (os_reg_SetEntity ws g)) /\
  (forall id l, u64 id -> sim (reg_SetStorageLimit w id l) (os_reg_SetStorageLimit ws id l)) /\
  (forall id b, u64 id -> u64 (WrkChainBlock_Height b) -> 1 <= WrkChainBlock_Height b ->
     sim (reg_SetRecord w id b) (os_reg_SetRecord ws id b)) /\
  (forall id t, u64 id -> u64 t -> sim (reg_DeleteRecord w id t) (os_reg_DeleteRecord ws id t)) /\
  (forall p, wrk_params_nonneg p -> denom_ok p -> sim (reg_SetParams w p) (os_reg_SetParams ws p)).
Proof.
  intros HR.
  split; [intros; apply prim_LowestKeyInState_i; assumption|].
  split; [intros; exact (lowest_u64 w ws id (Rwi_Rw _ _ HR))|].
  split; [intros; split; [exact (entity_id_u64 w ws id (Rwi_Rw _ _ HR)) | exact (entity_lowest_u64 w ws id HR)]|].
  split; [intros; apply prim_SetHighestID; assumption|]. split; [intros; apply prim_SetEntity; assumption|].
  split; [intros; apply prim_SetStorageLimit; assumption|]. split; [intros; apply prim_SetRecord; assumption|].
  split; [intros; apply prim_DeleteRecord; assumption | intros; apply prim_SetParams; assumption].
Qed.

Theorem sim_keeper w ws : Rwi w ws ->
  (forall id height, u64 id -> S.go_QuickCheckHeightIsNew ws id height = K.go_QuickCheckHeightIsNew w id height) /\
  (forall id, u64 id -> S.go_GetMaxPurchasableSlots ws id = K.go_GetMaxPurchasableSlots w id) /\
  (forall id amount, u64 id -> sim (K.go_IncreaseInStateStorage w id amount) (S.go_IncreaseInStateStorage ws id amount)) /\
  (forall moniker name genesis type owner,
     sim (K.go_RegisterNewWrkChain w moniker name genesis type owner)
         (S.go_RegisterNewWrkChain ws moniker name genesis type owner)) /\
  (forall id height h0 h1 h2 h3 h4, u64 id -> u64 height -> 1 <= height ->
     sim (K.go_RecordNewWrkchainHashes w id height h0 h1 h2 h3 h4) (S.go_RecordNewWrkchainHashes ws id height h0 h1 h2 h3 h4)).
Proof.
  intros HR.
  split; [intros; apply eq_QuickCheckHeightIsNew; assumption|].
  split; [intros; apply eq_GetMaxPurchasableSlots; assumption|].
  split; [intros; apply sim_IncreaseInStateStorage; assumption|].
  split; [intros; apply sim_RegisterNewWrkChain; assumption | intros; apply sim_RecordNewWrkchainHashes; assumption].
Qed.

Theorem sim_msg_server w ws : Rwi w ws ->
  (forall msg, sim (K.go_RegisterWrkChain w msg) (S.go_RegisterWrkChain ws msg)) /\
  (forall msg, u64 (MsgRecordWrkChainBlock_WrkchainId msg) -> u64 (MsgRecordWrkChainBlock_Height msg) ->
     sim (K.go_RecordWrkChainBlock w msg) (S.go_RecordWrkChainBlock ws msg)) /\
  (forall msg, u64 (MsgPurchaseWrkChainStateStorage_WrkchainId msg) ->
     sim (K.go_PurchaseWrkChainStateStorage w msg) (S.go_PurchaseWrkChainStateStorage ws msg)) /\
  (forall req, wrk_params_nonneg (MsgUpdateParams_Params req) -> denom_ok (MsgUpdateParams_Params req) ->
     sim (K.go_UpdateParams w req) (S.go_UpdateParams ws req)).
Proof.
  intros HR.
  split; [intros; apply sim_RegisterWrkChain; assumption|]. split; [intros; apply sim_RecordWrkChainBlock; assumption|].
  split; [intros; apply sim_PurchaseWrkChainStateStorage; assumption | intros; apply sim_UpdateParams; assumption].
Qed.

(* the pure functions of the two files are the same functions *)
Theorem pure_functions_agree :
  (forall i, S.go_validateFeeDenom i = K.go_validateFeeDenom i) /\
  (forall i, S.go_validateFeeRegister i = K.go_validateFeeRegister i) /\
  (forall i, S.go_validateFeeRecord i = K.go_validateFeeRecord i) /\
  (forall i, S.go_validateFeePurchaseStorage i = K.go_validateFeePurchaseStorage i) /\
  (forall i, S.go_validateDefaultStorageLimit i = K.go_validateDefaultStorageLimit i) /\
  (forall i, S.go_validateMaxStorageLimit i = K.go_validateMaxStorageLimit i) /\
  (forall p, S.go_Params_Validate p = K.go_Params_Validate p) /\
  (forall m, S.go_MsgRegisterWrkChain_ValidateBasic m = K.go_MsgRegisterWrkChain_ValidateBasic m) /\
  (forall m, S.go_MsgRecordWrkChainBlock_ValidateBasic m = K.go_MsgRecordWrkChainBlock_ValidateBasic m) /\
  (forall m, S.go_MsgPurchaseWrkChainStateStorage_ValidateBasic m = K.go_MsgPurchaseWrkChainStateStorage_ValidateBasic m) /\
  (forall m, os_wrk_validate_basic m = wrk_validate_basic m).
Proof. repeat split. Qed.

(* the history theorem with the side condition on messages spelled out *)
Theorem sim_run_spelled wall h w ws : Rwi w ws ->
  Forall (fun tm => match snd tm with
                    | KReg (RRegister _ _ _ _ _) => True
                    | KReg (RRecord _ id key _) => 0 <= id < 2 ^ 64 /\ 0 <= key < 2 ^ 64
                    | KReg (RPurchase _ id _) => 0 <= id < 2 ^ 64
                    | KUpdateParams req =>
                        wrk_params_nonneg (MsgUpdateParams_Params req) /\
                        (0 <= Params_Denom (MsgUpdateParams_Params req) \/ Params_Denom (MsgUpdateParams_Params req) = go_zero_denom)
                    end) h ->
  fst (k_run wall w h) = fst (s_run wall ws h) /\ Rwi (snd (k_run wall w h)) (snd (s_run wall ws h)).
Proof.
  intros HR HD. apply sim_run; [exact HR|]. eapply Forall_impl; [|exact HD].
  intros [t [[o moniker name genesis type | o id key hashes | o id n]|req]] H; exact H.
Qed.

(* ================================================================== *)
(* part 6: a concrete run                                               *)
(* ================================================================== *)
Local Open Scope string_scope.

(* genesis of proofs/GeneratedWrkchainEq.v: first id 1, default limit 2, maximum 10, fees 1, denomination 0 - on the byte
   store: the Params cell and the HighestWrkChainID cell, nothing else *)
Definition os_ex_params : go_Params := params_to_go GeneratedWrkchainEq.ex_params.
Definition os_ex_store0 : okv wrkchain_val := [(kparams, WV_Params os_ex_params); (khighest, WV_bytes (be64 1))].
Definition os_ex_sw0 : wsworld := mk_wsworld 0 0 os_ex_store0.
Definition os_ex_kw0 : rworld := mk_rworld 0 0 (reg_init GeneratedWrkchainEq.ex_params 1).

(* the store is the one InitGenesis builds: SetParams, then SetHighestWrkChainID *)
Example os_ex_store0_init :
  (do x <- go_st_SetParams [] os_ex_params; go_st_SetHighestWrkChainID (fst x) 1) = Ok (os_ex_store0, tt).
Proof. vm_compute. reflexivity. Qed.

Lemma os_ex_Rw0 : Rw os_ex_kw0 os_ex_sw0.
Proof.
  unfold Rw, os_ex_kw0, os_ex_sw0. cbn [rw_now rw_wall rw_reg wsw_now wsw_wall wsw_store].
  split; [reflexivity | split; [reflexivity|]].
  exact (init_refines os_ex_params 1 [(kparams, WV_Params os_ex_params)] os_ex_store0 eq_refl eq_refl
           ltac:(unfold u64; lia)).
Qed.

Lemma os_ex_inv0 : reg_inv true (rw_reg os_ex_kw0) ghost_init.
Proof. apply reg_inv_init; [reflexivity | lia]. Qed.

Lemma os_ex_Rwi0 : Rwi os_ex_kw0 os_ex_sw0.
Proof. exact (Rwi_of_inv _ _ _ os_ex_Rw0 os_ex_inv0). Qed.

Example os_ex_initial :
  (do x <- go_st_SetParams [] os_ex_params; go_st_SetHighestWrkChainID (fst x) 1) = Ok (os_ex_store0, tt) /\
  os_ex_sw0 = mk_wsworld 0 0 os_ex_store0 /\ os_ex_kw0 = mk_rworld 0 0 (reg_init GeneratedWrkchainEq.ex_params 1) /\
  Rwi os_ex_kw0 os_ex_sw0.
Proof. exact (conj os_ex_store0_init (conj eq_refl (conj eq_refl os_ex_Rwi0))). Qed.

Lemma os_ex_bounded0 : wrk_bounded 1 (rw_reg os_ex_kw0).
Proof.
  unfold wrk_bounded, os_ex_kw0, reg_init. cbn. unfold two64.
  split; [lia|]. split; [lia|]. split; [lia|]. split; intros ? ? G; discriminate G.
Qed.

(* the new parameters of the governance update: fees 2, default limit 3, maximum 20 *)
Definition os_ex_params2 : go_Params := mk_go_Params 2 2 2 0 3 20.

(* owner 7 registers (id 1) and records heights 10, 20, 30 - the third prunes height 10 (limit 2); a stranger's record and
   a height that is not above the last one are refused; the owner buys 3 slots (limit 5), 6 more would exceed the maximum;
   an UpdateParams by account 7 is refused (not the authority), one by the authority is stored; account 9 registers (id 2)
   under the new default limit 3; height 40 is recorded without pruning *)
Definition os_ex_khist : list (Z * kmsg) :=
  [ (1700000000, KReg (RRegister 7 "m" "n" "0xabc" "geth"));
    (1700000010, KReg (RRecord 7 1 10 (ex_hashes "a")));
    (1700000020, KReg (RRecord 7 1 20 (ex_hashes "b")));
    (1700000030, KReg (RRecord 7 1 30 (ex_hashes "c")));
    (1700000040, KReg (RRecord 8 1 40 (ex_hashes "d")));
    (1700000050, KReg (RRecord 7 1 25 (ex_hashes "e")));
    (1700000060, KReg (RPurchase 7 1 3));
    (1700000070, KReg (RPurchase 7 1 6));
    (1700000080, KUpdateParams (mk_go_MsgUpdateParams 7 os_ex_params2));
    (1700000090, KUpdateParams (mk_go_MsgUpdateParams GOV_MACC os_ex_params2));
    (1700000100, KReg (RRegister 9 "x" "y" "0xdef" "cosmos"));
    (1700000110, KReg (RRecord 7 1 40 (ex_hashes "f"))) ].

Lemma os_ex_khist_ok : Forall (fun tm => kmsg_ok (snd tm)) os_ex_khist.
Proof.
  unfold os_ex_khist. repeat constructor; cbn; unfold u64, wrk_params_nonneg, denom_ok; cbn; try lia.
Qed.

Definition os_ex_block (h : Z) (b : string) (t : Z) : go_WrkChainBlock := mk_go_WrkChainBlock h b "p" "1" "2" "3" t.

(* the on-store rendering runs: the results of the twelve messages; the final byte store holds nine cells (two WRKChains
   under 9-byte keys, three blocks under 17-byte keys, two limits under 9-byte keys, the counter and the parameters under
   1-byte keys); what the generated accessors read back from it *)
Example os_ex_onstore_run :
  let ws := snd (s_run 0 os_ex_sw0 os_ex_khist) in
  fst (s_run 0 os_ex_sw0 os_ex_khist) =
    [ Ok (KRReg (RespRegistered 1)); Ok (KRReg (RespRecorded 1 10)); Ok (KRReg (RespRecorded 1 20));
      Ok (KRReg (RespRecorded 1 30)); Err ERR_REG_NOT_OWNER; Err ERR_REG_HEIGHT; Ok (KRReg (RespPurchased 1 3 5));
      Err ERR_REG_MAX; Err 42; Ok KRParams; Ok (KRReg (RespRegistered 2)); Ok (KRReg (RespRecorded 1 40)) ] /\
  map (fun kv => List.length (fst kv)) (wsw_store ws) = [9; 9; 17; 17; 17; 9; 9; 1; 1]%nat /\
  os_reg_GetEntity ws 1 = Ok (mk_go_WrkChain 1 "m" "n" "0xabc" "geth" 40 3 20 1700000000 7, true) /\
  os_reg_GetEntity ws 2 = Ok (mk_go_WrkChain 2 "x" "y" "0xdef" "cosmos" 0 0 0 1700000100 9, true) /\
  go_st_GetAllWrkChainBlockHashes (wsw_store ws) 1 =
    Ok [os_ex_block 20 "b" 1700000020; os_ex_block 30 "c" 1700000030; os_ex_block 40 "f" 1700000110] /\
  os_reg_GetRecord ws 1 10 = Ok (zero_go_WrkChainBlock, false) /\
  os_reg_GetStorageLimit ws 1 = Ok (mk_go_WrkChainStorageLimit 1 5, true) /\
  os_reg_GetStorageLimit ws 2 = Ok (mk_go_WrkChainStorageLimit 2 3, true) /\
  os_reg_GetHighestID ws = Ok 3 /\ os_reg_GetParams ws = Ok os_ex_params2 /\
  S.go_GetMaxPurchasableSlots ws 1 = Ok 15.
Proof. vm_compute. repeat split; reflexivity. Qed.

(* ... and it is related to the run of rendering (1): by the theorem, and by computation *)
Example os_ex_onstore_related :
  fst (k_run 0 os_ex_kw0 os_ex_khist) = fst (s_run 0 os_ex_sw0 os_ex_khist) /\
  Rwi (snd (k_run 0 os_ex_kw0 os_ex_khist)) (snd (s_run 0 os_ex_sw0 os_ex_khist)).
Proof. exact (sim_run 0 os_ex_khist os_ex_kw0 os_ex_sw0 os_ex_Rwi0 os_ex_khist_ok). Qed.

Example os_ex_onstore_traces_computed : fst (k_run 0 os_ex_kw0 os_ex_khist) = fst (s_run 0 os_ex_sw0 os_ex_khist).
Proof. vm_compute. reflexivity. Qed.

(* the history of proofs/GeneratedWrkchainEq.v (register; record 10, 20, 30) through the on-store rendering: by the
   transported C07 / C08, not by computation, the byte store ends up holding exactly the newest two of the three accepted
   records, and the pruned one is gone *)
Lemma os_ex_history_ok : wrk_hist_ok ex_history.
Proof.
  unfold wrk_hist_ok, ex_history. repeat constructor; cbn; unfold RegistrySpec.u64, two64, two63; try lia;
    intros o id key hashes [= <- <- <- <-]; reflexivity.
Qed.

Example os_ex_onstore_model :
  let ws := snd (s_run 0 os_ex_sw0 (lift_hist ex_history)) in
  let g := snd (reg_run true (reg_init GeneratedWrkchainEq.ex_params 1, ghost_init) ex_history) in
  map fst (log_of g 1) = [10; 20; 30] /\
  (forall k rc, In (k, rc) (log_of g 1) ->
     os_reg_GetRecord ws 1 k = Ok (rec_to_go rc, true) \/
     (os_reg_GetRecord ws 1 k = Ok (zero_go_WrkChainBlock, false) /\
      exists e, os_reg_GetEntity ws 1 = Ok (e, true) /\ 1 <= WrkChain_NumBlocks e /\ k < WrkChain_LowestHeight e)) /\
  (forall e, os_reg_GetEntity ws 1 = Ok (e, true) ->
     go_st_GetAllWrkChainBlockHashes (wsw_store ws) 1 =
       Ok (map (fun kr => rec_to_go (snd kr)) (lastn (Z.to_nat (WrkChain_NumBlocks e)) (log_of g 1)))) /\
  go_st_GetAllWrkChainBlockHashes (wsw_store ws) 1 = Ok [os_ex_block 20 "b" 1700000020; os_ex_block 30 "c" 1700000030].
Proof.
  cbv zeta. split; [vm_compute; reflexivity|].
  assert (Hlen : 1 + Z.of_nat (List.length ex_history) < two64) by (cbn; unfold two64; lia).
  assert (H1 : u64 1) by (unfold u64; lia).
  pose proof (os_accepted_record_immutable 0 ex_history os_ex_kw0 os_ex_sw0 ghost_init 1 1
                os_ex_Rw0 os_ex_inv0 os_ex_bounded0 Hlen os_ex_history_ok H1) as HC. cbv zeta in HC.
  split; [exact (proj1 (proj2 HC))|]. split.
  - intros e He.
    exact (proj1 (os_retained_is_newest_suffix_run 0 ex_history os_ex_kw0 os_ex_sw0 ghost_init 1 1 e
                    os_ex_Rw0 os_ex_inv0 os_ex_bounded0 Hlen os_ex_history_ok H1 He)).
  - vm_compute. reflexivity.
Qed.


(* ---- the second half of [winv] is needed ---- *)
(* a WRKChain (id 1) whose stored LowestHeight is 2^64 + 5 - not a uint64, which Rreg tolerates: the WrkChain value is
   stored as it is -, limit 1, one record at height 5.  Recording height 9 exceeds the limit: the primitive deletes the
   record at "height 2^64 + 5" (there is none) while the byte store deletes the key of height 5 (the big-endian
   encoding wraps).  The two results are no longer related. *)
Definition lw_wc : go_WrkChain := mk_go_WrkChain 1 "" "" "" "" 5 1 (2 ^ 64 + 5) 0 7.
Definition lw_ops : list sop := [OSetEntity lw_wc; OSetLimit 1 1; OSetRecord 1 (ex_block 5)].
Definition lw_s : okv wrkchain_val := ok_or [] (crun os_ex_store0 lw_ops).
Definition lw_w : rworld := ok_or os_ex_kw0 (arun os_ex_kw0 lw_ops).

Example winv_lowest_needed_refuted :
  let ws := mk_wsworld 0 0 lw_s in
  Rw lw_w ws /\ (forall id h rc, In ((id, h), rc) (r_recs (rw_reg lw_w)) -> 1 <= h) /\
  reg_GetEntity lw_w 1 = (lw_wc, true) /\
  exists w' ws',
    K.go_RecordNewWrkchainHashes lw_w 1 9 "b" "p" "1" "2" "3" = Ok (w', 2 ^ 64 + 5) /\
    S.go_RecordNewWrkchainHashes ws 1 9 "b" "p" "1" "2" "3" = Ok (ws', 2 ^ 64 + 5) /\
    reg_GetRecord w' 1 5 = (ex_block 5, true) /\
    os_reg_GetRecord ws' 1 5 = Ok (zero_go_WrkChainBlock, false) /\
    WrkChain_LowestHeight (fst (reg_GetEntity w' 1)) = 5 /\
    (exists e, os_reg_GetEntity ws' 1 = Ok (e, true) /\ WrkChain_LowestHeight e = 9) /\
    ~ Rw w' ws'.
Proof.
  cbv zeta.
  assert (HR : Rw lw_w (mk_wsworld 0 0 lw_s)).
  { split; [reflexivity | split; [reflexivity|]]. cbn [wsw_store].
    assert (Hok : Forall op_ok lw_ops).
    { unfold lw_ops. repeat constructor; cbn; unfold u64; lia. }
    pose proof (run_sim lw_ops os_ex_store0 os_ex_kw0 (proj2 (proj2 os_ex_Rw0)) Hok) as H.
    assert (Ea : arun os_ex_kw0 lw_ops = Ok lw_w) by (vm_compute; reflexivity).
    assert (Ec : crun os_ex_store0 lw_ops = Ok lw_s) by (vm_compute; reflexivity).
    rewrite Ea, Ec in H. exact H. }
  split; [exact HR|]. split.
  { intros id h rc Hin. vm_compute in Hin. destruct Hin as [E|[]]. injection E as _ <- _. lia. }
  split; [vm_compute; reflexivity|].
  eexists. eexists. split; [vm_compute; reflexivity|]. split; [vm_compute; reflexivity|].
  split; [vm_compute; reflexivity|]. split; [vm_compute; reflexivity|]. split; [vm_compute; reflexivity|].
  split; [eexists; split; vm_compute; reflexivity|].
  intros HR'. pose proof (prim_GetRecord _ _ 1 5 HR' ltac:(unfold u64; lia) ltac:(unfold u64; lia)) as E.
  vm_compute in E. discriminate E.
Qed.

Print Assumptions sim_primitives.
Print Assumptions sim_primitives_inv.
Print Assumptions prim_IsAuthorisedToRecord.
Print Assumptions eq_QuickCheckHeightIsNew.
Print Assumptions eq_GetMaxPurchasableSlots.
Print Assumptions sim_IncreaseInStateStorage.
Print Assumptions sim_RegisterNewWrkChain.
Print Assumptions sim_RecordNewWrkchainHashes.
Print Assumptions sim_RegisterWrkChain.
Print Assumptions sim_RecordWrkChainBlock.
Print Assumptions sim_PurchaseWrkChainStateStorage.
Print Assumptions sim_UpdateParams.
Print Assumptions sim_keeper.
Print Assumptions sim_msg_server.
Print Assumptions pure_functions_agree.
Print Assumptions sim_msg_exec.
Print Assumptions sim_deliver.
Print Assumptions sim_deliver_spelled.
Print Assumptions sim_run.
Print Assumptions sim_run_spelled.
Print Assumptions k_run_lift.
Print Assumptions reg_inv_winv.
Print Assumptions os_run_is_model.
Print Assumptions os_accepted_record_queryable.
Print Assumptions os_accepted_record_immutable.
Print Assumptions os_retained_is_newest_suffix.
Print Assumptions os_retained_is_newest_suffix_run.
Print Assumptions os_capacity.
Print Assumptions os_register_assigns_next_id.
Print Assumptions os_owner_only.
Print Assumptions os_metadata_immutable.
Print Assumptions os_ex_initial.
Print Assumptions os_ex_onstore_run.
Print Assumptions os_ex_onstore_related.
Print Assumptions os_ex_onstore_model.
Print Assumptions winv_lowest_needed_refuted.
