(* A concrete scenario for the Examples of props/C03.v and props/C04.v:
   three signers (1,2,3), MinAccepts 2, DecisionTimeLimit 100 s, whitelisted purchaser 7 who
   already owns 50 nund; genesis at t = 1000. *)
From MC Require Import lib.Prelude lib.AMap model.Bank model.Enterprise model.EnterpriseSpec
  proofs.EnterpriseProofs.
Local Open Scope Z_scope.

Definition ex_params : ent_params :=
  {| ep_denom := NUND; ep_min_accepts := 2; ep_time_limit := 100; ep_signers := [1; 2; 3] |}.
Definition ex_bank : bank := {| bal := [((7, NUND), 50)]; supply := [(NUND, 50)] |}.
Definition ex_genesis : ent_world :=
  {| w_bank := ex_bank; w_ent := ent_genesis ex_params 1 [7]; w_now := 1000 |}.

(* order 1: raised, accepted by 1 and 2, tallied at 1010, completed at 1020, then a fee of 300 *)
Definition ex_hist_accept : list ent_op :=
  [OMsg (ERaise 7 NUND 1000); OMsg (EDecide 1 1 ST_ACCEPTED); OMsg (EDecide 2 1 ST_ACCEPTED);
   OBegin 1010; OBegin 1020; OUnlock 7 [(NUND, 300)]].
(* then order 2: raised, rejected by 2 and 3 (more than 3 - 2 rejections), tallied at 1030 *)
Definition ex_hist_reject : list ent_op :=
  ex_hist_accept ++
  [OMsg (ERaise 7 NUND 500); OMsg (EDecide 2 2 ST_REJECTED); OMsg (EDecide 3 2 ST_REJECTED); OBegin 1030].
(* then order 3: raised at 1030, one accept only, still raised at 1129, auto-rejected at 1130 *)
Definition ex_hist_stale : list ent_op :=
  ex_hist_reject ++ [OMsg (ERaise 7 NUND 200); OMsg (EDecide 1 3 ST_ACCEPTED); OBegin 1129; OBegin 1130].
(* a non-whitelisted raiser, an unauthorised decider, a signer deciding twice: all refused *)
Definition ex_hist_refused : list ent_op :=
  [OMsg (ERaise 8 NUND 1000); OMsg (ERaise 7 NUND 1000); OMsg (EDecide 9 1 ST_ACCEPTED);
   OMsg (EDecide 1 1 ST_ACCEPTED); OMsg (EDecide 1 1 ST_ACCEPTED); OBegin 1010].

(* (status of order id, locked[a], spent[a], total locked, total spent, escrow balance,
    a's liquid balance, bank supply) *)
Definition ex_obs (id a : Z) (w : ent_world) :=
  (status_of (w_ent w) id, amount_coin (w_ent w) a (e_locked (w_ent w)),
   amount_coin (w_ent w) a (e_spent (w_ent w)),
   snd (total_locked (w_ent w)), snd (total_spent (w_ent w)),
   balance (w_bank w) ENT_MACC NUND, balance (w_bank w) a NUND, supply_of (w_bank w) NUND).

Ltac op_wf :=
  cbn [ent_op_wf ent_signer w_now]; unfold two63, two64;
  repeat split; try lia; repeat constructor; cbn [snd fst map In]; try lia; try tauto.

Ltac hist_wf :=
  lazymatch goal with
  | |- True => exact I
  | |- ent_hist_wf _ [] => exact I
  | |- ent_hist_wf ?w (?o :: ?r) =>
      let st := eval vm_compute in (ent_step w o) in
      change (ent_op_wf w o /\ match ent_step w o with Some w' => ent_hist_wf w' r | None => True end);
      split; [ op_wf | replace (ent_step w o) with st by (vm_compute; reflexivity); cbv iota beta; hist_wf ]
  end.

Lemma ex_genesis_inv : ent_inv ex_genesis.
Proof.
  apply ent_inv_genesis; try reflexivity; unfold two63; lia.
Qed.

Lemma ex_genesis_nonneg : bank_nonneg (w_bank ex_genesis).
Proof.
  intros a d. unfold ex_genesis, ex_bank, balance; cbn.
  destruct ((a =? 7) && (d =? NUND)); lia.
Qed.

Lemma ex_hist_stale_wf : ent_hist_wf ex_genesis ex_hist_stale.
Proof.
  unfold ex_genesis.
  let h := eval vm_compute in ex_hist_stale in change ex_hist_stale with h.
  hist_wf.
Qed.

Lemma ex_hist_refused_wf : ent_hist_wf ex_genesis ex_hist_refused.
Proof. unfold ex_genesis, ex_hist_refused. hist_wf. Qed.

(* why C03_begin_block_never_panics asks for non-negative balances: the model's bank is a bare
   table of integers; with a (physically impossible) balance of -1 the delegation back to the
   module account fails and ProcessAcceptedPurchaseOrders panics *)
Definition ex_genesis_neg : ent_world :=
  {| w_bank := {| bal := [((7, NUND), -1)]; supply := [] |};
     w_ent := ent_genesis ex_params 1 [7]; w_now := 1000 |}.

Lemma ex_genesis_neg_inv : ent_inv ex_genesis_neg.
Proof. apply ent_inv_genesis; try reflexivity; unfold two63; lia. Qed.

Lemma ex_neg_wf : ent_hist_wf ex_genesis_neg (firstn 5 ex_hist_accept).
Proof.
  unfold ex_genesis_neg.
  let h := eval vm_compute in (firstn 5 ex_hist_accept) in change (firstn 5 ex_hist_accept) with h.
  hist_wf.
Qed.
