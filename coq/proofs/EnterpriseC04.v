(* Lemmas behind props/C04.v (locked eFUND books always balance). *)
From MC Require Import lib.Prelude lib.AMap model.Bank model.Enterprise model.EnterpriseSpec
  proofs.EnterpriseProofs proofs.EnterpriseC03.
From Coq Require Import ZifyBool.
Ltac Zify.zify_post_hook ::= Z.div_mod_to_equations.
Local Open Scope Z_scope.

(* ---------- 8. the books ---------- *)

Lemma books_balance w :
  ent_inv w ->
  let s := w_ent w in
  let d := ep_denom (e_params s) in
  balance (w_bank w) ENT_MACC d = snd (total_locked s) /\
  snd (total_locked s) = asum snd (e_locked s) /\
  snd (total_spent s) = asum snd (e_spent s) /\
  (forall a, amount_coin s a (e_locked s) + amount_coin s a (e_spent s) = completed_sum s a) /\
  (forall d', d' <> d -> balance (w_bank w) ENT_MACC d' = 0) /\
  fst (total_locked s) = d /\ fst (total_spent s) = d /\
  0 <= snd (total_locked s) /\ 0 <= snd (total_spent s) /\
  (forall a c, aget a (e_locked s) = Some c -> fst c = d /\ 0 <= snd c) /\
  (forall a c, aget a (e_spent s) = Some c -> fst c = d /\ 0 <= snd c).
Proof.
  intros [Is In Ie Ie0]. cbv zeta.
  destruct (si_tl _ _ Is) as [T1 T2]. destruct (si_ts _ _ Is) as [U1 U2].
  split; [exact Ie|]. split; [apply (si_sum_l _ _ Is)|]. split; [apply (si_sum_s _ _ Is)|].
  split; [apply (si_acct _ _ Is)|]. split; [exact Ie0|].
  split; [exact T1|]. split; [exact U1|]. split; [exact T2|]. split; [exact U2|].
  split; intros a c G; [apply (si_locked _ _ Is _ _ G)|apply (si_spent _ _ Is _ _ G)].
Qed.

(* ---------- 9/10. fee unlocking, evaluated ---------- *)

Lemma unlock_eval now b s payer fee c :
  sinv now s -> NoDup (map fst fee) -> fee_find fee (dn s) = Some c ->
  let L := snd (locked_coin s payer) in
  let f := fee_amount_of fee (dn s) in
  unlock_for_fees b s payer fee =
  if f <=? L then
    do b1 <- undelegate_all b payer fee; Ok (b1, unlock_state s payer f)
  else if f <=? balance b payer (dn s) + L then
    do b1 <- bank_send b ENT_MACC payer (dn s) L; Ok (b1, unlock_state s payer L)
  else Ok (b, s).
Proof.
  intros I ND Fi. cbv zeta.
  unfold unlock_for_fees. cbv zeta. change (ep_denom (e_params s)) with (dn s). rewrite Fi.
  destruct (fee_find_amount _ _ _ ND Fi) as (Ec & Ef & Ic).
  pose proof (locked_coin_ok _ _ payer I) as [L1 L2].
  unfold safesub_neg. rewrite L1, Ec, Z.eqb_refl.
  rewrite (pair_eta _ _ L1). cbn [fst snd].
  set (L := snd (locked_coin s payer)) in *. rewrite <- Ef.
  set (f := fee_amount_of fee (dn s)) in *.
  destruct (L <? f) eqn:C1; cbn [negb].
  - destruct (f <=? L) eqn:C1'; [lia|].
    destruct (balance b payer (dn s) + L <? f) eqn:C2; cbn [negb].
    + destruct (f <=? balance b payer (dn s) + L) eqn:C2'; [lia|]. reflexivity.
    + destruct (f <=? balance b payer (dn s) + L) eqn:C2'; [|lia].
      destruct (bank_send b ENT_MACC payer (dn s) L) as [b1| |]; cbn [obind]; try reflexivity.
      unfold L at 1. rewrite (dec_spec now) by (auto; lia). cbn [obind].
      rewrite (inc_spec now) by auto. reflexivity.
  - destruct (f <=? L) eqn:C1'; [|lia].
    destruct (undelegate_all b payer fee) as [b1| |]; cbn [obind]; try reflexivity.
    rewrite (dec_spec now) by (auto; lia). cbn [obind].
    rewrite (inc_spec now) by auto. reflexivity.
Qed.

(* the observable effect of unlocking [u] for [payer] *)
Lemma unlock_state_books s payer u :
  let s' := unlock_state s payer u in
  amount_coin s' payer (e_locked s') = amount_coin s payer (e_locked s) - u /\
  amount_coin s' payer (e_spent s') = amount_coin s payer (e_spent s) + u /\
  snd (total_locked s') = snd (total_locked s) - u /\
  snd (total_spent s') = snd (total_spent s) + u /\
  (forall a, a <> payer -> aget a (e_locked s') = aget a (e_locked s) /\
                           aget a (e_spent s') = aget a (e_spent s)) /\
  e_pos s' = e_pos s /\ e_params s' = e_params s /\ e_raisedq s' = e_raisedq s /\
  e_acceptedq s' = e_acceptedq s /\ e_wl s' = e_wl s /\ e_next s' = e_next s.
Proof.
  cbv zeta. unfold unlock_state; cbn [e_locked e_spent e_pos e_params e_raisedq e_acceptedq e_wl e_next].
  rewrite !(amount_coin_aset s), !Z.eqb_refl. cbn [snd].
  rewrite snd_locked_coin, snd_spent_coin.
  repeat split; auto; apply aget_aset_neq; congruence.
Qed.

Definition unlocked (w w' : ent_world) (payer : addr) (u : Z) : Prop :=
  let d := ep_denom (e_params (w_ent w)) in
  w_ent w' = unlock_state (w_ent w) payer u /\ w_now w' = w_now w /\
  (forall a d', balance (w_bank w') a d' =
     balance (w_bank w) a d' - (if (a =? ENT_MACC) && (d' =? d) then u else 0)
                             + (if (a =? payer) && (d' =? d) then u else 0)) /\
  (forall d', supply_of (w_bank w') d' = supply_of (w_bank w) d').

Lemma unlock_cases w payer fee w' :
  ent_inv w -> ent_op_wf w (OUnlock payer fee) -> ent_step w (OUnlock payer fee) = Some w' ->
  let d := ep_denom (e_params (w_ent w)) in
  let L := amount_coin (w_ent w) payer (e_locked (w_ent w)) in
  let f := fee_amount_of fee d in
  let liquid := balance (w_bank w) payer d in
  (fee_find fee d = None -> w' = w) /\
  (fee_find fee d <> None -> f <= L -> fee = [(d, f)] -> unlocked w w' payer f) /\
  (fee_find fee d <> None -> f <= L -> fee <> [(d, f)] -> w' = w) /\
  (fee_find fee d <> None -> L < f <= liquid + L -> unlocked w w' payer L) /\
  (fee_find fee d <> None -> L < f -> liquid + L < f -> w' = w).
Proof.
  intros I (Hp & P & ND) H. cbv zeta. cbn [ent_step] in H.
  rewrite <- snd_locked_coin. change (ep_denom (e_params (w_ent w))) with (dn (w_ent w)).
  pose proof (inv_s _ I) as Is. pose proof (ent_inv_binv _ I) as [B1 B2].
  pose proof (locked_coin_ok _ _ payer Is) as [L1 L2].
  pose proof (locked_le_total _ _ payer Is) as LT.
  destruct (fee_find fee (dn (w_ent w))) as [c|] eqn:Fi.
  2:{ unfold unlock_for_fees in H. cbv zeta in H.
      change (ep_denom (e_params (w_ent w))) with (dn (w_ent w)) in H. rewrite Fi in H.
      injection H as <-. repeat split; intros; congruence. }
  destruct (fee_find_amount _ _ _ ND Fi) as (Ec & Ef & Ic).
  assert (Pf : 0 < fee_amount_of fee (dn (w_ent w))).
  { rewrite Ef. rewrite Forall_forall in P. apply P. exact Ic. }
  rewrite (unlock_eval (w_now w) _ _ _ _ c Is ND Fi) in H. cbv zeta in H.
  set (L := snd (locked_coin (w_ent w) payer)) in *.
  set (f := fee_amount_of fee (dn (w_ent w))) in *.
  assert (MK : forall u b1, bank_send (w_bank w) ENT_MACC payer (dn (w_ent w)) u = Ok b1 ->
             unlocked w {| w_bank := b1; w_ent := unlock_state (w_ent w) payer u; w_now := w_now w |} payer u).
  { intros u b1 S. apply bank_send_spec in S as (_ & _ & Sb & Ss).
    split; [reflexivity|]. split; [reflexivity|]. split; [exact Sb|exact Ss]. }
  split; [discriminate|].
  destruct (f <=? L) eqn:C1.
  - (* first branch *)
    split; [|split; [|split; [|]]]; try (intros; lia).
    + intros _ _ Efee. rewrite Efee in H. cbn [undelegate_all fst snd] in H.
      destruct (bank_send_ok (w_bank w) ENT_MACC payer (dn (w_ent w)) f) as (b1 & S); [lia|lia|].
      rewrite S in H. cbn [obind] in H. injection H as <-. apply MK; exact S.
    + intros _ _ Nfee.
      destruct (undelegate_all (w_bank w) payer fee) as [b1| |] eqn:U; cbn [obind] in H;
        injection H as <-; try reflexivity.
      exfalso. apply Nfee.
      pose proof (undelegate_all_only_d _ _ _ _ _ B2 P U) as F.
      rewrite (single_denom_fee _ _ _ F ND Fi) at 1. rewrite (pair_eta _ _ Ec) at 1. rewrite Ef.
      reflexivity.
  - destruct (f <=? balance (w_bank w) payer (dn (w_ent w)) + L) eqn:C2.
    + split; [|split; [|split; [|]]]; try (intros; lia).
      intros _ _.
      destruct (bank_send_ok (w_bank w) ENT_MACC payer (dn (w_ent w)) L) as (b1 & S); [lia|lia|].
      rewrite S in H. cbn [obind] in H. injection H as <-. apply MK; exact S.
    + injection H as <-. split; [|split; [|split; [|]]]; try (intros; lia).
      intros. destruct w; reflexivity.
Qed.

Lemma coin_list_eq_dec (x y : list coin) : {x = y} + {x <> y}.
Proof. apply list_eq_dec. intros [a b] [c d]. destruct (Z.eq_dec a c), (Z.eq_dec b d); [left|right..]; congruence. Qed.

Lemma unlocked_books w w' payer u :
  unlocked w w' payer u -> 0 <= payer ->
  let s := w_ent w in let s' := w_ent w' in
  let d := ep_denom (e_params s) in
  amount_coin s' payer (e_locked s') = amount_coin s payer (e_locked s) - u /\
  amount_coin s' payer (e_spent s') = amount_coin s payer (e_spent s) + u /\
  snd (total_locked s') = snd (total_locked s) - u /\
  snd (total_spent s') = snd (total_spent s) + u /\
  balance (w_bank w') payer d = balance (w_bank w) payer d + u /\
  balance (w_bank w') ENT_MACC d = balance (w_bank w) ENT_MACC d - u /\
  (forall a, a <> payer -> aget a (e_locked s') = aget a (e_locked s) /\
                           aget a (e_spent s') = aget a (e_spent s)) /\
  (forall a d', a <> payer -> a <> ENT_MACC -> balance (w_bank w') a d' = balance (w_bank w) a d') /\
  (forall a d', d' <> d -> balance (w_bank w') a d' = balance (w_bank w) a d') /\
  (forall d', supply_of (w_bank w') d' = supply_of (w_bank w) d') /\
  e_pos s' = e_pos s /\ e_params s' = e_params s.
Proof.
  intros (Es & En & Hb & Hs) Hp. cbv zeta. rewrite Es.
  destruct (unlock_state_books (w_ent w) payer u) as (A1 & A2 & A3 & A4 & A5 & A6 & A7 & _).
  assert (payer <> ENT_MACC) as Np by (unfold ENT_MACC; lia).
  split; [exact A1|]. split; [exact A2|]. split; [exact A3|]. split; [exact A4|].
  split. { rewrite Hb, !Z.eqb_refl. destruct (Z.eqb_spec payer ENT_MACC); [contradiction|]. cbn [andb]. lia. }
  split. { rewrite Hb, !Z.eqb_refl. destruct (Z.eqb_spec ENT_MACC payer); [congruence|]. cbn [andb]. lia. }
  split; [exact A5|].
  split. { intros a d' N1 N2. rewrite Hb. destruct (Z.eqb_spec a ENT_MACC); [contradiction|].
           destruct (Z.eqb_spec a payer); [contradiction|]. cbn [andb]. lia. }
  split. { intros a d' N. rewrite Hb. destruct (Z.eqb_spec d' (ep_denom (e_params (w_ent w)))); [contradiction|].
           rewrite !andb_false_r. lia. }
  split; [exact Hs|]. split; [exact A6|exact A7].
Qed.

Lemma unlock_summary w payer fee w' :
  ent_inv w -> ent_op_wf w (OUnlock payer fee) -> ent_step w (OUnlock payer fee) = Some w' ->
  let d := ep_denom (e_params (w_ent w)) in
  let L := amount_coin (w_ent w) payer (e_locked (w_ent w)) in
  let L' := amount_coin (w_ent w') payer (e_locked (w_ent w')) in
  let f := fee_amount_of fee d in
  let liquid := balance (w_bank w) payer d in
  let u := L - L' in
  (forall d', balance (w_bank w') ENT_MACC d' = balance (w_bank w) ENT_MACC d' - (if d' =? d then u else 0)) /\
  (forall d', balance (w_bank w') payer d' = balance (w_bank w) payer d' + (if d' =? d then u else 0)) /\
  (u = 0 \/ u = Z.min f L) /\
  (fee_find fee d <> None -> (f <= L -> fee = [(d, f)]) -> f <= liquid + L -> u = Z.min f L).
Proof.
  intros I W H. pose proof (unlock_cases _ _ _ _ I W H) as UC. cbv zeta in *.
  destruct W as (Hp & _ & _).
  set (d := ep_denom (e_params (w_ent w))) in *.
  set (L := amount_coin (w_ent w) payer (e_locked (w_ent w))) in *.
  set (f := fee_amount_of fee d) in *.
  set (liquid := balance (w_bank w) payer d) in *.
  destruct UC as (U1 & U2 & U3 & U4 & U5).
  assert (SAME : w' = w ->
    (fee_find fee d = None \/ (f <= L /\ fee <> [(d, f)]) \/ (L < f /\ liquid + L < f)) ->
    (forall d', balance (w_bank w') ENT_MACC d' = balance (w_bank w) ENT_MACC d' -
        (if d' =? d then L - amount_coin (w_ent w') payer (e_locked (w_ent w')) else 0)) /\
    (forall d', balance (w_bank w') payer d' = balance (w_bank w) payer d' +
        (if d' =? d then L - amount_coin (w_ent w') payer (e_locked (w_ent w')) else 0)) /\
    (L - amount_coin (w_ent w') payer (e_locked (w_ent w')) = 0 \/
     L - amount_coin (w_ent w') payer (e_locked (w_ent w')) = Z.min f L) /\
    (fee_find fee d <> None -> (f <= L -> fee = [(d, f)]) -> f <= liquid + L ->
     L - amount_coin (w_ent w') payer (e_locked (w_ent w')) = Z.min f L)).
  { intros -> Why. fold L. replace (L - L) with 0 by lia.
    split; [intros d'; destruct (d' =? d); lia|]. split; [intros d'; destruct (d' =? d); lia|].
    split; [left; reflexivity|]. intros A B C. exfalso.
    destruct Why as [X|[(X1 & X2)|(X1 & X2)]]; [contradiction| |lia]. apply X2. apply B. exact X1. }
  assert (CHG : forall u0, unlocked w w' payer u0 -> u0 = Z.min f L ->
    (forall d', balance (w_bank w') ENT_MACC d' = balance (w_bank w) ENT_MACC d' -
        (if d' =? d then L - amount_coin (w_ent w') payer (e_locked (w_ent w')) else 0)) /\
    (forall d', balance (w_bank w') payer d' = balance (w_bank w) payer d' +
        (if d' =? d then L - amount_coin (w_ent w') payer (e_locked (w_ent w')) else 0)) /\
    (L - amount_coin (w_ent w') payer (e_locked (w_ent w')) = 0 \/
     L - amount_coin (w_ent w') payer (e_locked (w_ent w')) = Z.min f L) /\
    (fee_find fee d <> None -> (f <= L -> fee = [(d, f)]) -> f <= liquid + L ->
     L - amount_coin (w_ent w') payer (e_locked (w_ent w')) = Z.min f L)).
  { intros u0 Un Eu. pose proof (unlocked_books _ _ _ _ Un Hp) as B. cbv zeta in B.
    destruct B as (B1 & _ & _ & _ & B5 & B6 & _ & _ & B9 & _). fold L in B1. fold d in B5, B6, B9.
    rewrite B1. replace (L - (L - u0)) with u0 by lia.
    split. { intros d'. destruct (Z.eqb_spec d' d) as [->|N]; [lia|]. rewrite B9 by exact N. lia. }
    split. { intros d'. destruct (Z.eqb_spec d' d) as [->|N]; [lia|]. rewrite B9 by exact N. lia. }
    split; [right; exact Eu|]. intros; exact Eu. }
  destruct (fee_find fee d) as [c|] eqn:Fi.
  2:{ apply SAME; auto. }
  assert (NN : Some c <> None) by discriminate.
  destruct (Z_le_gt_dec f L) as [C1|C1].
  - destruct (coin_list_eq_dec fee [(d, f)]) as [Efee|Nfee].
    + apply (CHG f); [apply U2; auto|lia].
    + apply SAME; [apply U3; auto|]. right; left. auto.
  - destruct (Z_le_gt_dec f (liquid + L)) as [C2|C2].
    + apply (CHG L); [apply U4; auto; lia|lia].
    + apply SAME; [apply U5; auto; lia|]. right; right. lia.
Qed.

(* ---------- 9. the escrow account under the other steps ---------- *)

Lemma escrow_msg_params w o w' :
  ent_inv w -> ent_op_wf w o -> ent_step w o = Some w' ->
  (exists m, o = OMsg m) \/ (exists p, o = OSetParams p) ->
  w_bank w' = w_bank w.
Proof.
  intros I W H Ho.
  apply (non_begin_ops_never_mint _ _ _ I W H).
  - intros now E. destruct Ho as [(m & ->)|(p & ->)]; discriminate.
  - intros payer fee E. destruct Ho as [(m & ->)|(p & ->)]; discriminate.
Qed.

Lemma escrow_begin w now w' :
  ent_inv w -> ent_op_wf w (OBegin now) -> ent_step w (OBegin now) = Some w' ->
  let d := ep_denom (e_params (w_ent w)) in
  balance (w_bank w') ENT_MACC d = balance (w_bank w) ENT_MACC d +
    asum (fun o => if po_status o =? ST_ACCEPTED then po_amount o else 0) (e_pos (w_ent w)) /\
  (forall d', d' <> d -> balance (w_bank w') ENT_MACC d' = balance (w_bank w) ENT_MACC d') /\
  ep_denom (e_params (w_ent w')) = d.
Proof.
  intros I W H. cbv zeta.
  pose proof (ent_inv_step _ _ _ I W H) as I'.
  pose proof (begin_completes_accepted _ _ _ I W H) as (_ & _ & TL & _ & _).
  assert (Ed : dn (w_ent w') = dn (w_ent w)).
  { cbn [ent_step] in H. destruct W as [Hn _].
    destruct (ent_begin_block now (w_bank w) (w_ent w)) as [[b' s']| |] eqn:E; try discriminate.
    injection H as <-. cbn [w_ent].
    destruct (begin_block_decompose _ _ _ _ I Hn E) as (s1 & C & T).
    pose proof (completes_frame _ _ _ _ _ _ C) as (Ep1 & _).
    pose proof (tallies_frame _ _ _ _ T) as (Ep2 & _). unfold dn. rewrite Ep2, Ep1. reflexivity. }
  destruct (ent_inv_binv _ I) as [B1 B2]. destruct (ent_inv_binv _ I') as [B1' B2'].
  rewrite Ed in B1', B2'. unfold dn in *.
  split; [rewrite B1', B1; lia|]. split; [|exact Ed].
  intros d' N. rewrite B2, B2'; auto.
Qed.
