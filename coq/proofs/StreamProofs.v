(* Proofs about the x/stream model (model/Stream.v) against the vocabulary of model/StreamSpec.v:
   inversion ("what a successful call did") and progress ("the call succeeds") lemmas for
   claim_from_stream / add_deposit / set_new_flow_rate / cancel_stream, preservation of
   [str_inv], and the statements behind C10, C11, C12. *)
From MC Require Import lib.Prelude lib.AMap model.Bank model.Stream model.StreamSpec.
From MC Require Import proofs.StreamArith proofs.BankProofs.
From Coq Require Import ZifyBool.
Ltac Zify.zify_post_hook ::= Z.div_mod_to_equations.

Local Open Scope Z_scope.

(* ================================================================== *)
(* Small helpers                                                       *)
(* ================================================================== *)

Ltac dobind H E :=
  match type of H with
  | obind ?e _ = _ => destruct e eqn:E; cbn [obind] in H; try discriminate H
  end.

Ltac dobind_as H v E :=
  match type of H with
  | obind ?e _ = _ => destruct e as [v|?|?] eqn:E; cbn [obind] in H; try discriminate H
  end.

Definition skey := (addr * addr)%type.

Lemma skey_dec (k k' : skey) : {k = k'} + {k <> k'}.
Proof.
  destruct (keqb k k') eqn:E; [left; apply keqb_spec; exact E | right; apply keqb_false; exact E].
Qed.

Lemma blocked_not_macc r : blocked r = false -> r <> STREAM_MACC /\ r <> FEE_COLLECTOR.
Proof. intros H; split; intros ->; discriminate H. Qed.

Lemma nonneg_not_macc a : 0 <= a -> a <> STREAM_MACC /\ a <> FEE_COLLECTOR /\ blocked a = false.
Proof. unfold STREAM_MACC, FEE_COLLECTOR, blocked. lia. Qed.

Lemma macc_neq_fee : STREAM_MACC <> FEE_COLLECTOR.
Proof. discriminate. Qed.

Lemma time_storable_0 : time_storable 0 = true.
Proof. reflexivity. Qed.

(* the per-denomination deposit of one stream *)
Definition dep_in (d : denom) (st : stream) : Z := if st_denom st =? d then st_deposit st else 0.
Definition dep_opt (d : denom) (o : option stream) : Z :=
  match o with Some st => dep_in d st | None => 0 end.

Lemma total_deposits_eq s d : total_deposits s d = asum (dep_in d) (s_streams s).
Proof. reflexivity. Qed.

Lemma total_deposits_aset s k st d :
  total_deposits (with_streams s (aset k st (s_streams s))) d
  = total_deposits s d - dep_opt d (aget k (s_streams s)) + dep_in d st.
Proof. rewrite !total_deposits_eq. cbn [with_streams s_streams]. rewrite asum_aset. reflexivity. Qed.

Lemma total_deposits_adel s k d :
  total_deposits (with_streams s (adel k (s_streams s))) d
  = total_deposits s d - dep_opt d (aget k (s_streams s)).
Proof. rewrite !total_deposits_eq. cbn [with_streams s_streams]. rewrite asum_adel. reflexivity. Qed.

Lemma asum_ge_one {V} (f : V -> Z) (m : amap skey V) k v :
  (forall kv, In kv m -> 0 <= f (snd kv)) -> aget k m = Some v -> 0 <= f v <= asum f m.
Proof.
  unfold asum. induction m as [|[k' v'] r IH]; cbn [aget map sumZ snd]; [discriminate|].
  intros Hall Hg.
  assert (Hr : 0 <= sumZ (map (fun kv => f (snd kv)) r)).
  { clear -Hall. induction r as [|x r IH]; cbn; [lia|].
    pose proof (Hall x (or_intror (or_introl eq_refl))).
    assert (0 <= sumZ (map (fun kv => f (snd kv)) r)); [|lia].
    apply IH. intros kv [X|X]; apply Hall; [left|right; right]; auto. }
  pose proof (Hall (k', v') (or_introl eq_refl)) as H0. cbn [snd] in H0.
  destruct (keqb k k').
  - injection Hg as <-. lia.
  - assert (0 <= f v <= sumZ (map (fun kv => f (snd kv)) r)); [|lia].
    apply IH; [|exact Hg]. intros kv X; apply Hall; right; exact X.
Qed.

Lemma In_aget_NoDup {V} (m : amap skey V) k v :
  NoDup (akeys m) -> In (k, v) m -> aget k m = Some v.
Proof.
  induction m as [|[k' v'] r IH]; cbn [In aget akeys map fst]; [tauto|].
  intros ND [X|X]; inversion ND as [|? ? NI ND']; subst.
  - injection X as -> ->. rewrite keqb_refl. reflexivity.
  - destruct (keqb k k') eqn:E.
    + apply keqb_spec in E; subst. exfalso; apply NI.
      change k' with (fst (k', v)). apply in_map. exact X.
    + apply IH; assumption.
Qed.

(* ================================================================== *)
(* Streams derived by the operations                                   *)
(* ================================================================== *)

Definition claimed (now : Z) (st : stream) (remaining : Z) : stream :=
  {| st_denom := st_denom st; st_deposit := remaining; st_rate := st_rate st;
     st_lot := now; st_dzt := st_dzt st; st_cancellable := st_cancellable st |}.

Definition pos (x : Z) : Z := if 0 <? x then x else 0.

Lemma pos_nonneg x : 0 <= x -> pos x = x.
Proof. unfold pos. destruct (0 <? x) eqn:E; lia. Qed.

(* ================================================================== *)
(* ClaimFromStream: inversion                                          *)
(* ================================================================== *)

Lemma claim_inv now b s r sn b' s' c :
  claim_from_stream now b s r sn = Ok (b', s', c) ->
  exists st total remaining recv fee b1,
    aget (r, sn) (s_streams s) = Some st /\ 0 < st_deposit st /\
    calculate_amount_to_claim now (st_dzt st) (st_lot st) (st_deposit st) (st_rate st)
      = (total, remaining) /\
    0 <= total <= st_deposit st /\
    calculate_validator_fee (s_valfee s) total = (recv, fee) /\ 0 <= recv /\
    moved b b1 STREAM_MACC FEE_COLLECTOR (st_denom st) (pos fee) /\
    moved b1 b' STREAM_MACC r (st_denom st) recv /\
    (0 < recv -> blocked r = false) /\
    s' = with_streams s (aset (r, sn) (claimed now st remaining) (s_streams s)) /\
    c = {| cr_receiver := recv; cr_fee := fee; cr_total := total; cr_remaining := remaining |}.
Proof.
  unfold claim_from_stream. intros H.
  destruct (aget (r, sn) (s_streams s)) as [st|] eqn:Hg; [|discriminate].
  destruct (st_deposit st <=? 0) eqn:Hd; [discriminate|].
  destruct (calculate_amount_to_claim now (st_dzt st) (st_lot st) (st_deposit st) (st_rate st))
    as [total remaining] eqn:Ec.
  destruct (total <? 0) eqn:Ht0; [discriminate|].
  destruct (st_deposit st <? total) eqn:Ht1; [discriminate|].
  destruct (calculate_validator_fee (s_valfee s) total) as [recv fee] eqn:Ef.
  destruct (recv <? 0) eqn:Hr0; [discriminate|].
  destruct (if 0 <? fee then bank_send b STREAM_MACC FEE_COLLECTOR (st_denom st) fee else Ok b)
    as [b1|?|?] eqn:E1; cbn [obind] in H; try discriminate.
  destruct (if 0 <? recv then bank_send_m2a b1 STREAM_MACC r (st_denom st) recv else Ok b1)
    as [b2|?|?] eqn:E2; cbn [obind] in H; try discriminate.
  unfold set_stream in H. cbn [st_lot st_dzt] in H.
  destruct (time_storable now && time_storable (st_dzt st)) eqn:Ets; cbn [obind] in H; try discriminate.
  injection H as <- <- <-.
  exists st, total, remaining, recv, fee, b1.
  split; [reflexivity|]. split; [lia|]. split; [exact Ec|]. split; [lia|].
  split; [exact Ef|]. split; [lia|].
  split; [|split; [|split; [|split; reflexivity]]].
  - unfold pos. destruct (0 <? fee).
    + apply bank_send_inv in E1. tauto.
    + injection E1 as <-. apply moved_zero.
  - destruct (0 <? recv) eqn:Hr.
    + apply bank_send_m2a_inv in E2. tauto.
    + injection E2 as <-. assert (recv = 0) as -> by lia. apply moved_zero.
  - intros Hr. destruct (0 <? recv) eqn:Hr'; [|lia]. apply bank_send_m2a_inv in E2. tauto.
Qed.

(* what the claim result says, under the invariant's facts about the stream *)
Lemma claim_amounts vf st now total remaining recv fee :
  0 <= vf <= DEC_ONE -> 1 <= st_rate st -> 0 <= st_deposit st ->
  calculate_amount_to_claim now (st_dzt st) (st_lot st) (st_deposit st) (st_rate st) = (total, remaining) ->
  calculate_validator_fee vf total = (recv, fee) ->
  0 <= total <= st_deposit st /\ remaining = st_deposit st - total /\
  fee = total * vf / DEC_ONE /\ recv = total - fee /\ 0 <= fee <= total /\ 0 <= recv.
Proof.
  intros Hv Hr Hd Ec Ef.
  pose proof (catc_bounds now (st_dzt st) (st_lot st) (st_deposit st) (st_rate st) ltac:(lia) Hd) as Hb.
  rewrite Ec in Hb. destruct Hb as [Hb1 Hb2].
  pose proof (fee_split vf total Hv ltac:(lia)) as Hf. rewrite Ef in Hf. tauto.
Qed.

(* ================================================================== *)
(* Re-establishing the invariant after one stream is written / deleted *)
(* ================================================================== *)

Lemma inv_set now b s b' r sn st' :
  str_inv now b s -> stream_ok now st' -> blocked r = false ->
  (forall d, balance b' STREAM_MACC d =
             balance b STREAM_MACC d - dep_opt d (aget (r, sn) (s_streams s)) + dep_in d st') ->
  str_inv now b' (with_streams s (aset (r, sn) st' (s_streams s))).
Proof.
  intros [K S B V R N] Hok Hbl Hbal.
  constructor; cbn [with_streams s_streams s_valfee]; auto.
  - apply NoDup_akeys_aset; exact K.
  - intros k st H. cbn [with_streams s_streams] in H.
    destruct (skey_dec (r, sn) k) as [<-|Nk].
    + rewrite aget_aset_eq in H. injection H as <-. exact Hok.
    + rewrite aget_aset_neq in H by exact Nk. eapply S; eauto.
  - intros d. rewrite total_deposits_aset, Hbal, (B d). reflexivity.
  - intros r' sn' st H.
    destruct (skey_dec (r, sn) (r', sn')) as [E|Nk].
    + injection E as <- <-. exact Hbl.
    + rewrite aget_aset_neq in H by exact Nk. eapply R; eauto.
Qed.

Lemma inv_del now b s b' r sn :
  str_inv now b s ->
  (forall d, balance b' STREAM_MACC d =
             balance b STREAM_MACC d - dep_opt d (aget (r, sn) (s_streams s))) ->
  str_inv now b' (with_streams s (adel (r, sn) (s_streams s))).
Proof.
  intros [K S B V R N] Hbal.
  assert (Hk : forall k st, aget k (adel (r, sn) (s_streams s)) = Some st -> aget k (s_streams s) = Some st).
  { intros k st H. destruct (skey_dec (r, sn) k) as [<-|Nk].
    - rewrite aget_adel_eq in H by exact K. discriminate.
    - rewrite aget_adel_neq in H by exact Nk. exact H. }
  constructor; cbn [with_streams s_streams s_valfee]; auto.
  - apply NoDup_akeys_adel; exact K.
  - intros k st H. cbn [with_streams s_streams] in H. eapply S; eauto.
  - intros d. rewrite total_deposits_adel, Hbal, (B d). reflexivity.
  - intros r' sn' st H. eapply R; eauto.
Qed.

Lemma escrow_covers now b s r sn st :
  str_inv now b s -> aget (r, sn) (s_streams s) = Some st ->
  st_deposit st <= balance b STREAM_MACC (st_denom st).
Proof.
  intros I Hg. rewrite (si_backed _ _ _ I), total_deposits_eq.
  pose proof (asum_ge_one (dep_in (st_denom st)) (s_streams s) (r, sn) st) as H.
  unfold dep_in at 2 3 in H. rewrite Z.eqb_refl in H. apply H; [|exact Hg].
  intros [k v] Hin. cbn [snd].
  apply In_aget_NoDup in Hin; [|exact (si_keys _ _ _ I)].
  pose proof (so_deposit _ _ (si_streams _ _ _ I _ _ Hin)). unfold dep_in. destruct (_ =? _); lia.
Qed.

(* ================================================================== *)
(* ClaimFromStream: invariant and progress                              *)
(* ================================================================== *)

Lemma claimed_ok now st total remaining :
  stream_ok now st -> time_storable now = true -> 0 < st_deposit st ->
  calculate_amount_to_claim now (st_dzt st) (st_lot st) (st_deposit st) (st_rate st) = (total, remaining) ->
  stream_ok now (claimed now st remaining).
Proof.
  intros [Hr Hd Hl Hls Hds Hsus] Hn Hpos Ec.
  destruct (Z_le_gt_dec (st_dzt st) now) as [Hexp|Hrun].
  - rewrite catc_at_or_after_zero in Ec by exact Hexp. injection Ec as <- <-.
    constructor; cbn [claimed st_rate st_deposit st_lot st_dzt]; auto; try lia.
  - rewrite catc_before_zero in Ec by lia. injection Ec as <- <-.
    destruct Hsus as [Hsus|[Hz _]]; [|lia].
    pose proof (claim_preserves_sustain (st_deposit st) (st_rate st) (st_lot st) (st_dzt st) now
                  ltac:(lia) Hl ltac:(lia) Hsus) as (H1 & H2 & H3 & _).
    constructor; cbn [claimed st_rate st_deposit st_lot st_dzt]; auto; try lia.
Qed.

Lemma claim_preserves_inv now b s r sn b' s' c :
  str_inv now b s -> claim_from_stream now b s r sn = Ok (b', s', c) -> str_inv now b' s'.
Proof.
  intros I H.
  apply claim_inv in H as (st & total & remaining & recv & fee & b1 & Hg & Hd & Ec & Ht & Ef & Hr & M1 & M2 & Hbl & -> & ->).
  pose proof (si_streams _ _ _ I _ _ Hg) as Hok.
  pose proof (si_receivers _ _ _ I _ _ _ Hg) as Hb.
  destruct (blocked_not_macc _ Hb) as [Nr1 Nr2].
  destruct (claim_amounts (s_valfee s) st now total remaining recv fee (si_valfee _ _ _ I)
              ltac:(apply Hok) ltac:(apply Hok) Ec Ef) as (_ & Hrem & _ & Hrecv & Hfee & _).
  apply inv_set with (b := b); auto.
  - eapply claimed_ok; eauto. apply (si_now _ _ _ I).
  - intros d. rewrite Hg. cbn [dep_opt]. unfold dep_in; cbn [claimed st_denom st_deposit].
    rewrite (moved_sender _ _ _ _ _ _ d M2) by congruence.
    rewrite (moved_sender _ _ _ _ _ _ d M1) by exact macc_neq_fee.
    rewrite pos_nonneg by lia.
    destruct (st_denom st =? d) eqn:E1; destruct (d =? st_denom st) eqn:E2; lia.
Qed.

Lemma claim_ok now b s r sn st :
  str_inv now b s -> aget (r, sn) (s_streams s) = Some st -> 0 < st_deposit st ->
  exists b' s' c, claim_from_stream now b s r sn = Ok (b', s', c).
Proof.
  intros I Hg Hd.
  pose proof (si_streams _ _ _ I _ _ Hg) as Hok.
  pose proof (si_receivers _ _ _ I _ _ _ Hg) as Hb.
  pose proof (escrow_covers _ _ _ _ _ _ I Hg) as Hesc.
  unfold claim_from_stream. rewrite Hg.
  destruct (st_deposit st <=? 0) eqn:E0; [lia|].
  destruct (calculate_amount_to_claim now (st_dzt st) (st_lot st) (st_deposit st) (st_rate st))
    as [total remaining] eqn:Ec.
  destruct (calculate_validator_fee (s_valfee s) total) as [recv fee] eqn:Ef.
  destruct (claim_amounts (s_valfee s) st now total remaining recv fee (si_valfee _ _ _ I)
              ltac:(apply Hok) ltac:(apply Hok) Ec Ef) as (Ht & Hrem & _ & Hrecv & Hfee & Hr0).
  destruct (total <? 0) eqn:E1; [lia|].
  destruct (st_deposit st <? total) eqn:E2; [lia|].
  destruct (recv <? 0) eqn:E3; [lia|].
  assert (H1 : exists b1, (if 0 <? fee then bank_send b STREAM_MACC FEE_COLLECTOR (st_denom st) fee else Ok b) = Ok b1
               /\ balance b1 STREAM_MACC (st_denom st) = balance b STREAM_MACC (st_denom st) - fee).
  { destruct (0 <? fee) eqn:Ef0.
    - destruct (bank_send_ok b STREAM_MACC FEE_COLLECTOR (st_denom st) fee) as [b1 E]; try lia.
      exists b1. split; [exact E|]. apply bank_send_inv in E as (_ & _ & M).
      rewrite (moved_sender _ _ _ _ _ _ (st_denom st) M) by exact macc_neq_fee. rewrite Z.eqb_refl. lia.
    - exists b. split; [reflexivity|lia]. }
  destruct H1 as (b1 & -> & Hb1). cbn [obind].
  assert (H2 : exists b2, (if 0 <? recv then bank_send_m2a b1 STREAM_MACC r (st_denom st) recv else Ok b1) = Ok b2).
  { destruct (0 <? recv) eqn:Er0; [|eauto].
    apply bank_send_m2a_ok; [exact Hb|lia|lia]. }
  destruct H2 as (b2 & ->). cbn [obind].
  unfold set_stream. cbn [st_lot st_dzt].
  rewrite (proj1 (si_now _ _ _ I)), (so_dzt_storable _ _ Hok). cbn [andb obind]. eauto.
Qed.

(* frame facts of a claim that need no invariant *)
Lemma claim_conserves now b s r sn b' s' c d :
  claim_from_stream now b s r sn = Ok (b', s', c) ->
  total_balance b' d = total_balance b d /\ supply_of b' d = supply_of b d.
Proof.
  intros H. apply claim_inv in H as (st & total & remaining & recv & fee & b1 & _ & _ & _ & _ & _ & _ & M1 & M2 & _).
  rewrite (moved_total _ _ _ _ _ _ d M2), (moved_total _ _ _ _ _ _ d M1).
  rewrite (moved_supply _ _ _ _ _ _ d M2), (moved_supply _ _ _ _ _ _ d M1). auto.
Qed.

Lemma claim_frame now b s r sn b' s' c :
  claim_from_stream now b s r sn = Ok (b', s', c) ->
  s_valfee s' = s_valfee s /\ forall k, k <> (r, sn) -> aget k (s_streams s') = aget k (s_streams s).
Proof.
  intros H. apply claim_inv in H as (st & total & remaining & recv & fee & b1 & _ & _ & _ & _ & _ & _ & _ & _ & _ & -> & _).
  split; [reflexivity|]. intros k Nk. cbn [with_streams s_streams]. apply aget_aset_neq. congruence.
Qed.

Lemma claim_balance_other now b s r sn b' s' c a d :
  claim_from_stream now b s r sn = Ok (b', s', c) ->
  a <> STREAM_MACC -> a <> FEE_COLLECTOR -> a <> r -> balance b' a d = balance b a d.
Proof.
  intros H N1 N2 N3. apply claim_inv in H as (st & total & remaining & recv & fee & b1 & _ & _ & _ & _ & _ & _ & M1 & M2 & _).
  rewrite (moved_other _ _ _ _ _ _ a d M2) by assumption.
  apply (moved_other _ _ _ _ _ _ a d M1); assumption.
Qed.

(* full description of a claim under the invariant *)
Lemma claim_spec now b s r sn st b' s' c :
  str_inv now b s -> aget (r, sn) (s_streams s) = Some st ->
  claim_from_stream now b s r sn = Ok (b', s', c) ->
  let tr := calculate_amount_to_claim now (st_dzt st) (st_lot st) (st_deposit st) (st_rate st) in
  let d := st_denom st in
  str_inv now b' s' /\ 0 < st_deposit st /\
  cr_total c = fst tr /\ cr_remaining c = snd tr /\
  0 <= cr_total c <= st_deposit st /\ cr_remaining c = st_deposit st - cr_total c /\
  cr_fee c = cr_total c * s_valfee s / DEC_ONE /\ cr_receiver c = cr_total c - cr_fee c /\
  0 <= cr_fee c <= cr_total c /\ 0 <= cr_receiver c /\
  s' = with_streams s (aset (r, sn) (claimed now st (cr_remaining c)) (s_streams s)) /\
  balance b' r d = balance b r d + cr_receiver c /\
  balance b' FEE_COLLECTOR d = balance b FEE_COLLECTOR d + cr_fee c /\
  balance b' STREAM_MACC d = balance b STREAM_MACC d - cr_total c /\
  (forall a d', a <> STREAM_MACC -> a <> FEE_COLLECTOR -> a <> r -> balance b' a d' = balance b a d') /\
  (forall a d', d' <> d -> balance b' a d' = balance b a d').
Proof.
  intros I Hg H. cbv zeta.
  pose proof (claim_preserves_inv _ _ _ _ _ _ _ _ I H) as I'.
  pose proof H as H0.
  apply claim_inv in H as (st0 & total & remaining & recv & fee & b1 & Hg' & Hd & Ec & Ht & Ef & Hr & M1 & M2 & Hbl & -> & ->).
  rewrite Hg in Hg'. injection Hg' as <-.
  pose proof (si_streams _ _ _ I _ _ Hg) as Hok.
  pose proof (si_receivers _ _ _ I _ _ _ Hg) as Hb.
  destruct (blocked_not_macc _ Hb) as [Nr1 Nr2].
  destruct (claim_amounts (s_valfee s) st now total remaining recv fee (si_valfee _ _ _ I)
              ltac:(apply Hok) ltac:(apply Hok) Ec Ef) as (_ & Hrem & Hfee & Hrecv & Hfb & _).
  rewrite Ec. cbn [fst snd cr_total cr_remaining cr_fee cr_receiver].
  rewrite (pos_nonneg fee) in M1 by lia.
  repeat (split; [first [assumption | reflexivity | lia]|]).
  split; [|split; [|split; [|split]]].
  - rewrite (moved_recipient _ _ _ _ _ _ _ M2) by congruence.
    rewrite (moved_other _ _ _ _ _ _ r _ M1) by congruence. rewrite Z.eqb_refl. reflexivity.
  - rewrite (moved_other _ _ _ _ _ _ FEE_COLLECTOR _ M2) by (first [congruence | discriminate]).
    rewrite (moved_recipient _ _ _ _ _ _ _ M1) by exact macc_neq_fee. rewrite Z.eqb_refl. reflexivity.
  - rewrite (moved_sender _ _ _ _ _ _ _ M2) by congruence.
    rewrite (moved_sender _ _ _ _ _ _ _ M1) by exact macc_neq_fee. rewrite Z.eqb_refl. lia.
  - intros a d' N1 N2 N3. eapply claim_balance_other; eauto.
  - intros a d' Nd. rewrite (moved_other_denom _ _ _ _ _ _ a d' M2) by exact Nd.
    apply (moved_other_denom _ _ _ _ _ _ a d' M1); exact Nd.
Qed.

(* ================================================================== *)
(* AddDeposit                                                          *)
(* ================================================================== *)

Definition topped (st1 : stream) (amt lot' dzt' : Z) : stream :=
  {| st_denom := st_denom st1; st_deposit := st_deposit st1 + amt; st_rate := st_rate st1;
     st_lot := lot'; st_dzt := dzt'; st_cancellable := st_cancellable st1 |}.

(* the common tail of AddDeposit: take the coins, extend/restart the zero time, store *)
Lemma topup_finish now b1 s1 r sn st1 lot' base ext amt b2 s2 :
  str_inv now b1 s1 -> aget (r, sn) (s_streams s1) = Some st1 ->
  sn <> STREAM_MACC -> 0 < amt ->
  calculate_duration amt (st_rate st1) = Ok ext ->
  ((lot' = now /\ base = now /\ st_deposit st1 = 0) \/
   (lot' = st_lot st1 /\ base = st_dzt st1 /\ now < st_dzt st1)) ->
  bank_send b1 sn STREAM_MACC (st_denom st1) amt = Ok b2 ->
  set_stream s1 r sn (topped st1 amt lot' (add_seconds base ext)) = Ok s2 ->
  str_inv now b2 s2 /\ add_seconds base ext = base + (amt / st_rate st1) * NS /\
  s2 = with_streams s1 (aset (r, sn) (topped st1 amt lot' (base + (amt / st_rate st1) * NS)) (s_streams s1)).
Proof.
  intros I Hg Nsn Hamt Hdur Hcase Hsend Hset.
  pose proof (si_streams _ _ _ I _ _ Hg) as Hok.
  destruct Hok as [Hr Hd Hl Hls Hds Hsus].
  destruct (si_now _ _ _ I) as [Hns Hn0].
  pose proof (duration_range _ _ _ Hdur) as Hext.
  apply duration_exact in Hdur; [|lia|lia]. subst ext.
  assert (Hbs : time_storable base = true) by (destruct Hcase as [(_ & -> & _)|(_ & -> & _)]; assumption).
  unfold set_stream in Hset. cbn [topped st_lot st_dzt] in Hset.
  destruct (time_storable lot' && time_storable (add_seconds base (amt / st_rate st1))) eqn:Est; [|discriminate].
  apply andb_true_iff in Est as [Hlot' Hdz].
  pose proof (add_seconds_wrap_not_storable _ _ Hbs Hext Hdz) as Hadd.
  injection Hset as <-. rewrite Hadd in *.
  split; [|split; [reflexivity|reflexivity]].
  apply bank_send_inv in Hsend as (_ & _ & M).
  apply inv_set with (b := b1); auto.
  - constructor; cbn [topped st_rate st_deposit st_lot st_dzt]; auto; try lia.
    left. destruct Hcase as [(-> & -> & Hz)|(-> & -> & Hrun)].
    + rewrite Hz. apply restart_sustain; lia.
    + destruct Hsus as [Hsus|[_ Hx]]; [|lia]. apply topup_preserves_sustain; lia.
  - eapply si_receivers; eauto.
  - intros d. rewrite Hg. cbn [dep_opt]. unfold dep_in; cbn [topped st_denom st_deposit].
    rewrite (moved_recipient _ _ _ _ _ _ d M) by exact Nsn.
    destruct (st_denom st1 =? d) eqn:E1; destruct (d =? st_denom st1) eqn:E2; lia.
Qed.

Lemma add_deposit_spec now b s r sn d amt b2 s2 st :
  str_inv now b s -> aget (r, sn) (s_streams s) = Some st -> 0 < amt -> sn <> STREAM_MACC ->
  add_deposit now b s r sn d amt = Ok (b2, s2) ->
  str_inv now b2 s2 /\ d = st_denom st /\ amt / st_rate st < two63 /\
  exists b1 s1 st1 lot' dzt',
    bank_send b1 sn STREAM_MACC d amt = Ok b2 /\
    s2 = with_streams s1 (aset (r, sn) (topped st1 amt lot' dzt') (s_streams s1)) /\
    st_denom st1 = st_denom st /\ st_rate st1 = st_rate st /\ st_cancellable st1 = st_cancellable st /\
    s_valfee s1 = s_valfee s /\
    (forall k, k <> (r, sn) -> aget k (s_streams s1) = aget k (s_streams s)) /\
    ((now < st_dzt st /\ b1 = b /\ s1 = s /\ st1 = st /\ lot' = st_lot st /\
      dzt' = st_dzt st + (amt / st_rate st) * NS)
     \/
     (st_dzt st <= now /\ st_deposit st1 = 0 /\ lot' = now /\ dzt' = now + (amt / st_rate st) * NS /\
      ((0 < st_deposit st /\ exists c, claim_from_stream now b s r sn = Ok (b1, s1, c)
                                       /\ cr_total c = st_deposit st /\ cr_remaining c = 0)
       \/ (st_deposit st = 0 /\ b1 = b /\ s1 = s)))).
Proof.
  intros I Hg Hamt Nsn H.
  pose proof (si_streams _ _ _ I _ _ Hg) as Hok.
  unfold add_deposit in H. rewrite Hg in H.
  destruct (d =? st_denom st) eqn:Ed; cbn [negb] in H; [|discriminate].
  assert (d = st_denom st) by lia. subst d.
  destruct (calculate_duration amt (st_rate st)) as [ext|?|?] eqn:Hdur; cbn [obind] in H; try discriminate.
  assert (Hq : amt / st_rate st < two63).
  { pose proof (duration_range _ _ _ Hdur). apply duration_exact in Hdur; [lia| |lia]. apply Hok. }
  destruct (st_dzt st <=? now) eqn:Edz.
  - (* expired: settle, restart from now *)
    destruct (0 <? st_deposit st) eqn:Edep.
    + destruct (claim_from_stream now b s r sn) as [[[b1 s1] c]|?|?] eqn:Ecl; cbn [obind] in H; try discriminate.
      destruct (claim_spec _ _ _ _ _ _ _ _ _ I Hg Ecl) as (I1 & _ & Htot & Hrem & _ & _ & _ & _ & _ & _ & Hs1 & _).
      rewrite catc_at_or_after_zero in Htot, Hrem by lia. cbn [fst snd] in Htot, Hrem.
      assert (Hg1 : aget (r, sn) (s_streams s1) = Some (claimed now st 0)).
      { rewrite Hs1, Hrem. cbn [with_streams s_streams]. apply aget_aset_eq. }
      rewrite Hg1 in H. cbn [obind claimed st_denom st_deposit st_rate st_cancellable st_dzt] in H.
      destruct (bank_send b1 sn STREAM_MACC (st_denom st) amt) as [b2'|?|?] eqn:Hsend; cbn [obind] in H; try discriminate.
      dobind_as H s0 Hset. injection H as <- <-.
      destruct (topup_finish now b1 s1 r sn (claimed now st 0) now now ext amt b2' s0 I1 Hg1 Nsn Hamt Hdur
                  ltac:(left; auto) Hsend Hset) as (I2 & Hadd & Hs2).
      split; [exact I2|]. split; [reflexivity|]. split; [exact Hq|].
      exists b1, s1, (claimed now st 0), now, (now + amt / st_rate st * NS).
      destruct (claim_frame _ _ _ _ _ _ _ _ Ecl) as [Hvf Hfr].
      repeat (split; [first [assumption | reflexivity]|]).
      right. repeat (split; [first [reflexivity | lia]|]).
      left. split; [lia|]. exists c. auto.
    + cbn [obind] in H. rewrite Hg in H. cbn [obind] in H.
      destruct (bank_send b sn STREAM_MACC (st_denom st) amt) as [b2'|?|?] eqn:Hsend; cbn [obind] in H; try discriminate.
      dobind_as H s0 Hset. injection H as <- <-.
      assert (Hz : st_deposit st = 0) by (pose proof (so_deposit _ _ Hok); lia).
      pose proof (topup_finish now b s r sn st now now ext amt b2' s0 I Hg Nsn Hamt Hdur
                  ltac:(left; auto) Hsend) as HF.
      unfold topped in HF. cbn [st_denom st_deposit st_rate st_cancellable] in HF.
      destruct (HF Hset) as (I2 & Hadd & Hs2).
      split; [exact I2|]. split; [reflexivity|]. split; [exact Hq|].
      exists b, s, st, now, (now + amt / st_rate st * NS).
      repeat (split; [first [assumption | reflexivity]|]).
      split; [intros; reflexivity|].
      right. repeat (split; [first [reflexivity | lia]|]).
      right. auto.
  - cbn [obind] in H.
    destruct (bank_send b sn STREAM_MACC (st_denom st) amt) as [b2'|?|?] eqn:Hsend; cbn [obind] in H; try discriminate.
    dobind_as H s0 Hset. injection H as <- <-.
    destruct (topup_finish now b s r sn st (st_lot st) (st_dzt st) ext amt b2' s0 I Hg Nsn Hamt Hdur
                ltac:(right; repeat split; lia) Hsend Hset) as (I2 & Hadd & Hs2).
    split; [exact I2|]. split; [reflexivity|]. split; [exact Hq|].
    exists b, s, st, (st_lot st), (st_dzt st + amt / st_rate st * NS).
    repeat (split; [first [assumption | reflexivity]|]).
    split; [intros; reflexivity|].
    left. repeat (split; [first [reflexivity | lia]|]). reflexivity.
Qed.
