(* Proofs about the x/stream model (model/Stream.v) against the vocabulary of model/StreamSpec.v:
   inversion ("what a successful call did") and progress ("the call succeeds") lemmas for
   claim_from_stream / add_deposit / set_new_flow_rate / cancel_stream, preservation of
   [str_inv], and the statements behind C10, C11, C12. *)
From MC Require Import lib.Prelude lib.AMap model.Bank model.Stream model.StreamSpec.
From MC Require Import proofs.StreamArith proofs.BankProofs.
From Coq Require Import ZifyBool.
Ltac Zify.zify_post_hook ::= Z.div_mod_to_equations.

Local Open Scope Z_scope.

(* ================================================================== *)
(* Small helpers                                                       *)
(* ================================================================== *)

Ltac dobind H E :=
  match type of H with
  | obind ?e _ = _ => destruct e eqn:E; cbn [obind] in H; try discriminate H
  end.

Ltac dobind_as H v E :=
  match type of H with
  | obind ?e _ = _ => destruct e as [v|?|?] eqn:E; cbn [obind] in H; try discriminate H
  end.

Notation skey := (addr * addr)%type (only parsing).

Lemma skey_dec (k k' : skey) : {k = k'} + {k <> k'}.
Proof.
  destruct (keqb k k') eqn:E; [left; apply keqb_spec; exact E | right; apply keqb_false; exact E].
Qed.

Lemma blocked_not_macc r : blocked r = false -> r <> STREAM_MACC /\ r <> FEE_COLLECTOR.
Proof. intros H; split; intros ->; discriminate H. Qed.

Lemma nonneg_not_macc a : 0 <= a -> a <> STREAM_MACC /\ a <> FEE_COLLECTOR /\ blocked a = false.
Proof. unfold STREAM_MACC, FEE_COLLECTOR, blocked. lia. Qed.

Lemma macc_neq_fee : STREAM_MACC <> FEE_COLLECTOR.
Proof. discriminate. Qed.

Lemma time_storable_0 : time_storable 0 = true.
Proof. reflexivity. Qed.

(* the per-denomination deposit of one stream *)
Definition dep_in (d : denom) (st : stream) : Z := if st_denom st =? d then st_deposit st else 0.
Definition dep_opt (d : denom) (o : option stream) : Z :=
  match o with Some st => dep_in d st | None => 0 end.

Lemma total_deposits_eq s d : total_deposits s d = asum (dep_in d) (s_streams s).
Proof. reflexivity. Qed.

Lemma total_deposits_aset s k st d :
  total_deposits (with_streams s (aset k st (s_streams s))) d
  = total_deposits s d - dep_opt d (aget k (s_streams s)) + dep_in d st.
Proof. rewrite !total_deposits_eq. cbn [with_streams s_streams]. rewrite asum_aset. reflexivity. Qed.

Lemma total_deposits_adel s k d :
  total_deposits (with_streams s (adel k (s_streams s))) d
  = total_deposits s d - dep_opt d (aget k (s_streams s)).
Proof. rewrite !total_deposits_eq. cbn [with_streams s_streams]. rewrite asum_adel. reflexivity. Qed.

Lemma asum_ge_one {V} (f : V -> Z) (m : amap skey V) k v :
  (forall kv, In kv m -> 0 <= f (snd kv)) -> aget k m = Some v -> 0 <= f v <= asum f m.
Proof.
  unfold asum. induction m as [|[k' v'] r IH]; cbn [aget map sumZ snd]; [discriminate|].
  intros Hall Hg.
  assert (Hr : 0 <= sumZ (map (fun kv => f (snd kv)) r)).
  { clear -Hall. induction r as [|x r IH]; cbn; [lia|].
    pose proof (Hall x (or_intror (or_introl eq_refl))).
    assert (0 <= sumZ (map (fun kv => f (snd kv)) r)); [|lia].
    apply IH. intros kv [X|X]; apply Hall; [left|right; right]; auto. }
  pose proof (Hall (k', v') (or_introl eq_refl)) as H0. cbn [snd] in H0.
  destruct (keqb k k').
  - injection Hg as <-. lia.
  - assert (0 <= f v <= sumZ (map (fun kv => f (snd kv)) r)); [|lia].
    apply IH; [|exact Hg]. intros kv X; apply Hall; right; exact X.
Qed.

Lemma In_aget_NoDup {V} (m : amap skey V) k v :
  NoDup (akeys m) -> In (k, v) m -> aget k m = Some v.
Proof.
  induction m as [|[k' v'] r IH]; cbn [In aget akeys map fst]; [tauto|].
  intros ND [X|X]; inversion ND as [|? ? NI ND']; subst.
  - injection X as -> ->. rewrite keqb_refl. reflexivity.
  - destruct (keqb k k') eqn:E.
    + apply keqb_spec in E; subst. exfalso; apply NI.
      change k' with (fst (k', v)). apply in_map. exact X.
    + apply IH; assumption.
Qed.

(* ================================================================== *)
(* Streams derived by the operations                                   *)
(* ================================================================== *)

Definition claimed (now : Z) (st : stream) (remaining : Z) : stream :=
  {| st_denom := st_denom st; st_deposit := remaining; st_rate := st_rate st;
     st_lot := now; st_dzt := st_dzt st; st_cancellable := st_cancellable st |}.

Definition pos (x : Z) : Z := if 0 <? x then x else 0.

Lemma pos_nonneg x : 0 <= x -> pos x = x.
Proof. unfold pos. destruct (0 <? x) eqn:E; lia. Qed.

(* ================================================================== *)
(* ClaimFromStream: inversion                                          *)
(* ================================================================== *)

Lemma claim_inv now b s r sn b' s' c :
  claim_from_stream now b s r sn = Ok (b', s', c) ->
  exists st total remaining recv fee b1,
    aget (r, sn) (s_streams s) = Some st /\ 0 < st_deposit st /\
    calculate_amount_to_claim now (st_dzt st) (st_lot st) (st_deposit st) (st_rate st)
      = (total, remaining) /\
    0 <= total <= st_deposit st /\
    calculate_validator_fee (s_valfee s) total = (recv, fee) /\ 0 <= recv /\
    moved b b1 STREAM_MACC FEE_COLLECTOR (st_denom st) (pos fee) /\
    moved b1 b' STREAM_MACC r (st_denom st) recv /\
    (0 < recv -> blocked r = false) /\
    s' = with_streams s (aset (r, sn) (claimed now st remaining) (s_streams s)) /\
    c = {| cr_receiver := recv; cr_fee := fee; cr_total := total; cr_remaining := remaining |}.
Proof.
  unfold claim_from_stream. intros H.
  destruct (aget (r, sn) (s_streams s)) as [st|] eqn:Hg; [|discriminate].
  destruct (st_deposit st <=? 0) eqn:Hd; [discriminate|].
  destruct (calculate_amount_to_claim now (st_dzt st) (st_lot st) (st_deposit st) (st_rate st))
    as [total remaining] eqn:Ec.
  destruct (total <? 0) eqn:Ht0; [discriminate|].
  destruct (st_deposit st <? total) eqn:Ht1; [discriminate|].
  destruct (calculate_validator_fee (s_valfee s) total) as [recv fee] eqn:Ef.
  destruct (recv <? 0) eqn:Hr0; [discriminate|].
  destruct (if 0 <? fee then bank_send b STREAM_MACC FEE_COLLECTOR (st_denom st) fee else Ok b)
    as [b1|?|?] eqn:E1; cbn [obind] in H; try discriminate.
  destruct (if 0 <? recv then bank_send_m2a b1 STREAM_MACC r (st_denom st) recv else Ok b1)
    as [b2|?|?] eqn:E2; cbn [obind] in H; try discriminate.
  unfold set_stream in H. cbn [st_lot st_dzt] in H.
  destruct (time_storable now && time_storable (st_dzt st)) eqn:Ets; cbn [obind] in H; try discriminate.
  injection H as <- <- <-.
  exists st, total, remaining, recv, fee, b1.
  split; [reflexivity|]. split; [lia|]. split; [exact Ec|]. split; [lia|].
  split; [exact Ef|]. split; [lia|].
  split; [|split; [|split; [|split; reflexivity]]].
  - unfold pos. destruct (0 <? fee).
    + apply bank_send_inv in E1. tauto.
    + injection E1 as <-. apply moved_zero.
  - destruct (0 <? recv) eqn:Hr.
    + apply bank_send_m2a_inv in E2. tauto.
    + injection E2 as <-. assert (recv = 0) as -> by lia. apply moved_zero.
  - intros Hr. destruct (0 <? recv) eqn:Hr'; [|lia]. apply bank_send_m2a_inv in E2. tauto.
Qed.

(* what the claim result says, under the invariant's facts about the stream *)
Lemma claim_amounts vf st now total remaining recv fee :
  0 <= vf <= DEC_ONE -> 1 <= st_rate st -> 0 <= st_deposit st ->
  calculate_amount_to_claim now (st_dzt st) (st_lot st) (st_deposit st) (st_rate st) = (total, remaining) ->
  calculate_validator_fee vf total = (recv, fee) ->
  0 <= total <= st_deposit st /\ remaining = st_deposit st - total /\
  fee = total * vf / DEC_ONE /\ recv = total - fee /\ 0 <= fee <= total /\ 0 <= recv.
Proof.
  intros Hv Hr Hd Ec Ef.
  pose proof (catc_bounds now (st_dzt st) (st_lot st) (st_deposit st) (st_rate st) ltac:(lia) Hd) as Hb.
  rewrite Ec in Hb. destruct Hb as [Hb1 Hb2].
  pose proof (fee_split vf total Hv ltac:(lia)) as Hf. rewrite Ef in Hf. tauto.
Qed.

(* ================================================================== *)
(* Re-establishing the invariant after one stream is written / deleted *)
(* ================================================================== *)

Lemma inv_set now b s b' r sn st' :
  str_inv now b s -> stream_ok now st' -> blocked r = false ->
  (forall d, balance b' STREAM_MACC d =
             balance b STREAM_MACC d - dep_opt d (aget (r, sn) (s_streams s)) + dep_in d st') ->
  str_inv now b' (with_streams s (aset (r, sn) st' (s_streams s))).
Proof.
  intros [K S B V R N] Hok Hbl Hbal.
  constructor; cbn [with_streams s_streams s_valfee]; auto.
  - apply NoDup_akeys_aset; exact K.
  - intros k st H. cbn [with_streams s_streams] in H.
    destruct (skey_dec (r, sn) k) as [<-|Nk].
    + rewrite aget_aset_eq in H. injection H as <-. exact Hok.
    + rewrite aget_aset_neq in H by exact Nk. eapply S; eauto.
  - intros d. rewrite total_deposits_aset, Hbal, (B d). reflexivity.
  - intros r' sn' st H.
    destruct (skey_dec (r, sn) (r', sn')) as [E|Nk].
    + injection E as <- <-. exact Hbl.
    + rewrite aget_aset_neq in H by exact Nk. eapply R; eauto.
Qed.

Lemma inv_del now b s b' r sn :
  str_inv now b s ->
  (forall d, balance b' STREAM_MACC d =
             balance b STREAM_MACC d - dep_opt d (aget (r, sn) (s_streams s))) ->
  str_inv now b' (with_streams s (adel (r, sn) (s_streams s))).
Proof.
  intros [K S B V R N] Hbal.
  assert (Hk : forall k st, aget k (adel (r, sn) (s_streams s)) = Some st -> aget k (s_streams s) = Some st).
  { intros k st H. destruct (skey_dec (r, sn) k) as [<-|Nk].
    - rewrite aget_adel_eq in H by exact K. discriminate.
    - rewrite aget_adel_neq in H by exact Nk. exact H. }
  constructor; cbn [with_streams s_streams s_valfee]; auto.
  - apply NoDup_akeys_adel; exact K.
  - intros k st H. cbn [with_streams s_streams] in H. eapply S; eauto.
  - intros d. rewrite total_deposits_adel, Hbal, (B d). reflexivity.
  - intros r' sn' st H. eapply R; eauto.
Qed.

Lemma escrow_covers now b s r sn st :
  str_inv now b s -> aget (r, sn) (s_streams s) = Some st ->
  st_deposit st <= balance b STREAM_MACC (st_denom st).
Proof.
  intros I Hg. rewrite (si_backed _ _ _ I), total_deposits_eq.
  pose proof (asum_ge_one (dep_in (st_denom st)) (s_streams s) (r, sn) st) as H.
  unfold dep_in at 2 3 in H. rewrite Z.eqb_refl in H. apply H; [|exact Hg].
  intros [k v] Hin. cbn [snd].
  apply In_aget_NoDup in Hin; [|exact (si_keys _ _ _ I)].
  pose proof (so_deposit _ _ (si_streams _ _ _ I _ _ Hin)). unfold dep_in. destruct (_ =? _); lia.
Qed.

(* ================================================================== *)
(* ClaimFromStream: invariant and progress                              *)
(* ================================================================== *)

Lemma claimed_ok now st total remaining :
  stream_ok now st -> time_storable now = true -> 0 < st_deposit st ->
  calculate_amount_to_claim now (st_dzt st) (st_lot st) (st_deposit st) (st_rate st) = (total, remaining) ->
  stream_ok now (claimed now st remaining).
Proof.
  intros [Hr Hd Hl Hls Hds Hsus] Hn Hpos Ec.
  destruct (Z_le_gt_dec (st_dzt st) now) as [Hexp|Hrun].
  - rewrite catc_at_or_after_zero in Ec by exact Hexp. injection Ec as <- <-.
    constructor; cbn [claimed st_rate st_deposit st_lot st_dzt]; auto; try lia.
  - rewrite catc_before_zero in Ec by lia. injection Ec as <- <-.
    destruct Hsus as [Hsus|[Hz _]]; [|lia].
    pose proof (claim_preserves_sustain (st_deposit st) (st_rate st) (st_lot st) (st_dzt st) now
                  ltac:(lia) Hl ltac:(lia) Hsus) as (H1 & H2 & H3 & _).
    constructor; cbn [claimed st_rate st_deposit st_lot st_dzt]; auto; try lia.
Qed.

Lemma claim_preserves_inv now b s r sn b' s' c :
  str_inv now b s -> claim_from_stream now b s r sn = Ok (b', s', c) -> str_inv now b' s'.
Proof.
  intros I H.
  apply claim_inv in H as (st & total & remaining & recv & fee & b1 & Hg & Hd & Ec & Ht & Ef & Hr & M1 & M2 & Hbl & -> & ->).
  pose proof (si_streams _ _ _ I _ _ Hg) as Hok.
  pose proof (si_receivers _ _ _ I _ _ _ Hg) as Hb.
  destruct (blocked_not_macc _ Hb) as [Nr1 Nr2].
  destruct (claim_amounts (s_valfee s) st now total remaining recv fee (si_valfee _ _ _ I)
              ltac:(apply Hok) ltac:(apply Hok) Ec Ef) as (_ & Hrem & _ & Hrecv & Hfee & _).
  apply inv_set with (b := b); auto.
  - eapply claimed_ok; eauto. apply (si_now _ _ _ I).
  - intros d. rewrite Hg. cbn [dep_opt]. unfold dep_in; cbn [claimed st_denom st_deposit].
    rewrite (moved_sender _ _ _ _ _ _ d M2) by congruence.
    rewrite (moved_sender _ _ _ _ _ _ d M1) by exact macc_neq_fee.
    rewrite pos_nonneg by lia.
    destruct (st_denom st =? d) eqn:E1; destruct (d =? st_denom st) eqn:E2; lia.
Qed.

Lemma claim_ok now b s r sn st :
  str_inv now b s -> aget (r, sn) (s_streams s) = Some st -> 0 < st_deposit st ->
  exists b' s' c, claim_from_stream now b s r sn = Ok (b', s', c).
Proof.
  intros I Hg Hd.
  pose proof (si_streams _ _ _ I _ _ Hg) as Hok.
  pose proof (si_receivers _ _ _ I _ _ _ Hg) as Hb.
  pose proof (escrow_covers _ _ _ _ _ _ I Hg) as Hesc.
  unfold claim_from_stream. rewrite Hg.
  destruct (st_deposit st <=? 0) eqn:E0; [lia|].
  destruct (calculate_amount_to_claim now (st_dzt st) (st_lot st) (st_deposit st) (st_rate st))
    as [total remaining] eqn:Ec.
  destruct (calculate_validator_fee (s_valfee s) total) as [recv fee] eqn:Ef.
  destruct (claim_amounts (s_valfee s) st now total remaining recv fee (si_valfee _ _ _ I)
              ltac:(apply Hok) ltac:(apply Hok) Ec Ef) as (Ht & Hrem & _ & Hrecv & Hfee & Hr0).
  destruct (total <? 0) eqn:E1; [lia|].
  destruct (st_deposit st <? total) eqn:E2; [lia|].
  destruct (recv <? 0) eqn:E3; [lia|].
  assert (H1 : exists b1, (if 0 <? fee then bank_send b STREAM_MACC FEE_COLLECTOR (st_denom st) fee else Ok b) = Ok b1
               /\ balance b1 STREAM_MACC (st_denom st) = balance b STREAM_MACC (st_denom st) - fee).
  { destruct (0 <? fee) eqn:Ef0.
    - destruct (bank_send_ok b STREAM_MACC FEE_COLLECTOR (st_denom st) fee) as [b1 E]; try lia.
      exists b1. split; [exact E|]. apply bank_send_inv in E as (_ & _ & M).
      rewrite (moved_sender _ _ _ _ _ _ (st_denom st) M) by exact macc_neq_fee. rewrite Z.eqb_refl. lia.
    - exists b. split; [reflexivity|lia]. }
  destruct H1 as (b1 & -> & Hb1). cbn [obind].
  assert (H2 : exists b2, (if 0 <? recv then bank_send_m2a b1 STREAM_MACC r (st_denom st) recv else Ok b1) = Ok b2).
  { destruct (0 <? recv) eqn:Er0; [|eauto].
    apply bank_send_m2a_ok; [exact Hb|lia|lia]. }
  destruct H2 as (b2 & ->). cbn [obind].
  unfold set_stream. cbn [st_lot st_dzt].
  rewrite (proj1 (si_now _ _ _ I)), (so_dzt_storable _ _ Hok). cbn [andb obind]. eauto.
Qed.

(* frame facts of a claim that need no invariant *)
Lemma claim_conserves now b s r sn b' s' c d :
  claim_from_stream now b s r sn = Ok (b', s', c) ->
  total_balance b' d = total_balance b d /\ supply_of b' d = supply_of b d.
Proof.
  intros H. apply claim_inv in H as (st & total & remaining & recv & fee & b1 & _ & _ & _ & _ & _ & _ & M1 & M2 & _).
  rewrite (moved_total _ _ _ _ _ _ d M2), (moved_total _ _ _ _ _ _ d M1).
  rewrite (moved_supply _ _ _ _ _ _ d M2), (moved_supply _ _ _ _ _ _ d M1). auto.
Qed.

Lemma claim_frame now b s r sn b' s' c :
  claim_from_stream now b s r sn = Ok (b', s', c) ->
  s_valfee s' = s_valfee s /\ forall k, k <> (r, sn) -> aget k (s_streams s') = aget k (s_streams s).
Proof.
  intros H. apply claim_inv in H as (st & total & remaining & recv & fee & b1 & _ & _ & _ & _ & _ & _ & _ & _ & _ & -> & _).
  split; [reflexivity|]. intros k Nk. cbn [with_streams s_streams]. apply aget_aset_neq. congruence.
Qed.

Lemma claim_balance_other now b s r sn b' s' c a d :
  claim_from_stream now b s r sn = Ok (b', s', c) ->
  a <> STREAM_MACC -> a <> FEE_COLLECTOR -> a <> r -> balance b' a d = balance b a d.
Proof.
  intros H N1 N2 N3. apply claim_inv in H as (st & total & remaining & recv & fee & b1 & _ & _ & _ & _ & _ & _ & M1 & M2 & _).
  rewrite (moved_other _ _ _ _ _ _ a d M2) by assumption.
  apply (moved_other _ _ _ _ _ _ a d M1); assumption.
Qed.

(* full description of a claim under the invariant *)
Lemma claim_spec now b s r sn st b' s' c :
  str_inv now b s -> aget (r, sn) (s_streams s) = Some st ->
  claim_from_stream now b s r sn = Ok (b', s', c) ->
  let tr := calculate_amount_to_claim now (st_dzt st) (st_lot st) (st_deposit st) (st_rate st) in
  let d := st_denom st in
  str_inv now b' s' /\ 0 < st_deposit st /\
  cr_total c = fst tr /\ cr_remaining c = snd tr /\
  0 <= cr_total c <= st_deposit st /\ cr_remaining c = st_deposit st - cr_total c /\
  cr_fee c = cr_total c * s_valfee s / DEC_ONE /\ cr_receiver c = cr_total c - cr_fee c /\
  0 <= cr_fee c <= cr_total c /\ 0 <= cr_receiver c /\
  s' = with_streams s (aset (r, sn) (claimed now st (cr_remaining c)) (s_streams s)) /\
  balance b' r d = balance b r d + cr_receiver c /\
  balance b' FEE_COLLECTOR d = balance b FEE_COLLECTOR d + cr_fee c /\
  balance b' STREAM_MACC d = balance b STREAM_MACC d - cr_total c /\
  (forall a d', a <> STREAM_MACC -> a <> FEE_COLLECTOR -> a <> r -> balance b' a d' = balance b a d') /\
  (forall a d', d' <> d -> balance b' a d' = balance b a d').
Proof.
  intros I Hg H. cbv zeta.
  pose proof (claim_preserves_inv _ _ _ _ _ _ _ _ I H) as I'.
  pose proof H as H0.
  apply claim_inv in H as (st0 & total & remaining & recv & fee & b1 & Hg' & Hd & Ec & Ht & Ef & Hr & M1 & M2 & Hbl & -> & ->).
  rewrite Hg in Hg'. injection Hg' as <-.
  pose proof (si_streams _ _ _ I _ _ Hg) as Hok.
  pose proof (si_receivers _ _ _ I _ _ _ Hg) as Hb.
  destruct (blocked_not_macc _ Hb) as [Nr1 Nr2].
  destruct (claim_amounts (s_valfee s) st now total remaining recv fee (si_valfee _ _ _ I)
              ltac:(apply Hok) ltac:(apply Hok) Ec Ef) as (_ & Hrem & Hfee & Hrecv & Hfb & _).
  rewrite Ec. cbn [fst snd cr_total cr_remaining cr_fee cr_receiver].
  rewrite (pos_nonneg fee) in M1 by lia.
  repeat (split; [first [assumption | reflexivity | lia]|]).
  split; [|split; [|split; [|split]]].
  - rewrite (moved_recipient _ _ _ _ _ _ _ M2) by congruence.
    rewrite (moved_other _ _ _ _ _ _ r _ M1) by congruence. rewrite Z.eqb_refl. reflexivity.
  - rewrite (moved_other _ _ _ _ _ _ FEE_COLLECTOR _ M2) by (first [congruence | discriminate]).
    rewrite (moved_recipient _ _ _ _ _ _ _ M1) by exact macc_neq_fee. rewrite Z.eqb_refl. reflexivity.
  - rewrite (moved_sender _ _ _ _ _ _ _ M2) by congruence.
    rewrite (moved_sender _ _ _ _ _ _ _ M1) by exact macc_neq_fee. rewrite Z.eqb_refl. lia.
  - intros a d' N1 N2 N3. eapply claim_balance_other; eauto.
  - intros a d' Nd. rewrite (moved_other_denom _ _ _ _ _ _ a d' M2) by exact Nd.
    apply (moved_other_denom _ _ _ _ _ _ a d' M1); exact Nd.
Qed.

(* ================================================================== *)
(* AddDeposit                                                          *)
(* ================================================================== *)

Definition topped (st1 : stream) (amt lot' dzt' : Z) : stream :=
  {| st_denom := st_denom st1; st_deposit := st_deposit st1 + amt; st_rate := st_rate st1;
     st_lot := lot'; st_dzt := dzt'; st_cancellable := st_cancellable st1 |}.

(* the common tail of AddDeposit: take the coins, extend/restart the zero time, store *)
Lemma topup_finish now b1 s1 r sn st1 lot' base ext amt b2 s2 :
  str_inv now b1 s1 -> aget (r, sn) (s_streams s1) = Some st1 ->
  0 < amt ->
  calculate_duration amt (st_rate st1) = Ok ext ->
  ((lot' = now /\ base = now /\ st_deposit st1 = 0) \/
   (lot' = st_lot st1 /\ base = st_dzt st1 /\ now < st_dzt st1)) ->
  bank_send b1 sn STREAM_MACC (st_denom st1) amt = Ok b2 ->
  set_stream s1 r sn (topped st1 amt lot' (add_seconds base ext)) = Ok s2 ->
  (sn <> STREAM_MACC -> str_inv now b2 s2) /\ add_seconds base ext = base + (amt / st_rate st1) * NS /\
  s2 = with_streams s1 (aset (r, sn) (topped st1 amt lot' (base + (amt / st_rate st1) * NS)) (s_streams s1)).
Proof.
  intros I Hg Hamt Hdur Hcase Hsend Hset.
  pose proof (si_streams _ _ _ I _ _ Hg) as Hok.
  destruct Hok as [Hr Hd Hl Hls Hds Hsus].
  destruct (si_now _ _ _ I) as [Hns Hn0].
  pose proof (duration_range _ _ _ Hdur) as Hext.
  apply duration_exact in Hdur; [|lia|lia]. subst ext.
  assert (Hbs : time_storable base = true) by (destruct Hcase as [(_ & -> & _)|(_ & -> & _)]; assumption).
  unfold set_stream in Hset. cbn [topped st_lot st_dzt] in Hset.
  destruct (time_storable lot' && time_storable (add_seconds base (amt / st_rate st1))) eqn:Est; [|discriminate].
  apply andb_true_iff in Est as [Hlot' Hdz].
  pose proof (add_seconds_wrap_not_storable _ _ Hbs Hext Hdz) as Hadd.
  injection Hset as <-. rewrite Hadd in *.
  split; [intros Nsn|split; [reflexivity|reflexivity]].
  apply bank_send_inv in Hsend as (_ & _ & M).
  apply inv_set with (b := b1); auto.
  - constructor; cbn [topped st_rate st_deposit st_lot st_dzt]; auto; try lia.
    left. destruct Hcase as [(-> & -> & Hz)|(-> & -> & Hrun)].
    + rewrite Hz. apply restart_sustain; lia.
    + destruct Hsus as [Hsus|[_ Hx]]; [|lia]. apply topup_preserves_sustain; lia.
  - eapply si_receivers; eauto.
  - intros d. rewrite Hg. cbn [dep_opt]. unfold dep_in; cbn [topped st_denom st_deposit].
    rewrite (moved_recipient _ _ _ _ _ _ d M) by exact Nsn.
    destruct (st_denom st1 =? d) eqn:E1; destruct (d =? st_denom st1) eqn:E2; lia.
Qed.

Lemma add_deposit_spec now b s r sn d amt b2 s2 st :
  str_inv now b s -> aget (r, sn) (s_streams s) = Some st -> 0 < amt ->
  add_deposit now b s r sn d amt = Ok (b2, s2) ->
  (sn <> STREAM_MACC -> str_inv now b2 s2) /\ d = st_denom st /\ amt / st_rate st < two63 /\
  exists b1 s1 st1 lot' dzt',
    bank_send b1 sn STREAM_MACC d amt = Ok b2 /\
    s2 = with_streams s1 (aset (r, sn) (topped st1 amt lot' dzt') (s_streams s1)) /\
    st_denom st1 = st_denom st /\ st_rate st1 = st_rate st /\ st_cancellable st1 = st_cancellable st /\
    s_valfee s1 = s_valfee s /\
    (forall k, k <> (r, sn) -> aget k (s_streams s1) = aget k (s_streams s)) /\
    ((now < st_dzt st /\ b1 = b /\ s1 = s /\ st1 = st /\ lot' = st_lot st /\
      dzt' = st_dzt st + (amt / st_rate st) * NS)
     \/
     (st_dzt st <= now /\ st_deposit st1 = 0 /\ lot' = now /\ dzt' = now + (amt / st_rate st) * NS /\
      ((0 < st_deposit st /\ exists c, claim_from_stream now b s r sn = Ok (b1, s1, c)
                                       /\ cr_total c = st_deposit st /\ cr_remaining c = 0)
       \/ (st_deposit st = 0 /\ b1 = b /\ s1 = s)))).
Proof.
  intros I Hg Hamt H.
  pose proof (si_streams _ _ _ I _ _ Hg) as Hok.
  unfold add_deposit in H. rewrite Hg in H.
  destruct (d =? st_denom st) eqn:Ed; cbn [negb] in H; [|discriminate].
  assert (d = st_denom st) by lia. subst d.
  destruct (calculate_duration amt (st_rate st)) as [ext|?|?] eqn:Hdur; cbn [obind] in H; try discriminate.
  assert (Hq : amt / st_rate st < two63).
  { pose proof (duration_range _ _ _ Hdur). apply duration_exact in Hdur; [lia| |lia]. apply Hok. }
  destruct (st_dzt st <=? now) eqn:Edz.
  - (* expired: settle, restart from now *)
    destruct (0 <? st_deposit st) eqn:Edep.
    + destruct (claim_from_stream now b s r sn) as [[[b1 s1] c]|?|?] eqn:Ecl; cbn [obind] in H; try discriminate.
      destruct (claim_spec _ _ _ _ _ _ _ _ _ I Hg Ecl) as (I1 & _ & Htot & Hrem & _ & _ & _ & _ & _ & _ & Hs1 & _).
      rewrite catc_at_or_after_zero in Htot, Hrem by lia. cbn [fst snd] in Htot, Hrem.
      assert (Hg1 : aget (r, sn) (s_streams s1) = Some (claimed now st 0)).
      { rewrite Hs1, Hrem. cbn [with_streams s_streams]. apply aget_aset_eq. }
      rewrite Hg1 in H. cbn [obind claimed st_denom st_deposit st_rate st_cancellable st_dzt] in H.
      destruct (bank_send b1 sn STREAM_MACC (st_denom st) amt) as [b2'|?|?] eqn:Hsend; cbn [obind] in H; try discriminate.
      dobind_as H s0 Hset. injection H as <- <-.
      destruct (topup_finish now b1 s1 r sn (claimed now st 0) now now ext amt b2' s0 I1 Hg1 Hamt Hdur
                  ltac:(left; auto) Hsend Hset) as (I2 & Hadd & Hs2).
      split; [exact I2|]. split; [reflexivity|]. split; [exact Hq|].
      exists b1, s1, (claimed now st 0), now, (now + amt / st_rate st * NS).
      destruct (claim_frame _ _ _ _ _ _ _ _ Ecl) as [Hvf Hfr].
      repeat (split; [first [assumption | reflexivity]|]).
      right. repeat (split; [first [reflexivity | lia]|]).
      left. split; [lia|]. exists c. auto.
    + cbn [obind] in H. rewrite Hg in H. cbn [obind] in H.
      destruct (bank_send b sn STREAM_MACC (st_denom st) amt) as [b2'|?|?] eqn:Hsend; cbn [obind] in H; try discriminate.
      dobind_as H s0 Hset. injection H as <- <-.
      assert (Hz : st_deposit st = 0) by (pose proof (so_deposit _ _ Hok); lia).
      pose proof (topup_finish now b s r sn st now now ext amt b2' s0 I Hg Hamt Hdur
                  ltac:(left; auto) Hsend) as HF.
      unfold topped in HF. cbn [st_denom st_deposit st_rate st_cancellable] in HF.
      destruct (HF Hset) as (I2 & Hadd & Hs2).
      split; [exact I2|]. split; [reflexivity|]. split; [exact Hq|].
      exists b, s, st, now, (now + amt / st_rate st * NS).
      repeat (split; [first [assumption | reflexivity]|]).
      right. repeat (split; [first [reflexivity | lia]|]).
      right. auto.
  - cbn [obind] in H.
    destruct (bank_send b sn STREAM_MACC (st_denom st) amt) as [b2'|?|?] eqn:Hsend; cbn [obind] in H; try discriminate.
    dobind_as H s0 Hset. injection H as <- <-.
    destruct (topup_finish now b s r sn st (st_lot st) (st_dzt st) ext amt b2' s0 I Hg Hamt Hdur
                ltac:(right; repeat split; lia) Hsend Hset) as (I2 & Hadd & Hs2).
    split; [exact I2|]. split; [reflexivity|]. split; [exact Hq|].
    exists b, s, st, (st_lot st), (st_dzt st + amt / st_rate st * NS).
    repeat (split; [first [assumption | reflexivity]|]).
    left. repeat (split; [first [reflexivity | lia]|]). reflexivity.
Qed.

(* ================================================================== *)
(* SetNewFlowRate                                                      *)
(* ================================================================== *)

Definition rerated (st1 : stream) (rate dzt' : Z) : stream :=
  {| st_denom := st_denom st1; st_deposit := st_deposit st1; st_rate := rate;
     st_lot := st_lot st1; st_dzt := dzt'; st_cancellable := st_cancellable st1 |}.

Lemma set_new_flow_rate_spec now b s r sn rate b2 s2 st :
  str_inv now b s -> aget (r, sn) (s_streams s) = Some st -> 1 <= rate ->
  set_new_flow_rate now b s r sn rate = Ok (b2, s2) ->
  (rate < two63 -> str_inv now b2 s2) /\
  exists s1 st1 dzt',
    s2 = with_streams s1 (aset (r, sn) (rerated st1 rate dzt') (s_streams s1)) /\
    s_valfee s1 = s_valfee s /\
    (forall k, k <> (r, sn) -> aget k (s_streams s1) = aget k (s_streams s)) /\
    ((0 < st_deposit st /\
      exists c, claim_from_stream now b s r sn = Ok (b2, s1, c) /\
                st1 = claimed now st (cr_remaining c) /\
                dzt' = now + (cr_remaining c / rate) * NS)
     \/ (st_deposit st = 0 /\ b2 = b /\ s1 = s /\ st1 = st /\ dzt' = now)).
Proof.
  intros I Hg Hrate H.
  pose proof (si_streams _ _ _ I _ _ Hg) as Hok.
  destruct (si_now _ _ _ I) as [Hns Hn0].
  unfold set_new_flow_rate in H. rewrite Hg in H.
  destruct (0 <? st_deposit st) eqn:Edep.
  - destruct (claim_from_stream now b s r sn) as [[[b1 s1] c]|?|?] eqn:Ecl; cbn [obind] in H; try discriminate.
    destruct (claim_spec _ _ _ _ _ _ _ _ _ I Hg Ecl) as (I1 & _ & _ & _ & Htot & Hrem & _ & _ & _ & _ & Hs1 & _).
    assert (Hg1 : aget (r, sn) (s_streams s1) = Some (claimed now st (cr_remaining c))).
    { rewrite Hs1. cbn [with_streams s_streams]. apply aget_aset_eq. }
    rewrite Hg1 in H. cbn [claimed st_deposit] in H.
    destruct (calculate_duration (cr_remaining c) rate) as [dur|?|?] eqn:Hdur; cbn [obind] in H; try discriminate.
    fold (claimed now st (cr_remaining c)) in H.
    change (obind (set_stream s1 r sn (rerated (claimed now st (cr_remaining c)) rate (add_seconds now dur)))
                  (fun s2 => Ok (b1, s2)) = Ok (b2, s2)) in H.
    dobind_as H s0 Hset. injection H as <- <-.
    pose proof (duration_range _ _ _ Hdur) as Hext.
    apply duration_exact in Hdur; [|lia|lia]. subst dur.
    unfold set_stream in Hset. cbn [rerated claimed st_lot st_dzt] in Hset.
    destruct (time_storable now && time_storable (add_seconds now (cr_remaining c / rate))) eqn:Est; [|discriminate].
    apply andb_true_iff in Est as [_ Hdz].
    pose proof (add_seconds_wrap_not_storable _ _ Hns Hext Hdz) as Hadd.
    injection Hset as <-. rewrite Hadd in *.
    destruct (claim_frame _ _ _ _ _ _ _ _ Ecl) as [Hvf Hfr].
    split.
    + intros Hr63. apply inv_set with (b := b1); auto.
      * constructor; cbn [rerated claimed st_rate st_deposit st_lot st_dzt]; auto; try lia.
        left. apply restart_sustain; lia.
      * eapply si_receivers; eauto.
      * intros d. rewrite Hg1. cbn [dep_opt]. unfold dep_in; cbn [rerated claimed st_denom st_deposit]. lia.
    + exists s1, (claimed now st (cr_remaining c)), (now + cr_remaining c / rate * NS).
      repeat (split; [first [assumption | reflexivity]|]).
      left. split; [lia|]. exists c. auto.
  - cbn [obind] in H.
    change (obind (set_stream s r sn (rerated st rate now)) (fun s2 => Ok (b, s2)) = Ok (b2, s2)) in H.
    dobind_as H s0 Hset. injection H as <- <-.
    unfold set_stream in Hset. cbn [rerated st_lot st_dzt] in Hset.
    destruct (time_storable (st_lot st) && time_storable now) eqn:Est; [|discriminate].
    injection Hset as <-.
    assert (Hz : st_deposit st = 0) by (pose proof (so_deposit _ _ Hok); lia).
    split.
    + intros Hr63. destruct Hok as [Hr Hd Hl Hls Hds Hsus].
      apply inv_set with (b := b); auto.
      * constructor; cbn [rerated st_rate st_deposit st_lot st_dzt]; auto; try lia.
      * eapply si_receivers; eauto.
      * intros d. rewrite Hg. cbn [dep_opt]. unfold dep_in; cbn [rerated st_denom st_deposit]. lia.
    + exists s, st, now.
      repeat (split; [first [assumption | reflexivity]|]).
      right. auto.
Qed.

(* ================================================================== *)
(* CancelStreamBySenderReceiver                                        *)
(* ================================================================== *)

Lemma cancel_finish now b1 s1 r sn st1 b2 :
  str_inv now b1 s1 -> aget (r, sn) (s_streams s1) = Some st1 ->
  (if 0 <? st_deposit st1
   then bank_send_m2a b1 STREAM_MACC sn (st_denom st1) (st_deposit st1) else Ok b1) = Ok b2 ->
  str_inv now b2 (with_streams s1 (adel (r, sn) (s_streams s1))) /\
  moved b1 b2 STREAM_MACC sn (st_denom st1) (st_deposit st1) /\
  (0 < st_deposit st1 -> blocked sn = false).
Proof.
  intros I Hg H.
  pose proof (so_deposit _ _ (si_streams _ _ _ I _ _ Hg)) as Hd.
  destruct (0 <? st_deposit st1) eqn:E.
  - apply bank_send_m2a_inv in H as (Hb & _ & _ & M).
    split; [|auto].
    apply inv_del with (b := b1); auto.
    intros d. rewrite Hg. cbn [dep_opt]. unfold dep_in.
    rewrite (moved_sender _ _ _ _ _ _ d M).
    + destruct (st_denom st1 =? d) eqn:E1; destruct (d =? st_denom st1) eqn:E2; lia.
    + intros X. rewrite <- X in Hb. discriminate Hb.
  - injection H as <-. assert (Hz : st_deposit st1 = 0) by lia.
    split; [|split; [rewrite Hz; apply moved_zero | lia]].
    apply inv_del with (b := b1); auto.
    intros d. rewrite Hg. cbn [dep_opt]. unfold dep_in. destruct (_ =? _); lia.
Qed.

Lemma cancel_spec now b s r sn b2 s2 st :
  str_inv now b s -> aget (r, sn) (s_streams s) = Some st ->
  cancel_stream now b s r sn = Ok (b2, s2) ->
  str_inv now b2 s2 /\ st_cancellable st = true /\
  exists b1 s1 R,
    s2 = with_streams s1 (adel (r, sn) (s_streams s1)) /\
    s_valfee s1 = s_valfee s /\
    (forall k, k <> (r, sn) -> aget k (s_streams s1) = aget k (s_streams s)) /\
    NoDup (akeys (s_streams s1)) /\
    R = snd (calculate_amount_to_claim now (st_dzt st) (st_lot st) (st_deposit st) (st_rate st)) /\
    0 <= R /\
    moved b1 b2 STREAM_MACC sn (st_denom st) R /\ (0 < R -> blocked sn = false) /\
    ((0 < st_deposit st /\ exists c, claim_from_stream now b s r sn = Ok (b1, s1, c) /\ cr_remaining c = R)
     \/ (st_deposit st = 0 /\ b1 = b /\ s1 = s)).
Proof.
  intros I Hg H.
  pose proof (si_streams _ _ _ I _ _ Hg) as Hok.
  unfold cancel_stream in H. rewrite Hg in H.
  destruct (st_cancellable st) eqn:Ecan; cbn [negb] in H; [|discriminate].
  destruct (0 <? st_deposit st) eqn:Edep.
  - destruct (claim_from_stream now b s r sn) as [[[b1 s1] c]|?|?] eqn:Ecl; cbn [obind] in H; try discriminate.
    destruct (claim_spec _ _ _ _ _ _ _ _ _ I Hg Ecl) as (I1 & _ & _ & Hrem & Htot & Hrem' & _ & _ & _ & _ & Hs1 & _).
    assert (Hg1 : aget (r, sn) (s_streams s1) = Some (claimed now st (cr_remaining c))).
    { rewrite Hs1. cbn [with_streams s_streams]. apply aget_aset_eq. }
    rewrite Hg1 in H.
    dobind_as H b2' Hsend. injection H as <- <-.
    destruct (cancel_finish _ _ _ _ _ _ _ I1 Hg1 Hsend) as (I2 & M & Hbl).
    cbn [claimed st_denom st_deposit] in M, Hbl.
    destruct (claim_frame _ _ _ _ _ _ _ _ Ecl) as [Hvf Hfr].
    split; [exact I2|]. split; [reflexivity|].
    exists b1, s1, (cr_remaining c).
    repeat (split; [first [assumption | reflexivity | exact (si_keys _ _ _ I1) | lia]|]).
    left. split; [lia|]. exists c. auto.
  - cbn [obind] in H. rewrite Hg in H.
    dobind_as H b2' Hsend. injection H as <- <-.
    destruct (cancel_finish _ _ _ _ _ _ _ I Hg Hsend) as (I2 & M & Hbl).
    assert (Hz : st_deposit st = 0) by (pose proof (so_deposit _ _ Hok); lia).
    split; [exact I2|]. split; [reflexivity|].
    exists b, s, 0.
    assert (Hc0 : snd (calculate_amount_to_claim now (st_dzt st) (st_lot st) (st_deposit st) (st_rate st)) = 0).
    { rewrite Hz, catc_zero_deposit; [reflexivity|]. pose proof (so_rate _ _ Hok). lia. }
    rewrite Hz in M.
    repeat (split; [first [assumption | reflexivity | exact (si_keys _ _ _ I) | lia]|]).
    right. auto.
Qed.

(* ================================================================== *)
(* Message level: inversion of str_exec                                 *)
(* ================================================================== *)

Lemma aset_aset_same {V} (k : skey) (v v0 : V) (m : amap skey V) :
  aset k v (aset k v0 m) = aset k v m.
Proof.
  induction m as [|[k' v'] r IH]; cbn [aset].
  - rewrite keqb_refl. reflexivity.
  - destruct (keqb k k') eqn:E; cbn [aset].
    + rewrite keqb_refl. reflexivity.
    + rewrite E, IH. reflexivity.
Qed.

Definition created (d : denom) (amt rate now : Z) : stream :=
  {| st_denom := d; st_deposit := amt; st_rate := rate; st_lot := now;
     st_dzt := now + (amt / rate) * NS; st_cancellable := true |}.

Lemma create_inv now b s sn r d amt rate b' s' resp :
  time_storable now = true -> 0 <= now ->
  str_exec now b s (SCreate sn r d amt rate) = Ok (b', s', resp) ->
  blocked r = false /\ sn <> r /\ aget (r, sn) (s_streams s) = None /\ 0 < amt /\ 1 <= rate /\
  60 <= amt / rate < two63 /\ resp = RNone /\
  bank_send b sn STREAM_MACC d amt = Ok b' /\
  time_storable (now + (amt / rate) * NS) = true /\
  s' = with_streams s (aset (r, sn) (created d amt rate now) (s_streams s)).
Proof.
  intros Hns Hn0 H. unfold str_exec in H.
  destruct (blocked r) eqn:Hb; [discriminate|].
  destruct (sn =? r) eqn:Hsr; [discriminate|].
  unfold ahas in H. destruct (aget (r, sn) (s_streams s)) eqn:Hg; [discriminate|].
  destruct (amt <=? 0) eqn:Ha; [discriminate|].
  destruct (rate <=? 0) eqn:Hr; [discriminate|].
  destruct (calculate_duration amt rate) as [dur|?|?] eqn:Hdur; cbn [obind] in H; try discriminate.
  destruct (dur <? 60) eqn:H60; [discriminate|].
  unfold set_stream at 1 in H. cbn [st_lot st_dzt] in H.
  rewrite Hns, time_storable_0 in H. cbn [andb obind] in H.
  unfold add_deposit in H. cbn [with_streams s_streams] in H.
  rewrite aget_aset_eq in H. cbn [st_denom st_rate st_dzt st_deposit st_lot st_cancellable] in H.
  rewrite Z.eqb_refl, Hdur in H. cbn [negb obind] in H.
  destruct (0 <=? now) eqn:E0; [|lia].
  change (0 <? 0) with false in H. cbn [obind with_streams s_streams] in H.
  rewrite aget_aset_eq in H. cbn [obind st_denom st_rate st_dzt st_deposit st_lot st_cancellable] in H.
  destruct (bank_send b sn STREAM_MACC d amt) as [b2|?|?] eqn:Hsend; cbn [obind] in H; try discriminate.
  unfold set_stream in H. cbn [st_lot st_dzt] in H.
  destruct (time_storable now && time_storable (add_seconds now dur)) eqn:Est; cbn [obind] in H; [|discriminate].
  apply andb_true_iff in Est as [_ Hdz].
  injection H as <- <- <-.
  pose proof (duration_range _ _ _ Hdur) as Hext.
  apply duration_exact in Hdur; [|lia|lia]. subst dur.
  pose proof (add_seconds_wrap_not_storable _ _ Hns Hext Hdz) as Hadd.
  rewrite Hadd in *.
  repeat (split; [first [assumption | reflexivity | lia]|]).
  cbn [with_streams s_streams s_valfee]. rewrite aset_aset_same.
  unfold with_streams, created. cbn [s_valfee]. rewrite ?Z.add_0_l. reflexivity.
Qed.

Lemma claim_exec_inv now b s sn r b' s' resp :
  str_exec now b s (SClaim sn r) = Ok (b', s', resp) ->
  exists c, resp = RClaim c /\ claim_from_stream now b s r sn = Ok (b', s', c).
Proof.
  unfold str_exec. intros H. destruct (negb _); [discriminate|].
  destruct (claim_from_stream now b s r sn) as [[[b1 s1] c]|?|?]; cbn [obind] in H; try discriminate.
  injection H as <- <- <-. eauto.
Qed.

Lemma topup_exec_inv now b s sn r d amt b' s' resp :
  str_exec now b s (STopUp sn r d amt) = Ok (b', s', resp) ->
  0 < amt /\ exists st, aget (r, sn) (s_streams s) = Some st /\ d = st_denom st /\
  add_deposit now b s r sn d amt = Ok (b', s') /\
  resp = match aget (r, sn) (s_streams s') with
         | Some st1 => RTopUp (st_deposit st1) (st_dzt st1) | None => RNone end.
Proof.
  unfold str_exec. intros H. destruct (amt <=? 0) eqn:Ha; [discriminate|].
  destruct (aget (r, sn) (s_streams s)) as [st|] eqn:Hg; [|discriminate].
  destruct (d =? st_denom st) eqn:Ed; cbn [negb] in H; [|discriminate].
  destruct (add_deposit now b s r sn d amt) as [[b1 s1]|?|?]; cbn [obind] in H; try discriminate.
  split; [lia|]. exists st. split; [reflexivity|]. split; [lia|].
  destruct (aget (r, sn) (s_streams s1)) eqn:Hg1; injection H as <- <- <-; rewrite Hg1; auto.
Qed.

Lemma flow_exec_inv now b s sn r rate b' s' resp :
  str_exec now b s (SUpdateFlow sn r rate) = Ok (b', s', resp) ->
  1 <= rate /\ (exists st, aget (r, sn) (s_streams s) = Some st) /\
  set_new_flow_rate now b s r sn rate = Ok (b', s') /\ resp = RNone.
Proof.
  unfold str_exec. intros H. destruct (rate <=? 0) eqn:Hr; [discriminate|].
  unfold ahas in H. destruct (aget (r, sn) (s_streams s)) as [st|] eqn:Hg; cbn [negb] in H; [|discriminate].
  destruct (set_new_flow_rate now b s r sn rate) as [[b1 s1]|?|?]; cbn [obind] in H; try discriminate.
  injection H as <- <- <-. split; [lia|]. eauto.
Qed.

Lemma cancel_exec_inv now b s sn r b' s' resp :
  str_exec now b s (SCancel sn r) = Ok (b', s', resp) ->
  exists st, aget (r, sn) (s_streams s) = Some st /\ st_cancellable st = true /\
  cancel_stream now b s r sn = Ok (b', s') /\ resp = RNone.
Proof.
  unfold str_exec. intros H.
  destruct (aget (r, sn) (s_streams s)) as [st|] eqn:Hg; [|discriminate].
  destruct (st_cancellable st) eqn:Ec; cbn [negb] in H; [|discriminate].
  destruct (cancel_stream now b s r sn) as [[b1 s1]|?|?]; cbn [obind] in H; try discriminate.
  injection H as <- <- <-. eauto.
Qed.

(* ================================================================== *)
(* The invariant is preserved by every successful message (C11 item 8)  *)
(* ================================================================== *)

Lemma created_ok now d amt rate :
  time_storable now = true -> 0 < amt -> 1 <= rate < two63 ->
  time_storable (now + (amt / rate) * NS) = true ->
  stream_ok now (created d amt rate now).
Proof.
  intros Hns Ha Hr Hdz.
  constructor; cbn [created st_rate st_deposit st_lot st_dzt]; auto; try lia.
  left. apply restart_sustain; lia.
Qed.

Theorem str_exec_preserves_inv now b s m b' s' resp :
  str_inv now b s -> str_msg_wf m ->
  str_exec now b s m = Ok (b', s', resp) -> str_inv now b' s'.
Proof.
  intros I [Hsig Hwf] H.
  destruct (si_now _ _ _ I) as [Hns Hn0].
  destruct m as [sn r d amt rate | sn r | sn r d amt | sn r rate | sn r]; cbn [str_signer] in Hsig.
  - apply create_inv in H as (Hb & Nsr & Hg & Ha & Hr & Hq & -> & Hsend & Hdz & ->); auto.
    apply bank_send_inv in Hsend as (_ & _ & M).
    destruct (nonneg_not_macc _ Hsig) as (Nsn & _ & _).
    apply inv_set with (b := b); auto.
    + apply created_ok; auto; lia.
    + intros d'. rewrite Hg. cbn [dep_opt]. unfold dep_in; cbn [created st_denom st_deposit].
      rewrite (moved_recipient _ _ _ _ _ _ d' M) by exact Nsn.
      destruct (d =? d') eqn:E1; destruct (d' =? d) eqn:E2; lia.
  - apply claim_exec_inv in H as (c & -> & H). eapply claim_preserves_inv; eauto.
  - apply topup_exec_inv in H as (Ha & st & Hg & -> & H & _).
    destruct (nonneg_not_macc _ Hsig) as (Nsn & _ & _).
    destruct (add_deposit_spec _ _ _ _ _ _ _ _ _ _ I Hg Ha H) as (I2 & _). auto.
  - apply flow_exec_inv in H as (Hr & (st & Hg) & H & _).
    destruct (set_new_flow_rate_spec _ _ _ _ _ _ _ _ _ I Hg Hr H) as (I2 & _). auto.
  - apply cancel_exec_inv in H as (st & Hg & _ & H & _).
    destruct (cancel_spec _ _ _ _ _ _ _ _ I Hg H) as (I2 & _). exact I2.
Qed.

Theorem sustain_step now b s m b' s' resp :
  str_inv now b s -> str_msg_wf m -> str_validate_basic m = Ok tt ->
  str_exec now b s m = Ok (b', s', resp) -> str_inv now b' s'.
Proof. intros I W _ H. eapply str_exec_preserves_inv; eauto. Qed.

Theorem inv_time_mono now now' b s :
  str_inv now b s -> now <= now' -> time_storable now' = true -> str_inv now' b s.
Proof.
  intros [K S B V R [Hns Hn0]] Hle Hns'.
  constructor; auto; [|split; [assumption|lia]].
  intros k st Hg. destruct (S k st Hg) as [Hr Hd Hl Hls Hds Hsus].
  constructor; auto; lia.
Qed.

Lemma str_step_preserves_inv now t b s m :
  str_inv now b s -> now <= t -> time_storable t = true -> str_msg_wf m ->
  str_inv t (fst (str_step (b, s) (t, m))) (snd (str_step (b, s) (t, m))).
Proof.
  intros I Hle Hst W. pose proof (inv_time_mono _ _ _ _ I Hle Hst) as It.
  unfold str_step. cbn [fst snd].
  destruct (str_validate_basic m); try exact It.
  destruct (str_exec t b s m) as [[[b' s'] resp]|?|?] eqn:E; try exact It.
  cbn [fst snd]. eapply str_exec_preserves_inv; eauto.
Qed.

Theorem sustain_reachable now0 b0 s0 h :
  str_inv now0 b0 s0 -> times_sorted now0 h ->
  str_inv (last_time now0 h) (fst (str_run (b0, s0) h)) (snd (str_run (b0, s0) h)).
Proof.
  revert now0 b0 s0. induction h as [|[t m] h IH]; intros now0 b0 s0 I TS.
  - exact I.
  - cbn [times_sorted] in TS. destruct TS as (Hle & Hst & W & TS).
    unfold str_run, last_time. cbn [fold_left fst].
    pose proof (str_step_preserves_inv _ _ _ _ _ I Hle Hst W) as I1.
    destruct (str_step (b0, s0) (t, m)) as [b1 s1] eqn:E. cbn [fst snd] in I1.
    exact (IH t b1 s1 I1 TS).
Qed.

(* ================================================================== *)
(* C11: the deposit-zero time after each operation                      *)
(* ================================================================== *)

Theorem zero_time_create now b s sn r d amt rate b' s' resp :
  str_inv now b s -> str_exec now b s (SCreate sn r d amt rate) = Ok (b', s', resp) ->
  exists st, aget (r, sn) (s_streams s') = Some st /\ st_deposit st = amt /\ st_rate st = rate /\
             st_lot st = now /\ st_dzt st = now + (amt / rate) * NS /\ st_denom st = d.
Proof.
  intros I H. destruct (si_now _ _ _ I) as [Hns Hn0].
  apply create_inv in H as (_ & _ & _ & _ & _ & _ & _ & _ & _ & ->); auto.
  exists (created d amt rate now). cbn [with_streams s_streams]. rewrite aget_aset_eq.
  repeat split; reflexivity.
Qed.

Theorem zero_time_topup_running now b s sn r d amt st b' s' resp :
  str_inv now b s -> aget (r, sn) (s_streams s) = Some st -> now < st_dzt st ->
  str_exec now b s (STopUp sn r d amt) = Ok (b', s', resp) ->
  exists st', aget (r, sn) (s_streams s') = Some st' /\
    st_deposit st' = st_deposit st + amt /\ st_lot st' = st_lot st /\ st_rate st' = st_rate st /\
    st_dzt st' = st_dzt st + (amt / st_rate st) * NS /\ st_denom st' = st_denom st /\
    st_cancellable st' = st_cancellable st /\
    resp = RTopUp (st_deposit st') (st_dzt st') /\
    bank_send b sn STREAM_MACC (st_denom st) amt = Ok b'.
Proof.
  intros I Hg Hrun H.
  apply topup_exec_inv in H as (Ha & st0 & Hg0 & -> & H & ->).
  rewrite Hg in Hg0. injection Hg0 as <-.
  destruct (add_deposit_spec _ _ _ _ _ _ _ _ _ _ I Hg Ha H)
    as (_ & _ & _ & b1 & s1 & st1 & lot' & dzt' & Hsend & -> & Hden & Hrt & Hcan & _ & _ & Hcase).
  destruct Hcase as [(_ & -> & -> & -> & -> & ->)|(Hexp & _)]; [|lia].
  cbn [with_streams s_streams]. rewrite aget_aset_eq.
  eexists. split; [reflexivity|]. cbn [topped st_deposit st_lot st_rate st_dzt st_denom st_cancellable].
  repeat split; auto.
Qed.

Theorem zero_time_topup_expired now b s sn r d amt st b' s' resp :
  str_inv now b s -> aget (r, sn) (s_streams s) = Some st -> st_dzt st <= now ->
  str_exec now b s (STopUp sn r d amt) = Ok (b', s', resp) ->
  exists st', aget (r, sn) (s_streams s') = Some st' /\
    st_deposit st' = amt /\ st_lot st' = now /\ st_rate st' = st_rate st /\
    st_dzt st' = now + (amt / st_rate st) * NS /\ st_denom st' = st_denom st /\
    st_cancellable st' = st_cancellable st /\
    resp = RTopUp (st_deposit st') (st_dzt st') /\
    (* the old remainder is paid out in full first *)
    ((0 < st_deposit st /\ exists b1 s1 c, claim_from_stream now b s r sn = Ok (b1, s1, c) /\
         cr_total c = st_deposit st /\ cr_remaining c = 0 /\
         bank_send b1 sn STREAM_MACC (st_denom st) amt = Ok b')
     \/ (st_deposit st = 0 /\ bank_send b sn STREAM_MACC (st_denom st) amt = Ok b')).
Proof.
  intros I Hg Hexp H.
  apply topup_exec_inv in H as (Ha & st0 & Hg0 & -> & H & ->).
  rewrite Hg in Hg0. injection Hg0 as <-.
  destruct (add_deposit_spec _ _ _ _ _ _ _ _ _ _ I Hg Ha H)
    as (_ & _ & _ & b1 & s1 & st1 & lot' & dzt' & Hsend & -> & Hden & Hrt & Hcan & _ & _ & Hcase).
  destruct Hcase as [(Hrun & _)|(_ & Hz & -> & -> & Hcl)]; [lia|].
  cbn [with_streams s_streams]. rewrite aget_aset_eq.
  eexists. split; [reflexivity|]. cbn [topped st_deposit st_lot st_rate st_dzt st_denom st_cancellable].
  rewrite Hz. repeat (split; [first [assumption | reflexivity | lia]|]).
  destruct Hcl as [(Hpos & c & Hc & Ht & Hr)|(Hz0 & -> & ->)].
  - left. split; [exact Hpos|]. exists b1, s1, c. auto.
  - right. auto.
Qed.

Theorem zero_time_update_flow now b s sn r rate st b' s' resp :
  str_inv now b s -> aget (r, sn) (s_streams s) = Some st -> 0 < st_deposit st ->
  str_exec now b s (SUpdateFlow sn r rate) = Ok (b', s', resp) ->
  let D1 := snd (calculate_amount_to_claim now (st_dzt st) (st_lot st) (st_deposit st) (st_rate st)) in
  exists st' s1 c,
    claim_from_stream now b s r sn = Ok (b', s1, c) /\ cr_remaining c = D1 /\
    aget (r, sn) (s_streams s') = Some st' /\
    st_rate st' = rate /\ st_lot st' = now /\ st_dzt st' = now + (D1 / rate) * NS /\
    st_deposit st' = D1 /\ st_denom st' = st_denom st /\ st_cancellable st' = st_cancellable st.
Proof.
  intros I Hg Hpos H. cbv zeta.
  apply flow_exec_inv in H as (Hr & _ & H & _).
  destruct (set_new_flow_rate_spec _ _ _ _ _ _ _ _ _ I Hg Hr H)
    as (_ & s1 & st1 & dzt' & -> & _ & _ & Hcase).
  destruct Hcase as [(_ & c & Hc & -> & ->)|(Hz & _)]; [|lia].
  destruct (claim_spec _ _ _ _ _ _ _ _ _ I Hg Hc) as (_ & _ & _ & Hrem & _).
  exists (rerated (claimed now st (cr_remaining c)) rate (now + cr_remaining c / rate * NS)), s1, c.
  cbn [with_streams s_streams]. rewrite aget_aset_eq. rewrite <- Hrem.
  repeat split; auto.
Qed.

(* ================================================================== *)
(* C11: never early; cancel refund                                      *)
(* ================================================================== *)

Theorem never_early now b s sn r st b' s' c :
  str_inv now b s -> aget (r, sn) (s_streams s) = Some st -> now < st_dzt st ->
  str_exec now b s (SClaim sn r) = Ok (b', s', RClaim c) ->
  cr_total c = st_rate st * whole_seconds (now - st_lot st) /\ cr_total c < st_deposit st /\
  0 < cr_remaining c /\ cr_total c * NS <= st_rate st * (now - st_lot st).
Proof.
  intros I Hg Hrun H.
  apply claim_exec_inv in H as (c' & [= <-] & H).
  destruct (claim_spec _ _ _ _ _ _ _ _ _ I Hg H) as (_ & Hpos & Htot & Hrem & _ & Hrem' & _).
  destruct (si_streams _ _ _ I _ _ Hg) as [Hr Hd Hl Hls Hds Hsus].
  rewrite catc_before_zero in Htot, Hrem by lia. cbn [fst snd] in Htot, Hrem.
  destruct Hsus as [Hsus|[Hz _]]; [|lia].
  pose proof (claim_preserves_sustain (st_deposit st) (st_rate st) (st_lot st) (st_dzt st) now
                ltac:(lia) Hl ltac:(lia) Hsus) as (H1 & H2 & H3 & H4 & H5).
  rewrite <- Htot in *. lia.
Qed.

Theorem cancel_refund now b s sn r st b' s' resp :
  str_inv now b s -> aget (r, sn) (s_streams s) = Some st ->
  sn <> r -> sn <> STREAM_MACC -> sn <> FEE_COLLECTOR ->
  str_exec now b s (SCancel sn r) = Ok (b', s', resp) ->
  aget (r, sn) (s_streams s') = None /\
  balance b' sn (st_denom st) - balance b sn (st_denom st)
    = snd (calculate_amount_to_claim now (st_dzt st) (st_lot st) (st_deposit st) (st_rate st)) /\
  (st_deposit st = 0 -> balance b' sn (st_denom st) = balance b sn (st_denom st)) /\
  (forall d, d <> st_denom st -> balance b' sn d = balance b sn d).
Proof.
  intros I Hg N1 N2 N3 H.
  apply cancel_exec_inv in H as (st0 & Hg0 & _ & H & _).
  rewrite Hg in Hg0. injection Hg0 as <-.
  destruct (cancel_spec _ _ _ _ _ _ _ _ I Hg H)
    as (_ & _ & b1 & s1 & R & -> & _ & _ & ND & HR & HR0 & M & _ & Hcase).
  split; [cbn [with_streams s_streams]; apply aget_adel_eq; exact ND|].
  assert (Hb1 : forall d, balance b1 sn d = balance b sn d).
  { intros d. destruct Hcase as [(_ & c & Hc & _)|(_ & -> & _)]; [|reflexivity].
    eapply claim_balance_other; eauto. }
  assert (Hz : st_deposit st = 0 -> R = 0).
  { intros Hz. rewrite HR, Hz, catc_zero_deposit; [reflexivity|].
    pose proof (so_rate _ _ (si_streams _ _ _ I _ _ Hg)). lia. }
  rewrite <- HR.
  split; [|split].
  - rewrite (moved_recipient _ _ _ _ _ _ _ M) by congruence. rewrite Z.eqb_refl, Hb1. lia.
  - intros Hz0. rewrite (moved_recipient _ _ _ _ _ _ _ M) by congruence.
    rewrite Z.eqb_refl, Hb1, (Hz Hz0). lia.
  - intros d Nd. rewrite (moved_other_denom _ _ _ _ _ _ sn d M) by exact Nd. apply Hb1.
Qed.

(* ================================================================== *)
(* C10: payments of a claim                                             *)
(* ================================================================== *)

Theorem claim_payments now b s sn r st b' s' c :
  str_inv now b s -> aget (r, sn) (s_streams s) = Some st ->
  str_exec now b s (SClaim sn r) = Ok (b', s', RClaim c) ->
  let d := st_denom st in
  cr_fee c = (cr_total c * s_valfee s) / DEC_ONE /\ cr_receiver c = cr_total c - cr_fee c /\
  balance b' r d = balance b r d + cr_receiver c /\
  balance b' FEE_COLLECTOR d = balance b FEE_COLLECTOR d + cr_fee c /\
  balance b' STREAM_MACC d = balance b STREAM_MACC d - cr_total c /\
  deposit_of s' r sn = st_deposit st - cr_total c.
Proof.
  intros I Hg H. cbv zeta.
  apply claim_exec_inv in H as (c' & [= <-] & H).
  destruct (claim_spec _ _ _ _ _ _ _ _ _ I Hg H)
    as (_ & _ & _ & _ & _ & Hrem & Hfee & Hrecv & _ & _ & -> & Hbr & Hbf & Hbm & _).
  repeat (split; [assumption|]).
  unfold deposit_of. cbn [with_streams s_streams]. rewrite aget_aset_eq. cbn [claimed st_deposit]. exact Hrem.
Qed.

(* ================================================================== *)
(* C10: frame facts that need no invariant                              *)
(* (no coins minted or burnt; only the addressed stream is touched)     *)
(* ================================================================== *)

Definition conserves (b b' : bank) : Prop :=
  forall d, total_balance b' d = total_balance b d /\ supply_of b' d = supply_of b d.

Lemma conserves_refl b : conserves b b.
Proof. intros d; auto. Qed.

Lemma conserves_trans b1 b2 b3 : conserves b1 b2 -> conserves b2 b3 -> conserves b1 b3.
Proof. intros H1 H2 d. destruct (H1 d), (H2 d). split; congruence. Qed.

Lemma bank_send_conserves' b from to d amt b' : bank_send b from to d amt = Ok b' -> conserves b b'.
Proof. intros H d'. eapply bank_send_conserves; eauto. Qed.

Lemma bank_send_m2a_conserves' b macc to d amt b' : bank_send_m2a b macc to d amt = Ok b' -> conserves b b'.
Proof. intros H d'. eapply bank_send_m2a_conserves; eauto. Qed.

Lemma claim_conserves' now b s r sn b' s' c :
  claim_from_stream now b s r sn = Ok (b', s', c) -> conserves b b'.
Proof. intros H d. eapply claim_conserves; eauto. Qed.

(* "s' differs from s at most at key k" *)
Definition only_at (k : skey) (s s' : str_state) : Prop :=
  s_valfee s' = s_valfee s /\ forall k', k' <> k -> aget k' (s_streams s') = aget k' (s_streams s).

Lemma only_at_refl k s : only_at k s s.
Proof. split; auto. Qed.

Lemma only_at_trans k s1 s2 s3 : only_at k s1 s2 -> only_at k s2 s3 -> only_at k s1 s3.
Proof. intros [V1 F1] [V2 F2]. split; [congruence|]. intros k' N. rewrite F2, F1; auto. Qed.

Lemma set_stream_only_at s r sn st s' : set_stream s r sn st = Ok s' -> only_at (r, sn) s s'.
Proof.
  unfold set_stream. destruct (_ && _); [|discriminate]. intros [= <-].
  split; [reflexivity|]. intros k' N. cbn [with_streams s_streams]. apply aget_aset_neq. congruence.
Qed.

Lemma claim_only_at now b s r sn b' s' c :
  claim_from_stream now b s r sn = Ok (b', s', c) -> only_at (r, sn) s s'.
Proof. intros H. apply claim_frame in H. exact H. Qed.

Lemma adel_only_at s r sn : only_at (r, sn) s (with_streams s (adel (r, sn) (s_streams s))).
Proof.
  split; [reflexivity|]. intros k' N. cbn [with_streams s_streams]. apply aget_adel_neq. congruence.
Qed.

Lemma add_deposit_frame now b s r sn d amt b2 s2 :
  add_deposit now b s r sn d amt = Ok (b2, s2) -> conserves b b2 /\ only_at (r, sn) s s2.
Proof.
  unfold add_deposit. intros H.
  destruct (aget (r, sn) (s_streams s)) as [st|]; [|discriminate].
  destruct (negb (d =? st_denom st)); [discriminate|].
  destruct (calculate_duration amt (st_rate st)) as [ext|?|?]; cbn [obind] in H; try discriminate.
  destruct (st_dzt st <=? now).
  - destruct (0 <? st_deposit st).
    + destruct (claim_from_stream now b s r sn) as [[[b1 s1] c]|?|?] eqn:Ecl; cbn [obind] in H; try discriminate.
      destruct (aget (r, sn) (s_streams s1)) as [st1|]; cbn [obind] in H; [|discriminate].
      dobind_as H b2' Hsend. dobind_as H s2' Hset. injection H as <- <-.
      split.
      * eapply conserves_trans; [eapply claim_conserves'; eauto | eapply bank_send_conserves'; eauto].
      * eapply only_at_trans; [eapply claim_only_at; eauto | eapply set_stream_only_at; eauto].
    + cbn [obind] in H.
      destruct (aget (r, sn) (s_streams s)) as [st1|]; cbn [obind] in H; [|discriminate].
      dobind_as H b2' Hsend. dobind_as H s2' Hset. injection H as <- <-.
      split; [eapply bank_send_conserves'; eauto | eapply set_stream_only_at; eauto].
  - cbn [obind] in H.
    dobind_as H b2' Hsend. dobind_as H s2' Hset. injection H as <- <-.
    split; [eapply bank_send_conserves'; eauto | eapply set_stream_only_at; eauto].
Qed.

Lemma set_new_flow_rate_frame now b s r sn rate b2 s2 :
  set_new_flow_rate now b s r sn rate = Ok (b2, s2) -> conserves b b2 /\ only_at (r, sn) s s2.
Proof.
  unfold set_new_flow_rate. intros H.
  destruct (aget (r, sn) (s_streams s)) as [st|]; [|discriminate].
  destruct (0 <? st_deposit st).
  - destruct (claim_from_stream now b s r sn) as [[[b1 s1] c]|?|?] eqn:Ecl; cbn [obind] in H; try discriminate.
    destruct (aget (r, sn) (s_streams s1)) as [st1|]; cbn [obind] in H; [|discriminate].
    destruct (calculate_duration (st_deposit st1) rate) as [dur|?|?]; cbn [obind] in H; try discriminate.
    dobind_as H s2' Hset. injection H as <- <-.
    split; [eapply claim_conserves'; eauto|].
    eapply only_at_trans; [eapply claim_only_at; eauto | eapply set_stream_only_at; eauto].
  - cbn [obind] in H. dobind_as H s2' Hset. injection H as <- <-.
    split; [apply conserves_refl | eapply set_stream_only_at; eauto].
Qed.

Lemma cancel_stream_frame now b s r sn b2 s2 :
  cancel_stream now b s r sn = Ok (b2, s2) -> conserves b b2 /\ only_at (r, sn) s s2.
Proof.
  unfold cancel_stream. intros H.
  destruct (aget (r, sn) (s_streams s)) as [st|]; [|discriminate].
  destruct (negb (st_cancellable st)); [discriminate|].
  destruct (0 <? st_deposit st).
  - destruct (claim_from_stream now b s r sn) as [[[b1 s1] c]|?|?] eqn:Ecl; cbn [obind] in H; try discriminate.
    destruct (aget (r, sn) (s_streams s1)) as [st1|]; [|discriminate].
    dobind_as H b2' Hsend. injection H as <- <-.
    split.
    + eapply conserves_trans; [eapply claim_conserves'; eauto|].
      destruct (0 <? st_deposit st1); [eapply bank_send_m2a_conserves'; eauto | injection Hsend as <-; apply conserves_refl].
    + eapply only_at_trans; [eapply claim_only_at; eauto | apply adel_only_at].
  - cbn [obind] in H.
    destruct (aget (r, sn) (s_streams s)) as [st1|]; [|discriminate].
    dobind_as H b2' Hsend. injection H as <- <-.
    split; [|apply adel_only_at].
    destruct (0 <? st_deposit st1); [eapply bank_send_m2a_conserves'; eauto | injection Hsend as <-; apply conserves_refl].
Qed.

(* the (receiver, sender) pair a message addresses *)
Definition str_msg_key (m : str_msg) : skey :=
  match m with
  | SCreate sn r _ _ _ => (r, sn)
  | SClaim sn r => (r, sn)
  | STopUp sn r _ _ => (r, sn)
  | SUpdateFlow sn r _ => (r, sn)
  | SCancel sn r => (r, sn)
  end.

Lemma str_exec_frame now b s m b' s' resp :
  str_exec now b s m = Ok (b', s', resp) -> conserves b b' /\ only_at (str_msg_key m) s s'.
Proof.
  intros H. destruct m as [sn r d amt rate | sn r | sn r d amt | sn r rate | sn r]; cbn [str_msg_key].
  - unfold str_exec in H.
    destruct (blocked r); [discriminate|]. destruct (sn =? r); [discriminate|].
    destruct (ahas _ _); [discriminate|]. destruct (amt <=? 0); [discriminate|].
    destruct (rate <=? 0); [discriminate|].
    destruct (calculate_duration amt rate) as [dur|?|?]; cbn [obind] in H; try discriminate.
    destruct (dur <? 60); [discriminate|].
    dobind_as H s1 Hset.
    destruct (add_deposit now b s1 r sn d amt) as [[b2 s2]|?|?] eqn:Ead; cbn [obind] in H; try discriminate.
    injection H as <- <- <-.
    apply add_deposit_frame in Ead as [C O]. split; [exact C|].
    eapply only_at_trans; [eapply set_stream_only_at; eauto | exact O].
  - apply claim_exec_inv in H as (c & _ & H).
    split; [eapply claim_conserves'; eauto | eapply claim_only_at; eauto].
  - apply topup_exec_inv in H as (_ & st & _ & _ & H & _). eapply add_deposit_frame; eauto.
  - apply flow_exec_inv in H as (_ & _ & H & _). eapply set_new_flow_rate_frame; eauto.
  - apply cancel_exec_inv in H as (st & _ & _ & H & _). eapply cancel_stream_frame; eauto.
Qed.

Theorem step_conserves_money now b s m b' s' resp d :
  str_exec now b s m = Ok (b', s', resp) ->
  total_balance b' d = total_balance b d /\ supply_of b' d = supply_of b d.
Proof. intros H. apply str_exec_frame in H as [C _]. apply C. Qed.

Theorem other_streams_untouched now b s m b' s' resp k :
  str_exec now b s m = Ok (b', s', resp) -> k <> str_msg_key m ->
  aget k (s_streams s') = aget k (s_streams s).
Proof. intros H N. apply str_exec_frame in H as [_ [_ F]]. apply F; exact N. Qed.

Theorem valfee_untouched now b s m b' s' resp :
  str_exec now b s m = Ok (b', s', resp) -> s_valfee s' = s_valfee s.
Proof. intros H. apply str_exec_frame in H as [_ [V _]]. exact V. Qed.

Theorem failed_op_changes_nothing t b s m :
  (forall x, str_exec t b s m <> Ok x) -> str_step (b, s) (t, m) = (b, s).
Proof.
  intros H. unfold str_step. cbn [fst snd].
  destruct (str_validate_basic m); try reflexivity.
  destruct (str_exec t b s m) as [[[b' s'] resp]|?|?] eqn:E; try reflexivity.
  exfalso. eapply H; eauto.
Qed.

Theorem failed_op_changes_nothing' t b s m c :
  str_exec t b s m = Err c \/ str_exec t b s m = Panic c \/ str_validate_basic m = Err c \/
  str_validate_basic m = Panic c ->
  str_step (b, s) (t, m) = (b, s).
Proof.
  unfold str_step. cbn [fst snd]. intros [H|[H|[H|H]]]; rewrite H; try reflexivity;
    destruct (str_validate_basic m); reflexivity.
Qed.

(* ================================================================== *)
(* C12: progress — funds are never stranded                             *)
(* ================================================================== *)

Theorem claim_succeeds now b s sn r st :
  str_inv now b s -> aget (r, sn) (s_streams s) = Some st -> 0 < st_deposit st ->
  exists b' s' c, str_exec now b s (SClaim sn r) = Ok (b', s', RClaim c).
Proof.
  intros I Hg Hd. unfold str_exec, ahas. rewrite Hg. cbn [negb].
  destruct (claim_ok _ _ _ _ _ _ I Hg Hd) as (b' & s' & c & ->). cbn [obind]. eauto.
Qed.

Lemma refund_ok now b1 s1 r sn st1 :
  str_inv now b1 s1 -> aget (r, sn) (s_streams s1) = Some st1 -> blocked sn = false ->
  exists b2, (if 0 <? st_deposit st1
              then bank_send_m2a b1 STREAM_MACC sn (st_denom st1) (st_deposit st1) else Ok b1) = Ok b2.
Proof.
  intros I Hg Hb. destruct (0 <? st_deposit st1) eqn:E; [|eauto].
  apply bank_send_m2a_ok; [exact Hb|lia|]. eapply escrow_covers; eauto.
Qed.

Lemma cancel_ok now b s r sn st :
  str_inv now b s -> aget (r, sn) (s_streams s) = Some st ->
  st_cancellable st = true -> blocked sn = false ->
  exists b' s', cancel_stream now b s r sn = Ok (b', s').
Proof.
  intros I Hg Hcan Hb. unfold cancel_stream. rewrite Hg, Hcan. cbn [negb].
  destruct (0 <? st_deposit st) eqn:Ed.
  - destruct (claim_ok _ _ _ _ _ _ I Hg ltac:(lia)) as (b1 & s1 & c & Ecl). rewrite Ecl. cbn [obind].
    destruct (claim_spec _ _ _ _ _ _ _ _ _ I Hg Ecl) as (I1 & _ & _ & _ & _ & _ & _ & _ & _ & _ & Hs1 & _).
    assert (Hg1 : aget (r, sn) (s_streams s1) = Some (claimed now st (cr_remaining c))).
    { rewrite Hs1. cbn [with_streams s_streams]. apply aget_aset_eq. }
    rewrite Hg1. destruct (refund_ok _ _ _ _ _ _ I1 Hg1 Hb) as (b2 & ->). cbn [obind]. eauto.
  - cbn [obind]. rewrite Hg. destruct (refund_ok _ _ _ _ _ _ I Hg Hb) as (b2 & ->). cbn [obind]. eauto.
Qed.

Theorem cancel_succeeds now b s sn r st :
  str_inv now b s -> aget (r, sn) (s_streams s) = Some st ->
  st_cancellable st = true -> blocked sn = false ->
  exists b' s', str_exec now b s (SCancel sn r) = Ok (b', s', RNone).
Proof.
  intros I Hg Hcan Hb. unfold str_exec. rewrite Hg, Hcan. cbn [negb].
  destruct (cancel_ok _ _ _ _ _ _ I Hg Hcan Hb) as (b' & s' & ->). cbn [obind]. eauto.
Qed.

Lemma add_deposit_ok now b s r sn st amt :
  str_inv now b s -> aget (r, sn) (s_streams s) = Some st -> 0 < amt ->
  sn <> r -> sn <> STREAM_MACC -> sn <> FEE_COLLECTOR ->
  amt <= balance b sn (st_denom st) -> amt / st_rate st < two63 ->
  time_storable (add_seconds (if st_dzt st <=? now then now else st_dzt st) (amt / st_rate st)) = true ->
  exists b' s', add_deposit now b s r sn (st_denom st) amt = Ok (b', s').
Proof.
  intros I Hg Ha N1 N2 N3 Hbal Hq Hst.
  pose proof (si_streams _ _ _ I _ _ Hg) as Hok.
  destruct (si_now _ _ _ I) as [Hns Hn0].
  unfold add_deposit. rewrite Hg, Z.eqb_refl. cbn [negb].
  rewrite (duration_ok amt (st_rate st)); [|apply Hok|lia|exact Hq]. cbn [obind].
  destruct (st_dzt st <=? now) eqn:Edz.
  - destruct (0 <? st_deposit st) eqn:Ed.
    + destruct (claim_ok _ _ _ _ _ _ I Hg ltac:(lia)) as (b1 & s1 & c & Ecl). rewrite Ecl. cbn [obind].
      destruct (claim_spec _ _ _ _ _ _ _ _ _ I Hg Ecl)
        as (I1 & _ & _ & _ & _ & _ & _ & _ & _ & _ & Hs1 & _ & _ & _ & Hoth & _).
      assert (Hg1 : aget (r, sn) (s_streams s1) = Some (claimed now st (cr_remaining c))).
      { rewrite Hs1. cbn [with_streams s_streams]. apply aget_aset_eq. }
      rewrite Hg1. cbn [obind claimed st_denom st_deposit st_rate st_dzt st_cancellable].
      destruct (bank_send_ok b1 sn STREAM_MACC (st_denom st) amt) as (b2 & ->); [lia| |].
      { rewrite Hoth by assumption. exact Hbal. }
      cbn [obind]. unfold set_stream. cbn [st_lot st_dzt]. rewrite Hns, Hst. cbn [andb obind]. eauto.
    + cbn [obind]. rewrite Hg. cbn [obind].
      destruct (bank_send_ok b sn STREAM_MACC (st_denom st) amt) as (b2 & ->); [lia|exact Hbal|].
      cbn [obind]. unfold set_stream. cbn [st_lot st_dzt]. rewrite Hns, Hst. cbn [andb obind]. eauto.
  - cbn [obind].
    destruct (bank_send_ok b sn STREAM_MACC (st_denom st) amt) as (b2 & ->); [lia|exact Hbal|].
    cbn [obind]. unfold set_stream. cbn [st_lot st_dzt].
    rewrite (so_lot_storable _ _ Hok), Hst. cbn [andb obind]. eauto.
Qed.

Theorem topup_succeeds now b s sn r st amt :
  str_inv now b s -> aget (r, sn) (s_streams s) = Some st -> 0 < amt ->
  sn <> r -> sn <> STREAM_MACC -> sn <> FEE_COLLECTOR ->
  amt <= balance b sn (st_denom st) -> amt / st_rate st < two63 ->
  time_storable (add_seconds (if st_dzt st <=? now then now else st_dzt st) (amt / st_rate st)) = true ->
  exists b' s' resp, str_exec now b s (STopUp sn r (st_denom st) amt) = Ok (b', s', resp).
Proof.
  intros I Hg Ha N1 N2 N3 Hbal Hq Hst.
  destruct (add_deposit_ok _ _ _ _ _ _ _ I Hg Ha N1 N2 N3 Hbal Hq Hst) as (b' & s' & E).
  unfold str_exec. destruct (amt <=? 0) eqn:E0; [lia|].
  rewrite Hg, Z.eqb_refl. cbn [negb]. rewrite E. cbn [obind].
  destruct (aget (r, sn) (s_streams s')); eauto.
Qed.

(* the storability hypothesis of [topup_succeeds], in plain arithmetic:
   the new deposit-zero time is not beyond year 9999 *)
Lemma topup_storable_iff now st amt :
  stream_ok now st -> time_storable now = true -> 0 <= amt -> amt / st_rate st < two63 ->
  let base := if st_dzt st <=? now then now else st_dzt st in
  time_storable (add_seconds base (amt / st_rate st)) = true <-> unix base + amt / st_rate st <= TS_MAX.
Proof.
  intros Hok Hns Ha Hq. cbv zeta.
  apply add_seconds_storable_iff.
  - destruct (st_dzt st <=? now); [exact Hns | apply Hok].
  - split; [|exact Hq]. apply Z.div_pos; [lia|]. pose proof (so_rate _ _ Hok). lia.
Qed.

Theorem no_arith_panic_claim_cancel now b s sn r :
  str_inv now b s ->
  (forall c, str_exec now b s (SClaim sn r) <> Panic c) /\
  (forall c, str_exec now b s (SCancel sn r) <> Panic c).
Proof.
  intros I. split; intros c0; unfold str_exec.
  - unfold ahas. destruct (aget (r, sn) (s_streams s)) as [st|] eqn:Hg; cbn [negb]; [|discriminate].
    destruct (0 <? st_deposit st) eqn:Ed.
    + destruct (claim_ok _ _ _ _ _ _ I Hg ltac:(lia)) as (b' & s' & c & ->). cbn [obind]. discriminate.
    + unfold claim_from_stream. rewrite Hg. destruct (st_deposit st <=? 0) eqn:E0; [|lia].
      cbn [obind]. discriminate.
  - destruct (aget (r, sn) (s_streams s)) as [st|] eqn:Hg; [|discriminate].
    destruct (st_cancellable st) eqn:Hcan; cbn [negb]; [|discriminate].
    assert (Hnp : forall c, cancel_stream now b s r sn <> Panic c).
    { intros c1. unfold cancel_stream. rewrite Hg, Hcan. cbn [negb].
      assert (Hfin : forall b1 s1 st1, str_inv now b1 s1 -> aget (r, sn) (s_streams s1) = Some st1 ->
                (do b2 <- (if 0 <? st_deposit st1
                           then bank_send_m2a b1 STREAM_MACC sn (st_denom st1) (st_deposit st1) else Ok b1);
                 Ok (b2, with_streams s1 (adel (r, sn) (s_streams s1)))) <> Panic c1).
      { intros b1 s1 st1 I1 Hg1. destruct (0 <? st_deposit st1) eqn:E1; [|cbn [obind]; discriminate].
        destruct (bank_send_m2a b1 STREAM_MACC sn (st_denom st1) (st_deposit st1)) as [b2|e|p] eqn:E2;
          cbn [obind]; try discriminate.
        exfalso. eapply bank_send_m2a_no_panic; [|exact E2]. lia. }
      destruct (0 <? st_deposit st) eqn:Ed.
      - destruct (claim_ok _ _ _ _ _ _ I Hg ltac:(lia)) as (b1 & s1 & c & Ecl). rewrite Ecl. cbn [obind].
        destruct (claim_spec _ _ _ _ _ _ _ _ _ I Hg Ecl) as (I1 & _ & _ & _ & _ & _ & _ & _ & _ & _ & Hs1 & _).
        assert (Hg1 : aget (r, sn) (s_streams s1) = Some (claimed now st (cr_remaining c))).
        { rewrite Hs1. cbn [with_streams s_streams]. apply aget_aset_eq. }
        rewrite Hg1. eapply Hfin; eauto.
      - cbn [obind]. rewrite Hg. eapply Hfin; eauto. }
    destruct (cancel_stream now b s r sn) as [[b' s']|e|p] eqn:E; cbn [obind]; try discriminate.
    exfalso. eapply Hnp; eauto.
Qed.

(* ================================================================== *)
(* Initial state; "every stream is cancellable" as an invariant          *)
(* ================================================================== *)

Lemma str_inv_init now b vf :
  (forall d, balance b STREAM_MACC d = 0) -> 0 <= vf <= DEC_ONE ->
  time_storable now = true -> 0 <= now ->
  str_inv now b {| s_valfee := vf; s_streams := [] |}.
Proof.
  intros Hb Hv Hns Hn0. constructor; cbn [s_streams s_valfee]; auto.
  - constructor.
  - intros k st H. discriminate H.
  - intros r sn st H. discriminate H.
Qed.

Definition all_cancellable (s : str_state) : Prop :=
  forall k st, aget k (s_streams s) = Some st -> st_cancellable st = true.

Lemma all_cancellable_exec now b s m b' s' resp :
  str_inv now b s -> all_cancellable s ->
  str_exec now b s m = Ok (b', s', resp) -> all_cancellable s'.
Proof.
  intros I AC H k st' Hk.
  destruct (skey_dec k (str_msg_key m)) as [->|Nk].
  2:{ rewrite (other_streams_untouched _ _ _ _ _ _ _ _ H Nk) in Hk. eapply AC; eauto. }
  destruct (si_now _ _ _ I) as [Hns Hn0].
  destruct m as [sn r d amt rate | sn r | sn r d amt | sn r rate | sn r]; cbn [str_msg_key] in Hk.
  - apply create_inv in H as (_ & _ & _ & _ & _ & _ & _ & _ & _ & ->); auto.
    cbn [with_streams s_streams] in Hk. rewrite aget_aset_eq in Hk. injection Hk as <-. reflexivity.
  - apply claim_exec_inv in H as (c & _ & H).
    apply claim_inv in H as (st & total & remaining & recv & fee & b1 & Hg & _ & _ & _ & _ & _ & _ & _ & _ & -> & _).
    cbn [with_streams s_streams] in Hk. rewrite aget_aset_eq in Hk. injection Hk as <-.
    cbn [claimed st_cancellable]. eapply AC; eauto.
  - apply topup_exec_inv in H as (Ha & st & Hg & -> & H & _).
    destruct (add_deposit_spec _ _ _ _ _ _ _ _ _ _ I Hg Ha H)
      as (_ & _ & _ & b1 & s1 & st1 & lot' & dzt' & _ & -> & _ & _ & Hcan & _).
    cbn [with_streams s_streams] in Hk. rewrite aget_aset_eq in Hk. injection Hk as <-.
    cbn [topped st_cancellable]. rewrite Hcan. eapply AC; eauto.
  - apply flow_exec_inv in H as (Hr & (st & Hg) & H & _).
    destruct (set_new_flow_rate_spec _ _ _ _ _ _ _ _ _ I Hg Hr H) as (_ & s1 & st1 & dzt' & -> & _ & _ & Hcase).
    cbn [with_streams s_streams] in Hk. rewrite aget_aset_eq in Hk. injection Hk as <-.
    cbn [rerated st_cancellable].
    destruct Hcase as [(_ & c & _ & -> & _)|(_ & _ & _ & -> & _)]; cbn [claimed st_cancellable]; eapply AC; eauto.
  - apply cancel_exec_inv in H as (st & Hg & _ & H & _).
    destruct (cancel_spec _ _ _ _ _ _ _ _ I Hg H) as (_ & _ & b1 & s1 & R & -> & _ & _ & ND & _).
    cbn [with_streams s_streams] in Hk. rewrite aget_adel_eq in Hk by exact ND. discriminate.
Qed.

Theorem reachable_inv_cancellable now0 b0 s0 h :
  str_inv now0 b0 s0 -> all_cancellable s0 -> times_sorted now0 h ->
  str_inv (last_time now0 h) (fst (str_run (b0, s0) h)) (snd (str_run (b0, s0) h)) /\
  all_cancellable (snd (str_run (b0, s0) h)).
Proof.
  revert now0 b0 s0. induction h as [|[t m] h IH]; intros now0 b0 s0 I AC TS.
  - split; assumption.
  - cbn [times_sorted] in TS. destruct TS as (Hle & Hst & W & TS).
    unfold str_run, last_time. cbn [fold_left fst].
    pose proof (str_step_preserves_inv _ _ _ _ _ I Hle Hst W) as I1.
    assert (AC1 : all_cancellable (snd (str_step (b0, s0) (t, m)))).
    { unfold str_step. cbn [fst snd]. destruct (str_validate_basic m); try exact AC.
      destruct (str_exec t b0 s0 m) as [[[b' s'] resp]|?|?] eqn:E; try exact AC.
      cbn [snd]. eapply all_cancellable_exec; [|exact AC|exact E].
      eapply inv_time_mono; eauto. }
    destruct (str_step (b0, s0) (t, m)) as [b1 s1] eqn:E. cbn [fst snd] in I1, AC1.
    exact (IH t b1 s1 I1 AC1 TS).
Qed.

(* cancel succeeds for every stream of every state reachable from an empty module state *)
Theorem cancel_succeeds_reachable now0 b0 vf h sn r st :
  (forall d, balance b0 STREAM_MACC d = 0) -> 0 <= vf <= DEC_ONE ->
  time_storable now0 = true -> 0 <= now0 -> times_sorted now0 h ->
  let bs := str_run (b0, {| s_valfee := vf; s_streams := [] |}) h in
  aget (r, sn) (s_streams (snd bs)) = Some st -> blocked sn = false ->
  exists b' s', str_exec (last_time now0 h) (fst bs) (snd bs) (SCancel sn r) = Ok (b', s', RNone).
Proof.
  intros Hb Hv Hns Hn0 TS bs Hg Hbl.
  destruct (reachable_inv_cancellable now0 b0 {| s_valfee := vf; s_streams := [] |} h) as [I AC]; auto.
  - apply str_inv_init; auto.
  - intros k st0 H. discriminate H.
  - eapply cancel_succeeds; eauto.
Qed.

(* ================================================================== *)
(* Concrete reachable states (used by the Examples and the refutations)  *)
(* ================================================================== *)

Ltac zdec := first [ reflexivity | (vm_compute; reflexivity) | (vm_compute; let X := fresh "X" in intro X; discriminate X) ].

(* account 1 holds 10^22 of denom 0; validator fee 1 % *)
Definition ex_bank : bank :=
  {| bal := [((1, 0), 10000000000000000000000)]; supply := [(0, 10000000000000000000000)] |}.
Definition ex_state0 : str_state := {| s_valfee := 10000000000000000; s_streams := [] |}.
Definition ex_now : Z := 1700000000 * NS.

Lemma ex_inv0 : str_inv ex_now ex_bank ex_state0.
Proof.
  apply str_inv_init; [intros d; reflexivity | split; zdec | zdec | zdec].
Qed.

(* sender 1 -> receiver 2, 100000 at 100 per second: runs 1000 s *)
Definition ex_h_create : list (Z * str_msg) := [(ex_now, SCreate 1 2 0 100000 100)].

Lemma ex_h_create_sorted : times_sorted ex_now ex_h_create.
Proof. cbn [times_sorted ex_h_create]. repeat split; zdec. Qed.

Definition ex_bs1 : bank * str_state := Eval vm_compute in str_run (ex_bank, ex_state0) ex_h_create.

Lemma ex_inv1 : str_inv ex_now (fst ex_bs1) (snd ex_bs1).
Proof.
  pose proof (sustain_reachable _ _ _ _ ex_inv0 ex_h_create_sorted) as I.
  vm_compute in I. vm_compute. exact I.
Qed.

(* C12, known limitation: a top-up whose new deposit-zero time is beyond year 9999
   (or whose extension in seconds is not an int64) aborts with a panic *)
Theorem topup_unrepresentable_refuted :
  exists now b s sn r st amt,
    str_inv now b s /\ aget (r, sn) (s_streams s) = Some st /\ 0 < st_deposit st /\
    0 < amt /\ amt <= balance b sn (st_denom st) /\
    sn <> r /\ sn <> STREAM_MACC /\ sn <> FEE_COLLECTOR /\ amt / st_rate st < two63 /\
    str_exec now b s (STopUp sn r (st_denom st) amt) = Panic PANIC_MARSHAL.
Proof.
  exists ex_now, (fst ex_bs1), (snd ex_bs1), 1, 2.
  eexists. exists 30000000000000.
  split; [exact ex_inv1|]. split; [vm_compute; reflexivity|].
  cbn [st_deposit st_denom st_rate].
  repeat split; try zdec.
Qed.

Theorem topup_int64_refuted :
  exists now b s sn r st amt,
    str_inv now b s /\ aget (r, sn) (s_streams s) = Some st /\ 0 < st_deposit st /\
    0 < amt /\ amt <= balance b sn (st_denom st) /\
    sn <> r /\ sn <> STREAM_MACC /\ sn <> FEE_COLLECTOR /\
    str_exec now b s (STopUp sn r (st_denom st) amt) = Panic PANIC_INT64.
Proof.
  exists ex_now, (fst ex_bs1), (snd ex_bs1), 1, 2.
  eexists. exists 922337203685477580800.
  split; [exact ex_inv1|]. split; [vm_compute; reflexivity|].
  cbn [st_deposit st_denom st_rate].
  repeat split; try zdec.
Qed.

(* ---------- why the side conditions of the step theorem are there ---------- *)

(* (A) the sustain inequality alone is not inductive: updating the flow rate of an emptied
   stream sets dzt = now while lot stays at the last claim *)
Definition ex_h_empty_update : list (Z * str_msg) :=
  [(ex_now, SCreate 1 2 0 6000 100); (ex_now + 2000 * NS, SClaim 1 2);
   (ex_now + 3000 * NS, SUpdateFlow 1 2 50)].

Theorem obs_update_flow_empty_stream :
  times_sorted ex_now ex_h_empty_update /\
  exists st, aget (2, 1) (s_streams (snd (str_run (ex_bank, ex_state0) ex_h_empty_update))) = Some st /\
    st_deposit st = 0 /\ ~ (st_rate st * (st_dzt st - st_lot st) <= st_deposit st * NS).
Proof.
  split.
  - cbn [times_sorted ex_h_empty_update]. repeat split; zdec.
  - eexists. split; [vm_compute; reflexivity|]. cbn [st_deposit st_rate st_dzt st_lot].
    split; [reflexivity|]. intros H. vm_compute in H. apply H. reflexivity.
Qed.

(* (B) a block time before 1970: CreateNewStream's "DepositZeroTime = Unix(0,0), set to past"
   is then in the future, AddDeposit extends it instead of restarting from now *)
Theorem obs_pre1970_blocktime :
  exists now b' s' resp st,
    time_storable now = true /\ now < 0 /\
    str_exec now ex_bank ex_state0 (SCreate 1 2 0 6000 100) = Ok (b', s', resp) /\
    aget (2, 1) (s_streams s') = Some st /\
    st_dzt st <> now + (6000 / 100) * NS /\
    ~ (st_rate st * (st_dzt st - st_lot st) <= st_deposit st * NS).
Proof.
  exists (-1000 * NS). do 4 eexists.
  split; [zdec|]. split; [zdec|]. split; [vm_compute; reflexivity|].
  split; [vm_compute; reflexivity|]. cbn [st_deposit st_rate st_dzt st_lot].
  split; [zdec|]. intros H. vm_compute in H. apply H. reflexivity.
Qed.

(* (D) a create "signed" by the stream module account itself: escrow is not increased *)
Theorem obs_module_account_sender :
  exists b' s' resp,
    str_exec ex_now (fst ex_bs1) (snd ex_bs1) (SCreate STREAM_MACC 3 0 6000 100) = Ok (b', s', resp) /\
    ~ escrow_backed b' s'.
Proof.
  do 3 eexists. split; [vm_compute; reflexivity|].
  intros H. specialize (H 0). vm_compute in H. discriminate H.
Qed.

(* (C) a flow rate that is not an int64 is stored as is by the (unbounded-Z) model *)
Theorem obs_rate_not_int64 :
  exists b' s' resp st,
    str_exec ex_now ex_bank ex_state0 (SCreate 1 2 0 (60 * two63) two63) = Ok (b', s', resp) /\
    aget (2, 1) (s_streams s') = Some st /\ ~ stream_ok ex_now st.
Proof.
  do 4 eexists. split; [vm_compute; reflexivity|]. split; [vm_compute; reflexivity|].
  intros [[_ Hr] _ _ _ _ _]. vm_compute in Hr. discriminate Hr.
Qed.

(* ---------- a worked history ---------- *)

Definition ex_t (secs : Z) : Z := ex_now + secs * NS.

Definition ex_history : list (Z * str_msg) :=
  [ (ex_t 0,    SCreate 1 2 0 100000 100);     (* 100000 at 100/s: zero time = +1000 s *)
    (ex_t 10,   SClaim 1 2);                   (* 10 s: pays 1000 = 990 + 10 *)
    (ex_t 20,   STopUp 1 2 0 50000);           (* zero time +500 s -> +1500 s *)
    (ex_t 30,   SUpdateFlow 1 2 200);          (* settles 20 s x 100 = 2000; 147000 left at 200/s: +30+735 s *)
    (ex_t 40,   SCancel 1 2) ].                (* settles 10 s x 200 = 2000; refunds 145000 *)

Lemma ex_history_sorted : times_sorted ex_now ex_history.
Proof. cbn [times_sorted ex_history]. repeat split; zdec. Qed.

(* ================================================================== *)
(* C10: escrow backing, projected out of the invariant                  *)
(* ================================================================== *)

Theorem escrow_backed_step now b s m b' s' resp :
  str_inv now b s -> str_msg_wf m -> str_validate_basic m = Ok tt ->
  str_exec now b s m = Ok (b', s', resp) -> escrow_backed b' s'.
Proof. intros I W V H. exact (si_backed _ _ _ (sustain_step _ _ _ _ _ _ _ I W V H)). Qed.

Theorem escrow_backed_reachable now0 b0 s0 h :
  str_inv now0 b0 s0 -> times_sorted now0 h ->
  escrow_backed (fst (str_run (b0, s0) h)) (snd (str_run (b0, s0) h)).
Proof. intros I T. exact (si_backed _ _ _ (sustain_reachable _ _ _ _ I T)). Qed.

Theorem escrow_backed_from_genesis now0 b0 vf h :
  (forall d, balance b0 STREAM_MACC d = 0) -> 0 <= vf <= DEC_ONE ->
  time_storable now0 = true -> 0 <= now0 -> times_sorted now0 h ->
  let bs := str_run (b0, {| s_valfee := vf; s_streams := [] |}) h in
  forall d, balance (fst bs) STREAM_MACC d = total_deposits (snd bs) d.
Proof.
  intros Hb Hv Hs Hn T bs.
  exact (escrow_backed_reachable _ _ _ _ (str_inv_init now0 b0 vf Hb Hv Hs Hn) T).
Qed.

Lemma ex_history_prefix_sorted n : times_sorted ex_now (firstn n ex_history).
Proof.
  do 6 (destruct n as [|n]; [cbn [firstn ex_history times_sorted]; repeat split; zdec|]).
  exact ex_history_sorted.
Qed.

Lemma ex_history_backed n d :
  balance (fst (str_run (ex_bank, ex_state0) (firstn n ex_history))) STREAM_MACC d
  = total_deposits (snd (str_run (ex_bank, ex_state0) (firstn n ex_history))) d.
Proof. exact (escrow_backed_reachable _ _ _ _ ex_inv0 (ex_history_prefix_sorted n) d). Qed.
