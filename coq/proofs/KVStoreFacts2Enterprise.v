(* Further generic facts about the ordered byte-keyed store of model/KVStore.v, used by
   proofs/GeneratedEnterpriseStoreEq.v:
     - a write / delete at a key outside a prefix leaves the prefix listing alone (no invariant needed);
     - a prefix listing of a sorted store is determined by the point reads under the prefix;
     - the representation invariant as a strongly sorted list; one key, one entry;
     - decoding a listing entry by entry; iteration with an appending callback (with or without a map on the decoded
       value) without any decodability hypothesis; the loop sees the decoder only through its values. *)
From Coq Require Import NArith List Bool Lia Sorted.
From MC Require Import lib.Prelude model.Keys model.KVStore proofs.KeysProofs proofs.KVStoreFacts.
Import ListNotations.

Section Facts2.
Context {V : Type}.
Notation okv := (okv V).

(* ---- writes outside a prefix ---- *)
Lemma prefix_set_other (s : okv) p k v : is_prefix p k = false -> okv_prefix (okv_set s k v) p = okv_prefix s p.
Proof.
  intros Hp. unfold okv_prefix. induction s as [|[k1 v1] s IH]; cbn.
  - rewrite Hp. reflexivity.
  - destruct (key_eqb k k1) eqn:E1.
    + apply key_eqb_spec in E1; subst k1. cbn. rewrite Hp. reflexivity.
    + destruct (lex_lt k k1); cbn.
      * rewrite Hp. reflexivity.
      * rewrite IH. reflexivity.
Qed.

Lemma prefix_del_other (s : okv) p k : is_prefix p k = false -> okv_prefix (okv_del s k) p = okv_prefix s p.
Proof.
  intros Hp. unfold okv_prefix. induction s as [|[k1 v1] s IH]; cbn; [reflexivity|].
  destruct (key_eqb k k1) eqn:E1.
  - apply key_eqb_spec in E1; subst k1. rewrite Hp. reflexivity.
  - cbn. rewrite IH. reflexivity.
Qed.

(* ---- a prefix listing of a sorted store is determined by the point reads under the prefix ---- *)
Lemma prefix_ext (s1 s2 : okv) p : okv_sorted s1 = true -> okv_sorted s2 = true ->
  (forall k, is_prefix p k = true -> okv_get s1 k = okv_get s2 k) -> okv_prefix s1 p = okv_prefix s2 p.
Proof.
  intros H1 H2 Hext. apply okv_ext; [apply prefix_sorted; exact H1 | apply prefix_sorted; exact H2|].
  intros k. rewrite !get_prefix. destruct (is_prefix p k) eqn:E; [apply Hext; exact E | reflexivity].
Qed.

(* ---- the representation invariant, as a strongly sorted list ---- *)
Definition key_lt (a b : list N * V) : Prop := lex_lt (fst a) (fst b) = true.

Lemma sorted_strongly (s : okv) : okv_sorted s = true -> StronglySorted key_lt s.
Proof.
  induction s as [|[k v] s IH]; intros Hs; [constructor|].
  apply sorted_cons in Hs. destruct Hs as [Hs Hab]. constructor; [apply IH; exact Hs|].
  apply Forall_forall. intros [k' v'] Hin. unfold key_lt; cbn. eapply Hab; exact Hin.
Qed.

Lemma StronglySorted_map_in {A B} (R : A -> A -> Prop) (R' : B -> B -> Prop) (f : A -> B) (l : list A) :
  (forall a b, In a l -> In b l -> R a b -> R' (f a) (f b)) ->
  StronglySorted R l -> StronglySorted R' (map f l).
Proof.
  intros Hf Hs. induction Hs as [|a l Hs IH Hall]; cbn; [constructor|].
  constructor.
  - apply IH. intros x y Hx Hy. apply Hf; right; assumption.
  - apply Forall_forall. intros y Hy. apply in_map_iff in Hy. destruct Hy as [x [<- Hx]].
    apply Hf; [left; reflexivity | right; exact Hx|]. rewrite Forall_forall in Hall. apply Hall; exact Hx.
Qed.

Lemma StronglySorted_irrefl_NoDup {A} (R : A -> A -> Prop) (l : list A) :
  (forall a, ~ R a a) -> StronglySorted R l -> NoDup l.
Proof.
  intros Hirr Hs. induction Hs as [|a l Hs IH Hall]; constructor; [|exact IH].
  intros Hin. rewrite Forall_forall in Hall. exact (Hirr a (Hall a Hin)).
Qed.

(* one key, one entry *)
Lemma sorted_in_unique (s : okv) k v1 v2 : okv_sorted s = true -> In (k, v1) s -> In (k, v2) s -> v1 = v2.
Proof.
  intros Hs H1 H2. apply (in_get _ _ _ Hs) in H1. apply (in_get _ _ _ Hs) in H2. congruence.
Qed.

(* a listing of a sorted store holds exactly what the point reads under the prefix find *)
Lemma prefix_in_get (s : okv) p k v : okv_sorted s = true ->
  (In (k, v) (okv_prefix s p) <-> okv_get s k = Some v /\ is_prefix p k = true).
Proof.
  intros Hs. rewrite prefix_in. split.
  - intros [Hin Hp]. split; [apply in_get; assumption | exact Hp].
  - intros [Hg Hp]. split; [apply get_in; exact Hg | exact Hp].
Qed.

(* ---- decoding a listing ---- *)
Lemma decode_all_map {A} (dec : list N -> V -> outcome A) (f : list N * V -> A) (es : okv) :
  (forall k v, In (k, v) es -> dec k v = Ok (f (k, v))) -> decode_all dec es = Ok (map f es).
Proof.
  induction es as [|[k v] r IH]; intros Hd; [reflexivity|]. cbn.
  rewrite (Hd k v (or_introl eq_refl)). cbn. rewrite IH by (intros k' v' Hin; apply Hd; right; exact Hin).
  reflexivity.
Qed.

Lemma obind_ret {A} (o : outcome A) : (do x <- o; Ok x) = o.
Proof. destruct o; reflexivity. Qed.

(* an appending callback that first maps the decoded value; a decode failure is the same failure on both sides *)
Lemma iterate_append_map {A B} (dec : list N -> V -> outcome A) (f : A -> B) (es : okv) (acc : list B) :
  okv_iterate dec (fun acc_ a_ => Ok (acc_ ++ [f a_], false)) es acc =
  do l <- decode_all dec es; Ok (acc ++ map f l).
Proof.
  revert acc. induction es as [|[k v] r IH]; intros acc; cbn.
  - rewrite app_nil_r. reflexivity.
  - destruct (dec k v) as [a|c|c]; cbn; [|reflexivity|reflexivity].
    rewrite IH. destruct (decode_all dec r); cbn; [rewrite <- app_assoc; reflexivity | reflexivity | reflexivity].
Qed.

Lemma iterate_append_total {A} (dec : list N -> V -> outcome A) (es : okv) acc :
  okv_iterate dec (fun acc_ a_ => Ok (acc_ ++ [a_], false)) es acc =
  do l <- decode_all dec es; Ok (acc ++ l).
Proof.
  rewrite (iterate_append_map dec (fun a => a)). destruct (decode_all dec es); cbn; [rewrite map_id|..]; reflexivity.
Qed.

(* the loop only sees the decoder through its values *)
Lemma iterate_ext_dec {A St} (dec1 dec2 : list N -> V -> outcome A) (cb : St -> A -> outcome (St * bool)) (es : okv) st :
  (forall k v, dec1 k v = dec2 k v) -> okv_iterate dec1 cb es st = okv_iterate dec2 cb es st.
Proof.
  intros Hd. revert st. induction es as [|[k v] r IH]; intros st; cbn; [reflexivity|].
  rewrite Hd. destruct (dec2 k v) as [a|c|c]; cbn; [|reflexivity|reflexivity].
  destruct (cb st a) as [[st' b]|c|c]; cbn; [|reflexivity|reflexivity].
  destruct b; [reflexivity | apply IH].
Qed.

Lemma decode_all_ext {A} (dec1 dec2 : list N -> V -> outcome A) (es : okv) :
  (forall k v, dec1 k v = dec2 k v) -> decode_all dec1 es = decode_all dec2 es.
Proof.
  intros Hd. induction es as [|[k v] r IH]; cbn; [reflexivity|]. rewrite Hd, IH. reflexivity.
Qed.

End Facts2.
