(* C15: genesis export / import round trip (model/Genesis.v).
   Under the reachable-state invariants ([app_inv], [reg_inv] for the two registries), importing the
   exported document succeeds and yields the state [app_reimported a], which is the original state up to
   - the representation of the enterprise totals ([None] becomes [Some (denom, 0)]),
   - the enterprise queues, rebuilt as the ids of raised / accepted orders in store order,
   - the registries' record store, regrouped per registration (and truncated to the newest EXPORT_CAP
     records of each registration; then the registration's counters are recomputed). *)
From MC Require Import lib.Prelude lib.AMap model.Bank model.Stream model.StreamSpec model.Registry
  model.RegistrySpec model.Enterprise model.EnterpriseSpec model.App model.AppSpec model.Genesis.
From MC Require Import proofs.BankProofs proofs.StreamProofs proofs.EnterpriseProofs proofs.RegistryProofs
  proofs.AppParamsProofs proofs.AppInv proofs.GenesisLib.
From Coq Require Import Permutation Sorting.Sorted ZifyBool.
Ltac Zify.zify_post_hook ::= Z.div_mod_to_equations.
Local Open Scope Z_scope.

(* ================================================================= *)
(* 1. enterprise                                                      *)
(* ================================================================= *)

(* ids of the orders with status [st], in store order: what InitGenesis puts on a queue *)
Definition ids_with (st : Z) (s : ent_state) : list Z :=
  map po_id (filter (fun o => po_status o =? st) (map snd (e_pos s))).

Definition ent_reimported (s : ent_state) : ent_state :=
  {| e_params := e_params s; e_next := e_next s; e_pos := e_pos s;
     e_raisedq := ids_with ST_RAISED s; e_acceptedq := ids_with ST_ACCEPTED s;
     e_wl := e_wl s; e_locked := e_locked s; e_spent := e_spent s;
     e_totlocked := Some (total_locked s); e_totspent := Some (total_spent s) |}.

Lemma pos_ids now s kv : sinv now s -> In kv (e_pos s) -> po_id (snd kv) = fst kv.
Proof.
  intros Is Hin. destruct kv as [k o]. cbn [fst snd].
  apply (In_aget_nodup _ _ _ (si_nd_pos _ _ Is)) in Hin. apply (pk_id _ _ _ _ _ (si_po _ _ Is _ _ Hin)).
Qed.

Lemma ids_with_keys now s st :
  sinv now s -> ids_with st s = map fst (filter (fun kv => po_status (snd kv) =? st) (e_pos s)).
Proof.
  intros Is. unfold ids_with. pose proof (fun kv => pos_ids now s kv Is) as Hid. revert Hid.
  generalize (e_pos s) as l. induction l as [|[k o] l IH]; intros Hid; [reflexivity|].
  cbn [map snd filter]. assert (IH' := IH (fun kv X => Hid kv (or_intror X))).
  destruct (po_status o =? st); cbn [map fst]; [|exact IH'].
  f_equal; [exact (Hid (k, o) (or_introl eq_refl)) | exact IH'].
Qed.

Lemma NoDup_map_filter {A B} (f : A -> B) (p : A -> bool) l : NoDup (map f l) -> NoDup (map f (filter p l)).
Proof.
  induction l as [|x l IH]; cbn [map filter]; [auto|]. intros N. inversion N as [|? ? NI N']; subst.
  destruct (p x); cbn [map]; [|auto]. constructor; [|auto].
  intros X. apply NI. apply in_map_iff in X as (y & E & Hy). apply filter_In in Hy as [Hy _].
  rewrite <- E. apply in_map; exact Hy.
Qed.

Lemma ids_with_nodup now s st : sinv now s -> NoDup (ids_with st s).
Proof.
  intros Is. rewrite (ids_with_keys now s st Is). apply NoDup_map_filter. exact (si_nd_pos _ _ Is).
Qed.

Lemma ids_with_spec now s st id :
  sinv now s -> st <> ST_NIL -> (In id (ids_with st s) <-> status_of s id = st).
Proof.
  intros Is Hst. rewrite (ids_with_keys now s st Is). unfold status_of. split.
  - intros X. apply in_map_iff in X as ([k o] & E & Hy). cbn [fst] in E; subst k.
    apply filter_In in Hy as [Hy Hs]. cbn [snd] in Hs.
    rewrite (In_aget_nodup _ _ _ (si_nd_pos _ _ Is) Hy). lia.
  - destruct (aget id (e_pos s)) as [o|] eqn:G; [|congruence]. intros E.
    apply in_map_iff. exists (id, o). split; [reflexivity|]. apply filter_In. split; [apply aget_In; exact G|].
    cbn [snd]. lia.
Qed.

Lemma sinv_reimported now s : sinv now s -> sinv now (ent_reimported s).
Proof.
  intros Is. pose proof Is as Is0. destruct Is.
  constructor; cbn [ent_reimported e_pos e_locked e_spent e_raisedq e_acceptedq e_params e_next]; auto.
  - apply (ids_with_nodup now); exact Is0.
  - apply (ids_with_nodup now); exact Is0.
  - intros id. apply (ids_with_spec now s ST_RAISED id Is0). discriminate.
  - intros id. apply (ids_with_spec now s ST_ACCEPTED id Is0). discriminate.
Qed.

Lemma ent_inv_reimported b s now :
  ent_inv {| w_bank := b; w_ent := s; w_now := now |} ->
  ent_inv {| w_bank := b; w_ent := ent_reimported s; w_now := now |}.
Proof.
  intros [Is In Ie Ie0]. cbn [w_bank w_ent w_now] in *. constructor; cbn [w_bank w_ent w_now]; auto.
  apply sinv_reimported; exact Is.
Qed.

Lemma import_export_ent b s now :
  ent_inv {| w_bank := b; w_ent := s; w_now := now |} -> bank_wf b ->
  import_ent b (export_ent s) = Some (ent_reimported s).
Proof.
  intros [Is In Ie Ie0] Wf. cbn [w_bank w_ent w_now] in *.
  assert (Hpos : fold_left (fun m o => aset (po_id o) o m) (map snd (e_pos s)) [] = e_pos s).
  { assert (Hk : map po_id (map snd (e_pos s)) = akeys (e_pos s)).
    { rewrite map_map. apply map_ext_in. intros kv Hkv. apply (pos_ids now s kv Is Hkv). }
    rewrite (fold_aset_app po_id (fun o => o) (map snd (e_pos s)) []).
    - cbn [List.app]. rewrite map_map. rewrite <- (map_id (e_pos s)) at 2. apply map_ext_in.
      intros [k o] Hkv. rewrite (pos_ids now s (k, o) Is Hkv). reflexivity.
    - cbn [akeys map List.app]. rewrite Hk. exact (si_nd_pos _ _ Is). }
  destruct (si_tl _ _ Is) as [Tl1 Tl2].
  assert (Hbal : (balance b ENT_MACC (fst (total_locked s)) =? snd (total_locked s)) = true).
  { rewrite Tl1, Ie. apply Z.eqb_refl. }
  assert (Hall : forallb (fun kv => (snd (fst kv) =? fst (total_locked s)) || negb (fst (fst kv) =? ENT_MACC)
                                    || (snd kv =? 0)) (bal b) = true).
  { apply forallb_forall. intros [[x d] v] Hin. cbn [fst snd]. rewrite Tl1.
    destruct (d =? dn s) eqn:Ed; [reflexivity|]. destruct (x =? ENT_MACC) eqn:Ex; [|reflexivity]. cbn [negb orb].
    apply Z.eqb_eq in Ex; subst x. apply Z.eqb_neq in Ed.
    pose proof (Ie0 d Ed) as B0. unfold balance in B0. rewrite (In_aget_nodup _ _ _ Wf Hin) in B0. lia. }
  unfold import_ent.
  cbn [export_ent ge_params ge_start ge_pos ge_locked ge_totlocked ge_wl ge_totspent ge_spent].
  rewrite Hpos, (rebuild_amap _ (si_nd_locked _ _ Is)), (rebuild_amap _ (si_nd_spent _ _ Is)).
  rewrite (si_params _ _ Is). cbn [negb]. rewrite Hbal, Hall. reflexivity.
Qed.

(* ================================================================= *)
(* 2. stream                                                          *)
(* ================================================================= *)

Lemma import_export_str now b s : str_inv now b s -> bank_wf b -> import_str b (export_str s) = Some s.
Proof.
  intros [K S B V R N] Wf.
  assert (Hv : str_params_valid (s_valfee s) = true) by (apply str_params_valid_spec; exact V).
  unfold import_str. cbn [export_str gs_valfee gs_streams]. rewrite Hv. cbn [negb].
  rewrite (rebuild_amap _ K).
  assert (Es : {| s_valfee := s_valfee s; s_streams := s_streams s |} = s) by (destruct s; reflexivity).
  rewrite Es.
  assert (H1 : forallb (fun kv => negb (fst (fst kv) =? STREAM_MACC) || (snd kv =? total_deposits s (snd (fst kv))))
                       (bal b) = true).
  { apply forallb_forall. intros [[x d] v] Hin. cbn [fst snd].
    destruct (x =? STREAM_MACC) eqn:Ex; [|reflexivity]. cbn [negb orb]. apply Z.eqb_eq in Ex; subst x.
    pose proof (B d) as Bd. unfold balance in Bd. rewrite (In_aget_nodup _ _ _ Wf Hin) in Bd. lia. }
  assert (H2 : forallb (fun kv => balance b STREAM_MACC (st_denom (snd kv)) =? total_deposits s (st_denom (snd kv)))
                       (s_streams s) = true).
  { apply forallb_forall. intros kv _. rewrite (B (st_denom (snd kv))). apply Z.eqb_refl. }
  rewrite H1, H2. reflexivity.
Qed.

(* ================================================================= *)
(* 3. registries (WRKChain / BEACON)                                  *)
(* ================================================================= *)

(* what ExportGenesis writes for one registration: its newest EXPORT_CAP records, ascending *)
Definition blocks (s : reg_state) (id : Z) : list (Z * record) :=
  newest EXPORT_CAP (sort_by_key (records_of id (r_recs s))).

(* the registration with its counters recomputed from the exported records *)
Definition exp_rg (rg : registration) (bl : list (Z * record)) : registration :=
  {| rg_id := rg_id rg; rg_owner := rg_owner rg; rg_moniker := rg_moniker rg; rg_name := rg_name rg;
     rg_genesis := rg_genesis rg; rg_type := rg_type rg; rg_last := rg_last rg;
     rg_num := Z.of_nat (List.length bl);
     rg_lowest := match bl with [] => 0 | b :: _ => fst b end;
     rg_regtime := rg_regtime rg |}.

Definition exp_entry (s : reg_state) (kv : Z * registration) : gen_reg_entry :=
  {| gre_reg := exp_rg (snd kv) (blocks s (rg_id (snd kv)));
     gre_limit := limit_of s (rg_id (snd kv));
     gre_recs := blocks s (rg_id (snd kv)) |}.

Lemma export_reg_eq s :
  export_reg s = {| gr_params := r_params s; gr_start := r_next s; gr_regs := map (exp_entry s) (r_regs s) |}.
Proof. reflexivity. Qed.

(* the records of one registration, re-keyed for the store *)
Definition rekey (id : Z) (l : list (Z * record)) : amap (Z * Z) record :=
  map (fun kr => ((id, fst kr), snd kr)) l.

(* the record store InitGenesis builds: one group per exported registration, in export order *)
Definition regroup (es : list gen_reg_entry) : amap (Z * Z) record :=
  flat_map (fun e => rekey (rg_id (gre_reg e)) (gre_recs e)) es.

Definition entry_id (e : gen_reg_entry) : Z := rg_id (gre_reg e).

Lemma akeys_rekey id l : akeys (rekey id l) = map (fun kr => (id, fst kr)) l.
Proof. unfold akeys, rekey. rewrite map_map. reflexivity. Qed.

Lemma In_regroup es id k rc :
  In ((id, k), rc) (regroup es) <-> exists e, In e es /\ entry_id e = id /\ In (k, rc) (gre_recs e).
Proof.
  unfold regroup, rekey, entry_id. rewrite in_flat_map. split.
  - intros (e & He & X). apply in_map_iff in X as ([k' rc'] & E & Hin). cbn [fst snd] in E.
    injection E as E1 E2 E3; subst. exists e. auto.
  - intros (e & He & Eid & Hin). exists e. split; [exact He|]. apply in_map_iff. exists (k, rc).
    cbn [fst snd]. rewrite Eid. auto.
Qed.

Lemma In_akeys_regroup es id k :
  In (id, k) (akeys (regroup es)) -> In id (map entry_id es).
Proof.
  unfold akeys. intros X. apply in_map_iff in X as ([[id' k'] rc] & E & Hin). cbn [fst] in E.
  injection E as -> ->. apply In_regroup in Hin as (e & He & <- & _). apply in_map; exact He.
Qed.

Lemma NoDup_regroup es :
  NoDup (map entry_id es) -> (forall e, In e es -> NoDup (map fst (gre_recs e))) -> NoDup (akeys (regroup es)).
Proof.
  induction es as [|e es IH]; [intros _ _; constructor|]. cbn [map]. intros N Hk.
  inversion N as [|? ? NI N']; subst. unfold regroup. cbn [flat_map]. rewrite akeys_app.
  apply NoDup_app_iff. split; [|split].
  - rewrite akeys_rekey. specialize (Hk e (or_introl eq_refl)).
    clear -Hk. induction (gre_recs e) as [|[k rc] l IHl]; [constructor|]. cbn [map fst] in *.
    inversion Hk as [|? ? NI N]; subst. constructor; [|auto].
    intros X. apply in_map_iff in X as ([k' rc'] & E & Hin). cbn [fst] in E. injection E as ->.
    apply NI. change k with (fst (k, rc')). apply in_map; exact Hin.
  - apply IH; [exact N'|]. intros e' He'. apply Hk; right; exact He'.
  - intros [id k] X Y. rewrite akeys_rekey in X. apply in_map_iff in X as (kr & E & _).
    injection E as <- _. apply NI. exact (In_akeys_regroup es _ _ Y).
Qed.

(* InitGenesis' nested loop appends the groups one after the other *)
Lemma import_recs_fold es : forall acc : amap (Z * Z) record,
  NoDup (akeys acc ++ akeys (regroup es)) ->
  fold_left (fun m e => fold_left (fun m2 kr => aset (rg_id (gre_reg e), fst kr) (snd kr) m2) (gre_recs e) m) es acc
  = acc ++ regroup es.
Proof.
  induction es as [|e es IH]; intros acc ND; cbn [fold_left].
  - unfold regroup; cbn [flat_map]. rewrite app_nil_r. reflexivity.
  - unfold regroup in ND. cbn [flat_map] in ND. fold (regroup es) in ND.
    rewrite akeys_app, akeys_rekey, app_assoc in ND.
    rewrite (fold_aset_app (fun kr => (rg_id (gre_reg e), fst kr)) snd (gre_recs e) acc)
      by (eapply NoDup_app_l; exact ND).
    rewrite IH.
    + unfold regroup at 2. cbn [flat_map]. fold (regroup es). unfold rekey. rewrite app_assoc. reflexivity.
    + rewrite akeys_app. unfold akeys at 2. rewrite map_map. cbn [fst]. exact ND.
Qed.

Lemma records_of_app id l1 l2 : records_of id (l1 ++ l2) = records_of id l1 ++ records_of id l2.
Proof. unfold records_of. rewrite filter_app, map_app. reflexivity. Qed.

Lemma records_of_rekey id id' l : records_of id (rekey id' l) = if id' =? id then l else [].
Proof.
  unfold records_of, rekey. induction l as [|[k rc] l IH]; cbn [map filter fst snd].
  - destruct (id' =? id); reflexivity.
  - destruct (id' =? id) eqn:E; cbn [map fst snd]; [f_equal|]; exact IH.
Qed.

Lemma records_of_regroup_other es id : ~ In id (map entry_id es) -> records_of id (regroup es) = [].
Proof.
  induction es as [|e es IH]; [reflexivity|]. cbn [map In]. intros N. unfold regroup. cbn [flat_map].
  fold (regroup es). rewrite records_of_app, records_of_rekey, IH by tauto.
  fold (entry_id e). destruct (entry_id e =? id) eqn:E; [|reflexivity]. apply Z.eqb_eq in E. tauto.
Qed.

Lemma records_of_regroup es e :
  NoDup (map entry_id es) -> In e es -> records_of (entry_id e) (regroup es) = gre_recs e.
Proof.
  induction es as [|e0 es IH]; [intros _ []|]. cbn [map]. intros N Hin.
  inversion N as [|? ? NI N']; subst. unfold regroup. cbn [flat_map]. fold (regroup es).
  rewrite records_of_app, records_of_rekey. fold (entry_id e0). destruct Hin as [->|Hin].
  - rewrite Z.eqb_refl, (records_of_regroup_other es _ NI), app_nil_r. reflexivity.
  - destruct (entry_id e0 =? entry_id e) eqn:E.
    + apply Z.eqb_eq in E. exfalso. apply NI. rewrite E. apply in_map; exact Hin.
    + cbn [List.app]. apply IH; assumption.
Qed.

(* ---- facts the registry invariant gives about one registration ---- *)

Lemma regs_ids h s g kv : reg_inv h s g -> In kv (r_regs s) -> rg_id (snd kv) = fst kv.
Proof.
  intros I Hin. destruct kv as [id rg]. cbn [fst snd].
  apply (In_aget_nodup _ _ _ (inv_nd_regs _ _ _ I)) in Hin.
  destruct (inv_regs _ _ _ I _ _ Hin) as [_ Hok]. exact (ok_id _ _ _ _ _ _ Hok).
Qed.

Lemma recs_sorted h s g id : reg_inv h s g -> strictly_increasing (map fst (records_of id (r_recs s))).
Proof.
  intros I. destruct (aget id (r_regs s)) as [rg|] eqn:G.
  - destruct (inv_regs _ _ _ I _ _ G) as [_ Hok]. exact (proj1 (reg_ok_rs_sorted _ _ _ _ _ _ Hok)).
  - change (records_of id (r_recs s)) with (recs_of id (r_recs s)).
    rewrite (inv_recs_unreg _ _ _ _ I G). exact Logic.I.
Qed.

Lemma blocks_newest h s g id : reg_inv h s g -> blocks s id = newest EXPORT_CAP (records_of id (r_recs s)).
Proof. intros I. unfold blocks. rewrite (sort_id _ (recs_sorted h s g id I)). reflexivity. Qed.

Lemma blocks_si h s g id : reg_inv h s g -> strictly_increasing (map fst (blocks s id)).
Proof.
  intros I. rewrite (blocks_newest h s g id I), newest_map. apply newest_si, (recs_sorted h s g id I).
Qed.

Lemma blocks_cap s id : Z.of_nat (List.length (blocks s id)) <= EXPORT_CAP.
Proof. unfold blocks. rewrite newest_length by (unfold EXPORT_CAP; lia). lia. Qed.

Lemma blocks_all h s g id :
  reg_inv h s g -> Z.of_nat (List.length (records_of id (r_recs s))) <= EXPORT_CAP ->
  blocks s id = records_of id (r_recs s).
Proof. intros I C. rewrite (blocks_newest h s g id I). apply newest_all; exact C. Qed.

(* ---- the re-imported registry ---- *)

Definition reg_reimported (s : reg_state) : reg_state :=
  {| r_params := r_params s; r_next := r_next s;
     r_regs := map (fun kv => (fst kv, exp_rg (snd kv) (blocks s (fst kv)))) (r_regs s);
     r_limits := r_limits s;
     r_recs := regroup (map (exp_entry s) (r_regs s)) |}.

Lemma entry_ids h s g : reg_inv h s g -> map entry_id (map (exp_entry s) (r_regs s)) = akeys (r_regs s).
Proof.
  intros I. rewrite map_map. apply map_ext_in. intros kv Hkv. unfold entry_id, exp_entry, exp_rg.
  cbn [gre_reg rg_id]. exact (regs_ids h s g kv I Hkv).
Qed.

Lemma regroup_nodup h s g : reg_inv h s g -> NoDup (akeys (regroup (map (exp_entry s) (r_regs s)))).
Proof.
  intros I. apply NoDup_regroup.
  - rewrite (entry_ids h s g I). exact (inv_nd_regs _ _ _ I).
  - intros e He. apply in_map_iff in He as (kv & <- & _). cbn [exp_entry gre_recs].
    apply si_NoDup, (blocks_si h s g _ I).
Qed.

Lemma import_export_reg h s g : reg_inv h s g -> import_reg (export_reg s) = Some (reg_reimported s).
Proof.
  intros I. rewrite export_reg_eq. unfold import_reg. cbn [gr_params gr_start gr_regs].
  rewrite (inv_params _ _ _ I). cbn [negb].
  pose proof (entry_ids h s g I) as Hids. unfold entry_id in Hids.
  assert (Hregs : fold_left (fun m e => aset (rg_id (gre_reg e)) (gre_reg e) m) (map (exp_entry s) (r_regs s)) []
                  = map (fun kv => (fst kv, exp_rg (snd kv) (blocks s (fst kv)))) (r_regs s)).
  { rewrite (fold_aset_app (fun e => rg_id (gre_reg e)) gre_reg _ []).
    - cbn [List.app]. rewrite map_map. apply map_ext_in. intros kv Hkv.
      cbn [exp_entry gre_reg exp_rg rg_id]. rewrite (regs_ids h s g kv I Hkv). reflexivity.
    - cbn [akeys map List.app]. rewrite Hids. exact (inv_nd_regs _ _ _ I). }
  assert (Hlim : fold_left (fun m e => aset (rg_id (gre_reg e)) (gre_limit e) m) (map (exp_entry s) (r_regs s)) []
                 = r_limits s).
  { rewrite (fold_aset_app (fun e => rg_id (gre_reg e)) gre_limit _ []).
    - cbn [List.app]. rewrite map_map.
      etransitivity; [|exact (amap_as_keys MODULE_DEFAULT_LIMIT (r_limits s) (inv_nd_limits _ _ _ I))].
      rewrite (inv_limit_keys _ _ _ I). unfold akeys. rewrite map_map. apply map_ext_in. intros kv Hkv.
      cbn [exp_entry gre_reg gre_limit exp_rg rg_id]. rewrite (regs_ids h s g kv I Hkv). reflexivity.
    - cbn [akeys map List.app]. rewrite Hids. exact (inv_nd_regs _ _ _ I). }
  rewrite Hregs, Hlim, (import_recs_fold _ []) by (cbn [akeys map List.app]; apply (regroup_nodup h s g I)).
  reflexivity.
Qed.

(* ---- what the re-imported store contains ---- *)

Lemma records_of_reimported h s g id :
  reg_inv h s g -> records_of id (r_recs (reg_reimported s)) = blocks s id.
Proof.
  intros I. cbn [reg_reimported r_recs]. destruct (aget id (r_regs s)) as [rg|] eqn:G.
  - pose proof (aget_In _ _ _ G) as Hin. pose proof (regs_ids h s g _ I Hin) as Eid. cbn [fst snd] in Eid.
    assert (He : In (exp_entry s (id, rg)) (map (exp_entry s) (r_regs s))) by (apply in_map; exact Hin).
    pose proof (records_of_regroup _ _ ltac:(rewrite (entry_ids h s g I); exact (inv_nd_regs _ _ _ I)) He) as R.
    unfold entry_id in R. cbn [exp_entry gre_reg gre_recs exp_rg rg_id snd] in R. rewrite Eid in R. exact R.
  - rewrite records_of_regroup_other.
    + unfold blocks. change (records_of id (r_recs s)) with (recs_of id (r_recs s)).
      rewrite (inv_recs_unreg _ _ _ _ I G). reflexivity.
    + rewrite (entry_ids h s g I). intros X. apply In_akeys_aget in X as [v X]. congruence.
Qed.

Lemma In_reimported_recs h s g id k rc :
  reg_inv h s g ->
  (In ((id, k), rc) (r_recs (reg_reimported s)) <-> In (k, rc) (blocks s id)).
Proof.
  intros I. rewrite <- (records_of_reimported h s g id I).
  change records_of with recs_of. rewrite In_recs_of. reflexivity.
Qed.

Lemma limit_of_reimported s id : limit_of (reg_reimported s) id = limit_of s id.
Proof. reflexivity. Qed.

(* exporting the re-imported registry gives the same document (no cap hypothesis needed) *)
Lemma blocks_reimported h s g id : reg_inv h s g -> blocks (reg_reimported s) id = blocks s id.
Proof.
  intros I. unfold blocks at 1. rewrite (records_of_reimported h s g id I).
  rewrite (sort_id _ (blocks_si h s g id I)). apply newest_all, blocks_cap.
Qed.

Lemma export_reimported_reg h s g : reg_inv h s g -> export_reg (reg_reimported s) = export_reg s.
Proof.
  intros I. rewrite !export_reg_eq. cbn [reg_reimported r_params r_next r_regs]. f_equal.
  rewrite map_map. apply map_ext_in. intros kv Hkv. pose proof (regs_ids h s g kv I Hkv) as Eid.
  unfold exp_entry. cbn [snd exp_rg rg_id]. rewrite limit_of_reimported.
  rewrite (blocks_reimported h s g _ I), Eid. reflexivity.
Qed.

(* ---- under the cap nothing is truncated: registrations and limits come back identical, the record
        store is a regrouping (permutation) with the same lookups ---- *)

Definition under_cap (s : reg_state) : Prop :=
  forall id, Z.of_nat (List.length (records_of id (r_recs s))) <= EXPORT_CAP.

Lemma exp_rg_same h s g id rg :
  reg_inv h s g -> aget id (r_regs s) = Some rg ->
  Z.of_nat (List.length (records_of id (r_recs s))) <= EXPORT_CAP -> exp_rg rg (blocks s id) = rg.
Proof.
  intros I G C. rewrite (blocks_all h s g id I C).
  destruct (C08_counters _ _ _ _ _ I G) as (Hn & Hl & _). unfold keys_of in Hl.
  change (recs_of id (r_recs s)) with (records_of id (r_recs s)) in *.
  unfold exp_rg. rewrite <- Hn.
  replace (match records_of id (r_recs s) with [] => 0 | b :: _ => fst b end) with (rg_lowest rg)
    by (rewrite Hl; destruct (records_of id (r_recs s)); reflexivity).
  destruct rg; reflexivity.
Qed.

Lemma reimported_regs_same h s g : reg_inv h s g -> under_cap s -> r_regs (reg_reimported s) = r_regs s.
Proof.
  intros I C. cbn [reg_reimported r_regs]. rewrite <- (map_id (r_regs s)) at 2. apply map_ext_in.
  intros [id rg] Hin. cbn [fst snd]. f_equal.
  apply (exp_rg_same h s g id rg I); [|apply C]. apply In_aget_nodup; [exact (inv_nd_regs _ _ _ I) | exact Hin].
Qed.

Lemma reimported_recs_In h s g id k rc :
  reg_inv h s g -> under_cap s ->
  (In ((id, k), rc) (r_recs (reg_reimported s)) <-> In ((id, k), rc) (r_recs s)).
Proof.
  intros I C. rewrite (In_reimported_recs h s g id k rc I), (blocks_all h s g id I (C id)).
  change records_of with recs_of. apply In_recs_of.
Qed.

Lemma reimported_recs_nodup h s g : reg_inv h s g -> NoDup (akeys (r_recs (reg_reimported s))).
Proof. intros I. exact (regroup_nodup h s g I). Qed.

Lemma reimported_recs_aget h s g key :
  reg_inv h s g -> under_cap s -> aget key (r_recs (reg_reimported s)) = aget key (r_recs s).
Proof.
  intros I C. apply aget_ext_In; [apply (reimported_recs_nodup h s g I) | exact (inv_nd_recs _ _ _ I)|].
  intros [id k] rc. apply (reimported_recs_In h s g id k rc I C).
Qed.

Lemma reimported_recs_perm h s g :
  reg_inv h s g -> under_cap s -> Permutation (r_recs (reg_reimported s)) (r_recs s).
Proof.
  intros I C. apply perm_ext_In; [apply (reimported_recs_nodup h s g I) | exact (inv_nd_recs _ _ _ I)|].
  intros [id k] rc. apply (reimported_recs_In h s g id k rc I C).
Qed.

Lemma reimported_records_of h s g id :
  reg_inv h s g -> under_cap s -> records_of id (r_recs (reg_reimported s)) = records_of id (r_recs s).
Proof. intros I C. rewrite (records_of_reimported h s g id I). apply (blocks_all h s g id I (C id)). Qed.

(* the registry invariant itself survives the round trip (same ghost log) *)
Lemma reg_inv_reimported h s g : reg_inv h s g -> under_cap s -> reg_inv h (reg_reimported s) g.
Proof.
  intros I C. pose proof (reimported_regs_same h s g I C) as Er.
  constructor; rewrite ?Er; try (cbn [reg_reimported r_limits r_params r_next]; apply I).
  - apply (reimported_recs_nodup h s g I).
  - intros id rg G. destruct (inv_regs _ _ _ I id rg G) as [R Hok]. split; [exact R|].
    change (recs_of id (r_recs (reg_reimported s))) with (records_of id (r_recs (reg_reimported s))).
    rewrite (reimported_records_of h s g id I C). exact Hok.
  - intros id k rc G. rewrite (reimported_recs_aget h s g _ I C) in G. exact (inv_recs_reg _ _ _ I id k rc G).
Qed.

(* ================================================================= *)
(* 4. the application                                                 *)
(* ================================================================= *)

Definition app_reimported (a : app) : app :=
  {| a_bank := a_bank a; a_ent := ent_reimported (a_ent a); a_wrk := reg_reimported (a_wrk a);
     a_bcn := reg_reimported (a_bcn a); a_str := a_str a;
     a_grants := a_grants a; a_allow := a_allow a; a_now := a_now a |}.

(* the registry invariants ([app_inv] does not contain them) *)
Definition regs_inv (a : app) : Prop :=
  (exists g, reg_inv true (a_wrk a) g) /\ (exists g, reg_inv false (a_bcn a) g).

Definition app_under_cap (a : app) : Prop := under_cap (a_wrk a) /\ under_cap (a_bcn a).

Theorem import_export_app a :
  app_inv a -> regs_inv a -> import_app (export_app a) = Some (app_reimported a).
Proof.
  intros Ia [[gw Iw] [gb Ib]]. unfold import_app, export_app.
  cbn [gd_bank gd_ent gd_wrk gd_bcn gd_str gd_grants gd_allow gd_time].
  rewrite (import_export_ent (a_bank a) (a_ent a) (unix (a_now a)) (ai_ent a Ia) (ai_wf a Ia)).
  rewrite (import_export_reg true _ gw Iw), (import_export_reg false _ gb Ib).
  rewrite (import_export_str (a_now a) _ _ (ai_str a Ia) (ai_wf a Ia)). reflexivity.
Qed.

(* ---- 1. InitChain succeeds ---- *)
Theorem import_succeeds a : app_inv a -> regs_inv a -> exists a', import_app (export_app a) = Some a'.
Proof. intros Ia Ir. exists (app_reimported a). apply import_export_app; assumption. Qed.

(* ---- observational equality ---- *)

Definition ent_equiv (Q : list Z -> list Z -> Prop) (s s' : ent_state) : Prop :=
  e_params s = e_params s' /\ e_next s = e_next s' /\
  (forall id, aget id (e_pos s) = aget id (e_pos s')) /\
  Q (e_raisedq s) (e_raisedq s') /\ Q (e_acceptedq s) (e_acceptedq s') /\
  e_wl s = e_wl s' /\
  (forall x, locked_coin s x = locked_coin s' x) /\ (forall x, spent_coin s x = spent_coin s' x) /\
  total_locked s = total_locked s' /\ total_spent s = total_spent s'.

Definition reg_equiv (s s' : reg_state) : Prop :=
  r_params s = r_params s' /\ r_next s = r_next s' /\
  (forall id, aget id (r_regs s) = aget id (r_regs s')) /\
  (forall id, aget id (r_limits s) = aget id (r_limits s')) /\
  (forall id, limit_of s id = limit_of s' id) /\
  (forall key, aget key (r_recs s) = aget key (r_recs s')).

Definition str_equiv (s s' : str_state) : Prop :=
  s_valfee s = s_valfee s' /\ forall key, aget key (s_streams s) = aget key (s_streams s').

Definition app_equiv_gen (Q : list Z -> list Z -> Prop) (a a' : app) : Prop :=
  a_bank a = a_bank a' /\ a_grants a = a_grants a' /\ a_allow a = a_allow a' /\ a_now a = a_now a' /\
  ent_equiv Q (a_ent a) (a_ent a') /\ reg_equiv (a_wrk a) (a_wrk a') /\ reg_equiv (a_bcn a) (a_bcn a') /\
  str_equiv (a_str a) (a_str a').

(* queues compared as lists *)
Definition app_equiv : app -> app -> Prop := app_equiv_gen eq.
(* queues compared as duplicate-free sets (permutations) *)
Definition app_equiv_perm : app -> app -> Prop := app_equiv_gen (@Permutation Z).

(* ---- 6. the queues InitGenesis rebuilds ---- *)

Lemma queues_rebuilt_perm now s :
  sinv now s ->
  Permutation (ids_with ST_RAISED s) (e_raisedq s) /\ Permutation (ids_with ST_ACCEPTED s) (e_acceptedq s) /\
  NoDup (ids_with ST_RAISED s) /\ NoDup (e_raisedq s) /\ NoDup (ids_with ST_ACCEPTED s) /\ NoDup (e_acceptedq s) /\
  (forall id, In id (ids_with ST_RAISED s) <-> status_of s id = ST_RAISED) /\
  (forall id, In id (ids_with ST_ACCEPTED s) <-> status_of s id = ST_ACCEPTED).
Proof.
  intros Is.
  pose proof (ids_with_nodup now s ST_RAISED Is) as N1. pose proof (ids_with_nodup now s ST_ACCEPTED Is) as N2.
  assert (S1 : forall id, In id (ids_with ST_RAISED s) <-> status_of s id = ST_RAISED)
    by (intros id; apply (ids_with_spec now); [exact Is | discriminate]).
  assert (S2 : forall id, In id (ids_with ST_ACCEPTED s) <-> status_of s id = ST_ACCEPTED)
    by (intros id; apply (ids_with_spec now); [exact Is | discriminate]).
  repeat split; try assumption; try apply Is; try apply S1; try apply S2.
  - apply NoDup_Permutation; [exact N1 | apply Is |]. intros id. rewrite S1. symmetry. apply (si_rq _ _ Is).
  - apply NoDup_Permutation; [exact N2 | apply Is |]. intros id. rewrite S2. symmetry. apply (si_aq _ _ Is).
Qed.

(* the queues are in store order (ascending id): the extra fact needed to compare them as lists *)
Definition ent_ordered (s : ent_state) : Prop :=
  strictly_increasing (akeys (e_pos s)) /\ strictly_increasing (e_raisedq s) /\ strictly_increasing (e_acceptedq s).

Lemma si_ext l : forall l', strictly_increasing l -> strictly_increasing l' -> (forall x, In x l <-> In x l') -> l = l'.
Proof.
  induction l as [|x r IH]; intros [|y r'] S S' E.
  - reflexivity.
  - exfalso. apply (proj2 (E y)). left; reflexivity.
  - exfalso. apply (proj1 (E x)). left; reflexivity.
  - apply si_cons in S as [A S]. apply si_cons in S' as [A' S'].
    assert (x = y).
    { destruct (proj1 (E x) (or_introl eq_refl)) as [->|X]; [reflexivity|].
      destruct (proj2 (E y) (or_introl eq_refl)) as [->|Y]; [reflexivity|].
      specialize (A y Y). specialize (A' x X). lia. }
    subst y. f_equal. apply IH; auto. intros z. split; intros Z.
    + destruct (proj1 (E z) (or_intror Z)) as [->|Z']; [specialize (A z Z); lia | exact Z'].
    + destruct (proj2 (E z) (or_intror Z)) as [->|Z']; [specialize (A' z Z); lia | exact Z'].
Qed.

Lemma si_map_filter {A} (f : A -> Z) (p : A -> bool) l :
  strictly_increasing (map f l) -> strictly_increasing (map f (filter p l)).
Proof.
  induction l as [|x l IH]; cbn [map filter]; [auto|]. intros S. apply si_cons in S as [A0 S].
  destruct (p x); cbn [map]; [|auto]. apply si_cons. split; [|auto].
  intros y Hy. apply A0. apply in_map_iff in Hy as (z & <- & Hz). apply filter_In in Hz as [Hz _].
  apply in_map; exact Hz.
Qed.

Lemma queues_rebuilt_eq now s :
  sinv now s -> ent_ordered s ->
  ids_with ST_RAISED s = e_raisedq s /\ ids_with ST_ACCEPTED s = e_acceptedq s.
Proof.
  intros Is (Op & Or & Oa).
  destruct (queues_rebuilt_perm now s Is) as (_ & _ & _ & _ & _ & _ & S1 & S2). split.
  - apply si_ext; [rewrite (ids_with_keys now s _ Is); apply si_map_filter; exact Op | exact Or |].
    intros id. rewrite S1. symmetry. apply (si_rq _ _ Is).
  - apply si_ext; [rewrite (ids_with_keys now s _ Is); apply si_map_filter; exact Op | exact Oa |].
    intros id. rewrite S2. symmetry. apply (si_aq _ _ Is).
Qed.

(* ---- 2. the round trip preserves every observable ---- *)

Lemma ent_equiv_reimported_perm now s : sinv now s -> ent_equiv (@Permutation Z) (ent_reimported s) s.
Proof.
  intros Is. destruct (queues_rebuilt_perm now s Is) as (P1 & P2 & _).
  unfold ent_equiv. cbn [ent_reimported e_params e_next e_pos e_raisedq e_acceptedq e_wl].
  repeat split; auto.
Qed.

Lemma ent_equiv_reimported_eq now s : sinv now s -> ent_ordered s -> ent_equiv eq (ent_reimported s) s.
Proof.
  intros Is Ho. destruct (queues_rebuilt_eq now s Is Ho) as (P1 & P2).
  unfold ent_equiv. cbn [ent_reimported e_params e_next e_pos e_raisedq e_acceptedq e_wl].
  repeat split; auto.
Qed.

Lemma reg_equiv_reimported h s g : reg_inv h s g -> under_cap s -> reg_equiv (reg_reimported s) s.
Proof.
  intros I C. unfold reg_equiv. rewrite (reimported_regs_same h s g I C).
  repeat split; auto. intros key. apply (reimported_recs_aget h s g key I C).
Qed.

Lemma str_equiv_refl s : str_equiv s s.
Proof. split; auto. Qed.

Theorem roundtrip_observables_perm a a' :
  app_inv a -> regs_inv a -> app_under_cap a ->
  import_app (export_app a) = Some a' -> app_equiv_perm a' a.
Proof.
  intros Ia Ir [Cw Cb] H. rewrite (import_export_app a Ia Ir) in H. injection H as <-.
  destruct Ir as [[gw Iw] [gb Ib]].
  unfold app_equiv_perm, app_equiv_gen. cbn [app_reimported a_bank a_grants a_allow a_now a_ent a_wrk a_bcn a_str].
  do 4 (split; [reflexivity|]).
  split; [apply (ent_equiv_reimported_perm (unix (a_now a))); apply (ai_ent a Ia)|].
  split; [apply (reg_equiv_reimported true _ gw Iw Cw)|].
  split; [apply (reg_equiv_reimported false _ gb Ib Cb) | apply str_equiv_refl].
Qed.

Theorem roundtrip_observables a a' :
  app_inv a -> regs_inv a -> app_under_cap a -> ent_ordered (a_ent a) ->
  import_app (export_app a) = Some a' -> app_equiv a' a.
Proof.
  intros Ia Ir [Cw Cb] Ho H. rewrite (import_export_app a Ia Ir) in H. injection H as <-.
  destruct Ir as [[gw Iw] [gb Ib]].
  unfold app_equiv, app_equiv_gen. cbn [app_reimported a_bank a_grants a_allow a_now a_ent a_wrk a_bcn a_str].
  do 4 (split; [reflexivity|]).
  split; [apply (ent_equiv_reimported_eq (unix (a_now a))); [apply (ai_ent a Ia) | exact Ho]|].
  split; [apply (reg_equiv_reimported true _ gw Iw Cw)|].
  split; [apply (reg_equiv_reimported false _ gb Ib Cb) | apply str_equiv_refl].
Qed.

(* which components come back Leibniz-equal, and how the others are related *)
Definition reg_same_upto_grouping (s' s : reg_state) : Prop :=
  r_params s' = r_params s /\ r_next s' = r_next s /\ r_regs s' = r_regs s /\ r_limits s' = r_limits s /\
  Permutation (r_recs s') (r_recs s) /\ NoDup (akeys (r_recs s')) /\
  (forall key, aget key (r_recs s') = aget key (r_recs s)) /\
  (forall id, records_of id (r_recs s') = records_of id (r_recs s)).

Lemma reg_same_reimported h s g : reg_inv h s g -> under_cap s -> reg_same_upto_grouping (reg_reimported s) s.
Proof.
  intros I C. unfold reg_same_upto_grouping. rewrite (reimported_regs_same h s g I C).
  repeat split; auto.
  - apply (reimported_recs_perm h s g I C).
  - apply (reimported_recs_nodup h s g I).
  - intros key. apply (reimported_recs_aget h s g key I C).
  - intros id. apply (reimported_records_of h s g id I C).
Qed.

Theorem roundtrip_components a a' :
  app_inv a -> regs_inv a -> app_under_cap a ->
  import_app (export_app a) = Some a' ->
  a_bank a' = a_bank a /\ a_str a' = a_str a /\ a_grants a' = a_grants a /\ a_allow a' = a_allow a /\
  a_now a' = a_now a /\
  (let e := a_ent a in let e' := a_ent a' in
   e_params e' = e_params e /\ e_next e' = e_next e /\ e_pos e' = e_pos e /\ e_wl e' = e_wl e /\
   e_locked e' = e_locked e /\ e_spent e' = e_spent e /\
   e_totlocked e' = Some (total_locked e) /\ e_totspent e' = Some (total_spent e) /\
   e_raisedq e' = ids_with ST_RAISED e /\ e_acceptedq e' = ids_with ST_ACCEPTED e /\
   Permutation (e_raisedq e') (e_raisedq e) /\ Permutation (e_acceptedq e') (e_acceptedq e) /\
   (ent_ordered e -> e_raisedq e' = e_raisedq e /\ e_acceptedq e' = e_acceptedq e)) /\
  reg_same_upto_grouping (a_wrk a') (a_wrk a) /\ reg_same_upto_grouping (a_bcn a') (a_bcn a).
Proof.
  intros Ia Ir [Cw Cb] H. rewrite (import_export_app a Ia Ir) in H. injection H as <-.
  destruct Ir as [[gw Iw] [gb Ib]]. pose proof (inv_s _ (ai_ent a Ia)) as Is. cbn [ew w_ent w_now] in Is.
  destruct (queues_rebuilt_perm _ _ Is) as (P1 & P2 & _).
  cbn [app_reimported a_bank a_grants a_allow a_now a_ent a_wrk a_bcn a_str].
  do 5 (split; [reflexivity|]).
  split; [|split; [apply (reg_same_reimported true _ gw Iw Cw) | apply (reg_same_reimported false _ gb Ib Cb)]].
  cbv zeta. cbn [ent_reimported e_params e_next e_pos e_wl e_locked e_spent e_totlocked e_totspent e_raisedq e_acceptedq].
  do 10 (split; [reflexivity|]). split; [exact P1|]. split; [exact P2|].
  intros Ho. apply (queues_rebuilt_eq _ _ Is Ho).
Qed.

(* ---- 3. exporting again gives the identical document (no cap hypothesis needed) ---- *)

Lemma export_reimported_ent s : export_ent (ent_reimported s) = export_ent s.
Proof. reflexivity. Qed.

Theorem export_idempotent a a' :
  app_inv a -> regs_inv a -> import_app (export_app a) = Some a' -> export_app a' = export_app a.
Proof.
  intros Ia Ir H. rewrite (import_export_app a Ia Ir) in H. injection H as <-.
  destruct Ir as [[gw Iw] [gb Ib]]. unfold export_app.
  cbn [app_reimported a_bank a_grants a_allow a_now a_ent a_wrk a_bcn a_str].
  rewrite export_reimported_ent, (export_reimported_reg true _ gw Iw), (export_reimported_reg false _ gb Ib).
  reflexivity.
Qed.

(* ---- 4. the invariants hold on the new chain ---- *)

Lemma app_inv_reimported a : app_inv a -> app_inv (app_reimported a).
Proof.
  intros [Ie In Iw Is Ip Isup Ig]. constructor; cbn [app_reimported a_bank a_str a_now a_grants]; auto.
  apply ent_inv_reimported in Ie. exact Ie.
Qed.

Theorem invariants_after_import a a' :
  app_inv a -> regs_inv a -> import_app (export_app a) = Some a' ->
  app_inv a' /\
  (* the registered invariants, spelled out *)
  (let s := a_ent a' in let d := ep_denom (e_params s) in
   balance (a_bank a') ENT_MACC d = snd (total_locked s) /\ snd (total_locked s) = asum snd (e_locked s) /\
   snd (total_spent s) = asum snd (e_spent s) /\
   (forall d', d' <> d -> balance (a_bank a') ENT_MACC d' = 0)) /\
  escrow_backed (a_bank a') (a_str a') /\ params_ok a' /\
  (forall d, total_balance (a_bank a') d = supply_of (a_bank a') d).
Proof.
  intros Ia Ir H. rewrite (import_export_app a Ia Ir) in H. injection H as <-.
  pose proof (app_inv_reimported a Ia) as I'. split; [exact I'|].
  destruct I' as [Ie In Iw Is Ip Isup Ig]. destruct Ie as [Ss Sn Se Se0]. cbn [ew w_bank w_ent w_now] in *.
  split; [|split; [apply Is | split; [exact Ip | exact Isup]]].
  cbv zeta. split; [exact Se|]. split; [apply (si_sum_l _ _ Ss)|]. split; [apply (si_sum_s _ _ Ss)|exact Se0].
Qed.

(* under the cap the registry invariants survive too *)
Theorem regs_inv_after_import a a' :
  app_inv a -> regs_inv a -> app_under_cap a -> import_app (export_app a) = Some a' -> regs_inv a'.
Proof.
  intros Ia Ir [Cw Cb] H. rewrite (import_export_app a Ia Ir) in H. injection H as <-.
  destruct Ir as [[gw Iw] [gb Ib]]. split; [exists gw | exists gb]; cbn [app_reimported a_wrk a_bcn].
  - apply reg_inv_reimported; assumption.
  - apply reg_inv_reimported; assumption.
Qed.

(* ---- 5. what the cap does ---- *)

Lemma keys_of_nodup id recs : NoDup (akeys recs) -> NoDup (map fst (records_of id recs)).
Proof.
  change records_of with recs_of.
  induction recs as [|[[i k] rc] r IH]; [intros _; constructor|]. cbn [akeys map fst]. intros N.
  inversion N as [|? ? NI N']; subst. rewrite recs_of_cons. destruct (i =? id) eqn:E; [|apply IH; exact N'].
  apply Z.eqb_eq in E; subst i. cbn [map fst]. constructor; [|apply IH; exact N'].
  intros X. apply NI. apply in_map_iff in X as ([k' rc'] & E & Hin). cbn [fst] in E; subst k'.
  apply In_recs_of in Hin. change (id, k) with (fst ((id, k), rc')). apply in_map; exact Hin.
Qed.

Theorem cap_truncation s kv :
  NoDup (akeys (r_recs s)) -> In kv (r_regs s) ->
  let e := exp_entry s kv in
  let stored := records_of (rg_id (snd kv)) (r_recs s) in
  let sorted := sort_by_key stored in
  In e (gr_regs (export_reg s)) /\
  gre_recs e = newest EXPORT_CAP sorted /\
  Permutation sorted stored /\ StronglySorted key_le sorted /\ strictly_increasing (map fst sorted) /\
  Z.of_nat (List.length (gre_recs e)) = Z.min (Z.of_nat (List.length stored)) EXPORT_CAP /\
  rg_num (gre_reg e) = Z.of_nat (List.length (gre_recs e)) /\
  rg_lowest (gre_reg e) = hd 0 (map fst (gre_recs e)) /\
  (exists dropped, sorted = dropped ++ gre_recs e /\
                   Z.of_nat (List.length dropped) = Z.max 0 (Z.of_nat (List.length stored) - EXPORT_CAP) /\
                   forall x y, In x (map fst dropped) -> In y (map fst (gre_recs e)) -> x < y).
Proof.
  intros ND Hin. cbv zeta. set (stored := records_of (rg_id (snd kv)) (r_recs s)).
  pose proof (sort_strict stored (keys_of_nodup _ _ ND)) as Ss.
  cbn [exp_entry gre_recs gre_reg exp_rg rg_num rg_lowest]. fold stored. unfold blocks. fold stored.
  split; [rewrite export_reg_eq; cbn [gr_regs]; apply (in_map (exp_entry s)); exact Hin|].
  split; [reflexivity|]. split; [apply sort_perm|]. split; [apply sort_sorted|]. split; [exact Ss|].
  split; [rewrite newest_length, sort_length by (unfold EXPORT_CAP; lia); reflexivity|].
  split; [reflexivity|].
  split; [destruct (newest EXPORT_CAP (sort_by_key stored)) as [|[k rc] l]; reflexivity|].
  destruct (newest_split EXPORT_CAP (sort_by_key stored)) as (pre & E & L). exists pre.
  split; [exact E|]. split; [rewrite L, sort_length; unfold EXPORT_CAP; lia|].
  rewrite E, map_app in Ss. apply si_app in Ss. intros x y X Y. apply Ss; assumption.
Qed.

(* the store of the new chain holds, per registration, exactly the exported records; with reg_inv the
   stored records were already ascending, so these are the last EXPORT_CAP of the store order *)
Theorem cap_truncation_store h s g id :
  reg_inv h s g ->
  records_of id (r_recs (reg_reimported s)) = newest EXPORT_CAP (records_of id (r_recs s)) /\
  sort_by_key (records_of id (r_recs s)) = records_of id (r_recs s) /\
  (forall rg, aget id (r_regs s) = Some rg ->
     aget id (r_regs (reg_reimported s)) = Some (exp_rg rg (newest EXPORT_CAP (records_of id (r_recs s))))).
Proof.
  intros I. rewrite (records_of_reimported h s g id I), (blocks_newest h s g id I).
  split; [reflexivity|]. split; [apply sort_id, (recs_sorted h s g id I)|].
  intros rg G. cbn [reg_reimported r_regs]. rewrite <- (blocks_newest h s g id I).
  generalize (blocks s) as bl. intros bl. clear I. induction (r_regs s) as [|[k v] l IH]; [discriminate|].
  cbn [aget map fst snd] in *. destruct (keqb id k) eqn:E.
  - apply keqb_spec in E; subst k. injection G as ->. reflexivity.
  - apply IH; exact G.
Qed.
