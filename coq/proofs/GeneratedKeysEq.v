(* The key builders and parsers of x/{enterprise,wrkchain,beacon,stream}/types/keys.go and the prefix stores / callbacks
   of the stream list queries (x/stream/keeper/query_streams.go), as translated on every run (GeneratedKeys.v, against
   the primitives of model/KeyPrims.v), are the hand-written byte-level model (model/Keys.v) about which C18 is proved
   (proofs/KeysProofs.v, props/C18.v):
     1. every prefix constant;                    2. every builder (no hypothesis on ids: be64 truncates like uint64;
     addresses: arbitrary bytes, MustLengthPrefix panics above 255 bytes -- proved too);
     3. every parser, outcome for outcome (Some v <-> Ok v, None <-> Panic with the exact code), without hypotheses;
     4. round trips of the generated functions;   5. the lists of translated / untranslated functions are pinned;
     6. the list queries' prefix stores and callbacks;   7. C18 transported to the generated functions
        ([go_ent_encode] &c.: the generated builder for each constructor of the model's logical keys).
   FirstAddressFromStreamStoreKey: the generated function (= the current Go code, [addrLen := int(key[0])]) is the
   model's [first_address_from_stream_store_key], NOT the [_legacy] variant ([gen_FirstAddress_is_not_legacy]). *)
From Coq Require Import ZArith NArith List Bool Arith Lia.
From Coq Require Import ZifyN ZifyNat ZifyBool.
From MC Require Import lib.Prelude model.Keys model.KeyPrims GeneratedKeys proofs.KeysProofs.
Import ListNotations.
Local Open Scope N_scope.
Local Notation length := Datatypes.length.

(* None of the model = the given Go panic *)
Definition lift_opt {A} (c : Z) (o : option A) : outcome A :=
  match o with Some v => Ok v | None => Panic c end.

(* ================================================================== *)
(* 0. the primitives                                                    *)
(* ================================================================== *)

Lemma bytes_len_ltb_nat l n : (bytes_len l <? N.of_nat n) = (length l <? n)%nat.
Proof. unfold bytes_len. destruct (N.ltb_spec (N.of_nat (length l)) (N.of_nat n)), (Nat.ltb_spec (length l) n); lia. Qed.

Lemma bytes_len_gtb_nat l n : (N.of_nat n <? bytes_len l) = (n <? length l)%nat.
Proof. unfold bytes_len. destruct (N.ltb_spec (N.of_nat n) (N.of_nat (length l))), (Nat.ltb_spec n (length l)); lia. Qed.

Lemma bytes_len_eqb_nat l n : (bytes_len l =? N.of_nat n) = (length l =? n)%nat.
Proof. unfold bytes_len. destruct (N.eqb_spec (N.of_nat (length l)) (N.of_nat n)), (Nat.eqb_spec (length l) n); lia. Qed.

(* purchaseOrderIDBz := make([]byte, 8); binary.BigEndian.PutUint64(purchaseOrderIDBz, id) *)
Lemma put64_make8 v : be_PutUint64 (bytes_make 8) v = Ok (be64 v).
Proof.
  unfold be_PutUint64.
  replace (bytes_len (bytes_make 8) <? 8) with false by reflexivity.
  replace (skipn 8 (bytes_make 8)) with (@nil N) by reflexivity.
  rewrite app_nil_r. reflexivity.
Qed.

Lemma be_Uint64_eq b : be_Uint64 b = lift_opt GO_PANIC_INDEX (de64_checked b).
Proof. reflexivity. Qed.

Lemma bytes_index_0_cons x l : bytes_index (x :: l) 0 = Ok x.
Proof. reflexivity. Qed.

Lemma bytes_from_1_nil : bytes_from [] 1 = Panic GO_PANIC_INDEX.
Proof. reflexivity. Qed.

Lemma bytes_from_1_cons x l : bytes_from (x :: l) 1 = Ok l.
Proof.
  unfold bytes_from. change 1 with (N.of_nat 1) at 1. rewrite bytes_len_ltb_nat.
  reflexivity.
Qed.

Lemma mlp_eq a :
  address_MustLengthPrefix a =
  if (255 <? length a)%nat then Panic GO_PANIC_LENPREFIX else Ok (length_prefix a).
Proof. unfold address_MustLengthPrefix. change 255 with (N.of_nat 255). rewrite bytes_len_gtb_nat. reflexivity. Qed.

Lemma parse_lp_some b s n x nx :
  parse_lp b s n = Some (x, nx) -> nx = (s + n)%nat /\ length x = n /\ (s + n <= length b)%nat.
Proof.
  unfold parse_lp. destruct (Nat.ltb_spec (length b) (s + n)); [discriminate|].
  intros E. injection E as <- <-. split; [reflexivity|]. split; [|assumption].
  rewrite firstn_length, skipn_length. lia.
Qed.

(* sdk.ParseLengthPrefixedBytes is the model's [parse_lp]; the model hands on neededLength, Go endIndex = neededLength-1 *)
Definition lift_parse (o : option (list N * nat)) : outcome (list N * N) :=
  match o with Some (x, nx) => Ok (x, N.of_nat nx - 1) | None => Panic GO_PANIC_KEYLEN end.

Lemma sdk_parse_spec b start n : 0 < start ->
  sdk_ParseLengthPrefixedBytes b start n = lift_parse (parse_lp b (N.to_nat start) (N.to_nat n)).
Proof.
  intros H. unfold sdk_ParseLengthPrefixedBytes, parse_lp, lift_parse.
  destruct (N.eqb_spec (start + n) 0) as [E|_]; [lia|].
  replace (bytes_len b <? start + n) with (length b <? N.to_nat start + N.to_nat n)%nat.
  2:{ unfold bytes_len. destruct (N.ltb_spec (N.of_nat (length b)) (start + n)),
        (Nat.ltb_spec (length b) (N.to_nat start + N.to_nat n)); lia. }
  destruct (length b <? N.to_nat start + N.to_nat n)%nat; [reflexivity|].
  do 2 f_equal. lia.
Qed.

(* the next call starts at endIndex + 1 *)
Lemma sdk_parse_step b i n : (1 <= i)%nat ->
  sdk_ParseLengthPrefixedBytes b (N.of_nat i - 1 + 1) n = lift_parse (parse_lp b i (N.to_nat n)).
Proof.
  intros H. rewrite sdk_parse_spec by lia. replace (N.to_nat (N.of_nat i - 1 + 1)) with i by lia. reflexivity.
Qed.

Lemma kv_assert_step b i : (1 <= i)%nat ->
  kv_AssertKeyAtLeastLength b (N.of_nat i - 1 + 1) =
  if (length b <? i)%nat then Panic GO_PANIC_KEYLEN else Ok tt.
Proof.
  intros H. unfold kv_AssertKeyAtLeastLength. replace (N.of_nat i - 1 + 1) with (N.of_nat i) by lia.
  rewrite bytes_len_ltb_nat. reflexivity.
Qed.

(* walk the binds of a translated builder: reduce the monad and the lets, rewrite with what is known of the callees *)
Create HintDb gokeys discriminated.
#[local] Hint Rewrite put64_make8 be_Uint64_eq : gokeys.
Ltac go_walk := cbv beta zeta; repeat progress (cbn [obind]; autorewrite with gokeys).
Ltac go_builder f := unfold f; go_walk; reflexivity.

(* ================================================================== *)
(* 1. constants                                                         *)
(* ================================================================== *)

Theorem gen_ent_constants :
  enterprise_HighestPurchaseOrderIDKey = ent_encode EkHighestPO /\
  enterprise_PurchaseOrderIDKeyPrefix = ent_prefix_po /\
  enterprise_LockedUndAddressKeyPrefix = ent_prefix_locked /\
  enterprise_WhitelistKeyPrefix = ent_prefix_whitelist /\
  enterprise_RaisedPoPrefix = ent_prefix_raised /\
  enterprise_AcceptedPoPrefix = ent_prefix_accepted /\
  enterprise_SpentEFUNDAddressKeyPrefix = ent_prefix_spent /\
  enterprise_ParamsKey = ent_encode EkParams /\
  enterprise_TotalSpentEFUNDKey = ent_encode EkTotalSpent /\
  enterprise_TotalLockedUndKey = ent_encode EkTotalLocked.
Proof. repeat split. Qed.

Theorem gen_wrk_constants :
  wrkchain_HighestWrkChainIDKey = wrk_encode RkHighestId /\
  wrkchain_RegisteredWrkChainPrefix = wrk_prefix_regs /\
  wrkchain_RecordedWrkChainBlockHashPrefix = wrk_prefix_records_all /\
  wrkchain_WrkChainStorageLimitPrefix = wrk_prefix_limits /\
  wrkchain_ParamsKey = wrk_encode RkParams.
Proof. repeat split. Qed.

Theorem gen_bcn_constants :
  beacon_HighestBeaconIDKey = bcn_encode RkHighestId /\
  beacon_RegisteredBeaconPrefix = bcn_prefix_regs /\
  beacon_RecordedBeaconTimestampPrefix = bcn_prefix_records_all /\
  beacon_BeaconStorageLimitPrefix = bcn_prefix_limits /\
  beacon_ParamsKey = bcn_encode RkParams.
Proof. repeat split. Qed.

Theorem gen_str_constants :
  stream_ParamsKey = str_encode SkParams /\
  stream_StreamKeyPrefix = str_prefix_all.
Proof. repeat split. Qed.

(* ================================================================== *)
(* 2. builders                                                          *)
(* ================================================================== *)

(* --- enterprise --- *)
Theorem gen_ent_GetPurchaseOrderIDBytes_eq id : go_enterprise_GetPurchaseOrderIDBytes id = Ok (be64 id).
Proof. go_builder go_enterprise_GetPurchaseOrderIDBytes. Qed.
#[local] Hint Rewrite gen_ent_GetPurchaseOrderIDBytes_eq : gokeys.

Theorem gen_ent_GetPurchaseOrderIDFromBytes_eq bz :
  go_enterprise_GetPurchaseOrderIDFromBytes bz = lift_opt GO_PANIC_INDEX (de64_checked bz).
Proof. unfold go_enterprise_GetPurchaseOrderIDFromBytes. go_walk. destruct (de64_checked bz); reflexivity. Qed.
#[local] Hint Rewrite gen_ent_GetPurchaseOrderIDFromBytes_eq : gokeys.

Theorem gen_ent_PurchaseOrderKey_eq id : go_enterprise_PurchaseOrderKey id = Ok (ent_encode (EkPO id)).
Proof. go_builder go_enterprise_PurchaseOrderKey. Qed.

Theorem gen_ent_LockedUndAddressStoreKey_eq acc :
  go_enterprise_LockedUndAddressStoreKey acc = Ok (ent_encode (EkLocked acc)).
Proof. reflexivity. Qed.

Theorem gen_ent_SpentEFUNDAddressStoreKey_eq acc :
  go_enterprise_SpentEFUNDAddressStoreKey acc = Ok (ent_encode (EkSpent acc)).
Proof. reflexivity. Qed.

Theorem gen_ent_WhitelistAddressStoreKey_eq acc :
  go_enterprise_WhitelistAddressStoreKey acc = Ok (ent_encode (EkWhitelist acc)).
Proof. reflexivity. Qed.

Theorem gen_ent_RaisedQueueStoreKey_eq id : go_enterprise_RaisedQueueStoreKey id = Ok (ent_encode (EkRaised id)).
Proof. go_builder go_enterprise_RaisedQueueStoreKey. Qed.

Theorem gen_ent_AcceptedQueueStoreKey_eq id : go_enterprise_AcceptedQueueStoreKey id = Ok (ent_encode (EkAccepted id)).
Proof. go_builder go_enterprise_AcceptedQueueStoreKey. Qed.

(* --- wrkchain --- *)
Theorem gen_wrk_GetWrkChainIDBytes_eq id : go_wrkchain_GetWrkChainIDBytes id = Ok (be64 id).
Proof. go_builder go_wrkchain_GetWrkChainIDBytes. Qed.
#[local] Hint Rewrite gen_wrk_GetWrkChainIDBytes_eq : gokeys.

Theorem gen_wrk_GetWrkChainIDFromBytes_eq bz :
  go_wrkchain_GetWrkChainIDFromBytes bz = lift_opt GO_PANIC_INDEX (de64_checked bz).
Proof. unfold go_wrkchain_GetWrkChainIDFromBytes. go_walk. destruct (de64_checked bz); reflexivity. Qed.

Theorem gen_wrk_WrkChainKey_eq id : go_wrkchain_WrkChainKey id = Ok (wrk_encode (RkReg id)).
Proof. go_builder go_wrkchain_WrkChainKey. Qed.

Theorem gen_wrk_WrkChainAllBlocksKey_eq id : go_wrkchain_WrkChainAllBlocksKey id = Ok (wrk_prefix_records_of id).
Proof. go_builder go_wrkchain_WrkChainAllBlocksKey. Qed.
#[local] Hint Rewrite gen_wrk_WrkChainAllBlocksKey_eq : gokeys.

Theorem gen_wrk_WrkChainBlockKey_eq id h : go_wrkchain_WrkChainBlockKey id h = Ok (wrk_encode (RkRecord id h)).
Proof. go_builder go_wrkchain_WrkChainBlockKey. Qed.

Theorem gen_wrk_WrkChainStorageLimitKey_eq id : go_wrkchain_WrkChainStorageLimitKey id = Ok (wrk_encode (RkLimit id)).
Proof. go_builder go_wrkchain_WrkChainStorageLimitKey. Qed.

(* --- beacon --- *)
Theorem gen_bcn_GetBeaconIDBytes_eq id : go_beacon_GetBeaconIDBytes id = Ok (be64 id).
Proof. go_builder go_beacon_GetBeaconIDBytes. Qed.
#[local] Hint Rewrite gen_bcn_GetBeaconIDBytes_eq : gokeys.

Theorem gen_bcn_GetBeaconIDFromBytes_eq bz :
  go_beacon_GetBeaconIDFromBytes bz = lift_opt GO_PANIC_INDEX (de64_checked bz).
Proof. unfold go_beacon_GetBeaconIDFromBytes. go_walk. destruct (de64_checked bz); reflexivity. Qed.

Theorem gen_bcn_GetTimestampIDBytes_eq id : go_beacon_GetTimestampIDBytes id = Ok (be64 id).
Proof. go_builder go_beacon_GetTimestampIDBytes. Qed.
#[local] Hint Rewrite gen_bcn_GetTimestampIDBytes_eq : gokeys.

Theorem gen_bcn_GetTimestampIDFromBytes_eq bz :
  go_beacon_GetTimestampIDFromBytes bz = lift_opt GO_PANIC_INDEX (de64_checked bz).
Proof. unfold go_beacon_GetTimestampIDFromBytes. go_walk. destruct (de64_checked bz); reflexivity. Qed.

Theorem gen_bcn_BeaconKey_eq id : go_beacon_BeaconKey id = Ok (bcn_encode (RkReg id)).
Proof. go_builder go_beacon_BeaconKey. Qed.

Theorem gen_bcn_BeaconAllTimestampsKey_eq id : go_beacon_BeaconAllTimestampsKey id = Ok (bcn_prefix_records_of id).
Proof. go_builder go_beacon_BeaconAllTimestampsKey. Qed.
#[local] Hint Rewrite gen_bcn_BeaconAllTimestampsKey_eq : gokeys.

Theorem gen_bcn_BeaconTimestampKey_eq id t : go_beacon_BeaconTimestampKey id t = Ok (bcn_encode (RkRecord id t)).
Proof. go_builder go_beacon_BeaconTimestampKey. Qed.

Theorem gen_bcn_BeaconStorageLimitKey_eq id : go_beacon_BeaconStorageLimitKey id = Ok (bcn_encode (RkLimit id)).
Proof. go_builder go_beacon_BeaconStorageLimitKey. Qed.

(* --- stream: on every input --- *)
Theorem gen_str_GetStreamsByReceiverKey_eq r :
  go_stream_GetStreamsByReceiverKey r =
  if (255 <? length r)%nat then Panic GO_PANIC_LENPREFIX else Ok (str_prefix_receiver r).
Proof.
  unfold go_stream_GetStreamsByReceiverKey. rewrite mlp_eq.
  destruct (255 <? length r)%nat; reflexivity.
Qed.

Theorem gen_str_GetStreamKey_eq r s :
  go_stream_GetStreamKey r s =
  if ((255 <? length r) || (255 <? length s))%nat then Panic GO_PANIC_LENPREFIX
  else Ok (str_encode (SkStream r s)).
Proof.
  unfold go_stream_GetStreamKey. rewrite gen_str_GetStreamsByReceiverKey_eq, mlp_eq.
  destruct (255 <? length r)%nat; [reflexivity|].
  destruct (255 <? length s)%nat; reflexivity.
Qed.

(* ... spelled out *)
Corollary gen_str_GetStreamsByReceiverKey_ok r : (length r <= 255)%nat ->
  go_stream_GetStreamsByReceiverKey r = Ok (str_prefix_receiver r).
Proof.
  intros H. rewrite gen_str_GetStreamsByReceiverKey_eq.
  destruct (Nat.ltb_spec 255 (length r)); [lia | reflexivity].
Qed.

Corollary gen_str_GetStreamsByReceiverKey_panics r : (255 < length r)%nat ->
  go_stream_GetStreamsByReceiverKey r = Panic GO_PANIC_LENPREFIX.
Proof.
  intros H. rewrite gen_str_GetStreamsByReceiverKey_eq.
  destruct (Nat.ltb_spec 255 (length r)); [reflexivity | lia].
Qed.

Corollary gen_str_GetStreamKey_ok r s : (length r <= 255)%nat -> (length s <= 255)%nat ->
  go_stream_GetStreamKey r s = Ok (str_encode (SkStream r s)).
Proof.
  intros Hr Hs. rewrite gen_str_GetStreamKey_eq.
  destruct (Nat.ltb_spec 255 (length r)); [lia|]. destruct (Nat.ltb_spec 255 (length s)); [lia | reflexivity].
Qed.

Corollary gen_str_GetStreamKey_panics r s : (255 < length r)%nat \/ (255 < length s)%nat ->
  go_stream_GetStreamKey r s = Panic GO_PANIC_LENPREFIX.
Proof.
  intros H. rewrite gen_str_GetStreamKey_eq.
  destruct (Nat.ltb_spec 255 (length r)); [reflexivity|]. destruct (Nat.ltb_spec 255 (length s)); [reflexivity | lia].
Qed.

Corollary gen_str_GetStreamKey_inv r s k : go_stream_GetStreamKey r s = Ok k ->
  (length r <= 255)%nat /\ (length s <= 255)%nat /\ k = str_encode (SkStream r s).
Proof.
  rewrite gen_str_GetStreamKey_eq.
  destruct (Nat.ltb_spec 255 (length r)); [discriminate|]. destruct (Nat.ltb_spec 255 (length s)); [discriminate|].
  cbn [orb]. intros E. injection E as <-. auto.
Qed.

Lemma wf_addr_len a : wf_addr a = true -> (1 <= length a <= 255)%nat.
Proof. intros H. apply wf_addr_spec in H. tauto. Qed.

(* ================================================================== *)
(* 3. parsers                                                           *)
(* ================================================================== *)

(* key[1:] of an empty key: index panic; a length other than 8: the function's own panic; else the model's value *)
Definition lift_split (key : list N) : outcome N :=
  match key with
  | [] => Panic GO_PANIC_INDEX
  | _ :: _ => lift_opt GO_PANIC_EXPLICIT (split_queue_key key)
  end.

#[local] Hint Rewrite bytes_from_1_cons : gokeys.

Ltac split_tac f :=
  unfold f;
  let p := fresh "p" in let rest := fresh "rest" in let E := fresh "E" in
  match goal with |- context [bytes_from ?k 1] => destruct k as [|p rest] end; [reflexivity|];
  go_walk; cbn [lift_split split_queue_key];
  change 8 with (N.of_nat 8); rewrite bytes_len_eqb_nat;
  destruct (Nat.eqb_spec (length rest) 8) as [E|E]; cbn [negb lift_opt]; [|reflexivity];
  unfold de64_checked; rewrite E; reflexivity.

Theorem gen_ent_SplitRaisedQueueKey_eq key : go_enterprise_SplitRaisedQueueKey key = lift_split key.
Proof. split_tac go_enterprise_SplitRaisedQueueKey. Qed.

Theorem gen_ent_SplitAcceptedQueueKey_eq key : go_enterprise_SplitAcceptedQueueKey key = lift_split key.
Proof. split_tac go_enterprise_SplitAcceptedQueueKey. Qed.

(* Some v <-> Ok v, None <-> a panic *)
Corollary gen_ent_SplitRaisedQueueKey_some key v :
  split_queue_key key = Some v <-> go_enterprise_SplitRaisedQueueKey key = Ok v.
Proof.
  rewrite gen_ent_SplitRaisedQueueKey_eq. destruct key as [|p rest]; cbn [lift_split].
  - split; discriminate.
  - destruct (split_queue_key (p :: rest)); cbn [lift_opt]; split; intros H; try discriminate; injection H as ->; reflexivity.
Qed.

Corollary gen_ent_SplitRaisedQueueKey_none key :
  split_queue_key key = None <-> exists c, go_enterprise_SplitRaisedQueueKey key = Panic c.
Proof.
  rewrite gen_ent_SplitRaisedQueueKey_eq. destruct key as [|p rest]; cbn [lift_split].
  - split; [eauto | reflexivity].
  - destruct (split_queue_key (p :: rest)); cbn [lift_opt]; split; intros H; eauto; try discriminate.
    destruct H as [c H]; discriminate.
Qed.

(* AddressesFromStreamKey: on every key; every panic is AssertKeyAtLeastLength's *)
Theorem gen_str_AddressesFromStreamKey_eq key :
  go_stream_AddressesFromStreamKey key = lift_opt GO_PANIC_KEYLEN (addresses_from_stream_key key).
Proof.
  unfold go_stream_AddressesFromStreamKey, addresses_from_stream_key.
  rewrite (sdk_parse_spec key 1 1) by lia.
  change (N.to_nat 1) with 1%nat.
  destruct (parse_lp key 1 1) as [[rl i1]|] eqn:E1; cbn [obind lift_opt lift_parse]; [|reflexivity].
  apply parse_lp_some in E1 as (I1 & L1 & _).
  destruct rl as [|rlen rl']; [discriminate L1|].
  rewrite bytes_index_0_cons; cbn [obind].
  rewrite sdk_parse_step by lia.
  destruct (parse_lp key i1 (N.to_nat rlen)) as [[r i2]|] eqn:E2; cbn [obind lift_opt lift_parse]; [|reflexivity].
  apply parse_lp_some in E2 as (I2 & _ & _).
  rewrite sdk_parse_step by lia. change (N.to_nat 1) with 1%nat.
  destruct (parse_lp key i2 1) as [[sl i3]|] eqn:E3; cbn [obind lift_opt lift_parse]; [|reflexivity].
  apply parse_lp_some in E3 as (I3 & L3 & _).
  destruct sl as [|slen sl']; [discriminate L3|].
  rewrite bytes_index_0_cons; cbn [obind].
  rewrite sdk_parse_step by lia.
  destruct (parse_lp key i3 (N.to_nat slen)) as [[s i4]|] eqn:E4; cbn [obind lift_opt lift_parse]; [|reflexivity].
  apply parse_lp_some in E4 as (I4 & _ & _).
  rewrite kv_assert_step by lia.
  destruct (length key <? i4)%nat; reflexivity.
Qed.

(* FirstAddressFromStreamStoreKey: on every key; the generated function is the model of the CURRENT code *)
Theorem gen_str_FirstAddressFromStreamStoreKey_eq key :
  go_stream_FirstAddressFromStreamStoreKey key =
  lift_opt GO_PANIC_INDEX (first_address_from_stream_store_key key).
Proof.
  unfold go_stream_FirstAddressFromStreamStoreKey, first_address_from_stream_store_key.
  destruct key as [|a rest]; [reflexivity|].
  rewrite bytes_index_0_cons; cbn [obind]; cbv beta zeta.
  unfold bytes_slice, bytes_len. cbn [length].
  destruct (N.ltb_spec (1 + a) 1); [lia|]. cbn [orb].
  destruct (N.ltb_spec (N.of_nat (S (length rest))) (1 + a)),
           (Nat.leb_spec (1 + N.to_nat a) (S (length rest))); try lia; cbn [lift_opt]; [reflexivity|].
  cbn [obind]. change (N.to_nat 1) with 1%nat.
  replace (N.to_nat (1 + a - 1)) with (1 + N.to_nat a - 1)%nat by lia. reflexivity.
Qed.

(* ... and differs from the model of the code before the fix (a 255-byte first address) *)
Example gen_FirstAddress_is_not_legacy :
  let key := 255 :: repeat 7 255 in
  go_stream_FirstAddressFromStreamStoreKey key = Ok (repeat 7 255) /\
  first_address_from_stream_store_key key = Some (repeat 7 255) /\
  first_address_from_stream_store_key_legacy key = None.
Proof. vm_compute. repeat split. Qed.

(* ================================================================== *)
(* 4. round trips of the generated functions                            *)
(* ================================================================== *)

Theorem gen_str_roundtrip_inv r s k : r <> [] -> s <> [] ->
  go_stream_GetStreamKey r s = Ok k -> go_stream_AddressesFromStreamKey k = Ok (r, s).
Proof.
  intros Nr Ns E. apply gen_str_GetStreamKey_inv in E as (_ & _ & ->).
  rewrite gen_str_AddressesFromStreamKey_eq. cbn [str_encode].
  rewrite (length_prefix_nonempty r Nr), (length_prefix_nonempty s Ns).
  replace (0x11 :: (N.of_nat (length r) :: r) ++ N.of_nat (length s) :: s)
    with (0x11 :: N.of_nat (length r) :: r ++ N.of_nat (length s) :: s ++ [])
    by (rewrite app_nil_r; reflexivity).
  rewrite addresses_from_stream_key_shape by (rewrite Nat2N.id; reflexivity).
  reflexivity.
Qed.

Theorem gen_str_roundtrip r s : (1 <= length r <= 255)%nat -> (1 <= length s <= 255)%nat ->
  (do k <- go_stream_GetStreamKey r s; go_stream_AddressesFromStreamKey k) = Ok (r, s).
Proof.
  intros Hr Hs. rewrite gen_str_GetStreamKey_ok by lia. cbn [obind].
  apply (gen_str_roundtrip_inv r s).
  - intros ->; cbn in Hr; lia.
  - intros ->; cbn in Hs; lia.
  - apply gen_str_GetStreamKey_ok; lia.
Qed.

(* the empty address is excluded for a reason: LengthPrefix leaves it without a length byte *)
Example gen_str_roundtrip_empty_refuted :
  (do k <- go_stream_GetStreamKey [] [7]; go_stream_AddressesFromStreamKey k) = Panic GO_PANIC_KEYLEN /\
  (do k <- go_stream_GetStreamKey [7] []; go_stream_AddressesFromStreamKey k) = Panic GO_PANIC_KEYLEN /\
  (do k <- go_stream_GetStreamKey [1; 7] []; go_stream_AddressesFromStreamKey k) = Panic GO_PANIC_KEYLEN /\
  go_stream_GetStreamKey [] [7] = go_stream_GetStreamKey [7] [].
Proof. vm_compute. repeat split. Qed.

(* above 255 bytes the builder panics *)
Example gen_str_roundtrip_256_refuted :
  (do k <- go_stream_GetStreamKey (repeat 1 256) [7]; go_stream_AddressesFromStreamKey k) = Panic GO_PANIC_LENPREFIX /\
  (do k <- go_stream_GetStreamKey [7] (repeat 1 256); go_stream_AddressesFromStreamKey k) = Panic GO_PANIC_LENPREFIX /\
  (do k <- go_stream_GetStreamKey [7] (repeat 1 255); go_stream_AddressesFromStreamKey k) = Ok ([7], repeat 1 255).
Proof. vm_compute. repeat split. Qed.

Theorem gen_ent_split_raised_roundtrip id : id < 2 ^ 64 ->
  (do k <- go_enterprise_RaisedQueueStoreKey id; go_enterprise_SplitRaisedQueueKey k) = Ok id.
Proof.
  intros H. rewrite gen_ent_RaisedQueueStoreKey_eq. cbn [obind]. rewrite gen_ent_SplitRaisedQueueKey_eq.
  change (lift_split (ent_encode (EkRaised id))) with (lift_opt GO_PANIC_EXPLICIT (split_queue_key (ent_encode (EkRaised id)))).
  rewrite ent_split_raised by (apply wf_id_lt; exact H). reflexivity.
Qed.

Theorem gen_ent_split_accepted_roundtrip id : id < 2 ^ 64 ->
  (do k <- go_enterprise_AcceptedQueueStoreKey id; go_enterprise_SplitAcceptedQueueKey k) = Ok id.
Proof.
  intros H. rewrite gen_ent_AcceptedQueueStoreKey_eq. cbn [obind]. rewrite gen_ent_SplitAcceptedQueueKey_eq.
  change (lift_split (ent_encode (EkAccepted id))) with (lift_opt GO_PANIC_EXPLICIT (split_queue_key (ent_encode (EkAccepted id)))).
  rewrite ent_split_accepted by (apply wf_id_lt; exact H). reflexivity.
Qed.

(* (a Go uint64 is below 2^64; the hypothesis only excludes values the Go type does not have) *)
Example gen_ent_split_roundtrip_2p64_refuted :
  (do k <- go_enterprise_RaisedQueueStoreKey (2 ^ 64); go_enterprise_SplitRaisedQueueKey k) = Ok 0 /\
  (do k <- go_enterprise_AcceptedQueueStoreKey (2 ^ 64 + 5); go_enterprise_SplitAcceptedQueueKey k) = Ok 5.
Proof. vm_compute. repeat split. Qed.

Theorem gen_ent_id_roundtrip id : id < 2 ^ 64 ->
  (do b <- go_enterprise_GetPurchaseOrderIDBytes id; go_enterprise_GetPurchaseOrderIDFromBytes b) = Ok id.
Proof.
  intros H. rewrite gen_ent_GetPurchaseOrderIDBytes_eq. cbn [obind].
  rewrite gen_ent_GetPurchaseOrderIDFromBytes_eq, de64_checked_be64 by exact H. reflexivity.
Qed.

Theorem gen_wrk_id_roundtrip id : id < 2 ^ 64 ->
  (do b <- go_wrkchain_GetWrkChainIDBytes id; go_wrkchain_GetWrkChainIDFromBytes b) = Ok id.
Proof.
  intros H. rewrite gen_wrk_GetWrkChainIDBytes_eq. cbn [obind].
  rewrite gen_wrk_GetWrkChainIDFromBytes_eq, de64_checked_be64 by exact H. reflexivity.
Qed.

Theorem gen_bcn_id_roundtrip id : id < 2 ^ 64 ->
  (do b <- go_beacon_GetBeaconIDBytes id; go_beacon_GetBeaconIDFromBytes b) = Ok id.
Proof.
  intros H. rewrite gen_bcn_GetBeaconIDBytes_eq. cbn [obind].
  rewrite gen_bcn_GetBeaconIDFromBytes_eq, de64_checked_be64 by exact H. reflexivity.
Qed.

Theorem gen_bcn_timestamp_id_roundtrip id : id < 2 ^ 64 ->
  (do b <- go_beacon_GetTimestampIDBytes id; go_beacon_GetTimestampIDFromBytes b) = Ok id.
Proof.
  intros H. rewrite gen_bcn_GetTimestampIDBytes_eq. cbn [obind].
  rewrite gen_bcn_GetTimestampIDFromBytes_eq, de64_checked_be64 by exact H. reflexivity.
Qed.

Example gen_id_roundtrip_2p64_refuted :
  (do b <- go_enterprise_GetPurchaseOrderIDBytes (2 ^ 64); go_enterprise_GetPurchaseOrderIDFromBytes b) = Ok 0 /\
  (do b <- go_wrkchain_GetWrkChainIDBytes (2 ^ 64 + 1); go_wrkchain_GetWrkChainIDFromBytes b) = Ok 1 /\
  (do b <- go_beacon_GetBeaconIDBytes (2 ^ 65); go_beacon_GetBeaconIDFromBytes b) = Ok 0 /\
  (do b <- go_beacon_GetTimestampIDBytes (2 ^ 64 + 2 ^ 63); go_beacon_GetTimestampIDFromBytes b) = Ok (2 ^ 63).
Proof. vm_compute. repeat split. Qed.

(* ================================================================== *)
(* 5. the lists are pinned: a new key function, or one the translator  *)
(*    can no longer translate, breaks one of these                      *)
(* ================================================================== *)

Theorem gen_key_functions_pinned :
  enterprise_key_functions =
    ["AcceptedQueueStoreKey"; "GetPurchaseOrderIDBytes"; "GetPurchaseOrderIDFromBytes"; "LockedUndAddressStoreKey";
     "PurchaseOrderKey"; "RaisedQueueStoreKey"; "SpentEFUNDAddressStoreKey"; "SplitAcceptedQueueKey";
     "SplitRaisedQueueKey"; "WhitelistAddressStoreKey"]%string /\
  wrkchain_key_functions =
    ["GetWrkChainIDBytes"; "GetWrkChainIDFromBytes"; "WrkChainAllBlocksKey"; "WrkChainBlockKey"; "WrkChainKey";
     "WrkChainStorageLimitKey"]%string /\
  beacon_key_functions =
    ["BeaconAllTimestampsKey"; "BeaconKey"; "BeaconStorageLimitKey"; "BeaconTimestampKey"; "GetBeaconIDBytes";
     "GetBeaconIDFromBytes"; "GetTimestampIDBytes"; "GetTimestampIDFromBytes"]%string /\
  stream_key_functions =
    ["AddressesFromStreamKey"; "FirstAddressFromStreamStoreKey"; "GetStreamKey"; "GetStreamsByReceiverKey"]%string /\
  key_functions_not_translated = ["stream.KeyPrefix"]%string /\
  stream_list_queries = ["Streams"; "AllStreamsForSender"; "AllStreamsForReceiver"]%string.
Proof. repeat split. Qed.

(* ================================================================== *)
(* 6. the stream list queries (x/stream/keeper/query_streams.go):       *)
(*    prefix store and callback; the callback is handed the store key   *)
(*    with the prefix stripped                                          *)
(* ================================================================== *)

(* a panic of the key parser aborts the query; otherwise a hit *)
Definition lift_hit {A} (c : Z) (o : option A) : outcome (option A) :=
  match o with Some v => Ok (Some v) | None => Panic c end.

(* AllStreamsForSender: the Streams callback, then [if !s.Equals(senderAddr) { return nil, nil }]; reports senderAddr *)
Definition sender_filter (sender : list N) (o : option (list N * list N)) : outcome (option (list N * list N)) :=
  match o with
  | None => Panic GO_PANIC_KEYLEN
  | Some (r, s) => if key_eqb s sender then Ok (Some (r, sender)) else Ok None
  end.

Theorem gen_str_Streams_prefix_eq : go_stream_Streams_prefix = Ok str_prefix_all.
Proof. reflexivity. Qed.

Theorem gen_str_AllStreamsForSender_prefix_eq : go_stream_AllStreamsForSender_prefix = Ok str_prefix_all.
Proof. reflexivity. Qed.

Theorem gen_str_AllStreamsForReceiver_prefix_eq r :
  go_stream_AllStreamsForReceiver_prefix r =
  if (255 <? length r)%nat then Panic GO_PANIC_LENPREFIX else Ok (str_prefix_receiver r).
Proof.
  unfold go_stream_AllStreamsForReceiver_prefix. rewrite gen_str_GetStreamsByReceiverKey_eq.
  destruct (255 <? length r)%nat; reflexivity.
Qed.

Corollary gen_str_AllStreamsForReceiver_prefix_ok r : (length r <= 255)%nat ->
  go_stream_AllStreamsForReceiver_prefix r = Ok (str_prefix_receiver r).
Proof.
  intros H. rewrite gen_str_AllStreamsForReceiver_prefix_eq.
  destruct (Nat.ltb_spec 255 (length r)); [lia | reflexivity].
Qed.

Theorem gen_str_list_query_prefixes :
  go_stream_Streams_prefix = Ok str_prefix_all /\
  go_stream_AllStreamsForSender_prefix = Ok str_prefix_all /\
  forall r, go_stream_AllStreamsForReceiver_prefix r =
            if (255 <? length r)%nat then Panic GO_PANIC_LENPREFIX else Ok (str_prefix_receiver r).
Proof.
  exact (conj gen_str_Streams_prefix_eq (conj gen_str_AllStreamsForSender_prefix_eq gen_str_AllStreamsForReceiver_prefix_eq)).
Qed.

(* on whatever the prefix store hands over *)
Lemma gen_str_Streams_callback_raw key :
  go_stream_Streams_callback key = lift_hit GO_PANIC_KEYLEN (addresses_from_stream_key (str_prefix_all ++ key)).
Proof.
  unfold go_stream_Streams_callback. change stream_StreamKeyPrefix with str_prefix_all.
  rewrite gen_str_AddressesFromStreamKey_eq.
  destruct (addresses_from_stream_key (str_prefix_all ++ key)) as [[r s]|]; reflexivity.
Qed.

Lemma gen_str_AllStreamsForSender_callback_raw sender key :
  go_stream_AllStreamsForSender_callback sender key =
  sender_filter sender (addresses_from_stream_key (str_prefix_all ++ key)).
Proof.
  unfold go_stream_AllStreamsForSender_callback. change stream_StreamKeyPrefix with str_prefix_all.
  rewrite gen_str_AddressesFromStreamKey_eq.
  destruct (addresses_from_stream_key (str_prefix_all ++ key)) as [[r s]|]; [|reflexivity].
  cbn [lift_opt obind sender_filter]. destruct (key_eqb s sender); reflexivity.
Qed.

Lemma gen_str_AllStreamsForReceiver_callback_raw receiver key :
  go_stream_AllStreamsForReceiver_callback receiver key =
  match first_address_from_stream_store_key key with
  | Some s => Ok (Some (receiver, s)) | None => Panic GO_PANIC_INDEX end.
Proof.
  unfold go_stream_AllStreamsForReceiver_callback. rewrite gen_str_FirstAddressFromStreamStoreKey_eq.
  destruct (first_address_from_stream_store_key key); reflexivity.
Qed.

(* (a) on the stripped store key: the model's three readers (model/Keys.v), for every store key k *)
Theorem gen_str_Streams_callback_eq k :
  go_stream_Streams_callback (strip_prefix str_prefix_all k) =
  lift_hit GO_PANIC_KEYLEN (streams_query_addresses k).
Proof. apply gen_str_Streams_callback_raw. Qed.

Theorem gen_str_AllStreamsForSender_callback_eq sender k :
  go_stream_AllStreamsForSender_callback sender (strip_prefix str_prefix_all k) =
  sender_filter sender (streams_query_addresses k).
Proof. apply gen_str_AllStreamsForSender_callback_raw. Qed.

Theorem gen_str_AllStreamsForReceiver_callback_eq r k :
  go_stream_AllStreamsForReceiver_callback r (strip_prefix (str_prefix_receiver r) k) =
  match receiver_query_sender r k with Some s => Ok (Some (r, s)) | None => Panic GO_PANIC_INDEX end.
Proof. apply gen_str_AllStreamsForReceiver_callback_raw. Qed.

Lemma key_eqb_refl a : key_eqb a a = true.
Proof. apply key_eqb_spec. reflexivity. Qed.

Lemma key_eqb_neq a b : a <> b -> key_eqb a b = false.
Proof. intros H. destruct (key_eqb a b) eqn:E; [|reflexivity]. apply key_eqb_spec in E. contradiction. Qed.

(* (b) end to end: the key built by the generated GetStreamKey lies in the query's prefix store and the callback,
   given the stripped key, reports exactly the receiver and sender the stream was created with *)
Theorem gen_str_Streams_reports r s : wf_addr r = true -> wf_addr s = true ->
  exists k p, go_stream_GetStreamKey r s = Ok k /\ go_stream_Streams_prefix = Ok p /\
    is_prefix p k = true /\
    go_stream_Streams_callback (strip_prefix p k) = Ok (Some (r, s)).
Proof.
  intros Wr Ws. exists (str_encode (SkStream r s)), str_prefix_all.
  pose proof (wf_addr_len r Wr). pose proof (wf_addr_len s Ws).
  split; [apply gen_str_GetStreamKey_ok; lia|]. split; [reflexivity|]. split; [reflexivity|].
  rewrite gen_str_Streams_callback_eq, (str_streams_query_roundtrip r s Wr Ws). reflexivity.
Qed.

Theorem gen_str_AllStreamsForSender_reports r s : wf_addr r = true -> wf_addr s = true ->
  exists k p, go_stream_GetStreamKey r s = Ok k /\ go_stream_AllStreamsForSender_prefix = Ok p /\
    is_prefix p k = true /\
    go_stream_AllStreamsForSender_callback s (strip_prefix p k) = Ok (Some (r, s)) /\
    (forall s', s' <> s -> go_stream_AllStreamsForSender_callback s' (strip_prefix p k) = Ok None).
Proof.
  intros Wr Ws. exists (str_encode (SkStream r s)), str_prefix_all.
  pose proof (wf_addr_len r Wr). pose proof (wf_addr_len s Ws).
  split; [apply gen_str_GetStreamKey_ok; lia|]. split; [reflexivity|]. split; [reflexivity|].
  split; [|intros s' Hs'];
    rewrite gen_str_AllStreamsForSender_callback_eq, (str_streams_query_roundtrip r s Wr Ws); cbn [sender_filter].
  - rewrite key_eqb_refl. reflexivity.
  - rewrite key_eqb_neq by congruence. reflexivity.
Qed.

Theorem gen_str_AllStreamsForReceiver_reports r s : wf_addr r = true -> wf_addr s = true ->
  exists k p, go_stream_GetStreamKey r s = Ok k /\ go_stream_AllStreamsForReceiver_prefix r = Ok p /\
    is_prefix p k = true /\
    go_stream_AllStreamsForReceiver_callback r (strip_prefix p k) = Ok (Some (r, s)).
Proof.
  intros Wr Ws. exists (str_encode (SkStream r s)), (str_prefix_receiver r).
  pose proof (wf_addr_len r Wr). pose proof (wf_addr_len s Ws).
  split; [apply gen_str_GetStreamKey_ok; lia|]. split; [apply gen_str_AllStreamsForReceiver_prefix_ok; lia|].
  split; [apply (is_prefix_app (0x11 :: length_prefix r) (length_prefix s))|].
  rewrite gen_str_AllStreamsForReceiver_callback_eq, (str_receiver_query_sender r s Wr Ws). reflexivity.
Qed.

(* the by-receiver prefix store of r holds no stream of another receiver r' *)
Theorem gen_str_AllStreamsForReceiver_only_own r r' s p k :
  wf_addr r = true -> wf_addr r' = true -> wf_addr s = true -> r' <> r ->
  go_stream_AllStreamsForReceiver_prefix r = Ok p -> go_stream_GetStreamKey r' s = Ok k ->
  is_prefix p k = false.
Proof.
  intros Wr Wr' Ws D Ep Ek.
  rewrite gen_str_AllStreamsForReceiver_prefix_ok in Ep by (apply wf_addr_len in Wr; lia). injection Ep as <-.
  apply gen_str_GetStreamKey_inv in Ek as (_ & _ & ->).
  destruct (is_prefix (str_prefix_receiver r) (str_encode (SkStream r' s))) eqn:E; [|reflexivity].
  apply (str_range_receiver r (SkStream r' s) Wr) in E as [s0 E].
  - injection E as -> _. contradiction.
  - cbn [wf_str_key]. rewrite Wr', Ws. reflexivity.
Qed.

(* ================================================================== *)
(* 7. C18 for the generated functions                                   *)
(* ================================================================== *)

(* the Go builder (or constant) of each logical key *)
Definition go_ent_encode (k : ent_key) : outcome (list N) :=
  match k with
  | EkHighestPO   => Ok enterprise_HighestPurchaseOrderIDKey
  | EkPO id       => go_enterprise_PurchaseOrderKey id
  | EkLocked a    => go_enterprise_LockedUndAddressStoreKey a
  | EkWhitelist a => go_enterprise_WhitelistAddressStoreKey a
  | EkRaised id   => go_enterprise_RaisedQueueStoreKey id
  | EkAccepted id => go_enterprise_AcceptedQueueStoreKey id
  | EkSpent a     => go_enterprise_SpentEFUNDAddressStoreKey a
  | EkParams      => Ok enterprise_ParamsKey
  | EkTotalSpent  => Ok enterprise_TotalSpentEFUNDKey
  | EkTotalLocked => Ok enterprise_TotalLockedUndKey
  end.

Definition go_wrk_encode (k : reg_key) : outcome (list N) :=
  match k with
  | RkHighestId   => Ok wrkchain_HighestWrkChainIDKey
  | RkReg id      => go_wrkchain_WrkChainKey id
  | RkRecord id h => go_wrkchain_WrkChainBlockKey id h
  | RkLimit id    => go_wrkchain_WrkChainStorageLimitKey id
  | RkParams      => Ok wrkchain_ParamsKey
  end.

Definition go_bcn_encode (k : reg_key) : outcome (list N) :=
  match k with
  | RkHighestId   => Ok beacon_HighestBeaconIDKey
  | RkReg id      => go_beacon_BeaconKey id
  | RkRecord id t => go_beacon_BeaconTimestampKey id t
  | RkLimit id    => go_beacon_BeaconStorageLimitKey id
  | RkParams      => Ok beacon_ParamsKey
  end.

Definition go_str_encode (k : str_key) : outcome (list N) :=
  match k with
  | SkParams     => Ok stream_ParamsKey
  | SkStream r s => go_stream_GetStreamKey r s
  end.

Theorem go_ent_encode_eq k : go_ent_encode k = Ok (ent_encode k).
Proof.
  destruct k; cbn [go_ent_encode]; try reflexivity;
    auto using gen_ent_PurchaseOrderKey_eq, gen_ent_RaisedQueueStoreKey_eq, gen_ent_AcceptedQueueStoreKey_eq.
Qed.

Theorem go_wrk_encode_eq k : go_wrk_encode k = Ok (wrk_encode k).
Proof.
  destruct k; cbn [go_wrk_encode]; try reflexivity;
    auto using gen_wrk_WrkChainKey_eq, gen_wrk_WrkChainBlockKey_eq, gen_wrk_WrkChainStorageLimitKey_eq.
Qed.

Theorem go_bcn_encode_eq k : go_bcn_encode k = Ok (bcn_encode k).
Proof.
  destruct k; cbn [go_bcn_encode]; try reflexivity;
    auto using gen_bcn_BeaconKey_eq, gen_bcn_BeaconTimestampKey_eq, gen_bcn_BeaconStorageLimitKey_eq.
Qed.

(* stream: on every key, and the two directions that are used *)
Theorem go_str_encode_eq k :
  go_str_encode k =
  match k with
  | SkStream r s => if ((255 <? length r) || (255 <? length s))%nat then Panic GO_PANIC_LENPREFIX else Ok (str_encode k)
  | SkParams => Ok (str_encode k)
  end.
Proof. destruct k as [|r s]; [reflexivity|]. apply gen_str_GetStreamKey_eq. Qed.

Corollary go_str_encode_wf k : wf_str_key k = true -> go_str_encode k = Ok (str_encode k).
Proof.
  destruct k as [|r s]; [reflexivity|]. cbn [wf_str_key go_str_encode]. intros W.
  apply andb_true_iff in W as [Wr Ws]. apply wf_addr_len in Wr, Ws. apply gen_str_GetStreamKey_ok; lia.
Qed.

Corollary go_str_encode_inv k b : go_str_encode k = Ok b -> b = str_encode k.
Proof.
  destruct k as [|r s]; cbn [go_str_encode].
  - intros E. injection E as <-. reflexivity.
  - intros E. apply gen_str_GetStreamKey_inv in E. tauto.
Qed.

(* an [.. = Ok b] hypothesis about a generated builder becomes [b := the model's bytes] *)
Ltac ok_inv H :=
  first [ apply go_str_encode_inv in H; subst
        | apply gen_str_GetStreamKey_inv in H; destruct H as (_ & _ & H); subst
        | rewrite ?go_ent_encode_eq, ?go_wrk_encode_eq, ?go_bcn_encode_eq,
            ?gen_ent_PurchaseOrderKey_eq, ?gen_ent_RaisedQueueStoreKey_eq, ?gen_ent_AcceptedQueueStoreKey_eq,
            ?gen_wrk_WrkChainKey_eq, ?gen_wrk_WrkChainBlockKey_eq, ?gen_wrk_WrkChainStorageLimitKey_eq,
            ?gen_wrk_WrkChainAllBlocksKey_eq,
            ?gen_bcn_BeaconKey_eq, ?gen_bcn_BeaconTimestampKey_eq, ?gen_bcn_BeaconStorageLimitKey_eq,
            ?gen_bcn_BeaconAllTimestampsKey_eq in H;
          injection H as <- ].
Ltac oks := intros; repeat match goal with H : _ = Ok _ |- _ => ok_inv H end.

(* --- injectivity: two logical keys the generated builders map to the same bytes are equal --- *)
Theorem gen_ent_injective k1 k2 b : wf_ent_key k1 = true -> wf_ent_key k2 = true ->
  go_ent_encode k1 = Ok b -> go_ent_encode k2 = Ok b -> k1 = k2.
Proof.
  intros W1 W2 E1 E2. rewrite go_ent_encode_eq in E1, E2. apply ent_injective; congruence.
Qed.

Theorem gen_wrk_injective k1 k2 b : wf_reg_key k1 = true -> wf_reg_key k2 = true ->
  go_wrk_encode k1 = Ok b -> go_wrk_encode k2 = Ok b -> k1 = k2.
Proof.
  intros W1 W2 E1 E2. rewrite go_wrk_encode_eq in E1, E2. apply reg_injective; unfold wrk_encode in *; congruence.
Qed.

Theorem gen_bcn_injective k1 k2 b : wf_reg_key k1 = true -> wf_reg_key k2 = true ->
  go_bcn_encode k1 = Ok b -> go_bcn_encode k2 = Ok b -> k1 = k2.
Proof.
  intros W1 W2 E1 E2. rewrite go_bcn_encode_eq in E1, E2. apply reg_injective; unfold bcn_encode in *; congruence.
Qed.

Theorem gen_str_injective k1 k2 b : wf_str_key k1 = true -> wf_str_key k2 = true ->
  go_str_encode k1 = Ok b -> go_str_encode k2 = Ok b -> k1 = k2.
Proof.
  intros W1 W2 E1 E2. apply go_str_encode_inv in E1, E2. apply str_injective; congruence.
Qed.

(* --- a write or delete under one key never changes what is read under another --- *)
Theorem gen_ent_isolated (V : Type) (st : kv V) k1 k2 b1 b2 v :
  wf_ent_key k1 = true -> wf_ent_key k2 = true -> k1 <> k2 ->
  go_ent_encode k1 = Ok b1 -> go_ent_encode k2 = Ok b2 ->
  kv_get (kv_set st b1 v) b2 = kv_get st b2 /\ kv_get (kv_del st b1) b2 = kv_get st b2.
Proof. oks. apply ent_isolated; assumption. Qed.

Theorem gen_wrk_isolated (V : Type) (st : kv V) k1 k2 b1 b2 v :
  wf_reg_key k1 = true -> wf_reg_key k2 = true -> k1 <> k2 ->
  go_wrk_encode k1 = Ok b1 -> go_wrk_encode k2 = Ok b2 ->
  kv_get (kv_set st b1 v) b2 = kv_get st b2 /\ kv_get (kv_del st b1) b2 = kv_get st b2.
Proof. oks. apply reg_isolated; assumption. Qed.

Theorem gen_bcn_isolated (V : Type) (st : kv V) k1 k2 b1 b2 v :
  wf_reg_key k1 = true -> wf_reg_key k2 = true -> k1 <> k2 ->
  go_bcn_encode k1 = Ok b1 -> go_bcn_encode k2 = Ok b2 ->
  kv_get (kv_set st b1 v) b2 = kv_get st b2 /\ kv_get (kv_del st b1) b2 = kv_get st b2.
Proof. oks. apply reg_isolated; assumption. Qed.

Theorem gen_str_isolated (V : Type) (st : kv V) k1 k2 b1 b2 v :
  wf_str_key k1 = true -> wf_str_key k2 = true -> k1 <> k2 ->
  go_str_encode k1 = Ok b1 -> go_str_encode k2 = Ok b2 ->
  kv_get (kv_set st b1 v) b2 = kv_get st b2 /\ kv_get (kv_del st b1) b2 = kv_get st b2.
Proof. oks. apply str_isolated; assumption. Qed.

(* --- sections are prefix-free: each Go prefix selects exactly its own kind of key --- *)
Theorem gen_ent_range_po k b : go_ent_encode k = Ok b ->
  (is_prefix enterprise_PurchaseOrderIDKeyPrefix b = true <-> exists id, k = EkPO id).
Proof. oks. apply ent_range_po. Qed.

Theorem gen_ent_range_locked k b : go_ent_encode k = Ok b ->
  (is_prefix enterprise_LockedUndAddressKeyPrefix b = true <-> exists a, k = EkLocked a).
Proof. oks. apply ent_range_locked. Qed.

Theorem gen_ent_range_whitelist k b : go_ent_encode k = Ok b ->
  (is_prefix enterprise_WhitelistKeyPrefix b = true <-> exists a, k = EkWhitelist a).
Proof. oks. apply ent_range_whitelist. Qed.

Theorem gen_ent_range_raised k b : go_ent_encode k = Ok b ->
  (is_prefix enterprise_RaisedPoPrefix b = true <-> exists id, k = EkRaised id).
Proof. oks. apply ent_range_raised. Qed.

Theorem gen_ent_range_accepted k b : go_ent_encode k = Ok b ->
  (is_prefix enterprise_AcceptedPoPrefix b = true <-> exists id, k = EkAccepted id).
Proof. oks. apply ent_range_accepted. Qed.

Theorem gen_ent_range_spent k b : go_ent_encode k = Ok b ->
  (is_prefix enterprise_SpentEFUNDAddressKeyPrefix b = true <-> exists a, k = EkSpent a).
Proof. oks. apply ent_range_spent. Qed.

Theorem gen_ent_singletons_in_no_range k P b :
  In k [EkHighestPO; EkParams; EkTotalSpent; EkTotalLocked] ->
  In P [enterprise_PurchaseOrderIDKeyPrefix; enterprise_LockedUndAddressKeyPrefix; enterprise_WhitelistKeyPrefix;
        enterprise_RaisedPoPrefix; enterprise_AcceptedPoPrefix; enterprise_SpentEFUNDAddressKeyPrefix] ->
  go_ent_encode k = Ok b -> is_prefix P b = false.
Proof. oks. apply ent_singletons_in_no_range; assumption. Qed.

Theorem gen_wrk_range_regs k b : go_wrk_encode k = Ok b ->
  (is_prefix wrkchain_RegisteredWrkChainPrefix b = true <-> exists id, k = RkReg id).
Proof. oks. apply reg_range_regs. Qed.

Theorem gen_wrk_range_records_all k b : go_wrk_encode k = Ok b ->
  (is_prefix wrkchain_RecordedWrkChainBlockHashPrefix b = true <-> exists id h, k = RkRecord id h).
Proof. oks. apply reg_range_records_all. Qed.

Theorem gen_wrk_range_records_of id k p b : wf_id id = true -> wf_reg_key k = true ->
  go_wrkchain_WrkChainAllBlocksKey id = Ok p -> go_wrk_encode k = Ok b ->
  (is_prefix p b = true <-> exists h, k = RkRecord id h).
Proof. oks. apply reg_range_records_of; assumption. Qed.

Theorem gen_wrk_range_limits k b : go_wrk_encode k = Ok b ->
  (is_prefix wrkchain_WrkChainStorageLimitPrefix b = true <-> exists id, k = RkLimit id).
Proof. oks. apply reg_range_limits. Qed.

Theorem gen_wrk_singletons_in_no_range k id P p b :
  In k [RkHighestId; RkParams] ->
  go_wrkchain_WrkChainAllBlocksKey id = Ok p ->
  In P [wrkchain_RegisteredWrkChainPrefix; wrkchain_RecordedWrkChainBlockHashPrefix; p;
        wrkchain_WrkChainStorageLimitPrefix] ->
  go_wrk_encode k = Ok b -> is_prefix P b = false.
Proof. oks. apply (reg_singletons_in_no_range k id); assumption. Qed.

Theorem gen_bcn_range_regs k b : go_bcn_encode k = Ok b ->
  (is_prefix beacon_RegisteredBeaconPrefix b = true <-> exists id, k = RkReg id).
Proof. oks. apply reg_range_regs. Qed.

Theorem gen_bcn_range_records_all k b : go_bcn_encode k = Ok b ->
  (is_prefix beacon_RecordedBeaconTimestampPrefix b = true <-> exists id h, k = RkRecord id h).
Proof. oks. apply reg_range_records_all. Qed.

Theorem gen_bcn_range_records_of id k p b : wf_id id = true -> wf_reg_key k = true ->
  go_beacon_BeaconAllTimestampsKey id = Ok p -> go_bcn_encode k = Ok b ->
  (is_prefix p b = true <-> exists h, k = RkRecord id h).
Proof. oks. apply reg_range_records_of; assumption. Qed.

Theorem gen_bcn_range_limits k b : go_bcn_encode k = Ok b ->
  (is_prefix beacon_BeaconStorageLimitPrefix b = true <-> exists id, k = RkLimit id).
Proof. oks. apply reg_range_limits. Qed.

Theorem gen_bcn_singletons_in_no_range k id P p b :
  In k [RkHighestId; RkParams] ->
  go_beacon_BeaconAllTimestampsKey id = Ok p ->
  In P [beacon_RegisteredBeaconPrefix; beacon_RecordedBeaconTimestampPrefix; p;
        beacon_BeaconStorageLimitPrefix] ->
  go_bcn_encode k = Ok b -> is_prefix P b = false.
Proof. oks. apply (reg_singletons_in_no_range k id); assumption. Qed.

Theorem gen_str_range_all k b : go_str_encode k = Ok b ->
  (is_prefix stream_StreamKeyPrefix b = true <-> exists r s, k = SkStream r s).
Proof. oks. apply str_range_all. Qed.

Theorem gen_str_range_receiver r k p b : wf_addr r = true -> wf_str_key k = true ->
  go_stream_GetStreamsByReceiverKey r = Ok p -> go_str_encode k = Ok b ->
  (is_prefix p b = true <-> exists s, k = SkStream r s).
Proof.
  intros Wr Wk Ep Eb. apply go_str_encode_inv in Eb. subst b.
  rewrite gen_str_GetStreamsByReceiverKey_ok in Ep by (apply wf_addr_len in Wr; lia). injection Ep as <-.
  apply str_range_receiver; assumption.
Qed.

Theorem gen_str_params_in_no_range r p : go_stream_GetStreamsByReceiverKey r = Ok p ->
  is_prefix stream_StreamKeyPrefix stream_ParamsKey = false /\ is_prefix p stream_ParamsKey = false.
Proof.
  rewrite gen_str_GetStreamsByReceiverKey_eq. destruct (255 <? length r)%nat; [discriminate|].
  intros E. injection E as <-. apply (str_params_in_no_range r).
Qed.

(* --- listing order = ascending numeric order --- *)
Theorem gen_ent_order_po a b ka kb : wf_id a = true -> wf_id b = true ->
  go_enterprise_PurchaseOrderKey a = Ok ka -> go_enterprise_PurchaseOrderKey b = Ok kb ->
  (lex_lt ka kb = true <-> a < b).
Proof. oks. apply ent_order_po; assumption. Qed.

Theorem gen_ent_order_raised a b ka kb : wf_id a = true -> wf_id b = true ->
  go_enterprise_RaisedQueueStoreKey a = Ok ka -> go_enterprise_RaisedQueueStoreKey b = Ok kb ->
  (lex_lt ka kb = true <-> a < b).
Proof. oks. apply ent_order_raised; assumption. Qed.

Theorem gen_ent_order_accepted a b ka kb : wf_id a = true -> wf_id b = true ->
  go_enterprise_AcceptedQueueStoreKey a = Ok ka -> go_enterprise_AcceptedQueueStoreKey b = Ok kb ->
  (lex_lt ka kb = true <-> a < b).
Proof. oks. apply ent_order_accepted; assumption. Qed.

Theorem gen_wrk_order_reg a b ka kb : wf_id a = true -> wf_id b = true ->
  go_wrkchain_WrkChainKey a = Ok ka -> go_wrkchain_WrkChainKey b = Ok kb ->
  (lex_lt ka kb = true <-> a < b).
Proof. oks. apply reg_order_reg; assumption. Qed.

Theorem gen_wrk_order_limit a b ka kb : wf_id a = true -> wf_id b = true ->
  go_wrkchain_WrkChainStorageLimitKey a = Ok ka -> go_wrkchain_WrkChainStorageLimitKey b = Ok kb ->
  (lex_lt ka kb = true <-> a < b).
Proof. oks. apply reg_order_limit; assumption. Qed.

Theorem gen_wrk_order_record i1 h1 i2 h2 k1 k2 :
  wf_id i1 = true -> wf_id h1 = true -> wf_id i2 = true -> wf_id h2 = true ->
  go_wrkchain_WrkChainBlockKey i1 h1 = Ok k1 -> go_wrkchain_WrkChainBlockKey i2 h2 = Ok k2 ->
  (lex_lt k1 k2 = true <-> i1 < i2 \/ (i1 = i2 /\ h1 < h2)).
Proof. oks. apply reg_order_record; assumption. Qed.

Theorem gen_wrk_order_record_same_id i h1 h2 k1 k2 :
  wf_id i = true -> wf_id h1 = true -> wf_id h2 = true ->
  go_wrkchain_WrkChainBlockKey i h1 = Ok k1 -> go_wrkchain_WrkChainBlockKey i h2 = Ok k2 ->
  (lex_lt k1 k2 = true <-> h1 < h2).
Proof. oks. apply reg_order_record_same_id; assumption. Qed.

Theorem gen_bcn_order_reg a b ka kb : wf_id a = true -> wf_id b = true ->
  go_beacon_BeaconKey a = Ok ka -> go_beacon_BeaconKey b = Ok kb ->
  (lex_lt ka kb = true <-> a < b).
Proof. oks. apply reg_order_reg; assumption. Qed.

Theorem gen_bcn_order_limit a b ka kb : wf_id a = true -> wf_id b = true ->
  go_beacon_BeaconStorageLimitKey a = Ok ka -> go_beacon_BeaconStorageLimitKey b = Ok kb ->
  (lex_lt ka kb = true <-> a < b).
Proof. oks. apply reg_order_limit; assumption. Qed.

Theorem gen_bcn_order_record i1 t1 i2 t2 k1 k2 :
  wf_id i1 = true -> wf_id t1 = true -> wf_id i2 = true -> wf_id t2 = true ->
  go_beacon_BeaconTimestampKey i1 t1 = Ok k1 -> go_beacon_BeaconTimestampKey i2 t2 = Ok k2 ->
  (lex_lt k1 k2 = true <-> i1 < i2 \/ (i1 = i2 /\ t1 < t2)).
Proof. oks. apply reg_order_record; assumption. Qed.

Theorem gen_bcn_order_record_same_id i t1 t2 k1 k2 :
  wf_id i = true -> wf_id t1 = true -> wf_id t2 = true ->
  go_beacon_BeaconTimestampKey i t1 = Ok k1 -> go_beacon_BeaconTimestampKey i t2 = Ok k2 ->
  (lex_lt k1 k2 = true <-> t1 < t2).
Proof. oks. apply reg_order_record_same_id; assumption. Qed.

(* --- the queue keys give back the purchase-order id; the stream key gives back its addresses --- *)
Theorem gen_ent_split_raised id k : wf_id id = true ->
  go_enterprise_RaisedQueueStoreKey id = Ok k -> go_enterprise_SplitRaisedQueueKey k = Ok id.
Proof.
  intros W E. pose proof (gen_ent_split_raised_roundtrip id (proj1 (wf_id_lt id) W)) as R.
  rewrite E in R. exact R.
Qed.

Theorem gen_ent_split_accepted id k : wf_id id = true ->
  go_enterprise_AcceptedQueueStoreKey id = Ok k -> go_enterprise_SplitAcceptedQueueKey k = Ok id.
Proof.
  intros W E. pose proof (gen_ent_split_accepted_roundtrip id (proj1 (wf_id_lt id) W)) as R.
  rewrite E in R. exact R.
Qed.

Theorem gen_str_roundtrip_wf r s : wf_addr r = true -> wf_addr s = true ->
  exists k, go_stream_GetStreamKey r s = Ok k /\ go_stream_AddressesFromStreamKey k = Ok (r, s).
Proof.
  intros Wr Ws. exists (str_encode (SkStream r s)).
  pose proof (wf_addr_len r Wr). pose proof (wf_addr_len s Ws).
  assert (E : go_stream_GetStreamKey r s = Ok (str_encode (SkStream r s))) by (apply gen_str_GetStreamKey_ok; lia).
  split; [exact E|]. apply (gen_str_roundtrip_inv r s); [apply wf_addr_nonempty, Wr | apply wf_addr_nonempty, Ws | exact E].
Qed.
