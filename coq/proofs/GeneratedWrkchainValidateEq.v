(* The stateless message checks generated from /repo/x/wrkchain/types/msgs.go (the three ValidateBasic methods at the
   head of coq/GeneratedWrkchainKeeper.v, re-generated on every run) compute exactly what the hand-written
   [reg_validate_basic true] of model/Registry.v computes: same verdict, same error code.

   Hypotheses, each shown necessary by an example below:
     - the owner of a register / record message is not the empty address (the Go code answers
       sdkerrors.ErrInvalidAddress = 7 there, the model has no such test; [reg_msg_wf] gives 0 <= owner);
       a purchase message needs nothing: its Go ValidateBasic never tests the owner for emptiness;
     - a record message carries at most five strings (the Go message has five hash fields; the model tests every
       element of its list).  Fewer than five is harmless: a missing field is the empty string, never too long.
   The order of the tests differs nowhere; it would not matter: every error of these functions is the one class ERR_REG.

   Then: histories run with the GENERATED ValidateBasic in front of the GENERATED message server are the model's. *)
From Coq Require Import ZifyBool.
From MC Require Import lib.Prelude lib.AMap lib.GoSdk GeneratedWrkchainTypes model.Bank model.Registry model.RegistrySpec
  model.WrkchainKeeperPrims GeneratedWrkchainKeeper model.WrkchainGenSpec.
From MC Require Import proofs.RegistryProofs proofs.GeneratedWrkchainEq.
Local Open Scope Z_scope.

(* the generated ValidateBasic, driven by the model's message type: the records are those of [wrk_msg_exec] *)
Definition wrk_validate_basic (m : reg_msg) : outcome unit :=
  match m with
  | RRegister owner moniker name genesis type =>
      go_MsgRegisterWrkChain_ValidateBasic
        {| MsgRegisterWrkChain_Moniker := moniker; MsgRegisterWrkChain_Name := name; MsgRegisterWrkChain_GenesisHash := genesis;
           MsgRegisterWrkChain_BaseType := type; MsgRegisterWrkChain_Owner := owner |}
  | RRecord owner id key hashes =>
      go_MsgRecordWrkChainBlock_ValidateBasic
        {| MsgRecordWrkChainBlock_WrkchainId := id; MsgRecordWrkChainBlock_Height := key;
           MsgRecordWrkChainBlock_BlockHash := hash_at 0 hashes; MsgRecordWrkChainBlock_ParentHash := hash_at 1 hashes;
           MsgRecordWrkChainBlock_Hash1 := hash_at 2 hashes; MsgRecordWrkChainBlock_Hash2 := hash_at 3 hashes;
           MsgRecordWrkChainBlock_Hash3 := hash_at 4 hashes; MsgRecordWrkChainBlock_Owner := owner |}
  | RPurchase owner id n =>
      go_MsgPurchaseWrkChainStateStorage_ValidateBasic
        {| MsgPurchaseWrkChainStateStorage_WrkchainId := id; MsgPurchaseWrkChainStateStorage_Number := n;
           MsgPurchaseWrkChainStateStorage_Owner := owner |}
  end.

(* the weakest hypothesis *)
Definition wrk_vb_ok (m : reg_msg) : Prop :=
  match m with
  | RRegister o _ _ _ _ => o <> go_zero_addr
  | RRecord o _ _ hashes => o <> go_zero_addr /\ (List.length hashes <= 5)%nat
  | RPurchase _ _ _ => True
  end.

Lemma too_long_empty n : too_long n EmptyString = false.
Proof. reflexivity. Qed.

Lemma Addr_Empty_false (o : go_addr) : o <> go_zero_addr -> Addr_Empty o = false.
Proof. intros H. unfold Addr_Empty. apply Z.eqb_neq. exact H. Qed.

(* a walker for bodies made of tests on string lengths and integers: it never mentions the nesting of the tests,
   nor their order *)
Ltac vunfold :=
  progress unfold sdk_AccAddressFromBech32, map_err, wrkchain_ErrContentTooLarge, wrkchain_ErrMissingData,
    wrkchain_ErrInvalidData.
Ltac vnorm :=
  progress cbn [obind hash_at nth hd existsb orb andb negb
    MsgRegisterWrkChain_Moniker MsgRegisterWrkChain_Name MsgRegisterWrkChain_GenesisHash MsgRegisterWrkChain_BaseType
    MsgRegisterWrkChain_Owner
    MsgRecordWrkChainBlock_WrkchainId MsgRecordWrkChainBlock_Height MsgRecordWrkChainBlock_BlockHash
    MsgRecordWrkChainBlock_ParentHash MsgRecordWrkChainBlock_Hash1 MsgRecordWrkChainBlock_Hash2
    MsgRecordWrkChainBlock_Hash3 MsgRecordWrkChainBlock_Owner
    MsgPurchaseWrkChainStateStorage_WrkchainId MsgPurchaseWrkChainStateStorage_Number
    MsgPurchaseWrkChainStateStorage_Owner].
Ltac vknown :=
  match goal with
  | H : ?o <> go_zero_addr |- context [Addr_Empty ?o] => rewrite (Addr_Empty_false o H)
  | |- context [too_long ?n EmptyString] => rewrite (too_long_empty n)
  | H : ?x = true |- context [?x] => rewrite H
  | H : ?x = false |- context [?x] => rewrite H
  end.
Ltac vsplit :=
  match goal with
  | |- context [if ?c then _ else _] =>
      lazymatch c with
      | context [if _ then _ else _] => fail
      | _ => let a := bool_atom c in destruct a eqn:?
      end
  end.
Ltac vstep := first [ vunfold | vnorm | vknown | rstr | vsplit ].
Ltac vwalk := repeat vstep.

Theorem gen_wrk_validate_basic_eq_weak : forall m, wrk_vb_ok m ->
  wrk_validate_basic m = reg_validate_basic true m.
Proof.
  intros m H.
  destruct m as [o moniker name genesis type | o id key hashes | o id n]; cbn [wrk_vb_ok] in H;
    unfold wrk_validate_basic, reg_validate_basic, go_MsgRegisterWrkChain_ValidateBasic,
      go_MsgRecordWrkChainBlock_ValidateBasic, go_MsgPurchaseWrkChainStateStorage_ValidateBasic.
  - vwalk; reflexivity.
  - destruct H as [Ho Hlen].
    destruct hashes as [|h0 [|h1 [|h2 [|h3 [|h4 [|h5 tl]]]]]];
      try (exfalso; cbn [List.length] in Hlen; lia);
      vwalk; reflexivity.
  - vwalk; reflexivity.
Qed.

Theorem gen_wrk_validate_basic_eq : forall m, reg_msg_wf m ->
  (forall o id key hashes, m = RRecord o id key hashes -> List.length hashes = 5%nat) ->
  wrk_validate_basic m = reg_validate_basic true m.
Proof.
  intros m W H5. apply gen_wrk_validate_basic_eq_weak.
  destruct m as [o moniker name genesis type | o id key hashes | o id n]; cbn [reg_msg_wf wrk_vb_ok] in *.
  - unfold go_zero_addr. lia.
  - split; [unfold go_zero_addr; lia|]. rewrite (H5 o id key hashes eq_refl). apply le_n.
  - exact I.
Qed.

(* every error of the three functions, on a well-formed message, is the one class of the model *)
Lemma wrkchain_validate_errs :
  wrkchain_ErrMissingData = ERR_REG /\ wrkchain_ErrContentTooLarge = ERR_REG /\ wrkchain_ErrInvalidData = ERR_REG /\
  sdkerrors_ErrInvalidAddress = 7.
Proof. repeat split. Qed.

(* the hypotheses cannot be dropped *)
Local Open Scope string_scope.
Definition long67 : string := "0123456789012345678901234567890123456789012345678901234567890123456".

(* an empty owner: Go answers ErrInvalidAddress, the model accepts *)
Example gen_wrk_validate_basic_empty_owner_refuted :
  wrk_validate_basic (RRegister go_zero_addr "m" "n" "g" "t") = Err sdkerrors_ErrInvalidAddress /\
  reg_validate_basic true (RRegister go_zero_addr "m" "n" "g" "t") = Ok tt /\
  wrk_validate_basic (RRecord go_zero_addr 1 1 ["a"; "b"; "c"; "d"; "e"]) = Err sdkerrors_ErrInvalidAddress /\
  reg_validate_basic true (RRecord go_zero_addr 1 1 ["a"; "b"; "c"; "d"; "e"]) = Ok tt.
Proof. vm_compute. auto. Qed.

(* a sixth string that is too long: the Go message has no field for it, the model rejects *)
Example gen_wrk_validate_basic_six_hashes_refuted :
  wrk_validate_basic (RRecord 7 1 1 ["a"; "b"; "c"; "d"; "e"; long67]) = Ok tt /\
  reg_validate_basic true (RRecord 7 1 1 ["a"; "b"; "c"; "d"; "e"; long67]) = Err ERR_REG.
Proof. vm_compute. auto. Qed.

(* fewer than five strings are harmless *)
Example gen_wrk_validate_basic_two_hashes_ex :
  wrk_validate_basic (RRecord 7 1 1 ["a"; "b"]) = Ok tt /\ reg_validate_basic true (RRecord 7 1 1 ["a"; "b"]) = Ok tt /\
  wrk_validate_basic (RRecord 7 1 1 []) = Err ERR_REG /\ reg_validate_basic true (RRecord 7 1 1 []) = Err ERR_REG.
Proof. vm_compute. auto. Qed.
Local Close Scope string_scope.

(* ---- histories: generated ValidateBasic, then the generated message server ---- *)
Definition wrk_step_v (wall : Z) (sg : reg_state * ghost) (tm : Z * reg_msg) : reg_state * ghost :=
  let '(s, g) := sg in
  let '(t, m) := tm in
  match wrk_validate_basic m with
  | Ok _ =>
      match wrk_msg_exec (mk_rworld (t * NSEC) wall s) m with
      | Ok (w', RespRegistered id) =>
          (rw_reg w', {| g_log := g_log g; g_reg := g_reg g ++ [(id, m, t)] |})
      | Ok (w', RespRecorded id k) =>
          match aget (id, k) (r_recs (rw_reg w')) with
          | Some rc => (rw_reg w', {| g_log := aset id (log_of g id ++ [(k, rc)]) (g_log g); g_reg := g_reg g |})
          | None => (rw_reg w', g)
          end
      | Ok (w', _) => (rw_reg w', g)
      | _ => (s, g)
      end
  | _ => (s, g)
  end.

Definition wrk_run_v (wall : Z) (sg : reg_state * ghost) (h : list (Z * reg_msg)) : reg_state * ghost :=
  fold_left (wrk_step_v wall) h sg.

Theorem gen_wrk_step_v_is_step : forall wall sg t m, wrk_vb_ok m ->
  wrk_step_v wall sg (t, m) = wrk_step wall sg (t, m).
Proof.
  intros wall [s g] t m H. unfold wrk_step_v, wrk_step. rewrite (gen_wrk_validate_basic_eq_weak m H). reflexivity.
Qed.

Theorem gen_wrk_step_v_eq : forall wall s g t m,
  reg_inv true s g -> reg_counters_small s -> reg_msg_wf m ->
  (forall o id key hashes, m = RRecord o id key hashes -> List.length hashes = 5%nat) ->
  0 <= t < two63 ->
  wrk_step_v wall (s, g) (t, m) = reg_step true (s, g) (t, m).
Proof.
  intros wall s g t m I HS W H5 Ht. unfold wrk_step_v.
  rewrite (gen_wrk_validate_basic_eq m W H5).
  exact (gen_wrk_step_eq wall s g t m I HS W H5 Ht).
Qed.

Lemma gen_wrk_run_v_is_run : forall wall h sg, wrk_hist_ok h -> wrk_run_v wall sg h = wrk_run wall sg h.
Proof.
  intros wall h. induction h as [|[t m] h IH]; intros sg Hh; [reflexivity|].
  inversion Hh as [|? ? (W & Ht & H5) Hh']; subst. cbn [fst snd] in W, Ht, H5.
  unfold wrk_run_v, wrk_run. cbn [fold_left].
  assert (E : wrk_step_v wall sg (t, m) = wrk_step wall sg (t, m)).
  { destruct sg as [s g]. unfold wrk_step_v, wrk_step. rewrite (gen_wrk_validate_basic_eq m W H5). reflexivity. }
  rewrite E. exact (IH _ Hh').
Qed.

Theorem gen_wrk_run_v_eq : forall wall h s g B,
  reg_inv true s g -> wrk_bounded B s -> B + Z.of_nat (List.length h) < two64 -> wrk_hist_ok h ->
  wrk_run_v wall (s, g) h = reg_run true (s, g) h.
Proof.
  intros wall h s g B I HB Hlen Hh.
  rewrite (gen_wrk_run_v_is_run wall h (s, g) Hh).
  exact (gen_wrk_run_eq wall h s g B I HB Hlen Hh).
Qed.

Print Assumptions gen_wrk_validate_basic_eq_weak.
Print Assumptions gen_wrk_validate_basic_eq.
Print Assumptions gen_wrk_validate_basic_empty_owner_refuted.
Print Assumptions gen_wrk_validate_basic_six_hashes_refuted.
Print Assumptions gen_wrk_step_v_eq.
Print Assumptions gen_wrk_run_v_eq.
