(* GENESIS of x/enterprise ON THE BYTE STORE, continued (proofs/GeneratedEnterpriseGenesisOnStoreEq.v: the listings,
   ExportGenesis, the simulation of InitGenesis from related worlds):

   part 4  InitGenesis into the EMPTY byte store.  The relation Rent asks for the counter cell, so [] represents no
           state; the first two writes of InitGenesis (SetParams, its error dropped; SetHighestPurchaseOrderID) are
           run by hand, the store they leave is the one of [Rent_init], and running InitGenesis from THAT store writes
           the same two cells again: so the simulation theorem applies from there;
   part 5  the abstract state determines the byte store (when its parameters are not the zero Params);
   part 6  export, then import into []: the round trip, byte for byte;
   part 7  export -> import -> export;
   part 8  a concrete store. *)
From Coq Require Import ZifyBool.
From MC Require Import lib.Prelude lib.AMap lib.GoSdk GeneratedEnterpriseTypes model.Bank model.Enterprise model.EnterpriseSpec
  model.Keys model.KeyPrims model.KVStore model.StoreCodecPrims model.EnterpriseKeeperPrims model.EnterpriseStoreWorld
  model.EnterpriseGenSpec model.Genesis model.RegistrySpec model.EnterpriseGenesisGenSpec GeneratedKeys GeneratedEnterpriseStore.
From MC Require GeneratedEnterpriseKeeper GeneratedEnterpriseKeeperOnStore.
From MC Require Import proofs.BankProofs proofs.EnterpriseProofs proofs.RegistryProofs proofs.GenesisProofs proofs.GeneratedEnterpriseParamsEq
  proofs.KVStoreFacts proofs.KVStoreFacts2Enterprise proofs.GeneratedEnterpriseStoreEq
  proofs.GeneratedEnterpriseStoreRefines proofs.GeneratedEnterpriseOnStoreEq proofs.GeneratedEnterpriseGenesisOnStoreEq.
From MC Require proofs.GeneratedEnterpriseGenesisEq.
From Coq Require Import NArith ZArith List Bool Lia Sorted Permutation.
Import ListNotations.
Local Open Scope Z_scope.

Module G := MC.proofs.GeneratedEnterpriseGenesisEq.

(* ================================================================== *)
Section Roundtrip.
(* ================================================================== *)

Variable dom : addr -> Prop.
Variable emb : addr -> list N.
Variable unemb : list N -> addr.
Hypothesis Hemb : emb_hyps dom emb unemb.

Notation Rw := (Rw dom emb unemb).
Notation Rwi := (Rwi dom emb unemb).
Notation Rent := (Rent dom emb).
Notation doc_side := (doc_side dom).
Notation sim := (@GeneratedEnterpriseOnStoreEq.sim dom emb unemb unit).

(* ------------------------------------------------------------------ *)
(* part 4: InitGenesis into the empty byte store                        *)
(* ------------------------------------------------------------------ *)

(* the byte store after the first two writes of InitGenesis on [] *)
Definition s_head (vld : bool) (p : go_Params) (n : Z) : store :=
  okv_set (if vld then okv_set [] kparams (EV_Params p) else []) khighest (v_id n).

Definition esw0 (now : Z) (b : bank) (s : store) : esworld := mk_esworld emb unemb now b s.

Lemma s_head_again (vld : bool) p n :
  okv_set (if vld then okv_set (s_head vld p n) kparams (EV_Params p) else s_head vld p n) khighest (v_id n) =
  s_head vld p n.
Proof.
  unfold s_head. destruct vld.
  - rewrite (set_set_comm (okv_set [] kparams (EV_Params p)) khighest (v_id n) kparams (EV_Params p))
      by (try (apply set_sorted; reflexivity); intros E; discriminate E).
    rewrite (set_set_same [] kparams) by reflexivity.
    apply set_set_same. apply set_sorted. reflexivity.
  - apply set_set_same. reflexivity.
Qed.

(* what Params.Validate answers, as a boolean *)
Definition validates (p : go_Params) : bool := match K.go_Params_Validate p with Ok _ => true | _ => false end.

Lemma os_SetParams_ignore ws p :
  (forall c, K.go_Params_Validate p <> Panic c) ->
  ignore_err ws (os_ent_SetParams ws p) =
    Ok (with_esstore ws (if validates p then okv_set (esw_store ws) kparams (EV_Params p) else esw_store ws), tt).
Proof.
  intros NP. unfold os_ent_SetParams, lift_es, validates. rewrite spec_SetParams.
  destruct (K.go_Params_Validate p) as [[]|e|c]; cbn [obind ignore_err fst]; [reflexivity| |exfalso; exact (NP c eq_refl)].
  destruct ws; reflexivity.
Qed.

Lemma os_SetHighest_run ws n :
  os_ent_SetHighestPurchaseOrderID ws n = Ok (with_esstore ws (okv_set (esw_store ws) khighest (v_id n)), tt).
Proof. unfold os_ent_SetHighestPurchaseOrderID, lift_es. rewrite spec_SetHighestPurchaseOrderID. reflexivity. Qed.

(* InitGenesis on [] is InitGenesis on the store its first two writes leave: they are written again, to the same effect *)
Theorem os_InitGenesis_empty_head now b d :
  (forall c, K.go_Params_Validate (GenesisState_Params d) <> Panic c) ->
  S.go_InitGenesis (esw0 now b []) d =
  S.go_InitGenesis (esw0 now b (s_head (validates (GenesisState_Params d)) (GenesisState_Params d)
                                  (GenesisState_StartingPurchaseOrderId d))) d.
Proof.
  intros NP. unfold S.go_InitGenesis, os_ent_GetEnterpriseAccount. rewrite !obind_Ok. cbv beta zeta. cbn [modacc_is_nil].
  rewrite !(os_SetParams_ignore _ _ NP), !obind_Ok. cbv beta iota.
  rewrite !os_SetHighest_run, !obind_Ok. cbv beta iota.
  unfold esw0, with_esstore. cbn [esw_emb esw_unemb esw_now esw_bank esw_store].
  rewrite s_head_again. reflexivity.
Qed.

(* in the range where the two Params.Validate agree: the verdict is the model's, never a panic *)
Lemma validates_eq p : ent_params_range p ->
  validates p = ent_params_valid (params_of_go p) /\ forall c, K.go_Params_Validate p <> Panic c.
Proof.
  intros H. unfold validates. rewrite (gen_ent_Params_Validate_exact p H).
  destruct (ent_params_valid (params_of_go p)); split; try reflexivity; intros c E; discriminate E.
Qed.

(* the first related pair of worlds: the store of [Rent_init] *)
Lemma Rwi_head now b p n : u64 n -> Rwi (mk_eworld now b (init_state p n)) (esw0 now b (s_head true p n)).
Proof.
  intros Hn. split.
  - split; [reflexivity|]. split; [reflexivity|]. split; [reflexivity|]. split; [reflexivity|].
    exact (Rent_init dom emb p n Hn).
  - split; [intros id []|intros id o []].
Qed.

(* the first rendering started on the abstract state of [Rent_init] or on any fresh one: the same result (the
   parameters and the counter are overwritten) *)
Lemma K_InitGenesis_fresh now b p0 d :
  ent_params_valid (params_of_go (GenesisState_Params d)) = true ->
  K.go_InitGenesis (fresh_eworld now b p0) d =
  K.go_InitGenesis (mk_eworld now b (init_state (GenesisState_Params d) (GenesisState_StartingPurchaseOrderId d))) d.
Proof. intros V. rewrite !(G.gen_ent_InitGenesis_run _ d V). reflexivity. Qed.

(* a world over the embedding of this section is its clock, bank and store *)
Lemma Rw_esw0 w ws : Rw w ws -> ws = esw0 (ew_now w) (ew_bank w) (esw_store ws).
Proof. intros (E1 & E2 & E3 & E4 & _). destruct ws. cbn in *. subst. reflexivity. Qed.

(* THE EMPTY STORE: both renderings, the first from any fresh abstract state, the second from [], simulate - Ok with Ok
   and related worlds, Panic with Panic and equal codes.  [doc_side] is read on the blank state (no queue, no
   whitelist): the conditions "above what is queued / not yet listed" are void *)
Theorem os_InitGenesis_empty_sim now b p0 d :
  ent_params_valid (params_of_go (GenesisState_Params d)) = true -> doc_side blank_state d ->
  sim (K.go_InitGenesis (fresh_eworld now b p0) d) (S.go_InitGenesis (esw0 now b []) d).
Proof.
  intros V HD. pose proof HD as (Hpr & _ & Hn & _).
  destruct (validates_eq _ Hpr) as [Ev NP].
  rewrite (os_InitGenesis_empty_head now b d NP), Ev, V, (K_InitGenesis_fresh now b p0 d V).
  apply (os_InitGenesis_sim dom emb unemb Hemb); [apply Rwi_head; exact Hn | exact HD].
Qed.

(* ... and the abstract state is the model's import of the document ([import_ent] of model/Genesis.v, through
   proofs/GeneratedEnterpriseGenesisEq.v).  The three Forall are what the keeper checks entry by entry (a failure is a
   panic), the two conditions on the bank are those of [gen_ent_InitGenesis_eq] *)
Theorem os_InitGenesis_empty now b p0 d st' :
  ent_params_valid (params_of_go (GenesisState_Params d)) = true -> doc_side blank_state d ->
  Forall G.wl_ok (GenesisState_Whitelist d) -> Forall G.po_status_ok (GenesisState_PurchaseOrders d) ->
  Forall G.locked_ok (GenesisState_LockedUnd d) -> bank_wf b -> G.escrow_nonneg b ->
  import_ent b (gen_ent_of_go d) = Some st' ->
  exists s',
    S.go_InitGenesis (esw0 now b []) d = Ok (esw0 now b s', tt) /\
    K.go_InitGenesis (fresh_eworld now b p0) d = Ok (mk_eworld now b st', tt) /\
    Rent s' st' /\ einv dom st'.
Proof.
  intros V HD Hwl Hpo Hlk Wf NN Imp.
  pose proof (G.gen_ent_InitGenesis_eq now b p0 d V Hwl Hpo Hlk Wf NN) as EK. rewrite Imp in EK.
  pose proof (os_InitGenesis_empty_sim now b p0 d V HD) as Hs. unfold GeneratedEnterpriseOnStoreEq.sim in Hs.
  destruct (gsim_Ok_inv_l Rwi eq _ _ _ tt Hs EK) as (ws' & ES & HR).
  exists (esw_store ws'). rewrite (Rw_esw0 _ _ (Rwi_Rw _ _ _ _ _ HR)) in ES.
  split; [exact ES|]. split; [exact EK|]. split; [exact (Rwi_Rent _ _ _ _ _ HR) | exact (Rwi_einv _ _ _ _ _ HR)].
Qed.

(* conversely: whenever the on-store InitGenesis answers Ok on [], the model's import succeeds and the store represents
   what it gives - no hypothesis on the entries *)
Theorem os_InitGenesis_empty_ok now b d ws' :
  ent_params_valid (params_of_go (GenesisState_Params d)) = true -> doc_side blank_state d ->
  bank_wf b -> G.escrow_nonneg b ->
  S.go_InitGenesis (esw0 now b []) d = Ok (ws', tt) ->
  exists st', import_ent b (gen_ent_of_go d) = Some st' /\ ws' = esw0 now b (esw_store ws') /\
              Rent (esw_store ws') st' /\ einv dom st'.
Proof.
  intros V HD Wf NN ES.
  pose proof (os_InitGenesis_empty_sim now b (params_of_go (GenesisState_Params d)) d V HD) as Hs.
  unfold GeneratedEnterpriseOnStoreEq.sim in Hs.
  destruct (gsim_Ok_inv Rwi eq _ _ ws' tt Hs ES) as (w' & EK & HR).
  destruct (G.gen_ent_InitGenesis_ok now b _ d w' V Wf NN EK) as (_ & Imp & Ew).
  exists (ew_ent w'). split; [exact Imp|].
  split; [|split; [exact (Rwi_Rent _ _ _ _ _ HR) | exact (Rwi_einv _ _ _ _ _ HR)]].
  rewrite (Rw_esw0 _ _ (Rwi_Rw _ _ _ _ _ HR)) at 1. rewrite Ew. reflexivity.
Qed.

(* ... and whenever the model's import refuses (the module account does not hold the recorded total), it panics *)
Theorem os_InitGenesis_empty_none now b d :
  ent_params_valid (params_of_go (GenesisState_Params d)) = true -> doc_side blank_state d ->
  bank_wf b -> G.escrow_nonneg b ->
  import_ent b (gen_ent_of_go d) = None ->
  exists c, S.go_InitGenesis (esw0 now b []) d = Panic c.
Proof.
  intros V HD Wf NN Imp.
  destruct (G.gen_ent_InitGenesis_none now b (params_of_go (GenesisState_Params d)) d V Wf NN Imp) as [c EK].
  pose proof (os_InitGenesis_empty_sim now b (params_of_go (GenesisState_Params d)) d V HD) as Hs.
  unfold GeneratedEnterpriseOnStoreEq.sim in Hs. exists c. exact (proj1 (gsim_Panic_inv Rwi eq _ _ c Hs) EK).
Qed.

(* ---- parameters that do not validate ---- *)

(* the store holding the counter cell only represents the blank state with the ZERO parameters (a store without the
   Params cell reads the zero Params) *)
Lemma Rent_init0 n : u64 n -> Rent (okv_set [] khighest (v_id n)) (init_state zero_go_Params n).
Proof.
  intros Hn. constructor; cbn [init_state e_params e_next e_pos e_raisedq e_acceptedq e_wl e_locked e_spent e_totlocked e_totspent];
    try solve [ constructor | intros ? [] | intros ? ? []
              | intros x Hx; cbv beta; cbn [aget option_map mem_addr existsb]; rewrite !get_set_other by kneq; reflexivity
              | cbn [option_map]; rewrite !get_set_other by kneq; reflexivity ].
  all: try exact Hn.
  all: try (apply set_sorted; reflexivity).
  all: try (right; rewrite get_set_other by kneq; split; reflexivity).
  all: try apply get_set_same.
  apply complete_set; [intros k v [] | apply key_ok_highest].
Qed.

(* InitGenesis drops the error of SetParams (as the registries do): from [] the Params cell is then never written.
   The store that results is NOT unrelated to every abstract state, though: it is what the first rendering builds from
   a fresh state holding the zero parameters, which it keeps *)
Theorem os_InitGenesis_empty_invalid_sim now b d :
  ent_params_valid (params_of_go (GenesisState_Params d)) = false -> doc_side blank_state d ->
  sim (K.go_InitGenesis (mk_eworld now b (init_state zero_go_Params (GenesisState_StartingPurchaseOrderId d))) d)
      (S.go_InitGenesis (esw0 now b []) d).
Proof.
  intros V HD. pose proof HD as (Hpr & _ & Hn & _).
  destruct (validates_eq _ Hpr) as [Ev NP].
  rewrite (os_InitGenesis_empty_head now b d NP), Ev, V.
  apply (os_InitGenesis_sim dom emb unemb Hemb); [|exact HD].
  split.
  - split; [reflexivity|]. split; [reflexivity|]. split; [reflexivity|]. split; [reflexivity|].
    exact (Rent_init0 _ Hn).
  - split; [intros id []|intros id o []].
Qed.

(* ------------------------------------------------------------------ *)
(* part 5: the abstract state determines the byte store                 *)
(* ------------------------------------------------------------------ *)

Notation key_ok := (key_ok dom emb).

(* ... when its parameters are not the zero Params: those are represented by a stored zero Params AND by no cell *)
Lemma Rent_get_determined s1 s2 st : params_to_go (e_params st) <> zero_go_Params ->
  Rent s1 st -> Rent s2 st -> forall k, key_ok k -> okv_get s1 k = okv_get s2 k.
Proof.
  intros NZ R1 R2 k
    [->|[->|[->|[->|[[id [Hid ->]]|[[id [Hid ->]]|[[id [Hid ->]]|[[a [Ha ->]]|[[a [Ha ->]]|[a [Ha ->]]]]]]]]]]].
  - destruct (R_params _ _ _ _ R1) as [E1|[_ Z1]]; [|contradiction].
    destruct (R_params _ _ _ _ R2) as [E2|[_ Z2]]; [|contradiction]. rewrite E1, E2. reflexivity.
  - rewrite (R_highest _ _ _ _ R1), (R_highest _ _ _ _ R2). reflexivity.
  - rewrite (R_totlocked _ _ _ _ R1), (R_totlocked _ _ _ _ R2). reflexivity.
  - rewrite (R_totspent _ _ _ _ R1), (R_totspent _ _ _ _ R2). reflexivity.
  - rewrite (R_pos _ _ _ _ R1 id Hid), (R_pos _ _ _ _ R2 id Hid). reflexivity.
  - rewrite (R_raised _ _ _ _ R1 id Hid), (R_raised _ _ _ _ R2 id Hid). reflexivity.
  - rewrite (R_accepted _ _ _ _ R1 id Hid), (R_accepted _ _ _ _ R2 id Hid). reflexivity.
  - rewrite (R_wl _ _ _ _ R1 a Ha), (R_wl _ _ _ _ R2 a Ha). reflexivity.
  - rewrite (R_locked _ _ _ _ R1 a Ha), (R_locked _ _ _ _ R2 a Ha). reflexivity.
  - rewrite (R_spent _ _ _ _ R1 a Ha), (R_spent _ _ _ _ R2 a Ha). reflexivity.
Qed.

Theorem Rent_store_unique s1 s2 st : params_to_go (e_params st) <> zero_go_Params ->
  Rent s1 st -> Rent s2 st -> s1 = s2.
Proof.
  intros NZ R1 R2. apply okv_ext; [exact (R_sorted _ _ _ _ R1) | exact (R_sorted _ _ _ _ R2)|]. intros k.
  destruct (okv_get s1 k) as [v|] eqn:E1.
  - rewrite <- E1. apply (Rent_get_determined s1 s2 st NZ R1 R2). exact (R_complete _ _ _ _ R1 _ _ (get_in _ _ _ E1)).
  - destruct (okv_get s2 k) as [v|] eqn:E2; [|reflexivity].
    rewrite <- E1, <- E2. apply (Rent_get_determined s1 s2 st NZ R1 R2). exact (R_complete _ _ _ _ R2 _ _ (get_in _ _ _ E2)).
Qed.

Lemma valid_not_zero p : ent_params_valid p = true -> params_to_go p <> zero_go_Params.
Proof.
  intros V E. apply (f_equal Params_MinAccepts) in E. cbn in E. unfold ent_params_valid in V. lia.
Qed.

(* ------------------------------------------------------------------ *)
(* part 6: export, then import into the empty byte store                *)
(* ------------------------------------------------------------------ *)

Lemma ss_si l : StronglySorted Z.lt l <-> strictly_increasing l.
Proof.
  induction l as [|x l IH]; [split; intros _; [exact I | constructor]|].
  rewrite si_cons. split.
  - intros H. apply StronglySorted_inv in H as [H1 H2]. rewrite Forall_forall in H2. split; [exact H2 | apply IH, H1].
  - intros [H1 H2]. constructor; [apply IH, H2 | apply Forall_forall, H1].
Qed.

(* a represented state in key order is [ent_ordered] (the queues are id-ordered in every represented state) *)
Lemma key_ordered_ent_ordered s st : Rent s st -> ent_key_ordered emb st -> ent_ordered st.
Proof.
  intros R (Hp & _). split; [apply ss_si; exact Hp|].
  split; apply ss_si; [exact (R_raised_asc _ _ _ _ R) | exact (R_accepted_asc _ _ _ _ R)].
Qed.

(* the document the first rendering (and, in key order, the second) exports *)
Definition export_doc (st : ent_state) : go_GenesisState :=
  mk_go_GenesisState (params_to_go (e_params st)) (e_next st) (map (fun kv => to_go_po (snd kv)) (e_pos st))
    (map (fun kv => mk_go_LockedUnd (fst kv) (snd kv)) (e_locked st)) (total_locked st) (e_wl st)
    (map (fun kv => mk_go_SpentEFUND (fst kv) (snd kv)) (e_spent st)) (total_spent st).

Lemma K_ExportGenesis_doc w : K.go_ExportGenesis w = Ok (export_doc (ew_ent w)).
Proof. exact (G.gen_ent_ExportGenesis_run w). Qed.

Lemma of_to_pos l : map of_go_po (map to_go_po l) = l.
Proof. rewrite map_map. rewrite <- (map_id l) at 2. apply map_ext. intros o. apply G.of_to_po. Qed.

(* the ids the exported document queues are the two queues *)
Lemma export_queued now st : sinv now st -> ent_ordered st ->
  raised_ids (GenesisState_PurchaseOrders (export_doc st)) = e_raisedq st /\
  accepted_ids (GenesisState_PurchaseOrders (export_doc st)) = e_acceptedq st.
Proof.
  intros Is Ho. destruct (queues_rebuilt_eq now st Is Ho) as [E1 E2].
  cbn [export_doc GenesisState_PurchaseOrders]. rewrite <- (map_map snd to_go_po). split.
  - rewrite <- E1. change (raised_ids (map to_go_po (map snd (e_pos st)))) with (G.go_ids_with ST_RAISED (map to_go_po (map snd (e_pos st)))).
    rewrite <- G.ids_with_of_go, of_to_pos. reflexivity.
  - rewrite <- E2. change (accepted_ids (map to_go_po (map snd (e_pos st)))) with (G.go_ids_with ST_ACCEPTED (map to_go_po (map snd (e_pos st)))).
    rewrite <- G.ids_with_of_go, of_to_pos. reflexivity.
Qed.

(* the exported document is one the import theorem covers *)
Lemma export_doc_side now s st : Rent s st -> einv dom st -> sinv now st -> ent_key_ordered emb st ->
  ent_params_range (params_to_go (e_params st)) -> doc_side blank_state (export_doc st).
Proof.
  intros R [Iq Ip] Is HO Hpr.
  destruct (export_queued now st Is (key_ordered_ent_ordered s st R HO)) as [Er Ea].
  unfold GeneratedEnterpriseGenesisOnStoreEq.doc_side. rewrite Er, Ea.
  cbn [export_doc GenesisState_Params GenesisState_StartingPurchaseOrderId GenesisState_Whitelist
       GenesisState_PurchaseOrders GenesisState_LockedUnd GenesisState_SpentEfund blank_state init_state e_raisedq e_acceptedq e_wl].
  split; [exact Hpr|].
  split; [left; pose proof (si_params _ _ Is) as V; unfold ent_params_valid in V; cbn [params_to_go Params_Denom]; lia|].
  split; [exact (R_next _ _ _ _ R)|].
  split; [intros y []|].
  split; [apply Forall_forall; intros a Ha; apply dom_pdom; exact (R_wl_dom _ _ _ _ R a Ha)|].
  split; [exact (R_wl_nodup _ _ _ _ R)|].
  split; [intros a _; reflexivity|].
  split.
  { apply Forall_forall. intros g Hg. apply in_map_iff in Hg as ([id o] & <- & Hin). cbn [snd].
    destruct (R_pos_ids _ _ _ _ R id o Hin) as [Hu Hid].
    split; [unfold GeneratedEnterpriseGenesisOnStoreEq.po_id, to_go_po; cbn [EnterpriseUndPurchaseOrder_Id]; rewrite Hid; exact Hu|].
    exact (Ip id o Hin). }
  split; [exact (R_raised_asc _ _ _ _ R)|].
  split; [intros y r []|].
  split; [exact Iq|].
  split; [exact (R_accepted_asc _ _ _ _ R)|].
  split; [intros y r []|].
  split; apply Forall_forall; intros x Hx; apply in_map_iff in Hx as ([a c] & <- & Hin); cbn [LockedUnd_Owner SpentEFUND_Owner fst].
  - apply (R_locked_dom _ _ _ _ R). apply in_map_iff. exists (a, c). split; [reflexivity | exact Hin].
  - apply (R_spent_dom _ _ _ _ R). apply in_map_iff. exists (a, c). split; [reflexivity | exact Hin].
Qed.

(* the re-imported state is the state itself once the two totals are recorded (they are from the first lock / spend
   on, and after every InitGenesis) *)
Definition totals_recorded (st : ent_state) : Prop := e_totlocked st <> None /\ e_totspent st <> None.

Lemma reimported_same now st : sinv now st -> ent_ordered st -> totals_recorded st -> ent_reimported st = st.
Proof.
  intros Is Ho [T1 T2]. destruct (queues_rebuilt_eq now st Is Ho) as [E1 E2].
  unfold ent_reimported. rewrite E1, E2. unfold total_locked, total_spent.
  destruct st as [p n pos rq aq wl lk sp [tl|] [ts|]]; cbn in *; try contradiction; reflexivity.
Qed.

(* THE BYTE-LEVEL ROUND TRIP.  [ws] represents an abstract state satisfying the module invariant, listed in key order;
   the on-store ExportGenesis gives the document d the first rendering and the model give; the on-store InitGenesis of
   d on the EMPTY byte store (any clock) answers Ok with a store s' that represents the model's re-imported state -
   and, when the two totals are recorded, the original abstract state: then s' is the exported byte store itself *)
Theorem os_export_import_roundtrip w ws n now' :
  Rwi w ws -> ent_inv {| w_bank := ew_bank w; w_ent := ew_ent w; w_now := n |} -> bank_wf (ew_bank w) ->
  ent_key_ordered emb (ew_ent w) -> ent_params_range (params_to_go (e_params (ew_ent w))) ->
  exists d s',
    S.go_ExportGenesis ws = Ok d /\
    gen_ent_of_go d = export_ent (ew_ent w) /\
    S.go_InitGenesis (esw0 now' (esw_bank ws) []) d = Ok (esw0 now' (esw_bank ws) s', tt) /\
    Rent s' (ent_reimported (ew_ent w)) /\
    (totals_recorded (ew_ent w) -> Rent s' (ew_ent w) /\ s' = esw_store ws).
Proof.
  intros HR I Wf HO Hpr. pose proof (Rwi_Rw _ _ _ _ _ HR) as HR0. pose proof (Rwi_Rent _ _ _ _ _ HR) as R.
  pose proof HR0 as (_ & _ & _ & Eb & _). rewrite <- Eb.
  pose proof (inv_s _ I) as Is. cbn [w_ent w_now] in Is.
  assert (Hwl : Forall G.wl_ok (e_wl (ew_ent w))).
  { apply Forall_forall. intros a Ha. pose proof (proj2 (proj2 (proj2 Hemb)) a (R_wl_dom _ _ _ _ R a Ha)) as P.
    unfold addr_parses in P. unfold G.wl_ok. lia. }
  destruct (G.gen_ent_export_import_roundtrip w n now' (e_params (ew_ent w)) I Wf Hwl) as (d & Ed & Md & Imp & _).
  pose proof Ed as Ed'. rewrite K_ExportGenesis_doc in Ed'. apply (f_equal (fun o => match o with Ok x => x | _ => d end)) in Ed'.
  assert (HD : doc_side blank_state d)
    by (rewrite <- Ed'; exact (export_doc_side n _ _ R (Rwi_einv _ _ _ _ _ HR) Is HO Hpr)).
  assert (V : ent_params_valid (params_of_go (GenesisState_Params d)) = true).
  { rewrite <- Ed'. cbn [export_doc GenesisState_Params]. rewrite G.params_of_to_go. exact (si_params _ _ Is). }
  destruct (G.sinv_doc_ok _ _ Is) as [Hpo Hlk].
  assert (Hwl' : Forall G.wl_ok (GenesisState_Whitelist d)) by (rewrite <- Ed'; exact Hwl).
  assert (Hpo' : Forall G.po_status_ok (GenesisState_PurchaseOrders d)) by (rewrite <- Ed'; exact Hpo).
  assert (Hlk' : Forall G.locked_ok (GenesisState_LockedUnd d)) by (rewrite <- Ed'; exact Hlk).
  destruct (os_InitGenesis_empty now' (ew_bank w) (e_params (ew_ent w)) d _ V HD Hwl' Hpo' Hlk' Wf
              (G.ent_inv_escrow_nonneg _ _ _ I Wf) Imp) as (s' & ES & _ & R' & _).
  exists d, s'. split; [rewrite (os_ExportGenesis_eq dom emb unemb Hemb w ws HR0 HO); exact Ed|].
  split; [exact Md|]. split; [exact ES|]. split; [exact R'|].
  intros T. rewrite (reimported_same n _ Is (key_ordered_ent_ordered _ _ R HO) T) in R'.
  split; [exact R'|]. exact (Rent_store_unique _ _ _ (valid_not_zero _ (si_params _ _ Is)) R' R).
Qed.

(* ------------------------------------------------------------------ *)
(* part 7: export -> import -> export                                   *)
(* ------------------------------------------------------------------ *)

Lemma reimported_key_ordered st : ent_key_ordered emb st -> ent_key_ordered emb (ent_reimported st).
Proof. intros H. exact H. Qed.

(* the byte store InitGenesis builds from the exported document exports to the very same document (whether or not the
   totals were recorded) *)
Theorem os_export_import_export w ws n now' :
  Rwi w ws -> ent_inv {| w_bank := ew_bank w; w_ent := ew_ent w; w_now := n |} -> bank_wf (ew_bank w) ->
  ent_key_ordered emb (ew_ent w) -> ent_params_range (params_to_go (e_params (ew_ent w))) ->
  exists d s',
    S.go_ExportGenesis ws = Ok d /\
    S.go_InitGenesis (esw0 now' (esw_bank ws) []) d = Ok (esw0 now' (esw_bank ws) s', tt) /\
    S.go_ExportGenesis (esw0 now' (esw_bank ws) s') = Ok d.
Proof.
  intros HR I Wf HO Hpr. destruct (os_export_import_roundtrip w ws n now' HR I Wf HO Hpr) as (d & s' & Ed & _ & Ei & R' & _).
  exists d, s'. split; [exact Ed|]. split; [exact Ei|].
  assert (HR' : Rw (mk_eworld now' (esw_bank ws) (ent_reimported (ew_ent w))) (esw0 now' (esw_bank ws) s'))
    by (split; [reflexivity|]; split; [reflexivity|]; split; [reflexivity|]; split; [reflexivity | exact R']).
  rewrite (os_ExportGenesis_eq dom emb unemb Hemb _ _ HR' (reimported_key_ordered _ HO)), K_ExportGenesis_doc.
  rewrite (os_ExportGenesis_eq dom emb unemb Hemb w ws (Rwi_Rw _ _ _ _ _ HR) HO), K_ExportGenesis_doc in Ed.
  rewrite <- Ed. reflexivity.
Qed.

End Roundtrip.

(* ================================================================== *)
(* part 8: the hypotheses are needed; a concrete store                  *)
(* ================================================================== *)

Notation xRent := (Rent os_ex_dom os_ex_emb).
Notation xesw0 := (esw0 os_ex_emb os_ex_unemb).

(* ---- the zero parameters are represented twice: [Rent_store_unique] needs its hypothesis ---- *)
Example Rent_store_unique_zero_params_refuted :
  let s1 : store := okv_set [] khighest (v_id 1) in
  let s2 : store := okv_set (okv_set [] kparams (EV_Params zero_go_Params)) khighest (v_id 1) in
  xRent s1 (init_state zero_go_Params 1) /\ xRent s2 (init_state zero_go_Params 1) /\ s1 <> s2.
Proof.
  cbv zeta. split; [apply Rent_init0; lia|]. split; [apply Rent_init; lia|].
  intros E. vm_compute in E. discriminate E.
Qed.

(* ---- parameters that do not validate (here: no accept asked for) ---- *)
(* InitGenesis drops the error: Ok, a store WITHOUT the Params cell (it reads the zero Params); the first rendering
   from a fresh state keeps that state's parameters: the two results are not related, the model's import refuses *)
Definition exr_bad_doc : go_GenesisState :=
  mk_go_GenesisState (mk_go_Params [5; 6] NUND 0 100) 1 [] [] (NUND, 0) [7] [] (NUND, 0).

Ltac ex_doc_side :=
  unfold GeneratedEnterpriseGenesisOnStoreEq.doc_side;
  cbn [GenesisState_Params GenesisState_StartingPurchaseOrderId GenesisState_Whitelist
       GenesisState_PurchaseOrders GenesisState_LockedUnd GenesisState_SpentEfund blank_state init_state e_raisedq e_acceptedq e_wl];
  split; [vm_compute; repeat split; intros X; discriminate X|];
  split; [left; vm_compute; intros X; discriminate X|];
  split; [lia|];
  split; [intros y []|];
  split; [repeat (apply Forall_cons; [intros _; unfold os_ex_dom; lia|]); apply Forall_nil|];
  split; [repeat constructor; cbn; intros X; repeat (destruct X as [X|X]; [discriminate X|]); exact X|];
  split; [intros a _; reflexivity|];
  split; [repeat constructor; cbn; try (lia); intros _; unfold os_ex_dom; lia|];
  split; [vm_compute; repeat constructor|];
  split; [intros y r []|];
  split; [intros r Hr; vm_compute in Hr; repeat (destruct Hr as [<-|Hr]; [lia|]); destruct Hr|];
  split; [vm_compute; repeat constructor|];
  split; [intros y r []|];
  split; repeat (apply Forall_cons; [cbn; unfold os_ex_dom; lia|]); apply Forall_nil.

Example os_InitGenesis_empty_invalid_refuted :
  doc_side os_ex_dom blank_state exr_bad_doc /\
  ent_params_valid (params_of_go (GenesisState_Params exr_bad_doc)) = false /\
  import_ent os_ex_bank (gen_ent_of_go exr_bad_doc) = None /\
  exists s',
    S.go_InitGenesis (xesw0 0 os_ex_bank []) exr_bad_doc = Ok (xesw0 0 os_ex_bank s', tt) /\
    okv_get s' kparams = None /\ go_st_GetParams s' = Ok zero_go_Params /\
    (exists st',
      K.go_InitGenesis (fresh_eworld 0 os_ex_bank (params_of_go os_ex_params)) exr_bad_doc = Ok (mk_eworld 0 os_ex_bank st', tt) /\
      e_params st' = params_of_go os_ex_params /\ ~ xRent s' st') /\
    (* ... it is related to what the first rendering builds from the blank state holding the zero parameters *)
    exists w0,
      K.go_InitGenesis (mk_eworld 0 os_ex_bank (init_state zero_go_Params 1)) exr_bad_doc = Ok (w0, tt) /\
      e_params (ew_ent w0) = params_of_go zero_go_Params /\ xRent s' (ew_ent w0).
Proof.
  split; [unfold exr_bad_doc; ex_doc_side|]. split; [vm_compute; reflexivity|]. split; [vm_compute; reflexivity|].
  eexists. split; [vm_compute; reflexivity|]. split; [vm_compute; reflexivity|]. split; [vm_compute; reflexivity|]. split.
  - eexists. split; [vm_compute; reflexivity|]. split; [reflexivity|].
    intros R. destruct (R_params _ _ _ _ R) as [E|[_ E]]; vm_compute in E; discriminate E.
  - pose proof (os_InitGenesis_empty_invalid_sim os_ex_dom os_ex_emb os_ex_unemb os_ex_hyps 0 os_ex_bank exr_bad_doc
                  ltac:(vm_compute; reflexivity) ltac:(unfold exr_bad_doc; ex_doc_side)) as Hs.
    unfold GeneratedEnterpriseOnStoreEq.sim in Hs.
    match goal with |- exists w0, _ /\ _ /\ Rent _ _ ?s _ =>
      destruct (gsim_Ok_inv (Rwi os_ex_dom os_ex_emb os_ex_unemb) eq _ _ (xesw0 0 os_ex_bank s) tt Hs ltac:(vm_compute; reflexivity))
        as (w0 & EK & HR) end.
    exists w0. split; [exact EK|]. split; [|exact (Rwi_Rent _ _ _ _ _ HR)].
    apply (f_equal (fun o : outcome (eworld * unit) => match o with Ok (x, _) => e_params (ew_ent x) | _ => params_of_go zero_go_Params end)) in EK.
    rewrite <- EK. vm_compute. reflexivity.
Qed.

Lemma kinv_ent_inv w : kinv w -> exists n, ent_inv {| w_bank := ew_bank w; w_ent := ew_ent w; w_now := n |}.
Proof. intros (mw & -> & I). exists (w_now mw). destruct mw. exact I. Qed.

(* ---- the totals: a state that never recorded them (the genesis of proofs/GeneratedEnterpriseOnStoreEq.v part 6: the
   Params cell and the counter cell, nothing else) comes back from the round trip WITH the two total cells ---- *)
Example os_roundtrip_totals_refuted :
  Rwi os_ex_dom os_ex_emb os_ex_unemb os_ex_kw0 os_ex_sw0 /\
  ent_inv {| w_bank := ew_bank os_ex_kw0; w_ent := ew_ent os_ex_kw0; w_now := 0 |} /\ bank_wf (ew_bank os_ex_kw0) /\
  ent_key_ordered os_ex_emb (ew_ent os_ex_kw0) /\ ent_params_range (params_to_go (e_params (ew_ent os_ex_kw0))) /\
  ~ totals_recorded (ew_ent os_ex_kw0) /\
  exists d s',
    S.go_ExportGenesis os_ex_sw0 = Ok d /\
    S.go_InitGenesis (xesw0 0 os_ex_bank []) d = Ok (xesw0 0 os_ex_bank s', tt) /\
    List.length (esw_store os_ex_sw0) = 2%nat /\ List.length s' = 4%nat /\ s' <> esw_store os_ex_sw0.
Proof.
  split; [exact os_ex_Rwi0|]. split; [exact os_ex_inv0|].
  split; [unfold bank_wf; vm_compute; repeat constructor; intros []|].
  split; [vm_compute; repeat constructor|].
  split; [vm_compute; repeat split; intros X; discriminate X|].
  split; [intros [X _]; apply X; reflexivity|].
  eexists. eexists. split; [vm_compute; reflexivity|]. split; [vm_compute; reflexivity|].
  split; [reflexivity|]. split; [reflexivity|]. intros E. vm_compute in E. discriminate E.
Qed.

(* ---- a store with history ---- *)
(* from the genesis above.  Block 1: signer 5 whitelists accounts 7 and 9; orders 1 (account 7, 500 nund) and 2 (account
   9, 300 nund) are raised and accepted by both signers.  Block 2: the tally accepts them.  Block 3: they are minted and
   locked (completed).  A fee of 30 nund of account 7 is paid from its locked tokens.  Then orders 3 (accepted by both
   signers), 4 (undecided) and 5 (rejected by both) are raised; block 4 tallies: 3 is in the accepted queue, 4 in the
   raised queue, 5 rejected *)
Definition rt_hist : list hop :=
  [ HBegin 1700000000;
    HMsg (EWhitelist 5 7 1); HMsg (EWhitelist 5 9 1);
    HMsg (ERaise 7 NUND 500); HMsg (ERaise 9 NUND 300);
    HMsg (EDecide 5 1 ST_ACCEPTED); HMsg (EDecide 6 1 ST_ACCEPTED);
    HMsg (EDecide 5 2 ST_ACCEPTED); HMsg (EDecide 6 2 ST_ACCEPTED);
    HBegin 1700000010;
    HBegin 1700000020;
    HUnlock 7 [(NUND, 30)];
    HMsg (ERaise 7 NUND 200); HMsg (ERaise 9 NUND 100); HMsg (ERaise 7 NUND 50);
    HMsg (EDecide 5 3 ST_ACCEPTED); HMsg (EDecide 6 3 ST_ACCEPTED);
    HMsg (EDecide 5 5 ST_REJECTED); HMsg (EDecide 6 5 ST_REJECTED);
    HBegin 1700000030 ].
Definition rt_w : eworld := snd (k_run os_ex_kw0 rt_hist).
Definition rt_ws : esworld := snd (s_run os_ex_sw0 rt_hist).

Lemma rt_hist_side : hist_side os_ex_dom os_ex_kw0 rt_hist.
Proof.
  unfold rt_hist.
  repeat first [ (eapply hist_side_cons_ok; [os_ex_side | vm_compute; reflexivity |])
               | (eapply hist_side_cons_err; [os_ex_side | vm_compute; reflexivity | reflexivity |]) ].
  exact I.
Qed.

Lemma rt_mhist_side : mhist_side os_ex_kw0 rt_hist.
Proof.
  unfold rt_hist.
  repeat first [ (eapply mhist_side_cons_ok; [os_ex_mside | vm_compute; reflexivity |])
               | (eapply mhist_side_cons_err; [os_ex_mside | vm_compute; reflexivity | reflexivity |]) ].
  exact I.
Qed.

(* the document the byte store exports: five orders in four statuses (1, 2 completed; 3 accepted - queued; 4 raised -
   queued; 5 rejected), two locked entries, one spent entry, two whitelisted accounts, the two totals, counter 6 *)
Definition rt_dec (signer d t : Z) : go_PurchaseOrderDecision := mk_go_PurchaseOrderDecision signer d t.
Definition rt_doc : go_GenesisState :=
  mk_go_GenesisState os_ex_params 6
    [ mk_go_EnterpriseUndPurchaseOrder 1 7 (NUND, 500) 4 1700000000 1700000010 [rt_dec 5 2 1700000000; rt_dec 6 2 1700000000];
      mk_go_EnterpriseUndPurchaseOrder 2 9 (NUND, 300) 4 1700000000 1700000010 [rt_dec 5 2 1700000000; rt_dec 6 2 1700000000];
      mk_go_EnterpriseUndPurchaseOrder 3 7 (NUND, 200) 2 1700000020 1700000030 [rt_dec 5 2 1700000020; rt_dec 6 2 1700000020];
      mk_go_EnterpriseUndPurchaseOrder 4 9 (NUND, 100) 1 1700000020 0 [];
      mk_go_EnterpriseUndPurchaseOrder 5 7 (NUND, 50) 3 1700000020 1700000030 [rt_dec 5 3 1700000020; rt_dec 6 3 1700000020] ]
    [mk_go_LockedUnd 7 (NUND, 470); mk_go_LockedUnd 9 (NUND, 300)] (NUND, 770) [7; 9]
    [mk_go_SpentEFUND 7 (NUND, 30)] (NUND, 30).

(* by computation: the export; the import of it into [] under another clock gives back the very bytes; exporting those
   gives the document again; the module account must hold the recorded total (770): over the genesis bank the same
   import panics *)
Example os_ent_roundtrip_ex :
  List.length (esw_store rt_ws) = 16%nat /\
  balance (esw_bank rt_ws) ENT_MACC NUND = 770 /\
  S.go_ExportGenesis rt_ws = Ok rt_doc /\
  S.go_InitGenesis (xesw0 1800000000 (esw_bank rt_ws) []) rt_doc = Ok (xesw0 1800000000 (esw_bank rt_ws) (esw_store rt_ws), tt) /\
  S.go_ExportGenesis (xesw0 1800000000 (esw_bank rt_ws) (esw_store rt_ws)) = Ok rt_doc /\
  S.go_InitGenesis (xesw0 1800000000 os_ex_bank []) rt_doc = Panic enterprise_PANIC.
Proof.
  split; [vm_compute; reflexivity|]. split; [vm_compute; reflexivity|]. split; [vm_compute; reflexivity|].
  split; [vm_compute; reflexivity|]. split; vm_compute; reflexivity.
Qed.

(* through the theorems: the hypotheses of the round trip hold of the two worlds the history leaves - related by the
   simulation of the run, the invariant of the module by its preservation along the run - and its conclusions are the
   computed ones *)
Example os_ent_roundtrip_ex_hyps :
  Rwi os_ex_dom os_ex_emb os_ex_unemb rt_w rt_ws /\
  (exists n, ent_inv {| w_bank := ew_bank rt_w; w_ent := ew_ent rt_w; w_now := n |}) /\
  bank_wf (ew_bank rt_w) /\ ent_key_ordered os_ex_emb (ew_ent rt_w) /\
  ent_params_range (params_to_go (e_params (ew_ent rt_w))) /\ totals_recorded (ew_ent rt_w).
Proof.
  split; [exact (proj2 (sim_run os_ex_dom os_ex_emb os_ex_unemb os_ex_hyps rt_hist os_ex_kw0 os_ex_sw0 os_ex_Rwi0 rt_hist_side))|].
  split; [apply kinv_ent_inv; apply (k_run_kinv rt_hist os_ex_kw0); [exists os_ex_mw0; split; [reflexivity | exact os_ex_inv0] | exact rt_mhist_side]|].
  split; [unfold bank_wf; vm_compute; os_ex_nodup|].
  split; [vm_compute; repeat constructor|].
  split; [vm_compute; repeat split; intros X; discriminate X|].
  split; vm_compute; intros X; discriminate X.
Qed.

Example os_ent_roundtrip_ex_by_theorem :
  exists d s',
    S.go_ExportGenesis rt_ws = Ok d /\ d = rt_doc /\
    S.go_InitGenesis (xesw0 1800000000 (esw_bank rt_ws) []) d = Ok (xesw0 1800000000 (esw_bank rt_ws) s', tt) /\
    xRent s' (ew_ent rt_w) /\ s' = esw_store rt_ws /\
    S.go_ExportGenesis (xesw0 1800000000 (esw_bank rt_ws) s') = Ok d.
Proof.
  destruct os_ent_roundtrip_ex_hyps as (HR & [n I] & Wf & HO & Hpr & T).
  destruct (os_export_import_roundtrip os_ex_dom os_ex_emb os_ex_unemb os_ex_hyps rt_w rt_ws n 1800000000 HR I Wf HO Hpr)
    as (d & s' & Ed & _ & Ei & _ & Hs).
  destruct (Hs T) as [R' Es].
  destruct (os_export_import_export os_ex_dom os_ex_emb os_ex_unemb os_ex_hyps rt_w rt_ws n 1800000000 HR I Wf HO Hpr)
    as (d2 & s2 & Ed2 & Ei2 & Ee2).
  assert (d2 = d) by (rewrite Ed in Ed2; apply (f_equal (fun o => match o with Ok x => x | _ => d end)) in Ed2; symmetry; exact Ed2).
  subst d2.
  assert (s2 = s').
  { rewrite Ei in Ei2. apply (f_equal (fun o : outcome (esworld * unit) => match o with Ok (x, _) => esw_store x | _ => s' end)) in Ei2.
    symmetry. exact Ei2. }
  subst s2.
  exists d, s'. split; [exact Ed|].
  split; [destruct os_ent_roundtrip_ex as (_ & _ & E & _); rewrite E in Ed;
          apply (f_equal (fun o => match o with Ok x => x | _ => d end)) in Ed; symmetry; exact Ed|].
  split; [exact Ei|]. split; [exact R'|]. split; [exact Es | exact Ee2].
Qed.

(* ---- key order: a hypothesis of the round trip theorem because it goes through the first rendering's export (the two
   exports differ without it).  It is not what makes the bytes come back: on the worlds of
   proofs/GeneratedEnterpriseGenesisOnStoreEq.v (whitelist and locked entries listed AGAINST the byte order of the
   addresses) the on-store export, imported into [], gives the exported bytes again.  The general statement without
   [ent_key_ordered] is not proved ---- *)
Example os_roundtrip_unordered_ex :
  Rwi os_ex_dom os_ex_emb os_ex_unemb exg_kw1 exg_sw1 /\ ~ ent_key_ordered os_ex_emb (ew_ent exg_kw1) /\
  S.go_ExportGenesis exg_sw1 = Ok exg_doc1 /\
  S.go_InitGenesis (xesw0 77 exg_bank []) exg_doc1 = Ok (xesw0 77 exg_bank (esw_store exg_sw1), tt).
Proof.
  destruct os_ent_genesis_ex_by_theorem as (H1 & H2 & _). destruct os_ent_genesis_ex as (_ & _ & _ & E & _).
  split; [exact H1|]. split; [exact H2|]. split; [exact E|]. vm_compute. reflexivity.
Qed.

(* ---- the vocabulary, spelled out (for props/C15onstoreenterprise.v) ---- *)
Lemma rt_defs : rt_w = snd (k_run os_ex_kw0 rt_hist) /\ rt_ws = snd (s_run os_ex_sw0 rt_hist).
Proof. split; reflexivity. Qed.

Lemma doc_side_blank_spelled (dom : addr -> Prop) d :
  doc_side dom blank_state d <->
  (ent_params_range (GenesisState_Params d) /\ denom_ok (GenesisState_Params d) /\
   0 <= GenesisState_StartingPurchaseOrderId d < 2 ^ 64 /\
   Forall (fun a => addr_parses a = true -> dom a) (GenesisState_Whitelist d) /\ NoDup (GenesisState_Whitelist d) /\
   Forall (fun po => 0 <= EnterpriseUndPurchaseOrder_Id po < 2 ^ 64 /\
                     (addr_parses (EnterpriseUndPurchaseOrder_Purchaser po) = true -> dom (EnterpriseUndPurchaseOrder_Purchaser po)))
          (GenesisState_PurchaseOrders d) /\
   StronglySorted Z.lt (raised_ids (GenesisState_PurchaseOrders d)) /\
   (forall r, In r (raised_ids (GenesisState_PurchaseOrders d)) -> r < GenesisState_StartingPurchaseOrderId d) /\
   StronglySorted Z.lt (accepted_ids (GenesisState_PurchaseOrders d)) /\
   Forall (fun l => dom (LockedUnd_Owner l)) (GenesisState_LockedUnd d) /\
   Forall (fun l => dom (SpentEFUND_Owner l)) (GenesisState_SpentEfund d)).
Proof.
  unfold doc_side. cbn [blank_state init_state e_raisedq e_acceptedq e_wl]. split.
  - intros (H1 & H2 & H3 & _ & H5 & H6 & _ & H8 & H9 & _ & H11 & H12 & _ & H14 & H15).
    exact (conj H1 (conj H2 (conj H3 (conj H5 (conj H6 (conj H8 (conj H9 (conj H11 (conj H12 (conj H14 H15)))))))))).
  - intros (H1 & H2 & H3 & H5 & H6 & H8 & H9 & H11 & H12 & H14 & H15).
    split; [exact H1|]. split; [exact H2|]. split; [exact H3|]. split; [intros y []|]. split; [exact H5|]. split; [exact H6|].
    split; [intros a _; reflexivity|]. split; [exact H8|]. split; [exact H9|]. split; [intros y r []|]. split; [exact H11|].
    split; [exact H12|]. split; [intros y r []|]. split; [exact H14 | exact H15].
Qed.

Lemma genesis_checks_spelled :
  (forall a, G.wl_ok a <-> (a <> BAD_ADDR /\ a <> EMPTY_ADDR)) /\
  (forall g, G.po_status_ok g <-> 1 <= EnterpriseUndPurchaseOrder_Status g <= 4) /\
  (forall l, G.locked_ok l <-> 0 <= snd (LockedUnd_Amount l)) /\
  (forall b, G.escrow_nonneg b <-> (forall d v, In ((ENT_MACC, d), v) (bal b) -> 0 <= v)) /\
  (forall st, totals_recorded st <-> (e_totlocked st <> None /\ e_totspent st <> None)) /\
  (forall emb unemb now b s, esw0 emb unemb now b s = mk_esworld emb unemb now b s).
Proof. do 5 (split; [intros x; apply iff_refl|]). intros; reflexivity. Qed.

Print Assumptions os_InitGenesis_empty_head.
Print Assumptions os_InitGenesis_empty_sim.
Print Assumptions os_InitGenesis_empty.
Print Assumptions os_InitGenesis_empty_ok.
Print Assumptions os_InitGenesis_empty_none.
Print Assumptions os_InitGenesis_empty_invalid_sim.
Print Assumptions Rent_store_unique.
Print Assumptions os_export_import_roundtrip.
Print Assumptions os_export_import_export.
Print Assumptions Rent_store_unique_zero_params_refuted.
Print Assumptions os_InitGenesis_empty_invalid_refuted.
Print Assumptions os_roundtrip_totals_refuted.
Print Assumptions os_roundtrip_unordered_ex.
Print Assumptions os_ent_roundtrip_ex.
Print Assumptions os_ent_roundtrip_ex_hyps.
Print Assumptions os_ent_roundtrip_ex_by_theorem.
