(* The fee check of the WRKChain ante decorator generated from /repo/x/wrkchain/exported/exported.go (go_CheckIsWrkChainTx)
   and /repo/x/wrkchain/ante/ante.go (go_checkWrkchainFees), both in GeneratedWrkchainKeeper.v and re-generated on every
   run, against the hand-written model of the decorator (model/App.v, Section RegAnte: own_msgs, check_fees), read
   through the vocabulary of model/WrkchainAnteGenSpec.v (anymsg_of, gotx_of).

   Structure (so that the proofs survive a harmless re-generation; no generated temporary is ever named):
     part 1  `for .. range` loops: unfolding lemmas of [go_range], extensionality and map (by induction, no axiom), and
             the two simple shapes the decorator uses - a loop that only raises a flag ([go_range_flag]) and a loop that
             returns at the first hit ([go_range_first]).  Loop bodies are picked from the goal;
     part 2  facts about the primitives (int64 conversion, NewCoin, Coin.Add, the fee getters, AmountOf);
     part 3  CheckIsWrkChainTx;
     part 4  the message loop of checkWrkchainFees: one hand-written step [ante_step] (primitives only) that the
             generated body equals on every model message; its three behaviours;
     part 5  checkWrkchainFees = check_fees; the 2^63 purchase; the transported C06 statement; a total statement;
     part 6  examples showing that the hypotheses cannot be dropped (two of them are findings about the model). *)
From Coq Require Import ZifyBool.
From MC Require Import lib.Prelude lib.AMap lib.GoSdk GeneratedWrkchainTypes model.Bank model.Registry model.Enterprise
  model.App model.AppSpec model.WrkchainKeeperPrims GeneratedWrkchainKeeper model.WrkchainGenSpec
  model.WrkchainAnteGenSpec.
From MC Require Import proofs.AppFeeProofs.
Local Open Scope Z_scope.

(* ================================================================= *)
(* 1. loops                                                           *)
(* ================================================================= *)

Lemma go_range_nil {A S R} (f : A -> S -> outcome (loop_res S R)) s : go_range f [] s = Ok (LCont s).
Proof. reflexivity. Qed.

Lemma go_range_cons {A S R} (f : A -> S -> outcome (loop_res S R)) x l s :
  go_range f (x :: l) s =
    (do res <- f x s; match res with LCont s' => go_range f l s' | LRet v => Ok (LRet v) end).
Proof. reflexivity. Qed.

Lemma go_range_ext {A S R} (f g : A -> S -> outcome (loop_res S R)) :
  (forall x s, f x s = g x s) -> forall l s, go_range f l s = go_range g l s.
Proof.
  intros E l. induction l as [|x l IH]; intros s; [reflexivity|].
  rewrite !go_range_cons, E. destruct (g x s) as [[s'|v]| |]; cbn [obind]; [apply IH | reflexivity ..].
Qed.

Lemma go_range_map {A B S R} (g : A -> B) (f : B -> S -> outcome (loop_res S R)) l s :
  go_range f (map g l) s = go_range (fun x => f (g x)) l s.
Proof.
  revert s. induction l as [|x l IH]; intros s; [reflexivity|].
  cbn [map]. rewrite !go_range_cons. destruct (f (g x) s) as [[s'|v]| |]; cbn [obind]; [apply IH | reflexivity ..].
Qed.

(* a loop that only raises a flag *)
Lemma go_range_flag {A R} (body : A -> bool -> outcome (loop_res bool R)) (p : A -> bool) :
  (forall x s, body x s = Ok (LCont (p x || s))) ->
  forall l s, go_range body l s = Ok (LCont (existsb p l || s)).
Proof.
  intros E l. induction l as [|x l IH]; intros s; [reflexivity|].
  rewrite go_range_cons, E. cbn [obind existsb]. rewrite IH.
  destruct (p x), (existsb p l), s; reflexivity.
Qed.

(* a loop without state that returns a fixed value at the first element satisfying a test *)
Lemma go_range_first {A R} (body : A -> unit -> outcome (loop_res unit R)) (p : A -> bool) (v : R) :
  (forall x s, body x s = if p x then Ok (LRet v) else Ok (LCont tt)) ->
  forall l s, go_range body l s = if existsb p l then Ok (LRet v) else Ok (LCont tt).
Proof.
  intros E l. induction l as [|x l IH]; intros []; [reflexivity|].
  rewrite go_range_cons, E. cbn [existsb]. destruct (p x); cbn [obind orb]; [reflexivity|apply IH].
Qed.

#[local] Arguments go_range : simpl never.

(* ================================================================= *)
(* 2. primitives                                                      *)
(* ================================================================= *)

Lemma i64_of_small x : 0 <= x < two63 -> i64_of x = x.
Proof. unfold i64_of, two63, two64. intros H. rewrite Z.mod_small; lia. Qed.

Lemma i64_of_big x : two63 <= x < two64 -> i64_of x = x - two64.
Proof.
  unfold i64_of, two63, two64. intros H.
  replace (x + 9223372036854775808) with ((x - 9223372036854775808) + 1 * 18446744073709551616) by lia.
  rewrite Z.mod_add by lia. rewrite Z.mod_small; lia.
Qed.

Lemma NewCoin_nonneg d a : 0 <= a -> sdk_NewCoin d a = Ok (d, a).
Proof. intros H. unfold sdk_NewCoin. destruct (a <? 0) eqn:E; [lia|reflexivity]. Qed.

Lemma NewCoin_neg d a : a < 0 -> sdk_NewCoin d a = Panic GO_PANIC_NEGCOIN.
Proof. intros H. unfold sdk_NewCoin. destruct (a <? 0) eqn:E; [reflexivity|lia]. Qed.

Lemma Coin_Add_same d a b : Coin_Add (d, a) (d, b) = Ok (d, a + b).
Proof. unfold Coin_Add. cbn [fst snd]. rewrite Z.eqb_refl. reflexivity. Qed.

Lemma GetZeroFee_ok w : reg_GetZeroFeeAsCoin w = Ok (reg_GetParamDenom w, 0).
Proof. reflexivity. Qed.

(* int64(fee) of a fee below 2^63 is the fee *)
Lemma fee_coin_ok d f : 0 <= f < two63 -> sdk_NewCoin d (go_int64_of_uint64 f) = Ok (d, f).
Proof. intros H. unfold go_int64_of_uint64. rewrite i64_of_small by exact H. apply NewCoin_nonneg. lia. Qed.

(* int64(fee) of a fee in [2^63, 2^64) is negative: NewInt64Coin panics *)
Lemma fee_coin_panics d f : two63 <= f < two64 -> sdk_NewCoin d (go_int64_of_uint64 f) = Panic GO_PANIC_NEGCOIN.
Proof. intros H. unfold go_int64_of_uint64. rewrite i64_of_big by exact H. apply NewCoin_neg. lia. Qed.

(* fee.AmountOf(d) is the model's amount offered in d *)
Lemma AmountOf_is_fee_amount_of fee d : Coins_AmountOf fee d = fee_amount_of fee d.
Proof.
  unfold Coins_AmountOf, fee_amount_of. induction fee as [|c r IH]; cbn [fold_right map sumZ]; [reflexivity|].
  rewrite IH. unfold go_coin, go_denom, coin, denom in *. destruct (fst c =? d); lia.
Qed.

(* ================================================================= *)
(* 3. CheckIsWrkChainTx                                               *)
(* ================================================================= *)

Definition picked (pick : msg -> option reg_msg) (m : msg) : bool :=
  match pick m with Some _ => true | None => false end.

Lemma has_own_existsb pick t :
  negb (Nat.eqb (List.length (own_msgs pick t)) 0) = existsb (picked pick) (tx_msgs t).
Proof.
  rewrite own_msgs_own_of. unfold picked.
  induction (tx_msgs t) as [|m ms IH]; cbn [own_of existsb]; [reflexivity|].
  destruct (pick m); [reflexivity|exact IH].
Qed.

(* splitting a model message the way the type switch does *)
Ltac split_msg m :=
  destruct m; try reflexivity;
  match goal with r : reg_msg |- _ => destruct r; reflexivity end.

Theorem gen_wrk_CheckIsWrkChainTx_eq : forall t,
  go_CheckIsWrkChainTx (gotx_of t) = Ok (negb (Nat.eqb (List.length (own_msgs pick_wrk t)) 0)).
Proof.
  intros t. rewrite has_own_existsb. unfold go_CheckIsWrkChainTx. cbv zeta. cbn [gotx_of Tx_Msgs].
  rewrite go_range_map.
  match goal with |- context [go_range ?b _ _] =>
    rewrite (go_range_first b (picked pick_wrk) true) by (intros m []; split_msg m)
  end.
  destruct (existsb _ _); reflexivity.
Qed.

Theorem gen_wrk_CheckIsWrkChainTx_has_wrk : forall t, go_CheckIsWrkChainTx (gotx_of t) = Ok (has_wrk t).
Proof. exact gen_wrk_CheckIsWrkChainTx_eq. Qed.

(* the decorator looks at exactly the transactions with a top-level WRKChain message *)
Corollary gen_wrk_CheckIsWrkChainTx_In : forall t,
  go_CheckIsWrkChainTx (gotx_of t) = Ok true <-> exists r, In (MWrk r) (tx_msgs t).
Proof.
  intros t. rewrite gen_wrk_CheckIsWrkChainTx_eq, has_own_existsb. split.
  - intros H. injection H as H. apply existsb_exists in H as (m & I & P).
    destruct m; try discriminate P. eexists; exact I.
  - intros (r & I). f_equal. apply existsb_exists. exists (MWrk r). split; [exact I|reflexivity].
Qed.

(* ================================================================= *)
(* 4. the message loop of checkWrkchainFees                           *)
(* ================================================================= *)

(* one iteration, written over the primitives only; [r] is the module's own message, if the sdk.Msg is one *)
Definition ante_step (w : rworld) (r : option reg_msg) (st : go_coin * Z) : outcome (loop_res (go_coin * Z) unit) :=
  let '(expected, num) := st in
  match r with
  | Some (RRegister _ _ _ _ _) =>
      do c <- reg_GetRegistrationFeeAsCoin w;
      do s <- Coin_Add expected c;
      Ok (LCont (s, i64_add num 1))
  | Some (RRecord _ _ _ _) =>
      do c <- reg_GetRecordFeeAsCoin w;
      do s <- Coin_Add expected c;
      Ok (LCont (s, i64_add num 1))
  | Some (RPurchase _ _ n) =>
      do per <- reg_GetPurchaseStorageFeeAsCoin w;
      do c <- sdk_NewCoin (Coin_Denom per) (Int_Mul (Coin_Amount per) (sdk_NewInt (go_int64_of_uint64 n)));
      do s <- Coin_Add expected c;
      Ok (LCont (s, i64_add num 1))
  | None => Ok (LCont (expected, num))
  end.

(* the three fee parameters fit an int64 *)
Definition fees_fit (p : reg_params) : Prop :=
  0 <= rp_fee_register p < two63 /\ 0 <= rp_fee_record p < two63 /\ 0 <= rp_fee_purchase p < two63.

Section Step.
  Variable pick : msg -> option reg_msg.
  Variable w : rworld.
  Let p := r_params (rw_reg w).
  Let d := reg_GetParamDenom w.

  Lemma GetRegistrationFee_ok : 0 <= rp_fee_register p < two63 ->
    reg_GetRegistrationFeeAsCoin w = Ok (d, rp_fee_register p).
  Proof. intros H. unfold reg_GetRegistrationFeeAsCoin. apply fee_coin_ok. exact H. Qed.
  Lemma GetRecordFee_ok : 0 <= rp_fee_record p < two63 ->
    reg_GetRecordFeeAsCoin w = Ok (d, rp_fee_record p).
  Proof. intros H. unfold reg_GetRecordFeeAsCoin. apply fee_coin_ok. exact H. Qed.
  Lemma GetPurchaseFee_ok : 0 <= rp_fee_purchase p < two63 ->
    reg_GetPurchaseStorageFeeAsCoin w = Ok (d, rp_fee_purchase p).
  Proof. intros H. unfold reg_GetPurchaseStorageFeeAsCoin. apply fee_coin_ok. exact H. Qed.

  (* the product the purchase case hands to NewCoin *)
  Lemma purchase_amount f n :
    Int_Mul (Coin_Amount (d, f)) (sdk_NewInt (go_int64_of_uint64 n)) = f * i64_of n.
  Proof. reflexivity. Qed.

  (* a message that is not a purchase of 2^63 slots or more adds the model's fee for it *)
  Lemma ante_step_small r a k :
    fees_fit p -> (forall o id n, r = Some (RPurchase o id n) -> 0 <= n < two63) ->
    ante_step w r ((d, a), k) =
    Ok (LCont ((d, a + match r with Some x => reg_fee_of p x | None => 0 end),
               match r with Some _ => i64_add k 1 | None => k end)).
  Proof.
    intros (F1 & F2 & F3) Hn. unfold ante_step. destruct r as [[o mo na ge ty|o id key hs|o id n]|]; cbn [reg_fee_of].
    - rewrite GetRegistrationFee_ok by exact F1. cbn [obind]. rewrite Coin_Add_same. reflexivity.
    - rewrite GetRecordFee_ok by exact F2. cbn [obind]. rewrite Coin_Add_same. reflexivity.
    - specialize (Hn o id n eq_refl).
      rewrite GetPurchaseFee_ok by exact F3. cbn [obind]. rewrite purchase_amount. unfold Coin_Denom. cbn [fst].
      rewrite i64_of_small by exact Hn. rewrite NewCoin_nonneg by nia. cbn [obind]. rewrite Coin_Add_same. reflexivity.
    - rewrite Z.add_0_r. reflexivity.
  Qed.

  (* a purchase of 2^63 <= n < 2^64 slots: int64(n) is negative, the product is negative, NewCoin panics *)
  Lemma ante_step_huge o id n a k :
    0 < rp_fee_purchase p < two63 -> two63 <= n < two64 ->
    ante_step w (Some (RPurchase o id n)) ((d, a), k) = Panic GO_PANIC_NEGCOIN.
  Proof.
    intros F N. unfold ante_step. rewrite GetPurchaseFee_ok by lia. cbn [obind]. rewrite purchase_amount.
    rewrite i64_of_big by exact N. rewrite NewCoin_neg; [reflexivity|]. unfold two63, two64 in *. nia.
  Qed.

  (* whatever the message: the loop goes on with a coin of the module's denomination, or NewCoin panicked *)
  Lemma ante_step_cases r a k :
    fees_fit p ->
    (exists a' k', ante_step w r ((d, a), k) = Ok (LCont ((d, a'), k'))) \/
    ante_step w r ((d, a), k) = Panic GO_PANIC_NEGCOIN.
  Proof.
    intros (F1 & F2 & F3). unfold ante_step. destruct r as [[o mo na ge ty|o id key hs|o id n]|].
    - left. rewrite GetRegistrationFee_ok by exact F1. cbn [obind]. rewrite Coin_Add_same. do 2 eexists; reflexivity.
    - left. rewrite GetRecordFee_ok by exact F2. cbn [obind]. rewrite Coin_Add_same. do 2 eexists; reflexivity.
    - rewrite GetPurchaseFee_ok by exact F3. cbn [obind]. rewrite purchase_amount. unfold Coin_Denom. cbn [fst].
      destruct (Z_lt_ge_dec (rp_fee_purchase p * i64_of n) 0) as [L|G].
      + right. rewrite NewCoin_neg by exact L. reflexivity.
      + left. rewrite NewCoin_nonneg by lia. cbn [obind]. rewrite Coin_Add_same. do 2 eexists; reflexivity.
    - left. do 2 eexists; reflexivity.
  Qed.

  (* the whole loop without a purchase of 2^63 or more: the model's sum is added to the running coin *)
  Lemma fee_loop_small ms :
    fees_fit p -> (forall m o id n, In m ms -> pick m = Some (RPurchase o id n) -> 0 <= n < two63) ->
    forall a k, exists k',
      go_range (fun m => ante_step w (pick m)) ms ((d, a), k) = Ok (LCont ((d, a + fee_sum pick p ms), k')).
  Proof.
    intros F. induction ms as [|m ms IH]; intros Hn a k.
    - exists k. rewrite go_range_nil. cbn [fee_sum]. rewrite Z.add_0_r. reflexivity.
    - rewrite go_range_cons.
      rewrite ante_step_small; [|exact F|intros o id n E; apply (Hn m o id n); [left; reflexivity|exact E]].
      cbn [obind].
      destruct (IH (fun m' o id n I => Hn m' o id n (or_intror I))
                   (a + match pick m with Some x => reg_fee_of p x | None => 0 end)
                   (match pick m with Some _ => i64_add k 1 | None => k end)) as (k' & E).
      exists k'. rewrite E. cbn [fee_sum]. do 3 f_equal. apply (f_equal (pair d)).
      destruct (pick m) as [[| |]|]; cbn [reg_fee_of]; lia.
  Qed.

  (* the whole loop with a purchase of 2^63 <= n < 2^64 somewhere: it panics, whatever the other messages are *)
  Lemma fee_loop_huge ms m o id n :
    fees_fit p -> 0 < rp_fee_purchase p -> In m ms -> pick m = Some (RPurchase o id n) -> two63 <= n < two64 ->
    forall a k, go_range (fun m => ante_step w (pick m)) ms ((d, a), k) = Panic GO_PANIC_NEGCOIN.
  Proof.
    intros F Fp I P N. induction ms as [|x ms IH]; [destruct I|]. intros a k. rewrite go_range_cons.
    destruct (ante_step_cases (pick x) a k F) as [(a' & k' & E)|E].
    - destruct I as [->|I].
      + rewrite P, ante_step_huge in E; [discriminate E| |exact N]. destruct F as (_ & _ & F3). lia.
      + rewrite E. cbn [obind]. apply IH. exact I.
    - rewrite E. reflexivity.
  Qed.
End Step.

(* ================================================================= *)
(* 5. checkWrkchainFees                                               *)
(* ================================================================= *)

(* the generated function, with its two loops replaced by what part 1 and part 4 say about them: the only place
   where the generated text is walked *)
Lemma gen_wrk_checkFees_unfold w t :
  go_checkWrkchainFees w (gotx_of t) =
  if negb (existsb (fun c => fst c =? reg_GetParamDenom w) (tx_fee t)) then Err exported_ErrIncorrectFeeDenomination
  else
    do res <- go_range (fun m => ante_step w (pick_wrk m)) (tx_msgs t) ((reg_GetParamDenom w, 0), 0);
    match res with
    | LRet r => Ok r
    | LCont (expected, _) =>
        let sent := Coins_AmountOf (tx_fee t) (reg_GetParamDenom w) in
        if Int_LT sent (Coin_Amount expected) then Err exported_ErrInsufficientWrkChainFee
        else if Int_GT sent (Coin_Amount expected) then Err exported_ErrTooMuchWrkChainFee
        else Ok tt
    end.
Proof.
  unfold go_checkWrkchainFees. cbv zeta. cbn [gotx_of Tx_Msgs Tx_Fee].
  rewrite GetZeroFee_ok. cbn [obind].
  match goal with |- context [go_range ?b (tx_fee t) _] =>
    rewrite (go_range_flag b (fun c => fst c =? reg_GetParamDenom w))
      by (intros c fl; unfold Coin_Denom; destruct (fst c =? reg_GetParamDenom w); reflexivity)
  end.
  cbn [obind]. rewrite orb_false_r.
  destruct (negb _); [reflexivity|].
  rewrite go_range_map.
  match goal with |- context [go_range ?b (tx_msgs t) _] =>
    rewrite (go_range_ext b (fun m => ante_step w (pick_wrk m))) by (intros m [ef n]; split_msg m)
  end.
  destruct (go_range _ _ _) as [[[ef n]|r]| |]; reflexivity.
Qed.

Lemma no_denom_both w t :
  existsb (fun c => fst c =? reg_GetParamDenom w) (tx_fee t) = false ->
  go_checkWrkchainFees w (gotx_of t) = Err exported_ErrIncorrectFeeDenomination.
Proof. intros H. rewrite gen_wrk_checkFees_unfold, H. reflexivity. Qed.

(* the model's test for a purchase of 2^63 or more, in terms of the messages *)
Lemma huge_test_false pick t :
  (forall m o id n, In m (tx_msgs t) -> pick m = Some (RPurchase o id n) -> n < two63) ->
  existsb (fun r => match r with RPurchase _ _ n => two63 <=? n | _ => false end) (own_msgs pick t) = false.
Proof.
  intros H. rewrite own_msgs_own_of. induction (tx_msgs t) as [|m ms IH]; cbn [own_of]; [reflexivity|].
  assert (IH' := IH (fun m' o id n I => H m' o id n (or_intror I))).
  destruct (pick m) as [r|] eqn:P; [|exact IH']. cbn [existsb]. rewrite IH', orb_false_r.
  destruct r as [| |o id n]; try reflexivity. specialize (H m o id n (or_introl eq_refl) P). lia.
Qed.

Lemma huge_test_true pick t :
  existsb (fun r => match r with RPurchase _ _ n => two63 <=? n | _ => false end) (own_msgs pick t) = true ->
  exists m o id n, In m (tx_msgs t) /\ pick m = Some (RPurchase o id n) /\ two63 <= n.
Proof.
  rewrite own_msgs_own_of. induction (tx_msgs t) as [|m ms IH]; cbn [own_of]; [discriminate|].
  destruct (pick m) as [r|] eqn:P.
  - cbn [existsb]. intros H. apply orb_true_iff in H as [H|H].
    + destruct r as [| |o id n]; try discriminate H. exists m, o, id, n. split; [left; reflexivity|]. split; [exact P|lia].
    + destruct (IH H) as (m' & o & id & n & I & Q). exists m', o, id, n. split; [right; exact I|exact Q].
  - intros H. destruct (IH H) as (m' & o & id & n & I & Q). exists m', o, id, n. split; [right; exact I|exact Q].
Qed.

Lemma pick_wrk_inv m r : pick_wrk m = Some r -> m = MWrk r.
Proof. destruct m; cbn; intros H; try discriminate H. injection H as ->. reflexivity. Qed.

(* ---- the main equality ---- *)
Theorem gen_wrk_checkFees_eq : forall now wall rs t,
  fees_fit (r_params rs) ->
  (forall o id n, In (MWrk (RPurchase o id n)) (tx_msgs t) -> 0 <= n < two63) ->
  go_checkWrkchainFees (mk_rworld now wall rs) (gotx_of t) = check_fees pick_wrk rs t.
Proof.
  intros now wall rs t F Hn. rewrite gen_wrk_checkFees_unfold. unfold check_fees.
  set (w := mk_rworld now wall rs).
  change (reg_GetParamDenom w) with (rp_denom (r_params rs)).
  destruct (negb _); [reflexivity|].
  assert (Hn' : forall m o id n, In m (tx_msgs t) -> pick_wrk m = Some (RPurchase o id n) -> 0 <= n < two63).
  { intros m o id n I P. apply pick_wrk_inv in P. subst m. eapply Hn; exact I. }
  rewrite huge_test_false by (intros m o id n I P; apply (Hn' m o id n I P)).
  destruct (fee_loop_small pick_wrk w (tx_msgs t) F Hn' 0 0) as (k' & E).
  change (reg_GetParamDenom w) with (rp_denom (r_params rs)) in E. rewrite E. cbn [obind].
  change (sumZ (map (reg_fee_of (r_params rs)) (own_msgs pick_wrk t))) with (expected_fee pick_wrk rs t).
  rewrite expected_fee_is_sum, AmountOf_is_fee_amount_of. cbv zeta.
  unfold Int_LT, Int_GT, Coin_Amount. cbn [snd]. rewrite Z.add_0_l.
  change (r_params (rw_reg w)) with (r_params rs). reflexivity.
Qed.

(* the same with the model's own test as the hypothesis on purchases (plus the field being a uint64 count) *)
Corollary gen_wrk_checkFees_eq_test : forall now wall rs t,
  fees_fit (r_params rs) ->
  (forall o id n, In (MWrk (RPurchase o id n)) (tx_msgs t) -> 0 <= n) ->
  existsb (fun r => match r with RPurchase _ _ n => two63 <=? n | _ => false end) (own_msgs pick_wrk t) = false ->
  go_checkWrkchainFees (mk_rworld now wall rs) (gotx_of t) = check_fees pick_wrk rs t.
Proof.
  intros now wall rs t F H0 X. apply gen_wrk_checkFees_eq; [exact F|]. intros o id n I. split; [eapply H0; exact I|].
  destruct (Z_lt_ge_dec n two63) as [L|G]; [exact L|exfalso].
  assert (Y : existsb (fun r => match r with RPurchase _ _ n => two63 <=? n | _ => false end)
                      (own_msgs pick_wrk t) = true).
  { apply existsb_exists. exists (RPurchase o id n). split; [|lia].
    rewrite own_msgs_own_of. eapply own_of_In; [exact I|reflexivity]. }
  congruence.
Qed.

(* ---- without the module's denomination in the fee both refuse with the same error, whatever the rest ---- *)
Theorem gen_wrk_checkFees_no_denom : forall now wall rs t,
  existsb (fun c => fst c =? rp_denom (r_params rs)) (tx_fee t) = false ->
  go_checkWrkchainFees (mk_rworld now wall rs) (gotx_of t) = Err ERR_FEE_DENOM /\
  check_fees pick_wrk rs t = Err ERR_FEE_DENOM.
Proof.
  intros now wall rs t H. split; [apply no_denom_both; exact H|]. unfold check_fees. rewrite H. reflexivity.
Qed.

(* ---- a purchase of 2^63 <= n < 2^64 slots: both panic (Go: "negative coin amount" = GO_PANIC_NEGCOIN = 4 from
   sdk.NewCoin; the model names it PANIC_NEGFEE = 55), whatever else the transaction contains ---- *)
Theorem gen_wrk_checkFees_huge_purchase : forall now wall rs t o id n,
  fees_fit (r_params rs) -> 0 < rp_fee_purchase (r_params rs) ->
  In (MWrk (RPurchase o id n)) (tx_msgs t) -> two63 <= n < two64 ->
  existsb (fun c => fst c =? rp_denom (r_params rs)) (tx_fee t) = true ->
  go_checkWrkchainFees (mk_rworld now wall rs) (gotx_of t) = Panic GO_PANIC_NEGCOIN /\
  check_fees pick_wrk rs t = Panic PANIC_NEGFEE.
Proof.
  intros now wall rs t o id n F Fp I N D. split.
  - rewrite gen_wrk_checkFees_unfold.
    change (reg_GetParamDenom (mk_rworld now wall rs)) with (rp_denom (r_params rs)). rewrite D. cbn [negb].
    pose proof (fee_loop_huge pick_wrk (mk_rworld now wall rs) (tx_msgs t) _ o id n F Fp I eq_refl N 0 0) as E.
    change (reg_GetParamDenom (mk_rworld now wall rs)) with (rp_denom (r_params rs)) in E. rewrite E. reflexivity.
  - eapply overflow_slots_panics; [|apply (proj1 N)|exact D].
    rewrite own_msgs_own_of. eapply own_of_In; [exact I|reflexivity].
Qed.

Corollary gen_wrk_checkFees_huge_purchase_ex : forall now wall rs t o id n,
  fees_fit (r_params rs) -> 0 < rp_fee_purchase (r_params rs) ->
  In (MWrk (RPurchase o id n)) (tx_msgs t) -> two63 <= n < two64 ->
  existsb (fun c => fst c =? rp_denom (r_params rs)) (tx_fee t) = true ->
  (exists c, go_checkWrkchainFees (mk_rworld now wall rs) (gotx_of t) = Panic c) /\
  check_fees pick_wrk rs t = Panic PANIC_NEGFEE.
Proof.
  intros now wall rs t o id n F Fp I N D.
  destruct (gen_wrk_checkFees_huge_purchase now wall rs t o id n F Fp I N D) as (A & B). split; [eauto|exact B].
Qed.

Example panic_codes_differ : GO_PANIC_NEGCOIN <> PANIC_NEGFEE.
Proof. discriminate. Qed.

(* ---- for every transaction whose purchase counts are uint64 values: the generated check is the model's, the
   panic code apart ---- *)
Theorem gen_wrk_checkFees_total : forall now wall rs t,
  fees_fit (r_params rs) -> 0 < rp_fee_purchase (r_params rs) ->
  (forall o id n, In (MWrk (RPurchase o id n)) (tx_msgs t) -> 0 <= n < two64) ->
  go_checkWrkchainFees (mk_rworld now wall rs) (gotx_of t) =
  match check_fees pick_wrk rs t with Panic _ => Panic GO_PANIC_NEGCOIN | o => o end.
Proof.
  intros now wall rs t F Fp U.
  destruct (existsb (fun c => fst c =? rp_denom (r_params rs)) (tx_fee t)) eqn:D.
  2:{ destruct (gen_wrk_checkFees_no_denom now wall rs t D) as (A & B). rewrite A, B. reflexivity. }
  destruct (existsb (fun r => match r with RPurchase _ _ n => two63 <=? n | _ => false end) (own_msgs pick_wrk t)) eqn:X.
  - apply huge_test_true in X as (m & o & id & n & I & P & N). apply pick_wrk_inv in P. subst m.
    assert (N' : two63 <= n < two64) by (split; [exact N|apply (U o id n I)]).
    destruct (gen_wrk_checkFees_huge_purchase now wall rs t o id n F Fp I N' D) as (A & B). rewrite A, B. reflexivity.
  - rewrite gen_wrk_checkFees_eq_test; [|exact F|intros o id n I; apply (U o id n I)|exact X].
    unfold check_fees. rewrite D, X. cbn [negb]. cbv zeta.
    destruct (_ <? _); [reflexivity|]. destruct (_ <? _); reflexivity.
Qed.

(* ---- C06 transported: if the generated check accepts, the amount offered in the module's denomination is exactly
   the sum of the fees of the transaction's own messages (and the denomination is in the fee, and no purchase asks
   for 2^63 slots or more) ---- *)
Theorem gen_wrk_checkFees_exact : forall now wall rs t,
  fees_fit (r_params rs) -> 0 < rp_fee_purchase (r_params rs) ->
  (forall o id n, In (MWrk (RPurchase o id n)) (tx_msgs t) -> 0 <= n < two64) ->
  go_checkWrkchainFees (mk_rworld now wall rs) (gotx_of t) = Ok tt ->
  fee_amount_of (tx_fee t) (rp_denom (r_params rs)) = expected_fee pick_wrk rs t /\
  existsb (fun c => fst c =? rp_denom (r_params rs)) (tx_fee t) = true /\
  existsb (fun r => match r with RPurchase _ _ n => two63 <=? n | _ => false end) (own_msgs pick_wrk t) = false.
Proof.
  intros now wall rs t F Fp U H. apply check_fees_ok_inv.
  rewrite (gen_wrk_checkFees_total now wall rs t F Fp U) in H.
  destruct (check_fees pick_wrk rs t) as [[]|c|c]; [reflexivity|discriminate H|discriminate H].
Qed.

(* in closed form *)
Corollary gen_wrk_checkFees_exact_closed : forall now wall rs t,
  fees_fit (r_params rs) -> 0 < rp_fee_purchase (r_params rs) ->
  (forall o id n, In (MWrk (RPurchase o id n)) (tx_msgs t) -> 0 <= n < two64) ->
  go_checkWrkchainFees (mk_rworld now wall rs) (gotx_of t) = Ok tt ->
  fee_amount_of (tx_fee t) (rp_denom (r_params rs)) =
    rp_fee_register (r_params rs) * count_reg pick_wrk (tx_msgs t) +
    rp_fee_record (r_params rs) * count_rec pick_wrk (tx_msgs t) +
    rp_fee_purchase (r_params rs) * total_slots pick_wrk (tx_msgs t).
Proof.
  intros now wall rs t F Fp U H. destruct (gen_wrk_checkFees_exact now wall rs t F Fp U H) as (E & _).
  rewrite E, expected_fee_is_sum. apply fee_sum_closed.
Qed.

(* ================================================================= *)
(* 6. the hypotheses cannot be dropped                                *)
(* ================================================================= *)

Definition x_params (freg frec fpur : Z) : reg_params :=
  {| rp_fee_register := freg; rp_fee_record := frec; rp_fee_purchase := fpur; rp_denom := NUND;
     rp_default_limit := 100; rp_max_limit := 1000 |}.
Definition x_state (p : reg_params) : reg_state :=
  {| r_params := p; r_next := 1; r_regs := []; r_limits := []; r_recs := [] |}.
Definition x_tx (ms : list msg) (fee : list coin) : tx :=
  {| tx_msgs := ms; tx_fee := fee; tx_granter := None; tx_sig_ok := true |}.

(* FINDING (model and parameters).  Params.Validate only asks for a positive registration fee (a uint64).  With a
   fee parameter in [2^63, 2^64) the parameters are valid, yet int64(fee) is negative and NewInt64Coin panics in
   the fee getter: every transaction with such a message panics in the decorator, while the model's check_fees
   compares with the unconverted amount and accepts the transaction that pays it. *)
Example gen_wrk_checkFees_fee_param_refuted :
  let p := x_params two63 1 5 in
  let t := x_tx [MWrk (RRegister 1 "m" "n" "g" "t")] [(NUND, two63)] in
  reg_params_valid p = true /\
  go_checkWrkchainFees (mk_rworld 0 0 (x_state p)) (gotx_of t) = Panic GO_PANIC_NEGCOIN /\
  check_fees pick_wrk (x_state p) t = Ok tt.
Proof. vm_compute. repeat split; reflexivity. Qed.

Example gen_wrk_checkFees_record_fee_param_refuted :
  let p := x_params 1000 (two64 - 1) 5 in
  let t := x_tx [MWrk (RRecord 1 1 1 [])] [(NUND, two64 - 1)] in
  reg_params_valid p = true /\
  go_checkWrkchainFees (mk_rworld 0 0 (x_state p)) (gotx_of t) = Panic GO_PANIC_NEGCOIN /\
  check_fees pick_wrk (x_state p) t = Ok tt.
Proof. vm_compute. repeat split; reflexivity. Qed.

(* a per-slot fee in [2^63, 2^64) and a purchase: the getter panics before the product is formed *)
Example gen_wrk_checkFees_purchase_fee_param_refuted :
  let p := x_params 1000 1 two63 in
  let t := x_tx [MWrk (RPurchase 1 1 1)] [(NUND, two63)] in
  reg_params_valid p = true /\
  go_checkWrkchainFees (mk_rworld 0 0 (x_state p)) (gotx_of t) = Panic GO_PANIC_NEGCOIN /\
  check_fees pick_wrk (x_state p) t = Ok tt.
Proof. vm_compute. repeat split; reflexivity. Qed.

(* the model's unconditional panic for 2^63 slots needs a positive per-slot fee: with a zero fee (which Params.Validate
   refuses) the product is 0, NewCoin accepts it and the Go check accepts the transaction *)
Example gen_wrk_checkFees_huge_zero_fee_refuted :
  let p := x_params 1000 1 0 in
  let t := x_tx [MWrk (RPurchase 1 1 two63)] [(NUND, 0)] in
  reg_params_valid p = false /\
  go_checkWrkchainFees (mk_rworld 0 0 (x_state p)) (gotx_of t) = Ok tt /\
  check_fees pick_wrk (x_state p) t = Panic PANIC_NEGFEE.
Proof. vm_compute. repeat split; reflexivity. Qed.

(* the count is a uint64: for a (model-only) count of 2^64 the conversion wraps to 0 and nothing panics in the Go code *)
Example gen_wrk_checkFees_huge_not_uint64_refuted :
  let p := x_params 1000 1 5 in
  let t := x_tx [MWrk (RPurchase 1 1 two64)] [(NUND, 0)] in
  go_checkWrkchainFees (mk_rworld 0 0 (x_state p)) (gotx_of t) = Ok tt /\
  check_fees pick_wrk (x_state p) t = Panic PANIC_NEGFEE.
Proof. vm_compute. repeat split; reflexivity. Qed.

(* and for a (model-only) negative count the Go code panics while the model computes a negative expected fee *)
Example gen_wrk_checkFees_negative_count_refuted :
  let p := x_params 1000 1 5 in
  let t := x_tx [MWrk (RPurchase 1 1 (-1))] [(NUND, 1)] in
  go_checkWrkchainFees (mk_rworld 0 0 (x_state p)) (gotx_of t) = Panic GO_PANIC_NEGCOIN /\
  check_fees pick_wrk (x_state p) t = Err ERR_FEE_TOO_MUCH.
Proof. vm_compute. repeat split; reflexivity. Qed.

(* a purchase of exactly 2^63 - 1 slots is still computed, and agrees *)
Example gen_wrk_checkFees_largest_small :
  let p := x_params 1000 1 5 in
  let t := x_tx [MWrk (RPurchase 1 1 (two63 - 1))] [(NUND, 5 * (two63 - 1))] in
  go_checkWrkchainFees (mk_rworld 0 0 (x_state p)) (gotx_of t) = Ok tt /\
  check_fees pick_wrk (x_state p) t = Ok tt.
Proof. vm_compute. repeat split; reflexivity. Qed.
