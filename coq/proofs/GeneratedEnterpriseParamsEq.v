(* Params.Validate of /repo/x/enterprise/types/params.go as generated on every run (go_validateDenom,
   go_validateMinAccepts, go_validateDecisionLimit, go_validateEntSigners (a loop over the signers) and go_Params_Validate
   in coq/GeneratedEnterpriseKeeper.v) computes what the hand-written [ent_params_valid] of model/Enterprise.v computes:

     gen_ent_Params_Validate_exact : under [ent_params_range p],
        go_Params_Validate p = if ent_params_valid (params_of_go p) then Ok tt else Err (ent_params_err p)
     gen_ent_Params_Validate_eq    : under [ent_params_range p],
        (go_Params_Validate p = Ok tt <-> ent_params_valid (params_of_go p) = true) /\
        (forall r, go_Params_Validate p = r -> r = Ok tt \/ exists c, r = Err c)

   where the error is enterprise_ErrInvalidParams = 30 except for a denomination that is not blank but malformed: there
   the Go code returns the error of sdk.ValidateDenom itself (lib/GoSdk.v: 1), before looking at any other field.

   How the signers are treated, side by side (no disagreement was found on the natural inputs):
     - empty string / empty list: Go tests `len(v) == 0` on the string (Signers_strlen, zero exactly for the empty list)
       and again `len(entSigners) == 0` after the split; the model tests `length = 0`.  The same.
     - an entry that does not parse (BAD_ADDR, or the empty string EMPTY_ADDR as in "addr,"): the Go loop returns the
       (wrapped) error at the first such entry; the model asks that every entry parses ([addr_parses]).  The same
       verdict, and the same error class wherever the bad entry stands.
     - MinAccepts against the number of signers: Go compares `uint64(len(entSigners)) < p.MinAccepts` (unsigned, fix D4);
       the model compares MinAccepts <= length in Z.  uint64(len) = len for a length below 2^64, and MinAccepts is a
       uint64, so the two agree: in particular MinAccepts = 2^63 with one signer is refused by both (with the signed
       comparison of the unfixed code, int(2^63) < 0 <= 1 was accepted).

   Hypotheses ([ent_params_range]): 0 <= MinAccepts and 0 <= DecisionTimeLimit (uint64 fields tested with `== 0` in Go,
   with `0 <` in the model) and length of the signers < 2^64 (uint64(len) is len only there).  No upper bound on the two
   integers is needed.  Each of the three is shown necessary below; the third one by a list of 2^64 signers, which is
   reasoned about, not computed.

   The proof never mentions a temporary of the generated file nor the nesting / order of its tests; the loop is
   rewritten by a lemma that quantifies over its body. *)
From Coq Require Import ZifyBool.
From MC Require Import lib.Prelude lib.AMap lib.GoSdk GeneratedEnterpriseTypes model.Bank model.Enterprise
  model.EnterpriseKeeperPrims GeneratedEnterpriseKeeper.
From MC Require Import proofs.GeneratedEnterpriseBlockEq.
Local Open Scope Z_scope.

Definition ent_params_range (p : go_Params) : Prop :=
  0 <= Params_MinAccepts p /\ 0 <= Params_DecisionTimeLimit p /\ go_len_list (Params_EntSigners p) < two64.

(* what decoding gives: uint64 fields in [0, 2^64), a Go slice (its length is an int) *)
Definition ent_params_natural (p : go_Params) : Prop :=
  0 <= Params_MinAccepts p < two64 /\ 0 <= Params_DecisionTimeLimit p < two64 /\
  go_len_list (Params_EntSigners p) < two63.

Lemma ent_params_natural_range p : ent_params_natural p -> ent_params_range p.
Proof. unfold ent_params_natural, ent_params_range, two63, two64. lia. Qed.

(* the error returned for an invalid set: sdk.ValidateDenom's own for a non-blank malformed denomination *)
Definition ent_params_err (p : go_Params) : Z :=
  if (Params_Denom p <? 0) && negb (Params_Denom p =? go_zero_denom) then 1 else enterprise_ErrInvalidParams.

(* ---- the loop: `for _, a := range signers { if _, err := AccAddressFromBech32(a); err != nil { return err } }` ---- *)
Definition no_bad_addr (l : list go_addr) : bool := forallb addr_parses l.

Lemma signers_loop {S R} (f : go_addr -> S -> outcome (loop_res S R)) (E : Z) :
  (forall a s, f a s = if addr_parses a then Ok (LCont s) else Err E) ->
  forall l s, go_range f l s = if no_bad_addr l then Ok (LCont s) else Err E.
Proof.
  intros Hf l. induction l as [|a r IH]; intros s; [reflexivity|].
  rewrite go_range_cons, Hf. unfold no_bad_addr. cbn [forallb].
  destruct (addr_parses a); cbn [obind andb]; [apply IH|reflexivity].
Qed.

Ltac pv_loop :=
  match goal with
  | |- context [go_range ?f ?l ?s] =>
      rewrite (signers_loop f enterprise_ErrInvalidParams)
        by (intros ? []; unfold map_err, ent_AccAddressFromBech32;
            match goal with |- context [addr_parses ?a] => destruct (addr_parses a) end; reflexivity)
  end.
Ltac pv_norm :=
  cbv beta zeta; cbn [obind negb];
  unfold Denom_IsBlank, sdk_ValidateDenom, Signers_strlen, go_len_list, go_uint64_of_int64.
Ltac pv_step :=
  match goal with
  | |- context [if ?b then _ else _] =>
      lazymatch b with
      | context [if _ then _ else _] => fail
      | _ => let H := fresh "T" in destruct b eqn:H
      end
  end.
Ltac pv_unfold :=
  unfold go_Params_Validate, go_validateDenom, go_validateMinAccepts, go_validateDecisionLimit, go_validateEntSigners.

(* the generated code, with uint64(len) left as it is: needs the signs of the two integers only *)
Lemma gen_ent_Params_Validate_raw : forall p, 0 <= Params_MinAccepts p -> 0 <= Params_DecisionTimeLimit p ->
  go_Params_Validate p =
    if (0 <=? Params_Denom p) && (0 <? Params_MinAccepts p) && (0 <? Params_DecisionTimeLimit p)
       && negb (Nat.eqb (List.length (Params_EntSigners p)) 0) && no_bad_addr (Params_EntSigners p)
       && (Params_MinAccepts p <=? wrap64 (Z.of_nat (List.length (Params_EntSigners p))))
    then Ok tt else Err (ent_params_err p).
Proof.
  intros p H1 H2. pv_unfold. pv_norm. pv_loop. unfold ent_params_err.
  set (NB := no_bad_addr (Params_EntSigners p)).
  set (W := wrap64 (Z.of_nat (List.length (Params_EntSigners p)))).
  set (n := List.length (Params_EntSigners p)).
  clearbody NB W n.
  repeat (pv_step; pv_norm); try reflexivity; exfalso; unfold go_zero_denom in *; lia.
Qed.

Theorem gen_ent_Params_Validate_exact : forall p, ent_params_range p ->
  go_Params_Validate p = if ent_params_valid (params_of_go p) then Ok tt else Err (ent_params_err p).
Proof.
  intros p (H1 & H2 & H3). rewrite (gen_ent_Params_Validate_raw p H1 H2).
  unfold go_len_list in H3. rewrite wrap64_small by lia.
  unfold ent_params_valid, params_of_go, no_bad_addr. cbn [ep_denom ep_min_accepts ep_time_limit ep_signers]. reflexivity.
Qed.

(* never a panic: needs no hypothesis *)
Theorem gen_ent_Params_Validate_no_panic : forall p r, go_Params_Validate p = r -> r = Ok tt \/ exists c, r = Err c.
Proof.
  intros p r <-. pv_unfold. pv_norm. pv_loop.
  repeat (pv_step; pv_norm); (left; reflexivity) || (right; eexists; reflexivity).
Qed.

Theorem gen_ent_Params_Validate_eq : forall p, ent_params_range p ->
  (go_Params_Validate p = Ok tt <-> ent_params_valid (params_of_go p) = true) /\
  (forall r, go_Params_Validate p = r -> r = Ok tt \/ exists c, r = Err c).
Proof.
  intros p H. split; [|exact (gen_ent_Params_Validate_no_panic p)].
  rewrite (gen_ent_Params_Validate_exact p H). destruct (ent_params_valid (params_of_go p)); split;
    intros X; try reflexivity; discriminate X.
Qed.

Corollary gen_ent_Params_Validate_eq_natural : forall p, ent_params_natural p ->
  (go_Params_Validate p = Ok tt <-> ent_params_valid (params_of_go p) = true) /\
  (forall r, go_Params_Validate p = r -> r = Ok tt \/ exists c, r = Err c).
Proof. intros p H. exact (gen_ent_Params_Validate_eq p (ent_params_natural_range p H)). Qed.

(* the error: always one of the two classes, the module's own whenever the denomination is blank or well-formed *)
Corollary gen_ent_Params_Validate_invalid : forall p, ent_params_range p ->
  ent_params_valid (params_of_go p) = false ->
  go_Params_Validate p = Err enterprise_ErrInvalidParams \/ go_Params_Validate p = Err 1.
Proof.
  intros p H V. rewrite (gen_ent_Params_Validate_exact p H), V. unfold ent_params_err.
  destruct ((Params_Denom p <? 0) && negb (Params_Denom p =? go_zero_denom)); [right|left]; reflexivity.
Qed.

Lemma enterprise_ErrInvalidParams_is_30 : enterprise_ErrInvalidParams = 30.
Proof. reflexivity. Qed.

(* with the parameters of the unsigned comparison spelled out: what the fix D4 is about *)
Corollary gen_ent_Params_Validate_min_accepts : forall p, ent_params_range p ->
  go_Params_Validate p = Ok tt -> 0 < Params_MinAccepts p <= go_len_list (Params_EntSigners p).
Proof.
  intros p H X. apply (proj1 (gen_ent_Params_Validate_eq p H)) in X.
  unfold ent_params_valid, params_of_go in X. cbn [ep_denom ep_min_accepts ep_time_limit ep_signers] in X.
  rewrite !andb_true_iff in X. destruct X as (((((_ & A) & _) & _) & _) & B). unfold go_len_list. split; [apply Z.ltb_lt; exact A | apply Z.leb_le; exact B].
Qed.

(* ---- the hypotheses cannot be dropped ---- *)
(* a negative MinAccepts / DecisionTimeLimit passes the `== 0` test *)
Example gen_ent_Params_Validate_neg_min_refuted :
  go_Params_Validate (mk_go_Params [5; 6] 0 (-1) 100) = Ok tt /\
  ent_params_valid (params_of_go (mk_go_Params [5; 6] 0 (-1) 100)) = false.
Proof. vm_compute. auto. Qed.
Example gen_ent_Params_Validate_neg_limit_refuted :
  go_Params_Validate (mk_go_Params [5; 6] 0 1 (-100)) = Ok tt /\
  ent_params_valid (params_of_go (mk_go_Params [5; 6] 0 1 (-100))) = false.
Proof. vm_compute. auto. Qed.

(* 2^64 signers, MinAccepts 1: uint64(len) = 0 < 1, refused by the generated code, accepted by the model *)
Lemma no_bad_addr_repeat a n : a <> BAD_ADDR -> a <> EMPTY_ADDR -> no_bad_addr (repeat a n) = true.
Proof.
  intros H H'. induction n as [|n IH]; [reflexivity|]. unfold no_bad_addr in *. cbn [repeat forallb]. rewrite IH.
  unfold addr_parses. apply Z.eqb_neq in H, H'. rewrite H, H'. reflexivity.
Qed.

Lemma gen_ent_Params_Validate_long_list (l : list go_addr) :
  go_len_list l = two64 -> no_bad_addr l = true ->
  go_Params_Validate (mk_go_Params l 0 1 100) = Err enterprise_ErrInvalidParams /\
  ent_params_valid (params_of_go (mk_go_Params l 0 1 100)) = true.
Proof.
  intros Hl Hb. unfold go_len_list in Hl.
  assert (N : Nat.eqb (List.length l) 0 = false)
    by (apply Nat.eqb_neq; intros E; rewrite E in Hl; discriminate Hl).
  split.
  - rewrite gen_ent_Params_Validate_raw by (cbn [Params_MinAccepts Params_DecisionTimeLimit]; lia).
    cbn [Params_MinAccepts Params_DecisionTimeLimit Params_EntSigners Params_Denom]. unfold ent_params_err.
    cbn [Params_Denom]. rewrite Hl, Hb, N. reflexivity.
  - unfold ent_params_valid, params_of_go, no_bad_addr, addr, go_addr in *.
    cbn [ep_denom ep_min_accepts ep_time_limit ep_signers
      Params_MinAccepts Params_DecisionTimeLimit Params_EntSigners Params_Denom].
    rewrite Hl, Hb, N. reflexivity.
Qed.

Theorem gen_ent_Params_Validate_long_list_refuted :
  exists p, 0 <= Params_MinAccepts p < two64 /\ 0 <= Params_DecisionTimeLimit p < two64 /\
            go_len_list (Params_EntSigners p) = two64 /\
            go_Params_Validate p = Err enterprise_ErrInvalidParams /\ ent_params_valid (params_of_go p) = true.
Proof.
  assert (exists n : nat, Z.of_nat n = two64) as [n Hn] by (exists (Z.to_nat two64); apply Z2Nat.id; discriminate).
  assert (L : go_len_list (repeat (5 : go_addr) n) = two64) by (unfold go_len_list; rewrite repeat_length; exact Hn).
  exists (mk_go_Params (repeat (5 : go_addr) n) 0 1 100).
  cbn [Params_MinAccepts Params_DecisionTimeLimit Params_EntSigners].
  split; [unfold two64; lia|]. split; [unfold two64; lia|]. split; [exact L|].
  apply gen_ent_Params_Validate_long_list; [exact L|]. apply no_bad_addr_repeat; discriminate.
Qed.

(* the error classes are really met; the bad entry may stand anywhere *)
Example gen_ent_Params_Validate_err_classes :
  go_Params_Validate (mk_go_Params [5; 6] (-1) 1 100) = Err 30 /\         (* blank denomination *)
  go_Params_Validate (mk_go_Params [5; 6] (-7) 1 100) = Err 1 /\          (* malformed: sdk.ValidateDenom's error *)
  go_Params_Validate (mk_go_Params [] 0 1 100) = Err 30 /\                (* no signer *)
  go_Params_Validate (mk_go_Params [BAD_ADDR; 6] 0 1 100) = Err 30 /\
  go_Params_Validate (mk_go_Params [5; BAD_ADDR] 0 1 100) = Err 30.
Proof. vm_compute. auto. Qed.

(* an empty entry (the signer string "addr," splits into "addr" and ""): sdk.AccAddressFromBech32("") is an error, both
   sides refuse *)
Example gen_ent_Params_Validate_empty_entry :
  go_Params_Validate (mk_go_Params [5; EMPTY_ADDR] 0 1 100) = Err 30 /\
  go_Params_Validate (mk_go_Params [EMPTY_ADDR; 5] 0 1 100) = Err 30 /\
  ent_params_valid (params_of_go (mk_go_Params [5; EMPTY_ADDR] 0 1 100)) = false.
Proof. vm_compute. auto. Qed.

Print Assumptions gen_ent_Params_Validate_exact.
Print Assumptions gen_ent_Params_Validate_eq.
Print Assumptions gen_ent_Params_Validate_eq_natural.
Print Assumptions gen_ent_Params_Validate_no_panic.
Print Assumptions gen_ent_Params_Validate_long_list_refuted.
