(* The keeper and message-server code generated from /repo/x/beacon/keeper/{register,record,msg_server}.go
   (coq/GeneratedBeaconKeeper.v, re-generated on every run, written against model/BeaconKeeperPrims.v and
   model/RegistryWorld.v) computes exactly what the hand-written registry model of model/Registry.v computes with
   [heighted = false], on every state whose registrations are stored under their own ids and are not pruned when empty (which [reg_inv]
   gives), carry no genesis hash / type ([bcn_no_genesis]: a BEACON has none, the model stores "" there), and whose
   counters fit a uint64 with room for one increment ([reg_counters_small]).  The node's wall clock (time.Now()) is
   read only for a submit time of 0, which ValidateBasic rejects (gen_bcn_wall_clock_only_for_zero_submit_time).

   Structure (so that the proofs survive a harmless re-generation):
     part 1  facts about the primitives (uint64 wrap-around, string lengths) and a tactic [rwalk] that walks any body
             built from the primitives: it unfolds them, normalises, removes [wrap64] where the context shows the
             argument in range, rewrites calls of generated functions already proved equal to the model, and splits on
             the leftmost atom of the next test; it never mentions a temporary of the generated file nor the nesting
             of its tests;
     part 2  the keeper functions;
     part 3  the message server (weakest hypotheses: gen_bcn_msg_exec_eq_weak), steps and runs;
     part 4  examples showing that the hypotheses cannot be dropped and that the wall clock is reachable for submit time 0. *)
From Coq Require Import ZifyBool.
From MC Require Import lib.Prelude lib.AMap lib.GoSdk GeneratedBeaconTypes model.Bank model.Registry model.RegistrySpec
  model.BeaconKeeperPrims GeneratedBeaconKeeper model.BeaconGenSpec.
From MC Require Import proofs.RegistryProofs.
Local Open Scope Z_scope.

Lemma wrap64_small x : 0 <= x < two64 -> wrap64 x = x.
Proof. intros H. unfold wrap64. apply Z.mod_small. exact H. Qed.

Lemma go_len_gt (n : nat) s : (Z.of_nat n <? go_len s) = too_long n s.
Proof.
  unfold go_len, too_long.
  destruct (Nat.ltb_spec n (String.length s)); [apply Z.ltb_lt | apply Z.ltb_ge]; lia.
Qed.
Lemma go_len_gt_128 s : (128 <? go_len s) = too_long 128 s. Proof. exact (go_len_gt 128 s). Qed.
Lemma go_len_gt_64 s : (64 <? go_len s) = too_long 64 s. Proof. exact (go_len_gt 64 s). Qed.
Lemma go_len_gt_66 s : (66 <? go_len s) = too_long 66 s. Proof. exact (go_len_gt 66 s). Qed.
Lemma go_len_is_0 s : (go_len s =? 0) = is_empty s.
Proof.
  unfold go_len, is_empty.
  destruct (Nat.eqb_spec (String.length s) 0); [apply Z.eqb_eq | apply Z.eqb_neq]; lia.
Qed.

#[local] Arguments Z.add : simpl never.
#[local] Arguments Z.sub : simpl never.
#[local] Arguments Z.mul : simpl never.
#[local] Arguments Z.div : simpl never.
#[local] Arguments Z.modulo : simpl never.
#[local] Arguments Z.ltb : simpl never.
#[local] Arguments Z.leb : simpl never.
#[local] Arguments Z.eqb : simpl never.
#[local] Arguments Z.of_nat : simpl never.
#[local] Arguments wrap64 : simpl never.
#[local] Arguments Time_Unix : simpl never.
#[local] Arguments go_len : simpl never.
#[local] Arguments too_long : simpl never.
#[local] Arguments is_empty : simpl never.
#[local] Arguments aget : simpl never.
#[local] Arguments aset : simpl never.
#[local] Arguments adel : simpl never.
#[local] Arguments lowest_key : simpl never.
#[local] Arguments String.length : simpl never.

Ltac runfold :=
  progress unfold u64_add, u64_sub, go_uint64_of_int64, Addr_String, sdk_AccAddressFromBech32,
    reg_IsRegistered, reg_GetHighestID, reg_SetHighestID, reg_IsAuthorisedToRecord, reg_GetParamMaxStorageLimit,
    reg_GetParamDefaultStorageLimit, reg_SetStorageLimit, reg_DeleteRecord, reg_LowestKeyInState, reg_put_record,
    reg_put_entity, of_go_entity, to_go_entity, reg_GetEntity, reg_SetEntity, reg_GetStorageLimit, reg_SetRecord, with_reg, with_regs, ahas,
    limit_of in *.


Ltac rside := first [ assumption | lia | unfold two64, two63, MODULE_DEFAULT_LIMIT in *; lia ].

Ltac rwrap :=
  match goal with
  | |- context [wrap64 ?x] => rewrite (wrap64_small x) by rside
  end.

Ltac rstr :=
  match goal with
  | |- context [128 <? go_len ?s] => rewrite (go_len_gt_128 s)
  | |- context [64 <? go_len ?s] => rewrite (go_len_gt_64 s)
  | |- context [66 <? go_len ?s] => rewrite (go_len_gt_66 s)
  | |- context [go_len ?s =? 0] => rewrite (go_len_is_0 s)
  end.

Ltac rknown :=
  match goal with
  | H : ?x = Some _ |- context [?x] => rewrite H
  | H : ?x = None |- context [?x] => rewrite H
  | H : ?x = false |- context [?x] => rewrite H
  end.

Ltac bool_atom c :=
  lazymatch c with
  | (?a || _)%bool => bool_atom a
  | (?a && _)%bool => bool_atom a
  | negb ?a => bool_atom a
  | _ => constr:(c)
  end.

Ltac rsplit :=
  match goal with
  | |- context [match ?x with Some _ => _ | None => _ end] =>
      lazymatch x with
      | context [match _ with Some _ => _ | None => _ end] => fail
      | context [if _ then _ else _] => fail
      | _ => destruct x eqn:?
      end
  | |- context [if ?c then _ else _] =>
      lazymatch c with
      | context [if _ then _ else _] => fail
      | context [match _ with Some _ => _ | None => _ end] => fail
      | _ => let a := bool_atom c in destruct a eqn:?
      end
  end.

Ltac rcall := fail.
Ltac rstep := first [ runfold | progress cbn | rknown | rstr | rwrap | rcall | rsplit ].
Ltac rwalk := repeat rstep.
Ltac rfinish := first [ reflexivity | repeat (f_equal; try lia) ].


#[local] Arguments record_new : simpl never.
#[local] Arguments max_purchasable : simpl never.

(* ---- the keeper ---- *)

Theorem gen_bcn_GetMaxPurchasableSlots_eq : forall w id,
  rp_max_limit (r_params (rw_reg w)) < two64 ->
  (forall l, aget id (r_limits (rw_reg w)) = Some l -> 0 <= l) ->
  go_GetMaxPurchasableSlots w id = Ok (max_purchasable (rw_reg w) id).
Proof.
  intros [now wall s] id Hmax Hl. cbn in Hmax, Hl. unfold go_GetMaxPurchasableSlots, max_purchasable.
  destruct (aget id (r_limits s)) as [l|] eqn:E; [pose proof (Hl l eq_refl)|]; rwalk; reflexivity.
Qed.

Theorem gen_bcn_IncreaseInStateStorage_eq : forall w id n,
  0 <= limit_of (rw_reg w) id + n < two64 ->
  go_IncreaseInStateStorage w id n =
    Ok (with_reg w (with_regs (rw_reg w) (r_regs (rw_reg w))
                      (aset id (limit_of (rw_reg w) id + n) (r_limits (rw_reg w))) (r_recs (rw_reg w))), tt).
Proof.
  intros [now wall s] id n H. cbn in H. unfold go_IncreaseInStateStorage. unfold limit_of in H.
  rwalk; reflexivity.
Qed.

(* RegisterNewBeacon overwrites the id, the counters and the registration time of the Beacon it is given *)
Theorem gen_bcn_RegisterNewBeacon_eq : forall w (b : go_Beacon),
  0 <= Time_Unix (rw_now w) < two64 -> 0 <= r_next (rw_reg w) < two64 - 1 ->
  go_RegisterNewBeacon w b =
    let s := rw_reg w in
    Ok (with_reg w {| r_params := r_params s; r_next := r_next s + 1;
                      r_regs := aset (r_next s)
                                  {| rg_id := r_next s; rg_owner := Beacon_Owner b; rg_moniker := Beacon_Moniker b;
                                     rg_name := Beacon_Name b; rg_genesis := EmptyString; rg_type := EmptyString;
                                     rg_last := 0; rg_num := 0; rg_lowest := 0;
                                     rg_regtime := Time_Unix (rw_now w) |} (r_regs s);
                      r_limits := aset (r_next s) (rp_default_limit (r_params s)) (r_limits s);
                      r_recs := r_recs s |}, r_next s).
Proof.
  intros [now wall s] b Ht Hn. cbn in Ht, Hn.
  unfold go_RegisterNewBeacon. rwalk; reflexivity.
Qed.

(* RecordNewBeaconTimestamp returns the timestamp id it used and the one it pruned (0 if none).
   The last hypothesis: a registration that holds nothing (FirstIdInState = 0) is below its limit, so that the very
   first timestamp is not pruned at once; [reg_inv] guarantees it (limits are at least 1). *)
Theorem gen_bcn_RecordNewBeaconTimestamp_eq : forall w id rg hash submitTime,
  aget id (r_regs (rw_reg w)) = Some rg -> rg_id rg = id ->
  rg_genesis rg = EmptyString -> rg_type rg = EmptyString ->
  0 <= rg_last rg < two64 - 1 -> 0 <= rg_num rg < two64 - 1 -> 0 <= rg_lowest rg < two64 - 1 ->
  (rg_lowest rg = 0 -> rg_num rg < limit_of (rw_reg w) id) ->
  go_RecordNewBeaconTimestamp w id hash submitTime =
    let '(s', k, pruned) := record_new false (Time_Unix (rw_now w)) (rw_reg w) rg submitTime [hash] in
    Ok (with_reg w s', (k, pruned)).
Proof.
  intros [now wall s] id rg hash st Hg Hid Hgen Hty Hlast Hnum Hlow Hfresh. cbn in Hg, Hfresh. subst id.
  unfold limit_of in Hfresh.
  unfold go_RecordNewBeaconTimestamp, record_new.
  rwalk; rewrite ?Hgen, ?Hty; reflexivity.
Qed.

Theorem gen_bcn_UpdateParams_eq : forall w (auth : addr) p,
  go_UpdateParams w (mk_go_MsgUpdateParams auth p) =
    if negb (auth =? GOV_MACC) then Err 42
    else if reg_params_valid (params_of_go p)
         then Ok (with_reg w {| r_params := params_of_go p; r_next := r_next (rw_reg w); r_regs := r_regs (rw_reg w);
                                r_limits := r_limits (rw_reg w); r_recs := r_recs (rw_reg w) |},
                  mk_go_MsgUpdateParamsResponse)
         else Err 40.
Proof.
  intros w auth p. unfold go_UpdateParams, reg_SetParams, reg_store_params, KEEPER_authority, govtypes_ErrInvalidSigner.
  cbn [MsgUpdateParams_Authority MsgUpdateParams_Params].
  rewrite (Z.eqb_sym GOV_MACC auth).
  destruct (auth =? GOV_MACC); cbn [negb]; [|reflexivity].
  destruct (reg_params_valid (params_of_go p)); reflexivity.
Qed.

(* ---- the message server ---- *)
#[local] Arguments go_GetMaxPurchasableSlots : simpl never.
#[local] Arguments go_IncreaseInStateStorage : simpl never.
#[local] Arguments go_RegisterNewBeacon : simpl never.
#[local] Arguments go_RecordNewBeaconTimestamp : simpl never.

(* what the equalities need of the stored registrations: each is stored under its own id, carries no genesis hash and
   no type (these fields of the model's registration record exist for WRKChains only), and one that holds nothing
   is below its limit *)
Definition bcn_regs_ok (s : reg_state) : Prop :=
  forall id rg, aget id (r_regs s) = Some rg ->
    rg_id rg = id /\ rg_genesis rg = EmptyString /\ rg_type rg = EmptyString /\
    (rg_lowest rg = 0 -> rg_num rg < limit_of s id).

Definition bcn_small (s : reg_state) : Prop :=
  0 <= r_next s < two64 - 1 /\ rp_max_limit (r_params s) < two64 /\
  (forall id l, aget id (r_limits s) = Some l -> 0 <= l) /\
  (forall id rg, aget id (r_regs s) = Some rg ->
     0 <= rg_num rg < two64 - 1 /\ 0 <= rg_last rg < two64 - 1 /\ 0 <= rg_lowest rg < two64 - 1).

Definition bcn_msg_ok (m : reg_msg) : Prop :=
  match m with
  | RRegister _ _ _ _ _ => True
  | RRecord _ _ key hashes => List.length hashes = 1%nat /\ key <> 0
  | RPurchase _ _ n => 0 <= n
  end.

Ltac rfacts :=
  repeat match goal with
  | HK : bcn_regs_ok ?s, Hg : aget ?id (r_regs ?s) = Some ?rg |- _ =>
      lazymatch goal with
      | _ : rg_id rg = id |- _ => fail
      | _ => destruct (HK id rg Hg) as (? & ? & ? & ?)
      end
  | HS : forall id rg, aget id (r_regs ?s) = Some rg -> 0 <= rg_num rg < two64 - 1 /\ _,
    Hg : aget ?id (r_regs ?s) = Some ?rg |- _ =>
      lazymatch goal with
      | _ : 0 <= rg_num rg < two64 - 1 |- _ => fail
      | _ => destruct (HS id rg Hg) as (? & ? & ?)
      end
  | HL : forall id l, aget id (r_limits ?s) = Some l -> 0 <= l,
    Hg : aget ?id (r_limits ?s) = Some ?l |- _ =>
      lazymatch goal with
      | _ : 0 <= l |- _ => fail
      | _ => pose proof (HL id l Hg)
      end
  end.

Ltac rlimit_side :=
  cbn; intros ? ?;
  match goal with
  | H : aget ?id (aset ?id ?v ?m) = Some ?l |- _ => rewrite aget_aset_eq in H; injection H as <-; rside
  end.

Ltac rcall ::=
  match goal with
  | |- context [go_RegisterNewBeacon ?w ?b] =>
      rewrite (gen_bcn_RegisterNewBeacon_eq w b) by (cbn; rside)
  | Hg : aget ?id (r_regs ?s) = Some ?rg |- context [go_RecordNewBeaconTimestamp ?w ?id ?h ?st] =>
      rewrite (gen_bcn_RecordNewBeaconTimestamp_eq w id rg h st Hg) by first [ assumption | cbn; rside ];
      cbn [rw_now rw_reg];
      destruct (record_new false _ _ rg st [h]) as [[? ?] ?]
  | |- context [go_IncreaseInStateStorage ?w ?id ?n] =>
      rewrite (gen_bcn_IncreaseInStateStorage_eq w id n) by (cbn; unfold limit_of; cbn; rknown; rside)
  | |- context [go_GetMaxPurchasableSlots ?w ?id] =>
      rewrite (gen_bcn_GetMaxPurchasableSlots_eq w id) by first [ cbn; rside | rlimit_side ]
  end.

Ltac rstep ::= first [ rcall | runfold | progress cbn | rknown | rstr | rwrap | rsplit; rfacts ].

Lemma gen_bcn_exec_register : forall now wall s o moniker name genesis type,
  bcn_small s -> 0 <= Time_Unix now < two64 ->
  bcn_msg_exec (mk_rworld now wall s) (RRegister o moniker name genesis type) =
    rlift (mk_rworld now wall s) (reg_exec false (Time_Unix now) s (RRegister o moniker name genesis type)).
Proof.
  intros now wall s o moniker name genesis type (Hnext & Hmax & HL & HS) Ht.
  unfold bcn_msg_exec, reg_exec, go_RegisterBeacon. rwalk; reflexivity.
Qed.

Lemma gen_bcn_exec_record : forall now wall s o id key h,
  bcn_regs_ok s -> bcn_small s -> key <> 0 ->
  bcn_msg_exec (mk_rworld now wall s) (RRecord o id key [h]) =
    rlift (mk_rworld now wall s) (reg_exec false (Time_Unix now) s (RRecord o id key [h])).
Proof.
  intros now wall s o id key h HK (Hnext & Hmax & HL & HS) Hkey.
  apply Z.eqb_neq in Hkey.
  unfold bcn_msg_exec, reg_exec, go_RecordBeaconTimestamp. rwalk; reflexivity.
Qed.

Lemma gen_bcn_exec_purchase : forall now wall s o id n,
  bcn_small s -> 0 <= n ->
  bcn_msg_exec (mk_rworld now wall s) (RPurchase o id n) =
    rlift (mk_rworld now wall s) (reg_exec false (Time_Unix now) s (RPurchase o id n)).
Proof.
  intros now wall s o id n (Hnext & Hmax & HL & HS) Hn.
  unfold bcn_msg_exec, reg_exec, go_PurchaseBeaconStateStorage. rwalk; reflexivity.
Qed.

(* ---- the wall clock ---- *)
Definition with_wall (w : rworld) (wall : Z) : rworld := mk_rworld (rw_now w) wall (rw_reg w).
Definition set_wall {A} (wall : Z) (o : outcome (rworld * A)) : outcome (rworld * A) :=
  match o with
  | Ok (w, a) => Ok (with_wall w wall, a)
  | Err c => Err c
  | Panic c => Panic c
  end.

Ltac wstep := first [ runfold | progress cbn | rknown | rstr | rsplit ].

Theorem gen_bcn_wall_clock_only_for_zero_submit_time : forall now wall1 wall2 s m,
  (forall o id key hashes, m = RRecord o id key hashes -> key <> 0) ->
  bcn_msg_exec (mk_rworld now wall2 s) m = set_wall wall2 (bcn_msg_exec (mk_rworld now wall1 s) m).
Proof.
  intros now wall1 wall2 s m Hkey.
  destruct m as [o moniker name genesis type | o id key hashes | o id n].
  - unfold bcn_msg_exec, go_RegisterBeacon, go_RegisterNewBeacon, set_wall, with_wall. repeat wstep; reflexivity.
  - pose proof (Hkey o id key hashes eq_refl) as Hk. apply Z.eqb_neq in Hk.
    unfold bcn_msg_exec, go_RecordBeaconTimestamp, go_RecordNewBeaconTimestamp, set_wall, with_wall.
    repeat wstep; reflexivity.
  - unfold bcn_msg_exec, go_PurchaseBeaconStateStorage, go_IncreaseInStateStorage, go_GetMaxPurchasableSlots, set_wall, with_wall.
    repeat wstep; reflexivity.
Qed.

(* ---- the message server, all messages ---- *)

Theorem gen_bcn_msg_exec_eq_weak : forall now wall s m,
  bcn_regs_ok s -> bcn_small s -> bcn_msg_ok m -> 0 <= now / NSEC < two64 ->
  bcn_msg_exec (mk_rworld now wall s) m = rlift (mk_rworld now wall s) (reg_exec false (now / NSEC) s m).
Proof.
  intros now wall s m HK HS Hm Ht. change (now / NSEC) with (Time_Unix now) in *.
  destruct m as [o moniker name genesis type | o id key hashes | o id n]; cbn [bcn_msg_ok] in Hm.
  - apply gen_bcn_exec_register; assumption.
  - destruct Hm as [Hlen Hkey]. destruct hashes as [|h [|h1 tl]]; try discriminate Hlen.
    apply gen_bcn_exec_record; assumption.
  - apply gen_bcn_exec_purchase; assumption.
Qed.

(* the model's registration record has a genesis hash and a type, which a BEACON does not have: the model stores the
   empty string there, and so does every state it reaches; [reg_inv false] does not say so *)
Definition bcn_no_genesis (s : reg_state) : Prop :=
  forall id rg, aget id (r_regs s) = Some rg -> rg_genesis rg = EmptyString /\ rg_type rg = EmptyString.

Lemma reg_inv_fresh_below_limit heighted s g id rg :
  reg_inv heighted s g -> aget id (r_regs s) = Some rg -> rg_lowest rg = 0 -> rg_num rg < limit_of s id.
Proof.
  intros I G Hlow. destruct (inv_limit _ _ _ _ _ I G) as (_ & HL1 & HL2).
  destruct (inv_regs _ _ _ I _ _ G) as [_ Hok].
  destruct (Z.eq_dec (rg_num rg) 0) as [E|N]; [lia|]. exfalso.
  pose proof (ok_num0 _ _ _ _ _ _ Hok) as H0.
  pose proof (ok_numlen _ _ _ _ _ _ Hok) as Hlen.
  pose proof (ok_recs _ _ _ _ _ _ Hok) as Hrs.
  pose proof (ok_lowest _ _ _ _ _ _ Hok) as Hl.
  pose proof (ok_pos _ _ _ _ _ _ Hok) as Hpos.
  assert (Hn : List.length (recs_of id (r_recs s)) = Z.to_nat (rg_num rg)).
  { rewrite Hrs. apply lastn_length. lia. }
  destruct (recs_of id (r_recs s)) as [|x rs] eqn:Ers; [cbn in Hn; lia|].
  cbn in Hl. rewrite Hlow in Hl.
  assert (Hin : In x (log_of g id)).
  { apply (lastn_incl (Z.to_nat (rg_num rg))). rewrite <- Hrs. left; reflexivity. }
  rewrite Forall_forall in Hpos. specialize (Hpos (fst x) (in_map fst _ _ Hin)). lia.
Qed.

Lemma reg_inv_bcn_regs_ok s g : reg_inv false s g -> bcn_no_genesis s -> bcn_regs_ok s.
Proof.
  intros I NG id rg G. destruct (NG id rg G) as [Hg Ht].
  destruct (inv_regs _ _ _ I _ _ G) as [_ Hok].
  split; [exact (ok_id _ _ _ _ _ _ Hok)|]. split; [exact Hg|]. split; [exact Ht|].
  exact (reg_inv_fresh_below_limit _ _ _ _ _ I G).
Qed.

Lemma reg_counters_small_bcn s : reg_counters_small s -> bcn_small s.
Proof.
  intros (Hn & Hm & _ & HL & HR). split; [lia|]. split; [lia|]. split.
  - intros id l G. pose proof (HL id l G). lia.
  - exact HR.
Qed.

Lemma reg_msg_wf_bcn m :
  reg_msg_wf m ->
  (forall o id key hashes, m = RRecord o id key hashes -> List.length hashes = 1%nat /\ key <> 0) -> bcn_msg_ok m.
Proof.
  intros W H1. destruct m as [o moniker name genesis type | o id key hashes | o id n]; cbn in *.
  - exact I.
  - eapply H1; reflexivity.
  - unfold u64 in W. lia.
Qed.

Theorem gen_bcn_msg_exec_eq : forall now wall s g m,
  reg_inv false s g -> bcn_no_genesis s -> reg_counters_small s -> reg_msg_wf m ->
  (forall o id key hashes, m = RRecord o id key hashes -> List.length hashes = 1%nat /\ key <> 0) ->
  0 <= now / NSEC < two63 ->
  bcn_msg_exec (mk_rworld now wall s) m = rlift (mk_rworld now wall s) (reg_exec false (now / NSEC) s m).
Proof.
  intros now wall s g m I NG HS W H1 Ht. apply gen_bcn_msg_exec_eq_weak.
  - exact (reg_inv_bcn_regs_ok _ _ I NG).
  - exact (reg_counters_small_bcn _ HS).
  - exact (reg_msg_wf_bcn _ W H1).
  - unfold two63, two64 in *. lia.
Qed.

(* ---- steps and runs ---- *)

(* [reg_step false] of model/RegistrySpec.v, executing the generated message server in a world whose block time
   is [t] seconds after the epoch and whose wall clock is [wall]; the ghost is threaded exactly as there *)
Definition bcn_step (wall : Z) (sg : reg_state * ghost) (tm : Z * reg_msg) : reg_state * ghost :=
  let '(s, g) := sg in
  let '(t, m) := tm in
  match reg_validate_basic false m with
  | Ok _ =>
      match bcn_msg_exec (mk_rworld (t * NSEC) wall s) m with
      | Ok (w', RespRegistered id) =>
          (rw_reg w', {| g_log := g_log g; g_reg := g_reg g ++ [(id, m, t)] |})
      | Ok (w', RespRecorded id k) =>
          match aget (id, k) (r_recs (rw_reg w')) with
          | Some rc => (rw_reg w', {| g_log := aset id (log_of g id ++ [(k, rc)]) (g_log g); g_reg := g_reg g |})
          | None => (rw_reg w', g)
          end
      | Ok (w', _) => (rw_reg w', g)
      | _ => (s, g)
      end
  | _ => (s, g)
  end.

Definition bcn_run (wall : Z) (sg : reg_state * ghost) (h : list (Z * reg_msg)) : reg_state * ghost :=
  fold_left (bcn_step wall) h sg.

Lemma unix_of_seconds t : t * NSEC / NSEC = t.
Proof. apply Z.div_mul. discriminate. Qed.

(* what a step needs of a message: ValidateBasic, which the step runs first, rejects a zero submit time *)
Definition bcn_step_msg_ok (m : reg_msg) : Prop :=
  match m with
  | RRegister _ _ _ _ _ => True
  | RRecord _ _ _ hashes => List.length hashes = 1%nat
  | RPurchase _ _ n => 0 <= n
  end.

Lemma validate_basic_msg_ok m : reg_validate_basic false m = Ok tt -> bcn_step_msg_ok m -> bcn_msg_ok m.
Proof.
  destruct m as [o moniker name genesis type | o id key hashes | o id n]; cbn [bcn_step_msg_ok bcn_msg_ok]; auto.
  cbn [reg_validate_basic]. intros V Hlen. split; [exact Hlen|].
  destruct (id =? 0); [discriminate|]. destruct (is_empty (hd EmptyString hashes)); [discriminate|].
  destruct (key =? 0) eqn:E; [discriminate|]. apply Z.eqb_neq. exact E.
Qed.

Theorem gen_bcn_step_eq_weak : forall wall s g t m,
  bcn_regs_ok s -> bcn_small s -> bcn_step_msg_ok m -> 0 <= t < two64 ->
  bcn_step wall (s, g) (t, m) = reg_step false (s, g) (t, m).
Proof.
  intros wall s g t m HK HS Hm Ht. unfold bcn_step, reg_step.
  destruct (reg_validate_basic false m) as [[]| |] eqn:V; try reflexivity.
  rewrite gen_bcn_msg_exec_eq_weak
    by (rewrite ?unix_of_seconds; first [ assumption | exact (validate_basic_msg_ok m V Hm) ]).
  rewrite unix_of_seconds.
  destruct (reg_exec false t s m) as [[s' [id|id k|id n c]]| |]; reflexivity.
Qed.

Lemma reg_msg_wf_bcn_step m :
  reg_msg_wf m -> (forall o id key hashes, m = RRecord o id key hashes -> List.length hashes = 1%nat) ->
  bcn_step_msg_ok m.
Proof.
  intros W H1. destruct m as [o moniker name genesis type | o id key hashes | o id n]; cbn in *.
  - exact I.
  - eapply H1; reflexivity.
  - unfold u64 in W. lia.
Qed.

Theorem gen_bcn_step_eq : forall wall s g t m,
  reg_inv false s g -> bcn_no_genesis s -> reg_counters_small s -> reg_msg_wf m ->
  (forall o id key hashes, m = RRecord o id key hashes -> List.length hashes = 1%nat) ->
  0 <= t < two63 ->
  bcn_step wall (s, g) (t, m) = reg_step false (s, g) (t, m).
Proof.
  intros wall s g t m I NG HS W H1 Ht. apply gen_bcn_step_eq_weak.
  - exact (reg_inv_bcn_regs_ok _ _ I NG).
  - exact (reg_counters_small_bcn _ HS).
  - exact (reg_msg_wf_bcn_step _ W H1).
  - unfold two63, two64 in *. lia.
Qed.

(* the counters of the state are bounded by [B] (and the quantities that no message increases are in range) *)
Definition bcn_bounded (B : Z) (s : reg_state) : Prop :=
  0 <= r_next s <= B /\ rp_max_limit (r_params s) < two64 /\ 0 <= rp_default_limit (r_params s) /\
  (forall id l, aget id (r_limits s) = Some l -> 0 <= l) /\
  (forall id rg, aget id (r_regs s) = Some rg ->
     0 <= rg_num rg <= B /\ 0 <= rg_last rg <= B /\ 0 <= rg_lowest rg <= B).

Lemma bcn_bounded_small B s : bcn_bounded B s -> B < two64 - 1 -> bcn_small s.
Proof.
  intros (Hn & Hm & _ & HL & HR) HB. split; [lia|]. split; [lia|]. split; [exact HL|].
  intros id rg G. pose proof (HR id rg G). lia.
Qed.

Lemma bcn_bounded_mono B B' s : bcn_bounded B s -> B <= B' -> bcn_bounded B' s.
Proof.
  intros (Hn & Hm & Hd & HL & HR) HB. split; [lia|]. split; [lia|]. split; [lia|]. split; [exact HL|].
  intros id rg G. pose proof (HR id rg G). lia.
Qed.

Lemma record_new_false_regs t s rg key hashes s' k pr :
  record_new false t s rg key hashes = (s', k, pr) ->
  0 <= rg_last rg -> 0 <= rg_lowest rg -> (rg_lowest rg = 0 -> rg_num rg < limit_of s (rg_id rg)) ->
  exists rg', r_regs s' = aset (rg_id rg) rg' (r_regs s) /\
    rg_genesis rg' = rg_genesis rg /\ rg_type rg' = rg_type rg /\
    rg_num rg <= rg_num rg' <= rg_num rg + 1 /\
    rg_last rg <= rg_last rg' <= rg_last rg + 1 /\
    0 <= rg_lowest rg' <= Z.max (rg_lowest rg) (rg_last rg) + 1.
Proof.
  unfold record_new. intros E Hlast Hlow Hfresh.
  destruct (limit_of s (rg_id rg) <? rg_num rg + 1) eqn:E1; injection E as <- _ _;
    eexists; (split; [reflexivity|]); cbn [rg_genesis rg_type rg_num rg_last rg_lowest];
    (split; [reflexivity|]); (split; [reflexivity|]);
    destruct (rg_last rg <? rg_last rg + 1); destruct (rg_lowest rg =? 0) eqn:E2; lia.
Qed.

Lemma bcn_bounded_exec B t s m s' r :
  bcn_regs_ok s -> bcn_bounded B s -> bcn_step_msg_ok m -> reg_exec false t s m = Ok (s', r) ->
  bcn_bounded (B + 1) s'.
Proof.
  intros HK (Hn & Hm & Hd & HL & HR) Hok E.
  destruct m as [o moniker name genesis type | o id key hashes | o id n].
  - apply reg_exec_register_inv in E. destruct E as [_ ->].
    unfold bcn_bounded. cbn [r_next r_params r_limits r_regs].
    split; [lia|]. split; [lia|]. split; [lia|]. split.
    + intros id l G. destruct (Z.eq_dec id (r_next s)) as [->|N].
      * rewrite aget_aset_eq in G. injection G as <-. exact Hd.
      * rewrite aget_aset_neq in G by congruence. apply (HL id l G).
    + intros id rg G. destruct (Z.eq_dec id (r_next s)) as [->|N].
      * rewrite aget_aset_eq in G. injection G as <-. cbn. lia.
      * rewrite aget_aset_neq in G by congruence. pose proof (HR id rg G). lia.
  - apply reg_exec_record_inv in E. destruct E as (rg & k & pr & G & _ & _ & _ & ER & _).
    destruct (record_new_frame _ _ _ _ _ _ _ _ _ ER) as (Ep & En & El).
    pose proof (HR id rg G) as Hrg. destruct (HK id rg G) as (Hid & _ & _ & Hfresh). rewrite <- Hid in Hfresh.
    destruct (record_new_false_regs _ _ _ _ _ _ _ _ ER ltac:(lia) ltac:(lia) Hfresh)
      as (rg' & Er & _ & _ & Hnum & Hlast & Hlow).
    unfold bcn_bounded. rewrite Ep, En, El, Er.
    split; [lia|]. split; [lia|]. split; [lia|]. split; [exact HL|].
    intros id0 rg0 G0. destruct (Z.eq_dec id0 (rg_id rg)) as [->|N].
    + rewrite aget_aset_eq in G0. injection G0 as <-. lia.
    + rewrite aget_aset_neq in G0 by congruence. pose proof (HR id0 rg0 G0). lia.
  - cbn [bcn_step_msg_ok] in Hok.
    apply reg_exec_purchase_inv in E. destruct E as (rg & G & _ & _ & _ & Hle & -> & _).
    unfold bcn_bounded. cbn [with_regs r_next r_params r_limits r_regs].
    split; [lia|]. split; [lia|]. split; [lia|]. split.
    + intros id0 l G0. destruct (Z.eq_dec id0 id) as [->|N].
      * rewrite aget_aset_eq in G0. injection G0 as <-.
        assert (0 <= limit_of s id).
        { unfold limit_of. destruct (aget id (r_limits s)) as [l0|] eqn:E0; [apply (HL id l0 E0)|].
          unfold MODULE_DEFAULT_LIMIT. lia. }
        lia.
      * rewrite aget_aset_neq in G0 by congruence. apply (HL id0 l G0).
    + intros id0 rg0 G0. pose proof (HR id0 rg0 G0). lia.
Qed.

Lemma bcn_no_genesis_exec t s m s' r :
  bcn_no_genesis s -> reg_exec false t s m = Ok (s', r) -> bcn_no_genesis s'.
Proof.
  intros NG E.
  destruct m as [o moniker name genesis type | o id key hashes | o id n].
  - apply reg_exec_register_inv in E. destruct E as [_ ->].
    intros id rg G. cbn [r_regs] in G. destruct (Z.eq_dec id (r_next s)) as [->|N].
    + rewrite aget_aset_eq in G. injection G as <-. split; reflexivity.
    + rewrite aget_aset_neq in G by congruence. apply (NG id rg G).
  - apply reg_exec_record_inv in E. destruct E as (rg & k & pr & G & _ & _ & _ & ER & _).
    intros id0 rg0 G0. revert ER G0. unfold record_new.
    destruct (limit_of s (rg_id rg) <? rg_num rg + 1); intros [= <- _ _]; cbn [with_regs r_regs];
      (destruct (Z.eq_dec id0 (rg_id rg)) as [->|N];
       [ rewrite aget_aset_eq; intros [= <-]; cbn [rg_genesis rg_type]; apply (NG id rg G)
       | rewrite aget_aset_neq by congruence; intros G0; apply (NG id0 rg0 G0) ]).
  - apply reg_exec_purchase_inv in E. destruct E as (rg & G & _ & _ & _ & Hle & -> & _).
    intros id0 rg0 G0. cbn [with_regs r_regs] in G0. apply (NG id0 rg0 G0).
Qed.

Definition bcn_hist_ok (h : list (Z * reg_msg)) : Prop :=
  Forall (fun tm => reg_msg_wf (snd tm) /\ 0 <= fst tm < two63 /\
                    (forall o id key hashes, snd tm = RRecord o id key hashes -> List.length hashes = 1%nat)) h.

Lemma bcn_step_keeps B s g t m :
  bcn_regs_ok s -> bcn_no_genesis s -> bcn_bounded B s -> bcn_step_msg_ok m ->
  bcn_bounded (B + 1) (fst (reg_step false (s, g) (t, m))) /\ bcn_no_genesis (fst (reg_step false (s, g) (t, m))).
Proof.
  intros HK NG HB Hok. unfold reg_step.
  assert (H0 : bcn_bounded (B + 1) s) by (apply (bcn_bounded_mono B); [assumption|lia]).
  destruct (reg_validate_basic false m) as [[]| |]; try (split; [exact H0|exact NG]).
  destruct (reg_exec false t s m) as [[s' r]| |] eqn:E; try (split; [exact H0|exact NG]).
  pose proof (bcn_bounded_exec _ _ _ _ _ _ HK HB Hok E) as H1.
  pose proof (bcn_no_genesis_exec _ _ _ _ _ NG E) as H2.
  destruct r as [id|id k|id n c]; try (split; [exact H1|exact H2]).
  destruct (aget (id, k) (r_recs s')); split; assumption.
Qed.

(* a whole history: the counters need only leave room for one increment per message *)
Theorem gen_bcn_run_eq : forall wall h s g B,
  reg_inv false s g -> bcn_no_genesis s -> bcn_bounded B s -> B + Z.of_nat (List.length h) < two64 ->
  bcn_hist_ok h ->
  bcn_run wall (s, g) h = reg_run false (s, g) h.
Proof.
  intros wall h. induction h as [|[t m] h IH]; intros s g B I NG HB Hlen Hh; [reflexivity|].
  inversion Hh as [|? ? (W & Ht & H1) Hh']; subst. cbn [fst snd] in W, Ht, H1.
  cbn [List.length] in Hlen. rewrite Nat2Z.inj_succ in Hlen.
  pose proof (reg_msg_wf_bcn_step _ W H1) as Hok.
  pose proof (reg_inv_bcn_regs_ok _ _ I NG) as HK.
  unfold bcn_run, reg_run. cbn [fold_left].
  rewrite (gen_bcn_step_eq_weak wall s g t m HK
             (bcn_bounded_small B s HB ltac:(lia)) Hok ltac:(unfold two63, two64 in *; lia)).
  pose proof (reg_inv_step false s g t m I W ltac:(lia)) as I'.
  destruct (bcn_step_keeps B s g t m HK NG HB Hok) as [HB' NG'].
  destruct (reg_step false (s, g) (t, m)) as [s1 g1]. cbn [fst snd] in I', HB', NG'.
  exact (IH s1 g1 (B + 1) I' NG' HB' ltac:(lia) Hh').
Qed.

(* ---- consequences stated on their own (props/C08generated*.v, props/C09generated*.v) ---- *)

(* the purchase handler alone: no invariant is needed *)
Theorem gen_bcn_purchase_eq : forall now wall s (o : addr) id n,
  reg_counters_small s -> 0 <= n ->
  bcn_msg_exec (mk_rworld now wall s) (RPurchase o id n) =
    rlift (mk_rworld now wall s) (reg_exec false (now / NSEC) s (RPurchase o id n)).
Proof.
  intros now wall s o id n HS Hn. change (now / NSEC) with (Time_Unix now).
  apply gen_bcn_exec_purchase; [exact (reg_counters_small_bcn _ HS)|exact Hn].
Qed.

(* the model rejects a record / a purchase by anyone but the owner; with the error of the owner check whenever
   ValidateBasic accepts the message *)
Lemma reg_exec_non_owner heighted t s (o : addr) id rg :
  aget id (r_regs s) = Some rg -> o <> rg_owner rg ->
  (forall key hashes, exists c, reg_exec heighted t s (RRecord o id key hashes) = Err c /\
     (reg_validate_basic heighted (RRecord o id key hashes) = Ok tt -> c = ERR_REG_NOT_OWNER)) /\
  (forall n, exists c, reg_exec heighted t s (RPurchase o id n) = Err c /\
     (reg_validate_basic heighted (RPurchase o id n) = Ok tt -> c = ERR_REG_NOT_OWNER)).
Proof.
  intros G N. assert (Eo : negb (o =? rg_owner rg) = true) by lia. split.
  - intros key hashes. cbn [reg_exec reg_validate_basic]. rewrite G, Eo.
    destruct (id =? 0); destruct (is_empty (hd EmptyString hashes)); destruct (key =? 0);
      destruct (existsb (too_long 66) hashes); destruct heighted; cbn [andb];
      eexists; (split; [reflexivity|]); intros X; first [ discriminate X | reflexivity ].
  - intros n. cbn [reg_exec reg_validate_basic]. rewrite G, Eo.
    destruct (id =? 0); destruct (n =? 0);
      eexists; (split; [reflexivity|]); intros X; first [ discriminate X | reflexivity ].
Qed.

Theorem gen_bcn_non_owner_rejected : forall now wall s g (o : addr) id rg,
  reg_inv false s g -> bcn_no_genesis s -> reg_counters_small s -> 0 <= now / NSEC < two63 ->
  aget id (r_regs s) = Some rg -> o <> rg_owner rg ->
  (forall key hashes, List.length hashes = 1%nat -> key <> 0 ->
     exists c, bcn_msg_exec (mk_rworld now wall s) (RRecord o id key hashes) = Err c /\
       (reg_validate_basic false (RRecord o id key hashes) = Ok tt -> c = ERR_REG_NOT_OWNER)) /\
  (forall n, 0 <= n ->
     exists c, bcn_msg_exec (mk_rworld now wall s) (RPurchase o id n) = Err c /\
       (reg_validate_basic false (RPurchase o id n) = Ok tt -> c = ERR_REG_NOT_OWNER)).
Proof.
  intros now wall s g o id rg I NG HS Ht G N.
  assert (Ht' : 0 <= now / NSEC < two64) by (unfold two63, two64 in *; lia).
  destruct (reg_exec_non_owner false (now / NSEC) s o id rg G N) as [HR HP].
  split.
  - intros key hashes Hlen Hkey. destruct (HR key hashes) as (c & E & Hc). exists c. split; [|exact Hc].
    rewrite (gen_bcn_msg_exec_eq_weak now wall s (RRecord o id key hashes) (reg_inv_bcn_regs_ok _ _ I NG)
               (reg_counters_small_bcn _ HS) (conj Hlen Hkey) Ht').
    rewrite E. reflexivity.
  - intros n Hn. destruct (HP n) as (c & E & Hc). exists c. split; [|exact Hc].
    rewrite (gen_bcn_msg_exec_eq_weak now wall s (RPurchase o id n) (reg_inv_bcn_regs_ok _ _ I NG)
               (reg_counters_small_bcn _ HS) Hn Ht').
    rewrite E. reflexivity.
Qed.

(* ---- examples: the hypotheses cannot be dropped, and the wall clock is reachable for a zero submit time ---- *)
Local Open Scope string_scope.
Local Open Scope Z_scope.

Definition ex_params : reg_params :=
  {| rp_fee_register := 1; rp_fee_record := 1; rp_fee_purchase := 1; rp_denom := 0; rp_default_limit := 2; rp_max_limit := 10 |}.
(* one BEACON (id 1, owner 7) that holds nothing; its registration carries a genesis hash, which no BEACON has *)
Definition ex_rg (genesis : string) : registration :=
  {| rg_id := 1; rg_owner := 7; rg_moniker := "m"; rg_name := "n"; rg_genesis := genesis; rg_type := "";
     rg_last := 0; rg_num := 0; rg_lowest := 0; rg_regtime := 1600000000 |}.
Definition ex_state (genesis : string) : reg_state :=
  {| r_params := ex_params; r_next := 2; r_regs := [(1, ex_rg genesis)]; r_limits := [(1, 2)]; r_recs := [] |}.
Definition ex_now : Z := 1700000000 * NSEC.

Lemma ex_state_inv genesis : reg_inv false (ex_state genesis) ghost_init.
Proof.
  constructor.
  - repeat constructor. intros [].
  - repeat constructor. intros [].
  - constructor.
  - reflexivity.
  - cbn. lia.
  - intros id rg G. cbv [aget keqb EqKey_Z ex_state r_regs r_limits] in G. destruct (id =? 1) eqn:E; [|discriminate]. apply Z.eqb_eq in E. subst id.
    injection G as <-. split; [cbn; lia|].
    constructor; cbn; try reflexivity; try lia; try constructor.
    + exists 2. split; [reflexivity|lia].
    + intros H. exfalso. apply H. reflexivity.
  - intros id k rc G. discriminate G.
  - reflexivity.
  - intros id G. reflexivity.
  - intros id m t [].
Qed.

(* [bcn_no_genesis] cannot be dropped: every other hypothesis of gen_bcn_msg_exec_eq holds, the results differ
   (the generated code stores a Beacon, which has no genesis field: the hash is gone; the model keeps it) *)
Example gen_bcn_msg_exec_eq_without_no_genesis_refuted :
  let s := ex_state "0xabc" in
  let m := RRecord 7 1 1650000000 ["h"] in
  reg_inv false s ghost_init /\ reg_counters_small s /\ reg_msg_wf m /\
  (forall o id key hashes, m = RRecord o id key hashes -> List.length hashes = 1%nat /\ key <> 0) /\
  0 <= ex_now / NSEC < two63 /\
  bcn_msg_exec (mk_rworld ex_now 0 s) m <> rlift (mk_rworld ex_now 0 s) (reg_exec false (ex_now / NSEC) s m).
Proof.
  cbv zeta. split; [apply ex_state_inv|]. split.
  { unfold reg_counters_small. cbn [ex_state r_next r_params r_limits r_regs ex_params rp_max_limit rp_default_limit].
    unfold two64. split; [lia|]. split; [lia|]. split; [lia|]. split.
    - intros id l G. cbv [aget keqb EqKey_Z ex_state r_regs r_limits] in G. destruct (id =? 1); [|discriminate]. injection G as <-. lia.
    - intros id rg G. cbv [aget keqb EqKey_Z ex_state r_regs r_limits] in G. destruct (id =? 1); [|discriminate]. injection G as <-. cbn. lia. }
  split; [cbn; unfold u64, two64; lia|].
  split; [intros o id key hashes [= <- <- <- <-]; split; [reflexivity|lia]|].
  split; [vm_compute; split; [discriminate|reflexivity]|].
  vm_compute. intro X. discriminate X.
Qed.

(* with the empty genesis hash the same message is computed identically (non-vacuity of gen_bcn_msg_exec_eq) *)
Example gen_bcn_msg_exec_eq_ex :
  bcn_msg_exec (mk_rworld ex_now 0 (ex_state "")) (RRecord 7 1 1650000000 ["h"]) =
    rlift (mk_rworld ex_now 0 (ex_state "")) (reg_exec false (ex_now / NSEC) (ex_state "") (RRecord 7 1 1650000000 ["h"])).
Proof. vm_compute. reflexivity. Qed.

(* the machine-integer side conditions cannot be dropped either: at HighestBeaconID = 2^64 - 1 the Go counter wraps
   to 0, the model's does not *)
Example gen_bcn_msg_exec_eq_without_counters_refuted :
  let s := reg_init ex_params (two64 - 1) in
  reg_inv false s ghost_init /\ bcn_no_genesis s /\
  bcn_msg_exec (mk_rworld ex_now 0 s) (RRegister 7 "m" "n" "" "") <>
    rlift (mk_rworld ex_now 0 s) (reg_exec false (ex_now / NSEC) s (RRegister 7 "m" "n" "" "")).
Proof.
  cbv zeta. split; [apply reg_inv_init; [reflexivity|unfold two64; lia]|].
  split; [intros id rg G; discriminate G|].
  vm_compute. intro X. discriminate X.
Qed.

(* a zero submit time, which ValidateBasic rejects, is replaced by the node's wall clock: two nodes whose clocks
   differ store different submit times *)
Example gen_bcn_wall_clock_reached_for_zero_submit_time :
  let m := RRecord 7 1 0 ["h"] in
  reg_validate_basic false m = Err ERR_REG /\
  bcn_msg_exec (mk_rworld ex_now (1700000001 * NSEC) (ex_state "")) m <>
    set_wall (1700000001 * NSEC) (bcn_msg_exec (mk_rworld ex_now (1700000002 * NSEC) (ex_state "")) m).
Proof. cbv zeta. split; [reflexivity|]. vm_compute. intro X. discriminate X. Qed.

(* a history from genesis (first id 1, default limit 2, maximum 10): a registration and three timestamps *)
Definition ex_history : list (Z * reg_msg) :=
  [ (1700000000, RRegister 7 "m" "n" "" "");
    (1700000010, RRecord 7 1 1700000005 ["a"]);
    (1700000020, RRecord 7 1 1700000015 ["b"]);
    (1700000030, RRecord 7 1 1700000025 ["c"]) ].

Print Assumptions gen_bcn_GetMaxPurchasableSlots_eq.
Print Assumptions gen_bcn_IncreaseInStateStorage_eq.
Print Assumptions gen_bcn_RegisterNewBeacon_eq.
Print Assumptions gen_bcn_RecordNewBeaconTimestamp_eq.
Print Assumptions gen_bcn_UpdateParams_eq.
Print Assumptions gen_bcn_msg_exec_eq_weak.
Print Assumptions gen_bcn_msg_exec_eq.
Print Assumptions gen_bcn_wall_clock_only_for_zero_submit_time.
Print Assumptions gen_bcn_step_eq.
Print Assumptions gen_bcn_run_eq.
Print Assumptions gen_bcn_msg_exec_eq_without_no_genesis_refuted.
Print Assumptions gen_bcn_msg_exec_eq_without_counters_refuted.
Print Assumptions gen_bcn_wall_clock_reached_for_zero_submit_time.
Print Assumptions gen_bcn_purchase_eq.
Print Assumptions gen_bcn_non_owner_rejected.
