(* C15, last clause ("the same subsequent transactions have the same effects on both chains"), for the
   two representation changes a genesis round trip makes:
   (A) enterprise totals [None] vs [Some (denom, 0)]: every function of model/Enterprise.v reads the
       totals only through [total_locked] / [total_spent], so states related by [ent_sim] (all fields
       equal, totals equal as read) give related results;
   (B) the order of the registries' record store: model/Registry.v reads [r_recs] only through
       [aget] / [aset] / [adel] / [lowest_key], and [lowest_key] depends only on the set of entries,
       so states related by [reg_sim] (same lookups) give the same responses and related states. *)
From MC Require Import lib.Prelude lib.AMap model.Bank model.Stream model.StreamSpec model.Registry
  model.RegistrySpec model.Enterprise model.EnterpriseSpec model.App model.AppSpec model.Genesis.
From MC Require Import proofs.BankProofs proofs.StreamProofs proofs.EnterpriseProofs proofs.RegistryProofs
  proofs.AppFrame proofs.AppParamsProofs proofs.AppInv proofs.GenesisLib proofs.GenesisProofs.
From Coq Require Import Permutation ZifyBool.
Ltac Zify.zify_post_hook ::= Z.div_mod_to_equations.
Local Open Scope Z_scope.

(* ---------- outcomes related up to a relation on the result ---------- *)

Definition osim {A} (R : A -> A -> Prop) (o o' : outcome A) : Prop :=
  match o, o' with
  | Ok x, Ok y => R x y
  | Err c, Err c' => c = c'
  | Panic c, Panic c' => c = c'
  | _, _ => False
  end.

Lemma osim_bind {A B} (R : A -> A -> Prop) (R' : B -> B -> Prop) o o' f f' :
  osim R o o' -> (forall x y, R x y -> osim R' (f x) (f' y)) -> osim R' (obind o f) (obind o' f').
Proof. destruct o, o'; cbn; try tauto; intros; subst; auto. Qed.

Lemma osim_eq_refl {A} (o : outcome A) : osim eq o o.
Proof. destruct o; cbn; auto. Qed.

Lemma osim_mono {A} (R R' : A -> A -> Prop) o o' : (forall x y, R x y -> R' x y) -> osim R o o' -> osim R' o o'.
Proof. destruct o, o'; cbn; auto. Qed.

(* ================================================================= *)
(* A. enterprise                                                      *)
(* ================================================================= *)

Record ent_sim (e e' : ent_state) : Prop := {
  es_params : e_params e = e_params e';
  es_next : e_next e = e_next e';
  es_pos : e_pos e = e_pos e';
  es_rq : e_raisedq e = e_raisedq e';
  es_aq : e_acceptedq e = e_acceptedq e';
  es_wl : e_wl e = e_wl e';
  es_locked : e_locked e = e_locked e';
  es_spent : e_spent e = e_spent e';
  es_tl : total_locked e = total_locked e';
  es_ts : total_spent e = total_spent e'
}.

Ltac esim S :=
  destruct S; constructor; unfold total_locked, total_spent in *;
  cbn [e_params e_next e_pos e_raisedq e_acceptedq e_wl e_locked e_spent e_totlocked e_totspent
       with_pos with_books] in *; congruence.

Lemma ent_sim_refl e : ent_sim e e.
Proof. constructor; reflexivity. Qed.

Lemma ent_sim_sym e e' : ent_sim e e' -> ent_sim e' e.
Proof. intros []; constructor; auto. Qed.

Lemma ent_sim_trans e1 e2 e3 : ent_sim e1 e2 -> ent_sim e2 e3 -> ent_sim e1 e3.
Proof. intros [] []; constructor; congruence. Qed.

(* the state a genesis round trip produces is related to the original *)
Lemma ent_sim_reimported now s : sinv now s -> ent_ordered s -> ent_sim (ent_reimported s) s.
Proof.
  intros Is Ho. destruct (queues_rebuilt_eq now s Is Ho) as [Q1 Q2].
  constructor; cbn [ent_reimported e_params e_next e_pos e_raisedq e_acceptedq e_wl e_locked e_spent]; auto.
Qed.

Lemma locked_coin_sim e e' x : ent_sim e e' -> locked_coin e x = locked_coin e' x.
Proof. intros S. unfold locked_coin. rewrite (es_locked _ _ S), (es_params _ _ S). reflexivity. Qed.

Lemma spent_coin_sim e e' x : ent_sim e e' -> spent_coin e x = spent_coin e' x.
Proof. intros S. unfold spent_coin. rewrite (es_spent _ _ S), (es_params _ _ S). reflexivity. Qed.

Lemma with_pos_sim e e' p r a : ent_sim e e' -> ent_sim (with_pos e p r a) (with_pos e' p r a).
Proof. intros S. esim S. Qed.

Definition rsim {A} (x y : ent_state * A) : Prop := ent_sim (fst x) (fst y) /\ snd x = snd y.
Definition bsim (x y : bank * ent_state) : Prop := fst x = fst y /\ ent_sim (snd x) (snd y).

(* ---- messages ---- *)
Ltac eproj :=
  cbn [e_params e_next e_pos e_raisedq e_acceptedq e_wl e_locked e_spent e_totlocked e_totspent with_pos with_books].
Ltac eclose := constructor; unfold total_locked, total_spent; eproj; auto.

Lemma ent_exec_sim now e e' m : ent_sim e e' -> osim rsim (ent_exec now e m) (ent_exec now e' m).
Proof.
  intros S.
  destruct e as [p nx pos rq aq wl lk sp tl ts], e' as [p' nx' pos' rq' aq' wl' lk' sp' tl' ts'].
  destruct S as [E1 E2 E3 E4 E5 E6 E7 E8 E9 E10].
  cbn [e_params e_next e_pos e_raisedq e_acceptedq e_wl e_locked e_spent] in *. subst.
  unfold total_locked, total_spent in E9, E10. cbn [e_totlocked e_totspent e_params] in E9, E10.
  destruct m as [pu d amt|sg poid dec|sg t act]; cbn [ent_exec]; unfold is_signer; eproj.
  - destruct (negb (d =? ep_denom p')); [reflexivity|]. destruct (amt <=? 0); [reflexivity|].
    destruct (negb (mem_addr pu wl')); [reflexivity|]. split; [|reflexivity]. cbn [fst]. eclose.
  - destruct (negb (mem_addr sg (ep_signers p'))); [reflexivity|].
    destruct (aget poid pos') as [o|]; [|reflexivity].
    destruct (negb ((dec =? ST_ACCEPTED) || (dec =? ST_REJECTED))); [reflexivity|].
    destruct (po_status o =? ST_NIL); [reflexivity|]. destruct (negb (po_status o =? ST_RAISED)); [reflexivity|].
    destruct (existsb _ _); [reflexivity|]. split; [|reflexivity]. cbn [fst]. eclose.
  - destruct (negb (mem_addr sg (ep_signers p'))); [reflexivity|].
    destruct (negb ((act =? 1) || (act =? 2))); [reflexivity|].
    destruct (act =? 1); destruct (mem_addr t wl'); try reflexivity; (split; [|reflexivity]); cbn [fst]; eclose.
Qed.

(* ---- the books ---- *)
Lemma increment_locked_sim e e' a c :
  ent_sim e e' -> osim ent_sim (increment_locked e a c) (increment_locked e' a c).
Proof.
  intros S. unfold increment_locked. rewrite (locked_coin_sim _ _ a S), (es_tl _ _ S).
  destruct (coin_add (locked_coin e' a) c) as [l| |]; cbn [obind]; try reflexivity.
  destruct (snd l <? 0); [reflexivity|].
  destruct (coin_add (total_locked e') c) as [t| |]; cbn [obind osim]; try reflexivity. esim S.
Qed.

Lemma decrement_locked_sim e e' a c :
  ent_sim e e' -> osim ent_sim (decrement_locked e a c) (decrement_locked e' a c).
Proof.
  intros S. unfold decrement_locked. rewrite (locked_coin_sim _ _ a S), (es_tl _ _ S), (es_params _ _ S).
  match goal with |- osim _ (obind ?o _) _ => destruct o as [l| |] end; cbn [obind]; try reflexivity.
  match goal with |- osim _ (obind ?o _) _ => destruct o as [t| |] end; cbn [obind osim]; try reflexivity.
  esim S.
Qed.

Lemma increment_spent_sim e e' a c :
  ent_sim e e' -> osim ent_sim (increment_spent e a c) (increment_spent e' a c).
Proof.
  intros S. unfold increment_spent. rewrite (spent_coin_sim _ _ a S), (es_ts _ _ S).
  destruct (coin_add (spent_coin e' a) c) as [l| |]; cbn [obind]; try reflexivity.
  destruct (coin_add (total_spent e') c) as [t| |]; cbn [obind osim]; try reflexivity. esim S.
Qed.

Lemma mint_and_lock_sim b e e' a c :
  ent_sim e e' -> osim bsim (mint_and_lock b e a c) (mint_and_lock b e' a c).
Proof.
  intros S. unfold mint_and_lock. destruct (snd c =? 0); [split; [reflexivity | exact S]|].
  destruct (bank_mint b ENT_MACC (fst c) (snd c)) as [b1| |]; cbn [obind]; try reflexivity.
  destruct (bank_send_m2a b1 ENT_MACC a (fst c) (snd c)) as [b2| |]; cbn [obind]; try reflexivity.
  destruct (bank_send b2 a ENT_MACC (fst c) (snd c)) as [b3| |]; cbn [obind]; try reflexivity.
  apply (osim_bind ent_sim); [apply increment_locked_sim; exact S|]. intros x y R. split; [reflexivity | exact R].
Qed.

Lemma unlock_for_fees_sim b e e' payer fee :
  ent_sim e e' -> osim bsim (unlock_for_fees b e payer fee) (unlock_for_fees b e' payer fee).
Proof.
  intros S. unfold unlock_for_fees. rewrite (locked_coin_sim _ _ payer S), (es_params _ _ S).
  destruct (fee_find fee (ep_denom (e_params e'))) as [ftp|]; [|reflexivity].
  destruct (negb (safesub_neg (locked_coin e' payer) ftp)).
  - destruct (undelegate_all b payer fee) as [b1| |]; cbn [obind]; try reflexivity.
    apply (osim_bind ent_sim); [apply decrement_locked_sim; exact S|]. intros x y R.
    apply (osim_bind ent_sim); [apply increment_spent_sim; exact R|]. intros x2 y2 R2. split; [reflexivity|exact R2].
  - match goal with |- osim _ (if ?c then _ else _) _ => destruct c end; [|split; [reflexivity | exact S]].
    destruct (bank_send b ENT_MACC payer _ _) as [b1| |]; cbn [obind]; try reflexivity.
    apply (osim_bind ent_sim); [apply decrement_locked_sim; exact S|]. intros x y R.
    apply (osim_bind ent_sim); [apply increment_spent_sim; exact R|]. intros x2 y2 R2. split; [reflexivity|exact R2].
Qed.

(* ---- BeginBlock ---- *)
Lemma process_accepted_sim ids : forall b e e',
  ent_sim e e' -> osim bsim (process_accepted ids b e) (process_accepted ids b e').
Proof.
  induction ids as [|id rest IH]; intros b e e' S; cbn [process_accepted]; [split; [reflexivity|exact S]|].
  rewrite <- (es_pos _ _ S), <- (es_rq _ _ S), <- (es_aq _ _ S).
  destruct (aget id (e_pos e)) as [o|]; [|reflexivity].
  destruct (negb (po_status o =? ST_ACCEPTED)); [reflexivity|]. cbv zeta.
  destruct (negb (addr_parses (po_purchaser o))); [reflexivity|].
  pose proof (mint_and_lock_sim b _ _ (po_purchaser o) (po_denom o, po_amount o)
                (with_pos_sim e e' (aset id (set_po_status o ST_COMPLETED 0 false) (e_pos e))
                              (e_raisedq e) (e_acceptedq e) S)) as M.
  destruct (mint_and_lock b (with_pos e _ _ _) _ _) as [[b2 s2]| |];
    destruct (mint_and_lock b (with_pos e' _ _ _) _ _) as [[b2' s2']| |]; cbn [osim] in M; try contradiction;
    try reflexivity; try (subst; reflexivity).
  destruct M as [Eb R]. cbn [fst snd] in Eb, R. subst b2'. apply IH.
  rewrite <- (es_pos _ _ R), <- (es_rq _ _ R), <- (es_aq _ _ R). apply with_pos_sim; exact R.
Qed.

Lemma tally_sim ids now : forall e e', ent_sim e e' -> osim ent_sim (tally ids now e) (tally ids now e').
Proof.
  induction ids as [|id rest IH]; intros e e' S; cbn [tally]; [exact S|].
  rewrite <- (es_pos _ _ S), <- (es_rq _ _ S), <- (es_aq _ _ S), <- (es_params _ _ S).
  destruct (aget id (e_pos e)) as [o|]; [|reflexivity].
  destruct (negb (po_status o =? ST_RAISED)); [reflexivity|].
  destruct (tally_one (e_params e) now o) as [st|]; [|apply IH; exact S].
  apply IH. apply with_pos_sim; exact S.
Qed.

Lemma ent_begin_block_sim now b e e' :
  ent_sim e e' -> osim bsim (ent_begin_block now b e) (ent_begin_block now b e').
Proof.
  intros S. unfold ent_begin_block. rewrite <- (es_aq _ _ S).
  apply (osim_bind bsim); [apply process_accepted_sim; exact S|].
  intros [b1 s1] [b1' s1'] [Eb R]. cbn [fst snd] in Eb, R. subst b1'. rewrite <- (es_rq _ _ R).
  apply (osim_bind ent_sim); [apply tally_sim; exact R|]. intros x y R2. split; [reflexivity|exact R2].
Qed.

(* ---- parameter updates: related results as long as the denomination is kept (changing it is the
        listed C14 class; with a changed denomination an absent total reads as 0 of the NEW
        denomination while the imported Some (old, 0) keeps the old one) ---- *)
Lemma ent_set_params_sim e e' p :
  ent_sim e e' -> ep_denom p = ep_denom (e_params e) ->
  osim ent_sim (ent_set_params e p) (ent_set_params e' p).
Proof.
  intros S D. unfold ent_set_params. destruct (ent_params_valid p); [|reflexivity]. cbn [osim].
  destruct S as [Ep En Epos Erq Eaq Ewl El Es Etl Ets]. constructor; cbn; auto.
  - unfold total_locked in *. cbn [e_totlocked e_params]. rewrite D, Ep in *. exact Etl.
  - unfold total_spent in *. cbn [e_totspent e_params]. rewrite D, Ep in *. exact Ets.
Qed.

(* ---- queries ---- *)
Lemma q_supply_of_sim b e e' d : ent_sim e e' -> q_supply_of b e d = q_supply_of b e' d.
Proof. intros S. unfold q_supply_of. rewrite (es_params _ _ S), (es_tl _ _ S). reflexivity. Qed.

Lemma q_ent_supply_sim b e e' : ent_sim e e' -> q_ent_supply b e = q_ent_supply b e'.
Proof. intros S. unfold q_ent_supply. rewrite (es_params _ _ S), (es_tl _ _ S). reflexivity. Qed.

(* every module-level step of the enterprise module, on related worlds *)
Definition wsim (w w' : ent_world) : Prop :=
  w_bank w = w_bank w' /\ ent_sim (w_ent w) (w_ent w') /\ w_now w = w_now w'.

Definition owsim (o o' : option ent_world) : Prop :=
  match o, o' with Some w, Some w' => wsim w w' | None, None => True | _, _ => False end.

Theorem ent_step_sim w w' o :
  wsim w w' -> (forall p, o = OSetParams p -> ep_denom p = ep_denom (e_params (w_ent w))) ->
  owsim (ent_step w o) (ent_step w' o).
Proof.
  intros W0 Hp. pose proof W0 as (Eb & S & En). destruct o as [m|now|p|payer fee]; cbn [ent_step].
  - destruct (ent_validate_basic m); try exact W0.
    rewrite <- En, <- Eb. pose proof (ent_exec_sim (w_now w) _ _ m S) as X.
    destruct (ent_exec (w_now w) (w_ent w) m) as [[s1 z1]| |]; destruct (ent_exec (w_now w) (w_ent w') m) as [[s2 z2]| |];
      cbn [osim] in X; try contradiction; try exact W0.
    destruct X as [X _]. cbn [fst] in X. split; [reflexivity | split; [exact X | reflexivity]].
  - rewrite <- Eb. pose proof (ent_begin_block_sim now (w_bank w) _ _ S) as X.
    destruct (ent_begin_block now (w_bank w) (w_ent w)) as [[b1 s1]| |];
      destruct (ent_begin_block now (w_bank w) (w_ent w')) as [[b2 s2]| |]; cbn [osim] in X; try contradiction;
      try exact Logic.I.
    destruct X as [X1 X2]. cbn [fst snd] in X1, X2. split; [exact X1 | split; [exact X2 | reflexivity]].
  - pose proof (ent_set_params_sim _ _ p S (Hp p eq_refl)) as X.
    destruct (ent_set_params (w_ent w) p) as [s1| |]; destruct (ent_set_params (w_ent w') p) as [s2| |];
      cbn [osim] in X; try contradiction; try exact W0.
    split; [exact Eb | split; [exact X | exact En]].
  - rewrite <- Eb. pose proof (unlock_for_fees_sim (w_bank w) _ _ payer fee S) as X.
    destruct (unlock_for_fees (w_bank w) (w_ent w) payer fee) as [[b1 s1]| |];
      destruct (unlock_for_fees (w_bank w) (w_ent w') payer fee) as [[b2 s2]| |]; cbn [osim] in X; try contradiction;
      try exact W0.
    destruct X as [X1 X2]. cbn [fst snd] in X1, X2. split; [exact X1 | split; [exact X2 | exact En]].
Qed.

(* ================================================================= *)
(* B. registries                                                      *)
(* ================================================================= *)

(* [lowest_key] returns the least key stored for [id] (0 if there is none), whatever the order of
   the store, as long as keys are positive *)
Lemma lowest_key_spec id recs :
  (forall k rc, In ((id, k), rc) recs -> 1 <= k) ->
  (lowest_key id recs = 0 /\ forall k rc, ~ In ((id, k), rc) recs) \/
  ((exists rc, In ((id, lowest_key id recs), rc) recs) /\
   forall k rc, In ((id, k), rc) recs -> lowest_key id recs <= k).
Proof.
  induction recs as [|[[i h] v] r IH]; intros Hpos; [left; split; [reflexivity | intros ? ? []]|].
  assert (Hpos' : forall k rc, In ((id, k), rc) r -> 1 <= k) by (intros k rc X; apply (Hpos k rc); right; exact X).
  specialize (IH Hpos'). cbn [lowest_key]. destruct (i =? id) eqn:E.
  - apply Z.eqb_eq in E; subst i. assert (1 <= h) by (apply (Hpos h v); left; reflexivity). right.
    destruct IH as [[E0 Hn]|[[rc0 Hin] Hmin]].
    + rewrite E0. cbn [Z.eqb orb]. split; [exists v; left; reflexivity|].
      intros k rc [X|X]; [injection X as <- _; lia | exfalso; exact (Hn k rc X)].
    + assert (1 <= lowest_key id r) by (apply (Hpos' _ rc0 Hin)).
      destruct ((lowest_key id r =? 0) || (h <? lowest_key id r)) eqn:C.
      * split; [exists v; left; reflexivity|].
        intros k rc [X|X]; [injection X as <- _; lia | specialize (Hmin k rc X); lia].
      * split; [exists rc0; right; exact Hin|].
        intros k rc [X|X]; [injection X as <- _; lia | exact (Hmin k rc X)].
  - apply Z.eqb_neq in E.
    assert (Hiff : forall k rc, In ((id, k), rc) (((i, h), v) :: r) <-> In ((id, k), rc) r).
    { intros k rc. split; [intros [X|X]; [injection X as -> _ _; congruence | exact X] | intros X; right; exact X]. }
    destruct IH as [[E0 Hn]|[[rc0 Hin] Hmin]].
    + left. split; [exact E0|]. intros k rc X. apply Hiff in X. exact (Hn k rc X).
    + right. split; [exists rc0; right; exact Hin|]. intros k rc X. apply Hiff in X. exact (Hmin k rc X).
Qed.

Lemma lowest_key_ext id recs recs' :
  (forall k rc, In ((id, k), rc) recs <-> In ((id, k), rc) recs') ->
  (forall k rc, In ((id, k), rc) recs -> 1 <= k) ->
  lowest_key id recs = lowest_key id recs'.
Proof.
  intros Hiff Hpos.
  assert (Hpos' : forall k rc, In ((id, k), rc) recs' -> 1 <= k) by (intros k rc X; apply (Hpos k rc), Hiff, X).
  destruct (lowest_key_spec id recs Hpos) as [[E0 Hn]|[[rc0 Hin] Hmin]];
    destruct (lowest_key_spec id recs' Hpos') as [[E0' Hn']|[[rc0' Hin'] Hmin']].
  - congruence.
  - exfalso. apply Hiff in Hin'. exact (Hn _ _ Hin').
  - exfalso. apply Hiff in Hin. exact (Hn' _ _ Hin).
  - pose proof (Hmin _ _ (proj2 (Hiff _ _) Hin')). pose proof (Hmin' _ _ (proj1 (Hiff _ _) Hin)). lia.
Qed.

(* in particular it is invariant under permutation of the store *)
Lemma lowest_key_perm id recs recs' :
  Permutation recs recs' -> (forall k rc, In ((id, k), rc) recs -> 1 <= k) ->
  lowest_key id recs = lowest_key id recs'.
Proof.
  intros P. apply lowest_key_ext. intros k rc.
  split; apply Permutation_in; [exact P | apply Permutation_sym; exact P].
Qed.

Record reg_sim (s s' : reg_state) : Prop := {
  rs_params : r_params s = r_params s';
  rs_next : r_next s = r_next s';
  rs_regs : r_regs s = r_regs s';
  rs_limits : r_limits s = r_limits s';
  rs_recs : forall key, aget key (r_recs s) = aget key (r_recs s');
  rs_nd : NoDup (akeys (r_recs s));
  rs_nd' : NoDup (akeys (r_recs s'))
}.

Lemma reg_sim_refl h s g : reg_inv h s g -> reg_sim s s.
Proof. intros I. constructor; auto; apply (inv_nd_recs _ _ _ I). Qed.

Lemma reg_sim_sym s s' : reg_sim s s' -> reg_sim s' s.
Proof. intros []; constructor; auto. Qed.

Lemma reg_sim_reimported h s g : reg_inv h s g -> under_cap s -> reg_sim (reg_reimported s) s.
Proof.
  intros I C. constructor; try reflexivity.
  - apply (reimported_regs_same h s g I C).
  - intros key. apply (reimported_recs_aget h s g key I C).
  - apply (reimported_recs_nodup h s g I).
  - apply (inv_nd_recs _ _ _ I).
Qed.

Lemma reg_sim_In s s' key rc : reg_sim s s' -> (In (key, rc) (r_recs s) <-> In (key, rc) (r_recs s')).
Proof.
  intros S. split; intros X.
  - apply aget_In. rewrite <- (rs_recs _ _ S). apply In_aget_nodup; [apply S | exact X].
  - apply aget_In. rewrite (rs_recs _ _ S). apply In_aget_nodup; [apply S | exact X].
Qed.

Lemma reg_sim_perm s s' : reg_sim s s' -> Permutation (r_recs s) (r_recs s').
Proof.
  intros S. apply perm_ext_In; [apply S | apply S |]. intros k v. apply (reg_sim_In s s' k v S).
Qed.

(* queries *)
Lemma q_registration_sim s s' id : reg_sim s s' -> q_registration s id = q_registration s' id.
Proof. intros S. unfold q_registration. rewrite (rs_regs _ _ S). reflexivity. Qed.

Lemma q_record_sim s s' id k : reg_sim s s' -> q_record s id k = q_record s' id k.
Proof. intros S. unfold q_record. apply S. Qed.

Lemma limit_of_sim s s' id : reg_sim s s' -> limit_of s id = limit_of s' id.
Proof. intros S. unfold limit_of. rewrite (rs_limits _ _ S). reflexivity. Qed.

Lemma max_purchasable_sim s s' id : reg_sim s s' -> max_purchasable s id = max_purchasable s' id.
Proof. intros S. unfold max_purchasable. rewrite (rs_limits _ _ S), (rs_params _ _ S). reflexivity. Qed.

Lemma q_storage_sim s s' id : reg_sim s s' -> q_storage s id = q_storage s' id.
Proof.
  intros S. unfold q_storage. rewrite (rs_regs _ _ S), (rs_params _ _ S).
  destruct (aget id (r_regs s')); [|reflexivity]. rewrite (limit_of_sim _ _ id S), (max_purchasable_sim _ _ id S).
  reflexivity.
Qed.

(* lookups after a write / a delete, on maps with the same lookups *)
Section Ext.
  Context {K V : Type} `{EqKey K}.
  Definition aext (m m' : amap K V) : Prop := forall k, aget k m = aget k m'.

  Lemma aext_aset k v (m m' : amap K V) : aext m m' -> aext (aset k v m) (aset k v m').
  Proof.
    intros E k'. destruct (keqb k k') eqn:Ek.
    - apply keqb_spec in Ek; subst. rewrite !aget_aset_eq. reflexivity.
    - apply keqb_false in Ek. rewrite !aget_aset_neq by exact Ek. apply E.
  Qed.

  Lemma aext_adel k (m m' : amap K V) :
    NoDup (akeys m) -> NoDup (akeys m') -> aext m m' -> aext (adel k m) (adel k m').
  Proof.
    intros N N' E k'. destruct (keqb k k') eqn:Ek.
    - apply keqb_spec in Ek; subst. rewrite !aget_adel_eq by assumption. reflexivity.
    - apply keqb_false in Ek. rewrite !aget_adel_neq by exact Ek. apply E.
  Qed.
End Ext.

Definition rrsim {A} (x y : reg_state * A) : Prop := reg_sim (fst x) (fst y) /\ snd x = snd y.

Lemma record_new_sim h t s s' g id rg key hashes :
  reg_inv h s g -> reg_sim s s' -> aget id (r_regs s) = Some rg ->
  (h = true -> rg_last rg < key) ->
  let '(s1, k1, p1) := record_new h t s rg key hashes in
  let '(s2, k2, p2) := record_new h t s' rg key hashes in
  reg_sim s1 s2 /\ k1 = k2 /\ p1 = p2.
Proof.
  intros I S G Hk.
  destruct (inv_regs _ _ _ I _ _ G) as [_ Hok]. pose proof (ok_id _ _ _ _ _ _ Hok) as Eid.
  pose proof (reg_ok_last_nonneg _ _ _ _ _ _ Hok) as Hl0.
  assert (Hpos : forall k rc, aget (id, k) (r_recs s) = Some rc -> 1 <= k).
  { intros k rc X. apply (aget_recs_of _ _ _ _ (inv_nd_recs _ _ _ I)) in X.
    destruct (reg_ok_rs_sorted _ _ _ _ _ _ Hok) as [_ F]. rewrite Forall_forall in F. apply F.
    change k with (fst (k, rc)). apply in_map; exact X. }
  destruct s as [p nx regs lims recs], s' as [p' nx' regs' lims' recs'].
  destruct S as [E1 E2 E3 E4 E5 N N']. cbn [r_params r_next r_regs r_limits r_recs] in *. subst p' nx' regs' lims'.
  unfold record_new, limit_of. cbn [r_params r_next r_regs r_limits r_recs with_regs]. rewrite Eid.
  set (k := if h then key else rg_last rg + 1).
  set (rc := {| rc_key := k; rc_hashes := hashes; rc_time := if h then t else key |}).
  assert (X1 : aext (aset (id, k) rc recs) (aset (id, k) rc recs')) by (apply aext_aset; exact E5).
  pose proof (NoDup_akeys_aset (id, k) rc recs N) as N1. pose proof (NoDup_akeys_aset (id, k) rc recs' N') as N1'.
  set (lim := match aget id lims with Some l => l | None => MODULE_DEFAULT_LIMIT end).
  destruct (lim <? rg_num rg + 1).
  - destruct h.
    + destruct (0 <? rg_lowest rg).
      * assert (X2 : aext (adel (id, rg_lowest rg) (aset (id, k) rc recs)) (adel (id, rg_lowest rg) (aset (id, k) rc recs')))
          by (apply aext_adel; assumption).
        pose proof (NoDup_akeys_adel (id, rg_lowest rg) _ N1) as N2. pose proof (NoDup_akeys_adel (id, rg_lowest rg) _ N1') as N2'.
        assert (EL : lowest_key id (adel (id, rg_lowest rg) (aset (id, k) rc recs))
                     = lowest_key id (adel (id, rg_lowest rg) (aset (id, k) rc recs'))).
        { apply lowest_key_ext.
          - intros k0 rc0. split; intros Y; apply aget_In.
            + rewrite <- X2. apply In_aget_nodup; assumption.
            + rewrite X2. apply In_aget_nodup; assumption.
          - intros k0 rc0 Y. apply (In_aget_nodup _ _ _ N2) in Y.
            destruct (Z.eq_dec k0 (rg_lowest rg)) as [->|Nd]; [rewrite aget_adel_eq in Y by exact N1; discriminate|].
            rewrite aget_adel_neq in Y by (intros [= ?]; congruence).
            destruct (Z.eq_dec k0 k) as [->|Nk].
            * subst k. specialize (Hk eq_refl). lia.
            * rewrite aget_aset_neq in Y by (intros [= ?]; congruence). exact (Hpos k0 rc0 Y). }
        rewrite EL. split; [|split; reflexivity]. constructor; cbn [r_params r_next r_regs r_limits r_recs]; auto.
      * split; [|split; reflexivity]. constructor; cbn [r_params r_next r_regs r_limits r_recs]; auto.
    + split; [|split; reflexivity]. constructor; cbn [r_params r_next r_regs r_limits r_recs]; auto.
      * apply aext_adel; assumption.
      * apply NoDup_akeys_adel; exact N1.
      * apply NoDup_akeys_adel; exact N1'.
  - split; [|split; reflexivity]. constructor; cbn [r_params r_next r_regs r_limits r_recs]; auto.
Qed.

Theorem reg_exec_sim h t s s' g m :
  reg_inv h s g -> reg_sim s s' -> osim rrsim (reg_exec h t s m) (reg_exec h t s' m).
Proof.
  intros I S. destruct m as [o moniker name genesis type|o id key hashes|o id n]; cbn [reg_exec].
  - destruct (too_long 128 name); [reflexivity|]. destruct (too_long 64 moniker); [reflexivity|].
    destruct (is_empty moniker); [reflexivity|]. cbn [osim]. rewrite <- (rs_next _ _ S), <- (rs_params _ _ S),
      <- (rs_regs _ _ S), <- (rs_limits _ _ S). split; [|reflexivity]. cbn [fst].
    destruct S. constructor; cbn [r_params r_next r_regs r_limits r_recs]; auto.
  - destruct (h && (key =? 0)); [reflexivity|]. destruct (existsb (too_long 66) hashes); [reflexivity|].
    rewrite <- (rs_regs _ _ S). destruct (aget id (r_regs s)) as [rg|] eqn:G; [|reflexivity].
    destruct (negb (o =? rg_owner rg)); [reflexivity|].
    destruct (h && negb (rg_last rg <? key)) eqn:C; [reflexivity|].
    assert (Hk : h = true -> rg_last rg < key) by (intros ->; cbn in C; lia).
    pose proof (record_new_sim h t s s' g id rg key hashes I S G Hk) as X.
    destruct (record_new h t s rg key hashes) as [[s1 k1] p1]. destruct (record_new h t s' rg key hashes) as [[s2 k2] p2].
    destruct X as (X1 & -> & ->). split; [exact X1 | reflexivity].
  - destruct (n =? 0); [reflexivity|]. rewrite <- (rs_regs _ _ S).
    destruct (aget id (r_regs s)) as [rg|]; [|reflexivity]. destruct (negb (o =? rg_owner rg)); [reflexivity|].
    rewrite <- (limit_of_sim _ _ id S), <- (rs_params _ _ S).
    destruct ((rp_max_limit (r_params s) <? n) || (rp_max_limit (r_params s) - n <? limit_of s id)); [reflexivity|].
    rewrite <- (rs_limits _ _ S). cbn [osim].
    assert (S1 : reg_sim (with_regs s (r_regs s) (aset id (limit_of s id + n) (r_limits s)) (r_recs s))
                         (with_regs s' (r_regs s) (aset id (limit_of s id + n) (r_limits s)) (r_recs s'))).
    { destruct S. constructor; cbn [with_regs r_params r_next r_regs r_limits r_recs]; auto. }
    split; [exact S1|]. cbn [snd fst]. rewrite (max_purchasable_sim _ _ id S1). reflexivity.
Qed.

(* the registry invariant is kept by a successful message (no ValidateBasic needed) *)
Lemma reg_exec_inv h t s g m s1 r :
  reg_inv h s g -> reg_msg_wf m -> reg_exec h t s m = Ok (s1, r) -> exists g1, reg_inv h s1 g1.
Proof.
  intros I W E. destruct m as [o moniker name genesis type|o id key hashes|o id n].
  - pose proof (reg_exec_register_inv _ _ _ _ _ _ _ _ _ _ E) as [-> _].
    eexists. eapply reg_inv_register; eassumption.
  - destruct W as [_ [_ Hkey]].
    destruct (reg_inv_record _ _ _ _ _ _ _ _ _ _ I Hkey E) as [rg [G [-> [Hget I']]]]. eexists. exact I'.
  - destruct W as [_ [_ [Hn _]]]. eexists. exact (reg_inv_purchase _ _ _ _ _ _ _ _ _ I Hn E).
Qed.

(* related registries stay related along any sequence of messages, with identical responses *)
Theorem reg_msgs_sim h (ms : list (Z * reg_msg)) : forall s s' g,
  reg_inv h s g -> reg_sim s s' -> Forall (fun tm => reg_msg_wf (snd tm)) ms ->
  let run := fold_left (fun (acc : reg_state * list (outcome reg_resp)) tm =>
                          match reg_exec h (fst tm) (fst acc) (snd tm) with
                          | Ok (s1, r) => (s1, snd acc ++ [Ok r])
                          | Err c => (fst acc, snd acc ++ [Err c])
                          | Panic c => (fst acc, snd acc ++ [Panic c])
                          end) ms in
  forall log, reg_sim (fst (run (s, log))) (fst (run (s', log))) /\ snd (run (s, log)) = snd (run (s', log)).
Proof.
  induction ms as [|[t m] ms IH]; intros s s' g I S W run log; subst run; cbn [fold_left fst snd].
  - split; [exact S | reflexivity].
  - inversion W as [|? ? Wm W']; subst. cbn [snd] in Wm.
    pose proof (reg_exec_sim h t s s' g m I S) as X.
    destruct (reg_exec h t s m) as [[s1 r1]| |] eqn:E1; destruct (reg_exec h t s' m) as [[s2 r2]| |] eqn:E2;
      cbn [osim] in X; try contradiction.
    + destruct X as [X1 X2]. cbn [fst snd] in X1, X2. subst r2.
      destruct (reg_exec_inv h t s g m s1 r1 I Wm E1) as [g1 I1]. apply (IH s1 s2 g1 I1 X1 W').
    + subst. apply (IH s s' g I S W').
    + subst. apply (IH s s' g I S W').
Qed.
