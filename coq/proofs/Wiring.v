(* Source-derived obligations: facts the model relies on, proved against coq/Generated.v, which the
   translator rewrites from /repo's working tree on every run.  Each is decided by computation on
   the finite generated tables (a proof: the tables are finite and the checkers are proved sound in
   lib/Reach.v). *)
From Coq Require Import List String Bool ZArith.
From MC Require Import lib.Reach Generated.
Import ListNotations.
Open Scope string_scope.

Fixpoint assoc {A} (k : string) (l : list (string * A)) : option A :=
  match l with [] => None | (k', v) :: r => if String.eqb k k' then Some v else assoc k r end.

(* ---- ante chain: the order the model's [ante] function implements ---- *)
Theorem wiring_ante_order :
  ante_order =
  ["authante.NewSetUpContextDecorator"; "authante.NewExtensionOptionsDecorator"; "authante.NewValidateBasicDecorator";
   "authante.NewTxTimeoutHeightDecorator"; "authante.NewValidateMemoDecorator"; "authante.NewConsumeGasForTxSizeDecorator";
   "wrkante.NewCorrectWrkChainFeeDecorator"; "beaconante.NewCorrectBeaconFeeDecorator"; "entante.NewCheckLockedUndDecorator";
   "authante.NewDeductFeeDecorator"; "authante.NewSetPubKeyDecorator"; "authante.NewValidateSigCountDecorator";
   "authante.NewSigGasConsumeDecorator"; "authante.NewSigVerificationDecorator"; "authante.NewIncrementSequenceDecorator";
   "ibcante.NewRedundantRelayDecorator"].
Proof. vm_compute. reflexivity. Qed.

(* ---- module account permissions: only enterprise (and the IBC transfer module) may mint ---- *)
Definition minters : list string :=
  map fst (filter (fun e => mem "Minter" (snd e)) macc_perms).
Theorem wiring_minters : minters = ["enttypes.ModuleName"; "ibctransfertypes.ModuleName"].
Proof. vm_compute. reflexivity. Qed.

Theorem wiring_enterprise_perms : assoc "enttypes.ModuleName" macc_perms = Some ["Minter"; "Staking"].
Proof. vm_compute. reflexivity. Qed.

Theorem wiring_stream_has_no_perms : assoc "streamtypes.ModuleName" macc_perms = Some [].
Proof. vm_compute. reflexivity. Qed.

(* every module account is blocked except gov *)
Theorem wiring_blocked : blocked_removed = ["authtypes.NewModuleAddress(govtypes.ModuleName).String()"]
  /\ mem "enttypes.ModuleName" (map fst macc_perms) = true /\ mem "streamtypes.ModuleName" (map fst macc_perms) = true
  /\ mem "authtypes.FeeCollectorName" (map fst macc_perms) = true.
Proof. vm_compute. repeat split; reflexivity. Qed.

(* no inflation module runs in BeginBlock / EndBlock *)
Theorem wiring_no_mint_module : mem "minttypes.ModuleName" (begin_blockers ++ end_blockers ++ genesis_order) = false.
Proof. vm_compute. reflexivity. Qed.

(* the only repository function calling BankKeeper.MintCoins, and its only caller *)
Theorem wiring_mint_callers :
  callers callgraph "ext:MintCoins" = ["x/enterprise/keeper:Keeper.MintCoinsAndLock"]
  /\ callers callgraph "x/enterprise/keeper:Keeper.MintCoinsAndLock" = ["x/enterprise/keeper:Keeper.ProcessAcceptedPurchaseOrders"]
  /\ callers callgraph "x/enterprise/keeper:Keeper.ProcessAcceptedPurchaseOrders" = ["x/enterprise:.BeginBlocker"]
  /\ callers callgraph "ext:BurnCoins" = [].
Proof. vm_compute. repeat split; reflexivity. Qed.

(* enterprise BeginBlocker: complete accepted orders first, then tally *)
Theorem wiring_enterprise_begin_blocker :
  enterprise_beginblocker_calls = ["ProcessAcceptedPurchaseOrders"; "TallyPurchaseOrderDecisions"].
Proof. vm_compute. reflexivity. Qed.

(* genesis: enterprise and stream are initialised before crisis asserts the invariants *)
Fixpoint index_of (x : string) (l : list string) (i : nat) : option nat :=
  match l with [] => None | y :: r => if String.eqb x y then Some i else index_of x r (S i) end.
Definition before (a b : string) (l : list string) : bool :=
  match index_of a l 0, index_of b l 0 with Some i, Some j => Nat.ltb i j | _, _ => false end.
Theorem wiring_genesis_order :
  before "enttypes.ModuleName" "crisistypes.ModuleName" genesis_order = true
  /\ before "streamtypes.ModuleName" "crisistypes.ModuleName" genesis_order = true
  /\ before "banktypes.ModuleName" "enttypes.ModuleName" genesis_order = true
  /\ mem "wrkchaintypes.ModuleName" genesis_order = true /\ mem "beacontypes.ModuleName" genesis_order = true.
Proof. vm_compute. repeat split; reflexivity. Qed.

(* the message-type lists of the three type switches of each fee decorator agree *)
Theorem wiring_fee_switches :
  assoc "CheckIsWrkChainTx" type_switches = Some ["MsgRegisterWrkChain"; "MsgRecordWrkChainBlock"; "MsgPurchaseWrkChainStateStorage"]
  /\ assoc "checkWrkchainFees" type_switches = assoc "CheckIsWrkChainTx" type_switches
  /\ assoc "checkWrkChainMaxSlots" type_switches = Some ["MsgPurchaseWrkChainStateStorage"]
  /\ assoc "CheckIsBeaconTx" type_switches = Some ["MsgRegisterBeacon"; "MsgRecordBeaconTimestamp"; "MsgPurchaseBeaconStateStorage"]
  /\ assoc "checkBeaconFees" type_switches = assoc "CheckIsBeaconTx" type_switches
  /\ assoc "checkBeaconMaxSlots" type_switches = Some ["MsgPurchaseBeaconStateStorage"].
Proof. vm_compute. repeat split; reflexivity. Qed.

(* GetSigners reads the field the model's [msg_signer] uses *)
Theorem wiring_get_signers :
  get_signers_field =
  [("beacon.MsgPurchaseBeaconStateStorage", "Owner"); ("beacon.MsgRecordBeaconTimestamp", "Owner");
   ("beacon.MsgRegisterBeacon", "Owner"); ("beacon.MsgUpdateParams", "Authority");
   ("enterprise.MsgProcessUndPurchaseOrder", "Signer"); ("enterprise.MsgUndPurchaseOrder", "Purchaser");
   ("enterprise.MsgUpdateParams", "Authority"); ("enterprise.MsgWhitelistAddress", "Signer");
   ("stream.MsgCancelStream", "Sender"); ("stream.MsgClaimStream", "Receiver"); ("stream.MsgCreateStream", "Sender");
   ("stream.MsgTopUpDeposit", "Sender"); ("stream.MsgUpdateFlowRate", "Sender"); ("stream.MsgUpdateParams", "Authority");
   ("wrkchain.MsgPurchaseWrkChainStateStorage", "Owner"); ("wrkchain.MsgRecordWrkChainBlock", "Owner");
   ("wrkchain.MsgRegisterWrkChain", "Owner"); ("wrkchain.MsgUpdateParams", "Authority")].
Proof. vm_compute. reflexivity. Qed.

(* every UpdateParams compares the message authority with the keeper's, every SetParams validates *)
Theorem wiring_authority_and_validation :
  authority_checked = ["x/beacon/keeper"; "x/enterprise/keeper"; "x/stream/keeper"; "x/wrkchain/keeper"]
  /\ setparams_validates = ["x/beacon/keeper"; "x/enterprise/keeper"; "x/stream/keeper"; "x/wrkchain/keeper"].
Proof. vm_compute. split; reflexivity. Qed.

(* key prefixes as modelled in model/Keys.v *)
Theorem wiring_prefixes :
  prefixes_enterprise =
    [("AcceptedPoPrefix", [5%N]); ("HighestPurchaseOrderIDKey", [32%N]); ("LockedUndAddressKeyPrefix", [2%N]);
     ("ParamsKey", [7%N]); ("PurchaseOrderIDKeyPrefix", [1%N]); ("RaisedPoPrefix", [4%N]);
     ("SpentEFUNDAddressKeyPrefix", [6%N]); ("TotalLockedUndKey", [153%N]); ("TotalSpentEFUNDKey", [152%N]);
     ("WhitelistKeyPrefix", [3%N])]
  /\ prefixes_wrkchain =
    [("HighestWrkChainIDKey", [32%N]); ("ParamsKey", [4%N]); ("RecordedWrkChainBlockHashPrefix", [2%N]);
     ("RegisteredWrkChainPrefix", [1%N]); ("WrkChainStorageLimitPrefix", [3%N])]
  /\ prefixes_beacon =
    [("BeaconStorageLimitPrefix", [3%N]); ("HighestBeaconIDKey", [32%N]); ("ParamsKey", [4%N]);
     ("RecordedBeaconTimestampPrefix", [2%N]); ("RegisteredBeaconPrefix", [1%N])]
  /\ prefixes_stream = [("ParamsKey", [1%N]); ("StreamKeyPrefix", [17%N])].
Proof. vm_compute. repeat split; reflexivity. Qed.

(* each of the four modules owns its own KV store *)
Theorem wiring_separate_stores :
  mem "enttypes.StoreKey" store_keys = true /\ mem "wrkchaintypes.StoreKey" store_keys = true
  /\ mem "beacontypes.StoreKey" store_keys = true /\ mem "streamtypes.StoreKey" store_keys = true.
Proof. vm_compute. repeat split; reflexivity. Qed.

(* constants: the export cap and the module default limit used when no limit is stored *)
Theorem wiring_consts :
  assoc "wrkchain.MaxBlockSubmissionsKeepInState" consts = Some 20000%Z
  /\ assoc "beacon.MaxHashSubmissionsToExport" consts = Some 20000%Z
  /\ assoc "wrkchain.DefaultStorageLimit" consts = Some 50000%Z /\ assoc "beacon.DefaultStorageLimit" consts = Some 50000%Z
  /\ assoc "wrkchain.DefaultStartingWrkChainID" consts = Some 1%Z /\ assoc "beacon.DefaultStartingBeaconID" consts = Some 1%Z.
Proof. vm_compute. repeat split; reflexivity. Qed.

Theorem wiring_size_limits :
  assoc "wrkchain.RegisterWrkChain" size_limits = Some [128%Z; 64%Z]
  /\ assoc "beacon.RegisterBeacon" size_limits = Some [128%Z; 64%Z]
  /\ assoc "wrkchain.RecordWrkChainBlock" size_limits = Some [66%Z; 66%Z; 66%Z; 66%Z; 66%Z]
  /\ assoc "beacon.RecordBeaconTimestamp" size_limits = Some [66%Z].
Proof. vm_compute. repeat split; reflexivity. Qed.

(* ---- determinism (C01): effects reachable from the consensus entry points ---- *)
Definition bad_effect (e : string) : bool :=
  mem e ["WallClock"; "Rand"; "Goroutine"; "Select"; "Env"; "MapRange"].
Definition effectful_reachable : list (string * list string) :=
  flagged_in (existsb bad_effect) reach_consensus effects.

Theorem wiring_reach_consensus_closed :
  closed callgraph reach_consensus = true /\ subset roots_consensus reach_consensus = true.
Proof. vm_compute. split; reflexivity. Qed.

(* the audited sites, each with its own justification (see props/C01.v) *)
Theorem wiring_effects_audited :
  effectful_reachable =
  [("x/beacon/ante:.checkBeaconMaxSlots", ["MapRange"]);
   ("x/beacon/keeper:msgServer.RecordBeaconTimestamp", ["WallClock"]);
   ("x/enterprise:.BeginBlocker", ["WallClock"]);
   ("x/wrkchain/ante:.checkWrkChainMaxSlots", ["MapRange"])].
Proof. vm_compute. reflexivity. Qed.

(* every function with a nondeterministic effect that is NOT in the audited list is unreachable *)
Theorem wiring_other_effects_unreachable :
  forall n es, In (n, es) effects -> existsb bad_effect es = true ->
    mem n (map fst effectful_reachable) = false ->
    forall r, In r roots_consensus -> ~ path callgraph r n.
Proof.
  exact (flagged_outside_unreachable callgraph reach_consensus roots_consensus effects (existsb bad_effect)
           (proj1 wiring_reach_consensus_closed) (proj2 wiring_reach_consensus_closed)).
Qed.

(* the wall-clock read of BeginBlocker flows only into telemetry; the one in RecordBeaconTimestamp is
   the default for SubmitTime = 0, which ValidateBasic rejects *)
Theorem wiring_wallclock_flows :
  assoc "x/enterprise:.BeginBlocker" wallclock_flows_to = Some ["telemetry.ModuleMeasureSince"]
  /\ assoc "x/beacon/keeper:msgServer.RecordBeaconTimestamp" wallclock_flows_to = Some ["assigned:subtime"]
  /\ validate_basic_rejects_zero_submit_time = ["x/beacon/types"].
Proof. vm_compute. repeat split; reflexivity. Qed.

(* ---- queries never write (C20) ---- *)
Theorem wiring_reach_query_closed :
  closed callgraph reach_query = true /\ subset roots_query reach_query = true.
Proof. vm_compute. split; reflexivity. Qed.

Definition write_nodes : list string :=
  ["ext:Set"; "ext:Delete"; "ext:MintCoins"; "ext:BurnCoins"; "ext:SendCoins"; "ext:SendCoinsFromModuleToAccount";
   "ext:SendCoinsFromAccountToModule"; "ext:SendCoinsFromModuleToModule"; "ext:DelegateCoinsFromAccountToModule";
   "ext:UndelegateCoinsFromModuleToAccount"].

Lemma write_nodes_outside_reach_query : forallb (fun w => negb (mem w reach_query)) write_nodes = true.
Proof. vm_compute. reflexivity. Qed.

Theorem wiring_queries_never_write :
  forall w, In w write_nodes -> forall r, In r roots_query -> ~ path callgraph r w.
Proof.
  intros w Hw r Hr.
  destruct wiring_reach_query_closed as [C S].
  apply (unreachable_outside callgraph reach_query roots_query w C S); [|exact Hr].
  pose proof write_nodes_outside_reach_query as F. rewrite forallb_forall in F.
  specialize (F w Hw). destruct (mem w reach_query); [discriminate | reflexivity].
Qed.

Theorem wiring_query_roots_nonempty : Nat.leb 20 (List.length roots_query) = true.
Proof. vm_compute. reflexivity. Qed.

(* ---- state outside the committed store (C01) ---- *)
(* Everything the consensus code can remember between two calls must live in the multistore: a restarted process has
   forgotten everything else, and a context that is discarded must take its writes with it.  [process_state] lists, for
   the packages on the consensus path, the fields of the keeper / decorator / server / module structs and the
   package-level variables.  None of them may be able to hold mutable state of its own: no pointer, map, slice,
   channel, sync or atomic type, no package-level variable at all.  (Interfaces to other keepers, store keys, codecs and
   strings fixed at construction are what is there.) *)
Fixpoint str_contains (p s : string) : bool :=
  String.prefix p s || match s with EmptyString => false | String _ r => str_contains p r end.
Definition mutable_markers : list string := ["*"; "map["; "[]"; "chan "; "sync."; "atomic."; ": var "].
Definition holds_process_state (e : string) : bool := existsb (fun m => str_contains m e) mutable_markers.

Theorem wiring_no_process_state : filter holds_process_state process_state = [] /\ Nat.leb 40 (List.length process_state) = true.
Proof. vm_compute. split; reflexivity. Qed.

(* the checker does flag what the seeded in-memory caches looked like *)
Example holds_process_state_flags :
  map holds_process_state ["x/beacon/keeper: Keeper.params *paramsCache"; "x/wrkchain/keeper: Keeper.ownerCache *sync.Map";
                           "x/beacon/keeper: Keeper.owners map[uint64]sdk.AccAddress"; "x/stream/keeper: var lastSeen int64";
                           "x/stream/keeper: Keeper.authority string"] = [true; true; true; true; false].
Proof. vm_compute. reflexivity. Qed.
